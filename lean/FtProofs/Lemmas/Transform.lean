/-
  Helper lemmas for C09 (rank transforms): sorting, content of well-formed trees is strictly
  ascending, extraction / rebuilding (swizzle), monotone merges (flatten), unflatten.
-/
import FtModel.Transform
import FtProofs.Lemmas.Sorted
import FtProofs.Lemmas.Merge
import FtProofs.Lemmas.Content
import FtProofs.Lemmas.EqLemmas
set_option linter.unusedSectionVars false
set_option linter.unusedSimpArgs false
set_option linter.unusedVariables false
namespace Ft
namespace C09
open StrictTotal

/-! ### `mapM?` -/

theorem mapM?_eq_some {α β : Type} (g : α → Option β) (h : α → β) :
    ∀ l : List α, (∀ a ∈ l, g a = some (h a)) → mapM? g l = some (l.map h)
  | [], _ => rfl
  | a :: r, hl => by
    have h1 := hl a (List.mem_cons_self ..)
    have h2 := mapM?_eq_some g h r (fun b hb => hl b (List.mem_cons_of_mem _ hb))
    simp [mapM?, h1, h2]

section sort
variable {κ : Type} [LT κ] [DecidableRel (α := κ) (· < ·)] [DecidableEq κ] [StrictTotal κ]
variable {π : Type}

theorem insSorted_perm (x : κ × π) : ∀ l : Fib κ π, (insSorted x l).Perm (x :: l)
  | [] => List.Perm.refl _
  | y :: r => by
    unfold insSorted
    split
    · exact List.Perm.refl _
    · exact ((insSorted_perm x r).cons y).trans (List.Perm.swap x y r)

theorem isort_perm : ∀ l : Fib κ π, (isort l).Perm l
  | [] => List.Perm.refl _
  | x :: r => (insSorted_perm x (isort r)).trans ((isort_perm r).cons x)

theorem insSorted_sorted (x : κ × π) : ∀ l : Fib κ π, Sorted l → (∀ y ∈ l, y.1 ≠ x.1) →
    Sorted (insSorted x l)
  | [], _, _ => List.pairwise_singleton _ _
  | y :: r, hs, hne => by
    unfold insSorted
    split
    · rename_i hlt
      refine List.Pairwise.cons ?_ hs
      intro z hz
      rcases List.mem_cons.1 hz with rfl | hz
      · exact hlt
      · exact trans hlt (hs.head_lt z hz)
    · rename_i hnlt
      have hyx : y.1 < x.1 := by
        rcases tri x.1 y.1 with h | h | h
        · exact absurd h hnlt
        · exact absurd h.symm (hne y (List.mem_cons_self ..))
        · exact h
      have ih := insSorted_sorted x r hs.tail (fun z hz => hne z (List.mem_cons_of_mem _ hz))
      refine List.Pairwise.cons ?_ ih
      intro z hz
      rcases List.mem_cons.1 ((insSorted_perm x r).mem_iff.1 hz) with rfl | hz
      · exact hyx
      · exact hs.head_lt z hz

theorem isort_sorted : ∀ l : Fib κ π, l.Pairwise (fun a b => a.1 ≠ b.1) → Sorted (isort l)
  | [], _ => List.Pairwise.nil
  | x :: r, h => by
    have h' := List.pairwise_cons.1 h
    apply insSorted_sorted x (isort r) (isort_sorted r h'.2)
    intro y hy
    exact (h'.1 y ((isort_perm r).mem_iff.1 hy)).symm

theorem sorted_keys_ne {l : Fib κ π} (h : Sorted l) : l.Pairwise (fun a b => a.1 ≠ b.1) :=
  List.Pairwise.imp (fun hab => lt_ne hab) h

/-- a strictly ascending list is determined by its elements -/
theorem sorted_perm_eq {a b : Fib κ π} (ha : Sorted a) (hb : Sorted b) (hp : a.Perm b) : a = b :=
  List.Perm.eq_of_pairwise (le := fun (x y : κ × π) => x.1 < y.1)
    (fun x y _ _ hxy hyx => absurd (StrictTotal.trans hxy hyx) (StrictTotal.irrefl x.1))
    (show List.Pairwise (fun (x y : κ × π) => x.1 < y.1) a from ha)
    (show List.Pairwise (fun (x y : κ × π) => x.1 < y.1) b from hb) hp

theorem eq_isort_of_sorted_perm {a l : Fib κ π} (ha : Sorted a) (hp : a.Perm l) : a = isort l := by
  have hne : l.Pairwise (fun a b => a.1 ≠ b.1) :=
    (List.Perm.pairwise_iff (fun h => Ne.symm h) hp).1 (sorted_keys_ne ha)
  exact sorted_perm_eq ha (isort_sorted l hne) (hp.trans (isort_perm l).symm)

theorem isort_eq_self {l : Fib κ π} (h : Sorted l) : isort l = l :=
  (eq_isort_of_sorted_perm h (List.Perm.refl l)).symm

end sort

/-! ### the content of a well-formed tree is strictly ascending (lexicographically) -/

section content
variable {κ : Type} [LT κ] [DecidableRel (α := κ) (· < ·)] [DecidableEq κ] [StrictTotal κ]
variable {ν : Type} [DecidableEq ν]

theorem pre_sorted (c : κ) {l : List (List κ × ν)} (h : Sorted (κ := List κ) l) :
    Sorted (κ := List κ) (pre c l) := by
  unfold pre Sorted
  rw [List.pairwise_map]
  exact List.Pairwise.imp (fun hab => List.cons_lt_cons_iff.2 (Or.inr ⟨rfl, hab⟩)) h

theorem mem_pre {c : κ} {l : List (List κ × ν)} {x : List κ × ν} (h : x ∈ pre c l) :
    ∃ y ∈ l, x = (c :: y.1, y.2) := by
  unfold pre at h
  obtain ⟨y, hy, rfl⟩ := List.mem_map.1 h
  exact ⟨y, hy, rfl⟩

theorem content_sorted (dflt : ν) : ∀ (d : Nat) (t : Tree κ ν d), WF d t →
    Sorted (κ := List κ) (content dflt d t)
  | 0, v, _ => by
    show Sorted (κ := List κ) (if (show ν from v) = dflt then [] else [([], (show ν from v))])
    split
    · exact List.Pairwise.nil
    · exact List.pairwise_singleton _ _
  | d + 1, f, h => by
    rw [content_succ]
    have hs : Sorted (show List (κ × Tree κ ν d) from f) := h.1
    have hw : ∀ e ∈ (show List (κ × Tree κ ν d) from f), WF d e.2 := h.2
    generalize (show List (κ × Tree κ ν d) from f) = l at hs hw
    induction l with
    | nil => exact List.Pairwise.nil
    | cons e r ih =>
      rw [List.flatMap_cons]
      unfold Sorted
      rw [List.pairwise_append]
      refine ⟨pre_sorted e.1 (content_sorted dflt d e.2 (hw e (List.mem_cons_self ..))),
        ih hs.tail (fun x hx => hw x (List.mem_cons_of_mem _ hx)), ?_⟩
      intro a ha b hb
      obtain ⟨y, _, rfl⟩ := mem_pre ha
      obtain ⟨e', he', hb'⟩ := List.mem_flatMap.1 hb
      obtain ⟨y', _, rfl⟩ := mem_pre hb'
      exact List.cons_lt_cons_iff.2 (Or.inl (hs.head_lt e' he'))

/-- a well-formed tree's content is the ascending arrangement of any permutation of it -/
theorem content_eq_isort_of_perm {dflt : ν} {d : Nat} {t : Tree κ ν d} (h : WF d t)
    {L : List (List κ × ν)} (hp : (content dflt d t).Perm L) :
    content dflt d t = isort (κ := List κ) L :=
  eq_isort_of_sorted_perm (content_sorted dflt d t h) hp

end content

/-! ### swizzle: extraction and rebuilding -/

section swz
variable {κ : Type} [LT κ] [DecidableRel (α := κ) (· < ·)] [DecidableEq κ] [StrictTotal κ]
variable {ν : Type} [DecidableEq ν]

theorem content_point_length (dflt : ν) : ∀ (d : Nat) (t : Tree κ ν d) (pv : List κ × ν),
    pv ∈ content dflt d t → pv.1.length = d
  | 0, v, pv, h => by
    have h' : pv ∈ (if (show ν from v) = dflt then [] else [([], (show ν from v))]) := h
    split at h'
    · cases h'
    · rw [List.mem_singleton.1 h']; rfl
  | d + 1, f, pv, h => by
    rw [content_succ] at h
    obtain ⟨e, _, he⟩ := List.mem_flatMap.1 h
    obtain ⟨y, hy, rfl⟩ := mem_pre he
    simp [content_point_length dflt d e.2 y hy]

/-- the content below a list of (coordinates, sub-tree) entries -/
def below (dflt : ν) (r : Nat) (l : List (List κ × Tree κ ν r)) : List (List κ × ν) :=
  l.flatMap (fun q => (content dflt r q.2).map (fun pv => (q.1 ++ pv.1, pv.2)))

theorem below_cons (dflt : ν) (r : Nat) (q : List κ × Tree κ ν r) (l) :
    below dflt r (q :: l) = (content dflt r q.2).map (fun pv => (q.1 ++ pv.1, pv.2)) ++ below dflt r l := by
  unfold below; rw [List.flatMap_cons]

theorem below_append (dflt : ν) (r : Nat) (l₁ l₂ : List (List κ × Tree κ ν r)) :
    below dflt r (l₁ ++ l₂) = below dflt r l₁ ++ below dflt r l₂ := by
  unfold below; rw [List.flatMap_append]

theorem below_map_cons (dflt : ν) (r : Nat) (c : κ) (l : List (List κ × Tree κ ν r)) :
    below dflt r (l.map (fun q => (c :: q.1, q.2))) = pre c (below dflt r l) := by
  induction l with
  | nil => rfl
  | cons q l ih =>
    rw [List.map_cons, below_cons, below_cons, ih]
    unfold pre
    rw [List.map_append, List.map_map]
    rfl

theorem content_extract (dflt : ν) (r : Nat) : ∀ (k : Nat) (t : Tree κ ν (r + k)),
    content dflt (r + k) t = below dflt r (extract r k t)
  | 0, t => by
    show content dflt r t = below dflt r [([], t)]
    rw [below_cons]
    simp [below]
  | k + 1, f => by
    show content dflt (r + k + 1) f = below dflt r (extract r (k + 1) f)
    rw [content_succ]
    unfold extract
    generalize (show List (κ × Tree κ ν (r + k)) from f) = l
    induction l with
    | nil => rfl
    | cons e l ih =>
      rw [List.flatMap_cons, List.flatMap_cons, below_append, below_map_cons, ih,
        content_extract dflt r k e.2]

theorem extract_length (r : Nat) : ∀ (k : Nat) (t : Tree κ ν (r + k)) (q : List κ × Tree κ ν r),
    q ∈ extract r k t → q.1.length = k
  | 0, t, q, h => by
    have : q = ([], t) := List.mem_singleton.1 h
    rw [this]; rfl
  | k + 1, f, q, h => by
    unfold extract at h
    obtain ⟨e, _, he⟩ := List.mem_flatMap.1 h
    obtain ⟨q', hq', rfl⟩ := List.mem_map.1 he
    simp [extract_length r k e.2 q' hq']

theorem extract_wf (r : Nat) : ∀ (k : Nat) (t : Tree κ ν (r + k)), WF (r + k) t →
    ∀ q ∈ extract r k t, WF r q.2
  | 0, t, hw, q, h => by
    have : q = ([], t) := List.mem_singleton.1 h
    rw [this]; exact hw
  | k + 1, f, hw, q, h => by
    unfold extract at h
    obtain ⟨e, he', he⟩ := List.mem_flatMap.1 h
    obtain ⟨q', hq', rfl⟩ := List.mem_map.1 he
    exact extract_wf r k e.2 (hw.2 e he') q' hq'

theorem extract_sorted (r : Nat) : ∀ (k : Nat) (t : Tree κ ν (r + k)), WF (r + k) t →
    Sorted (κ := List κ) (extract r k t)
  | 0, t, _ => List.pairwise_singleton _ _
  | k + 1, f, h => by
    unfold extract
    have hs : Sorted (show List (κ × Tree κ ν (r + k)) from f) := h.1
    have hw : ∀ e ∈ (show List (κ × Tree κ ν (r + k)) from f), WF (r + k) e.2 := h.2
    generalize (show List (κ × Tree κ ν (r + k)) from f) = l at hs hw
    induction l with
    | nil => exact List.Pairwise.nil
    | cons e l ih =>
      rw [List.flatMap_cons]
      unfold Sorted
      rw [List.pairwise_append]
      refine ⟨?_, ih hs.tail (fun x hx => hw x (List.mem_cons_of_mem _ hx)), ?_⟩
      · rw [List.pairwise_map]
        exact List.Pairwise.imp (fun hab => List.cons_lt_cons_iff.2 (Or.inr ⟨rfl, hab⟩))
          (extract_sorted r k e.2 (hw e (List.mem_cons_self ..)))
      · intro a ha b hb
        obtain ⟨y, _, rfl⟩ := List.mem_map.1 ha
        obtain ⟨e', he', hb'⟩ := List.mem_flatMap.1 hb
        obtain ⟨y', _, rfl⟩ := List.mem_map.1 hb'
        exact List.cons_lt_cons_iff.2 (Or.inl (hs.head_lt e' he'))

/-! #### `groupHeads` -/

theorem groupHeads_flat {α : Type} : ∀ l : List (List κ × α), (∀ q ∈ l, q.1 ≠ []) →
    (groupHeads l).flatMap (fun g => g.2.map (fun q => (g.1 :: q.1, q.2))) = l
  | [], _ => rfl
  | ([], a) :: rest, h => absurd rfl (h ([], a) (List.mem_cons_self ..))
  | (c :: p, a) :: rest, h => by
    have ih := groupHeads_flat rest (fun q hq => h q (List.mem_cons_of_mem _ hq))
    unfold groupHeads
    cases hg : groupHeads rest with
    | nil =>
      rw [hg] at ih
      simp at ih
      simp [ih]
    | cons g gs =>
      rw [hg] at ih
      obtain ⟨c', g⟩ := g
      simp only []
      split
      · rename_i hc
        subst hc
        rw [List.flatMap_cons] at ih ⊢
        simp only [List.map_cons, List.cons_append]
        rw [ih]
      · rw [List.flatMap_cons]
        simp only [List.map_cons, List.map_nil, List.cons_append, List.nil_append]
        rw [ih]

theorem mem_groupHeads {α : Type} {l : List (List κ × α)} (h : ∀ q ∈ l, q.1 ≠ [])
    {g : κ × List (List κ × α)} (hg : g ∈ groupHeads l) {q : List κ × α} (hq : q ∈ g.2) :
    (g.1 :: q.1, q.2) ∈ l := by
  rw [← groupHeads_flat l h]
  exact List.mem_flatMap.2 ⟨g, hg, List.mem_map.2 ⟨q, hq, rfl⟩⟩

theorem groupHeads_sorted {α : Type} : ∀ l : List (List κ × α), (∀ q ∈ l, q.1 ≠ []) →
    Sorted (κ := List κ) l →
    Sorted (groupHeads l) ∧ (∀ g ∈ groupHeads l, g.2 ≠ [] ∧ Sorted (κ := List κ) g.2)
  | [], _, _ => ⟨List.Pairwise.nil, fun _ h => by cases h⟩
  | ([], a) :: rest, h, _ => absurd rfl (h ([], a) (List.mem_cons_self ..))
  | (c :: p, a) :: rest, h, hs => by
    have hne := fun q hq => h q (List.mem_cons_of_mem _ hq)
    have ih := groupHeads_sorted rest hne hs.tail
    have hmem := fun g hg q hq => mem_groupHeads (l := rest) hne (g := g) hg (q := q) hq
    unfold groupHeads
    cases hg : groupHeads rest with
    | nil =>
      refine ⟨List.pairwise_singleton _ _, ?_⟩
      intro g hg'
      rw [List.mem_singleton.1 hg']
      exact ⟨by simp, List.pairwise_singleton _ _⟩
    | cons g gs =>
      rw [hg] at ih hmem
      obtain ⟨c', g⟩ := g
      have hgne : g ≠ [] := (ih.2 (c', g) (List.mem_cons_self ..)).1
      have hgs : Sorted (κ := List κ) g := (ih.2 (c', g) (List.mem_cons_self ..)).2
      -- every member of the first group lies in `rest`, hence above `(c :: p, a)`
      have hlt : ∀ q ∈ g, (c :: p) < (c' :: q.1) := fun q hq =>
        hs.head_lt (c' :: q.1, q.2) (hmem (c', g) (List.mem_cons_self ..) q hq)
      simp only []
      split
      · rename_i hc
        subst hc
        refine ⟨?_, ?_⟩
        · exact List.Pairwise.cons (fun z hz => ih.1.head_lt z hz) ih.1.tail
        · intro g' hg'
          rcases List.mem_cons.1 hg' with rfl | hg'
          · refine ⟨by simp, List.Pairwise.cons ?_ hgs⟩
            intro q hq
            rcases List.cons_lt_cons_iff.1 (hlt q hq) with h1 | ⟨_, h1⟩
            · exact absurd h1 (irrefl c)
            · exact h1
          · exact ih.2 g' (List.mem_cons_of_mem _ hg')
      · rename_i hc
        obtain ⟨q0, hq0⟩ := List.exists_mem_of_ne_nil g hgne
        have hcc : c < c' := by
          rcases List.cons_lt_cons_iff.1 (hlt q0 hq0) with h1 | ⟨h1, _⟩
          · exact h1
          · exact absurd h1 hc
        refine ⟨?_, ?_⟩
        · refine List.Pairwise.cons ?_ ih.1
          intro z hz
          rcases List.mem_cons.1 hz with rfl | hz
          · exact hcc
          · exact trans hcc (ih.1.head_lt z hz)
        · intro g' hg'
          rcases List.mem_cons.1 hg' with rfl | hg'
          · exact ⟨by simp, List.pairwise_singleton _ _⟩
          · exact ih.2 g' hg'

/-! #### `rebuild` -/

theorem content_rebuild (dflt : ν) (r : Nat) : ∀ (k : Nat) (l : List (List κ × Tree κ ν r)),
    (∀ q ∈ l, q.1.length = k + 1) →
    content dflt (r + (k + 1)) (rebuild r k l) = below dflt r l
  | 0, l, h => by
    show content dflt (r + 1) (rebuild r 0 l) = _
    rw [content_succ]
    unfold rebuild
    induction l with
    | nil => rfl
    | cons q l ih =>
      have hq := h q (List.mem_cons_self ..)
      obtain ⟨p, s⟩ := q
      match p, hq with
      | [c], _ =>
        have ih' := ih (fun q hq => h q (List.mem_cons_of_mem _ hq))
        simp only [List.filterMap_cons]
        rw [List.flatMap_cons, below_cons]
        simp only [] at ih' ⊢
        rw [ih']
        simp [pre]
  | k + 1, l, h => by
    show content dflt (r + (k + 1) + 1) (rebuild r (k + 1) l) = _
    have hne : ∀ q ∈ l, q.1 ≠ [] := fun q hq hn => by
      have := h q hq; rw [hn] at this; cases this
    rw [content_succ]
    unfold rebuild
    conv => rhs; rw [← groupHeads_flat l hne]
    have hg : ∀ g ∈ groupHeads l, ∀ q ∈ g.2, q.1.length = k + 1 := fun g hg q hq => by
      have := h _ (mem_groupHeads hne hg hq)
      simpa using this
    generalize groupHeads l = G at hg
    induction G with
    | nil => rfl
    | cons g G ih =>
      rw [List.map_cons, List.flatMap_cons, List.flatMap_cons, below_append, below_map_cons,
        ih (fun g' hg' => hg g' (List.mem_cons_of_mem _ hg'))]
      show pre g.1 (content dflt (r + (k + 1)) (rebuild r k g.2)) ++ _ = _
      rw [content_rebuild dflt r k g.2 (hg g (List.mem_cons_self ..))]

theorem mem_heads {α : Type} {l : List (List κ × α)} {e : κ × α}
    (h : e ∈ l.filterMap (fun q => match q.1 with | c :: _ => some (c, q.2) | [] => none)) :
    ∃ q ∈ l, (∃ p, q.1 = e.1 :: p) ∧ q.2 = e.2 := by
  obtain ⟨q, hq, hF⟩ := List.mem_filterMap.1 h
  refine ⟨q, hq, ?_⟩
  obtain ⟨p, a⟩ := q
  cases p with
  | nil => simp at hF
  | cons c p =>
    simp only [Option.some.injEq] at hF
    subst hF
    exact ⟨⟨p, rfl⟩, rfl⟩

theorem rebuild_wf (r : Nat) : ∀ (k : Nat) (l : List (List κ × Tree κ ν r)),
    (∀ q ∈ l, q.1.length = k + 1) → Sorted (κ := List κ) l → (∀ q ∈ l, WF r q.2) →
    WF (r + (k + 1)) (rebuild r k l)
  | 0, l, h, hs, hw => by
    show WF (r + 1) (rebuild r 0 l)
    unfold rebuild
    refine ⟨?_, ?_⟩
    · show Sorted (l.filterMap _)
      induction l with
      | nil => exact List.Pairwise.nil
      | cons q l ih =>
        have hq := h q (List.mem_cons_self ..)
        obtain ⟨p, s⟩ := q
        match p, hq with
        | [c], _ =>
          simp only [List.filterMap_cons]
          refine List.Pairwise.cons ?_ (ih (fun q hq => h q (List.mem_cons_of_mem _ hq)) hs.tail
            (fun q hq => hw q (List.mem_cons_of_mem _ hq)))
          intro e he
          obtain ⟨q, hq, ⟨p', hp'⟩, _⟩ := mem_heads he
          have := hs.head_lt q hq
          have hlen := h q (List.mem_cons_of_mem _ hq)
          rw [hp'] at this hlen
          have hp0 : p' = [] := by
            cases p' with
            | nil => rfl
            | cons _ _ => simp at hlen
          subst hp0
          rcases List.cons_lt_cons_iff.1 this with h1 | ⟨_, h1⟩
          · exact h1
          · exact absurd h1 (List.not_lt_nil _)
    · intro e he
      obtain ⟨q, hq, _, h2⟩ := mem_heads he
      rw [← h2]; exact hw q hq
  | k + 1, l, h, hs, hw => by
    show WF (r + (k + 1) + 1) (rebuild r (k + 1) l)
    have hne : ∀ q ∈ l, q.1 ≠ [] := fun q hq hn => by
      have := h q hq; rw [hn] at this; cases this
    have hG := groupHeads_sorted l hne hs
    unfold rebuild
    refine ⟨?_, ?_⟩
    · show Sorted ((groupHeads l).map _)
      unfold Sorted
      rw [List.pairwise_map]
      exact hG.1
    · intro e he
      obtain ⟨g, hg, rfl⟩ := List.mem_map.1 he
      apply rebuild_wf r k g.2
      · intro q hq
        have := h _ (mem_groupHeads hne hg hq)
        simpa using this
      · exact (hG.2 g hg).2
      · intro q hq
        exact hw (g.1 :: q.1, q.2) (mem_groupHeads hne hg hq)

/-! #### permutations of coordinates -/

/-- `guide` lists every rank index below `n` (a permutation of `range n`, as `swizzleRanks`
    asserts with `sorted(old_rank_ids) == sorted(rank_ids)`) -/
def GuideOk (n : Nat) (g : List Nat) : Prop :=
  g.length = n ∧ (∀ i ∈ g, i < n) ∧ (∀ i, i < n → i ∈ g)

def guideOkB (n : Nat) (g : List Nat) : Bool :=
  g.length == n && g.all (fun i => decide (i < n)) && (List.range n).all (fun i => g.contains i)

theorem guideOkB_iff (n : Nat) (g : List Nat) : guideOkB n g = true ↔ GuideOk n g := by
  simp [guideOkB, GuideOk, and_assoc]

theorem permute_length {g : List Nat} {p : List κ} (h : ∀ i ∈ g, i < p.length) :
    (permute g p).length = g.length := by
  unfold permute
  induction g with
  | nil => rfl
  | cons i g ih =>
    have hi := h i (List.mem_cons_self ..)
    have : p[i]? = some p[i] := List.getElem?_eq_getElem hi
    rw [List.filterMap_cons, this]
    simp [ih (fun j hj => h j (List.mem_cons_of_mem _ hj))]

theorem permute_append {g : List Nat} {p s : List κ} (h : ∀ i ∈ g, i < p.length) :
    permute g (p ++ s) = permute g p := by
  unfold permute
  apply filterMap_congr'
  intro i hi
  exact List.getElem?_append_left (h i hi)

theorem filterMap_getElem?_inj {g : List Nat} {p p' : List κ}
    (h : ∀ i ∈ g, i < p.length) (h' : ∀ i ∈ g, i < p'.length)
    (he : g.filterMap (fun i => p[i]?) = g.filterMap (fun i => p'[i]?)) :
    ∀ i ∈ g, p[i]? = p'[i]? := by
  induction g with
  | nil => intro i hi; cases hi
  | cons j g ih =>
    have hj := h j (List.mem_cons_self ..)
    have hj' := h' j (List.mem_cons_self ..)
    have e1 : p[j]? = some p[j] := List.getElem?_eq_getElem hj
    have e2 : p'[j]? = some p'[j] := List.getElem?_eq_getElem hj'
    rw [List.filterMap_cons, List.filterMap_cons, e1, e2] at he
    simp only [List.cons.injEq] at he
    intro i hi
    rcases List.mem_cons.1 hi with rfl | hi
    · rw [e1, e2, he.1]
    · exact ih (fun i hi => h i (List.mem_cons_of_mem _ hi)) (fun i hi => h' i (List.mem_cons_of_mem _ hi))
        he.2 i hi

theorem permute_injective {n : Nat} {g : List Nat} (hg : GuideOk n g) {p p' : List κ}
    (hp : p.length = n) (hp' : p'.length = n) (he : permute g p = permute g p') : p = p' := by
  apply List.ext_getElem?
  intro i
  by_cases hi : i < n
  · exact filterMap_getElem?_inj (fun j hj => hp ▸ hg.2.1 j hj) (fun j hj => hp' ▸ hg.2.1 j hj) he i
      (hg.2.2 i hi)
  · rw [List.getElem?_eq_none (by omega), List.getElem?_eq_none (by omega)]

theorem permPoint_append {n : Nat} {g : List Nat} (hg : GuideOk n g) {q s : List κ} (hq : q.length = n) :
    permPoint g (q ++ s) = permute g q ++ s := by
  unfold permPoint
  rw [permute_append (fun i hi => hq ▸ hg.2.1 i hi), hg.1, ← hq, List.drop_left]

theorem permute_range : ∀ (n : Nat) (p : List κ), n ≤ p.length → permute (List.range n) p = p.take n
  | 0, p, _ => by simp [permute]
  | n + 1, p, h => by
    have ih := permute_range n p (by omega)
    unfold permute at ih ⊢
    rw [List.range_succ, List.filterMap_append, ih]
    have : p[n]? = some p[n] := List.getElem?_eq_getElem (by omega)
    rw [List.take_succ, this, List.filterMap_cons, this, List.filterMap_nil]
    rfl

theorem permPoint_range (n : Nat) (p : List κ) (h : n ≤ p.length) : permPoint (List.range n) p = p := by
  unfold permPoint
  rw [permute_range n p h, List.length_range, List.take_append_drop]

theorem below_map_permute (dflt : ν) (r : Nat) {n : Nat} {g : List Nat} (hg : GuideOk n g)
    (l : List (List κ × Tree κ ν r)) (hl : ∀ q ∈ l, q.1.length = n) :
    below dflt r (l.map (fun q => (permute g q.1, q.2))) =
      (below dflt r l).map (fun pv => (permPoint g pv.1, pv.2)) := by
  induction l with
  | nil => rfl
  | cons q l ih =>
    rw [List.map_cons, below_cons, below_cons, List.map_append,
      ih (fun q hq => hl q (List.mem_cons_of_mem _ hq)), List.map_map]
    congr 1
    apply List.map_congr_left
    intro pv _
    simp only [Function.comp]
    rw [permPoint_append hg (hl q (List.mem_cons_self ..))]

/-- `swizzleRanks` is correct: the result is well-formed and every point has moved to its
    permuted image (the content is the ascending arrangement of the images) -/
theorem swizzle_wf_content (dflt : ν) (r k : Nat) (g : List Nat) (hg : GuideOk (k + 1) g)
    (t : Tree κ ν (r + (k + 1))) (hw : WF (r + (k + 1)) t) :
    WF (r + (k + 1)) (swizzle r k g t) ∧
    content dflt (r + (k + 1)) (swizzle r k g t) = swizzleSpec g (content dflt (r + (k + 1)) t) := by
  unfold swizzle swizzleSpec
  split
  · rename_i hid
    refine ⟨hw, ?_⟩
    have : (content dflt (r + (k + 1)) t).map (fun pv => (permPoint g pv.1, pv.2)) =
        content dflt (r + (k + 1)) t := by
      conv => rhs; rw [← List.map_id (content dflt (r + (k + 1)) t)]
      apply List.map_congr_left
      intro pv hpv
      have := content_point_length dflt _ t pv hpv
      rw [hid, permPoint_range (k + 1) pv.1 (by omega)]
      rfl
    rw [this]
    exact (isort_eq_self (content_sorted dflt _ t hw)).symm
  · have hlen : ∀ q ∈ extract r (k + 1) t, q.1.length = k + 1 := extract_length r (k + 1) t
    have hsort := extract_sorted r (k + 1) t hw
    have hwf := extract_wf r (k + 1) t hw
    -- the permuted entries
    have hL : ∀ q ∈ (extract r (k + 1) t).map (fun q => (permute g q.1, q.2)),
        q.1.length = k + 1 ∧ WF r q.2 := by
      intro q hq
      obtain ⟨q', hq', rfl⟩ := List.mem_map.1 hq
      refine ⟨?_, hwf q' hq'⟩
      show (permute g q'.1).length = k + 1
      rw [permute_length (fun i hi => (hlen q' hq') ▸ hg.2.1 i hi), hg.1]
    have hne : ((extract r (k + 1) t).map (fun q => (permute g q.1, q.2))).Pairwise
        (fun a b => a.1 ≠ b.1) := by
      rw [List.pairwise_map]
      refine List.Pairwise.imp_of_mem ?_ (sorted_keys_ne hsort)
      intro a b ha hb hab he
      exact hab (permute_injective hg (hlen a ha) (hlen b hb) he)
    have hs := isort_sorted (κ := List κ) _ hne
    have hp := isort_perm (κ := List κ) ((extract r (k + 1) t).map (fun q => (permute g q.1, q.2)))
    have hL' : ∀ q ∈ isort (κ := List κ) ((extract r (k + 1) t).map (fun q => (permute g q.1, q.2))),
        q.1.length = k + 1 ∧ WF r q.2 := fun q hq => hL q (hp.mem_iff.1 hq)
    have hwfR := rebuild_wf r k _ (fun q hq => (hL' q hq).1) hs (fun q hq => (hL' q hq).2)
    refine ⟨hwfR, ?_⟩
    apply content_eq_isort_of_perm hwfR
    rw [content_rebuild dflt r k _ (fun q hq => (hL' q hq).1)]
    unfold below
    refine (List.Perm.flatMap_right _ hp).trans ?_
    have := below_map_permute dflt r hg (extract r (k + 1) t) hlen
    unfold below at this
    rw [this]
    have hc := content_extract dflt r (k + 1) t
    unfold below at hc
    rw [← hc]

end swz

/-! ### flatten: merges whose new coordinates come out ascending never collide -/

section flat
variable {κ : Type} [LT κ] [DecidableRel (α := κ) (· < ·)] [DecidableEq κ] [StrictTotal κ]
variable {ν : Type} [DecidableEq ν]

theorem insGroup_append {π : Type} : ∀ (acc : Fib κ (List π)) (c : κ) (p : π),
    (∀ e ∈ acc, e.1 < c) → insGroup acc c p = acc ++ [(c, [p])]
  | [], _, _, _ => rfl
  | e :: r, c, p, h => by
    unfold insGroup
    rw [if_pos (h e (List.mem_cons_self ..)),
      insGroup_append r c p (fun x hx => h x (List.mem_cons_of_mem _ hx))]
    rfl

theorem foldl_insGroup_sorted {π : Type} : ∀ (pairs : Fib κ π) (acc : Fib κ (List π)),
    Sorted pairs → (∀ e ∈ acc, ∀ x ∈ pairs, e.1 < x.1) →
    pairs.foldl (fun acc x => insGroup acc x.1 x.2) acc = acc ++ pairs.map (fun x => (x.1, [x.2]))
  | [], acc, _, _ => by simp
  | x :: rest, acc, hs, h => by
    rw [List.foldl_cons, insGroup_append acc x.1 x.2 (fun e he => h e he x (List.mem_cons_self ..)),
      foldl_insGroup_sorted rest _ hs.tail]
    · simp
    · intro e he y hy
      rcases List.mem_append.1 he with he | he
      · exact h e he y (List.mem_cons_of_mem _ hy)
      · rw [List.mem_singleton.1 he]; exact hs.head_lt y hy

theorem gather_sorted {π : Type} (comb : κ → κ → κ) (rows : Fib κ (Fib κ π))
    (hs : Sorted (pairsOf comb rows)) :
    gather comb rows = (pairsOf comb rows).map (fun x => (x.1, [x.2])) := by
  unfold gather
  rw [foldl_insGroup_sorted _ [] hs (fun e he => by cases he)]
  rfl

theorem mergeTrees_singleton (mf : List ν → Option ν) (z : ν) :
    ∀ (r : Nat) (x : Tree κ ν r × ν), mergeTrees mf z r [x] = some x
  | 0, _ => rfl
  | _ + 1, _ => rfl

theorem mergeRows_sorted (comb : κ → κ → κ) (mf : List ν → Option ν) (z : ν) (r : Nat)
    (rows : Fib κ (Fib κ (Tree κ ν r × ν))) (hs : Sorted (pairsOf comb rows)) :
    mergeRows comb mf z r rows = some (pairsOf comb rows) := by
  unfold mergeRows
  rw [gather_sorted comb rows hs,
    mapM?_eq_some _ (fun row => (row.1, row.2.headD (defaultTree z r, z)))]
  · rw [List.map_map]
    congr 1
    conv => rhs; rw [← List.map_id (pairsOf comb rows)]
    apply List.map_congr_left
    intro x _; rfl
  · intro row hrow
    obtain ⟨x, _, rfl⟩ := List.mem_map.1 hrow
    simp [mergeTrees_singleton]

theorem pairsOf_map_tag {π : Type} (comb : κ → κ → κ) (d : ν) (rows : Fib κ (Fib κ π)) :
    pairsOf comb (rows.map (fun e => (e.1, tagWith d e.2))) = tagWith d (pairsOf comb rows) := by
  unfold pairsOf tagWith
  induction rows with
  | nil => rfl
  | cons e rows ih =>
    simp only [List.map_cons, List.flatMap_cons, List.map_append, List.map_map] at ih ⊢
    rw [ih]
    rfl

theorem untag_tagWith {π : Type} (d : ν) (f : Fib κ π) : untag (tagWith d f) = f := by
  unfold untag tagWith
  rw [List.map_map]
  conv => rhs; rw [← List.map_id f]
  apply List.map_congr_left
  intro x _; rfl

theorem tagWith_sorted {π : Type} (d : ν) {f : Fib κ π} (h : Sorted f) : Sorted (tagWith d f) := by
  unfold tagWith Sorted
  rw [List.pairwise_map]
  exact h

/-- the ideal flattening of the top two ranks: every presented lower element under its combined
    coordinate, in traversal order -/
def flat2 (comb : κ → κ → κ) (dflt : ν) (r : Nat) (f : Tree κ ν (r + 2)) : Tree κ ν (r + 1) :=
  show List (κ × Tree κ ν r) from
    pairsOf comb ((show List (κ × Tree κ ν (r + 1)) from f).map (fun e => (e.1, present dflt r e.2)))

theorem merge2T_sorted (comb : κ → κ → κ) (mf : List ν → Option ν) (z dflt : ν) (r : Nat)
    (f : Tree κ ν (r + 2)) (hs : Sorted (show List (κ × Tree κ ν r) from flat2 comb dflt r f)) :
    merge2T comb mf z dflt r f =
      some (tagWith dflt (show List (κ × Tree κ ν r) from flat2 comb dflt r f)) := by
  unfold merge2T
  have e := pairsOf_map_tag comb dflt
    ((show List (κ × Tree κ ν (r + 1)) from f).map (fun e => (e.1, present dflt r e.2)))
  rw [List.map_map] at e
  have e' : (show List (κ × Tree κ ν (r + 1)) from f).map
      (fun e => (e.1, tagWith dflt (present dflt r e.2))) =
      (show List (κ × Tree κ ν (r + 1)) from f).map
        ((fun e => (e.1, tagWith dflt e.2)) ∘ (fun e => (e.1, present dflt r e.2))) := rfl
  rw [e', mergeRows_sorted, e]
  · rfl
  · rw [e]; exact tagWith_sorted dflt hs

theorem content_flat2 (comb : κ → κ → κ) (dflt : ν) (r : Nat) (f : Tree κ ν (r + 2)) :
    content dflt (r + 1) (flat2 comb dflt r f) =
      (content dflt (r + 2) f).map (fun pv => (join2 comb pv.1, pv.2)) := by
  have key : ∀ l : List (κ × Tree κ ν (r + 1)),
      (pairsOf comb (l.map (fun e => (e.1, present dflt r e.2)))).flatMap
          (fun e => pre e.1 (content dflt r e.2)) =
        (l.flatMap (fun e => pre e.1 (content dflt (r + 1) e.2))).map
          (fun pv => (join2 comb pv.1, pv.2)) := by
    intro l
    unfold pairsOf
    induction l with
    | nil => rfl
    | cons e l ih =>
      simp only [List.map_cons, List.flatMap_cons, List.flatMap_append, List.map_append] at ih ⊢
      rw [ih]
      congr 1
      rw [content_present]
      generalize present dflt r e.2 = pl
      induction pl with
      | nil => rfl
      | cons x pl ih2 =>
        simp only [List.map_cons, List.flatMap_cons, pre, List.map_append, List.map_map] at ih2 ⊢
        rw [ih2]
        rfl
  exact key _

/-- the ideal flattening of `l+2` ranks, lowest pair first -/
def flatLv (comb : Nat → κ → κ → κ) (dflt : ν) (r : Nat) : (l : Nat) → Tree κ ν (r + 2 + l) → Tree κ ν (r + 1)
  | 0, f => flat2 (comb 0) dflt r f
  | l + 1, f => flat2 (comb (l + 1)) dflt r
      (show List (κ × Tree κ ν (r + 1)) from
        (show List (κ × Tree κ ν (r + 2 + l)) from f).map (fun e => (e.1, flatLv comb dflt r l e.2)))

/-- the new coordinates come out ascending at every level (no collision, nothing to sort) -/
def MonoLv (comb : Nat → κ → κ → κ) (dflt : ν) (r : Nat) : (l : Nat) → Tree κ ν (r + 2 + l) → Prop
  | 0, f => Sorted (show List (κ × Tree κ ν r) from flatLv comb dflt r 0 f)
  | l + 1, f => (∀ e ∈ (show List (κ × Tree κ ν (r + 2 + l)) from f), MonoLv comb dflt r l e.2) ∧
      Sorted (show List (κ × Tree κ ν r) from flatLv comb dflt r (l + 1) f)

def monoLvB (comb : Nat → κ → κ → κ) (dflt : ν) (r : Nat) : (l : Nat) → Tree κ ν (r + 2 + l) → Bool
  | 0, f => sortedB (show List (κ × Tree κ ν r) from flatLv comb dflt r 0 f)
  | l + 1, f => (show List (κ × Tree κ ν (r + 2 + l)) from f).all (fun e => monoLvB comb dflt r l e.2) &&
      sortedB (show List (κ × Tree κ ν r) from flatLv comb dflt r (l + 1) f)

theorem monoLvB_iff (comb : Nat → κ → κ → κ) (dflt : ν) (r : Nat) :
    ∀ (l : Nat) (f : Tree κ ν (r + 2 + l)), monoLvB comb dflt r l f = true ↔ MonoLv comb dflt r l f
  | 0, f => sortedB_iff _
  | l + 1, f => by
    unfold monoLvB MonoLv
    rw [Bool.and_eq_true, List.all_eq_true, sortedB_iff]
    constructor
    · intro h; exact ⟨fun e he => (monoLvB_iff comb dflt r l e.2).1 (h.1 e he), h.2⟩
    · intro h; exact ⟨fun e he => (monoLvB_iff comb dflt r l e.2).2 (h.1 e he), h.2⟩

theorem MonoLv.sorted {comb : Nat → κ → κ → κ} {dflt : ν} {r : Nat} :
    ∀ {l : Nat} {f : Tree κ ν (r + 2 + l)}, MonoLv comb dflt r l f →
      Sorted (show List (κ × Tree κ ν r) from flatLv comb dflt r l f)
  | 0, _, h => h
  | _ + 1, _, h => h.2

theorem presentT_tagWith (dflt : ν) (ok : Bool) : ∀ (r : Nat) (sub : List (κ × Tree κ ν r)),
    presentT dflt dflt ok r (tagWith dflt sub) =
      tagWith dflt (present dflt r (show Tree κ ν (r + 1) from sub))
  | 0, sub => by
    show List.filter (fun e => !isEmpty (κ := κ) (if ok then dflt else dflt) 0 e.2.1)
        (List.map (fun e => (e.1, (e.2, dflt))) sub) =
      List.map (fun e => (e.1, (e.2, dflt))) (List.filter (fun e => !isEmpty dflt 0 e.2) sub)
    rw [List.filter_map]
    congr 1
    apply filter_congr'
    intro e _
    cases ok <;> rfl
  | r + 1, sub => by
    show List.filter (fun e => !isEmpty e.2.2 (r + 1) e.2.1)
        (List.map (fun e => (e.1, (e.2, dflt))) sub) =
      List.map (fun e => (e.1, (e.2, dflt))) (List.filter (fun e => !isEmpty dflt (r + 1) e.2) sub)
    rw [List.filter_map]
    rfl

/-- with default 0 (`z = dflt`) and a non-linear style, `_mergeRanksHelper` computes the ideal
    flattening whenever the new coordinates come out ascending -/
theorem mergeLvT_mono (comb : Nat → κ → κ → κ) (mf : List ν → Option ν) (dflt : ν) (r : Nat) :
    ∀ (l : Nat) (f : Tree κ ν (r + 2 + l)), MonoLv comb dflt r l f →
      mergeLvT false dflt comb mf dflt r l f =
        some (tagWith dflt (show List (κ × Tree κ ν r) from flatLv comb dflt r l f))
  | 0, f, h => merge2T_sorted (comb 0) mf dflt dflt r f h
  | l + 1, f, h => by
    unfold mergeLvT
    have hsub : mapM? (fun e => (mergeLvT false dflt comb mf dflt r l e.2).bind (fun t =>
              let ok := lastOk r l e.2
              let pr := presentT dflt dflt ok r t
              if false && !ok && !pr.isEmpty then none else some (e.1, pr)))
            (show List (κ × Tree κ ν (r + 2 + l)) from f) =
        some ((show List (κ × Tree κ ν (r + 2 + l)) from f).map (fun e =>
          (e.1, tagWith dflt (present dflt r (flatLv comb dflt r l e.2))))) := by
      apply mapM?_eq_some
      intro e he
      rw [mergeLvT_mono comb mf dflt r l e.2 (h.1 e he)]
      simp only [Option.bind_some, Bool.false_and, Bool.false_eq_true, if_false]
      exact congrArg (fun x => some (e.1, x))
        (presentT_tagWith dflt (lastOk r l e.2) r (show List (κ × Tree κ ν r) from flatLv comb dflt r l e.2))
    rw [hsub]
    simp only []
    have e := pairsOf_map_tag (comb (l + 1)) dflt
      ((show List (κ × Tree κ ν (r + 2 + l)) from f).map
        (fun e => (e.1, present dflt r (flatLv comb dflt r l e.2))))
    rw [List.map_map] at e
    have hs : Sorted (show List (κ × Tree κ ν r) from flatLv comb dflt r (l + 1) f) := h.2
    have hflat : (show List (κ × Tree κ ν r) from flatLv comb dflt r (l + 1) f) =
        pairsOf (comb (l + 1)) ((show List (κ × Tree κ ν (r + 2 + l)) from f).map
          (fun e => (e.1, present dflt r (flatLv comb dflt r l e.2)))) := by
      show pairsOf (comb (l + 1)) (((show List (κ × Tree κ ν (r + 2 + l)) from f).map
        (fun e => (e.1, flatLv comb dflt r l e.2))).map (fun e => (e.1, present dflt r e.2))) = _
      rw [List.map_map]; rfl
    have e' : (show List (κ × Tree κ ν (r + 2 + l)) from f).map
        (fun e => (e.1, tagWith dflt (present dflt r (flatLv comb dflt r l e.2)))) =
        (show List (κ × Tree κ ν (r + 2 + l)) from f).map
          ((fun e => (e.1, tagWith dflt e.2)) ∘ (fun e => (e.1, present dflt r (flatLv comb dflt r l e.2)))) := rfl
    rw [e', mergeRows_sorted, e]
    · exact congrArg (fun x => some (tagWith dflt x)) hflat.symm
    · rw [e]; exact tagWith_sorted dflt (by rw [← hflat]; exact hs)

theorem mergeLv_mono (comb : Nat → κ → κ → κ) (mf : List ν → Option ν) (dflt : ν) (r l : Nat)
    (f : Tree κ ν (r + 2 + l)) (h : MonoLv comb dflt r l f) :
    mergeLv false dflt comb mf dflt r l f = some (flatLv comb dflt r l f) := by
  unfold mergeLv
  rw [mergeLvT_mono comb mf dflt r l f h]
  exact congrArg some (untag_tagWith dflt (show List (κ × Tree κ ν r) from flatLv comb dflt r l f))

theorem content_flatLv (comb : Nat → κ → κ → κ) (dflt : ν) (r : Nat) :
    ∀ (l : Nat) (f : Tree κ ν (r + 2 + l)),
      content dflt (r + 1) (flatLv comb dflt r l f) =
        (content dflt (r + 2 + l) f).map (fun pv => (joinTop comb l pv.1, pv.2))
  | 0, f => content_flat2 (comb 0) dflt r f
  | l + 1, f => by
    refine (content_flat2 (comb (l + 1)) dflt r _).trans ?_
    show List.map _ (List.flatMap _ ((show List (κ × Tree κ ν (r + 2 + l)) from f).map _)) =
      List.map _ (List.flatMap _ (show List (κ × Tree κ ν (r + 2 + l)) from f))
    generalize (show List (κ × Tree κ ν (r + 2 + l)) from f) = lf
    induction lf with
    | nil => rfl
    | cons e lf ih =>
      simp only [List.map_cons, List.flatMap_cons, List.map_append] at ih ⊢
      rw [ih]
      congr 1
      rw [content_flatLv comb dflt r l e.2]
      simp only [pre, List.map_map]
      apply List.map_congr_left
      intro pv _
      rfl

end flat

/-! ### unflatten -/

section unflat
variable {κ : Type} [LT κ] [DecidableRel (α := κ) (· < ·)] [DecidableEq κ] [StrictTotal κ]
variable {ν : Type} [DecidableEq ν]

theorem content_append (dflt : ν) (d : Nat) (a b : List (κ × Tree κ ν d)) :
    content dflt (d + 1) (show Tree κ ν (d + 1) from a ++ b) =
      content dflt (d + 1) (show Tree κ ν (d + 1) from a) ++ content dflt (d + 1) (show Tree κ ν (d + 1) from b) := by
  show List.flatMap _ (a ++ b) = List.flatMap _ a ++ List.flatMap _ b
  rw [List.flatMap_append]

theorem pre_append (c : κ) (a b : List (List κ × ν)) : pre c (a ++ b) = pre c a ++ pre c b := by
  unfold pre; rw [List.map_append]

/-- the order of tuple coordinates is the lexicographic order of (first component, rest) -/
def LexSplit (hd tl : κ → κ) : Prop :=
  ∀ a b : κ, a < b → hd a < hd b ∨ (hd a = hd b ∧ tl a < tl b)

/-- what the remaining elements must satisfy for the loop of `unflattenRanks` -/
def LoopOk {π : Type} (hd tl : κ → κ) (rest : Fib κ π) : Prop :=
  rest.Pairwise (fun x y => ¬ hd y.1 < hd x.1 ∧ (hd x.1 = hd y.1 → tl x.1 < tl y.1))

theorem loopOk_of_sorted {π : Type} {hd tl : κ → κ} (hH : LexSplit hd tl) {l : Fib κ π}
    (hs : Sorted l) : LoopOk hd tl l := by
  unfold LoopOk
  refine List.Pairwise.imp ?_ hs
  intro x y hxy
  rcases hH x.1 y.1 hxy with h | ⟨h1, h2⟩
  · exact ⟨lt_asymm' h, fun e => absurd (e ▸ h) (irrefl _)⟩
  · exact ⟨fun h => absurd (h1 ▸ h) (irrefl _), fun _ => h2⟩

/-- content of a fiber / of a fiber of fibers given as plain lists -/
def c1 (dflt : ν) (r : Nat) (cur : List (κ × Tree κ ν r)) : List (List κ × ν) :=
  cur.flatMap (fun e => pre e.1 (content dflt r e.2))
def c2 (dflt : ν) (r : Nat) (G : List (κ × List (κ × Tree κ ν r))) : List (List κ × ν) :=
  G.flatMap (fun g => pre g.1 (c1 dflt r g.2))

theorem c1_eq (dflt : ν) (r : Nat) (cur : List (κ × Tree κ ν r)) :
    content dflt (r + 1) (show Tree κ ν (r + 1) from cur) = c1 dflt r cur := rfl
theorem c2_eq (dflt : ν) (r : Nat) (G : List (κ × List (κ × Tree κ ν r))) :
    content dflt (r + 2) (show Tree κ ν (r + 2) from (show List (κ × Tree κ ν (r + 1)) from G)) =
      c2 dflt r G := rfl

theorem c1_append (dflt : ν) (r : Nat) (a b : List (κ × Tree κ ν r)) :
    c1 dflt r (a ++ b) = c1 dflt r a ++ c1 dflt r b := by
  unfold c1; rw [List.flatMap_append]

theorem c1_single (dflt : ν) (r : Nat) (e : κ × Tree κ ν r) :
    c1 dflt r [e] = pre e.1 (content dflt r e.2) := by
  unfold c1; simp

theorem c2_cons (dflt : ν) (r : Nat) (g : κ × List (κ × Tree κ ν r)) (G) :
    c2 dflt r (g :: G) = pre g.1 (c1 dflt r g.2) ++ c2 dflt r G := by
  unfold c2; rw [List.flatMap_cons]

theorem content_unflatLoop (dflt : ν) (r : Nat) (hd tl : κ → κ) :
    ∀ (rest : List (κ × Tree κ ν r)) (cl : κ) (cur : List (κ × Tree κ ν r)),
      LoopOk hd tl rest → (∀ x ∈ rest, ¬ hd x.1 < cl) →
      c2 dflt r (unflatLoop hd tl rest cl cur) =
        pre cl (c1 dflt r cur) ++
          rest.flatMap (fun x => pre (hd x.1) (pre (tl x.1) (content dflt r x.2)))
  | [], cl, cur, _, _ => by
    show c2 dflt r [(cl, cur)] = _
    rw [c2_cons]; rfl
  | x :: rest, cl, cur, hC, hA => by
    have hC' := List.pairwise_cons.1 hC
    unfold unflatLoop
    split
    · rename_i hlt
      have ih := content_unflatLoop dflt r hd tl rest (hd x.1) [(tl x.1, x.2)] hC'.2
        (fun y hy => (hC'.1 y hy).1)
      rw [c2_cons, ih, c1_single, List.flatMap_cons]
    · rename_i hnlt
      have heq : hd x.1 = cl := by
        rcases tri cl (hd x.1) with h | h | h
        · exact absurd h hnlt
        · exact h.symm
        · exact absurd h (hA x (List.mem_cons_self ..))
      have ih := content_unflatLoop dflt r hd tl rest cl (cur ++ [(tl x.1, x.2)]) hC'.2
        (fun y hy => hA y (List.mem_cons_of_mem _ hy))
      rw [ih, c1_append, pre_append, List.flatMap_cons, heq, c1_single, List.append_assoc]

theorem unflatLoop_wf (r : Nat) (hd tl : κ → κ) :
    ∀ (rest : List (κ × Tree κ ν r)) (cl : κ) (cur : List (κ × Tree κ ν r)),
      LoopOk hd tl rest → (∀ x ∈ rest, ¬ hd x.1 < cl) →
      (∀ x ∈ rest, hd x.1 = cl → ∀ e ∈ cur, e.1 < tl x.1) →
      Sorted cur → cur ≠ [] → (∀ e ∈ cur, WF r e.2) → (∀ x ∈ rest, WF r x.2) →
      Sorted (unflatLoop hd tl rest cl cur) ∧
      (∀ g ∈ unflatLoop hd tl rest cl cur, (g.1 = cl ∨ cl < g.1) ∧ g.2 ≠ [] ∧ Sorted g.2 ∧ ∀ e ∈ g.2, WF r e.2)
  | [], cl, cur, _, _, _, hs, hne, hw, _ => by
    refine ⟨List.pairwise_singleton _ _, ?_⟩
    intro g hg
    rw [List.mem_singleton.1 hg]
    exact ⟨Or.inl rfl, hne, hs, hw⟩
  | x :: rest, cl, cur, hC, hA, hB, hs, hne, hw, hwr => by
    have hC' := List.pairwise_cons.1 hC
    unfold unflatLoop
    split
    · rename_i hlt
      have ih := unflatLoop_wf r hd tl rest (hd x.1) [(tl x.1, x.2)] hC'.2
        (fun y hy => (hC'.1 y hy).1)
        (fun y hy he e he' => by
          rw [List.mem_singleton.1 he']
          exact (hC'.1 y hy).2 he.symm)
        (List.pairwise_singleton _ _) (by simp)
        (fun e he => by rw [List.mem_singleton.1 he]; exact hwr x (List.mem_cons_self ..))
        (fun y hy => hwr y (List.mem_cons_of_mem _ hy))
      refine ⟨List.Pairwise.cons ?_ ih.1, ?_⟩
      · intro g hg
        rcases (ih.2 g hg).1 with h | h
        · show cl < g.1
          rw [h]; exact hlt
        · exact trans hlt h
      · intro g hg
        rcases List.mem_cons.1 hg with rfl | hg
        · exact ⟨Or.inl rfl, hne, hs, hw⟩
        · have := ih.2 g hg
          refine ⟨Or.inr ?_, this.2⟩
          rcases this.1 with h | h
          · rw [h]; exact hlt
          · exact trans hlt h
    · rename_i hnlt
      have heq : hd x.1 = cl := by
        rcases tri cl (hd x.1) with h | h | h
        · exact absurd h hnlt
        · exact h.symm
        · exact absurd h (hA x (List.mem_cons_self ..))
      have hcur : Sorted (cur ++ [(tl x.1, x.2)]) := by
        unfold Sorted
        rw [List.pairwise_append]
        refine ⟨hs, List.pairwise_singleton _ _, ?_⟩
        intro a ha b hb
        rw [List.mem_singleton.1 hb]
        exact hB x (List.mem_cons_self ..) heq a ha
      exact unflatLoop_wf r hd tl rest cl (cur ++ [(tl x.1, x.2)]) hC'.2
        (fun y hy => hA y (List.mem_cons_of_mem _ hy))
        (fun y hy he e he' => by
          rcases List.mem_append.1 he' with he' | he'
          · exact hB y (List.mem_cons_of_mem _ hy) he e he'
          · rw [List.mem_singleton.1 he']
            exact (hC'.1 y hy).2 (heq.trans he.symm))
        hcur (by simp)
        (fun e he => by
          rcases List.mem_append.1 he with he | he
          · exact hw e he
          · rw [List.mem_singleton.1 he]; exact hwr x (List.mem_cons_self ..))
        (fun y hy => hwr y (List.mem_cons_of_mem _ hy))

/-! ### one level of descent (`updatePayloads`): what holds for every payload holds for the fiber -/

/-- a point map applied below the first coordinate -/
def lift1 (φ : List κ → List κ) : List κ → List κ
  | c :: p => c :: φ p
  | [] => []

/-- a point map applied below the first `k` coordinates -/
def liftN (φ : List κ → List κ) : Nat → List κ → List κ
  | 0 => φ
  | k + 1 => lift1 (liftN φ k)

theorem sorted_of_keys_eq {π π' : Type} {a : Fib κ π} {b : Fib κ π'}
    (h : b.map (fun e => e.1) = a.map (fun e => e.1)) (hs : Sorted a) : Sorted b := by
  have ha : (a.map (fun e => e.1)).Pairwise (· < ·) := by
    rw [List.pairwise_map]; exact hs
  rw [← h, List.pairwise_map] at ha
  exact ha

theorem pre_map_lift1 (φ : List κ → List κ) (c : κ) (L : List (List κ × ν)) :
    (pre c L).map (fun pv => (lift1 φ pv.1, pv.2)) = pre c (L.map (fun pv => (φ pv.1, pv.2))) := by
  unfold pre
  rw [List.map_map, List.map_map]
  rfl

/-- if `F` succeeds on every payload with a well-formed result whose content is a permutation
    of the `φ`-image of the payload's content, the same holds one level up (same coordinates) -/
theorem mapM?_level (dflt dflt' : ν) (d d' : Nat) (F : Tree κ ν d → Option (Tree κ ν d'))
    (φ : List κ → List κ) :
    ∀ (G : List (κ × Tree κ ν d)),
      (∀ g ∈ G, ∃ t, F g.2 = some t ∧ WF d' t ∧
        (content dflt' d' t).Perm ((content dflt d g.2).map (fun pv => (φ pv.1, pv.2)))) →
      ∃ bs : List (κ × Tree κ ν d'),
        mapM? (fun e => (F e.2).map (fun t => (e.1, t))) G = some bs ∧
        bs.map (fun e => e.1) = G.map (fun e => e.1) ∧ (∀ b ∈ bs, WF d' b.2) ∧
        (c1 dflt' d' bs).Perm ((c1 dflt d G).map (fun pv => (lift1 φ pv.1, pv.2)))
  | [], _ => ⟨[], rfl, rfl, (fun _ h => by cases h), List.Perm.refl _⟩
  | g :: G, h => by
    obtain ⟨t, ht, hwt, hct⟩ := h g (List.mem_cons_self ..)
    obtain ⟨bs, hbs, hk, hw, hc⟩ := mapM?_level dflt dflt' d d' F φ G
      (fun g' hg' => h g' (List.mem_cons_of_mem _ hg'))
    refine ⟨(g.1, t) :: bs, ?_, ?_, ?_, ?_⟩
    · simp [mapM?, ht, hbs]
    · simp [hk]
    · intro b hb
      rcases List.mem_cons.1 hb with rfl | hb
      · exact hwt
      · exact hw b hb
    · unfold c1 at hc ⊢
      rw [List.flatMap_cons, List.flatMap_cons, List.map_append, pre_map_lift1]
      refine List.Perm.append ?_ hc
      unfold pre
      exact hct.map _

/-- the same with equality instead of permutation (order-preserving point maps) -/
theorem mapM?_level_eq (dflt dflt' : ν) (d d' : Nat) (F : Tree κ ν d → Option (Tree κ ν d'))
    (φ : List κ → List κ) :
    ∀ (G : List (κ × Tree κ ν d)),
      (∀ g ∈ G, ∃ t, F g.2 = some t ∧ WF d' t ∧
        content dflt' d' t = (content dflt d g.2).map (fun pv => (φ pv.1, pv.2))) →
      ∃ bs : List (κ × Tree κ ν d'),
        mapM? (fun e => (F e.2).map (fun t => (e.1, t))) G = some bs ∧
        bs.map (fun e => e.1) = G.map (fun e => e.1) ∧ (∀ b ∈ bs, WF d' b.2) ∧
        c1 dflt' d' bs = (c1 dflt d G).map (fun pv => (lift1 φ pv.1, pv.2))
  | [], _ => ⟨[], rfl, rfl, (fun _ h => by cases h), rfl⟩
  | g :: G, h => by
    obtain ⟨t, ht, hwt, hct⟩ := h g (List.mem_cons_self ..)
    obtain ⟨bs, hbs, hk, hw, hc⟩ := mapM?_level_eq dflt dflt' d d' F φ G
      (fun g' hg' => h g' (List.mem_cons_of_mem _ hg'))
    refine ⟨(g.1, t) :: bs, ?_, ?_, ?_, ?_⟩
    · simp [mapM?, ht, hbs]
    · simp [hk]
    · intro b hb
      rcases List.mem_cons.1 hb with rfl | hb
      · exact hwt
      · exact hw b hb
    · unfold c1 at hc ⊢
      rw [List.flatMap_cons, List.flatMap_cons, List.map_append, pre_map_lift1, hc, hct]

/-! ### `unflattenRanks` is correct -/

theorem unflat1_spec (dflt : ν) (r : Nat) (hd tl : κ → κ) (hH : LexSplit hd tl)
    (l : List (κ × Tree κ ν r)) (hne : l ≠ []) (hs : Sorted l) (hw : ∀ x ∈ l, WF r x.2) :
    ∃ G, unflat1 hd tl l = some G ∧ Sorted G ∧
      (∀ g ∈ G, g.2 ≠ [] ∧ Sorted g.2 ∧ ∀ e ∈ g.2, WF r e.2) ∧
      c2 dflt r G = (c1 dflt r l).map (fun pv => (splitTop hd tl 0 pv.1, pv.2)) := by
  cases l with
  | nil => exact absurd rfl hne
  | cons x rest =>
    have hC := loopOk_of_sorted (π := Tree κ ν r) hH hs
    have hC' := List.pairwise_cons.1 hC
    refine ⟨_, rfl, ?_, ?_, ?_⟩
    · exact (unflatLoop_wf r hd tl rest (hd x.1) [(tl x.1, x.2)] hC'.2
        (fun y hy => (hC'.1 y hy).1)
        (fun y hy he e he' => by rw [List.mem_singleton.1 he']; exact (hC'.1 y hy).2 he.symm)
        (List.pairwise_singleton _ _) (by simp)
        (fun e he => by rw [List.mem_singleton.1 he]; exact hw x (List.mem_cons_self ..))
        (fun y hy => hw y (List.mem_cons_of_mem _ hy))).1
    · intro g hg
      exact ((unflatLoop_wf r hd tl rest (hd x.1) [(tl x.1, x.2)] hC'.2
        (fun y hy => (hC'.1 y hy).1)
        (fun y hy he e he' => by rw [List.mem_singleton.1 he']; exact (hC'.1 y hy).2 he.symm)
        (List.pairwise_singleton _ _) (by simp)
        (fun e he => by rw [List.mem_singleton.1 he]; exact hw x (List.mem_cons_self ..))
        (fun y hy => hw y (List.mem_cons_of_mem _ hy))).2 g hg).2
    · rw [content_unflatLoop dflt r hd tl rest (hd x.1) [(tl x.1, x.2)] hC'.2
        (fun y hy => (hC'.1 y hy).1), c1_single]
      have key : ∀ L : List (κ × Tree κ ν r),
          L.flatMap (fun x => pre (hd x.1) (pre (tl x.1) (content dflt r x.2))) =
            (c1 dflt r L).map (fun pv => (splitTop hd tl 0 pv.1, pv.2)) := by
        intro L
        unfold c1
        induction L with
        | nil => rfl
        | cons y L ih =>
          rw [List.flatMap_cons, List.flatMap_cons, List.map_append, ih]
          congr 1
          unfold pre
          rw [List.map_map, List.map_map]
          rfl
      have := key (x :: rest)
      rw [List.flatMap_cons] at this
      exact this

theorem splitTop_pre (hd tl : κ → κ) (l : Nat) (c : κ) (L : List (List κ × ν)) :
    (pre c L).map (fun pv => (splitTop hd tl (l + 1) pv.1, pv.2)) =
      pre (hd c) ((pre (tl c) L).map (fun pv => (splitTop hd tl l pv.1, pv.2))) := by
  unfold pre
  rw [List.map_map, List.map_map, List.map_map]
  rfl

/-- `unflattenRanks(levels = l+1)` on a non-empty well-formed fiber succeeds, the result is
    well-formed and every point has moved to its image (order preserved) -/
theorem unflatLv_spec_ne (dflt : ν) (hd tl : κ → κ) (hH : LexSplit hd tl) (r : Nat) :
    ∀ (l : Nat) (f : Tree κ ν (r + 1)), (show List (κ × Tree κ ν r) from f) ≠ [] → WF (r + 1) f →
      ∃ g, unflatLv hd tl r l f = some g ∧ WF (r + 2 + l) g ∧
        content dflt (r + 2 + l) g =
          (content dflt (r + 1) f).map (fun pv => (splitTop hd tl l pv.1, pv.2))
  | 0, f, hne, hw => by
    obtain ⟨G, hG, hs, hg, hc⟩ := unflat1_spec dflt r hd tl hH _ hne hw.1 hw.2
    refine ⟨show List (κ × Tree κ ν (r + 1)) from G, ?_, ?_, ?_⟩
    · unfold unflatLv; rw [hG]; rfl
    · exact ⟨hs, fun g hg' => ⟨(hg g hg').2.1, (hg g hg').2.2⟩⟩
    · exact hc
  | l + 1, f, hne, hw => by
    obtain ⟨G, hG, hs, hg, hc⟩ := unflat1_spec dflt r hd tl hH _ hne hw.1 hw.2
    obtain ⟨bs, hbs, hk, hwb, hcb⟩ := mapM?_level_eq dflt dflt (r + 1) (r + 2 + l)
      (unflatLv hd tl r l) (fun p => splitTop hd tl l p)
      (show List (κ × Tree κ ν (r + 1)) from G)
      (fun g hg' => unflatLv_spec_ne dflt hd tl hH r l g.2 (hg g hg').1
        ⟨(hg g hg').2.1, (hg g hg').2.2⟩)
    refine ⟨show List (κ × Tree κ ν (r + 2 + l)) from bs, ?_, ?_, ?_⟩
    · unfold unflatLv
      rw [hG]
      exact congrArg (Option.map _) hbs
    · exact ⟨sorted_of_keys_eq hk hs, hwb⟩
    · show c1 dflt (r + 2 + l) bs = _
      rw [hcb]
      show (c2 dflt r G).map _ = _
      rw [hc, List.map_map]
      show _ = (c1 dflt r (show List (κ × Tree κ ν r) from f)).map _
      apply List.map_congr_left
      intro pv _
      obtain ⟨p, v⟩ := pv
      cases p <;> rfl

theorem unflatLv_nil (dflt : ν) (hd tl : κ → κ) (r : Nat) : ∀ l : Nat,
    ∃ g, unflatLv (ν := ν) hd tl r l (show Tree κ ν (r + 1) from ([] : List (κ × Tree κ ν r))) = some g ∧
      WF (r + 2 + l) g ∧ content dflt (r + 2 + l) g = []
  | 0 => ⟨show Tree κ ν (r + 2) from ([] : List (κ × Tree κ ν (r + 1))), rfl,
      ⟨List.Pairwise.nil, fun _ h => by cases h⟩, rfl⟩
  | l + 1 => ⟨show Tree κ ν (r + 2 + l + 1) from ([] : List (κ × Tree κ ν (r + 2 + l))), rfl,
      ⟨List.Pairwise.nil, fun _ h => by cases h⟩, rfl⟩

/-- `unflattenRanks(levels = l+1)` on a well-formed fiber (with or without elements) succeeds, the
    result is well-formed and every point has moved to its image (order preserved) -/
theorem unflatLv_spec (dflt : ν) (hd tl : κ → κ) (hH : LexSplit hd tl) (r : Nat) (l : Nat)
    (f : Tree κ ν (r + 1)) (hw : WF (r + 1) f) :
      ∃ g, unflatLv hd tl r l f = some g ∧ WF (r + 2 + l) g ∧
        content dflt (r + 2 + l) g =
          (content dflt (r + 1) f).map (fun pv => (splitTop hd tl l pv.1, pv.2)) := by
  by_cases hne : (show List (κ × Tree κ ν r) from f) = []
  · have hf : f = (show Tree κ ν (r + 1) from ([] : List (κ × Tree κ ν r))) := hne
    subst hf
    obtain ⟨g, h1, h2, h3⟩ := unflatLv_nil dflt hd tl r l
    exact ⟨g, h1, h2, h3.trans rfl⟩
  · exact unflatLv_spec_ne dflt hd tl hH r l f hne hw

/-! ### descent to any depth (`…Below`, `depth=k`) -/

/-- the sub-trees at depth `k` (one per stored path) -/
def subsAt (a : Nat) : (k : Nat) → Tree κ ν (a + k) → List (Tree κ ν a)
  | 0, t => [t]
  | k + 1, f => (show List (κ × Tree κ ν (a + k)) from f).flatMap (fun e => subsAt a k e.2)

/-- what holds for the transform of every sub-tree at depth `k` (success, well-formed result,
    content = a permutation of the `φ`-image) holds for the whole tree with `φ` applied below
    the first `k` coordinates -/
theorem atDepth_spec_perm (dflt dflt' : ν) (a b : Nat) (g : Tree κ ν a → Option (Tree κ ν b))
    (φ : List κ → List κ) :
    ∀ (k : Nat) (t : Tree κ ν (a + k)), WF (a + k) t →
      (∀ s ∈ subsAt a k t, WF a s → ∃ s', g s = some s' ∧ WF b s' ∧
        (content dflt' b s').Perm ((content dflt a s).map (fun pv => (φ pv.1, pv.2)))) →
      ∃ t', atDepth g k t = some t' ∧ WF (b + k) t' ∧
        (content dflt' (b + k) t').Perm ((content dflt (a + k) t).map (fun pv => (liftN φ k pv.1, pv.2)))
  | 0, t, hw, h => h t (List.mem_singleton.2 rfl) hw
  | k + 1, f, hw, h => by
    obtain ⟨bs, hbs, hk, hwb, hc⟩ := mapM?_level dflt dflt' (a + k) (b + k) (atDepth g k) (liftN φ k)
      (show List (κ × Tree κ ν (a + k)) from f)
      (fun e he => atDepth_spec_perm dflt dflt' a b g φ k e.2 (hw.2 e he)
        (fun s hs => h s (List.mem_flatMap.2 ⟨e, he, hs⟩)))
    refine ⟨show List (κ × Tree κ ν (b + k)) from bs, ?_, ⟨sorted_of_keys_eq hk hw.1, hwb⟩, hc⟩
    unfold atDepth
    exact congrArg (Option.map _) hbs

theorem atDepth_spec_eq (dflt dflt' : ν) (a b : Nat) (g : Tree κ ν a → Option (Tree κ ν b))
    (φ : List κ → List κ) :
    ∀ (k : Nat) (t : Tree κ ν (a + k)), WF (a + k) t →
      (∀ s ∈ subsAt a k t, WF a s → ∃ s', g s = some s' ∧ WF b s' ∧
        content dflt' b s' = (content dflt a s).map (fun pv => (φ pv.1, pv.2))) →
      ∃ t', atDepth g k t = some t' ∧ WF (b + k) t' ∧
        content dflt' (b + k) t' = (content dflt (a + k) t).map (fun pv => (liftN φ k pv.1, pv.2))
  | 0, t, hw, h => h t (List.mem_singleton.2 rfl) hw
  | k + 1, f, hw, h => by
    obtain ⟨bs, hbs, hk, hwb, hc⟩ := mapM?_level_eq dflt dflt' (a + k) (b + k) (atDepth g k) (liftN φ k)
      (show List (κ × Tree κ ν (a + k)) from f)
      (fun e he => atDepth_spec_eq dflt dflt' a b g φ k e.2 (hw.2 e he)
        (fun s hs => h s (List.mem_flatMap.2 ⟨e, he, hs⟩)))
    refine ⟨show List (κ × Tree κ ν (b + k)) from bs, ?_, ⟨sorted_of_keys_eq hk hw.1, hwb⟩, hc⟩
    unfold atDepth
    exact congrArg (Option.map _) hbs

/-! ### `Fiber.swapRanks` -/

/-- image of a point under flatten(pair) / reverse / unflatten -/
def swapPt (comb : κ → κ → κ) (rev hd tl : κ → κ) (p : List κ) : List κ :=
  splitTop hd tl 0 (match join2 comb p with
    | c :: rest => rev c :: rest
    | [] => [])

theorem c1_map_key (dflt : ν) (r : Nat) (ρ : κ → κ) (l : List (κ × Tree κ ν r)) :
    c1 dflt r (l.map (fun e => (ρ e.1, e.2))) =
      (c1 dflt r l).map (fun pv => ((match pv.1 with | c :: rest => ρ c :: rest | [] => []), pv.2)) := by
  unfold c1
  induction l with
  | nil => rfl
  | cons e l ih =>
    rw [List.map_cons, List.flatMap_cons, List.flatMap_cons, List.map_append, ih]
    congr 1
    unfold pre
    rw [List.map_map]
    rfl

theorem present_subset {dflt : ν} {d : Nat} {f : Tree κ ν (d + 1)} {e : κ × Tree κ ν d}
    (h : e ∈ present dflt d f) : e ∈ (show List (κ × Tree κ ν d) from f) :=
  (List.mem_filter.1 h).1

theorem flat2_sub_wf (comb : κ → κ → κ) (dflt : ν) (r : Nat) (f : Tree κ ν (r + 2)) (hw : WF (r + 2) f) :
    ∀ x ∈ (show List (κ × Tree κ ν r) from flat2 comb dflt r f), WF r x.2 := by
  intro x hx
  unfold flat2 pairsOf at hx
  obtain ⟨e', he', hx'⟩ := List.mem_flatMap.1 hx
  obtain ⟨e, he, rfl⟩ := List.mem_map.1 he'
  obtain ⟨y, hy, rfl⟩ := List.mem_map.1 hx'
  exact (hw.2 e he).2 y (present_subset hy)

theorem flat2_eq_nil_iff (comb : κ → κ → κ) (dflt : ν) (r : Nat) (f : Tree κ ν (r + 2)) :
    (show List (κ × Tree κ ν r) from flat2 comb dflt r f) = [] ↔ isEmpty dflt (r + 2) f = true := by
  have h1 : isEmpty dflt (r + 2) f = true ↔ content dflt (r + 1) (flat2 comb dflt r f) = [] := by
    rw [isEmpty_iff_content, content_flat2, List.map_eq_nil_iff]
  rw [h1]
  show _ ↔ c1 dflt r (show List (κ × Tree κ ν r) from flat2 comb dflt r f) = []
  constructor
  · intro h; rw [h]; rfl
  · intro h
    -- every element of flat2 is presented, hence has content
    cases hfl : (show List (κ × Tree κ ν r) from flat2 comb dflt r f) with
    | nil => rfl
    | cons x rest =>
      exfalso
      have hx : x ∈ (show List (κ × Tree κ ν r) from flat2 comb dflt r f) := by
        rw [hfl]; exact List.mem_cons_self ..
      have hne : isEmpty dflt r x.2 = false := by
        unfold flat2 pairsOf at hx
        obtain ⟨e', he', hx'⟩ := List.mem_flatMap.1 hx
        obtain ⟨e, _, rfl⟩ := List.mem_map.1 he'
        obtain ⟨y, hy, rfl⟩ := List.mem_map.1 hx'
        have := (List.mem_filter.1 hy).2
        simpa using this
      rw [hfl] at h
      unfold c1 at h
      rw [List.flatMap_cons, List.append_eq_nil_iff] at h
      have := (isEmpty_iff_content dflt r x.2).2 (pre_eq_nil.1 h.1)
      rw [this] at hne
      cases hne

/-- `Fiber.swapRanks` on a non-empty well-formed fiber whose flattening is collision-free:
    succeeds, the result is well-formed and its content is a permutation of the images -/
theorem swapFiber_spec (comb : κ → κ → κ) (rev hd tl : κ → κ) (hH : LexSplit hd tl) (dflt : ν) (r : Nat)
    (f : Tree κ ν (r + 2)) (hw : WF (r + 2) f)
    (hmono : Sorted (show List (κ × Tree κ ν r) from flat2 comb dflt r f))
    (hne : isEmpty dflt (r + 2) f = false)
    (hinj : ∀ a ∈ (show List (κ × Tree κ ν r) from flat2 comb dflt r f),
            ∀ b ∈ (show List (κ × Tree κ ν r) from flat2 comb dflt r f), rev a.1 = rev b.1 → a.1 = b.1) :
    ∃ g, swapFiber comb rev hd tl dflt r f = some g ∧ WF (r + 2) g ∧
      (content dflt (r + 2) g).Perm
        ((content dflt (r + 2) f).map (fun pv => (swapPt comb rev hd tl pv.1, pv.2))) := by
  have hm2 : merge2 comb mfRaise dflt dflt r f = some (flat2 comb dflt r f) := by
    unfold merge2
    rw [merge2T_sorted comb mfRaise dflt dflt r f hmono]
    exact congrArg some (untag_tagWith dflt (show List (κ × Tree κ ν r) from flat2 comb dflt r f))
  have hfl : (show List (κ × Tree κ ν r) from flat2 comb dflt r f) ≠ [] := by
    intro h
    rw [(flat2_eq_nil_iff comb dflt r f).1 h] at hne
    cases hne
  -- the reversed, sorted list
  have hkeys : ((show List (κ × Tree κ ν r) from flat2 comb dflt r f).map
      (fun e => (rev e.1, e.2))).Pairwise (fun a b => a.1 ≠ b.1) := by
    rw [List.pairwise_map]
    refine List.Pairwise.imp_of_mem ?_ (sorted_keys_ne hmono)
    intro a b ha hb hab he
    exact hab (hinj a ha b hb he)
  have hs := isort_sorted _ hkeys
  have hp := isort_perm ((show List (κ × Tree κ ν r) from flat2 comb dflt r f).map (fun e => (rev e.1, e.2)))
  have hsne : isort ((show List (κ × Tree κ ν r) from flat2 comb dflt r f).map (fun e => (rev e.1, e.2))) ≠ [] := by
    intro h
    rw [h] at hp
    have hl := hp.length_eq
    rw [List.length_map] at hl
    exact hfl (List.length_eq_zero_iff.1 hl.symm)
  have hsw : ∀ x ∈ isort ((show List (κ × Tree κ ν r) from flat2 comb dflt r f).map (fun e => (rev e.1, e.2))),
      WF r x.2 := by
    intro x hx
    obtain ⟨y, hy, rfl⟩ := List.mem_map.1 (hp.mem_iff.1 hx)
    exact flat2_sub_wf comb dflt r f hw y hy
  obtain ⟨G, hG, hGs, hGg, hGc⟩ := unflat1_spec dflt r hd tl hH _ hsne hs hsw
  refine ⟨show List (κ × Tree κ ν (r + 1)) from G, ?_, ⟨hGs, fun g hg => ⟨(hGg g hg).2.1, (hGg g hg).2.2⟩⟩, ?_⟩
  · unfold swapFiber
    rw [hm2]
    simp only []
    rw [if_neg (by
      intro h
      exact hfl (List.isEmpty_iff.1 h))]
    exact congrArg (Option.map _) hG
  · show (c2 dflt r G).Perm _
    rw [hGc]
    have h1 : (c1 dflt r (isort ((show List (κ × Tree κ ν r) from flat2 comb dflt r f).map
        (fun e => (rev e.1, e.2))))).Perm
        (c1 dflt r ((show List (κ × Tree κ ν r) from flat2 comb dflt r f).map (fun e => (rev e.1, e.2)))) := by
      unfold c1
      exact List.Perm.flatMap_right _ hp
    refine (h1.map _).trans ?_
    rw [c1_map_key, ← c1_eq, content_flat2, List.map_map, List.map_map]
    exact List.Perm.refl _

end unflat

/-! ### tuple coordinates (`Coord = List Int`, and lists over any strictly ordered type) -/

section coord
variable {α : Type} [LT α] [DecidableRel (α := α) (· < ·)] [DecidableEq α] [StrictTotal α]

theorem append_left_lt : ∀ (c : List α) {a b : List α}, a < b → c ++ a < c ++ b
  | [], _, _, h => h
  | x :: c, _, _, h => List.cons_lt_cons_iff.2 (Or.inr ⟨rfl, append_left_lt c h⟩)

theorem append_lt_of_lt_same_length : ∀ {a a' : List α}, a < a' → a.length = a'.length →
    ∀ x y : List α, a ++ x < a' ++ y
  | [], [], h, _, _, _ => absurd h (List.not_lt_nil _)
  | [], _ :: _, _, hl, _, _ => by simp at hl
  | _ :: _, [], _, hl, _, _ => by simp at hl
  | p :: a, q :: a', h, hl, x, y => by
    rcases List.cons_lt_cons_iff.1 h with h1 | ⟨h1, h2⟩
    · exact List.cons_lt_cons_iff.2 (Or.inl h1)
    · exact List.cons_lt_cons_iff.2 (Or.inr ⟨h1, append_lt_of_lt_same_length h2 (by simpa using hl) x y⟩)

/-- Python's tuple order is the lexicographic order of (first component, remaining components) -/
theorem lexSplit_list : LexSplit (κ := List α) (fun c => c.take 1) (fun c => c.drop 1) := by
  intro a b h
  cases a with
  | nil =>
    cases b with
    | nil => exact absurd h (List.not_lt_nil _)
    | cons y b => exact Or.inl (List.nil_lt_cons _ _)
  | cons x a =>
    cases b with
    | nil => exact absurd h (List.not_lt_nil _)
    | cons y b =>
      rcases List.cons_lt_cons_iff.1 h with h1 | ⟨h1, h2⟩
      · exact Or.inl (List.cons_lt_cons_iff.2 (Or.inl h1))
      · subst h1
        exact Or.inr ⟨rfl, by simpa using h2⟩

variable {π : Type}

/-- concatenated coordinates come out ascending when the upper coordinates of the fiber all
    have the same number of components -/
theorem sorted_pairs_append (n : Nat) : ∀ (f : Fib (List α) (Fib (List α) π)),
    Sorted f → (∀ e ∈ f, Sorted e.2) → (∀ e ∈ f, e.1.length = n) →
    Sorted (pairsOf (fun a b => a ++ b) f)
  | [], _, _, _ => List.Pairwise.nil
  | e :: f, hs, hsub, hn => by
    unfold pairsOf
    rw [List.flatMap_cons]
    unfold Sorted
    rw [List.pairwise_append]
    refine ⟨?_, sorted_pairs_append n f hs.tail (fun e' he' => hsub e' (List.mem_cons_of_mem _ he'))
      (fun e' he' => hn e' (List.mem_cons_of_mem _ he')), ?_⟩
    · rw [List.pairwise_map]
      exact List.Pairwise.imp (fun hab => append_left_lt e.1 hab) (hsub e (List.mem_cons_self ..))
    · intro a ha b hb
      obtain ⟨x, _, rfl⟩ := List.mem_map.1 ha
      obtain ⟨e', he', hb'⟩ := List.mem_flatMap.1 hb
      obtain ⟨y, _, rfl⟩ := List.mem_map.1 hb'
      exact append_lt_of_lt_same_length (hs.head_lt e' he')
        ((hn e (List.mem_cons_self ..)).trans (hn e' (List.mem_cons_of_mem _ he')).symm) _ _

end coord

section coordtree
variable {α : Type} [LT α] [DecidableRel (α := α) (· < ·)] [DecidableEq α] [StrictTotal α]
variable {ν : Type} [DecidableEq ν]

/-- the coordinates of the upper `l+1` of the `l+2` ranks to flatten have `ar[i]` components -/
def UpperAr (r : Nat) : (l : Nat) → List Nat → Tree (List α) ν (r + 2 + l) → Prop
  | _, [], _ => False
  | 0, a :: _, f => ∀ e ∈ (show List (List α × Tree (List α) ν (r + 1)) from f), e.1.length = a
  | l + 1, a :: ar, f => ∀ e ∈ (show List (List α × Tree (List α) ν (r + 2 + l)) from f),
      e.1.length = a ∧ UpperAr r l ar e.2

def upperArB (r : Nat) : (l : Nat) → List Nat → Tree (List α) ν (r + 2 + l) → Bool
  | _, [], _ => false
  | 0, a :: _, f => (show List (List α × Tree (List α) ν (r + 1)) from f).all (fun e => e.1.length == a)
  | l + 1, a :: ar, f => (show List (List α × Tree (List α) ν (r + 2 + l)) from f).all
      (fun e => e.1.length == a && upperArB r l ar e.2)

theorem upperArB_iff (r : Nat) : ∀ (l : Nat) (ar : List Nat) (f : Tree (List α) ν (r + 2 + l)),
    upperArB r l ar f = true ↔ UpperAr r l ar f
  | 0, [], _ => by simp [upperArB, UpperAr]
  | _ + 1, [], _ => by simp [upperArB, UpperAr]
  | 0, a :: _, f => by
    unfold upperArB UpperAr
    rw [List.all_eq_true]
    constructor
    · intro h e he; simpa using h e he
    · intro h e he; simpa using h e he
  | l + 1, a :: ar, f => by
    unfold upperArB UpperAr
    rw [List.all_eq_true]
    constructor
    · intro h e he
      have := h e he
      rw [Bool.and_eq_true] at this
      exact ⟨by simpa using this.1, (upperArB_iff r l ar e.2).1 this.2⟩
    · intro h e he
      rw [Bool.and_eq_true]
      exact ⟨by simpa using (h e he).1, (upperArB_iff r l ar e.2).2 (h e he).2⟩

def tupleComb : Nat → List α → List α → List α := fun _ a b => a ++ b

/-- **tuple / pair styles never collide**: on a well-formed tree whose ranks hold coordinates
    of uniform arity the concatenated coordinates come out ascending at every level -/
theorem monoLv_tuple (dflt : ν) (r : Nat) : ∀ (l : Nat) (ar : List Nat) (f : Tree (List α) ν (r + 2 + l)),
    WF (r + 2 + l) f → UpperAr r l ar f → MonoLv (tupleComb (α := α)) dflt r l f
  | _, [], _, _, h => absurd h (by cases ‹Nat› <;> exact id)
  | 0, a :: _, f, hw, h => by
    show Sorted (pairsOf _ _)
    apply sorted_pairs_append a
    · unfold Sorted
      rw [List.pairwise_map]
      exact hw.1
    · intro e he
      obtain ⟨e', he', rfl⟩ := List.mem_map.1 he
      exact present_sorted (hw.2 e' he').1
    · intro e he
      obtain ⟨e', he', rfl⟩ := List.mem_map.1 he
      exact h e' he'
  | l + 1, a :: ar, f, hw, h => by
    have ih : ∀ e ∈ (show List (List α × Tree (List α) ν (r + 2 + l)) from f),
        MonoLv (tupleComb (α := α)) dflt r l e.2 :=
      fun e he => monoLv_tuple dflt r l ar e.2 (hw.2 e he) (h e he).2
    refine ⟨ih, ?_⟩
    show Sorted (pairsOf _ (List.map _ (List.map _ _)))
    rw [List.map_map]
    apply sorted_pairs_append a
    · unfold Sorted
      rw [List.pairwise_map]
      exact hw.1
    · intro e he
      obtain ⟨e', he', rfl⟩ := List.mem_map.1 he
      exact present_sorted (ih e' he').sorted
    · intro e he
      obtain ⟨e', he', rfl⟩ := List.mem_map.1 he
      exact (h e' he').1

theorem upperAr_points (dflt : ν) (r : Nat) : ∀ (l : Nat) (ar : List Nat) (f : Tree (List α) ν (r + 2 + l)),
    UpperAr r l ar f → ∀ pv ∈ content dflt (r + 2 + l) f, ∀ c ∈ pv.1.take (l + 1), c.length ∈ ar
  | _, [], _, h => absurd h (by cases ‹Nat› <;> exact id)
  | 0, a :: _, f, h => by
    intro pv hpv c hc
    rw [content_succ] at hpv
    obtain ⟨e, he, hpe⟩ := List.mem_flatMap.1 hpv
    obtain ⟨y, _, rfl⟩ := mem_pre hpe
    simp only [List.take_succ_cons, List.take_zero, List.mem_singleton] at hc
    rw [hc, h e he]
    exact List.mem_cons_self ..
  | l + 1, a :: ar, f, h => by
    intro pv hpv c hc
    have hpv' : pv ∈ (show List (List α × Tree (List α) ν (r + 2 + l)) from f).flatMap
        (fun e => pre e.1 (content dflt (r + 2 + l) e.2)) := hpv
    obtain ⟨e, he, hpe⟩ := List.mem_flatMap.1 hpv'
    obtain ⟨y, hy, rfl⟩ := mem_pre hpe
    rw [List.take_succ_cons] at hc
    rcases List.mem_cons.1 hc with rfl | hc
    · rw [(h e he).1]; exact List.mem_cons_self ..
    · exact List.mem_cons_of_mem _ (upperAr_points dflt r l ar e.2 (h e he).2 y hy c hc)

theorem flatLv_wf (comb : Nat → List α → List α → List α) (dflt : ν) (r : Nat) :
    ∀ (l : Nat) (f : Tree (List α) ν (r + 2 + l)), WF (r + 2 + l) f → MonoLv comb dflt r l f →
      WF (r + 1) (flatLv comb dflt r l f)
  | 0, f, hw, hm => ⟨hm, flat2_sub_wf (comb 0) dflt r f hw⟩
  | l + 1, f, hw, hm => by
    refine ⟨hm.2, ?_⟩
    apply flat2_sub_wf (comb (l + 1)) dflt r
    refine ⟨?_, ?_⟩
    · show Sorted (List.map _ _)
      unfold Sorted
      rw [List.pairwise_map]
      exact hw.1
    · intro e he
      obtain ⟨e', he', rfl⟩ := List.mem_map.1 he
      exact flatLv_wf comb dflt r l e'.2 (hw.2 e' he') (hm.1 e' he')

theorem splitTop_joinTop : ∀ (l : Nat) (p : List (List α)), l + 2 ≤ p.length →
    (∀ c ∈ p.take (l + 1), c.length = 1) →
    splitTop (fun c => c.take 1) (fun c => c.drop 1) l (joinTop (tupleComb (α := α)) l p) = p ∧
    (joinTop (tupleComb (α := α)) l p) ≠ []
  | 0, c1 :: c0 :: rest, _, h => by
    have h1 : c1.length = 1 := h c1 (by simp)
    match c1, h1 with
    | [a], _ => exact ⟨rfl, by simp [joinTop, join2]⟩
  | 0, [], hl, _ => by simp at hl
  | 0, [_], hl, _ => by simp at hl
  | l + 1, [], hl, _ => by simp at hl
  | l + 1, c :: rest, hl, h => by
    have h1 : c.length = 1 := h c (by simp)
    have ih := splitTop_joinTop l rest (by simpa using hl)
      (fun c' hc' => h c' (by rw [List.take_succ_cons]; exact List.mem_cons_of_mem _ hc'))
    match c, h1 with
    | [a], _ =>
      cases hj : joinTop (tupleComb (α := α)) l rest with
      | nil => exact absurd hj ih.2
      | cons x rest' =>
        rw [hj] at ih
        refine ⟨?_, by simp [joinTop, join2, hj]⟩
        show splitTop _ _ (l + 1) (join2 _ ([a] :: joinTop tupleComb l rest)) = _
        rw [hj]
        show [a] :: splitTop _ _ l (x :: rest') = _
        rw [ih.1]

/-- the top two ranks hold integer coordinates -/
def Int2 (r : Nat) (f : Tree (List α) ν (r + 2)) : Prop :=
  ∀ e ∈ (show List (List α × Tree (List α) ν (r + 1)) from f), e.1.length = 1 ∧
    ∀ x ∈ (show List (List α × Tree (List α) ν r) from e.2), x.1.length = 1

def int2B (r : Nat) (f : Tree (List α) ν (r + 2)) : Bool :=
  (show List (List α × Tree (List α) ν (r + 1)) from f).all (fun e => e.1.length == 1 &&
    (show List (List α × Tree (List α) ν r) from e.2).all (fun x => x.1.length == 1))

theorem int2B_iff (r : Nat) (f : Tree (List α) ν (r + 2)) : int2B r f = true ↔ Int2 r f := by
  unfold int2B Int2
  rw [List.all_eq_true]
  constructor
  · intro h e he
    have := h e he
    rw [Bool.and_eq_true, List.all_eq_true] at this
    exact ⟨by simpa using this.1, fun x hx => by simpa using this.2 x hx⟩
  · intro h e he
    rw [Bool.and_eq_true, List.all_eq_true]
    exact ⟨by simpa using (h e he).1, fun x hx => by simpa using (h e he).2 x hx⟩

end coordtree

/-! ### merge with collisions: the grouping loop of `_mergeRanksHelper` -/

section group
variable {κ : Type} [LT κ] [DecidableRel (α := κ) (· < ·)] [DecidableEq κ] [StrictTotal κ]
variable {π : Type}

/-- the payloads that got coordinate `c`, in traversal order -/
def valsAt (pairs : Fib κ π) (c : κ) : List π := (pairs.filter (fun x => x.1 = c)).map (fun x => x.2)

theorem valsAt_append (a b : Fib κ π) (c : κ) : valsAt (a ++ b) c = valsAt a c ++ valsAt b c := by
  unfold valsAt; rw [List.filter_append, List.map_append]

theorem valsAt_single (x : κ × π) (c : κ) : valsAt [x] c = if x.1 = c then [x.2] else [] := by
  unfold valsAt
  by_cases h : x.1 = c <;> simp [h]

theorem valsAt_eq_nil_of_not_hasKey {pairs : Fib κ π} {c : κ} (h : ¬ HasKey pairs c) : valsAt pairs c = [] := by
  unfold valsAt
  rw [List.map_eq_nil_iff, List.filter_eq_nil_iff]
  intro x hx hxc
  exact h ⟨x, hx, by simpa using hxc⟩

theorem hasKey_of_valsAt_ne_nil {pairs : Fib κ π} {c : κ} (h : valsAt pairs c ≠ []) : HasKey pairs c := by
  apply Classical.byContradiction
  intro hn
  exact h (valsAt_eq_nil_of_not_hasKey hn)

theorem insGroup_hasKey : ∀ (acc : Fib κ (List π)) (c : κ) (p : π) (k : κ),
    HasKey (insGroup acc c p) k ↔ k = c ∨ HasKey acc k
  | [], c, p, k => by
    show HasKey [(c, [p])] k ↔ _
    rw [hasKey_cons]
    constructor
    · rintro (h | h)
      · exact Or.inl h.symm
      · exact absurd h (not_hasKey_nil _)
    · rintro (h | h)
      · exact Or.inl h.symm
      · exact absurd h (not_hasKey_nil _)
  | e :: r, c, p, k => by
    unfold insGroup
    split
    · rw [hasKey_cons, hasKey_cons, insGroup_hasKey r c p k]
      constructor
      · rintro (h | h | h)
        · exact Or.inr (Or.inl h)
        · exact Or.inl h
        · exact Or.inr (Or.inr h)
      · rintro (h | h | h)
        · exact Or.inr (Or.inl h)
        · exact Or.inl h
        · exact Or.inr (Or.inr h)
    · split
      · rename_i _ heq
        rw [hasKey_cons, hasKey_cons]
        constructor
        · rintro (h | h)
          · exact Or.inr (Or.inl h)
          · exact Or.inr (Or.inr h)
        · rintro (h | h | h)
          · exact Or.inl (heq.trans h.symm)
          · exact Or.inl h
          · exact Or.inr h
      · rw [hasKey_cons]
        constructor
        · rintro (h | h)
          · exact Or.inl h.symm
          · exact Or.inr h
        · rintro (h | h)
          · exact Or.inl h.symm
          · exact Or.inr h

theorem insGroup_sorted : ∀ (acc : Fib κ (List π)) (c : κ) (p : π), Sorted acc → Sorted (insGroup acc c p)
  | [], c, p, _ => List.pairwise_singleton _ _
  | e :: r, c, p, hs => by
    unfold insGroup
    split
    · rename_i hlt
      refine List.Pairwise.cons ?_ (insGroup_sorted r c p hs.tail)
      intro x hx
      rcases (insGroup_hasKey r c p x.1).1 ⟨x, hx, rfl⟩ with h | h
      · rw [h]; exact hlt
      · exact hs.lt_of_hasKey h
    · split
      · exact List.Pairwise.cons (fun x hx => hs.head_lt x hx) hs.tail
      · rename_i hnlt hne
        have hgt : c < e.1 := by
          rcases tri e.1 c with h | h | h
          · exact absurd h hnlt
          · exact absurd h hne
          · exact h
        refine List.Pairwise.cons ?_ hs
        intro x hx
        rcases List.mem_cons.1 hx with rfl | hx
        · exact hgt
        · exact trans hgt (hs.head_lt x hx)

theorem insGroup_rows : ∀ (acc : Fib κ (List π)) (c : κ) (p : π), Sorted acc →
    ∀ row ∈ insGroup acc c p,
      (row ∈ acc ∧ row.1 ≠ c) ∨
      (row.1 = c ∧ ((∃ old ∈ acc, old.1 = c ∧ row.2 = old.2 ++ [p]) ∨ (¬ HasKey acc c ∧ row.2 = [p])))
  | [], c, p, _, row, hrow => by
    rw [List.mem_singleton.1 hrow]
    exact Or.inr ⟨rfl, Or.inr ⟨not_hasKey_nil _, rfl⟩⟩
  | e :: r, c, p, hs, row, hrow => by
    unfold insGroup at hrow
    split at hrow
    · rename_i hlt
      rcases List.mem_cons.1 hrow with rfl | hrow
      · exact Or.inl ⟨List.mem_cons_self .., lt_ne hlt⟩
      · rcases insGroup_rows r c p hs.tail row hrow with ⟨h1, h2⟩ | ⟨h1, h2⟩
        · exact Or.inl ⟨List.mem_cons_of_mem _ h1, h2⟩
        · refine Or.inr ⟨h1, ?_⟩
          rcases h2 with ⟨old, ho, h3, h4⟩ | ⟨h3, h4⟩
          · exact Or.inl ⟨old, List.mem_cons_of_mem _ ho, h3, h4⟩
          · refine Or.inr ⟨?_, h4⟩
            intro hk
            rcases hasKey_cons.1 hk with h | h
            · exact lt_ne hlt h
            · exact h3 h
    · split at hrow
      · rename_i _ heq
        rcases List.mem_cons.1 hrow with rfl | hrow
        · exact Or.inr ⟨heq, Or.inl ⟨e, List.mem_cons_self .., heq, rfl⟩⟩
        · refine Or.inl ⟨List.mem_cons_of_mem _ hrow, ?_⟩
          intro h
          have := hs.head_lt row hrow
          rw [heq, h] at this
          exact irrefl _ this
      · rename_i hnlt hne
        have hgt : c < e.1 := by
          rcases tri e.1 c with h | h | h
          · exact absurd h hnlt
          · exact absurd h hne
          · exact h
        rcases List.mem_cons.1 hrow with rfl | hrow
        · refine Or.inr ⟨rfl, Or.inr ⟨?_, rfl⟩⟩
          intro hk
          have := hs.lt_of_hasKey_cons hgt hk
          exact irrefl _ this
        · refine Or.inl ⟨hrow, ?_⟩
          intro h
          rcases List.mem_cons.1 hrow with rfl | hrow'
          · exact irrefl _ (h ▸ hgt)
          · have := trans hgt (hs.head_lt row hrow')
            exact irrefl _ (h ▸ this)

/-- the grouping loop: ascending new coordinates, each once, each with exactly the payloads that
    got it, in traversal order — for ANY input (nothing is assumed about `pairs`) -/
theorem foldl_insGroup_spec : ∀ (todo done : Fib κ π) (acc : Fib κ (List π)),
    Sorted acc → (∀ row ∈ acc, row.2 = valsAt done row.1 ∧ row.2 ≠ []) →
    (∀ c, HasKey done c → HasKey acc c) →
    Sorted (todo.foldl (fun acc x => insGroup acc x.1 x.2) acc) ∧
    (∀ row ∈ todo.foldl (fun acc x => insGroup acc x.1 x.2) acc,
      row.2 = valsAt (done ++ todo) row.1 ∧ row.2 ≠ []) ∧
    (∀ c, HasKey (done ++ todo) c → HasKey (todo.foldl (fun acc x => insGroup acc x.1 x.2) acc) c)
  | [], done, acc, hs, hr, hk => by
    simp only [List.foldl_nil, List.append_nil]
    exact ⟨hs, hr, hk⟩
  | x :: todo, done, acc, hs, hr, hk => by
    have := foldl_insGroup_spec todo (done ++ [x]) (insGroup acc x.1 x.2)
      (insGroup_sorted acc x.1 x.2 hs)
      (by
        intro row hrow
        rcases insGroup_rows acc x.1 x.2 hs row hrow with ⟨h1, h2⟩ | ⟨h1, h2⟩
        · rw [valsAt_append, valsAt_single, if_neg (fun h => h2 h.symm), List.append_nil]
          exact hr row h1
        · rw [valsAt_append, valsAt_single, if_pos h1.symm]
          rcases h2 with ⟨old, ho, h3, h4⟩ | ⟨h3, h4⟩
          · rw [h4, (hr old ho).1, h3, h1]
            exact ⟨rfl, by simp⟩
          · have : valsAt done row.1 = [] := by
              apply valsAt_eq_nil_of_not_hasKey
              intro hd
              exact h3 (h1 ▸ hk row.1 hd)
            rw [this, h4]
            exact ⟨rfl, by simp⟩)
      (by
        intro c hc
        rw [insGroup_hasKey]
        obtain ⟨y, hy, rfl⟩ := hc
        rcases List.mem_append.1 hy with hy | hy
        · exact Or.inr (hk y.1 ⟨y, hy, rfl⟩)
        · rw [List.mem_singleton.1 hy]; exact Or.inl rfl)
    simpa [List.append_assoc] using this

theorem gather_spec (comb : κ → κ → κ) (rows : Fib κ (Fib κ π)) :
    Sorted (gather comb rows) ∧
    (∀ row ∈ gather comb rows, row.2 = valsAt (pairsOf comb rows) row.1 ∧ row.2 ≠ []) ∧
    (∀ c, HasKey (gather comb rows) c ↔ HasKey (pairsOf comb rows) c) := by
  have h := foldl_insGroup_spec (pairsOf comb rows) [] []
    List.Pairwise.nil (fun _ h => by cases h) (fun c hc => absurd hc (not_hasKey_nil _))
  simp only [List.nil_append] at h
  refine ⟨h.1, h.2.1, fun c => ⟨?_, h.2.2 c⟩⟩
  rintro ⟨row, hrow, rfl⟩
  have := h.2.1 row hrow
  exact hasKey_of_valsAt_ne_nil (this.1 ▸ this.2)

theorem mapM?_map_out {α β γ : Type} (g : α → Option β) (h : β → γ) : ∀ l : List α,
    (mapM? g l).map (List.map h) = mapM? (fun a => (g a).map h) l
  | [] => rfl
  | a :: r => by
    have ih := mapM?_map_out g h r
    cases hg : g a with
    | none => simp [mapM?, hg]
    | some b =>
      cases hr : mapM? g r with
      | none => rw [hr] at ih; simp [mapM?, hg, hr, ← ih]
      | some bs => rw [hr] at ih; simp [mapM?, hg, hr, ← ih]

theorem mapM?_map_in {α α' β : Type} (g : α' → Option β) (k : α → α') : ∀ l : List α,
    mapM? g (l.map k) = mapM? (fun a => g (k a)) l
  | [] => rfl
  | a :: r => by simp [mapM?, mapM?_map_in g k r]

theorem mapM?_congr {α β : Type} {g g' : α → Option β} : ∀ l : List α, (∀ a ∈ l, g a = g' a) →
    mapM? g l = mapM? g' l
  | [], _ => rfl
  | a :: r, h => by
    simp [mapM?, h a (List.mem_cons_self ..), mapM?_congr r (fun b hb => h b (List.mem_cons_of_mem _ hb))]

end group

section leafmerge
variable {κ : Type} [LT κ] [DecidableRel (α := κ) (· < ·)] [DecidableEq κ] [StrictTotal κ]
variable {ν : Type} [DecidableEq ν]

/-- the (new coordinate, value) pairs of the presented leaves of a two-rank tree, in traversal order -/
def leafPairs (comb : κ → κ → κ) (dflt : ν) (f : Tree κ ν 2) : Fib κ ν :=
  pairsOf comb ((show List (κ × Tree κ ν 1) from f).map
    (fun e => (e.1, (show List (κ × ν) from present dflt 0 e.2))))

theorem mergeTrees_leaf (mf : List ν → Option ν) (z d : ν) (vs : List ν) :
    (mergeTrees (κ := κ) mf z 0 (vs.map (fun v => ((show Tree κ ν 0 from v), d)))).map (fun t => (show ν from t.1)) =
      foldVals mf vs := by
  match vs with
  | [] => rfl
  | [v] => rfl
  | v :: w :: rest =>
    have hm : (List.map (fun x : Tree κ ν 0 × ν => x.1)
        (List.map (fun v => ((show Tree κ ν 0 from v), d)) (v :: w :: rest))) = v :: w :: rest := by
      rw [List.map_map]
      conv => rhs; rw [← List.map_id (v :: w :: rest)]
      apply List.map_congr_left
      intro x _; rfl
    show Option.map _ (Option.map _ (mf (List.map (fun x : Tree κ ν 0 × ν => x.1)
        (List.map (fun v => ((show Tree κ ν 0 from v), d)) (v :: w :: rest))))) = mf (v :: w :: rest)
    have hmf : mf (List.map (fun x : Tree κ ν 0 × ν => x.1)
        (List.map (fun v => ((show Tree κ ν 0 from v), d)) (v :: w :: rest))) = mf (v :: w :: rest) :=
      congrArg mf hm
    refine (congrArg (fun o => Option.map (fun t : Tree κ ν 0 × ν => (show ν from t.1))
      (Option.map (fun v => ((show Tree κ ν 0 from v), d)) o)) hmf).trans ?_
    cases mf (v :: w :: rest) <;> rfl

theorem valsAt_tagWith (d : ν) (pairs : Fib κ ν) (c : κ) :
    valsAt (tagWith d pairs) c = (valsAt pairs c).map (fun v => (v, d)) := by
  unfold valsAt tagWith
  rw [List.filter_map, List.map_map, List.map_map]
  rfl

end leafmerge

/-! ### composing two descents; the tensor-level guard -/

section compose
variable {κ : Type} [LT κ] [DecidableRel (α := κ) (· < ·)] [DecidableEq κ] [StrictTotal κ]
variable {ν : Type} [DecidableEq ν]

theorem mapM?_keyed_bind {α β γ : Type} (F1 : α → Option β) (F2 : β → Option γ) (F12 : α → Option γ) :
    ∀ (l : List (κ × α)) (bs : List (κ × β)),
      mapM? (fun e => (F1 e.2).map (fun t => (e.1, t))) l = some bs →
      (∀ e ∈ l, ∀ v, F1 e.2 = some v → F2 v = F12 e.2) →
      mapM? (fun e => (F2 e.2).map (fun t => (e.1, t))) bs =
        mapM? (fun e => (F12 e.2).map (fun t => (e.1, t))) l
  | [], bs, h, _ => by
    simp [mapM?] at h; subst h; rfl
  | e :: r, bs, h, hf => by
    simp only [mapM?] at h
    cases hg : F1 e.2 with
    | none => simp [hg] at h
    | some v =>
      simp only [hg, Option.map_some] at h
      cases hr : mapM? (fun e => (F1 e.2).map (fun t => (e.1, t))) r with
      | none => simp [hr] at h
      | some bs' =>
        simp only [hr, Option.map_some, Option.some.injEq] at h
        subst h
        have ih := mapM?_keyed_bind F1 F2 F12 r bs' hr (fun e' he' => hf e' (List.mem_cons_of_mem _ he'))
        have h2 := hf e (List.mem_cons_self ..) v hg
        simp only [mapM?, h2, ih]

/-- two descents to the same depth are one descent with the composed transform -/
theorem atDepth_bind {a b c : Nat} (g1 : Tree κ ν a → Option (Tree κ ν b)) (g2 : Tree κ ν b → Option (Tree κ ν c)) :
    ∀ (k : Nat) (t : Tree κ ν (a + k)) (u : Tree κ ν (b + k)), atDepth g1 k t = some u →
      atDepth g2 k u = atDepth (fun s => (g1 s).bind g2) k t
  | 0, t, u, h => by
    show g2 u = (g1 t).bind g2
    have h' : g1 t = some u := h
    rw [h']; rfl
  | k + 1, f, u, h => by
    unfold atDepth at h
    cases hm : mapM? (fun e => (atDepth g1 k e.2).map (fun t => (e.1, t)))
        (show List (κ × Tree κ ν (a + k)) from f) with
    | none => rw [hm] at h; cases h
    | some bs =>
      rw [hm] at h
      have hu : (show List (κ × Tree κ ν (b + k)) from bs) = u := Option.some.inj h
      subst hu
      have := mapM?_keyed_bind (atDepth g1 k) (atDepth g2 k) (atDepth (fun s => (g1 s).bind g2) k)
        (show List (κ × Tree κ ν (a + k)) from f) bs hm
        (fun e _ v hv => atDepth_bind g1 g2 k e.2 v hv)
      unfold atDepth
      exact congrArg (Option.map _) this

theorem all_flatMap' {α β : Type} (p : β → Bool) (F : α → List β) : ∀ l : List α,
    (l.flatMap F).all p = l.all (fun a => (F a).all p)
  | [] => rfl
  | a :: l => by rw [List.flatMap_cons, List.all_append, List.all_cons, all_flatMap' p F l]

/-- the tensor-level guard `all(fiber.isEmpty() for fiber in ranks[k].fibers)` is emptiness of the tensor -/
theorem allEmptyAt_eq_isEmpty (dflt : ν) (a : Nat) : ∀ (k : Nat) (t : Tree κ ν (a + 1 + k)),
    allEmptyAt dflt a k t = isEmpty dflt (a + 1 + k) t
  | 0, t => by simp [allEmptyAt, fibersAt]
  | k + 1, f => by
    unfold allEmptyAt fibersAt
    rw [all_flatMap']
    show _ = (show List (κ × Tree κ ν (a + 1 + k)) from f).all (fun e => isEmpty dflt (a + 1 + k) e.2)
    congr 1
    funext e
    exact allEmptyAt_eq_isEmpty dflt a k e.2

theorem liftN_id : ∀ (k : Nat) (p : List κ), liftN (fun q => q) k p = p
  | 0, _ => rfl
  | k + 1, [] => rfl
  | k + 1, c :: p => by
    show c :: liftN (fun q => q) k p = c :: p
    rw [liftN_id k p]

theorem defaultTree_spec (dflt : ν) : ∀ d : Nat,
    WF d (defaultTree (κ := κ) dflt d) ∧ content dflt d (defaultTree (κ := κ) dflt d) = []
  | 0 => ⟨trivial, by
      show (if (show ν from dflt) = dflt then [] else [([], dflt)]) = ([] : List (List κ × ν))
      simp⟩
  | _ + 1 => ⟨⟨List.Pairwise.nil, fun _ h => by cases h⟩, rfl⟩

theorem allEmptyAt_of_all_nil (dflt : ν) (a k : Nat) (t : Tree κ ν (a + 1 + k))
    (h : (fibersAt a k t).all (fun f => (show List (κ × Tree κ ν a) from f).isEmpty) = true) :
    allEmptyAt dflt a k t = true := by
  unfold allEmptyAt
  rw [List.all_eq_true] at h ⊢
  intro f hf
  have : (show List (κ × Tree κ ν a) from f) = [] := List.isEmpty_iff.1 (h f hf)
  show (show List (κ × Tree κ ν a) from f).all _ = true
  rw [this]; rfl

end compose

end C09
end Ft
