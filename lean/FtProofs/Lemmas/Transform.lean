/-
  Helper lemmas for C09 (rank transforms): sorting, content of well-formed trees is strictly
  ascending, extraction / rebuilding (swizzle), monotone merges (flatten), unflatten.
-/
import FtModel.Transform
import FtProofs.Lemmas.Sorted
import FtProofs.Lemmas.Merge
import FtProofs.Lemmas.Content
import FtProofs.Lemmas.EqLemmas
set_option linter.unusedSectionVars false
set_option linter.unusedSimpArgs false
set_option linter.unusedVariables false
namespace Ft
namespace C09
open StrictTotal

/-! ### `mapM?` -/

theorem mapM?_eq_some {α β : Type} (g : α → Option β) (h : α → β) :
    ∀ l : List α, (∀ a ∈ l, g a = some (h a)) → mapM? g l = some (l.map h)
  | [], _ => rfl
  | a :: r, hl => by
    have h1 := hl a (List.mem_cons_self ..)
    have h2 := mapM?_eq_some g h r (fun b hb => hl b (List.mem_cons_of_mem _ hb))
    simp [mapM?, h1, h2]

section sort
variable {κ : Type} [LT κ] [DecidableRel (α := κ) (· < ·)] [DecidableEq κ] [StrictTotal κ]
variable {π : Type}

theorem insSorted_perm (x : κ × π) : ∀ l : Fib κ π, (insSorted x l).Perm (x :: l)
  | [] => List.Perm.refl _
  | y :: r => by
    unfold insSorted
    split
    · exact List.Perm.refl _
    · exact ((insSorted_perm x r).cons y).trans (List.Perm.swap x y r)

theorem isort_perm : ∀ l : Fib κ π, (isort l).Perm l
  | [] => List.Perm.refl _
  | x :: r => (insSorted_perm x (isort r)).trans ((isort_perm r).cons x)

theorem insSorted_sorted (x : κ × π) : ∀ l : Fib κ π, Sorted l → (∀ y ∈ l, y.1 ≠ x.1) →
    Sorted (insSorted x l)
  | [], _, _ => List.pairwise_singleton _ _
  | y :: r, hs, hne => by
    unfold insSorted
    split
    · rename_i hlt
      refine List.Pairwise.cons ?_ hs
      intro z hz
      rcases List.mem_cons.1 hz with rfl | hz
      · exact hlt
      · exact trans hlt (hs.head_lt z hz)
    · rename_i hnlt
      have hyx : y.1 < x.1 := by
        rcases tri x.1 y.1 with h | h | h
        · exact absurd h hnlt
        · exact absurd h.symm (hne y (List.mem_cons_self ..))
        · exact h
      have ih := insSorted_sorted x r hs.tail (fun z hz => hne z (List.mem_cons_of_mem _ hz))
      refine List.Pairwise.cons ?_ ih
      intro z hz
      rcases List.mem_cons.1 ((insSorted_perm x r).mem_iff.1 hz) with rfl | hz
      · exact hyx
      · exact hs.head_lt z hz

theorem isort_sorted : ∀ l : Fib κ π, l.Pairwise (fun a b => a.1 ≠ b.1) → Sorted (isort l)
  | [], _ => List.Pairwise.nil
  | x :: r, h => by
    have h' := List.pairwise_cons.1 h
    apply insSorted_sorted x (isort r) (isort_sorted r h'.2)
    intro y hy
    exact (h'.1 y ((isort_perm r).mem_iff.1 hy)).symm

theorem sorted_keys_ne {l : Fib κ π} (h : Sorted l) : l.Pairwise (fun a b => a.1 ≠ b.1) :=
  List.Pairwise.imp (fun hab => lt_ne hab) h

/-- a strictly ascending list is determined by its elements -/
theorem sorted_perm_eq {a b : Fib κ π} (ha : Sorted a) (hb : Sorted b) (hp : a.Perm b) : a = b :=
  List.Perm.eq_of_pairwise (le := fun (x y : κ × π) => x.1 < y.1)
    (fun x y _ _ hxy hyx => absurd (StrictTotal.trans hxy hyx) (StrictTotal.irrefl x.1))
    (show List.Pairwise (fun (x y : κ × π) => x.1 < y.1) a from ha)
    (show List.Pairwise (fun (x y : κ × π) => x.1 < y.1) b from hb) hp

theorem eq_isort_of_sorted_perm {a l : Fib κ π} (ha : Sorted a) (hp : a.Perm l) : a = isort l := by
  have hne : l.Pairwise (fun a b => a.1 ≠ b.1) :=
    (List.Perm.pairwise_iff (fun h => Ne.symm h) hp).1 (sorted_keys_ne ha)
  exact sorted_perm_eq ha (isort_sorted l hne) (hp.trans (isort_perm l).symm)

theorem isort_eq_self {l : Fib κ π} (h : Sorted l) : isort l = l :=
  (eq_isort_of_sorted_perm h (List.Perm.refl l)).symm

end sort

/-! ### the content of a well-formed tree is strictly ascending (lexicographically) -/

section content
variable {κ : Type} [LT κ] [DecidableRel (α := κ) (· < ·)] [DecidableEq κ] [StrictTotal κ]
variable {ν : Type} [DecidableEq ν]

theorem pre_sorted (c : κ) {l : List (List κ × ν)} (h : Sorted (κ := List κ) l) :
    Sorted (κ := List κ) (pre c l) := by
  unfold pre Sorted
  rw [List.pairwise_map]
  exact List.Pairwise.imp (fun hab => List.cons_lt_cons_iff.2 (Or.inr ⟨rfl, hab⟩)) h

theorem mem_pre {c : κ} {l : List (List κ × ν)} {x : List κ × ν} (h : x ∈ pre c l) :
    ∃ y ∈ l, x = (c :: y.1, y.2) := by
  unfold pre at h
  obtain ⟨y, hy, rfl⟩ := List.mem_map.1 h
  exact ⟨y, hy, rfl⟩

theorem content_sorted (dflt : ν) : ∀ (d : Nat) (t : Tree κ ν d), WF d t →
    Sorted (κ := List κ) (content dflt d t)
  | 0, v, _ => by
    show Sorted (κ := List κ) (if (show ν from v) = dflt then [] else [([], (show ν from v))])
    split
    · exact List.Pairwise.nil
    · exact List.pairwise_singleton _ _
  | d + 1, f, h => by
    rw [content_succ]
    have hs : Sorted (show List (κ × Tree κ ν d) from f) := h.1
    have hw : ∀ e ∈ (show List (κ × Tree κ ν d) from f), WF d e.2 := h.2
    generalize (show List (κ × Tree κ ν d) from f) = l at hs hw
    induction l with
    | nil => exact List.Pairwise.nil
    | cons e r ih =>
      rw [List.flatMap_cons]
      unfold Sorted
      rw [List.pairwise_append]
      refine ⟨pre_sorted e.1 (content_sorted dflt d e.2 (hw e (List.mem_cons_self ..))),
        ih hs.tail (fun x hx => hw x (List.mem_cons_of_mem _ hx)), ?_⟩
      intro a ha b hb
      obtain ⟨y, _, rfl⟩ := mem_pre ha
      obtain ⟨e', he', hb'⟩ := List.mem_flatMap.1 hb
      obtain ⟨y', _, rfl⟩ := mem_pre hb'
      exact List.cons_lt_cons_iff.2 (Or.inl (hs.head_lt e' he'))

/-- a well-formed tree's content is the ascending arrangement of any permutation of it -/
theorem content_eq_isort_of_perm {dflt : ν} {d : Nat} {t : Tree κ ν d} (h : WF d t)
    {L : List (List κ × ν)} (hp : (content dflt d t).Perm L) :
    content dflt d t = isort (κ := List κ) L :=
  eq_isort_of_sorted_perm (content_sorted dflt d t h) hp

end content

end C09
end Ft
