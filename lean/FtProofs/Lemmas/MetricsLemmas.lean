/-
  Lemmas for C15 (namespace Ft.C15): association-list dictionaries and the `Metrics` state machine.
-/
import FtModel.Metrics
import FtModel.MetricsKernel
set_option linter.unusedSectionVars false
set_option linter.unusedSimpArgs false
set_option linter.unusedVariables false
namespace Ft.C15

/-! ### dictionaries -/
section
variable {κ α : Type} [BEq κ] [LawfulBEq κ]

theorem dget_nil (k : κ) : dget ([] : List (κ × α)) k = none := rfl

theorem dget_cons (e : κ × α) (d : List (κ × α)) (k : κ) :
    dget (e :: d) k = if e.1 == k then some e.2 else dget d k := by
  unfold dget
  rw [List.find?_cons]
  by_cases h : e.1 == k <;> simp [h]

theorem dhas_cons (e : κ × α) (d : List (κ × α)) (k : κ) :
    dhas (e :: d) k = (e.1 == k || dhas d k) := by
  simp [dhas]

theorem dhas_eq_isSome (d : List (κ × α)) (k : κ) : dhas d k = (dget d k).isSome := by
  induction d with
  | nil => rfl
  | cons e d ih =>
    rw [dhas_cons, dget_cons, ih]
    by_cases h : e.1 == k <;> simp [h]

theorem dget_append_new (d : List (κ × α)) (k : κ) (v : α) (k' : κ) :
    dget (d ++ [(k, v)]) k' = match dget d k' with | some x => some x | none => if k == k' then some v else none := by
  induction d with
  | nil => simp [dget_cons, dget_nil]
  | cons e d ih =>
    simp only [List.cons_append, dget_cons]
    by_cases h : e.1 == k' <;> simp [h, ih]

theorem dget_map_set (d : List (κ × α)) (k : κ) (v : α) (k' : κ) :
    dget (d.map (fun e => if e.1 == k then (k, v) else e)) k' =
      if k' == k then (if dhas d k then some v else none) else dget d k' := by
  induction d with
  | nil => simp [dget_nil, dhas]
  | cons e d ih =>
    simp only [List.map_cons, dget_cons, dhas_cons]
    by_cases h : e.1 == k
    · have hk : e.1 = k := eq_of_beq h
      simp only [h, if_true, Bool.true_or]
      by_cases h2 : k' == k
      · have : k = k' := (eq_of_beq h2).symm
        simp [h2, this]
      · have h3 : (k == k') = false := by
          cases h4 : (k == k') with
          | false => rfl
          | true => exact absurd (beq_iff_eq.2 (eq_of_beq h4).symm) h2
        have h5 : (e.1 == k') = false := by rw [hk]; exact h3
        simp [h2, h3, h5, ih]
    · simp only [h, Bool.false_eq_true, if_false, Bool.false_or]
      by_cases h2 : k' == k
      · have hk : k' = k := eq_of_beq h2
        have h5 : (e.1 == k') = false := by
          rw [hk]; simpa using h
        simp [h2, h5, ih]
      · by_cases h5 : e.1 == k' <;> simp [h2, h5, ih]

theorem dget_dset_self (d : List (κ × α)) (k : κ) (v : α) : dget (dset d k v) k = some v := by
  unfold dset
  by_cases h : dhas d k = true
  · simp [h, dget_map_set]
  · have h' : dhas d k = false := by simpa using h
    rw [if_neg h, dget_append_new]
    have : dget d k = none := by
      have := dhas_eq_isSome d k
      rw [h'] at this
      cases hd : dget d k with
      | none => rfl
      | some x => rw [hd] at this; simp at this
    simp [this]

theorem dget_dset_ne (d : List (κ × α)) {k k' : κ} (v : α) (h : k' ≠ k) : dget (dset d k v) k' = dget d k' := by
  have hb : (k' == k) = false := by simpa using h
  have hb' : (k == k') = false := by
    cases h4 : (k == k') with
    | false => rfl
    | true => exact absurd (eq_of_beq h4).symm h
  unfold dset
  by_cases hh : dhas d k = true
  · simp [hh, dget_map_set, hb]
  · rw [if_neg hh, dget_append_new]
    cases dget d k' <;> simp [hb']

theorem dhas_dset (d : List (κ × α)) (k : κ) (v : α) (k' : κ) :
    dhas (dset d k v) k' = (k' == k || dhas d k') := by
  rw [dhas_eq_isSome, dhas_eq_isSome]
  by_cases h : k' = k
  · subst h; simp [dget_dset_self]
  · have hb : (k' == k) = false := by simpa using h
    rw [dget_dset_ne d v h, hb]; simp

theorem keys_dset_has (d : List (κ × α)) (k : κ) (v : α) (h : dhas d k = true) :
    (dset d k v).map (·.1) = d.map (·.1) := by
  unfold dset
  rw [if_pos h, List.map_map]
  apply List.map_congr_left
  intro e _
  by_cases h2 : e.1 == k
  · simp [h2, (eq_of_beq h2)]
  · simp [h2]

theorem keys_dset_new (d : List (κ × α)) (k : κ) (v : α) (h : dhas d k = false) :
    (dset d k v).map (·.1) = d.map (·.1) ++ [k] := by
  unfold dset
  simp [h]

theorem dhas_iff_mem_keys (d : List (κ × α)) (k : κ) : dhas d k = true ↔ k ∈ d.map (·.1) := by
  simp only [dhas, List.any_eq_true, List.mem_map]
  constructor
  · rintro ⟨e, he, h⟩; exact ⟨e, he, eq_of_beq h⟩
  · rintro ⟨e, he, h⟩; exact ⟨e, he, by simp [h]⟩

theorem dget_mem (d : List (κ × α)) (k : κ) (v : α) (h : dget d k = some v) : (k, v) ∈ d := by
  induction d with
  | nil => simp [dget_nil] at h
  | cons e d ih =>
    rw [dget_cons] at h
    by_cases h2 : e.1 == k
    · simp only [h2, if_true, Option.some.injEq] at h
      have : e = (k, v) := by rw [← h, ← eq_of_beq h2]
      rw [this]; exact List.mem_cons_self
    · simp only [h2, Bool.false_eq_true, if_false] at h
      exact List.mem_cons_of_mem _ (ih h)

/-- in a dictionary with distinct keys, every entry is what `dget` finds -/
theorem dget_of_mem_nodup (d : List (κ × α)) (hn : (d.map (·.1)).Nodup) (e : κ × α) (he : e ∈ d) :
    dget d e.1 = some e.2 := by
  induction d with
  | nil => cases he
  | cons x d ih =>
    rw [dget_cons]
    simp only [List.map_cons, List.nodup_cons] at hn
    rcases List.mem_cons.1 he with rfl | he
    · simp
    · have : (x.1 == e.1) = false := by
        cases h : (x.1 == e.1) with
        | false => rfl
        | true =>
          exfalso; apply hn.1
          rw [eq_of_beq h]; exact List.mem_map.2 ⟨e, he, rfl⟩
      simp [this, ih hn.2 he]

end
end Ft.C15

namespace Ft.C15

/-! ### Option folds -/

theorem foldlM_preserve {β σ : Type} (f : σ → β → Option σ) (P : σ → Prop)
    (hf : ∀ s b s', P s → f s b = some s' → P s') :
    ∀ (l : List β) (s s' : σ), P s → l.foldlM f s = some s' → P s' := by
  intro l
  induction l with
  | nil => intro s s' hp h; simp [List.foldlM] at h; rw [← h]; exact hp
  | cons b l ih =>
    intro s s' hp h
    simp only [List.foldlM_cons] at h
    cases hb : f s b with
    | none => rw [hb] at h; simp at h
    | some s1 =>
      rw [hb] at h
      exact ih s1 s' (hf s b s1 hp hb) h

/-- as above, the step hypothesis only for elements of the list -/
theorem foldlM_preserve_mem {β σ : Type} (f : σ → β → Option σ) (P : σ → Prop) :
    ∀ (l : List β) (s s' : σ), (∀ s b s', b ∈ l → P s → f s b = some s' → P s') →
      P s → l.foldlM f s = some s' → P s' := by
  intro l
  induction l with
  | nil => intro s s' _ hp h; simp [List.foldlM] at h; rw [← h]; exact hp
  | cons b l ih =>
    intro s s' hf hp h
    simp only [List.foldlM_cons] at h
    cases hb : f s b with
    | none => rw [hb] at h; simp at h
    | some s1 =>
      rw [hb] at h
      exact ih s1 s' (fun s b' s' hm => hf s b' s' (List.mem_cons_of_mem _ hm))
        (hf s b s1 List.mem_cons_self hp hb) h

/-! ### what `_writeTrace` / `_startTrace` leave alone -/

/-- every attribute except `traces` (and the files) is the same -/
structure SameCore (s s' : MState) : Prop where
  arm : s'.allRankMatches = s.allRankMatches
  coll : s'.collecting = s.collecting
  fl : s'.fiberLabel = s.fiberLabel
  it : s'.iteration = s.iteration
  lo : s'.lineOrder = s.lineOrder
  lp : s'.loopOrder = s.loopOrder
  met : s'.metrics = s.metrics
  ncu : s'.numCachedUses = s.numCachedUses
  pt : s'.point = s.point
  pfx : s'.pfx = s.pfx
  rm : s'.rankMatches = s.rankMatches
  rf : s'.rankFlatten = s.rankFlatten
  keys : s'.traces.map (·.1) = s.traces.map (·.1)

theorem SameCore.refl (s : MState) : SameCore s s :=
  ⟨rfl, rfl, rfl, rfl, rfl, rfl, rfl, rfl, rfl, rfl, rfl, rfl, rfl⟩

theorem SameCore.trans {a b c : MState} (h1 : SameCore a b) (h2 : SameCore b c) : SameCore a c :=
  ⟨h2.arm.trans h1.arm, h2.coll.trans h1.coll, h2.fl.trans h1.fl, h2.it.trans h1.it, h2.lo.trans h1.lo,
   h2.lp.trans h1.lp, h2.met.trans h1.met, h2.ncu.trans h1.ncu, h2.pt.trans h1.pt, h2.pfx.trans h1.pfx,
   h2.rm.trans h1.rm, h2.rf.trans h1.rf, h2.keys.trans h1.keys⟩

theorem lineIdx_congr {s s' : MState} (h1 : s'.lineOrder = s.lineOrder) (h2 : s'.rankMatches = s.rankMatches)
    (r : String) : lineIdx s' r = lineIdx s r := by
  unfold lineIdx; rw [h1, h2]

theorem writeTrace_some {s s' : MState} {r t : String} (h : writeTrace s r t = some s') :
    ∃ tr p f, dget s.traces (r, t) = some tr ∧ s.pfx = some p ∧ tr.file = some f ∧
      s' = { s with fs := dset s.fs (p, r, t) (fileBase s (p, r, t) tr.started ++ f),
                    traces := dset s.traces (r, t) { tr with file := some [], started := true } } := by
  unfold writeTrace at h
  split at h
  · rename_i tr p htr hp
    split at h
    · rename_i f hf
      simp only [Option.some.injEq] at h
      exact ⟨tr, p, f, htr, hp, hf, h.symm⟩
    · cases h
  · cases h

theorem writeTrace_core {s s' : MState} {r t : String} (h : writeTrace s r t = some s') : SameCore s s' := by
  obtain ⟨tr, p, f, htr, hp, hf, rfl⟩ := writeTrace_some h
  refine ⟨rfl, rfl, rfl, rfl, rfl, rfl, rfl, rfl, rfl, rfl, rfl, rfl, ?_⟩
  apply keys_dset_has
  rw [dhas_eq_isSome, htr]; rfl

theorem startTrace_some {s s' : MState} {r t : String} (h : startTrace s r t = some s') :
    ∃ i lp tr fs', lineIdx s r = some i ∧ s.loopOrder = some lp ∧ dget s.traces (r, t) = some tr ∧
      (match tr.file with
        | some _ => s.pfx.map (fun p => dset s.fs (p, r, t) [])
        | none => some s.fs) = some fs' ∧
      s' = { s with fs := fs',
                    traces := dset s.traces (r, t)
                      { file := tr.file.map (· ++ [headerRow lp i]), mem := tr.mem.map (· ++ [headerRow lp i]),
                        started := true } } := by
  unfold startTrace at h
  split at h
  · rename_i i lp tr hi hlp htr
    split at h
    · rename_i fs' hfs
      simp only [Option.some.injEq] at h
      exact ⟨i, lp, tr, fs', hi, hlp, htr, hfs, h.symm⟩
    · cases h
  · cases h

theorem startTrace_core {s s' : MState} {r t : String} (h : startTrace s r t = some s') : SameCore s s' := by
  obtain ⟨i, lp, tr, fs', hi, hlp, htr, hfs, rfl⟩ := startTrace_some h
  refine ⟨rfl, rfl, rfl, rfl, rfl, rfl, rfl, rfl, rfl, rfl, rfl, rfl, ?_⟩
  apply keys_dset_has
  rw [dhas_eq_isSome, htr]; rfl

theorem startAll_core {s s' : MState} {r : String} (h : startAll s r = some s') : SameCore s s' := by
  unfold startAll at h
  exact foldlM_preserve (fun s ty => startTrace s r ty) (fun x => SameCore s x)
    (fun a b c hp hb => hp.trans (startTrace_core hb)) _ s s' (SameCore.refl s) h

end Ft.C15

namespace Ft.C15

/-! ### the counters only move in `incCount` -/

theorem endOne_core {s s' : MState} {e : TKey × TraceSt} (h : endOne s e = some s') : SameCore s s' := by
  unfold endOne at h
  split at h
  · cases h
  · rename_i s1 hs1
    have hc : SameCore s s1 := by
      by_cases hf : e.2.file.isSome = true
      · rw [if_pos hf] at hs1; exact writeTrace_core hs1
      · rw [if_neg hf] at hs1; cases hs1; exact SameCore.refl s
    split at h
    · split at h
      · cases h; exact hc
      · cases h
    · cases h; exact hc

theorem mEnd_some {s s' : MState} (h : mEnd s = some s') :
    ∃ s1, s.traces.foldlM endOne s = some s1 ∧ SameCore s s1 ∧
      s' = { s1 with collecting := false, fiberLabel := [], iteration := none, lineOrder := none,
                     loopOrder := none, point := none, pfx := none, traces := [] } := by
  unfold mEnd at h
  cases hf : s.traces.foldlM endOne s with
  | none => rw [hf] at h; cases h
  | some s1 =>
    rw [hf] at h
    simp only [Option.map_some, Option.some.injEq] at h
    refine ⟨s1, rfl, ?_, h.symm⟩
    exact foldlM_preserve endOne (fun x => SameCore s x) (fun a b c hp hb => hp.trans (endOne_core hb))
      _ s s1 (SameCore.refl s) hf

theorem matchOne_metrics {rank : String} {s s' : MState} {e : String × List String}
    (h : matchOne rank s e = some s') : s'.metrics = s.metrics := by
  unfold matchOne at h
  split at h
  · exact (startAll_core h).met
  · cases h; rfl

theorem mRegister_metrics {rank : String} {s s' : MState} (h : mRegister rank s = some s') :
    s'.metrics = s.metrics := by
  unfold mRegister at h
  split at h
  · split at h
    · split at h
      · cases h; rfl
      · split at h
        · cases h
        · rename_i s2 hs2
          have h2 : s2.metrics = s.metrics := (startAll_core hs2).met
          rw [← h2]
          exact foldlM_preserve (matchOne rank) (fun x => x.metrics = s2.metrics)
            (fun a b c hp hb => (matchOne_metrics hb).trans hp) _ s2 s' rfl h
    · cases h
  · cases h

theorem pushRow_core {s s' : MState} {rank ty : String} {tr : TraceSt} {data : Row}
    (htr : dget s.traces (rank, ty) = some tr) (h : pushRow s rank ty tr data = some s') : SameCore s s' := by
  have hk : ∀ v : TraceSt, (dset s.traces (rank, ty) v).map (·.1) = s.traces.map (·.1) := by
    intro v; apply keys_dset_has; rw [dhas_eq_isSome, htr]; rfl
  unfold pushRow at h
  split at h
  · split at h
    · have := writeTrace_core h
      exact ⟨this.arm, this.coll, this.fl, this.it, this.lo, this.lp, this.met, this.ncu, this.pt, this.pfx,
        this.rm, this.rf, this.keys.trans (hk _)⟩
    · cases h; exact ⟨rfl, rfl, rfl, rfl, rfl, rfl, rfl, rfl, rfl, rfl, rfl, rfl, hk _⟩
  · cases h; exact ⟨rfl, rfl, rfl, rfl, rfl, rfl, rfl, rfl, rfl, rfl, rfl, rfl, hk _⟩

theorem recordUse_core {s s' : MState} {rank ty : String} {pt : List Int} {i : Nat} {c pos : Int}
    {itn : Option (List Int)} (h : recordUse s rank ty pt i c pos itn = some s') : SameCore s s' := by
  unfold recordUse at h
  split at h
  · cases h; exact SameCore.refl s
  · rename_i tr htr
    split at h
    · cases h
    · exact pushRow_core htr h

theorem mAddUse_some {rank ty : String} {c pos : Int} {itn : Option (List Int)} {s s' : MState}
    (h : mAddUse rank c pos ty itn s = some s') :
    ∃ lo pt i, s.collecting = true ∧ known s rank = true ∧ s.lineOrder = some lo ∧ s.point = some pt ∧
      lineIdx s rank = some i ∧
      recordUse { s with point := some (newPoint lo pt rank i c) } rank ty (newPoint lo pt rank i c) i c pos itn = some s' := by
  unfold mAddUse at h
  split at h
  · rename_i hg
    simp only [Bool.and_eq_true] at hg
    split at h
    · rename_i lo pt i hlo hpt hi
      exact ⟨lo, pt, i, hg.1, hg.2, hlo, hpt, hi, h⟩
    · cases h
  · cases h

theorem mAddUse_metrics {rank ty : String} {c pos : Int} {itn : Option (List Int)} {s s' : MState}
    (h : mAddUse rank c pos ty itn s = some s') : s'.metrics = s.metrics := by
  obtain ⟨lo, pt, i, _, _, _, _, _, hr⟩ := mAddUse_some h
  exact (recordUse_core hr).met

theorem step_metrics_other {op : MOp} {s s' : MState} {x : MRet} (h : step op s = some (x, s'))
    (hb : op.isBegin = false) (hc : ∀ l k n, op ≠ .incCount l k n) : s'.metrics = s.metrics := by
  cases op with
  | beginCollect p => simp [MOp.isBegin] at hb
  | endCollect =>
    simp only [step, Option.map_eq_some_iff] at h
    obtain ⟨s1, h1, h2⟩ := h
    cases h2
    obtain ⟨s2, _, hc2, rfl⟩ := mEnd_some h1
    exact hc2.met
  | registerRank rank =>
    simp only [step, Option.map_eq_some_iff] at h
    obtain ⟨s1, h1, h2⟩ := h
    cases h2
    exact mRegister_metrics h1
  | addUse rank c pos ty itn =>
    simp only [step, Option.map_eq_some_iff] at h
    obtain ⟨s1, h1, h2⟩ := h
    cases h2
    exact mAddUse_metrics h1
  | incIter rank =>
    simp only [step, Option.map_eq_some_iff] at h
    obtain ⟨s1, h1, h2⟩ := h
    cases h2
    unfold mIncIter at h1
    split at h1
    · split at h1
      · split at h1
        · cases h1; rfl
        · cases h1
      · cases h1
    · cases h1
  | endIter rank =>
    simp only [step, Option.map_eq_some_iff] at h
    obtain ⟨s1, h1, h2⟩ := h
    cases h2
    unfold mEndIter at h1
    split at h1
    · split at h1
      · split at h1
        · cases h1; rfl
        · cases h1
      · cases h1
    · cases h1
  | getLabel rank =>
    simp only [step, Option.map_eq_some_iff] at h
    obtain ⟨s1, h1, h2⟩ := h
    cases h2
    unfold mGetLabel at h1
    split at h1
    · split at h1
      · simp only at h1
        split at h1
        · cases h1; rfl
        · cases h1
      · cases h1
    · cases h1
  | getIndex rank =>
    simp only [step] at h
    split at h
    · simp only [Option.map_eq_some_iff] at h
      obtain ⟨i, _, h2⟩ := h
      cases h2; rfl
    · cases h
  | getIter => simp only [step, Option.some.injEq, Prod.mk.injEq] at h; rw [← h.2]
  | incCount l k n => exact absurd rfl (hc l k n)
  | isCollecting => simp only [step, Option.some.injEq, Prod.mk.injEq] at h; rw [← h.2]
  | isTraced rank ty =>
    simp only [step] at h
    split at h
    · simp only [Option.some.injEq, Prod.mk.injEq] at h; rw [← h.2]
    · cases h
  | matchRanks r1 r2 =>
    simp only [step, Option.map_eq_some_iff] at h
    obtain ⟨s1, h1, h2⟩ := h
    cases h2
    unfold mMatchRanks at h1
    simp only at h1
    have hsrc : ∀ rank (a : MState) (src : String) (b : MState), lateSrc rank a src = some b → b.metrics = a.metrics := by
      intro rank a src b hb
      unfold lateSrc at hb
      split at hb
      · cases hb
      · split at hb
        · cases hb; rfl
        · exact (startAll_core hb).met
    have hrank : ∀ (a : MState) (rank : String) (b : MState), lateRank a rank = some b → b.metrics = a.metrics := by
      intro a rank b hb
      unfold lateRank at hb
      split at hb
      · cases hb
      · split at hb
        · exact foldlM_preserve (lateSrc rank) (fun x => x.metrics = a.metrics)
            (fun x y z hp hz => (hsrc rank x y z hz).trans hp) _ a b rfl hb
        · cases hb; rfl
    split at h1
    · exact foldlM_preserve lateRank (fun x => x.metrics = s.metrics)
        (fun x y z hp hz => (hrank x y z hz).trans hp) _ (matchClosure r1 r2 s).2 _ rfl h1
    · cases h1; rfl
  | trace rank ty consumable =>
    simp only [step, Option.map_eq_some_iff] at h
    obtain ⟨s1, h1, h2⟩ := h
    cases h2
    unfold mTrace at h1
    split at h1
    · cases h1; rfl
    · cases h1
  | consumeTrace rank ty =>
    simp only [step, Option.map_eq_some_iff] at h
    obtain ⟨s1, h1, h2⟩ := h
    cases h2
    unfold mConsume at h1
    split at h1
    · split at h1
      · split at h1
        · cases h1; rfl
        · cases h1
      · cases h1
    · cases h1
  | setNumCachedUses n =>
    simp only [step] at h
    split at h
    · simp only [Option.some.injEq, Prod.mk.injEq] at h; rw [← h.2]
    · cases h
  | associateShape rank => simp only [step, Option.some.injEq, Prod.mk.injEq] at h; rw [← h.2]
  | dump => simp only [step, Option.some.injEq, Prod.mk.injEq] at h; rw [← h.2]

end Ft.C15

namespace Ft.C15

theorem count_eq (s : MState) (m : Dict (Dict Int)) (h : s.metrics = some m) (line metric : String) :
    count s line metric = (dget ((dget m line).getD []) metric).getD 0 := by
  simp [count, h]

theorem sumInc_single (line metric : String) (op : MOp) :
    sumInc line metric [op] =
      match op with
      | .incCount l k n => if strip l == line && k == metric then n else 0
      | _ => 0 := by
  cases op <;> simp [sumInc]

theorem sumInc_cons (line metric : String) (op : MOp) (ops : List MOp) :
    sumInc line metric (op :: ops) = sumInc line metric [op] + sumInc line metric ops := by
  cases op <;> simp [sumInc]

theorem sumInc_append (line metric : String) (a b : List MOp) :
    sumInc line metric (a ++ b) = sumInc line metric a + sumInc line metric b := by
  induction a with
  | nil => simp [sumInc]
  | cons op a ih =>
    rw [List.cons_append, sumInc_cons, ih, sumInc_cons line metric op a]; omega

theorem step_count {op : MOp} {s s' : MState} {x : MRet} (h : step op s = some (x, s'))
    (hb : op.isBegin = false) (line metric : String) :
    count s' line metric = count s line metric + sumInc line metric [op] := by
  by_cases hc : ∃ l k n, op = .incCount l k n
  · obtain ⟨l, k, n, rfl⟩ := hc
    simp only [step, Option.map_eq_some_iff] at h
    obtain ⟨s1, h1, h2⟩ := h
    cases h2
    unfold mIncCount at h1
    split at h1
    · split at h1
      · rename_i m hm
        cases h1
        rw [count_eq s m hm, count_eq _ _ rfl, sumInc_single]
        simp only
        by_cases hl : strip l = line
        · subst hl
          simp only [dget_dset_self, Option.getD_some, beq_self_eq_true, Bool.true_and]
          by_cases hk : k = metric
          · subst hk; simp [dget_dset_self]
          · have : (k == metric) = false := by simpa using hk
            rw [dget_dset_ne _ _ (Ne.symm hk)]; simp [this]
        · have : (strip l == line) = false := by simpa using hl
          rw [dget_dset_ne _ _ (Ne.symm hl)]; simp [this]
      · cases h1
    · cases h1
  · have hc' : ∀ l k n, op ≠ .incCount l k n := fun l k n e => hc ⟨l, k, n, e⟩
    have hm := step_metrics_other h hb hc'
    have h0 : sumInc line metric [op] = 0 := by
      rw [sumInc_single]
      cases op <;> first | rfl | exact absurd rfl (hc' _ _ _)
    rw [h0]
    simp [count, hm]

theorem runOps_cons {op : MOp} {ops : List MOp} {s s' : MState} {rs : List MRet}
    (h : runOps (op :: ops) s = some (rs, s')) :
    ∃ r s1 rs', step op s = some (r, s1) ∧ runOps ops s1 = some (rs', s') ∧ rs = r :: rs' := by
  simp only [runOps] at h
  cases h1 : step op s with
  | none => rw [h1] at h; simp at h
  | some x =>
    obtain ⟨r, s1⟩ := x
    rw [h1] at h
    simp only [Option.bind_eq_bind, Option.bind_some] at h
    cases h2 : runOps ops s1 with
    | none => rw [h2] at h; simp at h
    | some y =>
      obtain ⟨rs', s2⟩ := y
      rw [h2] at h
      simp only [Option.bind_some, Option.pure_def, Option.some.injEq, Prod.mk.injEq] at h
      exact ⟨r, s1, rs', rfl, by rw [← h.2]; exact h2, h.1.symm⟩

theorem runOps_append {a b : List MOp} {s s' : MState} {rs : List MRet}
    (h : runOps (a ++ b) s = some (rs, s')) :
    ∃ s1 ra rb, runOps a s = some (ra, s1) ∧ runOps b s1 = some (rb, s') ∧ rs = ra ++ rb := by
  induction a generalizing s rs with
  | nil => exact ⟨s, [], rs, rfl, h, rfl⟩
  | cons op a ih =>
    obtain ⟨r, s1, rs', h1, h2, rfl⟩ := runOps_cons h
    obtain ⟨s2, ra, rb, h3, h4, rfl⟩ := ih h2
    refine ⟨s2, r :: ra, rb, ?_, h4, rfl⟩
    simp [runOps, h1, h3]

theorem runOps_count {ops : List MOp} {s s' : MState} {rs : List MRet}
    (h : runOps ops s = some (rs, s')) (hb : ∀ op ∈ ops, op.isBegin = false) (line metric : String) :
    count s' line metric = count s line metric + sumInc line metric ops := by
  induction ops generalizing s rs with
  | nil => simp [runOps] at h; rw [← h.2]; simp [sumInc]
  | cons op ops ih =>
    obtain ⟨r, s1, rs', h1, h2, _⟩ := runOps_cons h
    rw [ih h2 (fun o ho => hb o (List.mem_cons_of_mem _ ho)),
      step_count h1 (hb op List.mem_cons_self), sumInc_cons line metric op ops]
    omega

end Ft.C15
