/-
  Lemmas for C16: the coordinates and positions the iterators pass to `addUse` name an element of
  the fiber that is read (position = index in the sequence the iterator enumerates).
-/
import FtProofs.Lemmas.TraceEmit
import FtProofs.Lemmas.Merge
set_option linter.unusedSimpArgs false
set_option linter.unusedVariables false
namespace Ft.C16

section
variable {σ S π : Type}

/-- `iterRange` over a concrete fiber: the traced position is the storage index of a non-empty element -/
theorem iterItems_addr (rank : String) (emptyP : π → Bool) (body : S → Int → π → S × σ) :
    ∀ (f : Fib Int π) (s : S) (j0 : Nat) (r ty : String) (c pos : Int),
      Item.use r ty c pos ∈ (iterItems rank emptyP body s j0 f).2 →
      r = rank ∧ ty = "iter" ∧ ∃ (i : Nat) (p : π), pos = ((j0 + i : Nat) : Int) ∧ f[i]? = some (c, p) ∧ emptyP p = false := by
  intro f
  induction f with
  | nil => intro s j0 r ty c pos h; simp [iterItems] at h
  | cons e rest ih =>
    intro s j0 r ty c pos h
    obtain ⟨c0, p0⟩ := e
    simp only [iterItems] at h
    split at h
    · obtain ⟨h1, h2, i, p, e1, e2, e3⟩ := ih _ _ r ty c pos h
      exact ⟨h1, h2, i + 1, p, by rw [e1]; congr 1; omega, by simpa using e2, e3⟩
    · rename_i hne
      simp only [List.mem_cons, Item.use.injEq, reduceCtorEq, false_or] at h
      rcases h with ⟨rfl, rfl, rfl, rfl⟩ | h
      · exact ⟨rfl, rfl, 0, p0, by simp, by simp, by simpa using hne⟩
      · obtain ⟨h1, h2, i, p, e1, e2, e3⟩ := ih _ _ r ty c pos h
        exact ⟨h1, h2, i + 1, p, by rw [e1]; congr 1; omega, by simpa using e2, e3⟩

end

/-- the `i`-th position a position generator delivers (0 when it has run out) -/
def nthPos (l : List Nat) (i : Nat) : Nat := (l.drop i).headD 0

theorem nthPos_zero (l : List Nat) : nthPos l 0 = l.headD 0 := by simp [nthPos]

theorem nthPos_tail (l : List Nat) (i : Nat) : nthPos l.tail i = nthPos l (i + 1) := by
  cases l <;> simp [nthPos]

section
variable {α β : Type}

theorem optUse_eq (t : Bool) (rank ty0 : String) (c0 : Int) (n : Nat) (r ty : String) (c pos : Int)
    (h : Item.use r ty c pos ∈ optUse t rank ty0 c0 n) : r = rank ∧ ty = ty0 ∧ c = c0 ∧ pos = (n : Int) := by
  unfold optUse at h
  split at h
  · simp at h; exact ⟨h.1, h.2.1, h.2.2.1, h.2.2.2⟩
  · simp at h

/-- `and_iterator`: every traced use of operand `a` names the `i`-th element `a` presents together
    with the `i`-th position of `a`'s position generator; same for `b` -/
theorem andSteps_addr (rank tyA tyB : String) (ta tb : Bool)
    (pa pb : List Nat) (a : Fib Int α) (b : Fib Int β) :
    ∀ (r ty : String) (c pos : Int), Step.emit (.use r ty c pos) ∈ andSteps rank tyA tyB ta tb pa pb a b →
      r = rank ∧
      ((ty = tyA ∧ ∃ (i : Nat) (p : α), pos = ((nthPos pa i : Nat) : Int) ∧ a[i]? = some (c, p)) ∨
       (ty = tyB ∧ ∃ (i : Nat) (p : β), pos = ((nthPos pb i : Nat) : Int) ∧ b[i]? = some (c, p))) := by
  fun_induction andSteps rank tyA tyB ta tb pa pb a b with
  | case1 => intro r ty c pos h; simp at h
  | case2 pa _ ca xa ra =>
    intro r ty c pos h
    simp only [List.mem_append, List.mem_map, List.mem_singleton, Step.emit.injEq, reduceCtorEq, or_false] at h
    obtain ⟨j, hj, rfl⟩ := h
    obtain ⟨e1, e2, e3, e4⟩ := optUse_eq _ _ _ _ _ _ _ _ _ hj
    exact ⟨e1, Or.inl ⟨e2, 0, xa, by simp [e4, nthPos_zero], by simp [e3]⟩⟩
  | case3 _ pb cb xb rb =>
    intro r ty c pos h
    simp only [List.mem_append, List.mem_map, List.mem_singleton, Step.emit.injEq, reduceCtorEq, or_false] at h
    obtain ⟨j, hj, rfl⟩ := h
    obtain ⟨e1, e2, e3, e4⟩ := optUse_eq _ _ _ _ _ _ _ _ _ hj
    exact ⟨e1, Or.inr ⟨e2, 0, xb, by simp [e4, nthPos_zero], by simp [e3]⟩⟩
  | case4 pa pb xa ra ca xb rb ih =>
    intro r ty c pos h
    simp only [List.mem_append, List.mem_map, List.mem_cons, Step.emit.injEq, reduceCtorEq, false_or] at h
    rcases h with ⟨j, hj, rfl⟩ | h
    · rcases hj with hj | hj
      · obtain ⟨e1, e2, e3, e4⟩ := optUse_eq _ _ _ _ _ _ _ _ _ hj
        exact ⟨e1, Or.inl ⟨e2, 0, xa, by simp [e4, nthPos_zero], by simp [e3]⟩⟩
      · obtain ⟨e1, e2, e3, e4⟩ := optUse_eq _ _ _ _ _ _ _ _ _ hj
        exact ⟨e1, Or.inr ⟨e2, 0, xb, by simp [e4, nthPos_zero], by simp [e3]⟩⟩
    · obtain ⟨e1, h'⟩ := ih r ty c pos h
      refine ⟨e1, ?_⟩
      rcases h' with ⟨e2, i, p, e3, e4⟩ | ⟨e2, i, p, e3, e4⟩
      · exact Or.inl ⟨e2, i + 1, p, by rw [e3, nthPos_tail], by simpa using e4⟩
      · exact Or.inr ⟨e2, i + 1, p, by rw [e3, nthPos_tail], by simpa using e4⟩
  | case5 pa pb ca xa ra cb xb rb hne hlt ih =>
    intro r ty c pos h
    simp only [List.mem_append, List.mem_map, List.mem_cons, Step.emit.injEq, reduceCtorEq, false_or] at h
    rcases h with ⟨j, hj, rfl⟩ | h
    · obtain ⟨e1, e2, e3, e4⟩ := optUse_eq _ _ _ _ _ _ _ _ _ hj
      exact ⟨e1, Or.inl ⟨e2, 0, xa, by simp [e4, nthPos_zero], by simp [e3]⟩⟩
    · obtain ⟨e1, h'⟩ := ih r ty c pos h
      refine ⟨e1, ?_⟩
      rcases h' with ⟨e2, i, p, e3, e4⟩ | ⟨e2, i, p, e3, e4⟩
      · exact Or.inl ⟨e2, i + 1, p, by rw [e3, nthPos_tail], by simpa using e4⟩
      · exact Or.inr ⟨e2, i, p, e3, e4⟩
  | case6 pa pb ca xa ra cb xb rb hne hlt ih =>
    intro r ty c pos h
    simp only [List.mem_append, List.mem_map, List.mem_cons, Step.emit.injEq, reduceCtorEq, false_or] at h
    rcases h with ⟨j, hj, rfl⟩ | h
    · obtain ⟨e1, e2, e3, e4⟩ := optUse_eq _ _ _ _ _ _ _ _ _ hj
      exact ⟨e1, Or.inr ⟨e2, 0, xb, by simp [e4, nthPos_zero], by simp [e3]⟩⟩
    · obtain ⟨e1, h'⟩ := ih r ty c pos h
      refine ⟨e1, ?_⟩
      rcases h' with ⟨e2, i, p, e3, e4⟩ | ⟨e2, i, p, e3, e4⟩
      · exact Or.inl ⟨e2, i, p, e3, e4⟩
      · exact Or.inr ⟨e2, i + 1, p, by rw [e3, nthPos_tail], by simpa using e4⟩

end

section
variable {α β : Type}

/-- leader-follower: the leader's position comes from its position generator; the follower is probed at
    the lower bound of the coordinate in the fiber as stored (its index when present) -/
theorem lfSteps_addr (rankA rankB tyA tyB : String) (ta : Bool) (dfl : β) (b : Fib Int β) :
    ∀ (a : Fib Int α) (pa : List Nat) (r ty : String) (c pos : Int),
      Step.emit (.use r ty c pos) ∈ lfSteps rankA rankB tyA tyB ta dfl b pa a →
      (r = rankA ∧ ty = tyA ∧ ∃ (i : Nat) (p : α), pos = ((nthPos pa i : Nat) : Int) ∧ a[i]? = some (c, p)) ∨
      (r = rankB ∧ ty = tyB ∧ pos = ((lowerBound b c : Nat) : Int) ∧ ∃ (i : Nat) (p : α), a[i]? = some (c, p)) := by
  intro a
  induction a with
  | nil => intro pa r ty c pos h; simp [lfSteps] at h
  | cons e rest ih =>
    intro pa r ty c pos h
    obtain ⟨c0, p0⟩ := e
    simp only [lfSteps, List.mem_append, List.mem_map, List.mem_cons, Step.emit.injEq, reduceCtorEq, false_or] at h
    rcases h with ⟨x, hx, rfl⟩ | h | h
    · obtain ⟨e1, e2, e3, e4⟩ := optUse_eq _ _ _ _ _ _ _ _ _ hx
      exact Or.inl ⟨e1, e2, 0, p0, by simp [e4, nthPos_zero], by simp [e3]⟩
    · simp only [Item.use.injEq] at h
      obtain ⟨rfl, rfl, rfl, rfl⟩ := h
      exact Or.inr ⟨rfl, rfl, rfl, 0, p0, by simp⟩
    · rcases ih pa.tail r ty c pos h with ⟨e1, e2, i, p, e3, e4⟩ | ⟨e1, e2, e3, i, p, e4⟩
      · exact Or.inl ⟨e1, e2, i + 1, p, by rw [e3, nthPos_tail], by simpa using e4⟩
      · exact Or.inr ⟨e1, e2, e3, i + 1, p, by simpa using e4⟩

/-- `project_iterator`: the traced use carries the SOURCE coordinate and the position the source's
    position generator gives for it -/
theorem projLoop_addr (srcRank ty : String) (t : Bool) (off : Int) (lo hi : Option Int) :
    ∀ (a : Fib Int α) (pa : List Nat) (s : Nat) (r ty' : String) (c pos : Int),
      Step.emit (.useSaved s r ty' c pos) ∈ projLoop srcRank ty t off lo hi pa a →
      s = 1 ∧ r = srcRank ∧ ty' = ty ∧ ∃ (i : Nat) (p : α), pos = ((nthPos pa i : Nat) : Int) ∧ a[i]? = some (c, p) ∧
        inLo lo (c + off) = true ∧ aboveHi hi (c + off) = false := by
  intro a
  induction a with
  | nil => intro pa s r ty' c pos h; simp [projLoop] at h
  | cons e rest ih =>
    intro pa s r ty' c pos hm
    obtain ⟨oc, p⟩ := e
    have step : ∀ (hm' : Step.emit (Item.useSaved s r ty' c pos) ∈ projLoop srcRank ty t off lo hi pa.tail rest),
        s = 1 ∧ r = srcRank ∧ ty' = ty ∧ ∃ (i : Nat) (p' : α), pos = ((nthPos pa i : Nat) : Int) ∧
          ((oc, p) :: rest)[i]? = some (c, p') ∧ inLo lo (c + off) = true ∧ aboveHi hi (c + off) = false := by
      intro hm'
      obtain ⟨e1, e2, e3, i, p', e4, e5, e6⟩ := ih pa.tail s r ty' c pos hm'
      exact ⟨e1, e2, e3, i + 1, p', by rw [e4, nthPos_tail], by simpa using e5, e6⟩
    by_cases h1 : aboveHi hi (oc + off) = true
    · simp [projLoop, h1] at hm
    · by_cases h2 : inLo lo (oc + off) = true
      · simp only [projLoop, h1, h2, if_true, Bool.false_eq_true, if_false, List.mem_cons, reduceCtorEq,
          List.mem_append, false_or] at hm
        rcases hm with hm | hm
        · cases t with
          | false => simp at hm
          | true =>
            simp only [if_true, List.mem_cons, Step.emit.injEq, Item.useSaved.injEq, reduceCtorEq,
              List.not_mem_nil, or_false] at hm
            obtain ⟨rfl, rfl, rfl, rfl, rfl⟩ := hm
            exact ⟨rfl, rfl, rfl, 0, p, by simp [nthPos_zero], by simp, h2, by simpa using h1⟩
        · exact step hm
      · simp only [projLoop, h1, h2, if_false, Bool.false_eq_true] at hm
        exact step hm

end

section
variable {σ S β : Type}

/-- the elements a step stream hands to its consumer -/
def yieldsOf : List (Step β) → List (Int × β)
  | [] => []
  | .emit _ :: rest => yieldsOf rest
  | .yield c p :: rest => (c, p) :: yieldsOf rest

/-- `iterRange` over a lazy fiber: the traced position is the index in the yielded sequence -/
theorem lazyItems_addr (rank : String) (body : S → Int → β → S × σ) :
    ∀ (steps : List (Step β)) (s : S) (j0 : Nat) (c pos : Int),
      (∀ i, Step.emit i ∈ steps → itemKey i ≠ some (rank, "iter")) →
      Item.use rank "iter" c pos ∈ (lazyItems rank body s j0 steps).2 →
      ∃ (i : Nat) (p : β), pos = ((j0 + i : Nat) : Int) ∧ (yieldsOf steps)[i]? = some (c, p) := by
  intro steps
  induction steps with
  | nil => intro s j0 c pos _ h; simp [lazyItems] at h
  | cons x rest ih =>
    intro s j0 c pos hk h
    have hk' : ∀ i, Step.emit i ∈ rest → itemKey i ≠ some (rank, "iter") := fun i hi => hk i (by simp [hi])
    cases x with
    | emit i0 =>
      simp only [lazyItems, List.mem_cons] at h
      rcases h with h | h
      · exfalso
        have := hk i0 (by simp)
        rw [← itemKey_lift (σ := σ), ← h] at this
        simp [itemKey] at this
      · simpa [yieldsOf] using ih s j0 c pos hk' h
    | yield c0 p0 =>
      simp only [lazyItems, List.mem_cons, Item.use.injEq, reduceCtorEq, false_or, true_and] at h
      rcases h with ⟨rfl, rfl⟩ | h
      · exact ⟨0, p0, by simp, by simp [yieldsOf]⟩
      · obtain ⟨i, p, e1, e2⟩ := ih _ (j0 + 1) c pos hk' h
        exact ⟨i + 1, p, by rw [e1]; congr 1; omega, by simpa [yieldsOf] using e2⟩

end

/-- `iterPositions()` and iteration agree: the `i`-th position delivered is the index, in the fiber as
    stored, of the `i`-th element presented -/
theorem filter_zipIdx_storage {α : Type} (l : List α) (q : α → Bool) (i : Nat) (e : α)
    (h : (l.filter q)[i]? = some e) :
    l[nthPos ((l.zipIdx.filter (fun x => q x.1)).map (·.2)) i]? = some e ∧ q e = true := by
  have hf : l.filter q = (l.zipIdx.filter (fun x => q x.1)).map (·.1) := by
    have : l.filter q = (l.zipIdx.map (·.1)).filter q := by rw [List.zipIdx_map_fst]
    rw [this, List.filter_map]; rfl
  rw [hf, List.getElem?_map] at h
  cases hF : (l.zipIdx.filter (fun x => q x.1))[i]? with
  | none => rw [hF] at h; simp at h
  | some x =>
    rw [hF] at h
    simp only [Option.map_some, Option.some.injEq] at h
    have hmem : x ∈ l.zipIdx.filter (fun x => q x.1) := List.mem_of_getElem? hF
    rw [List.mem_filter] at hmem
    have hidx : nthPos ((l.zipIdx.filter (fun x => q x.1)).map (·.2)) i = x.2 := by
      unfold nthPos
      rw [← List.map_drop]
      have : (l.zipIdx.filter (fun x => q x.1)).drop i = x :: (l.zipIdx.filter (fun x => q x.1)).drop (i + 1) := by
        rw [List.drop_eq_getElem_cons (List.getElem?_eq_some_iff.1 hF).1]
        rw [(List.getElem?_eq_some_iff.1 hF).2]
      rw [this]; simp
    rw [hidx, ← h]
    exact ⟨List.mem_zipIdx_iff_getElem?.1 hmem.1, hmem.2⟩

theorem present_storage (dflt : Int) (t : AnyTree) (i : Nat) (e : Int × AnyTree)
    (h : (presentAny dflt t)[i]? = some e) :
    (children t)[nthPos (presentIdx dflt t) i]? = some e ∧ anyEmpty dflt e.2 = false := by
  have := filter_zipIdx_storage (children t) (fun e => !anyEmpty dflt e.2) i e h
  exact ⟨this.1, by simpa using this.2⟩

/-- an operand that stores no empty element presents exactly what it stores -/
theorem presentAny_eq_children (dflt : Int) (t : AnyTree)
    (h : ∀ e ∈ children t, anyEmpty dflt e.2 = false) : presentAny dflt t = children t := by
  unfold presentAny
  rw [List.filter_eq_self]
  intro e he
  simp [h e he]

section
variable {σ π β : Type}
variable (cfg : PopCfg) (mk : π) (rm : Bool → π → Bool) (emptyP : π → Bool) (body : Int → π → β → π × σ)

theorem popYield_bpos (pst : PopSt π) (c : Int) (bp : β) :
    (popYield cfg mk rm emptyP body pst c bp).1.bpos = pst.bpos + 1 := by
  unfold popYield
  simp only
  repeat' split
  all_goals rfl

theorem popYield_bposs (pst : PopSt π) (c : Int) (bp : β) :
    (popYield cfg mk rm emptyP body pst c bp).1.bposs = pst.bposs.map List.tail := by
  unfold popYield
  simp only
  repeat' split
  all_goals rfl

/-- the position `populate_i` reports for the `i`-th element offered from now on: what the source's
    position generator delivers (a concrete source fiber), or the running count (a lazy source) -/
def srcPosAt (pst : PopSt π) (i : Nat) : Nat :=
  match pst.bposs with
  | some l => nthPos l i
  | none => pst.bpos + i

/-- `lshift_iterator`, source side: `populate_i` rows carry the offered coordinate and the position the
    source's position generator gives for it; the consumer's `iter` rows carry its index in the
    sequence the source yields -/
theorem popItems_src_addr (ok : PopTypesOK cfg) :
    ∀ (steps : List (Step β)) (pst : PopSt π) (ty : String) (c pos : Int),
      (ty = cfg.srcTy ∨ ty = "iter") →
      (∀ i, Step.emit i ∈ steps → itemKey i ≠ some (cfg.rank, ty)) →
      Item.use cfg.rank ty c pos ∈ (popItems cfg mk rm emptyP body pst steps).2 →
      ∃ (i : Nat) (p : β), pos = (((if ty = "iter" then pst.bpos + i else srcPosAt pst i) : Nat) : Int) ∧
        (yieldsOf steps)[i]? = some (c, p) := by
  intro steps
  induction steps with
  | nil =>
    intro pst ty c pos hty _ h
    simp only [popItems, moveItems] at h
    split at h
    · rcases moveLoop_mem' cfg _ _ _ _ _ h with h | ⟨_, _, h⟩ | ⟨_, _, h⟩ <;> cases h
    · simp at h
  | cons x rest ih =>
    intro pst ty c pos hty hk h
    have hk' : ∀ i, Step.emit i ∈ rest → itemKey i ≠ some (cfg.rank, ty) := fun i hi => hk i (by simp [hi])
    cases x with
    | emit i0 =>
      simp only [popItems, List.mem_cons] at h
      rcases h with h | h
      · exfalso
        have := hk i0 (by simp)
        rw [← itemKey_lift (σ := σ), ← h] at this
        simp [itemKey] at this
      · simpa [yieldsOf] using ih pst ty c pos hty hk' h
    | yield c0 p0 =>
      simp only [popItems] at h
      obtain ⟨ins, new, removed, cur, rp, wp, e⟩ := popYield_items cfg mk rm emptyP body pst c0 p0
      rw [e] at h
      simp only [List.mem_append, List.mem_cons] at h
      rcases h with (h | h | h | h | h | h | h) | h
      · -- popPre: the source use, or a read of the inserting search
        unfold popPre at h
        rcases List.mem_append.1 h with h | h
        · split at h
          · simp only [List.mem_singleton, Item.use.injEq, true_and] at h
            obtain ⟨e1, e2, e3⟩ := h
            have hni : ty ≠ "iter" := by rw [e1]; exact ok.si
            refine ⟨0, p0, ?_, by simp [yieldsOf, e2]⟩
            rw [e3]
            simp only [hni, if_false, srcPosAt]
            cases pst.bposs <;> simp [nthPos_zero]
          · simp at h
        · split at h
          · have := (scanReads_plain (σ := σ) emptyP cfg.rank cfg.readTy pst.oldEnd c0 pst.toInsert.length
              (pst.z.drop pst.apos) pst.apos).2 _ h (cfg.rank, ty) rfl
            simp only [Prod.mk.injEq, true_and] at this
            rcases hty with e' | e'
            · exact absurd (this.symm.trans e') ok.rs
            · exact absurd (this.symm.trans e') ok.ri
          · simp at h
      · cases h
      · rcases popRd_cases (σ := σ) cfg new c0 rp with e1 | e1 <;> rw [e1] at h
        · simp at h
        · simp only [List.mem_singleton, Item.use.injEq, true_and] at h
          rcases hty with e' | e'
          · exact absurd (h.1.symm.trans e') ok.rs
          · exact absurd (h.1.symm.trans e') ok.ri
      · simp only [Item.use.injEq, true_and] at h
        obtain ⟨e1, e2, e3⟩ := h
        exact ⟨0, p0, by simp [e1, e3], by simp [yieldsOf, e2]⟩
      · cases h
      · cases h
      · rcases popPost_cases (σ := σ) cfg removed c0 wp with e1 | e1 <;> rw [e1] at h <;> simp at h
      · obtain ⟨i, p, e1, e2⟩ := ih _ ty c pos hty hk' h
        refine ⟨i + 1, p, ?_, by simpa [yieldsOf] using e2⟩
        rw [e1]
        congr 1
        split
        · rw [popYield_bpos]; omega
        · simp only [srcPosAt, popYield_bposs, popYield_bpos]
          cases pst.bposs with
          | none => simp; omega
          | some l => simp [nthPos_tail]

end


/-! ### what the sources yield -/

section
variable {α β : Type}

theorem yieldsOf_append (a b : List (Step β)) : yieldsOf (a ++ b) = yieldsOf a ++ yieldsOf b := by
  induction a with
  | nil => rfl
  | cons x rest ih => cases x <;> simp [yieldsOf, ih]

theorem yieldsOf_emits (l : List (Item PEmpty)) : yieldsOf (l.map (Step.emit (β := β))) = [] := by
  induction l with
  | nil => rfl
  | cons x rest ih => simpa [yieldsOf] using ih

/-- `and_iterator` yields exactly the two-finger intersection of C04 -/
theorem andSteps_yields (rank tyA tyB : String) (ta tb : Bool) (ap bp : List Nat) (a : Fib Int α) (b : Fib Int β) :
    yieldsOf (andSteps rank tyA tyB ta tb ap bp a b) = andMerge a b := by
  fun_induction andSteps rank tyA tyB ta tb ap bp a b with
  | case1 => simp [yieldsOf, andMerge]
  | case2 => simp [yieldsOf_append, yieldsOf_emits, yieldsOf, andMerge]
  | case3 => simp [yieldsOf_append, yieldsOf_emits, yieldsOf, andMerge]
  | case4 ap bp pa ra ca pb rb ih =>
    rw [andMerge]; simp [yieldsOf_append, yieldsOf_emits, yieldsOf, ih]
  | case5 ap bp ca pa ra cb pb rb hne hlt ih =>
    rw [andMerge]; simp [yieldsOf_append, yieldsOf_emits, yieldsOf, ih, hne, hlt]
  | case6 ap bp ca pa ra cb pb rb hne hlt ih =>
    rw [andMerge]; simp [yieldsOf_append, yieldsOf_emits, yieldsOf, ih, hne, hlt]

/-- leader-follower yields every presented leader element, with the follower's stored payload or a default -/
theorem lfSteps_yields (rankA rankB tyA tyB : String) (ta : Bool) (dfl : β) (b : Fib Int β) :
    ∀ (a : Fib Int α) (i : List Nat),
      yieldsOf (lfSteps rankA rankB tyA tyB ta dfl b i a) = a.map (fun e => (e.1, (e.2, (posLookup b e.1).getD dfl))) := by
  intro a
  induction a with
  | nil => intro i; rfl
  | cons e rest ih =>
    intro i
    obtain ⟨c, p⟩ := e
    simp [lfSteps, yieldsOf_append, yieldsOf_emits, yieldsOf, ih]

/-- a projection yields the shifted coordinates inside the interval, up to the first one at or above
    its upper end -/
theorem projLoop_yields (srcRank ty : String) (t : Bool) (off : Int) (lo hi : Option Int) :
    ∀ (a : Fib Int α) (j : List Nat),
      yieldsOf (projLoop srcRank ty t off lo hi j a) =
        ((a.takeWhile (fun e => !aboveHi hi (e.1 + off))).filter (fun e => inLo lo (e.1 + off))).map
          (fun e => (e.1 + off, e.2)) := by
  intro a
  induction a with
  | nil => intro j; rfl
  | cons e rest ih =>
    intro j
    obtain ⟨oc, p⟩ := e
    by_cases h1 : aboveHi hi (oc + off) = true
    · simp [projLoop, h1, yieldsOf]
    · by_cases h2 : inLo lo (oc + off) = true
      · cases t <;> simp [projLoop, h1, h2, yieldsOf, ih]
      · simp [projLoop, h1, h2, yieldsOf, ih]

end

end Ft.C16
