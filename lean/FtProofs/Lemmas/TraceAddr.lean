/-
  Lemmas for C16: the coordinates and positions the iterators pass to `addUse` name an element of
  the fiber that is read (position = index in the sequence the iterator enumerates).
-/
import FtProofs.Lemmas.TraceEmit
import FtProofs.Lemmas.Merge
set_option linter.unusedSimpArgs false
set_option linter.unusedVariables false
namespace Ft.C16

section
variable {σ S π : Type}

/-- `iterRange` over a concrete fiber: the traced position is the storage index of a non-empty element -/
theorem iterItems_addr (rank : String) (emptyP : π → Bool) (body : S → Int → π → S × σ) :
    ∀ (f : Fib Int π) (s : S) (j0 : Nat) (r ty : String) (c pos : Int),
      Item.use r ty c pos ∈ (iterItems rank emptyP body s j0 f).2 →
      r = rank ∧ ty = "iter" ∧ ∃ (i : Nat) (p : π), pos = ((j0 + i : Nat) : Int) ∧ f[i]? = some (c, p) ∧ emptyP p = false := by
  intro f
  induction f with
  | nil => intro s j0 r ty c pos h; simp [iterItems] at h
  | cons e rest ih =>
    intro s j0 r ty c pos h
    obtain ⟨c0, p0⟩ := e
    simp only [iterItems] at h
    split at h
    · obtain ⟨h1, h2, i, p, e1, e2, e3⟩ := ih _ _ r ty c pos h
      exact ⟨h1, h2, i + 1, p, by rw [e1]; congr 1; omega, by simpa using e2, e3⟩
    · rename_i hne
      simp only [List.mem_cons, Item.use.injEq, reduceCtorEq, false_or] at h
      rcases h with ⟨rfl, rfl, rfl, rfl⟩ | h
      · exact ⟨rfl, rfl, 0, p0, by simp, by simp, by simpa using hne⟩
      · obtain ⟨h1, h2, i, p, e1, e2, e3⟩ := ih _ _ r ty c pos h
        exact ⟨h1, h2, i + 1, p, by rw [e1]; congr 1; omega, by simpa using e2, e3⟩

end

section
variable {α β : Type}

/-- `and_iterator`: every traced use of operand `a` names the element at that position of the
    sequence `a` presents; same for `b` -/
theorem andSteps_addr (rank tyA tyB : String) (ta tb : Bool) (hAB : tyA ≠ tyB)
    (ap bp : Nat) (a : Fib Int α) (b : Fib Int β) :
    ∀ (r ty : String) (c pos : Int), Step.emit (.use r ty c pos) ∈ andSteps rank tyA tyB ta tb ap bp a b →
      r = rank ∧
      ((ty = tyA ∧ ∃ (i : Nat) (p : α), pos = ((ap + i : Nat) : Int) ∧ a[i]? = some (c, p)) ∨
       (ty = tyB ∧ ∃ (i : Nat) (p : β), pos = ((bp + i : Nat) : Int) ∧ b[i]? = some (c, p))) := by
  have optA : ∀ (t : Bool) (ca : Int) (n : Nat) (r ty : String) (c pos : Int),
      Item.use r ty c pos ∈ optUse t rank tyA ca n → r = rank ∧ ty = tyA ∧ c = ca ∧ pos = (n : Int) := by
    intro t ca n r ty c pos h
    unfold optUse at h
    split at h
    · simp at h; exact ⟨h.1, h.2.1, h.2.2.1, h.2.2.2⟩
    · simp at h
  have optB : ∀ (t : Bool) (cb : Int) (n : Nat) (r ty : String) (c pos : Int),
      Item.use r ty c pos ∈ optUse t rank tyB cb n → r = rank ∧ ty = tyB ∧ c = cb ∧ pos = (n : Int) := by
    intro t cb n r ty c pos h
    unfold optUse at h
    split at h
    · simp at h; exact ⟨h.1, h.2.1, h.2.2.1, h.2.2.2⟩
    · simp at h
  fun_induction andSteps rank tyA tyB ta tb ap bp a b with
  | case1 => intro r ty c pos h; simp at h
  | case2 ap _ ca pa ra =>
    intro r ty c pos h
    simp only [List.mem_append, List.mem_map, List.mem_singleton, Step.emit.injEq, reduceCtorEq, or_false] at h
    obtain ⟨j, hj, rfl⟩ := h
    obtain ⟨e1, e2, e3, e4⟩ := optA _ _ _ _ _ _ _ hj
    exact ⟨e1, Or.inl ⟨e2, 0, pa, by simp [e4], by simp [e3]⟩⟩
  | case3 _ bp cb pb rb =>
    intro r ty c pos h
    simp only [List.mem_append, List.mem_map, List.mem_singleton, Step.emit.injEq, reduceCtorEq, or_false] at h
    obtain ⟨j, hj, rfl⟩ := h
    obtain ⟨e1, e2, e3, e4⟩ := optB _ _ _ _ _ _ _ hj
    exact ⟨e1, Or.inr ⟨e2, 0, pb, by simp [e4], by simp [e3]⟩⟩
  | case4 ap bp pa ra ca pb rb ih =>
    intro r ty c pos h
    simp only [List.mem_append, List.mem_map, List.mem_cons, Step.emit.injEq, reduceCtorEq, false_or] at h
    rcases h with ⟨j, hj, rfl⟩ | h
    · rcases hj with hj | hj
      · obtain ⟨e1, e2, e3, e4⟩ := optA _ _ _ _ _ _ _ hj
        exact ⟨e1, Or.inl ⟨e2, 0, pa, by simp [e4], by simp [e3]⟩⟩
      · obtain ⟨e1, e2, e3, e4⟩ := optB _ _ _ _ _ _ _ hj
        exact ⟨e1, Or.inr ⟨e2, 0, pb, by simp [e4], by simp [e3]⟩⟩
    · obtain ⟨e1, h'⟩ := ih r ty c pos h
      refine ⟨e1, ?_⟩
      rcases h' with ⟨e2, i, p, e3, e4⟩ | ⟨e2, i, p, e3, e4⟩
      · exact Or.inl ⟨e2, i + 1, p, by rw [e3]; congr 1; omega, by simpa using e4⟩
      · exact Or.inr ⟨e2, i + 1, p, by rw [e3]; congr 1; omega, by simpa using e4⟩
  | case5 ap bp ca pa ra cb pb rb hne hlt ih =>
    intro r ty c pos h
    simp only [List.mem_append, List.mem_map, List.mem_cons, Step.emit.injEq, reduceCtorEq, false_or] at h
    rcases h with ⟨j, hj, rfl⟩ | h
    · obtain ⟨e1, e2, e3, e4⟩ := optA _ _ _ _ _ _ _ hj
      exact ⟨e1, Or.inl ⟨e2, 0, pa, by simp [e4], by simp [e3]⟩⟩
    · obtain ⟨e1, h'⟩ := ih r ty c pos h
      refine ⟨e1, ?_⟩
      rcases h' with ⟨e2, i, p, e3, e4⟩ | ⟨e2, i, p, e3, e4⟩
      · exact Or.inl ⟨e2, i + 1, p, by rw [e3]; congr 1; omega, by simpa using e4⟩
      · exact Or.inr ⟨e2, i, p, e3, e4⟩
  | case6 ap bp ca pa ra cb pb rb hne hlt ih =>
    intro r ty c pos h
    simp only [List.mem_append, List.mem_map, List.mem_cons, Step.emit.injEq, reduceCtorEq, false_or] at h
    rcases h with ⟨j, hj, rfl⟩ | h
    · obtain ⟨e1, e2, e3, e4⟩ := optB _ _ _ _ _ _ _ hj
      exact ⟨e1, Or.inr ⟨e2, 0, pb, by simp [e4], by simp [e3]⟩⟩
    · obtain ⟨e1, h'⟩ := ih r ty c pos h
      refine ⟨e1, ?_⟩
      rcases h' with ⟨e2, i, p, e3, e4⟩ | ⟨e2, i, p, e3, e4⟩
      · exact Or.inl ⟨e2, i, p, e3, e4⟩
      · exact Or.inr ⟨e2, i + 1, p, by rw [e3]; congr 1; omega, by simpa using e4⟩

end

section
variable {α β : Type}

/-- leader-follower: the leader's position is the index in the sequence it presents; the follower is
    probed at the lower bound of the coordinate in the fiber as stored (its index when present) -/
theorem lfSteps_addr (rankA rankB tyA tyB : String) (ta : Bool) (dfl : β) (b : Fib Int β) :
    ∀ (a : Fib Int α) (i0 : Nat) (r ty : String) (c pos : Int),
      Step.emit (.use r ty c pos) ∈ lfSteps rankA rankB tyA tyB ta dfl b i0 a →
      (r = rankA ∧ ty = tyA ∧ ∃ (i : Nat) (p : α), pos = ((i0 + i : Nat) : Int) ∧ a[i]? = some (c, p)) ∨
      (r = rankB ∧ ty = tyB ∧ pos = ((lowerBound b c : Nat) : Int) ∧ ∃ (i : Nat) (p : α), a[i]? = some (c, p)) := by
  intro a
  induction a with
  | nil => intro i0 r ty c pos h; simp [lfSteps] at h
  | cons e rest ih =>
    intro i0 r ty c pos h
    obtain ⟨c0, p0⟩ := e
    simp only [lfSteps, List.mem_append, List.mem_map, List.mem_cons, Step.emit.injEq, reduceCtorEq, false_or] at h
    rcases h with ⟨x, hx, rfl⟩ | h | h
    · unfold optUse at hx
      split at hx
      · simp at hx
        obtain ⟨rfl, rfl, rfl, rfl⟩ := hx
        exact Or.inl ⟨rfl, rfl, 0, p0, by simp, by simp⟩
      · simp at hx
    · simp only [Item.use.injEq] at h
      obtain ⟨rfl, rfl, rfl, rfl⟩ := h
      exact Or.inr ⟨rfl, rfl, rfl, 0, p0, by simp⟩
    · rcases ih (i0 + 1) r ty c pos h with ⟨e1, e2, i, p, e3, e4⟩ | ⟨e1, e2, e3, i, p, e4⟩
      · exact Or.inl ⟨e1, e2, i + 1, p, by rw [e3]; congr 1; omega, by simpa using e4⟩
      · exact Or.inr ⟨e1, e2, e3, i + 1, p, by simpa using e4⟩

/-- `project_iterator`: the traced use carries the SOURCE coordinate and its index in the sequence the
    source presents -/
theorem projLoop_addr (srcRank ty : String) (t : Bool) (off : Int) (lo hi : Option Int) :
    ∀ (a : Fib Int α) (j0 : Nat) (s : Nat) (r ty' : String) (c pos : Int),
      Step.emit (.useSaved s r ty' c pos) ∈ projLoop srcRank ty t off lo hi j0 a →
      s = 1 ∧ r = srcRank ∧ ty' = ty ∧ ∃ (i : Nat) (p : α), pos = ((j0 + i : Nat) : Int) ∧ a[i]? = some (c, p) ∧
        inLo lo (c + off) = true ∧ aboveHi hi (c + off) = false := by
  intro a
  induction a with
  | nil => intro j0 s r ty' c pos h; simp [projLoop] at h
  | cons e rest ih =>
    intro j0 s r ty' c pos hm
    obtain ⟨oc, p⟩ := e
    have step : ∀ (hm' : Step.emit (Item.useSaved s r ty' c pos) ∈ projLoop srcRank ty t off lo hi (j0 + 1) rest),
        s = 1 ∧ r = srcRank ∧ ty' = ty ∧ ∃ (i : Nat) (p' : α), pos = ((j0 + i : Nat) : Int) ∧
          ((oc, p) :: rest)[i]? = some (c, p') ∧ inLo lo (c + off) = true ∧ aboveHi hi (c + off) = false := by
      intro hm'
      obtain ⟨e1, e2, e3, i, p', e4, e5, e6⟩ := ih (j0 + 1) s r ty' c pos hm'
      exact ⟨e1, e2, e3, i + 1, p', by rw [e4]; congr 1; omega, by simpa using e5, e6⟩
    by_cases h1 : aboveHi hi (oc + off) = true
    · simp [projLoop, h1] at hm
    · by_cases h2 : inLo lo (oc + off) = true
      · simp only [projLoop, h1, h2, if_true, Bool.false_eq_true, if_false, List.mem_cons, reduceCtorEq,
          List.mem_append, false_or] at hm
        rcases hm with hm | hm
        · cases t with
          | false => simp at hm
          | true =>
            simp only [if_true, List.mem_cons, Step.emit.injEq, Item.useSaved.injEq, reduceCtorEq,
              List.not_mem_nil, or_false] at hm
            obtain ⟨rfl, rfl, rfl, rfl, rfl⟩ := hm
            exact ⟨rfl, rfl, rfl, 0, p, by simp, by simp, h2, by simpa using h1⟩
        · exact step hm
      · simp only [projLoop, h1, h2, if_false, Bool.false_eq_true] at hm
        exact step hm

end

section
variable {σ S β : Type}

/-- the elements a step stream hands to its consumer -/
def yieldsOf : List (Step β) → List (Int × β)
  | [] => []
  | .emit _ :: rest => yieldsOf rest
  | .yield c p :: rest => (c, p) :: yieldsOf rest

/-- `iterRange` over a lazy fiber: the traced position is the index in the yielded sequence -/
theorem lazyItems_addr (rank : String) (body : S → Int → β → S × σ) :
    ∀ (steps : List (Step β)) (s : S) (j0 : Nat) (c pos : Int),
      (∀ i, Step.emit i ∈ steps → itemKey i ≠ some (rank, "iter")) →
      Item.use rank "iter" c pos ∈ (lazyItems rank body s j0 steps).2 →
      ∃ (i : Nat) (p : β), pos = ((j0 + i : Nat) : Int) ∧ (yieldsOf steps)[i]? = some (c, p) := by
  intro steps
  induction steps with
  | nil => intro s j0 c pos _ h; simp [lazyItems] at h
  | cons x rest ih =>
    intro s j0 c pos hk h
    have hk' : ∀ i, Step.emit i ∈ rest → itemKey i ≠ some (rank, "iter") := fun i hi => hk i (by simp [hi])
    cases x with
    | emit i0 =>
      simp only [lazyItems, List.mem_cons] at h
      rcases h with h | h
      · exfalso
        have := hk i0 (by simp)
        rw [← itemKey_lift (σ := σ), ← h] at this
        simp [itemKey] at this
      · simpa [yieldsOf] using ih s j0 c pos hk' h
    | yield c0 p0 =>
      simp only [lazyItems, List.mem_cons, Item.use.injEq, reduceCtorEq, false_or, true_and] at h
      rcases h with ⟨rfl, rfl⟩ | h
      · exact ⟨0, p0, by simp, by simp [yieldsOf]⟩
      · obtain ⟨i, p, e1, e2⟩ := ih _ (j0 + 1) c pos hk' h
        exact ⟨i + 1, p, by rw [e1]; congr 1; omega, by simpa [yieldsOf] using e2⟩

end

/-- an operand that stores no empty element presents exactly what it stores -/
theorem presentAny_eq_children (dflt : Int) (t : AnyTree)
    (h : ∀ e ∈ children t, anyEmpty dflt e.2 = false) : presentAny dflt t = children t := by
  unfold presentAny
  rw [List.filter_eq_self]
  intro e he
  simp [h e he]

section
variable {σ π β : Type}
variable (cfg : PopCfg) (mk : π) (rm : Bool → π → Bool) (emptyP : π → Bool) (body : Int → π → β → π × σ)

theorem popYield_bpos (pst : PopSt π) (c : Int) (bp : β) :
    (popYield cfg mk rm emptyP body pst c bp).1.bpos = pst.bpos + 1 := by
  unfold popYield
  simp only
  repeat' split
  all_goals rfl

/-- `lshift_iterator`, source side: `populate_i` rows carry the offered coordinate and its index in
    the sequence the source yields; the consumer's `iter` rows likewise -/
theorem popItems_src_addr (ok : PopTypesOK cfg) :
    ∀ (steps : List (Step β)) (pst : PopSt π) (ty : String) (c pos : Int),
      (ty = cfg.srcTy ∨ ty = "iter") →
      (∀ i, Step.emit i ∈ steps → itemKey i ≠ some (cfg.rank, ty)) →
      Item.use cfg.rank ty c pos ∈ (popItems cfg mk rm emptyP body pst steps).2 →
      ∃ (i : Nat) (p : β), pos = ((pst.bpos + i : Nat) : Int) ∧ (yieldsOf steps)[i]? = some (c, p) := by
  intro steps
  induction steps with
  | nil =>
    intro pst ty c pos hty _ h
    simp only [popItems, moveItems] at h
    split at h
    · rcases moveLoop_mem' cfg _ _ _ _ _ h with h | ⟨_, _, h⟩ | ⟨_, _, h⟩ <;> cases h
    · simp at h
  | cons x rest ih =>
    intro pst ty c pos hty hk h
    have hk' : ∀ i, Step.emit i ∈ rest → itemKey i ≠ some (cfg.rank, ty) := fun i hi => hk i (by simp [hi])
    cases x with
    | emit i0 =>
      simp only [popItems, List.mem_cons] at h
      rcases h with h | h
      · exfalso
        have := hk i0 (by simp)
        rw [← itemKey_lift (σ := σ), ← h] at this
        simp [itemKey] at this
      · simpa [yieldsOf] using ih pst ty c pos hty hk' h
    | yield c0 p0 =>
      simp only [popItems] at h
      obtain ⟨ins, new, removed, cur, rp, wp, e⟩ := popYield_items cfg mk rm emptyP body pst c0 p0
      rw [e] at h
      simp only [List.mem_append, List.mem_cons] at h
      have here : c = c0 ∧ pos = (pst.bpos : Int) → ∃ (i : Nat) (p : β), pos = ((pst.bpos + i : Nat) : Int) ∧
          (yieldsOf (Step.yield c0 p0 :: rest))[i]? = some (c, p) := by
        rintro ⟨rfl, rfl⟩
        exact ⟨0, p0, by simp, by simp [yieldsOf]⟩
      rcases h with (h | h | h | h | h | h | h) | h
      · -- popPre: the source use, or a read of the inserting search
        unfold popPre at h
        rcases List.mem_append.1 h with h | h
        · split at h
          · simp only [List.mem_singleton, Item.use.injEq, true_and] at h
            exact here ⟨h.2.1, h.2.2⟩
          · simp at h
        · split at h
          · have := (scanReads_plain (σ := σ) emptyP cfg.rank cfg.readTy pst.oldEnd c0 pst.toInsert.length
              (pst.z.drop pst.apos) pst.apos).2 _ h (cfg.rank, ty) rfl
            simp only [Prod.mk.injEq, true_and] at this
            rcases hty with e' | e'
            · exact absurd (this.symm.trans e') ok.rs
            · exact absurd (this.symm.trans e') ok.ri
          · simp at h
      · cases h
      · rcases popRd_cases (σ := σ) cfg new c0 rp with e1 | e1 <;> rw [e1] at h
        · simp at h
        · simp only [List.mem_singleton, Item.use.injEq, true_and] at h
          rcases hty with e' | e'
          · exact absurd (h.1.symm.trans e') ok.rs
          · exact absurd (h.1.symm.trans e') ok.ri
      · simp only [Item.use.injEq, true_and] at h
        exact here ⟨h.2.1, h.2.2⟩
      · cases h
      · cases h
      · rcases popPost_cases (σ := σ) cfg removed c0 wp with e1 | e1 <;> rw [e1] at h <;> simp at h
      · obtain ⟨i, p, e1, e2⟩ := ih _ ty c pos hty hk' h
        rw [popYield_bpos] at e1
        exact ⟨i + 1, p, by rw [e1]; congr 1; omega, by simpa [yieldsOf] using e2⟩

end


/-! ### what the sources yield -/

section
variable {α β : Type}

theorem yieldsOf_append (a b : List (Step β)) : yieldsOf (a ++ b) = yieldsOf a ++ yieldsOf b := by
  induction a with
  | nil => rfl
  | cons x rest ih => cases x <;> simp [yieldsOf, ih]

theorem yieldsOf_emits (l : List (Item PEmpty)) : yieldsOf (l.map (Step.emit (β := β))) = [] := by
  induction l with
  | nil => rfl
  | cons x rest ih => simpa [yieldsOf] using ih

/-- `and_iterator` yields exactly the two-finger intersection of C04 -/
theorem andSteps_yields (rank tyA tyB : String) (ta tb : Bool) (ap bp : Nat) (a : Fib Int α) (b : Fib Int β) :
    yieldsOf (andSteps rank tyA tyB ta tb ap bp a b) = andMerge a b := by
  fun_induction andSteps rank tyA tyB ta tb ap bp a b with
  | case1 => simp [yieldsOf, andMerge]
  | case2 => simp [yieldsOf_append, yieldsOf_emits, yieldsOf, andMerge]
  | case3 => simp [yieldsOf_append, yieldsOf_emits, yieldsOf, andMerge]
  | case4 ap bp pa ra ca pb rb ih =>
    rw [andMerge]; simp [yieldsOf_append, yieldsOf_emits, yieldsOf, ih]
  | case5 ap bp ca pa ra cb pb rb hne hlt ih =>
    rw [andMerge]; simp [yieldsOf_append, yieldsOf_emits, yieldsOf, ih, hne, hlt]
  | case6 ap bp ca pa ra cb pb rb hne hlt ih =>
    rw [andMerge]; simp [yieldsOf_append, yieldsOf_emits, yieldsOf, ih, hne, hlt]

/-- leader-follower yields every presented leader element, with the follower's stored payload or a default -/
theorem lfSteps_yields (rankA rankB tyA tyB : String) (ta : Bool) (dfl : β) (b : Fib Int β) :
    ∀ (a : Fib Int α) (i : Nat),
      yieldsOf (lfSteps rankA rankB tyA tyB ta dfl b i a) = a.map (fun e => (e.1, (e.2, (posLookup b e.1).getD dfl))) := by
  intro a
  induction a with
  | nil => intro i; rfl
  | cons e rest ih =>
    intro i
    obtain ⟨c, p⟩ := e
    simp [lfSteps, yieldsOf_append, yieldsOf_emits, yieldsOf, ih]

/-- a projection yields the shifted coordinates inside the interval, up to the first one at or above
    its upper end -/
theorem projLoop_yields (srcRank ty : String) (t : Bool) (off : Int) (lo hi : Option Int) :
    ∀ (a : Fib Int α) (j : Nat),
      yieldsOf (projLoop srcRank ty t off lo hi j a) =
        ((a.takeWhile (fun e => !aboveHi hi (e.1 + off))).filter (fun e => inLo lo (e.1 + off))).map
          (fun e => (e.1 + off, e.2)) := by
  intro a
  induction a with
  | nil => intro j; rfl
  | cons e rest ih =>
    intro j
    obtain ⟨oc, p⟩ := e
    by_cases h1 : aboveHi hi (oc + off) = true
    · simp [projLoop, h1, yieldsOf]
    · by_cases h2 : inLo lo (oc + off) = true
      · cases t <;> simp [projLoop, h1, h2, yieldsOf, ih]
      · simp [projLoop, h1, h2, yieldsOf, ih]

end

end Ft.C16
