/-
  Helper lemmas for C17: `combine` (stable merge), `filterTrace`, `nextUse`.
-/
import FtProofs.Lemmas.TrafficBasic
set_option linter.unusedSectionVars false
set_option linter.unusedSimpArgs false
set_option linter.unusedVariables false
namespace Ft
namespace Traffic

/-- stamps lexicographically non-decreasing -/
def StampSorted (l : List Row) : Prop := l.Pairwise (fun a b => lexLe a.stamp b.stamp = true)

@[simp] theorem untag_tag (r : Row) (w : Bool) : (r.tag w).untag = r := rfl
@[simp] theorem tag_isWrite (r : Row) (w : Bool) : (r.tag w).isWrite = w := rfl
@[simp] theorem tag_stamp (r : Row) (w : Bool) : (r.tag w).stamp = r.stamp := rfl

theorem filter_map_tag_true (ws : List Row) :
    (ws.map (·.tag true)).filter (fun r => r.isWrite) = ws.map (·.tag true) := by
  apply List.filter_eq_self.2; intro x hx
  obtain ⟨y, _, rfl⟩ := List.mem_map.1 hx; rfl

theorem filter_map_tag_true' (ws : List Row) :
    (ws.map (·.tag true)).filter (fun r => !r.isWrite) = [] := by
  apply List.filter_eq_nil_iff.2; intro x hx
  obtain ⟨y, _, rfl⟩ := List.mem_map.1 hx; simp

theorem filter_map_tag_false (rs : List Row) :
    (rs.map (·.tag false)).filter (fun r => !r.isWrite) = rs.map (·.tag false) := by
  apply List.filter_eq_self.2; intro x hx
  obtain ⟨y, _, rfl⟩ := List.mem_map.1 hx; rfl

theorem filter_map_tag_false' (rs : List Row) :
    (rs.map (·.tag false)).filter (fun r => r.isWrite) = [] := by
  apply List.filter_eq_nil_iff.2; intro x hx
  obtain ⟨y, _, rfl⟩ := List.mem_map.1 hx; simp

theorem map_untag_map_tag (l : List Row) (w : Bool) : (l.map (·.tag w)).map CRow.untag = l := by
  induction l with
  | nil => rfl
  | cons a r ih => simp [ih]

theorem combine_reads (rs ws : List Row) :
    ((combine rs ws).filter (fun r => !r.isWrite)).map CRow.untag = rs := by
  fun_induction combine rs ws with
  | case1 ws => simp [filter_map_tag_true']
  | case2 r rs => rw [filter_map_tag_false, map_untag_map_tag]
  | case3 r rs w ws h ih => simpa [List.filter_cons] using ih
  | case4 r rs w ws h ih => simp [List.filter_cons, ih]

theorem combine_writes (rs ws : List Row) :
    ((combine rs ws).filter (fun r => r.isWrite)).map CRow.untag = ws := by
  fun_induction combine rs ws with
  | case1 ws => rw [filter_map_tag_true, map_untag_map_tag]
  | case2 r rs => simp [filter_map_tag_false']
  | case3 r rs w ws h ih => simp [List.filter_cons, ih]
  | case4 r rs w ws h ih => simpa [List.filter_cons] using ih

/-- every row of the merge comes from one of the two files, with the right label -/
theorem mem_combine {rs ws : List Row} {x : CRow} (hx : x ∈ combine rs ws) :
    (x.isWrite = false ∧ x.untag ∈ rs) ∨ (x.isWrite = true ∧ x.untag ∈ ws) := by
  fun_induction combine rs ws with
  | case1 ws =>
    obtain ⟨y, hy, rfl⟩ := List.mem_map.1 hx; exact Or.inr ⟨rfl, hy⟩
  | case2 r rs =>
    obtain ⟨y, hy, rfl⟩ := List.mem_map.1 hx; exact Or.inl ⟨rfl, hy⟩
  | case3 r rs w ws h ih =>
    rcases List.mem_cons.1 hx with rfl | hx
    · exact Or.inr ⟨rfl, List.mem_cons_self⟩
    · rcases ih hx with h1 | h1
      · exact Or.inl h1
      · exact Or.inr ⟨h1.1, List.mem_cons_of_mem _ h1.2⟩
  | case4 r rs w ws h ih =>
    rcases List.mem_cons.1 hx with rfl | hx
    · exact Or.inl ⟨rfl, List.mem_cons_self⟩
    · rcases ih hx with h1 | h1
      · exact Or.inl ⟨h1.1, List.mem_cons_of_mem _ h1.2⟩
      · exact Or.inr h1

theorem untag_stamp (x : CRow) : x.untag.stamp = x.stamp := rfl

theorem eq_tag_of_untag {y : CRow} {r : Row} {b : Bool} (h1 : y.untag = r) (h2 : y.isWrite = b) :
    y = r.tag b := by
  cases y; subst h1; subst h2; rfl

/-- a row of a file shows up in a list whose projection on that label is the file -/
theorem mem_of_proj_write {out : List CRow} {ws : List Row} {w : Row}
    (h : (out.filter (fun r => r.isWrite)).map CRow.untag = ws) (hw : w ∈ ws) : w.tag true ∈ out := by
  rw [← h] at hw
  obtain ⟨y, hy, hyw⟩ := List.mem_map.1 hw
  have hyW : y.isWrite = true := (List.mem_filter.1 hy).2
  rw [← eq_tag_of_untag hyw hyW]; exact (List.mem_filter.1 hy).1

theorem mem_of_proj_read {out : List CRow} {rs : List Row} {r : Row}
    (h : (out.filter (fun r => !r.isWrite)).map CRow.untag = rs) (hr : r ∈ rs) : r.tag false ∈ out := by
  rw [← h] at hr
  obtain ⟨y, hy, hyr⟩ := List.mem_map.1 hr
  have hyW : y.isWrite = false := by simpa using (List.mem_filter.1 hy).2
  rw [← eq_tag_of_untag hyr hyW]; exact (List.mem_filter.1 hy).1

theorem combine_tiesReadFirst (rs ws : List Row) (hr : StampSorted rs) :
    tiesReadFirst (combine rs ws) = true := by
  fun_induction combine rs ws with
  | case1 ws =>
    induction ws with
    | nil => rfl
    | cons a r ih =>
      simp only [List.map_cons, tiesReadFirst, Bool.and_eq_true, ih, and_true]
      simp only [tag_isWrite, Bool.not_true, Bool.false_or, List.all_eq_true]
      intro y hy; obtain ⟨z, _, rfl⟩ := List.mem_map.1 hy; simp
  | case2 r rs =>
    generalize r :: rs = l
    induction l with
    | nil => rfl
    | cons a r ih => simp [tiesReadFirst, ih]
  | case3 r rs w ws h ih =>
    simp only [tiesReadFirst, Bool.and_eq_true, ih hr, and_true, tag_isWrite, Bool.not_true,
      Bool.false_or, List.all_eq_true, Bool.or_eq_true, tag_stamp]
    intro y hy
    rcases mem_combine hy with ⟨hw, hm⟩ | ⟨hw, _⟩
    · right
      rw [← untag_stamp y]
      rcases List.mem_cons.1 hm with e | hm
      · rw [e]; exact h
      · exact lexLt_of_lt_of_le h ((List.pairwise_cons.1 hr).1 _ hm)
    · left; exact hw
  | case4 r rs w ws h ih =>
    simp [tiesReadFirst, ih (List.pairwise_cons.1 hr).2]

theorem combine_readsNotOvertaken (rs ws : List Row) (hw : StampSorted ws) :
    readsNotOvertaken (combine rs ws) = true := by
  fun_induction combine rs ws with
  | case1 ws =>
    generalize ws = l
    induction l with
    | nil => rfl
    | cons a r ih => simp [readsNotOvertaken, ih]
  | case2 r rs =>
    generalize r :: rs = l
    induction l with
    | nil => rfl
    | cons a r ih =>
      simp only [List.map_cons, readsNotOvertaken, Bool.and_eq_true, ih, and_true]
      simp only [tag_isWrite, Bool.false_or, List.all_eq_true]
      intro y hy; obtain ⟨z, _, rfl⟩ := List.mem_map.1 hy; simp
  | case3 r rs w ws h ih =>
    simp [readsNotOvertaken, ih (List.pairwise_cons.1 hw).2]
  | case4 r rs w ws h ih =>
    simp only [readsNotOvertaken, Bool.and_eq_true, ih hw, and_true, tag_isWrite,
      Bool.false_or, List.all_eq_true, Bool.or_eq_true, tag_stamp, Bool.not_eq_true']
    intro y hy
    rcases mem_combine hy with ⟨hwf, _⟩ | ⟨hwt, hm⟩
    · left; exact hwf
    · right
      rw [← untag_stamp y]
      have hnot : lexLt w.stamp r.stamp = false := by simpa using h
      rcases List.mem_cons.1 hm with e | hm
      · rw [e]; exact lexLe_of_not_lt hnot
      · exact lexLe_trans (lexLe_of_not_lt hnot) ((List.pairwise_cons.1 hw).1 _ hm)

/-! ### nextUse -/

theorem nextUseAux_dict (mask : List Bool) (epl : Nat) (rows : List CRow) (p : List Nat) :
    alookup (nextUseAux mask epl rows).2 p = rows.find? (fun x => x.line mask epl = p) := by
  induction rows with
  | nil => rfl
  | cons r rest ih =>
    simp only [nextUseAux, alookup_ainsert, List.find?_cons]
    by_cases h : r.line mask epl = p
    · simp [h]
    · simp [h, ih]

theorem nextUse_eq_spec (mask : List Bool) (epl : Nat) (rows : List CRow) :
    nextUse mask epl rows = nextUseSpec mask epl rows := by
  unfold nextUse
  induction rows with
  | nil => rfl
  | cons r rest ih => simp only [nextUseAux, nextUseSpec, nextUseAux_dict, ih]

/-- searching the accesses by line = searching the rows by line -/
theorem find_map_spec (mask : List Bool) (epl : Nat) (shape : Option Nat) (p : List Nat) :
    ∀ (l : List CRow),
      (((nextUseSpec mask epl l).map (mkAcc mask epl shape)).find?
          (fun x => decide (x.point = p))).map (·.stamp)
        = (l.find? (fun x => decide (x.line mask epl = p))).map (·.stamp)
  | [] => rfl
  | r :: rest => by
    simp only [nextUseSpec, List.map_cons, List.find?_cons]
    by_cases h : r.line mask epl = p
    · simp [mkAcc, h]
    · simp only [mkAcc, h, decide_false]
      exact find_map_spec mask epl shape p rest

theorem accsOf_stamps (mask : List Bool) (epl : Nat) (shape : Option Nat) (rows : List CRow) :
    (accsOf mask mask epl shape rows).map (·.stamp) = rows.map (·.stamp) := by
  unfold accsOf
  rw [nextUse_eq_spec]
  induction rows with
  | nil => rfl
  | cons r rest ih =>
    simp only [nextUseSpec, List.map_cons, List.cons.injEq]
    exact ⟨rfl, ih⟩

end Traffic
end Ft
