/-
  Helper lemmas about sorted association lists (Mathlib-free).
-/
import FtModel.Basic
import FtModel.Coiter
set_option linter.unusedSectionVars false
set_option linter.unusedSimpArgs false
namespace Ft
open StrictTotal

section
variable {κ : Type} [LT κ] [DecidableRel (α := κ) (· < ·)] [DecidableEq κ] [StrictTotal κ]
variable {π α β : Type}

theorem lt_ne {a b : κ} (h : a < b) : a ≠ b := by
  intro e; subst e; exact irrefl a h

theorem lt_asymm' {a b : κ} (h : a < b) : ¬ b < a := fun h' => irrefl a (trans h h')

theorem sorted_cons {e : κ × π} {f : Fib κ π} :
    Sorted (e :: f) ↔ (∀ x ∈ f, e.1 < x.1) ∧ Sorted f := by
  unfold Sorted; exact List.pairwise_cons

theorem Sorted.tail {e : κ × π} {f : Fib κ π} (h : Sorted (e :: f)) : Sorted f :=
  (sorted_cons.1 h).2

theorem Sorted.head_lt {e : κ × π} {f : Fib κ π} (h : Sorted (e :: f)) :
    ∀ x ∈ f, e.1 < x.1 := (sorted_cons.1 h).1

theorem sorted_nil : Sorted ([] : Fib κ π) := List.Pairwise.nil

theorem sortedB_iff (f : Fib κ π) : sortedB f = true ↔ Sorted f := by
  induction f with
  | nil => simp [sortedB, Sorted]
  | cons x r ih =>
    cases r with
    | nil => simp [sortedB, Sorted]
    | cons y r' =>
      simp only [sortedB, Bool.and_eq_true, decide_eq_true_eq, ih]
      constructor
      · rintro ⟨hxy, hs⟩
        refine sorted_cons.2 ⟨?_, hs⟩
        intro z hz
        rcases List.mem_cons.1 hz with rfl | hz
        · exact hxy
        · exact trans hxy (hs.head_lt z hz)
      · intro h
        exact ⟨h.head_lt y (List.mem_cons_self ..), h.tail⟩

theorem lookup_nil (c : κ) : lookup ([] : Fib κ π) c = none := rfl

theorem lookup_cons (e : κ × π) (f : Fib κ π) (c : κ) :
    lookup (e :: f) c = if e.1 = c then some e.2 else lookup f c := by
  unfold lookup
  by_cases h : e.1 = c <;> simp [List.find?_cons, h]

theorem lookup_eq_none_of_lt {f : Fib κ π} {c : κ} (h : ∀ x ∈ f, c < x.1) :
    lookup f c = none := by
  induction f with
  | nil => rfl
  | cons e r ih =>
    rw [lookup_cons]
    have : e.1 ≠ c := fun he => lt_ne (h e (List.mem_cons_self ..)) he.symm
    simp [this, ih (fun x hx => h x (List.mem_cons_of_mem _ hx))]

theorem hasCoord_cons (e : κ × π) (f : Fib κ π) (c : κ) :
    hasCoord (e :: f) c = (decide (e.1 = c) || hasCoord f c) := by
  simp [hasCoord]

theorem hasCoord_eq_false_of_lt {f : Fib κ π} {c : κ} (h : ∀ x ∈ f, c < x.1) :
    hasCoord f c = false := by
  induction f with
  | nil => rfl
  | cons e r ih =>
    rw [hasCoord_cons]
    have : e.1 ≠ c := fun he => lt_ne (h e (List.mem_cons_self ..)) he.symm
    simp [this, ih (fun x hx => h x (List.mem_cons_of_mem _ hx))]

theorem hasCoord_iff_lookup (f : Fib κ π) (c : κ) : hasCoord f c = (lookup f c).isSome := by
  induction f with
  | nil => rfl
  | cons e r ih =>
    rw [hasCoord_cons, lookup_cons]
    by_cases h : e.1 = c <;> simp [h, ih]

theorem filterMap_congr' {l : List α} {f g : α → Option β} (h : ∀ x ∈ l, f x = g x) :
    l.filterMap f = l.filterMap g := by
  induction l with
  | nil => rfl
  | cons x r ih =>
    simp only [List.filterMap_cons, h x (List.mem_cons_self ..)]
    rw [ih (fun y hy => h y (List.mem_cons_of_mem _ hy))]

theorem filter_congr' {l : List α} {f g : α → Bool} (h : ∀ x ∈ l, f x = g x) :
    l.filter f = l.filter g := by
  induction l with
  | nil => rfl
  | cons x r ih =>
    simp only [List.filter_cons, h x (List.mem_cons_self ..)]
    rw [ih (fun y hy => h y (List.mem_cons_of_mem _ hy))]

end

section
variable {κ ν : Type} [LT κ]
theorem WF.sorted {d : Nat} {f : Tree κ ν (d + 1)} (h : WF (d + 1) f) :
    Sorted (show List (κ × Tree κ ν d) from f) := h.1

theorem WF.sub {d : Nat} {f : Tree κ ν (d + 1)} (h : WF (d + 1) f) :
    ∀ e ∈ (show List (κ × Tree κ ν d) from f), WF d e.2 := h.2
end
end Ft
