/-
  Helper lemmas for C17: the lexicographic order on stamps (Python tuple comparison) and
  association lists (Python dicts).  Mathlib-free.
-/
import FtModel.Traffic
set_option linter.unusedSectionVars false
set_option linter.unusedSimpArgs false
set_option linter.unusedVariables false
namespace Ft
namespace Traffic

/-! ### lexLt is a strict total order -/

theorem lexLt_irrefl : ∀ a : List Nat, lexLt a a = false
  | [] => rfl
  | x :: xs => by simp [lexLt, lexLt_irrefl xs]

theorem lexLt_trans : ∀ {a b c : List Nat}, lexLt a b = true → lexLt b c = true → lexLt a c = true
  | [], [], _, h, _ => by simp [lexLt] at h
  | [], _ :: _, [], _, h => by simp [lexLt] at h
  | [], _ :: _, _ :: _, _, _ => by simp [lexLt]
  | _ :: _, [], _, h, _ => by simp [lexLt] at h
  | _ :: _, _ :: _, [], _, h => by simp [lexLt] at h
  | x :: xs, y :: ys, z :: zs, h1, h2 => by
    simp only [lexLt] at h1 h2 ⊢
    by_cases hxy : x < y
    · by_cases hyz : y < z
      · have : x < z := Nat.lt_trans hxy hyz
        simp [this]
      · simp only [hyz, if_false] at h2
        by_cases hzy : z < y
        · simp [hzy] at h2
        · have : y = z := by omega
          subst this; simp [hxy]
    · simp only [hxy, if_false] at h1
      by_cases hyx : y < x
      · simp [hyx] at h1
      · simp only [hyx, if_false] at h1
        have : x = y := by omega
        subst this
        by_cases hxz : x < z
        · simp [hxz]
        · simp only [hxz, if_false] at h2 ⊢
          by_cases hzx : z < x
          · simp [hzx] at h2
          · simp only [hzx, if_false] at h2 ⊢
            exact lexLt_trans h1 h2

theorem lexLt_asymm {a b : List Nat} (h : lexLt a b = true) : lexLt b a = false := by
  cases hb : lexLt b a
  · rfl
  · have := lexLt_trans h hb
    rw [lexLt_irrefl] at this; cases this

theorem lexLt_total : ∀ {a b : List Nat}, lexLt a b = false → lexLt b a = false → a = b
  | [], [], _, _ => rfl
  | [], _ :: _, h, _ => by simp [lexLt] at h
  | _ :: _, [], _, h => by simp [lexLt] at h
  | x :: xs, y :: ys, h1, h2 => by
    simp only [lexLt] at h1 h2
    by_cases hxy : x < y
    · simp [hxy] at h1
    · by_cases hyx : y < x
      · simp [hyx] at h2
      · simp only [hxy, hyx, if_false] at h1 h2
        have : x = y := by omega
        subst this
        rw [lexLt_total h1 h2]

theorem lexLt_ne {a b : List Nat} (h : lexLt a b = true) : a ≠ b := by
  intro e; subst e; rw [lexLt_irrefl] at h; cases h

theorem lexLe_refl (a : List Nat) : lexLe a a = true := by simp [lexLe, lexLt_irrefl]

theorem lexLe_of_lt {a b : List Nat} (h : lexLt a b = true) : lexLe a b = true := by
  simp [lexLe, lexLt_asymm h]

theorem lexLt_of_le_of_lt {a b c : List Nat} (h1 : lexLe a b = true) (h2 : lexLt b c = true) :
    lexLt a c = true := by
  simp only [lexLe, Bool.not_eq_true'] at h1
  cases hab : lexLt a b
  · have := lexLt_total hab h1; subst this; exact h2
  · exact lexLt_trans hab h2

theorem lexLt_of_lt_of_le {a b c : List Nat} (h1 : lexLt a b = true) (h2 : lexLe b c = true) :
    lexLt a c = true := by
  simp only [lexLe, Bool.not_eq_true'] at h2
  cases hbc : lexLt b c
  · have := lexLt_total hbc h2; subst this; exact h1
  · exact lexLt_trans h1 hbc

theorem lexLe_trans {a b c : List Nat} (h1 : lexLe a b = true) (h2 : lexLe b c = true) :
    lexLe a c = true := by
  cases hca : lexLt c a
  · simp [lexLe, hca]
  · have := lexLt_of_lt_of_le hca h1
    simp only [lexLe, Bool.not_eq_true'] at h2
    have h3 := lexLt_asymm this
    -- c < b and ¬ (c < b)
    rw [h2] at this; cases this

theorem lexLe_of_not_lt {a b : List Nat} (h : lexLt b a = false) : lexLe a b = true := by
  simp [lexLe, h]

/-! ### association lists -/

section AList
variable {κ β : Type} [DecidableEq κ]

theorem alookup_ainsert_self (l : List (κ × β)) (k : κ) (v : β) :
    alookup (ainsert l k v) k = some v := by
  induction l with
  | nil => simp [ainsert, alookup]
  | cons e r ih =>
    obtain ⟨k', w⟩ := e
    by_cases h : k' = k
    · simp [ainsert, alookup, h]
    · simp [ainsert, alookup, h, ih]

theorem alookup_ainsert_ne (l : List (κ × β)) {k x : κ} (v : β) (h : k ≠ x) :
    alookup (ainsert l k v) x = alookup l x := by
  induction l with
  | nil => simp [ainsert, alookup, h]
  | cons e r ih =>
    obtain ⟨k', w⟩ := e
    by_cases h1 : k' = k
    · subst h1; simp [ainsert, alookup, h]
    · by_cases h2 : k' = x
      · subst h2; simp [ainsert, alookup, h1]
      · simp [ainsert, alookup, h1, h2, ih]

theorem alookup_ainsert (l : List (κ × β)) (k x : κ) (v : β) :
    alookup (ainsert l k v) x = if k = x then some v else alookup l x := by
  by_cases h : k = x
  · subst h; simp [alookup_ainsert_self]
  · simp [h, alookup_ainsert_ne l v h]

theorem alookup_aerase (l : List (κ × β)) (k x : κ) :
    alookup (aerase l k) x = if k = x then none else alookup l x := by
  induction l with
  | nil => simp [aerase, alookup]
  | cons e r ih =>
    obtain ⟨k', w⟩ := e
    unfold aerase at ih ⊢
    by_cases h1 : k' = k
    · subst h1
      by_cases h2 : k' = x
      · subst h2; simpa [List.filter_cons, alookup] using ih
      · simp only [List.filter_cons, ne_eq, not_true_eq_false, decide_false, Bool.false_eq_true,
          if_false, alookup, h2]
        simpa [h2] using ih
    · by_cases h2 : k = x
      · subst h2
        simp only [List.filter_cons, ne_eq, h1, not_false_eq_true, decide_true, if_true, alookup,
          if_false]
        simpa using ih
      · simp only [List.filter_cons, ne_eq, h1, not_false_eq_true, decide_true, if_true, alookup, h2,
          if_false]
        by_cases h3 : k' = x
        · simp [h3]
        · simp only [h3, if_false]; simpa [h2] using ih

theorem alookup_aerase_self (l : List (κ × β)) (k : κ) : alookup (aerase l k) k = none := by
  simp [alookup_aerase]

theorem alookup_aerase_ne (l : List (κ × β)) {k x : κ} (h : k ≠ x) :
    alookup (aerase l k) x = alookup l x := by
  simp [alookup_aerase, h]

theorem aerase_length_lt (l : List (κ × β)) (k : κ) {v : β} (h : alookup l k = some v) :
    (aerase l k).length < l.length := by
  induction l with
  | nil => simp [alookup] at h
  | cons e r ih =>
    obtain ⟨k', w⟩ := e
    unfold aerase
    by_cases h1 : k' = k
    · subst h1
      simp only [List.filter_cons, ne_eq, not_true_eq_false, decide_false, Bool.false_eq_true, if_false,
        List.length_cons]
      have := List.length_filter_le (fun e : κ × β => decide (e.1 ≠ k')) r
      simp only [ne_eq] at this
      omega
    · simp only [alookup, h1, if_false] at h
      have := ih h
      unfold aerase at this
      simp only [ne_eq] at this
      simp only [List.filter_cons, ne_eq, h1, not_false_eq_true, decide_true, if_true, List.length_cons]
      omega

theorem alookup_nil (k : κ) : alookup ([] : List (κ × β)) k = none := rfl

end AList

end Traffic
end Ft
