/-
  Helper lemmas for C08, non-uniform split: the `while i < len(splits)` scan with its
  `search_start` shortcut collects exactly the partitions whose halo-extended interval
  contains the coordinate (for ascending boundaries and ascending coordinates).
-/
import FtModel.Split
import FtProofs.Lemmas.Sorted
import FtProofs.Lemmas.SplitUniform
set_option linter.unusedSectionVars false
set_option linter.unusedSimpArgs false
set_option linter.unusedVariables false
namespace Ft

section nu
variable {π : Type} (S : List Int) (pre post as ae : Int)

/-- membership in partition `i` spelled out -/
theorem nuMemb_iff (i : Nat) (c : Int) :
    nuMemb S pre post as ae i c = true ↔
      ∃ s, S[i]? = some s ∧ as - pre ≤ c ∧ c < ae + post ∧
        (∀ t, S[i + 1]? = some t → as < t ∧ c < t + post) ∧ s < ae ∧ s - pre ≤ c := by
  unfold nuMemb
  cases hi : S[i]? with
  | none => simp
  | some s =>
    cases hn : S[i + 1]? with
    | none =>
      simp only [leInf, addInf, Option.map_none, inWindow, Bool.not_false, Bool.and_true,
        Bool.and_eq_true, decide_eq_true_eq, Option.some.injEq, exists_eq_left']
      constructor
      · rintro ⟨⟨⟨h1, h2⟩, h3⟩, h4⟩; exact ⟨h1, h2, fun t ht => (by cases ht), h3, h4⟩
      · rintro ⟨h1, h2, _, h3, h4⟩; exact ⟨⟨⟨h1, h2⟩, h3⟩, h4⟩
    | some t =>
      simp only [leInf, addInf, Option.map_some, inWindow, Bool.and_eq_true, decide_eq_true_eq,
        Bool.not_eq_true', decide_eq_false_iff_not, Option.some.injEq, exists_eq_left']
      constructor
      · rintro ⟨⟨⟨⟨⟨h1, h2⟩, h3⟩, h4⟩, h5⟩, h6⟩
        exact ⟨h1, h2, fun t' ht' => (by subst ht'; constructor <;> omega), h4, h5⟩
      · rintro ⟨h1, h2, h3, h4, h5⟩
        obtain ⟨a, b⟩ := h3 t rfl
        exact ⟨⟨⟨⟨⟨h1, h2⟩, by omega⟩, h4⟩, h5⟩, by omega⟩

theorem nuMemb_false_of_none (i : Nat) (c : Int) (h : S[i]? = none) :
    nuMemb S pre post as ae i c = false := by
  unfold nuMemb; rw [h]

/-- the per-boundary test of the scan (everything except the window test) -/
def mem1 (s : Int) (nxt : Option Int) (c : Int) : Bool :=
  !leInf nxt as && decide (s < ae) && !leInf (addInf nxt post) c && decide (s - pre ≤ c)

theorem mem1_iff (s : Int) (nxt : Option Int) (c : Int) :
    mem1 pre post as ae s nxt c = true ↔
      (∀ t, nxt = some t → as < t ∧ c < t + post) ∧ s < ae ∧ s - pre ≤ c := by
  unfold mem1
  cases nxt with
  | none => simp [leInf, addInf]
  | some t =>
    simp only [leInf, addInf, Option.map_some, Bool.and_eq_true, decide_eq_true_eq,
      Bool.not_eq_true', decide_eq_false_iff_not, Option.some.injEq]
    constructor
    · rintro ⟨⟨⟨h1, h2⟩, h3⟩, h4⟩
      exact ⟨fun t' ht' => (by subst ht'; constructor <;> omega), h2, h4⟩
    · rintro ⟨h1, h2, h3⟩
      obtain ⟨a, b⟩ := h1 t rfl
      exact ⟨⟨⟨by omega, h2⟩, by omega⟩, h3⟩

theorem sorted_getElem?_le (hS : S.Pairwise (· < ·)) {i j : Nat} {a b : Int} (hij : i ≤ j)
    (ha : S[i]? = some a) (hb : S[j]? = some b) : a ≤ b := by
  have hi : i < S.length := by
    rcases Nat.lt_or_ge i S.length with h | h
    · exact h
    · rw [List.getElem?_eq_none h] at ha; cases ha
  have hj : j < S.length := by
    rcases Nat.lt_or_ge j S.length with h | h
    · exact h
    · rw [List.getElem?_eq_none h] at hb; cases hb
  rw [List.getElem?_eq_getElem hi] at ha
  rw [List.getElem?_eq_getElem hj] at hb
  cases ha; cases hb
  rcases Nat.lt_or_ge i j with h | h
  · exact Int.le_of_lt ((List.pairwise_iff_getElem.1 hS) i j hi hj h)
  · have : i = j := by omega
    subst this; exact Int.le_refl _

theorem sorted_getElem?_lt (hS : S.Pairwise (· < ·)) {i j : Nat} {a b : Int} (hij : i < j)
    (ha : S[i]? = some a) (hb : S[j]? = some b) : a < b := by
  have hj : j < S.length := by
    rcases Nat.lt_or_ge j S.length with h | h
    · exact h
    · rw [List.getElem?_eq_none h] at hb; cases hb
  have hi : i < S.length := by omega
  rw [List.getElem?_eq_getElem hi] at ha
  rw [List.getElem?_eq_getElem hj] at hb
  cases ha; cases hb
  exact (List.pairwise_iff_getElem.1 hS) i j hi hj hij

/-- what the scan started at boundary `i` collects -/
theorem nuInner_mem (hS : S.Pairwise (· < ·)) (c : Int) :
    ∀ (k i : Nat), S.length - i = k → ∀ j,
      (j ∈ nuInner as ae pre post c i (S.drop i) ↔
        i ≤ j ∧ ∃ t, S[j]? = some t ∧ mem1 pre post as ae t S[j + 1]? c = true) := by
  intro k
  induction k with
  | zero =>
    intro i hk j
    have hi : S.length ≤ i := by omega
    rw [List.drop_eq_nil_of_le hi]
    simp only [nuInner, List.not_mem_nil, false_iff]
    rintro ⟨hij, t, ht, _⟩
    rw [List.getElem?_eq_none (by omega)] at ht; cases ht
  | succ k ih =>
    intro i hk j
    have hi : i < S.length := by omega
    have hsi : S[i]? = some S[i] := List.getElem?_eq_getElem hi
    rw [List.drop_eq_getElem_cons hi]
    unfold nuInner
    rw [List.head?_drop]
    have IH := ih (i + 1) (by omega) j
    -- every boundary from i on is ≥ S[i]
    have hge : ∀ j t, i ≤ j → S[j]? = some t → S[i] ≤ t :=
      fun j t hij ht => sorted_getElem?_le S hS hij hsi ht
    by_cases hA : leInf S[i + 1]? as = true
    · simp only [hA, if_true]
      rw [IH]
      constructor
      · rintro ⟨h1, h2⟩; exact ⟨by omega, h2⟩
      · rintro ⟨h1, t, ht, hm⟩
        refine ⟨?_, t, ht, hm⟩
        rcases Nat.lt_or_ge i j with h | h
        · exact h
        · have : j = i := by omega
          subst this
          rw [hsi] at ht; cases ht
          simp [mem1, hA] at hm
    · simp only [hA, Bool.false_eq_true, if_false]
      by_cases hB : ae ≤ S[i]
      · simp only [hB, if_true, List.not_mem_nil, false_iff]
        rintro ⟨hij, t, ht, hm⟩
        have := hge j t hij ht
        have := ((mem1_iff pre post as ae t _ c).1 hm).2.1
        omega
      · simp only [hB, if_false]
        by_cases hC : leInf (addInf S[i + 1]? post) c = true
        · simp only [hC, if_true]
          rw [IH]
          constructor
          · rintro ⟨h1, h2⟩; exact ⟨by omega, h2⟩
          · rintro ⟨h1, t, ht, hm⟩
            refine ⟨?_, t, ht, hm⟩
            rcases Nat.lt_or_ge i j with h | h
            · exact h
            · have : j = i := by omega
              subst this
              rw [hsi] at ht; cases ht
              simp [mem1, hC] at hm
        · simp only [hC, Bool.false_eq_true, if_false]
          by_cases hD : c < S[i] - pre
          · simp only [hD, if_true, List.not_mem_nil, false_iff]
            rintro ⟨hij, t, ht, hm⟩
            have := hge j t hij ht
            have := ((mem1_iff pre post as ae t _ c).1 hm).2.2
            omega
          · simp only [hD, if_false, List.mem_cons]
            rw [IH]
            constructor
            · rintro (rfl | ⟨h1, h2⟩)
              · refine ⟨Nat.le_refl _, S[j], hsi, ?_⟩
                simp only [mem1, Bool.and_eq_true, decide_eq_true_eq, Bool.not_eq_true']
                refine ⟨⟨⟨by simpa using hA, by omega⟩, by simpa using hC⟩, by omega⟩
              · exact ⟨by omega, h2⟩
            · rintro ⟨h1, t, ht, hm⟩
              rcases Nat.lt_or_ge i j with h | h
              · exact Or.inr ⟨h, t, ht, hm⟩
              · left; omega

theorem nuInner_lb (c : Int) : ∀ (T : List Int) (i : Nat), ∀ j ∈ nuInner as ae pre post c i T, i ≤ j := by
  intro T
  induction T with
  | nil => intro i j hj; simp [nuInner] at hj
  | cons s rest ih =>
    intro i j hj
    unfold nuInner at hj
    split at hj
    · have := ih (i + 1) j hj; omega
    · split at hj
      · cases hj
      · split at hj
        · have := ih (i + 1) j hj; omega
        · split at hj
          · cases hj
          · rcases List.mem_cons.1 hj with rfl | hj
            · exact Nat.le_refl _
            · have := ih (i + 1) j hj; omega

theorem nuInner_nodup (c : Int) : ∀ (T : List Int) (i : Nat), (nuInner as ae pre post c i T).Nodup := by
  intro T
  induction T with
  | nil => intro i; simp [nuInner]
  | cons s rest ih =>
    intro i
    unfold nuInner
    split
    · exact ih (i + 1)
    · split
      · exact List.nodup_nil
      · split
        · exact ih (i + 1)
        · split
          · exact List.nodup_nil
          · refine List.nodup_cons.2 ⟨?_, ih (i + 1)⟩
            intro h
            have := nuInner_lb pre post as ae c rest (i + 1) i h
            omega

/-- appending `x` to the buckets listed in `inds` -/
theorem foldl_modify_getElem? (x : Int × π) :
    ∀ (inds : List Nat) (bk : List (Fib Int π)), inds.Nodup → ∀ j,
      (inds.foldl (fun b i => b.modify i (· ++ [x])) bk)[j]? =
        (bk[j]?).map (fun b => if j ∈ inds then b ++ [x] else b) := by
  intro inds
  induction inds with
  | nil => intro bk _ j; simp
  | cons i r ih =>
    intro bk hnd j
    have hnd' := List.nodup_cons.1 hnd
    simp only [List.foldl_cons]
    rw [ih _ hnd'.2, List.getElem?_modify]
    cases bk[j]? with
    | none => rfl
    | some a =>
      simp only [Functor.map, Option.map_some, List.mem_cons]
      by_cases hij : i = j
      · subst hij
        simp [hnd'.1]
      · have : ¬ j = i := fun e => hij e.symm
        simp [hij, this]

theorem foldl_modify_length (x : Int × π) :
    ∀ (inds : List Nat) (bk : List (Fib Int π)),
      (inds.foldl (fun b i => b.modify i (· ++ [x])) bk).length = bk.length := by
  intro inds
  induction inds with
  | nil => intro bk; rfl
  | cons i r ih => intro bk; simp only [List.foldl_cons]; rw [ih]; exact List.length_modify _ _ _

theorem foldl_min_mem (r : List Nat) (a : Nat) : r.foldl min a = a ∨ r.foldl min a ∈ r := by
  induction r generalizing a with
  | nil => left; rfl
  | cons b r ih =>
    simp only [List.foldl_cons, List.mem_cons]
    rcases ih (min a b) with h | h
    · rw [h]
      rcases Nat.le_total a b with hab | hab
      · left; exact Nat.min_eq_left hab
      · right; left; exact Nat.min_eq_right hab
    · right; right; exact h

theorem minOf_mem {l : List Nat} {m : Nat} (h : minOf l = some m) : m ∈ l := by
  cases l with
  | nil => simp [minOf] at h
  | cons a r =>
    simp only [minOf, Option.some.injEq] at h
    subst h
    rcases foldl_min_mem r a with h | h
    · rw [h]; exact List.mem_cons_self ..
    · exact List.mem_cons_of_mem _ h

/-- a partition left of a partition containing `c`, and not containing `c` itself, contains no
    later coordinate either -/
theorem dead_of_lt_member (hS : S.Pairwise (· < ·)) {j m : Nat} {c : Int} (hjm : j < m)
    (hm : nuMemb S pre post as ae m c = true) (hj : nuMemb S pre post as ae j c = false) :
    ∀ c', c ≤ c' → nuMemb S pre post as ae j c' = false := by
  intro c' hc'
  obtain ⟨sm, hsm, w1, w2, _, m2, m3⟩ := (nuMemb_iff S pre post as ae m c).1 hm
  have hmlt : m < S.length := by
    rcases Nat.lt_or_ge m S.length with h | h
    · exact h
    · rw [List.getElem?_eq_none h] at hsm; cases hsm
  have hsj : S[j]? = some S[j] := List.getElem?_eq_getElem (by omega)
  have hsj1 : S[j + 1]? = some S[j + 1] := List.getElem?_eq_getElem (by omega)
  have h1 : S[j] < S[j + 1] := sorted_getElem?_lt S hS (Nat.lt_succ_self j) hsj hsj1
  have h2 : S[j + 1] ≤ sm := sorted_getElem?_le S hS (by omega) hsj1 hsm
  cases hres : nuMemb S pre post as ae j c' with
  | false => rfl
  | true =>
    exfalso
    obtain ⟨s', hs', v1, v2, v3, v4, v5⟩ := (nuMemb_iff S pre post as ae j c').1 hres
    rw [hsj] at hs'; cases hs'
    obtain ⟨v3a, v3b⟩ := v3 _ hsj1
    have : nuMemb S pre post as ae j c = true := by
      rw [nuMemb_iff]
      refine ⟨S[j], hsj, w1, w2, ?_, v4, by omega⟩
      intro t ht
      rw [hsj1] at ht; cases ht
      exact ⟨v3a, by omega⟩
    rw [this] at hj; cases hj

theorem filter_snoc_nuMemb (done : Fib Int π) (x : Int × π) (j : Nat) :
    (done ++ [x]).filter (fun e => nuMemb S pre post as ae j e.1) =
      done.filter (fun e => nuMemb S pre post as ae j e.1) ++
        (if nuMemb S pre post as ae j x.1 = true then [x] else []) := by
  rw [List.filter_append]
  congr 1
  by_cases h : nuMemb S pre post as ae j x.1 = true <;> simp [List.filter_cons, h]

theorem nuLoop_spec (hS : S.Pairwise (· < ·)) :
    ∀ (rest done : Fib Int π) (bk : List (Fib Int π)) (ss : Nat),
      Sorted (done ++ rest) → bk.length = S.length →
      (∀ j, j < S.length → bk[j]? = some (done.filter (fun e => nuMemb S pre post as ae j e.1))) →
      (∀ y ∈ rest, ∀ j, j < ss → nuMemb S pre post as ae j y.1 = false) →
      ∃ bk', nuLoop S as ae pre post rest bk ss = some bk' ∧ bk'.length = S.length ∧
        ∀ j, j < S.length →
          bk'[j]? = some ((done ++ rest).filter (fun e => nuMemb S pre post as ae j e.1)) := by
  intro rest
  induction rest with
  | nil =>
    intro done bk ss _ hlen hbk _
    exact ⟨bk, rfl, hlen, by simpa using hbk⟩
  | cons x rest ih =>
    intro done bk ss hsorted hlen hbk hdead
    have hsorted' : Sorted ((done ++ [x]) ++ rest) := by simpa [List.append_assoc] using hsorted
    have hxrest : Sorted (x :: rest) := (List.pairwise_append.1 hsorted).2.1
    have happ : done ++ x :: rest = (done ++ [x]) ++ rest := by simp [List.append_assoc]
    -- an element that belongs to no partition leaves everything as it is
    have skip : (∀ j, nuMemb S pre post as ae j x.1 = false) →
        ∃ bk', nuLoop S as ae pre post rest bk ss = some bk' ∧ bk'.length = S.length ∧
          ∀ j, j < S.length →
            bk'[j]? = some ((done ++ x :: rest).filter (fun e => nuMemb S pre post as ae j e.1)) := by
      intro hno
      rw [happ]
      apply ih (done ++ [x]) bk ss hsorted' hlen _
        (fun y hy => hdead y (List.mem_cons_of_mem _ hy))
      intro j hj
      rw [filter_snoc_nuMemb, hno j]
      simpa using hbk j hj
    unfold nuLoop
    by_cases h1 : x.1 < as - pre
    · simp only [h1, if_true]
      apply skip
      intro j
      cases h : nuMemb S pre post as ae j x.1 with
      | false => rfl
      | true =>
        obtain ⟨_, _, w, _⟩ := (nuMemb_iff S pre post as ae j x.1).1 h
        omega
    · by_cases h2 : ae + post ≤ x.1
      · simp only [h1, if_false, h2, if_true]
        refine ⟨bk, rfl, hlen, ?_⟩
        intro j hj
        rw [List.filter_append]
        have : (x :: rest).filter (fun e => nuMemb S pre post as ae j e.1) = [] := by
          rw [List.filter_eq_nil_iff]
          intro y hy hm
          have hxy : x.1 ≤ y.1 := by
            rcases List.mem_cons.1 hy with rfl | hy
            · exact Int.le_refl _
            · exact Int.le_of_lt (hxrest.head_lt y hy)
          obtain ⟨_, _, _, w, _⟩ := (nuMemb_iff S pre post as ae j y.1).1 hm
          omega
        rw [this, List.append_nil]
        exact hbk j hj
      · simp only [h1, h2, if_false]
        have hwin : inWindow as ae pre post x.1 = true := by
          simp only [inWindow, Bool.and_eq_true, decide_eq_true_eq]; omega
        cases hss : S[ss]? with
        | none =>
          simp only [if_true]
          apply skip
          intro j
          rcases Nat.lt_or_ge j ss with h | h
          · exact hdead x (List.mem_cons_self ..) j h
          · apply nuMemb_false_of_none
            have : S.length ≤ ss := by
              rcases Nat.lt_or_ge ss S.length with h' | h'
              · rw [List.getElem?_eq_getElem h'] at hss; cases hss
              · exact h'
            exact List.getElem?_eq_none (by omega)
        | some s =>
          by_cases h3 : x.1 < s - pre
          · simp only [h3, decide_true, if_true]
            apply skip
            intro j
            rcases Nat.lt_or_ge j ss with h | h
            · exact hdead x (List.mem_cons_self ..) j h
            · cases hm : nuMemb S pre post as ae j x.1 with
              | false => rfl
              | true =>
                obtain ⟨t, ht, _, _, _, _, w⟩ := (nuMemb_iff S pre post as ae j x.1).1 hm
                have := sorted_getElem?_le S hS h hss ht
                omega
          · simp only [h3, decide_false, Bool.false_eq_true, if_false]
            -- the scan collects exactly the partitions containing x
            have hinds : ∀ j, j ∈ nuInner as ae pre post x.1 ss (S.drop ss) ↔
                nuMemb S pre post as ae j x.1 = true := by
              intro j
              rw [nuInner_mem S pre post as ae hS x.1 (S.length - ss) ss rfl j, nuMemb_iff]
              constructor
              · rintro ⟨_, t, ht, hm⟩
                obtain ⟨a, b, c⟩ := (mem1_iff pre post as ae t _ x.1).1 hm
                exact ⟨t, ht, by omega, by omega, a, b, c⟩
              · rintro ⟨t, ht, _, _, a, b, c⟩
                refine ⟨?_, t, ht, (mem1_iff pre post as ae t _ x.1).2 ⟨a, b, c⟩⟩
                rcases Nat.lt_or_ge j ss with h | h
                · have := hdead x (List.mem_cons_self ..) j h
                  have hm : nuMemb S pre post as ae j x.1 = true :=
                    (nuMemb_iff S pre post as ae j x.1).2 ⟨t, ht, by omega, by omega, a, b, c⟩
                  rw [hm] at this; cases this
                · exact h
            have hnd := nuInner_nodup pre post as ae x.1 (S.drop ss) ss
            generalize nuInner as ae pre post x.1 ss (S.drop ss) = inds at hinds hnd
            -- an element that falls in no partition does not move the search (`if inds:`)
            by_cases hne : inds = []
            · subst hne
              simp only [minOf, List.foldl_nil]
              apply skip
              intro j
              cases hh : nuMemb S pre post as ae j x.1 with
              | false => rfl
              | true => have := (hinds j).2 hh; cases this
            obtain ⟨m, hm⟩ := minOf_isSome hne
            simp only [hm]
            have hmmem : nuMemb S pre post as ae m x.1 = true := (hinds m).1 (minOf_mem hm)
            rw [happ]
            apply ih (done ++ [x]) _ m hsorted'
            · rw [foldl_modify_length]; exact hlen
            · intro j hj
              rw [foldl_modify_getElem? x inds bk hnd j, hbk j hj, filter_snoc_nuMemb]
              simp only [Option.map_some]
              congr 1
              by_cases hjm : j ∈ inds
              · simp [hjm, (hinds j).1 hjm]
              · have : ¬ nuMemb S pre post as ae j x.1 = true := fun h => hjm ((hinds j).2 h)
                simp [hjm, this]
            · intro y hy j hj
              rcases Nat.lt_or_ge j ss with h | h
              · exact hdead y (List.mem_cons_of_mem _ hy) j h
              · have hjx : nuMemb S pre post as ae j x.1 = false := by
                  cases hh : nuMemb S pre post as ae j x.1 with
                  | false => rfl
                  | true =>
                    have := minOf_le hm j ((hinds j).2 hh)
                    omega
                exact dead_of_lt_member S pre post as ae hS hj hmmem hjx y.1
                  (Int.le_of_lt (hxrest.head_lt y hy))

end nu
section assemble
variable {π : Type} (S : List Int) (pre post as ae : Int)

theorem eq_map_range_of_getElem? {α : Type} (l : List α) (n : Nat) (G : Nat → α) (hlen : l.length = n)
    (h : ∀ j, j < n → l[j]? = some (G j)) : l = (List.range n).map G := by
  apply List.ext_getElem?
  intro j
  rcases Nat.lt_or_ge j n with hj | hj
  · rw [h j hj, List.getElem?_map, List.getElem?_range hj]; rfl
  · rw [List.getElem?_eq_none (by omega), List.getElem?_eq_none (by simpa using hj)]

theorem zipIdx_map_range {α : Type} (n : Nat) (G : Nat → α) :
    ((List.range n).map G).zipIdx = (List.range n).map (fun i => (G i, i)) := by
  apply List.ext_getElem
  · simp
  · intro i h1 h2
    simp [List.getElem_zipIdx]

/-- the non-uniform splitter computes the specification (ascending boundaries, ascending fiber) -/
theorem splitNonUniformIter_eq (hS : S.Pairwise (· < ·)) (rel : Bool) (elems : Fib Int π)
    (hsorted : Sorted elems) :
    splitNonUniformIter S pre post as ae rel elems = some (nuSpec S pre post as ae rel elems) := by
  obtain ⟨bk', h1, h2, h3⟩ := nuLoop_spec S pre post as ae hS elems [] (List.replicate S.length []) 0
    (by simpa using hsorted) (by simp)
    (fun j hj => by simp [List.getElem?_replicate, hj])
    (fun y _ j hj => by omega)
  simp only [List.nil_append] at h3
  have h4 := eq_map_range_of_getElem? bk' S.length
    (fun j => elems.filter (fun e => nuMemb S pre post as ae j e.1)) h2 h3
  unfold splitNonUniformIter nuSpec
  rw [h1, h4, Option.map_some, zipIdx_map_range, List.filterMap_map]
  rfl

/-- boundaries below the active end: the covering condition holds -/
theorem cover_of_lt_ae (hS : S.Pairwise (· < ·)) (hlt : ∀ s ∈ S, s < ae) (hpre : 0 ≤ pre) (hpost : 0 ≤ post)
    (c : Int) (hw : inWindow as ae pre post c = true)
    (h0 : ∃ s0, S[0]? = some s0 ∧ s0 - pre ≤ c) : ∃ i, nuMemb S pre post as ae i c = true := by
  simp only [inWindow, Bool.and_eq_true, decide_eq_true_eq] at hw
  -- the last boundary whose pre-halo start is ≤ c
  have key : ∀ (n : Nat), n ≤ S.length → (∃ i s, i < n ∧ S[i]? = some s ∧ s - pre ≤ c) →
      ∃ i s, i < n ∧ S[i]? = some s ∧ s - pre ≤ c ∧
        ∀ t, S[i + 1]? = some t → i + 1 < n → c < t - pre := by
    intro n
    induction n with
    | zero => rintro _ ⟨i, s, hi, _⟩; omega
    | succ n ih =>
      intro hn hex
      have hnlt : n < S.length := by omega
      by_cases hlast : S[n] - pre ≤ c
      · refine ⟨n, S[n], Nat.lt_succ_self n, List.getElem?_eq_getElem hnlt, hlast, ?_⟩
        intro t _ h; omega
      · have hex' : ∃ i s, i < n ∧ S[i]? = some s ∧ s - pre ≤ c := by
          obtain ⟨i, s, hi, hs, hc⟩ := hex
          refine ⟨i, s, ?_, hs, hc⟩
          rcases Nat.lt_or_ge i n with h | h
          · exact h
          · have : i = n := by omega
            subst this
            rw [List.getElem?_eq_getElem hnlt] at hs; cases hs
            exact absurd hc hlast
        obtain ⟨i, s, hi, hs, hc, hnext⟩ := ih (by omega) hex'
        refine ⟨i, s, by omega, hs, hc, ?_⟩
        intro t ht hlt'
        rcases Nat.lt_or_ge (i + 1) n with h | h
        · exact hnext t ht h
        · have : i + 1 = n := by omega
          rw [this, List.getElem?_eq_getElem hnlt] at ht; cases ht
          omega
  obtain ⟨s0, hs0, hc0⟩ := h0
  have hpos : 0 < S.length := by
    rcases Nat.lt_or_ge 0 S.length with h | h
    · exact h
    · rw [List.getElem?_eq_none h] at hs0; cases hs0
  obtain ⟨i, s, hi, hs, hc, hnext⟩ := key S.length (Nat.le_refl _) ⟨0, s0, hpos, hs0, hc0⟩
  refine ⟨i, (nuMemb_iff S pre post as ae i c).2 ⟨s, hs, hw.1, hw.2, ?_, ?_, hc⟩⟩
  · intro t ht
    have hlt' : i + 1 < S.length := by
      rcases Nat.lt_or_ge (i + 1) S.length with h | h
      · exact h
      · rw [List.getElem?_eq_none h] at ht; cases ht
    have := hnext t ht hlt'
    constructor <;> omega
  · apply hlt
    have hil : i < S.length := hi
    rw [List.getElem?_eq_getElem hil] at hs; cases hs
    exact List.getElem_mem hil

end assemble

section bounds
variable {π : Type}

/-- every boundary the position-space splits can choose: the active start for the first active
    element, the element's own coordinate for every other -/
def boundsAll (as : Int) (act : Fib Int π) : List Int :=
  act.zipIdx.map (fun ei => if ei.2 = 0 then as else ei.1.1)

theorem filterMap_sublist_map {α β : Type} (g : α → Option β) (h : α → β)
    (hg : ∀ a b, g a = some b → b = h a) : ∀ l : List α, (l.filterMap g).Sublist (l.map h) := by
  intro l
  induction l with
  | nil => exact List.Sublist.slnil
  | cons a r ih =>
    rw [List.filterMap_cons, List.map_cons]
    cases hga : g a with
    | none => exact List.Sublist.cons _ ih
    | some b =>
      simp only
      rw [hg a b hga]
      exact List.Sublist.cons_cons _ ih

theorem equalBounds_sublist (step as : Int) (act : Fib Int π) :
    (equalBounds step as act).Sublist (boundsAll as act) := by
  unfold equalBounds boundsAll
  apply filterMap_sublist_map
  intro a b h
  by_cases h0 : a.2 = 0
  · simp only [h0, if_true, Option.some.injEq] at h ⊢; exact h.symm
  · simp only [h0, if_false] at h ⊢
    split at h
    · exact (Option.some.inj h).symm
    · cases h

theorem unequalLoop_sublist (sizes : List Int) (as : Int) :
    ∀ (l : List ((Int × π) × Nat)) (j base : Nat),
      (unequalLoop sizes as l j base).Sublist (l.map (fun ei => if ei.2 = 0 then as else ei.1.1)) := by
  intro l
  induction l with
  | nil => intro j base; exact List.Sublist.slnil
  | cons a r ih =>
    intro j base
    unfold unequalLoop
    split
    · rename_i h0
      rw [List.map_cons]
      simp only [h0, if_true]
      exact List.Sublist.cons_cons _ (ih _ _)
    · rename_i h0
      split
      · exact List.nil_sublist _
      · split
        · rw [List.map_cons]
          simp only [h0, if_false]
          exact List.Sublist.cons_cons _ (ih _ _)
        · rw [List.map_cons]
          exact List.Sublist.cons _ (ih _ _)

theorem unequalBounds_sublist (sizes : List Int) (as : Int) (act : Fib Int π) :
    (unequalBounds sizes as act).Sublist (boundsAll as act) :=
  unequalLoop_sublist sizes as act.zipIdx 0 0

theorem boundsAll_pairwise (as : Int) (act : Fib Int π) (hs : Sorted act)
    (hge : ∀ e ∈ act, as ≤ e.1) : (boundsAll as act).Pairwise (· < ·) := by
  rw [List.pairwise_iff_getElem]
  intro i j hi hj hij
  have hi' : i < act.length := by simpa [boundsAll] using hi
  have hj' : j < act.length := by simpa [boundsAll] using hj
  have hlt : act[i].1 < act[j].1 := (List.pairwise_iff_getElem.1 hs) i j hi' hj' hij
  have hj0 : ¬ j = 0 := by omega
  simp only [boundsAll, List.getElem_map, List.getElem_zipIdx, Nat.zero_add, hj0, if_false]
  split
  · have := hge act[i] (List.getElem_mem hi'); omega
  · exact hlt

theorem boundsAll_lt (as ae : Int) (act : Fib Int π) (hact : as < ae) (hlt : ∀ e ∈ act, e.1 < ae) :
    ∀ s ∈ boundsAll as act, s < ae := by
  intro s hs
  simp only [boundsAll, List.mem_map] at hs
  obtain ⟨ei, hei, rfl⟩ := hs
  split
  · exact hact
  · have : ei.1 ∈ act := by
      obtain ⟨i, hi, rfl⟩ := List.getElem_of_mem hei
      simp only [List.getElem_zipIdx]
      exact List.getElem_mem _
    exact hlt _ this

theorem mem_takeWhile_imp' {α : Type} (p : α → Bool) : ∀ (l : List α) (a : α), a ∈ l.takeWhile p → p a = true := by
  intro l
  induction l with
  | nil => intro a h; cases h
  | cons x r ih =>
    intro a h
    rw [List.takeWhile_cons] at h
    cases hx : p x with
    | false => rw [hx] at h; cases h
    | true =>
      rw [hx] at h
      rcases List.mem_cons.1 h with rfl | h
      · exact hx
      · exact ih a h

theorem mem_iterActive (as ae : Int) (elems : Fib Int π) (e : Int × π)
    (h : e ∈ iterActive as ae elems) : e ∈ elems ∧ as ≤ e.1 ∧ e.1 < ae := by
  unfold iterActive at h
  rw [List.mem_filter] at h
  have h1 := mem_takeWhile_imp' _ _ _ h.1
  have h2 := (List.takeWhile_sublist _).subset h.1
  simp only [decide_eq_true_eq] at h h1
  exact ⟨h2, h.2, h1⟩

theorem iterActive_sorted (as ae : Int) (elems : Fib Int π) (hs : Sorted elems) :
    Sorted (iterActive as ae elems) := by
  unfold iterActive Sorted
  exact List.Pairwise.sublist ((List.filter_sublist).trans (List.takeWhile_sublist _)) hs

theorem takeWhile_eq_filter_sorted (ae : Int) (l : Fib Int π) (hs : Sorted l) :
    l.takeWhile (fun e => decide (e.1 < ae)) = l.filter (fun e => decide (e.1 < ae)) := by
  induction l with
  | nil => rfl
  | cons x r ih =>
    by_cases h : x.1 < ae
    · simp only [List.takeWhile_cons, List.filter_cons, h, decide_true, if_true]
      rw [ih hs.tail]
    · simp only [List.takeWhile_cons, List.filter_cons, h, decide_false, Bool.false_eq_true, if_false]
      symm
      rw [List.filter_eq_nil_iff]
      intro y hy
      have := hs.head_lt y hy
      simp only [decide_eq_true_eq]; omega

theorem iterActive_eq_filter (as ae : Int) (elems : Fib Int π) (hs : Sorted elems) :
    iterActive as ae elems = elems.filter (fun e => decide (as ≤ e.1) && decide (e.1 < ae)) := by
  unfold iterActive
  rw [takeWhile_eq_filter_sorted ae elems hs, List.filter_filter]

/-- boundaries chosen among `boundsAll` of the active elements: ascending, below the active end -/
theorem bounds_ok (as ae : Int) (elems : Fib Int π) (hs : Sorted elems) (hact : as < ae)
    (B : List Int) (hB : B.Sublist (boundsAll as (iterActive as ae elems))) :
    B.Pairwise (· < ·) ∧ ∀ s ∈ B, s < ae := by
  constructor
  · exact List.Pairwise.sublist hB (boundsAll_pairwise as _ (iterActive_sorted as ae elems hs)
      (fun e he => (mem_iterActive as ae elems e he).2.1))
  · intro s hs'
    exact boundsAll_lt as ae _ hact (fun e he => (mem_iterActive as ae elems e he).2.2) s (hB.subset hs')

end bounds

section last
variable (S : List Int) (pre : Int)

/-- among the boundaries whose pre-halo start is `≤ c` there is a last one -/
theorem last_boundary (c : Int) (h0 : ∃ (i : Nat) (s : Int), S[i]? = some s ∧ s - pre ≤ c) :
    ∃ (i : Nat) (s : Int), S[i]? = some s ∧ s - pre ≤ c ∧ ∀ t, S[i + 1]? = some t → c < t - pre := by
  have key : ∀ (n : Nat), n ≤ S.length → (∃ i s, i < n ∧ S[i]? = some s ∧ s - pre ≤ c) →
      ∃ i s, i < n ∧ S[i]? = some s ∧ s - pre ≤ c ∧
        ∀ t, S[i + 1]? = some t → i + 1 < n → c < t - pre := by
    intro n
    induction n with
    | zero => rintro _ ⟨i, s, hi, _⟩; omega
    | succ n ih =>
      intro hn hex
      have hnlt : n < S.length := by omega
      by_cases hlast : S[n] - pre ≤ c
      · refine ⟨n, S[n], Nat.lt_succ_self n, List.getElem?_eq_getElem hnlt, hlast, ?_⟩
        intro t _ h; omega
      · have hex' : ∃ i s, i < n ∧ S[i]? = some s ∧ s - pre ≤ c := by
          obtain ⟨i, s, hi, hs, hc⟩ := hex
          refine ⟨i, s, ?_, hs, hc⟩
          rcases Nat.lt_or_ge i n with h | h
          · exact h
          · have : i = n := by omega
            subst this
            rw [List.getElem?_eq_getElem hnlt] at hs; cases hs
            exact absurd hc hlast
        obtain ⟨i, s, hi, hs, hc, hnext⟩ := ih (by omega) hex'
        refine ⟨i, s, by omega, hs, hc, ?_⟩
        intro t ht hlt'
        rcases Nat.lt_or_ge (i + 1) n with h | h
        · exact hnext t ht h
        · have : i + 1 = n := by omega
          rw [this, List.getElem?_eq_getElem hnlt] at ht; cases ht
          omega
  obtain ⟨i0, s0, hs0, hc0⟩ := h0
  have hi0 : i0 < S.length := by
    rcases Nat.lt_or_ge i0 S.length with h | h
    · exact h
    · rw [List.getElem?_eq_none h] at hs0; cases hs0
  obtain ⟨i, s, hi, hs, hc, hnext⟩ := key S.length (Nat.le_refl _) ⟨i0, s0, hi0, hs0, hc0⟩
  refine ⟨i, s, hs, hc, ?_⟩
  intro t ht
  apply hnext t ht
  rcases Nat.lt_or_ge (i + 1) S.length with h | h
  · exact h
  · rw [List.getElem?_eq_none h] at ht; cases ht

end last

end Ft
