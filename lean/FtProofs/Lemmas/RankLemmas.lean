/-
  Helper lemmas for C02 (rank bookkeeping mirrors the tree).
-/
import FtProofs.Lemmas.MutLemmas
import FtModel.Ranks
set_option linter.unusedSectionVars false
set_option linter.unusedSimpArgs false
namespace Ft
open StrictTotal
open List

section
variable {κ ν : Type}

/-- the paths registered at rank `i` among a list of registrations -/
def newAt (regs : List (Nat × List κ)) (i : Nat) : List (List κ) :=
  (regs.filter (fun r => r.1 == i)).map (·.2)

theorem newAt_nil (i : Nat) : newAt ([] : List (Nat × List κ)) i = [] := rfl

theorem newAt_append (a b : List (Nat × List κ)) (i : Nat) : newAt (a ++ b) i = newAt a i ++ newAt b i := by
  simp [newAt, List.filter_append]

theorem newAt_map_succ (regs : List (Nat × List κ)) (c : κ) (j : Nat) :
    newAt (regs.map (fun r => (r.1 + 1, c :: r.2))) (j + 1) = (newAt regs j).map (c :: ·) := by
  induction regs with
  | nil => rfl
  | cons r rs ih =>
    simp only [newAt, List.map_cons, List.filter_cons] at ih ⊢
    by_cases h : r.1 = j
    · simp [h]; simpa [newAt] using ih
    · have h' : ¬ (r.1 + 1 = j + 1) := by omega
      simp [h, h']; simpa [newAt] using ih

theorem newAt_map_zero (regs : List (Nat × List κ)) (c : κ) :
    newAt (regs.map (fun r => (r.1 + 1, c :: r.2))) 0 = [] := by
  induction regs with
  | nil => rfl
  | cons r rs ih => simp only [newAt, List.map_cons, List.filter_cons] at ih ⊢; simpa using ih

theorem pathsAt_zero (d : Nat) (t : Tree κ ν (d + 1)) : pathsAt (d + 1) t 0 = [[]] := rfl

theorem pathsAt_succ (d : Nat) (f : Tree κ ν (d + 1)) (i : Nat) :
    pathsAt (d + 1) f (i + 1) =
      (show List (κ × Tree κ ν d) from f).flatMap (fun e => (pathsAt d e.2 i).map (e.1 :: ·)) := rfl

theorem pathsAt_leaf (t : Tree κ ν 0) (i : Nat) : pathsAt 0 t i = [] := rfl

theorem pathsAt_length : ∀ (d : Nat) (t : Tree κ ν d) (i : Nat) (p : List κ), p ∈ pathsAt d t i → p.length = i
  | 0, _, _, _, h => by cases h
  | _ + 1, _, 0, p, h => by
    rw [pathsAt_zero] at h; rw [List.mem_singleton.1 h]; rfl
  | d + 1, f, i + 1, p, h => by
    rw [pathsAt_succ] at h
    obtain ⟨e, _, hp⟩ := List.mem_flatMap.1 h
    obtain ⟨q, hq, rfl⟩ := List.mem_map.1 hp
    simp [pathsAt_length d e.2 i q hq]

theorem pathsAt_defaultTree (dflt : ν) : ∀ (d i : Nat),
    pathsAt d (defaultTree (κ := κ) dflt d) i = if 0 < d ∧ i = 0 then [[]] else []
  | 0, i => by simp [pathsAt_leaf]
  | d + 1, 0 => by simp [pathsAt_zero]
  | d + 1, i + 1 => by
    rw [pathsAt_succ]; simp [defaultTree]

end

section
variable {κ ν : Type} [LT κ] [DecidableRel (α := κ) (· < ·)] [DecidableEq κ] [StrictTotal κ]

/-- replacing the payload under key `c` (stored once) by one whose paths are a permutation of
    the old ones plus `E` adds exactly `c :: E` -/
theorem flatMap_replace_perm {d j : Nat} {s s' : Tree κ ν d} {E : List (List κ)}
    (hp : (pathsAt d s' j).Perm (pathsAt d s j ++ E)) :
    ∀ (l : List (κ × Tree κ ν d)) (c : κ), Sorted l → lookup l c = some s →
      ((l.map (fun e => if e.1 = c then (e.1, s') else e)).flatMap
          (fun e => (pathsAt d e.2 j).map (e.1 :: ·))).Perm
        (l.flatMap (fun e => (pathsAt d e.2 j).map (e.1 :: ·)) ++ E.map (c :: ·))
  | [], _, _, h => by simp [lookup] at h
  | e :: r, c, hs, hl => by
    by_cases hc : e.1 = c
    · -- this is the element; the tail does not contain the key
      have hes : e.2 = s := by
        rw [lookup_cons] at hl; simpa [hc] using hl
      have htail : r.map (fun x => if x.1 = c then (x.1, s') else x) = r := by
        have : ∀ x ∈ r, (if x.1 = c then (x.1, s') else x) = x := by
          intro x hx
          have : x.1 ≠ c := fun h => lt_ne (hs.head_lt x hx) (hc.trans h.symm)
          simp [this]
        calc r.map _ = r.map id := List.map_congr_left this
          _ = r := List.map_id r
      simp only [List.map_cons, hc, if_true, List.flatMap_cons, htail]
      rw [hes]
      have h1 : ((pathsAt d s' j).map (c :: ·)).Perm ((pathsAt d s j).map (c :: ·) ++ E.map (c :: ·)) := by
        have := hp.map (c :: ·)
        simpa [List.map_append] using this
      calc (pathsAt d s' j).map (c :: ·) ++ r.flatMap _
          ~ ((pathsAt d s j).map (c :: ·) ++ E.map (c :: ·)) ++ r.flatMap _ := h1.append_right _
        _ ~ (pathsAt d s j).map (c :: ·) ++ (r.flatMap _ ++ E.map (c :: ·)) := by
            rw [List.append_assoc]; exact List.Perm.append_left _ List.perm_append_comm
        _ = ((pathsAt d s j).map (c :: ·) ++ r.flatMap _) ++ E.map (c :: ·) := by rw [List.append_assoc]
    · have hl' : lookup r c = some s := by rw [lookup_cons_ne hc] at hl; exact hl
      simp only [List.map_cons, hc, if_false, List.flatMap_cons]
      have ih := flatMap_replace_perm hp r c hs.tail hl'
      calc (pathsAt d e.2 j).map (e.1 :: ·) ++ (r.map _).flatMap _
          ~ (pathsAt d e.2 j).map (e.1 :: ·) ++ (r.flatMap _ ++ E.map (c :: ·)) := List.Perm.append_left _ ih
        _ = ((pathsAt d e.2 j).map (e.1 :: ·) ++ r.flatMap _) ++ E.map (c :: ·) := by rw [List.append_assoc]

/-- inserting a new element anywhere adds exactly its paths -/
theorem flatMap_insert_perm {β γ : Type} (h : β → List γ) (l : List β) (n : Nat) (x : β) :
    ((l.take n ++ x :: l.drop n).flatMap h).Perm (l.flatMap h ++ h x) := by
  rw [List.flatMap_append, List.flatMap_cons]
  have e : l.flatMap h = (l.take n).flatMap h ++ (l.drop n).flatMap h := by
    rw [← List.flatMap_append, List.take_append_drop]
  rw [e, List.append_assoc]
  exact List.Perm.append_left _ List.perm_append_comm

/-- **insertion**: after `getPayloadRef(*p)` the fibers found at depth `i` are the old ones plus
    exactly the registered new ones -/
theorem pathsAt_refAt (dflt : ν) : ∀ (d : Nat) (t : Tree κ ν d), WF d t → ∀ (p : List κ) (i : Nat),
    (pathsAt d (refAt dflt d t p) i).Perm (pathsAt d t i ++ newAt (refReg dflt d t p) i)
  | 0, _, _, _, _ => by simp [pathsAt_leaf, refReg, newAt]
  | _ + 1, _, _, [], _ => by simp [refAt, refReg, newAt]
  | d + 1, (f : List (κ × Tree κ ν d)), h, c :: cs, 0 => by
    show ([[]] : List (List κ)).Perm ([[]] ++ newAt (refReg dflt (d + 1) (show Tree κ ν (d + 1) from f) (c :: cs)) 0)
    simp only [refReg]
    cases posLookup f c with
    | some s => simp only; rw [newAt_map_zero]; simp
    | none =>
      simp only
      rw [newAt_append, newAt_map_zero]
      cases d with
      | zero => simp [newAt]
      | succ d' => simp [newAt]
  | d + 1, (f : List (κ × Tree κ ν d)), h, c :: cs, j + 1 => by
    show ((show List (κ × Tree κ ν d) from refAt dflt (d + 1) (show Tree κ ν (d + 1) from f) (c :: cs)).flatMap
        (fun e => (pathsAt d e.2 j).map (e.1 :: ·))).Perm
      (f.flatMap (fun e => (pathsAt d e.2 j).map (e.1 :: ·)) ++
        newAt (refReg dflt (d + 1) (show Tree κ ν (d + 1) from f) (c :: cs)) (j + 1))
    simp only [refAt, refReg]
    rw [posLookup_eq_lookup h.sorted]
    cases hl : lookup (show List (κ × Tree κ ν d) from f) c with
    | some s =>
      simp only
      rw [newAt_map_succ]
      have ih := pathsAt_refAt dflt d s (h.sub _ (lookup_mem hl)) cs j
      have hmap : f.map (fun e => if e.1 = c then (e.1, refAt dflt d e.2 cs) else e) =
          f.map (fun e => if e.1 = c then (e.1, refAt dflt d s cs) else e) := by
        apply List.map_congr_left
        intro e he
        by_cases hc : e.1 = c
        · have := lookup_of_sorted_mem h.sorted he
          rw [hc, hl] at this
          simp only [Option.some.injEq] at this
          simp [hc, this]
        · simp [hc]
      rw [hmap]
      exact flatMap_replace_perm ih f c h.sorted hl
    | none =>
      simp only
      rw [newAt_append, newAt_map_succ]
      have ih := pathsAt_refAt dflt d (defaultTree dflt d) (wf_defaultTree dflt d) cs j
      unfold insertAt
      refine (flatMap_insert_perm _ f (lowerBound f c) (c, refAt dflt d (defaultTree dflt d) cs)).trans ?_
      apply List.Perm.append_left
      -- the new element's paths: those of the default tree (only the empty path, if it is a fiber)
      -- plus the registrations below it
      have h2 := ih.map (c :: ·)
      refine h2.trans ?_
      rw [List.map_append, pathsAt_defaultTree]
      cases d with
      | zero => simp [newAt]
      | succ d' =>
        cases j with
        | zero => simp [newAt]
        | succ j' => simp [newAt]

end
end Ft

namespace Ft
open StrictTotal
open List
section
variable {κ ν : Type}

theorem regAppend_length (R : RankLists κ) (i : Nat) (p : List κ) : (regAppend R i p).length = R.length := by
  simp [regAppend]

theorem regAppend_getD (R : RankLists κ) (i k : Nat) (p : List κ) (hk : k < R.length) :
    (regAppend R i p).getD k [] = if k = i then R.getD k [] ++ [p] else R.getD k [] := by
  unfold regAppend
  simp only [List.getD_eq_getElem?_getD, List.getElem?_mapIdx, List.getElem?_eq_getElem hk, Option.map_some,
    Option.getD_some]

theorem foldl_regAppend_length (regs : List (Nat × List κ)) : ∀ (R : RankLists κ),
    (regs.foldl (fun R r => regAppend R r.1 r.2) R).length = R.length := by
  induction regs with
  | nil => intro R; rfl
  | cons r rs ih => intro R; simp only [List.foldl_cons]; rw [ih, regAppend_length]

theorem foldl_regAppend_getD (regs : List (Nat × List κ)) : ∀ (R : RankLists κ) (k : Nat), k < R.length →
    (regs.foldl (fun R r => regAppend R r.1 r.2) R).getD k [] = R.getD k [] ++ newAt regs k := by
  induction regs with
  | nil => intro R k _; simp [newAt]
  | cons r rs ih =>
    intro R k hk
    simp only [List.foldl_cons]
    rw [ih _ k (by rw [regAppend_length]; exact hk), regAppend_getD R r.1 k r.2 hk]
    by_cases h : k = r.1
    · subst h
      simp [newAt, List.filter_cons]
    · have h' : ¬ (r.1 = k) := fun e => h e.symm
      simp [newAt, List.filter_cons, h, h']

/-- rank `i` lists exactly the fibers found at depth `i` (each once), for every rank -/
def Mirror (d : Nat) (t : Tree κ ν d) (R : RankLists κ) : Prop :=
  R.length = d ∧ ∀ i, i < d → (R.getD i []).Perm (pathsAt d t i)

theorem mirror_regAll (d : Nat) (t : Tree κ ν d) : Mirror d t (regAll d t) := by
  refine ⟨by simp [regAll], ?_⟩
  intro i hi
  simp [regAll, List.getD_eq_getElem?_getD, hi]

end

section
variable {κ ν : Type} [LT κ] [DecidableRel (α := κ) (· < ·)] [DecidableEq κ] [StrictTotal κ]

theorem mirrorB_iff (d : Nat) (t : Tree κ ν d) (R : RankLists κ) : mirrorB d t R = true ↔ Mirror d t R := by
  unfold mirrorB Mirror
  simp only [Bool.and_eq_true, beq_iff_eq, List.all_eq_true, List.mem_range, List.isPerm_iff]

/-- a reference insertion that registers what it creates keeps the bookkeeping a mirror -/
theorem refStepR_mirror (dflt : ν) (d : Nat) (t : Tree κ ν d) (R : RankLists κ) (p : List κ)
    (h : WF d t) (hm : Mirror d t R) : Mirror d (refStepR dflt d t R p).1 (refStepR dflt d t R p).2 := by
  obtain ⟨hlen, hperm⟩ := hm
  refine ⟨by simp only [refStepR]; rw [foldl_regAppend_length, hlen], ?_⟩
  intro i hi
  simp only [refStepR]
  rw [foldl_regAppend_getD _ R i (by rw [hlen]; exact hi)]
  exact ((hperm i hi).append_right _).trans (pathsAt_refAt dflt d t h p i).symm

end
end Ft

namespace Ft
open StrictTotal
open List
section
variable {κ ν : Type} [LT κ] [DecidableRel (α := κ) (· < ·)] [DecidableEq κ] [StrictTotal κ]

theorem properPrefix_nil (p : List κ) : properPrefix [] p = decide (0 < p.length) := by
  simp [properPrefix]

theorem properPrefix_cons_nil (c : κ) (cs : List κ) : properPrefix (c :: cs) [] = false := by
  simp [properPrefix]

theorem properPrefix_cons_cons (c e : κ) (cs p : List κ) :
    properPrefix (c :: cs) (e :: p) = (decide (c = e) && properPrefix cs p) := by
  simp only [properPrefix, List.length_cons, List.isPrefixOf_cons₂, Nat.add_lt_add_iff_right]
  by_cases h : c = e <;> simp [h, Bool.and_comm, Bool.and_left_comm]

/-- the transformer `clear` -/
def clrF : (d : Nat) → Tree κ ν (d + 1) → Tree κ ν (d + 1) × Outcome := fun _ _ => (([] : List _), Outcome.ok)

theorem filter_map_cons_ne {c e : κ} (h : c ≠ e) (cs : List κ) (l : List (List κ)) :
    (l.map (e :: ·)).filter (fun p => !properPrefix (c :: cs) p) = l.map (e :: ·) := by
  rw [List.filter_eq_self]
  intro p hp
  obtain ⟨q, _, rfl⟩ := List.mem_map.1 hp
  rw [properPrefix_cons_cons]; simp [h]

theorem filter_map_cons_eq (c : κ) (cs : List κ) (l : List (List κ)) :
    (l.map (c :: ·)).filter (fun p => !properPrefix (c :: cs) p) =
      (l.filter (fun p => !properPrefix cs p)).map (c :: ·) := by
  rw [List.filter_map]
  congr 1
  apply filter_congr'
  intro p _
  simp [properPrefix_cons_cons]

/-- **clearing** the fiber at `q` removes from every depth exactly the fibers strictly below `q` -/
theorem pathsAt_clear : ∀ (d : Nat) (t : Tree κ ν (d + 1)), WF (d + 1) t → ∀ (q : List κ) (i : Nat),
    pathsAt (d + 1) (atPath clrF d t q).1 i = (pathsAt (d + 1) t i).filter (fun p => !properPrefix q p)
  | d, t, _, [], 0 => by
    simp only [atPath, clrF]
    show ([[]] : List (List κ)) = ([[]] : List (List κ)).filter _
    simp [properPrefix_nil]
  | d, t, _, [], i + 1 => by
    simp only [atPath, clrF]
    show ([] : List (List κ)) = _
    symm
    rw [List.filter_eq_nil_iff]
    intro p hp
    have := pathsAt_length (d + 1) t (i + 1) p hp
    simp [properPrefix_nil, this]
  | 0, t, _, c :: cs, 0 => by
    simp only [atPath]
    show ([[]] : List (List κ)) = ([[]] : List (List κ)).filter _
    simp [properPrefix_cons_nil]
  | 0, t, _, c :: cs, i + 1 => by
    simp only [atPath]
    show (show List (κ × Tree κ ν 0) from t).flatMap _ = ((show List (κ × Tree κ ν 0) from t).flatMap _).filter _
    have : ∀ l : List (κ × Tree κ ν 0), l.flatMap (fun e => (pathsAt 0 e.2 i).map (e.1 :: ·)) = [] := by
      intro l; rw [List.flatMap_eq_nil_iff]; intro e _; rfl
    rw [this]; rfl
  | d + 1, (t : List (κ × Tree κ ν (d + 1))), h, c :: cs, 0 => by
    show ([[]] : List (List κ)) = ([[]] : List (List κ)).filter _
    simp [properPrefix_cons_nil]
  | d + 1, (t : List (κ × Tree κ ν (d + 1))), h, c :: cs, i + 1 => by
    simp only [atPath]
    cases hl : lookup (show List (κ × Tree κ ν (d + 1)) from t) c with
    | none =>
      -- nothing below a path that is not stored
      show t.flatMap (fun e => (pathsAt (d + 1) e.2 i).map (e.1 :: ·)) =
        (t.flatMap (fun e => (pathsAt (d + 1) e.2 i).map (e.1 :: ·))).filter _
      symm
      rw [List.filter_eq_self]
      intro p hp
      obtain ⟨e, he, hp⟩ := List.mem_flatMap.1 hp
      obtain ⟨q', _, rfl⟩ := List.mem_map.1 hp
      have : c ≠ e.1 := fun hce => not_hasKey_of_lookup_none hl e he hce.symm
      rw [properPrefix_cons_cons]; simp [this]
    | some s =>
      have ih := pathsAt_clear d s (h.sub _ (lookup_mem hl)) cs i
      show (t.map (fun e => if e.1 = c then (e.1, (atPath clrF d s cs).1) else e)).flatMap
          (fun e => (pathsAt (d + 1) e.2 i).map (e.1 :: ·)) =
        (t.flatMap (fun e => (pathsAt (d + 1) e.2 i).map (e.1 :: ·))).filter _
      have hs := h.sorted
      have hsub := h.sub
      clear h
      induction t with
      | nil => rfl
      | cons e r iht =>
        simp only [List.map_cons, List.flatMap_cons, List.filter_append]
        by_cases hc : e.1 = c
        · have hes : e.2 = s := by rw [lookup_cons] at hl; simpa [hc] using hl
          have htail : r.map (fun x => if x.1 = c then (x.1, (atPath clrF d s cs).1) else x) = r := by
            have : ∀ x ∈ r, (if x.1 = c then (x.1, (atPath clrF d s cs).1) else x) = x := by
              intro x hx
              have : x.1 ≠ c := fun h' => lt_ne (hs.head_lt x hx) (hc.trans h'.symm)
              simp [this]
            calc r.map _ = r.map id := List.map_congr_left this
              _ = r := List.map_id r
          have hrest : (r.flatMap (fun e => (pathsAt (d + 1) e.2 i).map (e.1 :: ·))).filter
              (fun p => !properPrefix (c :: cs) p) = r.flatMap (fun e => (pathsAt (d + 1) e.2 i).map (e.1 :: ·)) := by
            rw [List.filter_eq_self]
            intro p hp
            obtain ⟨x, hx, hp⟩ := List.mem_flatMap.1 hp
            obtain ⟨q', _, rfl⟩ := List.mem_map.1 hp
            have : c ≠ x.1 := fun h' => lt_ne (hs.head_lt x hx) (hc.trans h')
            rw [properPrefix_cons_cons]; simp [this]
          simp only [hc, if_true, htail, hrest]
          rw [hes, ih, filter_map_cons_eq]
        · have hl' : lookup r c = some s := by rw [lookup_cons_ne hc] at hl; exact hl
          simp only [hc, if_false]
          rw [iht hl' hs.tail (fun x hx => hsub x (List.mem_cons_of_mem _ hx))]
          rw [filter_map_cons_ne (fun h' => hc h'.symm)]

/-- clearing with unregistration keeps the bookkeeping a mirror -/
theorem clearStepR_mirror (d : Nat) (t : Tree κ ν (d + 1)) (R : RankLists κ) (q : List κ)
    (h : WF (d + 1) t) (hm : Mirror (d + 1) t R) :
    Mirror (d + 1) (clearStepR d t R q).1 (clearStepR d t R q).2 := by
  obtain ⟨hlen, hperm⟩ := hm
  refine ⟨by simp [clearStepR, unregBelow, hlen], ?_⟩
  intro i hi
  simp only [clearStepR]
  have e1 : (unregBelow R q).getD i [] = (R.getD i []).filter (fun p => !properPrefix q p) := by
    simp [unregBelow, List.getD_eq_getElem?_getD, List.getElem?_map, List.getElem?_eq_getElem (hlen ▸ hi)]
  rw [e1]
  have := pathsAt_clear d t h q i
  unfold clrF at this
  rw [this]
  exact (hperm i hi).filter _

end
end Ft

namespace Ft
open StrictTotal
open List
section
variable {κ ν : Type} [LT κ] [DecidableRel (α := κ) (· < ·)] [DecidableEq κ] [StrictTotal κ]

theorem filter_properPrefix_map_cons (c : κ) (cs : List κ) (l : List (List κ)) :
    (l.map (c :: ·)).filter (fun p => properPrefix (c :: cs) p) =
      (l.filter (fun p => properPrefix cs p)).map (c :: ·) := by
  rw [List.filter_map]
  congr 1
  apply filter_congr'
  intro p _
  simp [properPrefix_cons_cons]

/-- **lifting**: a transformer applied at the sub-fiber reached by `q` changes, at every depth,
    exactly the paths strictly below `q`: they become `q ++ p'` for the paths `p'` of the new
    sub-fiber. (Depths `≤ |q|` are untouched: take `i ≤ |q|`, then nothing is strictly below.) -/
theorem pathsAt_atPath (F : (d : Nat) → Tree κ ν (d + 1) → Tree κ ν (d + 1) × Outcome) :
    ∀ (d : Nat) (t : Tree κ ν (d + 1)), WF (d + 1) t → ∀ (q : List κ) (i : Nat),
    pathsAt (d + 1) (atPath F d t q).1 i ~
      (pathsAt (d + 1) t i).filter (fun p => !properPrefix q p) ++
      (match locate d t q with
       | some ⟨d', s⟩ => ((pathsAt (d' + 1) (F d' s).1 (i - q.length)).filter (fun _ => decide (q.length < i))).map (q ++ ·)
       | none => [])
  | d, t, _, [], 0 => by
    simp only [atPath, locate, List.length_nil, Nat.lt_irrefl, decide_false]
    have e0 : ∀ l : List (List κ), l.filter (fun _ => false) = [] := fun l => by simp
    rw [e0, List.map_nil, List.append_nil]
    show ([[]] : List (List κ)) ~ ([[]] : List (List κ)).filter _
    simp [properPrefix_nil]
  | d, t, _, [], i + 1 => by
    simp only [atPath, locate, List.length_nil, Nat.sub_zero, Nat.zero_lt_succ, decide_true]
    have e1 : ∀ l : List (List κ), l.filter (fun _ => true) = l := fun l => by simp
    have e2 : ∀ l : List (List κ), l.map (fun x => [] ++ x) = l := fun l => by simp
    rw [e1, e2]
    have : (pathsAt (d + 1) t (i + 1)).filter (fun p => !properPrefix [] p) = [] := by
      rw [List.filter_eq_nil_iff]
      intro p hp
      have := pathsAt_length (d + 1) t (i + 1) p hp
      simp [properPrefix_nil, this]
    rw [this, List.nil_append]
  | 0, t, _, c :: cs, i => by
    simp only [atPath, locate, List.append_nil]
    have : (pathsAt 1 t i).filter (fun p => !properPrefix (c :: cs) p) = pathsAt 1 t i := by
      rw [List.filter_eq_self]
      intro p hp
      cases i with
      | zero =>
        have hp' : p ∈ ([[]] : List (List κ)) := hp
        rw [List.mem_singleton.1 hp']; simp [properPrefix_cons_nil]
      | succ j =>
        have hp' : p ∈ (show List (κ × Tree κ ν 0) from t).flatMap (fun e => (pathsAt 0 e.2 j).map (e.1 :: ·)) := hp
        obtain ⟨e, _, hp''⟩ := List.mem_flatMap.1 hp'
        cases hp''
    rw [this]
  | d + 1, (t : List (κ × Tree κ ν (d + 1))), h, c :: cs, 0 => by
    have e1 : pathsAt (d + 2) (atPath F (d + 1) (show Tree κ ν (d + 2) from t) (c :: cs)).1 0 = [[]] := rfl
    have e2 : pathsAt (d + 2) (show Tree κ ν (d + 2) from t) 0 = [[]] := rfl
    rw [e1, e2]
    have : ∀ (o : Option (Σ d' : Nat, Tree κ ν (d' + 1))),
        (match o with
         | some ⟨d', s⟩ => ((pathsAt (d' + 1) (F d' s).1 (0 - (c :: cs).length)).filter
            (fun _ => decide ((c :: cs).length < 0))).map ((c :: cs) ++ ·)
         | none => []) = [] := by
      intro o; cases o with
      | none => rfl
      | some x => obtain ⟨d', s⟩ := x; simp
    rw [this]
    simp [properPrefix_cons_nil]
  | d + 1, (t : List (κ × Tree κ ν (d + 1))), h, c :: cs, i + 1 => by
    simp only [atPath, locate]
    cases hl : lookup (show List (κ × Tree κ ν (d + 1)) from t) c with
    | none =>
      simp only [List.append_nil]
      have : (pathsAt (d + 2) (show Tree κ ν (d + 2) from t) (i + 1)).filter (fun p => !properPrefix (c :: cs) p) =
          pathsAt (d + 2) (show Tree κ ν (d + 2) from t) (i + 1) := by
        rw [List.filter_eq_self]
        intro p hp
        have hp' : p ∈ t.flatMap (fun e => (pathsAt (d + 1) e.2 i).map (e.1 :: ·)) := hp
        obtain ⟨e, he, hp''⟩ := List.mem_flatMap.1 hp'
        obtain ⟨q', _, rfl⟩ := List.mem_map.1 hp''
        have : c ≠ e.1 := fun hce => not_hasKey_of_lookup_none hl e he hce.symm
        rw [properPrefix_cons_cons]; simp [this]
      rw [this]
    | some s =>
      have ih := pathsAt_atPath F d s (h.sub _ (lookup_mem hl)) cs i
      -- rewrite both sides as flatMaps over the elements of t
      show (t.map (fun e => if e.1 = c then (e.1, (atPath F d s cs).1) else e)).flatMap
          (fun e => (pathsAt (d + 1) e.2 i).map (e.1 :: ·)) ~
        (t.flatMap (fun e => (pathsAt (d + 1) e.2 i).map (e.1 :: ·))).filter (fun p => !properPrefix (c :: cs) p) ++ _
      -- the part contributed below q
      generalize hB : (match locate d s cs with
        | some ⟨d', s'⟩ => ((pathsAt (d' + 1) (F d' s').1 (i + 1 - (c :: cs).length)).filter
            (fun _ => decide ((c :: cs).length < i + 1))).map ((c :: cs) ++ ·)
        | none => []) = B
      have hB' : B = (match locate d s cs with
        | some ⟨d', s'⟩ => ((pathsAt (d' + 1) (F d' s').1 (i - cs.length)).filter
            (fun _ => decide (cs.length < i))).map (cs ++ ·)
        | none => []).map (c :: ·) := by
        rw [← hB]
        cases locate d s cs with
        | none => rfl
        | some x =>
          obtain ⟨d', s'⟩ := x
          simp only [List.length_cons, Nat.add_sub_add_right, Nat.add_lt_add_iff_right, List.map_map]
          rfl
      rw [hB']
      have hs := h.sorted
      have hsub := h.sub
      clear h hB hB'
      induction t with
      | nil => simp [lookup] at hl
      | cons e r iht =>
        simp only [List.map_cons, List.flatMap_cons, List.filter_append]
        by_cases hc : e.1 = c
        · have hes : e.2 = s := by rw [lookup_cons] at hl; simpa [hc] using hl
          have htail : r.map (fun x => if x.1 = c then (x.1, (atPath F d s cs).1) else x) = r := by
            have : ∀ x ∈ r, (if x.1 = c then (x.1, (atPath F d s cs).1) else x) = x := by
              intro x hx
              have : x.1 ≠ c := fun h' => lt_ne (hs.head_lt x hx) (hc.trans h'.symm)
              simp [this]
            calc r.map _ = r.map id := List.map_congr_left this
              _ = r := List.map_id r
          have hrest : (r.flatMap (fun e => (pathsAt (d + 1) e.2 i).map (e.1 :: ·))).filter
              (fun p => !properPrefix (c :: cs) p) = r.flatMap (fun e => (pathsAt (d + 1) e.2 i).map (e.1 :: ·)) := by
            rw [List.filter_eq_self]
            intro p hp
            obtain ⟨x, hx, hp⟩ := List.mem_flatMap.1 hp
            obtain ⟨q', _, rfl⟩ := List.mem_map.1 hp
            have : c ≠ x.1 := fun h' => lt_ne (hs.head_lt x hx) (hc.trans h')
            rw [properPrefix_cons_cons]; simp [this]
          simp only [hc, if_true, htail, hrest]
          rw [hes, filter_map_cons_eq]
          have ih' := ih.map (c :: ·)
          rw [List.map_append] at ih'
          calc (pathsAt (d + 1) (atPath F d s cs).1 i).map (c :: ·) ++ r.flatMap _
              ~ (((pathsAt (d + 1) s i).filter (fun p => !properPrefix cs p)).map (c :: ·) ++ _) ++ r.flatMap _ :=
                  ih'.append_right _
            _ ~ ((pathsAt (d + 1) s i).filter (fun p => !properPrefix cs p)).map (c :: ·) ++ (r.flatMap _ ++ _) := by
                  rw [List.append_assoc]; exact List.Perm.append_left _ List.perm_append_comm
            _ = (((pathsAt (d + 1) s i).filter (fun p => !properPrefix cs p)).map (c :: ·) ++ r.flatMap _) ++ _ := by
                  rw [List.append_assoc]
        · have hl' : lookup r c = some s := by rw [lookup_cons_ne hc] at hl; exact hl
          simp only [hc, if_false]
          rw [filter_map_cons_ne (fun h' => hc h'.symm), List.append_assoc]
          exact List.Perm.append_left _ (iht hl' hs.tail (fun x hx => hsub x (List.mem_cons_of_mem _ hx)))

end
end Ft

namespace Ft
open StrictTotal
open List
section
variable {κ ν : Type} [LT κ] [DecidableRel (α := κ) (· < ·)] [DecidableEq κ] [StrictTotal κ]

/-- **replacement of a sub-fiber** (fiber assignment `f <<= g`, and `clear` as the special case of an
    empty replacement): if the bookkeeping unregisters what was below `q` and registers the fibers of
    the new sub-tree, it stays a mirror — for ANY transformer `F`, as long as the registered sub-tree is
    the one `F` produced there -/
theorem replace_mirror (F : (d : Nat) → Tree κ ν (d + 1) → Tree κ ν (d + 1) × Outcome)
    (d : Nat) (t : Tree κ ν (d + 1)) (R : RankLists κ) (q : List κ) (d' : Nat) (s : Tree κ ν (d' + 1))
    (h : WF (d + 1) t) (hm : Mirror (d + 1) t R) (hloc : locate d t q = some ⟨d', s⟩) :
    Mirror (d + 1) (atPath F d t q).1 (replaceBelowR R q d' (F d' s).1) := by
  obtain ⟨hlen, hperm⟩ := hm
  refine ⟨by simp [replaceBelowR, unregBelow, hlen], ?_⟩
  intro i hi
  have hi' : i < (unregBelow R q).length := by simp [unregBelow, hlen]; exact hi
  have e1 : (replaceBelowR R q d' (F d' s).1).getD i [] =
      (if q.length < i then (R.getD i []).filter (fun p => !properPrefix q p) ++
          (pathsAt (d' + 1) (F d' s).1 (i - q.length)).map (q ++ ·)
       else (R.getD i []).filter (fun p => !properPrefix q p)) := by
    unfold replaceBelowR
    simp only [List.getD_eq_getElem?_getD, List.getElem?_mapIdx, List.getElem?_eq_getElem hi', Option.map_some,
      Option.getD_some]
    have : (unregBelow R q)[i] = (R.getD i []).filter (fun p => !properPrefix q p) := by
      simp [unregBelow, List.getD_eq_getElem?_getD, List.getElem?_eq_getElem (hlen ▸ hi)]
    rw [this]
    by_cases hq : q.length < i <;> simp [hq]
  rw [e1]
  have key := pathsAt_atPath F d t h q i
  rw [hloc] at key
  simp only at key
  refine List.Perm.trans ?_ key.symm
  by_cases hq : q.length < i
  · simp only [hq, if_true, decide_true]
    have e2 : ∀ l : List (List κ), l.filter (fun _ => true) = l := fun l => by simp
    rw [e2]
    exact ((hperm i hi).filter _).append_right _
  · simp only [hq, if_false, decide_false]
    have e3 : ∀ l : List (List κ), l.filter (fun _ => false) = [] := fun l => by simp
    rw [e3, List.map_nil, List.append_nil]
    exact (hperm i hi).filter _

end
end Ft
