/-
  Lexicographic tuple order is a strict total order; taking a prefix is monotone.
-/
import FtProofs.Lemmas.Merge
import FtModel.Tuple
set_option linter.unusedSectionVars false
set_option linter.unusedSimpArgs false
namespace Ft
open StrictTotal

theorem lexLt_irrefl : ∀ a : List Int, lexLt a a = false
  | [] => rfl
  | a :: as => by simp [lexLt, lexLt_irrefl as]

theorem lexLt_trans : ∀ a b c : List Int, lexLt a b = true → lexLt b c = true → lexLt a c = true
  | [], [], _, h, _ => by simp [lexLt] at h
  | [], _ :: _, [], _, h => by simp [lexLt] at h
  | [], _ :: _, _ :: _, _, _ => rfl
  | _ :: _, [], _, h, _ => by simp [lexLt] at h
  | _ :: _, _ :: _, [], _, h => by simp [lexLt] at h
  | a :: as, b :: bs, c :: cs, h1, h2 => by
    simp only [lexLt, Bool.or_eq_true, Bool.and_eq_true, decide_eq_true_eq] at h1 h2 ⊢
    rcases h1 with h1 | ⟨e1, h1⟩
    · rcases h2 with h2 | ⟨e2, _⟩
      · left; omega
      · left; omega
    · rcases h2 with h2 | ⟨e2, h2⟩
      · left; omega
      · right; exact ⟨by omega, lexLt_trans as bs cs h1 h2⟩

theorem lexLt_tri : ∀ a b : List Int, lexLt a b = true ∨ a = b ∨ lexLt b a = true
  | [], [] => Or.inr (Or.inl rfl)
  | [], _ :: _ => Or.inl rfl
  | _ :: _, [] => Or.inr (Or.inr rfl)
  | a :: as, b :: bs => by
    simp only [lexLt, Bool.or_eq_true, Bool.and_eq_true, decide_eq_true_eq, List.cons.injEq]
    rcases Int.lt_trichotomy a b with h | h | h
    · exact Or.inl (Or.inl h)
    · rcases lexLt_tri as bs with h' | h' | h'
      · exact Or.inl (Or.inr ⟨h, h'⟩)
      · exact Or.inr (Or.inl ⟨h, h'⟩)
      · exact Or.inr (Or.inr (Or.inr ⟨h.symm, h'⟩))
    · exact Or.inr (Or.inr (Or.inl h))

instance : StrictTotal TCoord where
  irrefl := fun a h => by
    have : lexLt a.v a.v = true := h
    rw [lexLt_irrefl] at this; cases this
  trans := fun {a b c} h1 h2 => lexLt_trans a.v b.v c.v h1 h2
  tri := fun a b => by
    rcases lexLt_tri a.v b.v with h | h | h
    · exact Or.inl h
    · exact Or.inr (Or.inl (by cases a; cases b; simp_all))
    · exact Or.inr (Or.inr h)

/-- taking the `k`-prefix is monotone for the lexicographic order -/
theorem lexLt_take : ∀ (k : Nat) (a b : List Int), lexLt a b = true →
    lexLt (a.take k) (b.take k) = true ∨ a.take k = b.take k
  | 0, _, _, _ => Or.inr rfl
  | _ + 1, [], [], h => by simp [lexLt] at h
  | _ + 1, [], _ :: _, _ => Or.inl rfl
  | _ + 1, _ :: _, [], h => by simp [lexLt] at h
  | k + 1, a :: as, b :: bs, h => by
    simp only [lexLt, Bool.or_eq_true, Bool.and_eq_true, decide_eq_true_eq] at h
    simp only [List.take_succ_cons, lexLt, Bool.or_eq_true, Bool.and_eq_true, decide_eq_true_eq, List.cons.injEq]
    rcases h with h | ⟨e, h⟩
    · exact Or.inl (Or.inl h)
    · rcases lexLt_take k as bs h with h' | h'
      · exact Or.inl (Or.inr ⟨e, h'⟩)
      · exact Or.inr ⟨e, h'⟩

theorem TCoord.take_mono (k : Nat) {a b : TCoord} (h : a < b) : a.take k < b.take k ∨ a.take k = b.take k := by
  rcases lexLt_take k a.v b.v h with h' | h'
  · exact Or.inl h'
  · exact Or.inr (by simp [TCoord.take, h'])

end Ft
