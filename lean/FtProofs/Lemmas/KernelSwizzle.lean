/-
  C06 helper lemmas, part 6: the model of `Tensor.swizzleRanks` (flatten the swizzled prefix,
  permute the coordinate tuples, sort, regroup) denotes the same tensor with its ranks permuted.
-/
import FtProofs.Lemmas.KernelSplit
set_option linter.unusedSectionVars false
set_option linter.unusedSimpArgs false
set_option linter.unusedVariables false
namespace Ft.C06
open Ft StrictTotal

section
variable {κ : Type} [LT κ] [DecidableRel (α := κ) (· < ·)] [DecidableEq κ] [StrictTotal κ]

/-! ### the lexicographic order on coordinate tuples -/

theorem lexLt_cons (a b : κ) (p q : List κ) :
    lexLt (a :: p) (b :: q) = if a < b then true else if a = b then lexLt p q else false := rfl

theorem lexLt_irrefl : ∀ p : List κ, lexLt p p = false
  | [] => rfl
  | a :: p => by
    rw [lexLt_cons, if_neg (irrefl a), if_pos rfl]
    exact lexLt_irrefl p

theorem lexLt_trans : ∀ {a b c : List κ}, lexLt a b = true → lexLt b c = true → lexLt a c = true
  | [], [], _, h, _ => by simp [lexLt] at h
  | [], _ :: _, [], _, h => by simp [lexLt] at h
  | [], _ :: _, _ :: _, _, _ => rfl
  | _ :: _, [], _, h, _ => by simp [lexLt] at h
  | _ :: _, _ :: _, [], _, h => by simp [lexLt] at h
  | x :: p, y :: q, z :: r, h1, h2 => by
    rw [lexLt_cons] at h1 h2 ⊢
    by_cases hxy : x < y
    · by_cases hyz : y < z
      · rw [if_pos (trans hxy hyz)]
      · rw [if_neg hyz] at h2
        by_cases hyz' : y = z
        · subst hyz'; rw [if_pos hxy]
        · rw [if_neg hyz'] at h2; cases h2
    · rw [if_neg hxy] at h1
      by_cases hxy' : x = y
      · subst hxy'
        rw [if_pos rfl] at h1
        by_cases hyz : x < z
        · rw [if_pos hyz]
        · rw [if_neg hyz] at h2 ⊢
          by_cases hyz' : x = z
          · rw [if_pos hyz'] at h2 ⊢
            exact lexLt_trans h1 h2
          · rw [if_neg hyz'] at h2; cases h2
      · rw [if_neg hxy'] at h1; cases h1

theorem lexLt_total : ∀ (a b : List κ), a ≠ b → lexLt a b = true ∨ lexLt b a = true
  | [], [], h => absurd rfl h
  | [], _ :: _, _ => Or.inl rfl
  | _ :: _, [], _ => Or.inr rfl
  | x :: p, y :: q, h => by
    rw [lexLt_cons, lexLt_cons]
    rcases tri x y with hlt | heq | hgt
    · left; rw [if_pos hlt]
    · subst heq
      rw [if_neg (irrefl x), if_pos rfl, if_neg (irrefl x), if_pos rfl]
      exact lexLt_total p q (fun e => h (by rw [e]))
    · right; rw [if_pos hgt]

/-! ### insertion sort of path lists -/

variable {π : Type}

def LexSorted (l : List (List κ × π)) : Prop := l.Pairwise (fun a b => lexLt a.1 b.1 = true)
def KeysDistinct (l : List (List κ × π)) : Prop := l.Pairwise (fun a b => a.1 ≠ b.1)

theorem insLex_perm (x : List κ × π) : ∀ l : List (List κ × π), (insLex x l).Perm (x :: l)
  | [] => List.Perm.refl _
  | y :: r => by
    unfold insLex
    by_cases h : lexLt y.1 x.1 = true
    · rw [if_pos h]
      exact ((insLex_perm x r).cons y).trans (List.Perm.swap x y r)
    · rw [if_neg h]

theorem sortLex_perm : ∀ l : List (List κ × π), (sortLex l).Perm l
  | [] => List.Perm.refl _
  | x :: r => by
    show (insLex x (sortLex r)).Perm (x :: r)
    exact (insLex_perm x (sortLex r)).trans ((sortLex_perm r).cons x)

theorem insLex_sorted (x : List κ × π) : ∀ l : List (List κ × π), LexSorted l → (∀ y ∈ l, y.1 ≠ x.1) →
    LexSorted (insLex x l)
  | [], _, _ => List.pairwise_singleton _ _
  | y :: r, hs, hne => by
    unfold insLex
    have hs' := List.pairwise_cons.1 hs
    by_cases h : lexLt y.1 x.1 = true
    · rw [if_pos h]
      apply List.pairwise_cons.2 ⟨?_, insLex_sorted x r hs'.2 (fun z hz => hne z (List.mem_cons_of_mem _ hz))⟩
      intro z hz
      rcases List.mem_cons.1 ((insLex_perm x r).mem_iff.1 hz) with rfl | hz
      · exact h
      · exact hs'.1 z hz
    · rw [if_neg h]
      have hxy : lexLt x.1 y.1 = true := by
        rcases lexLt_total x.1 y.1 (fun e => hne y (List.mem_cons_self ..) e.symm) with h' | h'
        · exact h'
        · exact absurd h' h
      apply List.pairwise_cons.2 ⟨?_, hs⟩
      intro z hz
      rcases List.mem_cons.1 hz with rfl | hz
      · exact hxy
      · exact lexLt_trans hxy (hs'.1 z hz)

theorem sortLex_sorted : ∀ l : List (List κ × π), KeysDistinct l → LexSorted (sortLex l)
  | [], _ => List.Pairwise.nil
  | x :: r, hd => by
    have hd' := List.pairwise_cons.1 hd
    show LexSorted (insLex x (sortLex r))
    apply insLex_sorted x _ (sortLex_sorted r hd'.2)
    intro y hy
    exact fun e => hd'.1 y ((sortLex_perm r).mem_iff.1 hy) e.symm

theorem lexSorted_distinct {l : List (List κ × π)} (h : LexSorted l) : KeysDistinct l := by
  unfold LexSorted at h
  exact h.imp (fun {a b} hab e => by rw [e, lexLt_irrefl] at hab; cases hab)

/-- in a list with distinct keys a key determines its payload -/
theorem distinct_functional {l : List (List κ × π)} (h : KeysDistinct l) {p : List κ} {x y : π}
    (hx : (p, x) ∈ l) (hy : (p, y) ∈ l) : x = y := by
  induction l with
  | nil => cases hx
  | cons a r ih =>
    have h' := List.pairwise_cons.1 h
    rcases List.mem_cons.1 hx with hxa | hxr
    · rcases List.mem_cons.1 hy with hya | hyr
      · exact (Prod.mk.inj (hxa.trans hya.symm)).2
      · subst hxa; exact (h'.1 (p, y) hyr rfl).elim
    · rcases List.mem_cons.1 hy with hya | hyr
      · subst hya; exact (h'.1 (p, x) hxr rfl).elim
      · exact ih h'.2 hxr hyr

end

/-! ### the coordinate permutation -/
section
variable {κ : Type}

theorem permute_length : ∀ (guide : List Nat) (p : List κ), (∀ g ∈ guide, g < p.length) →
    (permute guide p).length = guide.length
  | [], _, _ => rfl
  | g :: gs, p, h => by
    have hg : g < p.length := h g (List.mem_cons_self ..)
    unfold permute
    rw [List.filterMap_cons, List.getElem?_eq_getElem hg]
    simp only [List.length_cons]
    have := permute_length gs p (fun x hx => h x (List.mem_cons_of_mem _ hx))
    unfold permute at this
    rw [this]

theorem permute_getElem_eq : ∀ (guide : List Nat) (p p' : List κ),
    (∀ g ∈ guide, g < p.length) → (∀ g ∈ guide, g < p'.length) →
    permute guide p = permute guide p' → ∀ g ∈ guide, p[g]? = p'[g]?
  | [], _, _, _, _, _, g, hg => by cases hg
  | g :: gs, p, p', h, h', he, x, hx => by
    have hg : g < p.length := h g (List.mem_cons_self ..)
    have hg' : g < p'.length := h' g (List.mem_cons_self ..)
    unfold permute at he
    rw [List.filterMap_cons, List.filterMap_cons, List.getElem?_eq_getElem hg, List.getElem?_eq_getElem hg'] at he
    simp only [List.cons.injEq] at he
    rcases List.mem_cons.1 hx with rfl | hx
    · rw [List.getElem?_eq_getElem hg, List.getElem?_eq_getElem hg', he.1]
    · exact permute_getElem_eq gs p p' (fun y hy => h y (List.mem_cons_of_mem _ hy))
        (fun y hy => h' y (List.mem_cons_of_mem _ hy)) he.2 x hx

/-- a permutation of the positions is injective on tuples of that length -/
theorem permute_inj (s : Nat) (guide : List Nat) (hg : guide.Perm (List.range s)) (p p' : List κ)
    (hp : p.length = s) (hp' : p'.length = s) (he : permute guide p = permute guide p') : p = p' := by
  have hr : ∀ g ∈ guide, g < s := fun g hgm => List.mem_range.1 (hg.mem_iff.1 hgm)
  have := permute_getElem_eq guide p p' (fun g h => hp ▸ hr g h) (fun g h => hp' ▸ hr g h) he
  apply List.ext_getElem?
  intro i
  by_cases hi : i < s
  · exact this i (hg.mem_iff.2 (List.mem_range.2 hi))
  · rw [List.getElem?_eq_none (by omega), List.getElem?_eq_none (by omega)]

theorem permute_map {β : Type} (guide : List Nat) (l : List κ) (f : κ → β) :
    permute guide (l.map f) = (permute guide l).map f := by
  unfold permute
  rw [List.map_filterMap]
  congr 1
  funext g
  rw [List.getElem?_map]

theorem mem_permute {guide : List Nat} {p : List κ} {c : κ} (h : c ∈ permute guide p) : c ∈ p := by
  unfold permute at h
  obtain ⟨g, _, hg⟩ := List.mem_filterMap.1 h
  exact List.mem_of_getElem? hg

end

section
variable {κ : Type} [LT κ] [DecidableRel (α := κ) (· < ·)] [DecidableEq κ] [StrictTotal κ]

/-! ### flattening -/
section flatten
variable {ν : Type} (dflt : ν) (r : Nat)

theorem mem_flattenN_succ (s : Nat) (t : Tree κ ν (r + (s + 1))) (pv : List κ × Tree κ ν r) :
    pv ∈ flattenN r (s + 1) t ↔
      ∃ e ∈ (show List (κ × Tree κ ν (r + s)) from t), ∃ pv' ∈ flattenN r s e.2, pv = (e.1 :: pv'.1, pv'.2) := by
  show pv ∈ List.flatMap _ _ ↔ _
  rw [List.mem_flatMap]
  constructor
  · rintro ⟨e, he, h⟩
    obtain ⟨pv', hpv', rfl⟩ := List.mem_map.1 h
    exact ⟨e, he, pv', hpv', rfl⟩
  · rintro ⟨e, he, pv', hpv', rfl⟩
    exact ⟨e, he, List.mem_map.2 ⟨pv', hpv', rfl⟩⟩

theorem flatten_len : ∀ (s : Nat) (t : Tree κ ν (r + s)) (pv : List κ × Tree κ ν r),
    pv ∈ flattenN r s t → pv.1.length = s
  | 0, t, pv, h => by
    have : pv = ([], t) := by simpa [flattenN] using h
    rw [this]; rfl
  | s + 1, t, pv, h => by
    obtain ⟨e, _, pv', hpv', rfl⟩ := (mem_flattenN_succ r s t pv).1 h
    simp [flatten_len s e.2 pv' hpv']

theorem flatten_wf : ∀ (s : Nat) (t : Tree κ ν (r + s)), Ft.WF (r + s) t →
    ∀ pv ∈ flattenN r s t, Ft.WF r pv.2
  | 0, t, hw, pv, h => by
    have : pv = ([], t) := by simpa [flattenN] using h
    rw [this]; exact hw
  | s + 1, t, hw, pv, h => by
    obtain ⟨e, he, pv', hpv', rfl⟩ := (mem_flattenN_succ r s t pv).1 h
    exact flatten_wf s e.2 (hw.sub e he) pv' hpv'

theorem flatten_val_mem : ∀ (s : Nat) (t : Tree κ ν (r + s)), Ft.WF (r + s) t →
    ∀ pv ∈ flattenN r s t, ∀ q, val dflt (r + s) t (pv.1 ++ q) = val dflt r pv.2 q
  | 0, t, _, pv, h, q => by
    have : pv = ([], t) := by simpa [flattenN] using h
    rw [this]; rfl
  | s + 1, t, hw, pv, h, q => by
    obtain ⟨e, he, pv', hpv', rfl⟩ := (mem_flattenN_succ r s t pv).1 h
    have hl := lookup_of_sorted_mem hw.sorted he
    show val dflt (r + s + 1) t (e.1 :: (pv'.1 ++ q)) = _
    rw [val_cons_some dflt (r + s) t e.1 _ e.2 hl]
    exact flatten_val_mem s e.2 (hw.sub e he) pv' hpv' q

theorem flatten_val_none : ∀ (s : Nat) (t : Tree κ ν (r + s)), Ft.WF (r + s) t →
    ∀ p : List κ, p.length = s → (∀ x, (p, x) ∉ flattenN r s t) → ∀ q, val dflt (r + s) t (p ++ q) = dflt
  | 0, t, _, p, hp, hn, q => by
    have : p = [] := List.length_eq_zero_iff.1 hp
    subst this
    exact absurd (by simp [flattenN]) (hn t)
  | s + 1, t, hw, p, hp, hn, q => by
    cases p with
    | nil => cases hp
    | cons c p' =>
      have hp' : p'.length = s := by simpa using hp
      show val dflt (r + s + 1) t (c :: (p' ++ q)) = dflt
      cases hl : lookup (show List (κ × Tree κ ν (r + s)) from t) c with
      | none => exact val_cons_none dflt (r + s) t c _ hl
      | some sub =>
        rw [val_cons_some dflt (r + s) t c _ sub hl]
        have hm := lookup_mem hl
        apply flatten_val_none s sub (hw.sub _ hm) p' hp'
        intro x hx
        exact hn x ((mem_flattenN_succ r s t _).2 ⟨(c, sub), hm, (p', x), hx, rfl⟩)

theorem flatten_distinct : ∀ (s : Nat) (t : Tree κ ν (r + s)), Ft.WF (r + s) t →
    KeysDistinct (flattenN r s t)
  | 0, t, _ => List.pairwise_singleton _ _
  | s + 1, t, hw => by
    show List.Pairwise _ (List.flatMap _ _)
    rw [List.pairwise_flatMap]
    constructor
    · intro e he
      rw [List.pairwise_map]
      exact (flatten_distinct s e.2 (hw.sub e he)).imp (fun {a b} hab e' => hab (List.cons.inj e').2)
    · have hs : Sorted (show List (κ × Tree κ ν (r + s)) from t) := hw.sorted
      exact hs.imp (fun {a b} hab x hx y hy => by
        obtain ⟨x', _, rfl⟩ := List.mem_map.1 hx
        obtain ⟨y', _, rfl⟩ := List.mem_map.1 hy
        exact fun e' => lt_ne hab (List.cons.inj e').1)

end flatten

/-! ### regrouping a sorted path list by the first coordinate -/
section group
variable {π : Type}

theorem groupHead_cons_nil (c : κ) (p : List κ) (x : π) (rest : List (List κ × π))
    (h : groupHead rest = []) : groupHead ((c :: p, x) :: rest) = [(c, [(p, x)])] := by
  simp [groupHead, h]

theorem groupHead_cons_eq (c : κ) (p : List κ) (x : π) (rest : List (List κ × π)) (g gs)
    (h : groupHead rest = (c, g) :: gs) : groupHead ((c :: p, x) :: rest) = (c, (p, x) :: g) :: gs := by
  simp [groupHead, h]

theorem groupHead_cons_ne (c c' : κ) (p : List κ) (x : π) (rest : List (List κ × π)) (g gs)
    (h : groupHead rest = (c', g) :: gs) (hne : c ≠ c') :
    groupHead ((c :: p, x) :: rest) = (c, [(p, x)]) :: (c', g) :: gs := by
  simp [groupHead, h, hne]

/-- what the regrouping of a lexicographically sorted list of non-empty paths yields -/
structure GroupOK (L : List (List κ × π)) (G : List (κ × List (List κ × π))) : Prop where
  sorted : Sorted G
  inner : ∀ g ∈ G, LexSorted g.2
  nonempty : ∀ g ∈ G, g.2 ≠ []
  mem : ∀ c p x, (c :: p, x) ∈ L ↔ ∃ g, (c, g) ∈ G ∧ (p, x) ∈ g
  head : ∀ c g gs, G = (c, g) :: gs → ∃ p x rest, L = (c :: p, x) :: rest

theorem groupHead_ok : ∀ (L : List (List κ × π)), LexSorted L → (∀ pv ∈ L, pv.1 ≠ []) →
    GroupOK L (groupHead L)
  | [], _, _ => by
    refine ⟨sorted_nil, ?_, ?_, ?_, ?_⟩
    · intro g hg; cases hg
    · intro g hg; cases hg
    · intro c p x
      constructor
      · intro h; cases h
      · rintro ⟨g, hg, _⟩; cases hg
    · intro c g gs h; cases h
  | (pk, x) :: rest, hs, hne => by
    have hs' := List.pairwise_cons.1 hs
    have ih := groupHead_ok rest hs'.2 (fun pv hpv => hne pv (List.mem_cons_of_mem _ hpv))
    cases pk with
    | nil => exact absurd rfl (hne _ (List.mem_cons_self ..))
    | cons c p =>
      cases hG : groupHead rest with
      | nil =>
        rw [groupHead_cons_nil c p x rest hG]
        rw [hG] at ih
        refine ⟨List.pairwise_singleton _ _, ?_, ?_, ?_, ?_⟩
        · intro g hg
          rw [List.mem_singleton.1 hg]
          exact List.pairwise_singleton _ _
        · intro g hg
          rw [List.mem_singleton.1 hg]
          exact List.cons_ne_nil _ _
        · intro c0 p0 x0
          constructor
          · intro h
            rcases List.mem_cons.1 h with e | h
            · have e1 := (Prod.mk.inj e).1
              have e2 := (Prod.mk.inj e).2
              obtain ⟨ec, ep⟩ := List.cons.inj e1
              subst ec; subst ep; subst e2
              exact ⟨[(p0, x0)], List.mem_singleton.2 rfl, List.mem_singleton.2 rfl⟩
            · obtain ⟨g, hg, _⟩ := (ih.mem c0 p0 x0).1 h
              cases hg
          · rintro ⟨g, hg, hpx⟩
            have := List.mem_singleton.1 hg
            obtain ⟨e1, e2⟩ := Prod.mk.inj this
            subst e1; subst e2
            obtain ⟨e3, e4⟩ := Prod.mk.inj (List.mem_singleton.1 hpx)
            subst e3; subst e4
            exact List.mem_cons_self ..
        · intro c0 g gs h
          have := (List.cons.inj h).1
          obtain ⟨e1, _⟩ := Prod.mk.inj this
          subst e1
          exact ⟨p, x, rest, rfl⟩
      | cons g0 gs =>
        obtain ⟨c', g⟩ := g0
        rw [hG] at ih
        obtain ⟨p1, x1, rest', hrest⟩ := ih.head c' g gs rfl
        have hlt : lexLt (c :: p) (c' :: p1) = true :=
          hs'.1 (c' :: p1, x1) (by rw [hrest]; exact List.mem_cons_self ..)
        -- every element of the first group continues a path of `rest` that starts with c'
        have hin_g : ∀ p2 y, (p2, y) ∈ g → (c' :: p2, y) ∈ rest := fun p2 y h =>
          (ih.mem c' p2 y).2 ⟨g, List.mem_cons_self .., h⟩
        by_cases hcc : c = c'
        · subst hcc
          rw [groupHead_cons_eq c p x rest g gs hG]
          refine ⟨?_, ?_, ?_, ?_, ?_⟩
          · exact sorted_cons.2 ⟨ih.sorted.head_lt, ih.sorted.tail⟩
          · intro g' hg'
            rcases List.mem_cons.1 hg' with rfl | hg'
            · apply List.pairwise_cons.2 ⟨?_, ih.inner _ (List.mem_cons_self ..)⟩
              intro z hz
              have := hs'.1 (c :: z.1, z.2) (hin_g z.1 z.2 hz)
              rw [lexLt_cons, if_neg (irrefl c), if_pos rfl] at this
              exact this
            · exact ih.inner g' (List.mem_cons_of_mem _ hg')
          · intro g' hg'
            rcases List.mem_cons.1 hg' with rfl | hg'
            · exact List.cons_ne_nil _ _
            · exact ih.nonempty g' (List.mem_cons_of_mem _ hg')
          · intro c0 p0 x0
            constructor
            · intro h
              rcases List.mem_cons.1 h with e | h
              · have e1 := (Prod.mk.inj e).1
                have e2 := (Prod.mk.inj e).2
                obtain ⟨ec, ep⟩ := List.cons.inj e1
                subst ec; subst ep; subst e2
                exact ⟨_, List.mem_cons_self .., List.mem_cons_self ..⟩
              · obtain ⟨g', hg', hpx⟩ := (ih.mem c0 p0 x0).1 h
                rcases List.mem_cons.1 hg' with e | hg'
                · obtain ⟨e1, e2⟩ := Prod.mk.inj e
                  subst e1; subst e2
                  exact ⟨_, List.mem_cons_self .., List.mem_cons_of_mem _ hpx⟩
                · exact ⟨g', List.mem_cons_of_mem _ hg', hpx⟩
            · rintro ⟨g', hg', hpx⟩
              rcases List.mem_cons.1 hg' with e | hg'
              · obtain ⟨e1, e2⟩ := Prod.mk.inj e
                subst e1; subst e2
                rcases List.mem_cons.1 hpx with e | hpx
                · obtain ⟨e3, e4⟩ := Prod.mk.inj e
                  subst e3; subst e4
                  exact List.mem_cons_self ..
                · exact List.mem_cons_of_mem _ (hin_g p0 x0 hpx)
              · exact List.mem_cons_of_mem _ ((ih.mem c0 p0 x0).2 ⟨g', List.mem_cons_of_mem _ hg', hpx⟩)
          · intro c0 g1 gs1 h
            have := (List.cons.inj h).1
            obtain ⟨e1, _⟩ := Prod.mk.inj this
            subst e1
            exact ⟨p, x, rest, rfl⟩
        · have hclt : c < c' := by
            rw [lexLt_cons] at hlt
            by_cases h : c < c'
            · exact h
            · rw [if_neg h, if_neg hcc] at hlt; cases hlt
          rw [groupHead_cons_ne c c' p x rest g gs hG hcc]
          refine ⟨?_, ?_, ?_, ?_, ?_⟩
          · apply sorted_cons.2 ⟨?_, ih.sorted⟩
            intro z hz
            rcases List.mem_cons.1 hz with rfl | hz
            · exact hclt
            · exact trans hclt (ih.sorted.head_lt z hz)
          · intro g' hg'
            rcases List.mem_cons.1 hg' with rfl | hg'
            · exact List.pairwise_singleton _ _
            · exact ih.inner g' hg'
          · intro g' hg'
            rcases List.mem_cons.1 hg' with rfl | hg'
            · exact List.cons_ne_nil _ _
            · exact ih.nonempty g' hg'
          · intro c0 p0 x0
            constructor
            · intro h
              rcases List.mem_cons.1 h with e | h
              · have e1 := (Prod.mk.inj e).1
                have e2 := (Prod.mk.inj e).2
                obtain ⟨ec, ep⟩ := List.cons.inj e1
                subst ec; subst ep; subst e2
                exact ⟨_, List.mem_cons_self .., List.mem_singleton.2 rfl⟩
              · obtain ⟨g', hg', hpx⟩ := (ih.mem c0 p0 x0).1 h
                exact ⟨g', List.mem_cons_of_mem _ hg', hpx⟩
            · rintro ⟨g', hg', hpx⟩
              rcases List.mem_cons.1 hg' with e | hg'
              · obtain ⟨e1, e2⟩ := Prod.mk.inj e
                subst e1; subst e2
                obtain ⟨e3, e4⟩ := Prod.mk.inj (List.mem_singleton.1 hpx)
                subst e3; subst e4
                exact List.mem_cons_self ..
              · exact List.mem_cons_of_mem _ ((ih.mem c0 p0 x0).2 ⟨g', hg', hpx⟩)
          · intro c0 g1 gs1 h
            have := (List.cons.inj h).1
            obtain ⟨e1, _⟩ := Prod.mk.inj this
            subst e1
            exact ⟨p, x, rest, rfl⟩

end group

/-! ### rebuilding the tree -/
section rebuild
variable {ν : Type} (dflt : ν) (r : Nat)

theorem rebuild_spec : ∀ (s : Nat) (L : List (List κ × Tree κ ν r)), LexSorted L →
    (∀ pv ∈ L, pv.1.length = s) → (∀ pv ∈ L, Ft.WF r pv.2) →
    Ft.WF (r + s) (rebuild dflt r s L) ∧
    (∀ pv ∈ L, ∀ q, val dflt (r + s) (rebuild dflt r s L) (pv.1 ++ q) = val dflt r pv.2 q) ∧
    (∀ p : List κ, p.length = s → (∀ x, (p, x) ∉ L) → ∀ q,
      val dflt (r + s) (rebuild dflt r s L) (p ++ q) = dflt)
  | 0, L, hs, hlen, hwf => by
    cases L with
    | nil =>
      refine ⟨wf_defaultTree dflt r, ?_, ?_⟩
      · intro pv h; cases h
      · intro p _ _ q
        exact val_defaultTree dflt r _
    | cons a rest =>
      have ha : a.1 = [] := List.length_eq_zero_iff.1 (hlen a (List.mem_cons_self ..))
      have hrest : rest = [] := by
        cases rest with
        | nil => rfl
        | cons b _ =>
          have hb : b.1 = [] := List.length_eq_zero_iff.1 (hlen b (List.mem_cons_of_mem _ (List.mem_cons_self ..)))
          have := (List.pairwise_cons.1 hs).1 b (List.mem_cons_self ..)
          rw [ha, hb] at this; cases this
      subst hrest
      have hrb : rebuild dflt r 0 [a] = a.2 := rfl
      rw [hrb]
      refine ⟨hwf a (List.mem_cons_self ..), ?_, ?_⟩
      · intro pv hpv q
        rw [List.mem_singleton.1 hpv, ha]; rfl
      · intro p hp hn q
        have : p = [] := List.length_eq_zero_iff.1 hp
        subst this
        exact absurd (List.mem_singleton.2 (by rw [← ha])) (hn a.2)
  | s + 1, L, hs, hlen, hwf => by
    have hne : ∀ pv ∈ L, pv.1 ≠ [] := by
      intro pv hpv e
      have := hlen pv hpv
      rw [e] at this; cases this
    have hG := groupHead_ok L hs hne
    -- facts about each group
    have hgl : ∀ c g, (c, g) ∈ groupHead L → ∀ pv ∈ g, pv.1.length = s := by
      intro c g hg pv hpv
      have := hlen (c :: pv.1, pv.2) ((hG.mem c pv.1 pv.2).2 ⟨g, hg, hpv⟩)
      simpa using this
    have hgw : ∀ c g, (c, g) ∈ groupHead L → ∀ pv ∈ g, Ft.WF r pv.2 := by
      intro c g hg pv hpv
      exact hwf (c :: pv.1, pv.2) ((hG.mem c pv.1 pv.2).2 ⟨g, hg, hpv⟩)
    have ihg : ∀ c g, (c, g) ∈ groupHead L → _ := fun c g hg =>
      rebuild_spec s g (hG.inner (c, g) hg) (hgl c g hg) (hgw c g hg)
    have hrb : (show List (κ × Tree κ ν (r + s)) from rebuild dflt r (s + 1) L) =
        (groupHead L).map (fun g => (g.1, rebuild dflt r s g.2)) := rfl
    have hsorted : Sorted ((groupHead L).map (fun g => (g.1, rebuild dflt r s g.2))) :=
      sorted_map_key (groupHead L) (fun g => rebuild dflt r s g.2) hG.sorted
    have hlk : ∀ c, lookup ((groupHead L).map (fun g => (g.1, rebuild dflt r s g.2))) c =
        (lookup (groupHead L) c).map (rebuild dflt r s) :=
      fun c => lookup_map_pay (groupHead L) (fun _ g => rebuild dflt r s g) c
    refine ⟨⟨by rw [hrb]; exact hsorted, ?_⟩, ?_, ?_⟩
    · intro e he
      rw [hrb] at he
      obtain ⟨g, hg, rfl⟩ := List.mem_map.1 he
      exact (ihg g.1 g.2 hg).1
    · intro pv hpv q
      obtain ⟨pk, x⟩ := pv
      cases pk with
      | nil => exact absurd rfl (hne _ hpv)
      | cons c p =>
        obtain ⟨g, hg, hpx⟩ := (hG.mem c p x).1 hpv
        have hl : lookup (show List (κ × Tree κ ν (r + s)) from rebuild dflt r (s + 1) L) c =
            some (rebuild dflt r s g) := by
          rw [hrb, hlk, lookup_of_sorted_mem hG.sorted hg]; rfl
        show val dflt (r + s + 1) (rebuild dflt r (s + 1) L) (c :: (p ++ q)) = _
        rw [val_cons_some dflt (r + s) _ c _ _ hl]
        exact (ihg c g hg).2.1 (p, x) hpx q
    · intro p hp hn q
      cases p with
      | nil => cases hp
      | cons c p' =>
        have hp' : p'.length = s := by simpa using hp
        show val dflt (r + s + 1) (rebuild dflt r (s + 1) L) (c :: (p' ++ q)) = dflt
        cases hlg : lookup (groupHead L) c with
        | none =>
          apply val_cons_none dflt (r + s) _ c _
          rw [hrb, hlk, hlg]; rfl
        | some g =>
          have hg := lookup_mem hlg
          have hl : lookup (show List (κ × Tree κ ν (r + s)) from rebuild dflt r (s + 1) L) c =
              some (rebuild dflt r s g) := by
            rw [hrb, hlk, hlg]; rfl
          rw [val_cons_some dflt (r + s) _ c _ _ hl]
          apply (ihg c g hg).2.2 p' hp'
          intro x hx
          exact hn x ((hG.mem c p' x).2 ⟨g, hg, hx⟩)

end rebuild

/-! ### coordinates stay inside the universe -/
section inU
variable (U : List κ) (r : Nat)

theorem flatten_in : ∀ (s : Nat) (t : Tree κ Int (r + s)), coordsInB U (r + s) t = true →
    ∀ pv ∈ flattenN r s t, (∀ c ∈ pv.1, c ∈ U) ∧ coordsInB U r pv.2 = true
  | 0, t, hin, pv, h => by
    have : pv = ([], t) := by simpa [flattenN] using h
    rw [this]
    exact ⟨fun c hc => (by cases hc), hin⟩
  | s + 1, t, hin, pv, h => by
    obtain ⟨e, he, pv', hpv', rfl⟩ := (mem_flattenN_succ r s t pv).1 h
    obtain ⟨h1, h2⟩ := coordsIn_sub hin he
    obtain ⟨h3, h4⟩ := flatten_in s e.2 h2 pv' hpv'
    refine ⟨?_, h4⟩
    intro c hc
    rcases List.mem_cons.1 hc with rfl | hc
    · exact h1
    · exact h3 c hc

theorem rebuild_in : ∀ (s : Nat) (L : List (List κ × Tree κ Int r)), LexSorted L →
    (∀ pv ∈ L, pv.1.length = s) → (∀ pv ∈ L, (∀ c ∈ pv.1, c ∈ U) ∧ coordsInB U r pv.2 = true) →
    coordsInB U (r + s) (rebuild (0 : Int) r s L) = true
  | 0, L, _, _, hin => by
    cases L with
    | nil => exact coordsIn_default U r
    | cons a rest => exact (hin a (List.mem_cons_self ..)).2
  | s + 1, L, hs, hlen, hin => by
    have hne : ∀ pv ∈ L, pv.1 ≠ [] := by
      intro pv hpv e
      have := hlen pv hpv
      rw [e] at this; cases this
    have hG := groupHead_ok L hs hne
    show (show List (κ × Tree κ Int (r + s)) from rebuild (0 : Int) r (s + 1) L).all _ = true
    have hrb : (show List (κ × Tree κ Int (r + s)) from rebuild (0 : Int) r (s + 1) L) =
        (groupHead L).map (fun g => (g.1, rebuild (0 : Int) r s g.2)) := rfl
    rw [hrb, List.all_eq_true]
    intro e he
    obtain ⟨g, hg, rfl⟩ := List.mem_map.1 he
    have hmem : ∀ pv ∈ g.2, (g.1 :: pv.1, pv.2) ∈ L := fun pv hpv =>
      (hG.mem g.1 pv.1 pv.2).2 ⟨g.2, hg, hpv⟩
    rw [Bool.and_eq_true, List.contains_iff_mem]
    constructor
    · cases hg2 : g.2 with
      | nil => exact absurd hg2 (hG.nonempty g hg)
      | cons pv _ =>
        have := hmem pv (by rw [hg2]; exact List.mem_cons_self ..)
        exact (hin _ this).1 g.1 (List.mem_cons_self ..)
    · apply rebuild_in s g.2 (hG.inner g hg)
      · intro pv hpv
        have := hlen _ (hmem pv hpv)
        simpa using this
      · intro pv hpv
        obtain ⟨h1, h2⟩ := hin _ (hmem pv hpv)
        exact ⟨fun c hc => h1 c (List.mem_cons_of_mem _ hc), h2⟩

end inU

/-! ### `swizzleRanks` -/
section swz
variable {ν : Type} (dflt : ν) (r s : Nat) (guide : List Nat) (hg : guide.Perm (List.range s))
include hg

theorem swizzle_list_ok (t : Tree κ ν (r + s)) (hw : Ft.WF (r + s) t) :
    let L := sortLex ((flattenN r s t).map (fun pv => (permute guide pv.1, pv.2)))
    LexSorted L ∧ (∀ pv ∈ L, pv.1.length = s) ∧
    (∀ pv, pv ∈ L ↔ ∃ pv0 ∈ flattenN r s t, pv = (permute guide pv0.1, pv0.2)) := by
  intro L
  have hr : ∀ g ∈ guide, g < s := fun g hgm => List.mem_range.1 (hg.mem_iff.1 hgm)
  have hgl : guide.length = s := by rw [hg.length_eq, List.length_range]
  have hmem : ∀ pv, pv ∈ L ↔ ∃ pv0 ∈ flattenN r s t, pv = (permute guide pv0.1, pv0.2) := by
    intro pv
    rw [(sortLex_perm _).mem_iff, List.mem_map]
    constructor
    · rintro ⟨pv0, h0, rfl⟩; exact ⟨pv0, h0, rfl⟩
    · rintro ⟨pv0, h0, rfl⟩; exact ⟨pv0, h0, rfl⟩
  refine ⟨?_, ?_, hmem⟩
  · apply sortLex_sorted
    unfold KeysDistinct
    rw [List.pairwise_map]
    apply List.Pairwise.imp_of_mem _ (flatten_distinct r s t hw)
    intro a b ha hb hab e
    exact hab (permute_inj s guide hg a.1 b.1 (flatten_len r s t a ha) (flatten_len r s t b hb) e)
  · intro pv hpv
    obtain ⟨pv0, h0, rfl⟩ := (hmem pv).1 hpv
    show (permute guide pv0.1).length = s
    rw [permute_length guide pv0.1 (fun g hgm => by rw [flatten_len r s t pv0 h0]; exact hr g hgm), hgl]

/-- **the swizzled tree denotes the same tensor with the ranks permuted**, and is well-formed -/
theorem swizzle_spec (t : Tree κ ν (r + s)) (hw : Ft.WF (r + s) t) :
    Ft.WF (r + s) (swizzle dflt r s guide t) ∧
    ∀ p : List κ, p.length = s → ∀ q,
      val dflt (r + s) (swizzle dflt r s guide t) (permute guide p ++ q) = val dflt (r + s) t (p ++ q) := by
  obtain ⟨h1, h2, h3⟩ := swizzle_list_ok r s guide hg t hw
  have hr : ∀ g ∈ guide, g < s := fun g hgm => List.mem_range.1 (hg.mem_iff.1 hgm)
  have hgl : guide.length = s := by rw [hg.length_eq, List.length_range]
  obtain ⟨w1, w2, w3⟩ := rebuild_spec dflt r s _ h1 h2 (by
    intro pv hpv
    obtain ⟨pv0, h0, rfl⟩ := (h3 pv).1 hpv
    exact flatten_wf r s t hw pv0 h0)
  refine ⟨w1, ?_⟩
  intro p hp q
  by_cases hex : ∃ x, (p, x) ∈ flattenN r s t
  · obtain ⟨x, hx⟩ := hex
    have := w2 (permute guide p, x) ((h3 _).2 ⟨(p, x), hx, rfl⟩) q
    show val dflt (r + s) (rebuild dflt r s _) (permute guide p ++ q) = _
    rw [this]
    exact (flatten_val_mem dflt r s t hw (p, x) hx q).symm
  · have hnone : ∀ x, (permute guide p, x) ∉
        sortLex ((flattenN r s t).map (fun pv => (permute guide pv.1, pv.2))) := by
      intro x hx
      obtain ⟨pv0, h0, e⟩ := (h3 _).1 hx
      obtain ⟨e1, e2⟩ := Prod.mk.inj e
      have := permute_inj s guide hg p pv0.1 hp (flatten_len r s t pv0 h0) e1
      exact hex ⟨pv0.2, by rw [this]; exact h0⟩
    have hlen : (permute guide p).length = s := by
      rw [permute_length guide p (fun g hgm => by rw [hp]; exact hr g hgm), hgl]
    show val dflt (r + s) (rebuild dflt r s _) (permute guide p ++ q) = _
    rw [w3 (permute guide p) hlen hnone q]
    exact (flatten_val_none dflt r s t hw p hp (fun x hx => hex ⟨x, hx⟩) q).symm

end swz

/-- coordinates stay inside the universe -/
theorem swizzle_in (U : List κ) (r s : Nat) (guide : List Nat) (hg : guide.Perm (List.range s))
    (t : Tree κ Int (r + s)) (hw : Ft.WF (r + s) t) (hin : coordsInB U (r + s) t = true) :
    coordsInB U (r + s) (swizzle (0 : Int) r s guide t) = true := by
  obtain ⟨h1, h2, h3⟩ := swizzle_list_ok r s guide hg t hw
  apply rebuild_in U r s _ h1 h2
  intro pv hpv
  obtain ⟨pv0, h0, rfl⟩ := (h3 pv).1 hpv
  obtain ⟨a, b⟩ := flatten_in U r s t hin pv0 h0
  exact ⟨fun c hc => a c (mem_permute hc), b⟩

/-- **`swizzleRanks` re-orders without changing the tensor**: an operand with ranks `top ++ low`
    (`top` = the swizzled prefix) and its swizzled tree read with ranks `permute guide top ++ low`
    have the same value under every assignment of the index variables -/
theorem swizzle_sameTensor (r s : Nat) (guide : List Nat) (hg : guide.Perm (List.range s))
    (top low : List Nat) (htop : top.length = s) (hlow : low.length = r)
    (t : Tree κ Int (r + s)) (hw : Ft.WF (r + s) t) :
    SameTensor
      (Cur.ofTree (top ++ low) (r + s) (by simp [htop, hlow]; omega) t)
      (Cur.ofTree (permute guide top ++ low) (r + s) (by
        have hr : ∀ g ∈ guide, g < top.length := fun g hgm => htop ▸ List.mem_range.1 (hg.mem_iff.1 hgm)
        rw [List.length_append, permute_length guide top hr, hg.length_eq, List.length_range, hlow]; omega)
        (swizzle (0 : Int) r s guide t)) := by
  intro σ
  rw [cval_ofTree, cval_ofTree, List.map_append, List.map_append, ← permute_map]
  exact ((swizzle_spec (0 : Int) r s guide hg t hw).2 (top.map σ) (by simp [htop]) (low.map σ)).symm

end
end Ft.C06
