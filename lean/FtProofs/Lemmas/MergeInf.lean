/-
  C19, latency "N": the incremental merge of `Compute._merge` (negated coordinates, stacks
  popped from the end, `bisect_right`, positions) refines the insertion-buffer merge on the
  coordinates themselves (`specHeads` / `specDrain` / `insertMerge`).
-/
import FtProofs.Lemmas.Compute
import FtProofs.Lemmas.Sorted
set_option linter.unusedSectionVars false
set_option linter.unusedSimpArgs false
set_option linter.unusedVariables false
namespace Ft

/-- a buffer entry as the implementation stores it -/
def N (h : Int × Nat) : Int × Nat := (-h.1, h.2)

/-- the implementation's `head` list for a buffer in emission order -/
def MH (buf : List (Int × Nat)) : List (Int × Nat) := (buf.map N).reverse

/-- the implementation's list for an ascending coordinate list: negated, ascending again -/
def negRev (l : List Int) : List Int := (l.map (fun c => -c)).reverse

/-- no entry is emitted before an entry that stands in front of it -/
def NoInv (buf : List (Int × Nat)) : Prop := buf.Pairwise (fun x y => ahead y x = false)

theorem tupLe_N (h e : Int × Nat) : tupLe (N h) (N e) = !ahead h e := by
  obtain ⟨a, i⟩ := h
  obtain ⟨b, j⟩ := e
  rw [Bool.eq_iff_iff]
  by_cases hij : i ≤ j <;> simp [tupLe, ahead, N, hij] <;> omega

theorem ahead_negtrans {x y e : Int × Nat} (h1 : ahead y e = true) (h2 : ahead x e = false) :
    ahead y x = true := by
  simp only [ahead, Bool.or_eq_true, Bool.and_eq_true, decide_eq_true_eq, Bool.or_eq_false_iff,
    Bool.and_eq_false_iff, decide_eq_false_iff_not] at *
  omega

theorem ahead_asymm {x e : Int × Nat} (h1 : ahead x e = true) : ahead e x = false := by
  simp only [ahead, Bool.or_eq_true, Bool.and_eq_true, decide_eq_true_eq, Bool.or_eq_false_iff,
    Bool.and_eq_false_iff, decide_eq_false_iff_not] at *
  omega

/-- the entries emitted before `e` form a prefix of the buffer -/
theorem partition (buf : List (Int × Nat)) (h : NoInv buf) (e : Int × Nat) :
    ∃ B1 B2, buf = B1 ++ B2 ∧ (∀ x ∈ B1, ahead x e = true) ∧ (∀ x ∈ B2, ahead x e = false) := by
  induction buf with
  | nil => exact ⟨[], [], rfl, by simp, by simp⟩
  | cons x r ih =>
    have hx := List.pairwise_cons.1 h
    by_cases hxe : ahead x e = true
    · obtain ⟨B1, B2, hr, h1, h2⟩ := ih hx.2
      refine ⟨x :: B1, B2, by rw [hr]; rfl, ?_, h2⟩
      intro y hy
      rcases List.mem_cons.1 hy with rfl | hy
      · exact hxe
      · exact h1 y hy
    · have hxe' : ahead x e = false := by simpa using hxe
      refine ⟨[], x :: r, rfl, by simp, ?_⟩
      intro y hy
      rcases List.mem_cons.1 hy with rfl | hy
      · exact hxe'
      · cases hye : ahead y e with
        | false => rfl
        | true =>
          have := ahead_negtrans hye hxe'
          rw [hx.1 y hy] at this
          cases this

theorem filter_pos_append (B1 B2 : List (Int × Nat)) (p : Int × Nat → Bool)
    (h1 : ∀ x ∈ B1, p x = true) (h2 : ∀ x ∈ B2, p x = false) :
    (B1 ++ B2).filter p = B1 ∧ (B1 ++ B2).filter (fun x => !p x) = B2 ∧ (B1 ++ B2).countP p = B1.length := by
  refine ⟨?_, ?_, ?_⟩
  · rw [List.filter_append, List.filter_eq_self.2 h1, List.filter_eq_nil_iff.2 (by simpa using h2)]
    simp
  · rw [List.filter_append, List.filter_eq_nil_iff.2 (by simpa using h1),
      List.filter_eq_self.2 (by simpa using h2)]
    simp
  · rw [List.countP_eq_length_filter, List.filter_append, List.filter_eq_self.2 h1,
      List.filter_eq_nil_iff.2 (by simpa using h2)]
    simp

theorem MH_append (a b : List (Int × Nat)) : MH (a ++ b) = MH b ++ MH a := by
  simp [MH]

theorem MH_cons (x : Int × Nat) (b : List (Int × Nat)) : MH (x :: b) = MH b ++ [N x] := by
  simp [MH]

theorem length_MH (b : List (Int × Nat)) : (MH b).length = b.length := by simp [MH]

theorem mem_MH {b : List (Int × Nat)} {y : Int × Nat} (h : y ∈ MH b) : ∃ x ∈ b, y = N x := by
  simp only [MH, List.mem_reverse, List.mem_map] at h
  obtain ⟨x, hx, rfl⟩ := h
  exact ⟨x, hx, rfl⟩

theorem takeWhile_all_false {α : Type} (p : α → Bool) (l : List α) (h : ∀ x ∈ l, p x = false) :
    l.takeWhile p = [] := by
  cases l with
  | nil => rfl
  | cons x r => simp [List.takeWhile_cons, h x (List.mem_cons_self ..)]

/-- one insertion: position, resulting list, charged comparisons, and the invariant -/
theorem step_insert (buf : List (Int × Nat)) (h : NoInv buf) (e : Int × Nat) :
    c19_insertAt (MH buf) (bisectRight (MH buf) (N e)) (N e) = MH (bufInsert buf e) ∧
    (MH buf).length - bisectRight (MH buf) (N e) + 1 = bufCost buf e ∧
    NoInv (bufInsert buf e) := by
  obtain ⟨B1, B2, rfl, h1, h2⟩ := partition buf h e
  obtain ⟨f1, f2, f3⟩ := filter_pos_append B1 B2 (fun x => ahead x e) h1 h2
  have hb : bisectRight (MH (B1 ++ B2)) (N e) = B2.length := by
    unfold bisectRight
    rw [MH_append, List.takeWhile_append_of_pos, takeWhile_all_false, List.append_nil, length_MH]
    · intro y hy
      obtain ⟨x, hx, rfl⟩ := mem_MH hy
      rw [tupLe_N, h1 x hx]; rfl
    · intro y hy
      obtain ⟨x, hx, rfl⟩ := mem_MH hy
      rw [tupLe_N, h2 x hx]; rfl
  refine ⟨?_, ?_, ?_⟩
  · rw [hb]
    unfold bufInsert c19_insertAt
    rw [f1, f2, MH_append, List.take_left' (length_MH B2), List.drop_left' (length_MH B2)]
    rw [MH_append, MH_cons]
    simp
  · rw [hb, length_MH, List.length_append]
    unfold bufCost
    rw [f3]; omega
  · unfold bufInsert
    rw [f1, f2]
    have hp := List.pairwise_append.1 h
    unfold NoInv
    rw [List.pairwise_append]
    refine ⟨hp.1, ?_, ?_⟩
    · rw [List.pairwise_cons]
      exact ⟨fun y hy => h2 y hy, hp.2.1⟩
    · intro a ha b hb'
      rcases List.mem_cons.1 hb' with rfl | hb'
      · exact ahead_asymm (h1 a ha)
      · exact hp.2.2 a ha b hb'

theorem noInv_nil : NoInv [] := List.Pairwise.nil

theorem noInv_tail {x : Int × Nat} {b : List (Int × Nat)} (h : NoInv (x :: b)) : NoInv b :=
  (List.pairwise_cons.1 h).2

theorem negRev_nil : negRev [] = [] := rfl

theorem negRev_cons (c : Int) (l : List Int) : negRev (c :: l) = negRev l ++ [-c] := by
  simp [negRev]

/-! ### "First insert all fibers" -/

theorem infHeads_sim (lists : List (List Int)) :
    ∀ (i : Nat) (buf : List (Int × Nat)) (cost : Nat), NoInv buf →
      infHeads i (lists.map negRev) (MH buf) cost =
        ((specHeads i lists buf cost).1.map negRev, MH (specHeads i lists buf cost).2.1,
          (specHeads i lists buf cost).2.2) ∧
      NoInv (specHeads i lists buf cost).2.1 := by
  induction lists with
  | nil => intro i buf cost h; exact ⟨rfl, h⟩
  | cons l ls ih =>
    intro i buf cost h
    cases l with
    | nil =>
      obtain ⟨e1, e2⟩ := ih (i + 1) buf cost h
      simp only [List.map_cons, negRev_nil, infHeads, List.getLast?_nil, specHeads]
      rw [e1]
      exact ⟨rfl, e2⟩
    | cons c l =>
      obtain ⟨s1, s2, s3⟩ := step_insert buf h (c, i)
      obtain ⟨e1, e2⟩ := ih (i + 1) (bufInsert buf (c, i)) (cost + bufCost buf (c, i)) s3
      simp only [List.map_cons, negRev_cons, infHeads, List.getLast?_concat, List.dropLast_concat, specHeads]
      have hN : N (c, i) = (-c, i) := rfl
      rw [← hN, s1, s2, e1]
      exact ⟨rfl, e2⟩

/-! ### "Now build the result" -/

theorem getD_map_negRev (lists : List (List Int)) (i : Nat) :
    (lists.map negRev).getD i [] = negRev (lists.getD i []) := by
  simp only [List.getD_eq_getElem?_getD, List.getElem?_map]
  cases lists[i]? <;> rfl

theorem infDrain_sim (fuel : Nat) :
    ∀ (lists : List (List Int)) (buf : List (Int × Nat)) (out : List Int) (cost : Nat), NoInv buf →
      infDrain fuel (lists.map negRev) (MH buf) (out.map (fun c => -c)) cost =
        ((specDrain fuel lists buf out cost).1, (specDrain fuel lists buf out cost).2.map (fun c => -c)) := by
  induction fuel with
  | zero => intro lists buf out cost h; rfl
  | succ fuel ih =>
    intro lists buf out cost h
    cases buf with
    | nil => simp [infDrain, specDrain, MH]
    | cons x b =>
      obtain ⟨c, i⟩ := x
      have hb := noInv_tail h
      simp only [infDrain, MH_cons, List.getLast?_concat, List.dropLast_concat, specDrain, N,
        getD_map_negRev]
      have hout : out.map (fun c => -c) ++ [-c] = (out ++ [c]).map (fun c => -c) := by simp
      cases hl : lists.getD i [] with
      | nil =>
        simp only [negRev_nil, List.getLast?_nil]
        rw [hout, ih lists b (out ++ [c]) cost hb]
      | cons c' l =>
        obtain ⟨s1, s2, s3⟩ := step_insert b hb (c', i)
        simp only [negRev_cons, List.getLast?_concat, List.dropLast_concat]
        have hN : N (c', i) = (-c', i) := rfl
        rw [← hN, s1, s2, hout]
        have hset : (lists.map negRev).set i (negRev l) = (lists.set i l).map negRev := by
          rw [List.map_set]
        rw [hset, ih (lists.set i l) (bufInsert b (c', i)) (out ++ [c]) _ s3]

/-! ### sorting negated lists -/

theorem pySort_pairwise (l : List Int) : (pySort l).Pairwise (fun a b => decide (a ≤ b) = true) := by
  unfold pySort
  apply List.pairwise_mergeSort
  · intro a b c hab hbc
    simp only [decide_eq_true_eq] at *
    omega
  · intro a b
    simp only [Bool.or_eq_true, decide_eq_true_eq]
    omega

theorem pySort_perm (l : List Int) : (pySort l).Perm l := List.mergeSort_perm l _

theorem pySort_neg (l : List Int) : pySort (l.map (fun c => -c)) = negRev (pySort l) := by
  apply List.Perm.eq_of_pairwise (le := fun a b => decide (a ≤ b) = true)
  · intro a b _ _ h1 h2
    simp only [decide_eq_true_eq] at h1 h2
    omega
  · exact pySort_pairwise _
  · unfold negRev
    rw [List.pairwise_reverse, List.pairwise_map]
    exact (pySort_pairwise l).imp (fun {a b} h => by
      simp only [decide_eq_true_eq] at h ⊢
      omega)
  · unfold negRev
    exact (pySort_perm _).trans (((pySort_perm l).symm.map _).trans (List.reverse_perm _).symm)

theorem pySort_of_sorted (l : List Int) (h : l.Pairwise (· < ·)) : pySort l = l := by
  unfold pySort
  apply List.mergeSort_of_pairwise
  exact h.imp (fun {a b} hab => by simp only [decide_eq_true_eq]; omega)

/-- `_merge(coords, radix, "N")` on the implementation's representation of the lists -/
theorem mergeInf_sim (lists : List (List Int)) :
    mergeInf (lists.map negRev) = ((insertMerge lists).1, negRev (insertMerge lists).2) := by
  obtain ⟨e1, e2⟩ := infHeads_sim lists 0 [] 0 noInv_nil
  have hlen : ((lists.map negRev).map List.length).sum = (lists.map List.length).sum := by
    simp [negRev, Function.comp_def]
  have hMH : MH [] = [] := rfl
  unfold mergeInf insertMerge
  rw [hMH] at e1
  simp only [e1, hlen]
  have := infDrain_sim (lists.map List.length).sum (specHeads 0 lists [] 0).1 (specHeads 0 lists [] 0).2.1 []
    (specHeads 0 lists [] 0).2.2 e2
  simp only [List.map_nil] at this
  rw [this, pySort_neg]

end Ft

namespace Ft

/-! ### the rounds -/

theorem chunks_map {α β : Type} (f : α → β) (r : Nat) (l : List α) :
    chunks r (l.map f) = (chunks r l).map (List.map f) := by
  fun_induction chunks r l with
  | case1 l h =>
    rcases h with h | h
    · subst h; rw [chunks_zero]; rfl
    · subst h; simp [chunks_nil]
  | case2 l h ih =>
    have hr : r ≠ 0 := fun h0 => h (Or.inl h0)
    have hl : l ≠ [] := fun h0 => h (Or.inr h0)
    rw [chunks_cons r (l.map f) hr (by simpa using hl)]
    rw [← List.map_take, ← List.map_drop, ih]
    rfl

theorem roundsInf_eq (radix : Option Nat) (lists : List (List Int)) :
    roundsInf radix lists =
      if 2 ≤ lists.length ∧ 2 ≤ clampRadix radix lists.length then
        (((chunks (clampRadix radix lists.length) lists).map insertMerge).map (·.1)).sum +
          roundsInf radix (((chunks (clampRadix radix lists.length) lists).map insertMerge).map (·.2))
      else 0 := by
  rw [roundsInf]
  by_cases h : 2 ≤ lists.length ∧ 2 ≤ clampRadix radix lists.length <;> simp [h]

theorem roundsInf_small (radix : Option Nat) (lists : List (List Int)) (h : lists.length ≤ 1) :
    roundsInf radix lists = 0 := by
  rw [roundsInf_eq]
  have : ¬ (2 ≤ lists.length ∧ 2 ≤ clampRadix radix lists.length) := by omega
  simp [this]

theorem roundsInf_clamp (radix : Option Nat) (k : Nat) :
    ∀ (n : Nat) (lists : List (List Int)), lists.length = n → n ≤ k →
      roundsInf (some (clampRadix radix k)) lists = roundsInf radix lists := by
  intro n
  induction n using Nat.strongRecOn with
  | _ n ih =>
    intro lists hn hk
    rw [roundsInf_eq (some (clampRadix radix k)), roundsInf_eq radix]
    rw [clamp_clamp radix k lists.length (by omega)]
    by_cases hc : 2 ≤ lists.length ∧ 2 ≤ clampRadix radix lists.length
    · simp only [hc, and_self, if_true]
      have hlt : ceilDiv lists.length (clampRadix radix lists.length) < lists.length :=
        ceilDiv_lt hc.1 hc.2 (clampRadix_le radix lists.length)
      have hlen : (((chunks (clampRadix radix lists.length) lists).map insertMerge).map (·.2)).length
          = ceilDiv lists.length (clampRadix radix lists.length) := by
        simp only [List.length_map]
        exact length_chunks _ (by omega) lists
      rw [ih _ (by omega) _ hlen (by omega)]
    · simp only [hc, if_false]

/-- the rounds with latency "N" on the implementation's lists are the insertion-buffer
    rounds on the coordinate lists (and the fuel suffices) -/
theorem swapRounds_inf (fuel : Nat) :
    ∀ (radix : Option Nat) (lists : List (List Int)), RadixOk radix → lists.length ≤ fuel →
      swapRounds Lat.inf fuel radix (lists.map negRev) = roundsInf radix lists := by
  induction fuel with
  | zero =>
    intro radix lists _ hf
    simp only [swapRounds]
    rw [roundsInf_small _ _ (by omega)]
  | succ fuel ih =>
    intro radix lists hr hf
    simp only [swapRounds, List.length_map]
    by_cases hk : lists.length ≤ 1
    · simp only [hk, if_true]
      rw [roundsInf_small _ _ hk]
    · simp only [hk, if_false]
      have hk2 : 2 ≤ lists.length := by omega
      obtain ⟨hc1, hc2⟩ := clamp_bounds radix hr lists.length hk2
      have hr0 : clampRadix radix lists.length ≠ 0 := by omega
      have hres : (chunks (clampRadix radix lists.length) (lists.map negRev)).map (mergeChunk Lat.inf) =
          ((chunks (clampRadix radix lists.length) lists).map insertMerge).map (fun m => (m.1, negRev m.2)) := by
        rw [chunks_map, List.map_map, List.map_map]
        apply List.map_congr_left
        intro ch _
        simp only [Function.comp_def, mergeChunk]
        exact mergeInf_sim ch
      rw [hres]
      have h1 : ((((chunks (clampRadix radix lists.length) lists).map insertMerge).map
          (fun m => (m.1, negRev m.2))).map (·.1)) =
          (((chunks (clampRadix radix lists.length) lists).map insertMerge).map (·.1)) := by
        simp [List.map_map, Function.comp_def]
      have h2 : ((((chunks (clampRadix radix lists.length) lists).map insertMerge).map
          (fun m => (m.1, negRev m.2))).map (·.2)) =
          ((((chunks (clampRadix radix lists.length) lists).map insertMerge).map (·.2)).map negRev) := by
        simp [List.map_map, Function.comp_def]
      rw [h1, h2]
      have hlen : (((chunks (clampRadix radix lists.length) lists).map insertMerge).map (·.2)).length
          = ceilDiv lists.length (clampRadix radix lists.length) := by
        simp only [List.length_map]
        exact length_chunks _ hr0 lists
      have hlt := ceilDiv_lt hk2 hc1 hc2
      rw [ih (some (clampRadix radix lists.length)) _ (by simpa [RadixOk] using hc1) (by omega)]
      rw [roundsInf_clamp radix lists.length _ _ hlen (by omega)]
      conv => rhs; rw [roundsInf_eq]
      simp [hk2, hc1]

theorem negSorted_eq (l : List Int) : negSorted l = negRev (pySort l) := by
  unfold negSorted; exact pySort_neg l

theorem swapsAt_inf (radix : Option Nat) (hr : RadixOk radix) (lists : List (List Int)) :
    swapsAt radix Lat.inf lists = roundsInf radix (lists.map pySort) := by
  unfold swapsAt
  have : lists.map negSorted = (lists.map pySort).map negRev := by
    rw [List.map_map]; apply List.map_congr_left; intro l _; exact negSorted_eq l
  rw [this, swapRounds_inf _ radix _ hr (by simp)]

theorem map_pySort_of_sorted (lists : List (List Int)) (h : ∀ l ∈ lists, l.Pairwise (· < ·)) :
    lists.map pySort = lists := by
  conv => rhs; rw [← List.map_id lists]
  apply List.map_congr_left
  intro l hl
  exact pySort_of_sorted l (h l hl)

/-- in a well-formed tree the merged coordinate lists are strictly ascending -/
theorem mergeNodes_sorted (e : Nat) :
    ∀ (depth : Nat) (t : Tree Int Int (e + 2 + depth)), WF (e + 2 + depth) t →
      ∀ lists ∈ mergeNodes e depth t, ∀ l ∈ lists, l.Pairwise (· < ·) := by
  intro depth
  induction depth with
  | zero =>
    intro (t : List (Int × Tree Int Int (e + 1))) hwf lists hl l hmem
    have hwf' : Sorted t ∧ ∀ el ∈ t, WF (e + 1) el.2 := hwf
    have hl' : lists = (t.map (fun el => coordsOf (d := e) el.2)).filter (fun l => !l.isEmpty) := by
      have : lists ∈ [(t.map (fun el => coordsOf (d := e) el.2)).filter (fun l => !l.isEmpty)] := hl
      simpa using this
    rw [hl'] at hmem
    obtain ⟨el, hel, rfl⟩ := List.mem_map.1 (List.mem_filter.1 hmem).1
    have hs : WF (e + 1) el.2 := hwf'.2 el hel
    have hs' : Sorted (show List (Int × Tree Int Int e) from el.2) := hs.1
    show ((show List (Int × Tree Int Int e) from el.2).map (·.1)).Pairwise (· < ·)
    rw [List.pairwise_map]
    exact hs'
  | succ depth ih =>
    intro (t : List (Int × Tree Int Int (e + 2 + depth))) hwf lists hl l hmem
    have hwf' : Sorted t ∧ ∀ el ∈ t, WF (e + 2 + depth) el.2 := hwf
    have hl' : lists ∈ t.flatMap (fun el => mergeNodes e depth el.2) := hl
    obtain ⟨el, hel, hin⟩ := List.mem_flatMap.1 hl'
    exact ih el.2 (hwf'.2 el hel) lists hin l hmem

theorem c19_wfB_iff : ∀ (d : Nat) (t : Tree Int Int d), wfB d t = true ↔ WF d t := by
  intro d
  induction d with
  | zero => intro t; exact ⟨fun _ => trivial, fun _ => rfl⟩
  | succ d ih =>
    intro (t : List (Int × Tree Int Int d))
    show (sortedB t && t.all (fun el => wfB d el.2)) = true ↔ (Sorted t ∧ ∀ el ∈ t, WF d el.2)
    rw [Bool.and_eq_true, sortedB_iff, List.all_eq_true]
    constructor
    · rintro ⟨h1, h2⟩; exact ⟨h1, fun el hel => (ih el.2).1 (h2 el hel)⟩
    · rintro ⟨h1, h2⟩; exact ⟨h1, fun el hel => (ih el.2).2 (h2 el hel)⟩

end Ft
