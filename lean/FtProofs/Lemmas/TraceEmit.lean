/-
  Lemmas for C16, layer 3: what the iterators emit is well-nested.
  Generic facts about item lists first (keys that are only used plainly, keys that are only used
  through a saved copy that is never bumped, strictness of the consumer's own key), then the
  individual iterators.
-/
import FtModel.Trace
import FtProofs.Lemmas.TraceNest
import FtProofs.Lemmas.TraceMachine
set_option linter.unusedSimpArgs false
set_option linter.unusedVariables false
namespace Ft.C16

section
variable {σ : Type}

/-- the local state after the items (loop bodies do not touch it) -/
def advance : LSt → List (Item σ) → LSt
  | st, [] => st
  | st, .use .. :: rest => advance st rest
  | st, .useSaved .. :: rest => advance st rest
  | st, .inc :: rest => advance { st with cnt := st.cnt + 1 } rest
  | st, .save s :: rest => advance { st with regs := upd st.regs s st.cnt } rest
  | st, .bump s :: rest => advance { st with regs := upd st.regs s (st.regs s + 1) } rest
  | st, .sub _ :: rest => advance st rest

theorem levelStamps_append (k : Key) : ∀ (a b : List (Item σ)) (st : LSt),
    levelStamps k st (a ++ b) = levelStamps k st a ++ levelStamps k (advance st a) b := by
  intro a
  induction a with
  | nil => intro b st; simp [levelStamps, advance]
  | cons it rest ih =>
    intro b st
    cases it <;> simp [levelStamps, advance, ih, List.append_assoc]

theorem advance_append : ∀ (a b : List (Item σ)) (st : LSt),
    advance st (a ++ b) = advance (advance st a) b := by
  intro a
  induction a with
  | nil => intro b st; simp [advance]
  | cons it rest ih => intro b st; cases it <;> simp [advance, ih]

def isSub : Item σ → Bool
  | .sub _ => true
  | _ => false

/-- the key an item writes to, if it is a use -/
def itemKey : Item σ → Option Key
  | .use r ty _ _ => some (r, ty)
  | .useSaved _ r ty _ _ => some (r, ty)
  | _ => none

def isSaved : Item σ → Bool
  | .useSaved .. => true
  | _ => false

theorem sepB_nosub : ∀ (a b : List (Item σ)) (f : Bool), a.all (fun i => !isSub i) = true →
    sepB true b = true → (f = true ∨ a.any (fun i => match i with | .inc => true | _ => false) = true ∨ True) →
    sepB true (a ++ b) = true := by
  intro a
  induction a with
  | nil => intro b f _ hb _; simpa using hb
  | cons it rest ih =>
    intro b f ha hb _
    simp only [List.all_cons, Bool.and_eq_true] at ha
    cases it with
    | sub x => simp [isSub] at ha
    | inc => simpa [sepB] using ih b true ha.2 hb (Or.inl rfl)
    | use r ty c pos => simpa [sepB] using ih b true ha.2 hb (Or.inl rfl)
    | useSaved s r ty c pos => simpa [sepB] using ih b true ha.2 hb (Or.inl rfl)
    | save s => simpa [sepB] using ih b true ha.2 hb (Or.inl rfl)
    | bump s => simpa [sepB] using ih b true ha.2 hb (Or.inl rfl)

theorem subsOf_append : ∀ (a b : List (Item σ)), subsOf (a ++ b) = subsOf a ++ subsOf b := by
  intro a
  induction a with
  | nil => intro b; simp [subsOf]
  | cons it rest ih => intro b; cases it <;> simp [subsOf, ih]

theorem subsOf_nosub : ∀ (a : List (Item σ)), a.all (fun i => !isSub i) = true → subsOf a = [] := by
  intro a
  induction a with
  | nil => intro _; rfl
  | cons it rest ih =>
    intro h
    simp only [List.all_cons, Bool.and_eq_true] at h
    cases it <;> simp_all [subsOf, isSub]

/-- no item uses key `k`: no stamps -/
theorem levelStamps_nokey (k : Key) : ∀ (items : List (Item σ)) (st : LSt),
    (∀ it ∈ items, itemKey it ≠ some k) → levelStamps k st items = [] := by
  intro items
  induction items with
  | nil => intro st _; rfl
  | cons it rest ih =>
    intro st h
    have hr : ∀ it ∈ rest, itemKey it ≠ some k := fun x hx => h x (by simp [hx])
    have h0 := h it (by simp)
    cases it with
    | use r ty c pos =>
      have : (r, ty) ≠ k := by intro e; apply h0; simp [itemKey, e]
      simp [levelStamps, this, ih _ hr]
    | useSaved s r ty c pos =>
      have : (r, ty) ≠ k := by intro e; apply h0; simp [itemKey, e]
      simp [levelStamps, this, ih _ hr]
    | inc => simpa [levelStamps] using ih _ hr
    | save s => simpa [levelStamps] using ih _ hr
    | bump s => simpa [levelStamps] using ih _ hr
    | sub x => simpa [levelStamps] using ih _ hr

/-- Lemma A: a key that is never used through a saved copy gets the values of the counter, which
    only grows -/
theorem levelStamps_plain (k : Key) : ∀ (items : List (Item σ)) (st : LSt),
    (∀ it ∈ items, isSaved it = true → itemKey it ≠ some k) →
    (levelStamps k st items).Pairwise (· ≤ ·) ∧ ∀ x ∈ levelStamps k st items, st.cnt ≤ x := by
  intro items
  induction items with
  | nil => intro st _; simp [levelStamps]
  | cons it rest ih =>
    intro st h
    have hr : ∀ it ∈ rest, isSaved it = true → itemKey it ≠ some k := fun x hx => h x (by simp [hx])
    cases it with
    | use r ty c pos =>
      have := ih st hr
      simp only [levelStamps]
      split
      · simp only [List.singleton_append, List.pairwise_cons, List.mem_cons]
        exact ⟨⟨this.2, this.1⟩, fun x hx => by rcases hx with rfl | hx; exact Nat.le_refl _; exact this.2 x hx⟩
      · simpa using this
    | useSaved s r ty c pos =>
      have h0 := h (.useSaved s r ty c pos) (by simp) rfl
      have hk : (r, ty) ≠ k := by intro e; apply h0; simp [itemKey, e]
      simpa [levelStamps, hk] using ih st hr
    | inc =>
      have := ih { st with cnt := st.cnt + 1 } hr
      simp only [levelStamps]
      exact ⟨this.1, fun x hx => by have := this.2 x hx; simp at this; omega⟩
    | save s => simpa [levelStamps] using ih _ hr
    | bump s => simpa [levelStamps] using ih _ hr
    | sub x => simpa [levelStamps] using ih _ hr

/-- the consumer's own key: used plainly, and after each use the counter is incremented before the
    next use -/
def strictOKB (k : Key) : Bool → List (Item σ) → Bool
  | _, [] => true
  | f, .use r ty _ _ :: rest => if (r, ty) = k then f && strictOKB k false rest else strictOKB k f rest
  | f, .useSaved _ r ty _ _ :: rest => decide ((r, ty) ≠ k) && strictOKB k f rest
  | _, .inc :: rest => strictOKB k true rest
  | f, _ :: rest => strictOKB k f rest

/-- Lemma A': … then its stamps increase strictly -/
theorem levelStamps_strict (k : Key) : ∀ (items : List (Item σ)) (st : LSt) (f : Bool),
    strictOKB k f items = true →
    (levelStamps k st items).Pairwise (· < ·) ∧
      ∀ x ∈ levelStamps k st items, st.cnt ≤ x ∧ (f = false → st.cnt < x) := by
  intro items
  induction items with
  | nil => intro st f _; simp [levelStamps]
  | cons it rest ih =>
    intro st f h
    cases it with
    | use r ty c pos =>
      simp only [strictOKB] at h
      simp only [levelStamps]
      split at h
      · rename_i hk
        simp only [Bool.and_eq_true] at h
        have := ih st false h.2
        simp only [hk, if_true, List.singleton_append, List.pairwise_cons, List.mem_cons]
        refine ⟨⟨fun x hx => (this.2 x hx).2 rfl, this.1⟩, ?_⟩
        intro x hx
        rcases hx with rfl | hx
        · exact ⟨Nat.le_refl _, fun hf => by simp [hf] at h⟩
        · exact ⟨(this.2 x hx).1, fun _ => (this.2 x hx).2 rfl⟩
      · rename_i hk
        simpa [hk] using ih st f h
    | useSaved s r ty c pos =>
      simp only [strictOKB, Bool.and_eq_true, decide_eq_true_eq] at h
      simpa [levelStamps, h.1] using ih st f h.2
    | inc =>
      simp only [strictOKB] at h
      have := ih { st with cnt := st.cnt + 1 } true h
      simp only [levelStamps]
      refine ⟨this.1, fun x hx => ?_⟩
      have := (this.2 x hx).1
      simp at this
      exact ⟨by omega, fun _ => by omega⟩
    | save s => simpa [levelStamps, strictOKB] using ih _ f (by simpa [strictOKB] using h)
    | bump s => simpa [levelStamps, strictOKB] using ih _ f (by simpa [strictOKB] using h)
    | sub x => simpa [levelStamps, strictOKB] using ih _ f (by simpa [strictOKB] using h)

/-- Lemma B: a key that is only used through the saved copy in slot `s`, which is never bumped:
    the copy is refreshed from the counter, so its values only grow -/
theorem levelStamps_saved (k : Key) (s : Nat) : ∀ (items : List (Item σ)) (st : LSt),
    (∀ it ∈ items, itemKey it = some k → ∃ r ty c pos, it = .useSaved s r ty c pos) →
    (∀ it ∈ items, it ≠ .bump s) → st.regs s ≤ st.cnt →
    (levelStamps k st items).Pairwise (· ≤ ·) ∧ ∀ x ∈ levelStamps k st items, st.regs s ≤ x := by
  intro items
  induction items with
  | nil => intro st _ _ _; simp [levelStamps]
  | cons it rest ih =>
    intro st h hb hinv
    have hr : ∀ it ∈ rest, itemKey it = some k → ∃ r ty c pos, it = .useSaved s r ty c pos :=
      fun x hx => h x (by simp [hx])
    have hbr : ∀ it ∈ rest, it ≠ .bump s := fun x hx => hb x (by simp [hx])
    cases it with
    | use r ty c pos =>
      have hk : (r, ty) ≠ k := by
        intro e
        obtain ⟨_, _, _, _, e'⟩ := h (.use r ty c pos) (by simp) (by simp [itemKey, e])
        cases e'
      simpa [levelStamps, hk] using ih st hr hbr hinv
    | useSaved s' r ty c pos =>
      have := ih st hr hbr hinv
      simp only [levelStamps]
      split
      · rename_i hk
        obtain ⟨_, _, _, _, e'⟩ := h (.useSaved s' r ty c pos) (by simp) (by simp [itemKey, hk])
        cases e'
        simp only [List.singleton_append, List.pairwise_cons, List.mem_cons]
        exact ⟨⟨this.2, this.1⟩, fun x hx => by rcases hx with rfl | hx; exact Nat.le_refl _; exact this.2 x hx⟩
      · simpa using this
    | inc =>
      have := ih { st with cnt := st.cnt + 1 } hr hbr (by simp; omega)
      simpa [levelStamps] using this
    | save s' =>
      by_cases hs : s' = s
      · subst hs
        have := ih { st with regs := upd st.regs s' st.cnt } hr hbr (by simp [upd_same])
        simp only [levelStamps]
        refine ⟨this.1, fun x hx => ?_⟩
        have := this.2 x hx
        simp only [upd_same] at this
        omega
      · have := ih { st with regs := upd st.regs s' st.cnt } hr hbr
          (by simp [upd_other _ _ _ _ (Ne.symm hs)]; exact hinv)
        simpa [levelStamps, upd_other _ _ _ _ (Ne.symm hs)] using this
    | bump s' =>
      have hs : s' ≠ s := by intro e; exact hb (.bump s') (by simp) (by rw [e])
      have := ih { st with regs := upd st.regs s' (st.regs s' + 1) } hr hbr
        (by simp [upd_other _ _ _ _ (Ne.symm hs)]; exact hinv)
      simpa [levelStamps, upd_other _ _ _ _ (Ne.symm hs)] using this
    | sub x => simpa [levelStamps] using ih st hr hbr hinv

end

/-! ### what the sources emit -/

/-- a source only increments the counter, uses keys from `plain` directly and keys from `saved`
    through its own saved copy (slot 1) -/
def SrcItem (plain saved : List Key) : Item PEmpty → Prop
  | .use r ty _ _ => (r, ty) ∈ plain
  | .useSaved s r ty _ _ => s = 1 ∧ (r, ty) ∈ saved
  | .inc => True
  | .save s => s = 1
  | .bump _ => False
  | .sub _ => False

def SrcSteps {β : Type} (plain saved : List Key) (steps : List (Step β)) : Prop :=
  ∀ i, Step.emit i ∈ steps → SrcItem plain saved i

theorem SrcSteps.tail {β : Type} {plain saved : List Key} {x : Step β} {steps : List (Step β)}
    (h : SrcSteps plain saved (x :: steps)) : SrcSteps plain saved steps :=
  fun i hi => h i (by simp [hi])

theorem SrcSteps.map {β γ : Type} {plain saved : List Key} {steps : List (Step β)} (f : Int → β → γ)
    (h : SrcSteps plain saved steps) :
    SrcSteps plain saved (steps.map (fun s => match s with | .emit i => .emit i | .yield c p => .yield c (f c p))) := by
  intro i hi
  obtain ⟨s, hs, e⟩ := List.mem_map.1 hi
  cases s with
  | emit j => simp at e; subst e; exact h j hs
  | yield c p => simp at e

theorem optUse_src (t : Bool) (rank ty : String) (c : Int) (pos : Nat) (plain saved : List Key)
    (hk : (rank, ty) ∈ plain) : ∀ i ∈ optUse t rank ty c pos, SrcItem plain saved i := by
  intro i hi
  unfold optUse at hi
  split at hi
  · simp at hi; subst hi; exact hk
  · simp at hi

theorem andSteps_src {α β : Type} (rank tyA tyB : String) (ta tb : Bool) (ap bp : List Nat) (a : Fib Int α) (b : Fib Int β) :
    SrcSteps [(rank, tyA), (rank, tyB)] [] (andSteps rank tyA tyB ta tb ap bp a b) := by
  have hA : (rank, tyA) ∈ [(rank, tyA), (rank, tyB)] := by simp
  have hB : (rank, tyB) ∈ [(rank, tyA), (rank, tyB)] := by simp
  fun_induction andSteps rank tyA tyB ta tb ap bp a b with
  | case1 => intro i hi; simp at hi; subst hi; trivial
  | case2 ap _ ca _ _ =>
    intro i hi
    simp only [List.mem_append, List.mem_map, List.mem_singleton, Step.emit.injEq] at hi
    rcases hi with ⟨j, hj, rfl⟩ | rfl
    · exact optUse_src _ _ _ _ _ _ _ hA j hj
    · trivial
  | case3 _ bp cb _ _ =>
    intro i hi
    simp only [List.mem_append, List.mem_map, List.mem_singleton, Step.emit.injEq] at hi
    rcases hi with ⟨j, hj, rfl⟩ | rfl
    · exact optUse_src _ _ _ _ _ _ _ hB j hj
    · trivial
  | case4 ap bp ca pa ra pb rb ih =>
    intro i hi
    simp only [List.mem_append, List.mem_map, List.mem_cons, Step.emit.injEq, reduceCtorEq, false_or] at hi
    rcases hi with ⟨j, hj, rfl⟩ | hi
    · rcases hj with hj | hj
      · exact optUse_src _ _ _ _ _ _ _ hA j hj
      · exact optUse_src _ _ _ _ _ _ _ hB j hj
    · exact ih i hi
  | case5 ap bp ca pa ra cb pb rb hne hlt ih =>
    intro i hi
    simp only [List.mem_append, List.mem_map, List.mem_cons, Step.emit.injEq] at hi
    rcases hi with ⟨j, hj, rfl⟩ | rfl | hi
    · exact optUse_src _ _ _ _ _ _ _ hA j hj
    · trivial
    · exact ih i hi
  | case6 ap bp ca pa ra cb pb rb hne hlt ih =>
    intro i hi
    simp only [List.mem_append, List.mem_map, List.mem_cons, Step.emit.injEq] at hi
    rcases hi with ⟨j, hj, rfl⟩ | rfl | hi
    · exact optUse_src _ _ _ _ _ _ _ hB j hj
    · trivial
    · exact ih i hi

theorem pullStep_mem {β : Type} : ∀ (r : List (Step β)),
    (∀ i ∈ (pullStep r).1, Step.emit i ∈ r) ∧ (∀ s ∈ (pullStep r).2.2, s ∈ r)
  | [] => by simp [pullStep]
  | .emit i :: r => by
    obtain ⟨h1, h2⟩ := pullStep_mem r
    constructor
    · intro j hj
      simp only [pullStep, List.mem_cons] at hj
      rcases hj with rfl | hj
      · simp
      · simp [h1 j hj]
    · intro s hs
      simp only [pullStep] at hs
      simp [h2 s hs]
  | .yield c p :: r => by
    constructor
    · intro j hj; simp [pullStep] at hj
    · intro s hs; simp only [pullStep] at hs; simp [hs]

/-- `and_iterator` over a call-free left operand and a lazy right operand: its own uses, increments, and
    whatever the right operand calls -/
theorem andStream_src {α β : Type} (rank tyA tyB : String) (ta tb : Bool) (P : List Key)
    (hA : (rank, tyA) ∈ P) (hB : (rank, tyB) ∈ P) (ap bp : Nat) (a : Fib Int α) (cur : Option (Int × β))
    (rest : List (Step β)) (hrest : ∀ i, Step.emit i ∈ rest → SrcItem P [] i) :
    SrcSteps P [] (andStream rank tyA tyB ta tb ap bp a cur rest) := by
  fun_induction andStream rank tyA tyB ta tb ap bp a cur rest with
  | case1 => intro i hi; simp at hi; subst hi; trivial
  | case2 =>
    intro i hi
    simp only [List.mem_append, List.mem_map, List.mem_singleton, Step.emit.injEq] at hi
    rcases hi with ⟨j, hj, rfl⟩ | rfl
    · exact optUse_src _ _ _ _ _ _ _ hA j hj
    · trivial
  | case3 =>
    intro i hi
    simp only [List.mem_append, List.mem_map, List.mem_singleton, Step.emit.injEq] at hi
    rcases hi with ⟨j, hj, rfl⟩ | rfl
    · exact optUse_src _ _ _ _ _ _ _ hB j hj
    · trivial
  | case4 ap bp xa ra ca xb rest ih =>
    have hp := pullStep_mem rest
    intro i hi
    simp only [List.mem_append, List.mem_map, List.mem_cons, Step.emit.injEq, reduceCtorEq, false_or] at hi
    rcases hi with ⟨j, hj, rfl⟩ | ⟨j, hj, rfl⟩ | hi
    · rcases hj with hj | hj
      · exact optUse_src _ _ _ _ _ _ _ hA j hj
      · exact optUse_src _ _ _ _ _ _ _ hB j hj
    · exact hrest j (hp.1 j hj)
    · exact ih (fun j hj => hrest j (hp.2 _ hj)) i hi
  | case5 ap bp ca xa ra cb xb rest hne hlt ih =>
    intro i hi
    simp only [List.mem_append, List.mem_map, List.mem_cons, Step.emit.injEq] at hi
    rcases hi with ⟨j, hj, rfl⟩ | rfl | hi
    · exact optUse_src _ _ _ _ _ _ _ hA j hj
    · trivial
    · exact ih hrest i hi
  | case6 ap bp ca xa ra cb xb rest hne hlt ih =>
    have hp := pullStep_mem rest
    intro i hi
    simp only [List.mem_append, List.mem_map, List.mem_cons, Step.emit.injEq] at hi
    rcases hi with ⟨j, hj, rfl⟩ | rfl | ⟨j, hj, rfl⟩ | hi
    · exact optUse_src _ _ _ _ _ _ _ hB j hj
    · trivial
    · exact hrest j (hp.1 j hj)
    · exact ih (fun j hj => hrest j (hp.2 _ hj)) i hi

theorem SrcSteps.mono {β : Type} {P Q S : List Key} {steps : List (Step β)} (h : SrcSteps P S steps)
    (hPQ : ∀ k ∈ P, k ∈ Q) : SrcSteps Q S steps := by
  intro i hi
  have := h i hi
  cases i with
  | use r ty c pos => exact hPQ _ this
  | useSaved s r ty c pos => exact this
  | inc => trivial
  | save s => exact this
  | bump s => exact this
  | sub x => exact this

theorem lfSteps_src {α β : Type} (rankA rankB tyA tyB : String) (ta : Bool) (dfl : β) (b : Fib Int β) :
    ∀ (a : Fib Int α) (i : List Nat),
      SrcSteps [(rankA, tyA), (rankB, tyB)] [] (lfSteps rankA rankB tyA tyB ta dfl b i a) := by
  intro a
  induction a with
  | nil => intro i j hj; simp [lfSteps] at hj
  | cons e rest ih =>
    intro i j hj
    obtain ⟨c, p⟩ := e
    simp only [lfSteps, List.mem_append, List.mem_map, List.mem_cons, Step.emit.injEq, reduceCtorEq, false_or] at hj
    rcases hj with ⟨x, hx, rfl⟩ | rfl | hj
    · exact optUse_src _ _ _ _ _ _ _ (by simp) x hx
    · show (rankB, tyB) ∈ _; simp
    · exact ih i.tail j hj

theorem projLoop_src {α : Type} (srcRank ty : String) (t : Bool) (off : Int) (lo hi : Option Int) :
    ∀ (a : Fib Int α) (j : List Nat), SrcSteps [] [(srcRank, ty)] (projLoop srcRank ty t off lo hi j a) := by
  intro a
  induction a with
  | nil => intro j i hm; simp [projLoop] at hm
  | cons e rest ih =>
    intro j i hm
    obtain ⟨oc, p⟩ := e
    by_cases h1 : aboveHi hi (oc + off) = true
    · simp [projLoop, h1] at hm
    · by_cases h2 : inLo lo (oc + off) = true
      · simp only [projLoop, h1, h2, if_true, Bool.false_eq_true, if_false, List.mem_cons, reduceCtorEq,
          List.mem_append, false_or] at hm
        rcases hm with hm | hm
        · cases t with
          | false => simp at hm
          | true =>
            simp only [if_true, List.mem_cons, Step.emit.injEq, List.not_mem_nil, or_false] at hm
            rcases hm with rfl | rfl
            · exact ⟨rfl, by simp⟩
            · rfl
        · exact ih j.tail i hm
      · simp only [projLoop, h1, h2, if_false, Bool.false_eq_true] at hm
        exact ih j.tail i hm

theorem projSteps_src {α : Type} (srcRank ty : String) (t : Bool) (off : Int) (lo hi : Option Int) (pa : List Nat) (a : Fib Int α) :
    SrcSteps [] [(srcRank, ty)] (projSteps srcRank ty t off lo hi pa a) := by
  intro i hm
  simp only [projSteps, List.mem_cons, Step.emit.injEq] at hm
  rcases hm with rfl | hm
  · rfl
  · exact projLoop_src srcRank ty t off lo hi a pa i hm

/-! ### lifting source items into a consumer -/

section
variable {σ : Type}

theorem itemKey_lift (i : Item PEmpty) : itemKey (i.lift : Item σ) = itemKey i := by
  cases i with
  | sub x => exact nomatch x
  | _ => rfl

theorem isSaved_lift (i : Item PEmpty) : isSaved (i.lift : Item σ) = isSaved i := by
  cases i with
  | sub x => exact nomatch x
  | _ => rfl

theorem isSub_lift (i : Item PEmpty) : isSub (i.lift : Item σ) = false := by
  cases i with
  | sub x => exact nomatch x
  | _ => rfl

theorem SrcItem.key {plain saved : List Key} {i : Item PEmpty} (h : SrcItem plain saved i) (k : Key)
    (hk : itemKey i = some k) : (isSaved i = false ∧ k ∈ plain) ∨ (isSaved i = true ∧ k ∈ saved ∧
      ∃ r ty c pos, i = .useSaved 1 r ty c pos) := by
  cases i with
  | use r ty c pos => simp [itemKey] at hk; subst hk; exact Or.inl ⟨rfl, h⟩
  | useSaved s r ty c pos =>
    simp [itemKey] at hk; subst hk
    obtain ⟨rfl, h2⟩ := h
    exact Or.inr ⟨rfl, h2, r, ty, c, pos, rfl⟩
  | inc => simp [itemKey] at hk
  | save s => simp [itemKey] at hk
  | bump s => simp [itemKey] at hk
  | sub x => exact nomatch x

theorem SrcItem.not_bump {plain saved : List Key} {i : Item PEmpty} (h : SrcItem plain saved i) (s : Nat) :
    (i.lift : Item σ) ≠ .bump s := by
  cases i with
  | bump s' => exact h.elim
  | sub x => exact nomatch x
  | _ => simp [Item.lift]

end

/-! ### `iterRange` over a lazy fiber -/

section
variable {σ S β : Type}

/-- every item of a lazily consumed source is the consumer's own use / body / increment, or one of
    the source's items -/
theorem lazyItems_mem (rank : String) (body : S → Int → β → S × σ) :
    ∀ (steps : List (Step β)) (s : S) (j : Nat) (it : Item σ), it ∈ (lazyItems rank body s j steps).2 →
      (∃ c j', it = .use rank "iter" c j') ∨ (∃ s' c p, it = .sub (body s' c p).2) ∨ it = .inc ∨
      (∃ i, Step.emit i ∈ steps ∧ it = i.lift) := by
  intro steps
  induction steps with
  | nil => intro s j it h; simp [lazyItems] at h
  | cons x rest ih =>
    intro s j it h
    cases x with
    | emit i =>
      simp only [lazyItems, List.mem_cons] at h
      rcases h with rfl | h
      · exact Or.inr (Or.inr (Or.inr ⟨i, by simp, rfl⟩))
      · rcases ih _ _ it h with h | h | h | ⟨i', hi, e⟩
        · exact Or.inl h
        · exact Or.inr (Or.inl h)
        · exact Or.inr (Or.inr (Or.inl h))
        · exact Or.inr (Or.inr (Or.inr ⟨i', by simp [hi], e⟩))
    | yield c p =>
      simp only [lazyItems, List.mem_cons] at h
      rcases h with rfl | rfl | rfl | h
      · exact Or.inl ⟨c, j, rfl⟩
      · exact Or.inr (Or.inl ⟨s, c, p, rfl⟩)
      · exact Or.inr (Or.inr (Or.inl rfl))
      · rcases ih _ _ it h with h | h | h | ⟨i', hi, e⟩
        · exact Or.inl h
        · exact Or.inr (Or.inl h)
        · exact Or.inr (Or.inr (Or.inl h))
        · exact Or.inr (Or.inr (Or.inr ⟨i', by simp [hi], e⟩))

theorem lazyItems_sep (rank : String) (body : S → Int → β → S × σ) :
    ∀ (steps : List (Step β)) (s : S) (j : Nat), sepB true (lazyItems rank body s j steps).2 = true := by
  intro steps
  induction steps with
  | nil => intro s j; rfl
  | cons x rest ih =>
    intro s j
    cases x with
    | emit i =>
      simp only [lazyItems]
      cases i with
      | sub x => exact nomatch x
      | inc => simpa [Item.lift, sepB] using ih s j
      | use r ty c pos => simpa [Item.lift, sepB] using ih s j
      | useSaved s' r ty c pos => simpa [Item.lift, sepB] using ih s j
      | save s' => simpa [Item.lift, sepB] using ih s j
      | bump s' => simpa [Item.lift, sepB] using ih s j
    | yield c p => simpa [lazyItems, sepB] using ih _ _

theorem lazyItems_subs (rank : String) (body : S → Int → β → S × σ) (steps : List (Step β)) (s : S) (j : Nat) :
    ∀ x ∈ subsOf (lazyItems rank body s j steps).2, ∃ s' c p, x = (body s' c p).2 := by
  intro x hx
  have : Item.sub x ∈ (lazyItems rank body s j steps).2 := by
    generalize (lazyItems rank body s j steps).2 = items at hx
    induction items with
    | nil => simp [subsOf] at hx
    | cons it rest ih =>
      cases it with
      | sub y =>
        simp only [subsOf, List.mem_cons] at hx
        rcases hx with rfl | hx
        · simp
        · simp [ih hx]
      | _ => simp only [subsOf] at hx; simp [ih hx]
  rcases lazyItems_mem rank body steps s j _ this with ⟨c, j', e⟩ | ⟨s', c, p, e⟩ | e | ⟨i, _, e⟩
  · cases e
  · simp at e; exact ⟨s', c, p, e⟩
  · cases e
  · exfalso
    have := isSub_lift (σ := σ) i
    rw [← e] at this
    simp [isSub] at this

/-- the consumer's own key is strictly stamped: the source does not use it -/
theorem lazyItems_strict (rank : String) (body : S → Int → β → S × σ) (plain saved : List Key)
    (hp : (rank, "iter") ∉ plain) (hs : (rank, "iter") ∉ saved) :
    ∀ (steps : List (Step β)) (s : S) (j : Nat), SrcSteps plain saved steps →
      strictOKB (rank, "iter") true (lazyItems rank body s j steps).2 = true := by
  intro steps
  induction steps with
  | nil => intro s j _; rfl
  | cons x rest ih =>
    intro s j hsrc
    cases x with
    | emit i =>
      have hi := hsrc i (by simp)
      simp only [lazyItems]
      cases i with
      | sub x => exact nomatch x
      | inc => simpa [Item.lift, strictOKB] using ih s j hsrc.tail
      | use r ty c pos =>
        have : (r, ty) ≠ (rank, "iter") := by intro e; exact hp (e ▸ hi)
        simpa [Item.lift, strictOKB, this] using ih s j hsrc.tail
      | useSaved s' r ty c pos =>
        have : (r, ty) ≠ (rank, "iter") := by intro e; exact hs (e ▸ hi.2)
        simpa [Item.lift, strictOKB, this] using ih s j hsrc.tail
      | save s' => simpa [Item.lift, strictOKB] using ih s j hsrc.tail
      | bump s' => exact hi.elim
    | yield c p => simpa [lazyItems, strictOKB] using ih _ _ hsrc.tail

end

/-- the order the property asks of the level stamps of key `k`: strict for `iter` -/
def LevelSorted {σ : Type} (k : Key) (items : List (Item σ)) : Prop :=
  chainB (if k.2 == "iter" then ltB else leB) (levelStamps k {} items) = true

theorem levelSorted_of_le {σ : Type} (k : Key) (items : List (Item σ)) (hk : k.2 ≠ "iter")
    (h : (levelStamps k {} items).Pairwise (· ≤ ·)) : LevelSorted k items := by
  unfold LevelSorted
  have : (k.2 == "iter") = false := by simpa using hk
  rw [this]
  apply chainB_of_pairwise
  exact h.imp (fun hab => by simpa [leB] using hab)

theorem levelSorted_of_lt {σ : Type} (k : Key) (items : List (Item σ))
    (h : (levelStamps k {} items).Pairwise (· < ·)) : LevelSorted k items := by
  unfold LevelSorted
  split
  · apply chainB_of_pairwise
    exact h.imp (fun hab => by simpa [ltB] using hab)
  · apply chainB_of_pairwise
    exact h.imp (fun hab => by simp [leB]; omega)

theorem levelSorted_of_nil {σ : Type} (k : Key) (items : List (Item σ))
    (h : levelStamps k {} items = []) : LevelSorted k items := by
  unfold LevelSorted; rw [h]; rfl

section
variable {σ S β : Type}

/-- a lazily consumed source: every key comes out sorted (the consumer's `iter` strictly) -/
theorem lazyItems_sorted (rank : String) (body : S → Int → β → S × σ) (plain saved : List Key)
    (hty : ∀ k ∈ plain ++ saved, k.2 ≠ "iter") (hdisj : ∀ k ∈ saved, k ∉ plain)
    (steps : List (Step β)) (s : S) (j : Nat) (hsrc : SrcSteps plain saved steps) (k : Key) :
    LevelSorted k (lazyItems rank body s j steps).2 := by
  have hmem := lazyItems_mem rank body steps s j
  by_cases hit : k.2 = "iter"
  · by_cases hr : k.1 = rank
    · have hk : k = (rank, "iter") := by cases k; simp_all
      subst hk
      have hp : (rank, "iter") ∉ plain := fun h => hty (rank, "iter") (List.mem_append.2 (Or.inl h)) rfl
      have hs : (rank, "iter") ∉ saved := fun h => hty (rank, "iter") (List.mem_append.2 (Or.inr h)) rfl
      exact levelSorted_of_lt _ _
        (levelStamps_strict _ _ {} true (lazyItems_strict rank body plain saved hp hs steps s j hsrc)).1
    · apply levelSorted_of_nil
      apply levelStamps_nokey
      intro it hi hkey
      rcases hmem it hi with ⟨c, j', e⟩ | ⟨s', c, p, e⟩ | e | ⟨i, hi', e⟩
      · subst e; simp [itemKey] at hkey; exact hr (by rw [← hkey])
      · subst e; simp [itemKey] at hkey
      · subst e; simp [itemKey] at hkey
      · subst e
        rw [itemKey_lift] at hkey
        rcases (hsrc i hi').key k hkey with ⟨_, h⟩ | ⟨_, h, _⟩
        · exact hty k (by simp [h]) hit
        · exact hty k (by simp [h]) hit
  · by_cases hsv : k ∈ saved
    · -- only used through the source's saved copy
      apply levelSorted_of_le _ _ hit
      refine (levelStamps_saved k 1 _ {} ?_ ?_ (Nat.le_refl _)).1
      · intro it hi hkey
        rcases hmem it hi with ⟨c, j', e⟩ | ⟨s', c, p, e⟩ | e | ⟨i, hi', e⟩
        · subst e; simp [itemKey] at hkey; exact absurd (by rw [← hkey]) hit
        · subst e; simp [itemKey] at hkey
        · subst e; simp [itemKey] at hkey
        · subst e
          rw [itemKey_lift] at hkey
          rcases (hsrc i hi').key k hkey with ⟨_, h⟩ | ⟨_, _, r, ty, c, pos, e⟩
          · exact absurd h (hdisj k hsv)
          · subst e; exact ⟨r, ty, c, pos, rfl⟩
      · intro it hi
        rcases hmem it hi with ⟨c, j', e⟩ | ⟨s', c, p, e⟩ | e | ⟨i, hi', e⟩
        · subst e; simp
        · subst e; simp
        · subst e; simp
        · subst e; exact (hsrc i hi').not_bump 1
    · apply levelSorted_of_le _ _ hit
      refine (levelStamps_plain k _ {} ?_).1
      intro it hi hsaved hkey
      rcases hmem it hi with ⟨c, j', e⟩ | ⟨s', c, p, e⟩ | e | ⟨i, hi', e⟩
      · subst e; simp [isSaved] at hsaved
      · subst e; simp [isSaved] at hsaved
      · subst e; simp [isSaved] at hsaved
      · subst e
        rw [itemKey_lift] at hkey
        rw [isSaved_lift] at hsaved
        rcases (hsrc i hi').key k hkey with ⟨h, _⟩ | ⟨_, h, _⟩
        · rw [h] at hsaved; cases hsaved
        · exact hsv h

theorem lazyItems_ranks (rank : String) (body : S → Int → β → S × σ) (plain saved : List Key)
    (steps : List (Step β)) (s : S) (j : Nat) (hsrc : SrcSteps plain saved steps) :
    ∀ it ∈ (lazyItems rank body s j steps).2, ∀ k, itemKey it = some k →
      k.1 = rank ∨ k ∈ plain ++ saved := by
  intro it hi k hkey
  rcases lazyItems_mem rank body steps s j it hi with ⟨c, j', e⟩ | ⟨s', c, p, e⟩ | e | ⟨i, hi', e⟩
  · subst e; simp [itemKey] at hkey; exact Or.inl (by rw [← hkey])
  · subst e; simp [itemKey] at hkey
  · subst e; simp [itemKey] at hkey
  · subst e
    rw [itemKey_lift] at hkey
    rcases (hsrc i hi').key k hkey with ⟨_, h⟩ | ⟨_, h, _⟩
    · exact Or.inr (by simp [h])
    · exact Or.inr (by simp [h])

end

/-! ### `iterRange` over a concrete fiber -/

section
variable {σ S π : Type}

theorem iterItems_mem (rank : String) (emptyP : π → Bool) (body : S → Int → π → S × σ) :
    ∀ (f : Fib Int π) (s : S) (j : Nat) (it : Item σ), it ∈ (iterItems rank emptyP body s j f).2 →
      (∃ c j', it = .use rank "iter" c j') ∨ (∃ s' c p, it = .sub (body s' c p).2) ∨ it = .inc := by
  intro f
  induction f with
  | nil => intro s j it h; simp [iterItems] at h
  | cons e rest ih =>
    intro s j it h
    obtain ⟨c, p⟩ := e
    simp only [iterItems] at h
    split at h
    · exact ih _ _ it h
    · simp only [List.mem_cons] at h
      rcases h with rfl | rfl | rfl | h
      · exact Or.inl ⟨c, j, rfl⟩
      · exact Or.inr (Or.inl ⟨s, c, p, rfl⟩)
      · exact Or.inr (Or.inr rfl)
      · exact ih _ _ it h

/-- a concrete fiber is a lazily consumed source without emissions -/
theorem iterItems_eq_lazy (rank : String) (emptyP : π → Bool) (body : S → Int → π → S × σ) :
    ∀ (f : Fib Int π) (s : S) (j : Nat),
      ∃ (steps : List (Step π)) , SrcSteps [] [] steps ∧
        sepB true (iterItems rank emptyP body s j f).2 = true ∧
        strictOKB (rank, "iter") true (iterItems rank emptyP body s j f).2 = true := by
  intro f
  induction f with
  | nil => intro s j; exact ⟨[], fun i h => by simp at h, rfl, rfl⟩
  | cons e rest ih =>
    intro s j
    obtain ⟨c, p⟩ := e
    simp only [iterItems]
    split
    · exact ih _ _
    · obtain ⟨steps, h1, h2, h3⟩ := ih (body s c p).1 (j + 1)
      exact ⟨steps, h1, by simpa [sepB] using h2, by simpa [strictOKB] using h3⟩

theorem iterItems_subs (rank : String) (emptyP : π → Bool) (body : S → Int → π → S × σ) (f : Fib Int π) (s : S) (j : Nat) :
    ∀ x ∈ subsOf (iterItems rank emptyP body s j f).2, ∃ s' c p, x = (body s' c p).2 := by
  intro x hx
  have : Item.sub x ∈ (iterItems rank emptyP body s j f).2 := by
    generalize (iterItems rank emptyP body s j f).2 = items at hx
    induction items with
    | nil => simp [subsOf] at hx
    | cons it rest ih =>
      cases it with
      | sub y =>
        simp only [subsOf, List.mem_cons] at hx
        rcases hx with rfl | hx
        · simp
        · simp [ih hx]
      | _ => simp only [subsOf] at hx; simp [ih hx]
  rcases iterItems_mem rank emptyP body f s j _ this with ⟨c, j', e⟩ | ⟨s', c, p, e⟩ | e
  · cases e
  · simp at e; exact ⟨s', c, p, e⟩
  · cases e

theorem iterItems_sorted (rank : String) (emptyP : π → Bool) (body : S → Int → π → S × σ)
    (f : Fib Int π) (s : S) (j : Nat) (k : Key) :
    LevelSorted k (iterItems rank emptyP body s j f).2 := by
  by_cases hk : k = (rank, "iter")
  · subst hk
    obtain ⟨_, _, _, h3⟩ := iterItems_eq_lazy rank emptyP body f s j
    exact levelSorted_of_lt _ _ (levelStamps_strict _ _ {} true h3).1
  · apply levelSorted_of_nil
    apply levelStamps_nokey
    intro it hi hkey
    rcases iterItems_mem rank emptyP body f s j it hi with ⟨c, j', e⟩ | ⟨s', c, p, e⟩ | e
    · subst e; simp [itemKey] at hkey; exact hk hkey.symm
    · subst e; simp [itemKey] at hkey
    · subst e; simp [itemKey] at hkey

end

/-! ### `iterRangeShapeRef` (dense Ref loop) -/

section
variable {σ S π : Type}

theorem denseItems_mem (rank : String) (ref : Bool) (dfl : π) (f : Fib Int π) (body : S → Int → π → S × σ) :
    ∀ (n : Nat) (s : S) (c : Nat) (it : Item σ), it ∈ (denseItems rank ref dfl f body s c n).2 →
      (∃ c' pos, it = .use rank "" c' pos) ∨ (∃ s' c' p, it = .sub (body s' c' p).2) ∨ it = .inc := by
  intro n
  induction n with
  | zero => intro s c it h; simp [denseItems] at h
  | succ n ih =>
    intro s c it h
    simp only [denseItems, List.mem_append, List.mem_cons] at h
    rcases h with h | rfl | rfl | h
    · split at h
      · simp at h; subst h; exact Or.inl ⟨_, _, rfl⟩
      · simp at h
    · exact Or.inr (Or.inl ⟨_, _, _, rfl⟩)
    · exact Or.inr (Or.inr rfl)
    · exact ih _ _ it h

theorem denseItems_sep (rank : String) (ref : Bool) (dfl : π) (f : Fib Int π) (body : S → Int → π → S × σ) :
    ∀ (n : Nat) (s : S) (c : Nat), sepB true (denseItems rank ref dfl f body s c n).2 = true := by
  intro n
  induction n with
  | zero => intro s c; rfl
  | succ n ih => intro s c; cases ref <;> simpa [denseItems, sepB] using ih _ _

theorem denseItems_subs (rank : String) (ref : Bool) (dfl : π) (f : Fib Int π) (body : S → Int → π → S × σ) (n : Nat) (s : S) (c : Nat) :
    ∀ x ∈ subsOf (denseItems rank ref dfl f body s c n).2, ∃ s' c' p, x = (body s' c' p).2 := by
  intro x hx
  have : Item.sub x ∈ (denseItems rank ref dfl f body s c n).2 := by
    generalize (denseItems rank ref dfl f body s c n).2 = items at hx
    induction items with
    | nil => simp [subsOf] at hx
    | cons it rest ih =>
      cases it with
      | sub y =>
        simp only [subsOf, List.mem_cons] at hx
        rcases hx with rfl | hx
        · simp
        · simp [ih hx]
      | _ => simp only [subsOf] at hx; simp [ih hx]
  rcases denseItems_mem rank ref dfl f body n s c _ this with ⟨c', pos, e⟩ | ⟨s', c', p, e⟩ | e
  · cases e
  · simp at e; exact ⟨s', c', p, e⟩
  · cases e

/-- the only key a dense Ref loop touches is the untraceable `(rank, None)`, used plainly -/
theorem denseItems_sorted (rank : String) (ref : Bool) (dfl : π) (f : Fib Int π) (body : S → Int → π → S × σ)
    (n : Nat) (s : S) (c : Nat) (k : Key) : LevelSorted k (denseItems rank ref dfl f body s c n).2 := by
  by_cases hit : k.2 = "iter"
  · apply levelSorted_of_nil
    apply levelStamps_nokey
    intro it hi hkey
    rcases denseItems_mem rank ref dfl f body n s c it hi with ⟨c', pos, e⟩ | ⟨s', c', p, e⟩ | e <;> subst e <;>
      simp [itemKey] at hkey
    rw [← hkey] at hit
    simp at hit
  · apply levelSorted_of_le _ _ hit
    refine (levelStamps_plain k _ {} ?_).1
    intro it hi hsaved
    rcases denseItems_mem rank ref dfl f body n s c it hi with ⟨c', pos, e⟩ | ⟨s', c', p, e⟩ | e <;> subst e <;>
      simp [isSaved] at hsaved

end

/-! ### `z << src`: the destination-side keys -/

section
variable {σ : Type}

theorem advance_cnt_le : ∀ (items : List (Item σ)) (st : LSt), st.cnt ≤ (advance st items).cnt := by
  intro items
  induction items with
  | nil => intro st; exact Nat.le_refl _
  | cons it rest ih =>
    intro st
    cases it with
    | inc => have := ih { st with cnt := st.cnt + 1 }; simp only [advance]; simp at this; omega
    | use r ty c pos => exact ih st
    | useSaved s r ty c pos => exact ih st
    | save s => exact ih { st with regs := upd st.regs s st.cnt }
    | bump s => exact ih { st with regs := upd st.regs s (st.regs s + 1) }
    | sub x => exact ih st

/-- items that only use keys directly and increment the counter -/
def PlainInc (items : List (Item σ)) : Prop :=
  ∀ it ∈ items, it = .inc ∨ ∃ r ty c pos, it = .use r ty c pos

theorem plainInc_regs : ∀ (items : List (Item σ)) (st : LSt), PlainInc items →
    (advance st items).regs = st.regs := by
  intro items
  induction items with
  | nil => intro st _; rfl
  | cons it rest ih =>
    intro st h
    have hr : PlainInc rest := fun x hx => h x (by simp [hx])
    rcases h it (by simp) with rfl | ⟨r, ty, c, pos, rfl⟩
    · simpa [advance] using ih _ hr
    · simpa [advance] using ih _ hr

/-- stamps of directly used keys never exceed the final counter -/
theorem plainInc_upper (k : Key) : ∀ (items : List (Item σ)) (st : LSt), PlainInc items →
    ∀ x ∈ levelStamps k st items, x ≤ (advance st items).cnt := by
  intro items
  induction items with
  | nil => intro st _ x hx; simp [levelStamps] at hx
  | cons it rest ih =>
    intro st h x hx
    have hr : PlainInc rest := fun y hy => h y (by simp [hy])
    rcases h it (by simp) with rfl | ⟨r, ty, c, pos, rfl⟩
    · simp only [levelStamps] at hx; simpa [advance] using ih _ hr x hx
    · simp only [levelStamps, List.mem_append] at hx
      rcases hx with hx | hx
      · split at hx
        · simp at hx; subst hx; simpa [advance] using advance_cnt_le rest st
        · simp at hx
      · simpa [advance] using ih _ hr x hx

theorem plainInc_saved (items : List (Item σ)) (h : PlainInc items) : ∀ it ∈ items, isSaved it = false := by
  intro it hi
  rcases h it hi with rfl | ⟨r, ty, c, pos, rfl⟩ <;> rfl

theorem plainInc_append {a b : List (Item σ)} (ha : PlainInc a) (hb : PlainInc b) : PlainInc (a ++ b) := by
  intro it hi
  rcases List.mem_append.1 hi with h | h
  · exact ha it h
  · exact hb it h

end

section
variable {σ π β : Type}

theorem scanReads_plain (emptyP : π → Bool) (rank ty : String) (oldEnd bc : Int) (nIns : Nat) :
    ∀ (f : Fib Int π) (k : Nat), PlainInc (scanReads (σ := σ) emptyP rank ty oldEnd bc nIns k f) ∧
      ∀ it ∈ scanReads (σ := σ) emptyP rank ty oldEnd bc nIns k f, ∀ key, itemKey it = some key → key = (rank, ty) := by
  intro f
  induction f with
  | nil => intro k; simp [scanReads, PlainInc]
  | cons e rest ih =>
    intro k
    obtain ⟨c, p⟩ := e
    simp only [scanReads]
    split
    · simp [PlainInc]
    · obtain ⟨h1, h2⟩ := ih (k + 1)
      constructor
      · apply plainInc_append _ h1
        intro it hi
        split at hi
        · simp only [List.mem_cons, List.not_mem_nil, or_false] at hi
          rcases hi with rfl | rfl
          · exact Or.inr ⟨_, _, _, _, rfl⟩
          · exact Or.inl rfl
        · simp at hi
      · intro it hi key hk
        rcases List.mem_append.1 hi with hi | hi
        · split at hi
          · simp only [List.mem_cons, List.not_mem_nil, or_false] at hi
            rcases hi with rfl | rfl
            · simpa [itemKey] using hk.symm
            · simp [itemKey] at hk
          · simp at hi
        · exact h2 it hi key hk

variable (cfg : PopCfg) (mk : π) (rm : Bool → π → Bool) (emptyP : π → Bool) (body : Int → π → β → π × σ)

theorem popPre_plain (st : PopSt π) (ins : Bool) (bc : Int) :
    PlainInc (popPre (σ := σ) cfg emptyP st ins bc) ∧
    ∀ it ∈ popPre (σ := σ) cfg emptyP st ins bc, ∀ key, itemKey it = some key →
      key = (cfg.rank, cfg.srcTy) ∨ key = (cfg.rank, cfg.readTy) := by
  unfold popPre
  obtain ⟨h1, h2⟩ := scanReads_plain (σ := σ) emptyP cfg.rank cfg.readTy st.oldEnd bc st.toInsert.length
    (st.z.drop st.apos) st.apos
  constructor
  · apply plainInc_append
    · intro it hi
      split at hi
      · simp at hi; subst hi; exact Or.inr ⟨_, _, _, _, rfl⟩
      · simp at hi
    · intro it hi
      split at hi
      · exact h1 it hi
      · simp at hi
  · intro it hi key hk
    rcases List.mem_append.1 hi with hi | hi
    · split at hi
      · simp at hi; subst hi; simp [itemKey] at hk; exact Or.inl hk.symm
      · simp at hi
    · split at hi
      · exact Or.inr (h2 it hi key hk)
      · simp at hi

theorem popRd_cases (new : Bool) (bc pos : Int) :
    popRd (σ := σ) cfg new bc pos = [] ∨ popRd (σ := σ) cfg new bc pos = [.use cfg.rank cfg.readTy bc pos] := by
  unfold popRd; split
  · exact Or.inr rfl
  · exact Or.inl rfl

theorem popPost_cases (removed : Bool) (bc wp : Int) :
    popPost (σ := σ) cfg removed bc wp = [] ∨
      popPost (σ := σ) cfg removed bc wp = [.bump 0, .useSaved 0 cfg.rank cfg.writeTy bc wp, .inc] := by
  unfold popPost; split
  · exact Or.inr rfl
  · exact Or.inl rfl

/-- what one offered element makes the iterators call, piece by piece -/
theorem popYield_items (st : PopSt π) (bc : Int) (bp : β) :
    ∃ (ins new removed : Bool) (cur : π) (rp wp : Int),
      (popYield cfg mk rm emptyP body st bc bp).2 =
        popPre cfg emptyP st ins bc ++ .save 0 :: (popRd cfg new bc rp ++
          .use cfg.rank "iter" bc st.bpos :: .sub (body bc cur bp).2 :: .inc :: popPost cfg removed bc wp) :=
  ⟨_, _, _, _, _, _, rfl⟩

/-- the trace types of a populate are pairwise different and none is `iter` -/
structure PopTypesOK (cfg : PopCfg) : Prop where
  rw : cfg.readTy ≠ cfg.writeTy
  rs : cfg.readTy ≠ cfg.srcTy
  ws : cfg.writeTy ≠ cfg.srcTy
  ri : cfg.readTy ≠ "iter"
  wi : cfg.writeTy ≠ "iter"
  si : cfg.srcTy ≠ "iter"

theorem sorted_snoc_bounds (L T : List Nat) (lo c1 hi : Nat) (hL : L.Pairwise (· ≤ ·))
    (hLb : ∀ x ∈ L, lo ≤ x ∧ x ≤ c1) (hT : ∀ t ∈ T, t = c1) (h1 : lo ≤ c1) (h2 : c1 ≤ hi) :
    (L ++ T).Pairwise (· ≤ ·) ∧ ∀ y ∈ L ++ T, lo ≤ y ∧ y ≤ hi := by
  constructor
  · rw [List.pairwise_append]
    refine ⟨hL, ?_, fun a ha b hb => by rw [hT b hb]; exact (hLb a ha).2⟩
    induction T with
    | nil => exact List.Pairwise.nil
    | cons t T ih =>
      refine List.Pairwise.cons ?_ (ih (fun x hx => hT x (by simp [hx])))
      intro b hb
      rw [hT t (by simp), hT b (by simp [hb])]
      exact Nat.le_refl _
  · intro y hy
    rcases List.mem_append.1 hy with hy | hy
    · exact ⟨(hLb y hy).1, Nat.le_trans (hLb y hy).2 h2⟩
    · rw [hT y hy]; exact ⟨h1, h2⟩

/-- one offered element, seen from a destination-side key: its stamps lie between the saved copy
    before and after the element, and the saved copy stays below the counter -/
theorem popBlock (ok : PopTypesOK cfg) (k : Key)
    (hk : k = (cfg.rank, cfg.readTy) ∨ k = (cfg.rank, cfg.writeTy))
    (pre : List (Item σ)) (hpre : PlainInc pre)
    (hprek : k = (cfg.rank, cfg.writeTy) → ∀ it ∈ pre, itemKey it ≠ some k)
    (x : σ) (new removed : Bool) (bc rp wp : Int) (j : Nat)
    (st : LSt) (hinv : st.regs 0 ≤ st.cnt) :
    (advance st (pre ++ .save 0 :: (popRd cfg new bc rp ++
        .use cfg.rank "iter" bc j :: .sub x :: .inc :: popPost cfg removed bc wp))).regs 0 ≤
      (advance st (pre ++ .save 0 :: (popRd cfg new bc rp ++
        .use cfg.rank "iter" bc j :: .sub x :: .inc :: popPost cfg removed bc wp))).cnt ∧
    (levelStamps k st (pre ++ .save 0 :: (popRd cfg new bc rp ++
        .use cfg.rank "iter" bc j :: .sub x :: .inc :: popPost cfg removed bc wp))).Pairwise (· ≤ ·) ∧
    ∀ y ∈ levelStamps k st (pre ++ .save 0 :: (popRd cfg new bc rp ++
        .use cfg.rank "iter" bc j :: .sub x :: .inc :: popPost cfg removed bc wp)),
      st.regs 0 ≤ y ∧ y ≤ (advance st (pre ++ .save 0 :: (popRd cfg new bc rp ++
        .use cfg.rank "iter" bc j :: .sub x :: .inc :: popPost cfg removed bc wp))).regs 0 := by
  have hA := levelStamps_plain k pre st (fun it hi hs => by rw [plainInc_saved pre hpre it hi] at hs; cases hs)
  have hU := plainInc_upper k pre st hpre
  have hR := plainInc_regs pre st hpre
  have hC := advance_cnt_le pre st
  have hi1 : (cfg.rank, "iter") ≠ k := by
    rcases hk with rfl | rfl
    · intro e; exact ok.ri (by simpa using e.symm)
    · intro e; exact ok.wi (by simpa using e.symm)
  generalize hc1 : (advance st pre).cnt = c1 at *
  have hLb : ∀ y ∈ levelStamps k st pre, st.regs 0 ≤ y ∧ y ≤ c1 :=
    fun y hy => ⟨Nat.le_trans hinv (hA.2 y hy), hU y hy⟩
  rcases hk with rfl | rfl
  · -- the read key
    have hw : (cfg.rank, cfg.writeTy) ≠ (cfg.rank, cfg.readTy) := by
      intro e; exact ok.rw (by simpa using e.symm)
    rcases popRd_cases (σ := σ) cfg new bc rp with e1 | e1 <;>
    rcases popPost_cases (σ := σ) cfg removed bc wp with e2 | e2 <;>
    rw [e1, e2] <;>
    simp only [levelStamps_append, advance_append, levelStamps, advance, List.nil_append, List.append_nil,
      List.cons_append, hi1, hw, if_false, if_true, hR, hc1, upd_same] <;>
    refine ⟨by omega, ?_⟩
    · simpa using sorted_snoc_bounds _ [] (st.regs 0) c1 c1 hA.1 hLb (by simp) (by omega) (by omega)
    · simpa using sorted_snoc_bounds _ [] (st.regs 0) c1 (c1 + 1) hA.1 hLb (by simp) (by omega) (by omega)
    · exact sorted_snoc_bounds _ [c1] (st.regs 0) c1 c1 hA.1 hLb (by simp) (by omega) (by omega)
    · exact sorted_snoc_bounds _ [c1] (st.regs 0) c1 (c1 + 1) hA.1 hLb (by simp) (by omega) (by omega)
  · -- the write key
    have hr : (cfg.rank, cfg.readTy) ≠ (cfg.rank, cfg.writeTy) := by
      intro e; exact ok.rw (by simpa using e)
    have hnil : levelStamps (cfg.rank, cfg.writeTy) st pre = [] := levelStamps_nokey _ pre st (hprek rfl)
    rcases popRd_cases (σ := σ) cfg new bc rp with e1 | e1 <;>
    rcases popPost_cases (σ := σ) cfg removed bc wp with e2 | e2 <;>
    rw [e1, e2] <;>
    simp only [levelStamps_append, advance_append, levelStamps, advance, List.nil_append, List.append_nil,
      List.cons_append, hi1, hr, if_false, if_true, hR, hc1, upd_same, hnil] <;>
    refine ⟨by omega, ?_⟩
    · simp
    · simp; omega
    · simp
    · simp; omega

/-- the move phase: every round bumps the saved copy first -/
theorem moveLoop_dest (k : Key) (zlen : Nat) :
    ∀ (els : List Int) (i : Nat) (ti : List Int) (st : LSt),
      (levelStamps k st (moveLoop (σ := σ) cfg zlen i ti els)).Pairwise (· ≤ ·) ∧
      ∀ y ∈ levelStamps k st (moveLoop (σ := σ) cfg zlen i ti els), st.regs 0 ≤ y := by
  intro els
  induction els with
  | nil => intro i ti st; simp [moveLoop, levelStamps]
  | cons c rest ih =>
    intro i ti st
    simp only [moveLoop, levelStamps, levelStamps_append]
    generalize hst' : ({ st with regs := upd st.regs 0 (st.regs 0 + 1) } : LSt) = st'
    have hr : st'.regs 0 = st.regs 0 + 1 := by subst hst'; simp [upd_same]
    -- the two optional uses do not change the local state
    have hadv : ∀ (l : List (Item σ)), (∀ it ∈ l, ∃ r ty c pos, it = .useSaved 0 r ty c pos) → advance st' l = st' := by
      intro l
      induction l with
      | nil => intro _; rfl
      | cons it l ihl =>
        intro h
        obtain ⟨r, ty, c, pos, e⟩ := h it (by simp)
        subst e
        simpa [advance] using ihl (fun x hx => h x (by simp [hx]))
    have hstamps : ∀ (l : List (Item σ)), (∀ it ∈ l, ∃ r ty c pos, it = .useSaved 0 r ty c pos) →
        ∀ y ∈ levelStamps k st' l, y = st.regs 0 + 1 := by
      intro l
      induction l with
      | nil => intro _ y hy; simp [levelStamps] at hy
      | cons it l ihl =>
        intro h y hy
        obtain ⟨r, ty, c, pos, e⟩ := h it (by simp)
        subst e
        simp only [levelStamps, List.mem_append] at hy
        rcases hy with hy | hy
        · split at hy
          · simp at hy; rw [hy, hr]
          · simp at hy
        · exact ihl (fun x hx => h x (by simp [hx])) y hy
    have h1 : ∀ it ∈ (if cfg.trR = true then [Item.useSaved (σ := σ) 0 cfg.rank cfg.readTy c
        (if decide (ti.getLast? = some c) = true then cfg.insertPos + ↑ti.length - 1 else ↑zlen - ↑i - 1 - ↑ti.length)] else []),
        ∃ r ty c pos, it = Item.useSaved (σ := σ) 0 r ty c pos := by
      intro it hi; split at hi
      · simp at hi; exact ⟨_, _, _, _, hi⟩
      · simp at hi
    have h2 : ∀ it ∈ (if cfg.trW = true then [Item.useSaved (σ := σ) 0 cfg.rank cfg.writeTy c (↑zlen - ↑i - 1)] else []),
        ∃ r ty c pos, it = Item.useSaved (σ := σ) 0 r ty c pos := by
      intro it hi; split at hi
      · simp at hi; exact ⟨_, _, _, _, hi⟩
      · simp at hi
    have h12 : ∀ it ∈ (if cfg.trR = true then [Item.useSaved (σ := σ) 0 cfg.rank cfg.readTy c
        (if decide (ti.getLast? = some c) = true then cfg.insertPos + ↑ti.length - 1 else ↑zlen - ↑i - 1 - ↑ti.length)] else []) ++
        (if cfg.trW = true then [Item.useSaved (σ := σ) 0 cfg.rank cfg.writeTy c (↑zlen - ↑i - 1)] else []),
        ∃ r ty c pos, it = Item.useSaved (σ := σ) 0 r ty c pos := by
      intro it hi
      rcases List.mem_append.1 hi with hi | hi
      · exact h1 it hi
      · exact h2 it hi
    rw [hadv _ h12, hadv _ h1]
    obtain ⟨p1, p2⟩ := ih (i + 1) (if decide (ti.getLast? = some c) = true then ti.dropLast else ti) st'
    have e1 := hstamps _ h1
    have e2 := hstamps _ h2
    have e12 : ∀ y ∈ levelStamps k st' (if cfg.trR = true then [Item.useSaved (σ := σ) 0 cfg.rank cfg.readTy c
        (if decide (ti.getLast? = some c) = true then cfg.insertPos + ↑ti.length - 1 else ↑zlen - ↑i - 1 - ↑ti.length)] else []) ++
        levelStamps k st' (if cfg.trW = true then [Item.useSaved (σ := σ) 0 cfg.rank cfg.writeTy c (↑zlen - ↑i - 1)] else []),
        y = st.regs 0 + 1 := by
      intro y hy
      rcases List.mem_append.1 hy with hy | hy
      · exact e1 y hy
      · exact e2 y hy
    constructor
    · rw [List.pairwise_append]
      refine ⟨?_, p1, ?_⟩
      · exact List.pairwise_of_forall_mem_list (fun a ha b hb => by rw [e12 a ha, e12 b hb]; exact Nat.le_refl _)
      · intro a ha b hb; rw [e12 a ha]; have := p2 b hb; omega
    · intro y hy
      rcases List.mem_append.1 hy with hy | hy
      · rw [e12 y hy]; omega
      · have := p2 y hy; omega

theorem moveItems_dest (k : Key) (pst : PopSt π) (st : LSt) :
    (levelStamps k st (moveItems (σ := σ) cfg emptyP pst)).Pairwise (· ≤ ·) ∧
    ∀ y ∈ levelStamps k st (moveItems (σ := σ) cfg emptyP pst), st.regs 0 ≤ y := by
  unfold moveItems
  split
  · exact moveLoop_dest cfg k _ _ _ _ st
  · simp [levelStamps]

/-- a source item, seen from a key the source does not use and a slot it does not touch -/
theorem srcItem_skip (plain saved : List Key) (k : Key) (hk : k ∉ plain ++ saved) (i : Item PEmpty)
    (hi : SrcItem plain saved i) (rest : List (Item σ)) (st : LSt) :
    ∃ st' : LSt, levelStamps k st (i.lift :: rest) = levelStamps k st' rest ∧
      st'.regs 0 = st.regs 0 ∧ st.cnt ≤ st'.cnt := by
  cases i with
  | sub x => exact nomatch x
  | inc => exact ⟨{ st with cnt := st.cnt + 1 }, rfl, rfl, by simp⟩
  | use r ty c pos =>
    have : (r, ty) ≠ k := by intro e; apply hk; rw [← e]; exact List.mem_append.2 (Or.inl hi)
    exact ⟨st, by simp [Item.lift, levelStamps, this], rfl, Nat.le_refl _⟩
  | useSaved s r ty c pos =>
    have : (r, ty) ≠ k := by intro e; apply hk; rw [← e]; exact List.mem_append.2 (Or.inr hi.2)
    exact ⟨st, by simp [Item.lift, levelStamps, this], rfl, Nat.le_refl _⟩
  | save s =>
    have hs : s = 1 := hi
    subst hs
    exact ⟨{ st with regs := upd st.regs 1 st.cnt }, rfl, by simp [upd_other], Nat.le_refl _⟩
  | bump s => exact hi.elim

/-- the destination-side keys of `z << src`: non-decreasing stamps through the main phase and the
    move phase -/
theorem popItems_dest (ok : PopTypesOK cfg) (plain saved : List Key) (k : Key)
    (hk : k = (cfg.rank, cfg.readTy) ∨ k = (cfg.rank, cfg.writeTy)) (hks : k ∉ plain ++ saved) :
    ∀ (steps : List (Step β)) (pst : PopSt π) (st : LSt), SrcSteps plain saved steps → st.regs 0 ≤ st.cnt →
      (levelStamps k st (popItems cfg mk rm emptyP body pst steps).2).Pairwise (· ≤ ·) ∧
      ∀ y ∈ levelStamps k st (popItems cfg mk rm emptyP body pst steps).2, st.regs 0 ≤ y := by
  intro steps
  induction steps with
  | nil => intro pst st _ _; exact moveItems_dest cfg emptyP k pst st
  | cons x rest ih =>
    intro pst st hsrc hinv
    cases x with
    | emit i =>
      simp only [popItems]
      obtain ⟨st', e, hr, hc⟩ := srcItem_skip plain saved k hks i (hsrc i (by simp)) _ st
      rw [e, ← hr]
      exact ih pst st' hsrc.tail (by omega)
    | yield c bp =>
      simp only [popItems]
      obtain ⟨ins, new, removed, cur, rp, wp, e⟩ := popYield_items cfg mk rm emptyP body pst c bp
      rw [e, levelStamps_append]
      obtain ⟨hpl, hpk⟩ := popPre_plain (σ := σ) cfg emptyP pst ins c
      have hprek : k = (cfg.rank, cfg.writeTy) → ∀ it ∈ popPre (σ := σ) cfg emptyP pst ins c, itemKey it ≠ some k := by
        intro ek it hi hkey
        rcases hpk it hi k hkey with h | h
        · rw [ek] at h; exact ok.ws (by simpa using h)
        · rw [ek] at h; exact ok.rw (by simpa using h.symm)
      obtain ⟨b1, b2, b3⟩ := popBlock cfg ok k hk _ hpl hprek (body c cur bp).2 new removed c rp wp pst.bpos st hinv
      obtain ⟨r1, r2⟩ := ih (popYield cfg mk rm emptyP body pst c bp).1 _ hsrc.tail b1
      constructor
      · rw [List.pairwise_append]
        refine ⟨b2, r1, fun a ha b hb => ?_⟩
        have := (b3 a ha).2
        have := r2 b hb
        omega
      · intro y hy
        rcases List.mem_append.1 hy with hy | hy
        · exact (b3 y hy).1
        · have h1 := r2 y hy
          -- the saved copy only grows across the element
          have h0 : st.regs 0 ≤ (advance st (popPre cfg emptyP pst ins c ++ Item.save 0 ::
              (popRd cfg new c rp ++ Item.use cfg.rank "iter" c ↑pst.bpos :: Item.sub (body c cur bp).snd :: Item.inc ::
                popPost cfg removed c wp))).regs 0 := by
            have hR := plainInc_regs _ st hpl
            have hC := advance_cnt_le (popPre (σ := σ) cfg emptyP pst ins c) st
            rcases popRd_cases (σ := σ) cfg new c rp with e1 | e1 <;>
            rcases popPost_cases (σ := σ) cfg removed c wp with e2 | e2 <;>
            rw [e1, e2] <;>
            simp only [advance_append, advance, List.nil_append, List.cons_append, hR, upd_same] <;> omega
          omega

/-- the items `z << src` contributes itself (everything but the body and the source's items) -/
def PopOwn (it : Item σ) : Prop :=
  it = .inc ∨ it = .save 0 ∨ it = .bump 0 ∨ (∃ c j, it = .use cfg.rank "iter" c j) ∨
  (∃ c pos, it = .use cfg.rank cfg.srcTy c pos) ∨ (∃ c pos, it = .use cfg.rank cfg.readTy c pos) ∨
  (∃ c pos, it = .useSaved 0 cfg.rank cfg.readTy c pos) ∨ (∃ c pos, it = .useSaved 0 cfg.rank cfg.writeTy c pos)

theorem moveLoop_mem' (zlen : Nat) : ∀ (els : List Int) (i : Nat) (ti : List Int) (it : Item σ),
    it ∈ moveLoop (σ := σ) cfg zlen i ti els →
      it = .bump 0 ∨ (∃ c pos, it = .useSaved 0 cfg.rank cfg.readTy c pos) ∨
        (∃ c pos, it = .useSaved 0 cfg.rank cfg.writeTy c pos) := by
  intro els
  induction els with
  | nil => intro i ti it h; simp [moveLoop] at h
  | cons c rest ih =>
    intro i ti it h
    simp only [moveLoop, List.mem_cons, List.mem_append] at h
    rcases h with rfl | (h | h) | h
    · exact Or.inl rfl
    · split at h
      · simp at h; subst h; exact Or.inr (Or.inl ⟨_, _, rfl⟩)
      · simp at h
    · split at h
      · simp at h; subst h; exact Or.inr (Or.inr ⟨_, _, rfl⟩)
      · simp at h
    · exact ih _ _ it h

theorem moveLoop_mem (zlen : Nat) (els : List Int) (i : Nat) (ti : List Int) (it : Item σ)
    (h : it ∈ moveLoop (σ := σ) cfg zlen i ti els) : PopOwn cfg it := by
  rcases moveLoop_mem' cfg zlen els i ti it h with h | h | h
  · exact Or.inr (Or.inr (Or.inl h))
  · exact Or.inr (Or.inr (Or.inr (Or.inr (Or.inr (Or.inr (Or.inl h))))))
  · exact Or.inr (Or.inr (Or.inr (Or.inr (Or.inr (Or.inr (Or.inr h))))))

theorem popItems_mem : ∀ (steps : List (Step β)) (pst : PopSt π) (it : Item σ),
    it ∈ (popItems cfg mk rm emptyP body pst steps).2 →
      PopOwn cfg it ∨ (∃ c cur bp, it = .sub (body c cur bp).2) ∨ (∃ i, Step.emit i ∈ steps ∧ it = i.lift) := by
  intro steps
  induction steps with
  | nil =>
    intro pst it h
    simp only [popItems, moveItems] at h
    split at h
    · exact Or.inl (moveLoop_mem cfg _ _ _ _ it h)
    · simp at h
  | cons x rest ih =>
    intro pst it h
    cases x with
    | emit i =>
      simp only [popItems, List.mem_cons] at h
      rcases h with rfl | h
      · exact Or.inr (Or.inr ⟨i, by simp, rfl⟩)
      · rcases ih _ it h with h | h | ⟨i', hi, e⟩
        · exact Or.inl h
        · exact Or.inr (Or.inl h)
        · exact Or.inr (Or.inr ⟨i', by simp [hi], e⟩)
    | yield c bp =>
      simp only [popItems] at h
      obtain ⟨ins, new, removed, cur, rp, wp, e⟩ := popYield_items cfg mk rm emptyP body pst c bp
      rw [e] at h
      simp only [List.mem_append, List.mem_cons] at h
      rcases h with (h | rfl | h | rfl | rfl | rfl | h) | h
      · obtain ⟨hpl, hpk⟩ := popPre_plain (σ := σ) cfg emptyP pst ins c
        rcases hpl it h with rfl | ⟨r, ty, c', pos, rfl⟩
        · exact Or.inl (Or.inl rfl)
        · rcases hpk _ h (r, ty) rfl with hk | hk
          · simp at hk; obtain ⟨rfl, rfl⟩ := hk
            exact Or.inl (Or.inr (Or.inr (Or.inr (Or.inr (Or.inl ⟨_, _, rfl⟩)))))
          · simp at hk; obtain ⟨rfl, rfl⟩ := hk
            exact Or.inl (Or.inr (Or.inr (Or.inr (Or.inr (Or.inr (Or.inl ⟨_, _, rfl⟩))))))
      · exact Or.inl (Or.inr (Or.inl rfl))
      · rcases popRd_cases (σ := σ) cfg new c rp with e1 | e1
        · rw [e1] at h; simp at h
        · rw [e1] at h; simp at h; subst h
          exact Or.inl (Or.inr (Or.inr (Or.inr (Or.inr (Or.inr (Or.inl ⟨_, _, rfl⟩))))))
      · exact Or.inl (Or.inr (Or.inr (Or.inr (Or.inl ⟨_, _, rfl⟩))))
      · exact Or.inr (Or.inl ⟨c, cur, bp, rfl⟩)
      · exact Or.inl (Or.inl rfl)
      · rcases popPost_cases (σ := σ) cfg removed c wp with e1 | e1
        · rw [e1] at h; simp at h
        · rw [e1] at h
          simp only [List.mem_cons, List.not_mem_nil, or_false] at h
          rcases h with rfl | rfl | rfl
          · exact Or.inl (Or.inr (Or.inr (Or.inl rfl)))
          · exact Or.inl (Or.inr (Or.inr (Or.inr (Or.inr (Or.inr (Or.inr (Or.inr ⟨_, _, rfl⟩)))))))
          · exact Or.inl (Or.inl rfl)
      · rcases ih _ it h with h | h | ⟨i', hi, e'⟩
        · exact Or.inl h
        · exact Or.inr (Or.inl h)
        · exact Or.inr (Or.inr ⟨i', by simp [hi], e'⟩)

theorem PopOwn.key {it : Item σ} (h : PopOwn cfg it) (k : Key) (hk : itemKey it = some k) :
    k = (cfg.rank, "iter") ∨ k = (cfg.rank, cfg.srcTy) ∨ k = (cfg.rank, cfg.readTy) ∨ k = (cfg.rank, cfg.writeTy) := by
  rcases h with rfl | rfl | rfl | ⟨c, j, rfl⟩ | ⟨c, pos, rfl⟩ | ⟨c, pos, rfl⟩ | ⟨c, pos, rfl⟩ | ⟨c, pos, rfl⟩ <;>
    simp [itemKey] at hk
  · exact Or.inl hk.symm
  · exact Or.inr (Or.inl hk.symm)
  · exact Or.inr (Or.inr (Or.inl hk.symm))
  · exact Or.inr (Or.inr (Or.inl hk.symm))
  · exact Or.inr (Or.inr (Or.inr hk.symm))

theorem PopOwn.savedKey {it : Item σ} (h : PopOwn cfg it) (hs : isSaved it = true) (k : Key) (hk : itemKey it = some k) :
    k = (cfg.rank, cfg.readTy) ∨ k = (cfg.rank, cfg.writeTy) := by
  rcases h with rfl | rfl | rfl | ⟨c, j, rfl⟩ | ⟨c, pos, rfl⟩ | ⟨c, pos, rfl⟩ | ⟨c, pos, rfl⟩ | ⟨c, pos, rfl⟩ <;>
    simp [itemKey, isSaved] at hk hs
  · exact Or.inl hk.symm
  · exact Or.inr hk.symm

theorem PopOwn.not_bump1 {it : Item σ} (h : PopOwn cfg it) : it ≠ .bump 1 := by
  rcases h with rfl | rfl | rfl | ⟨c, j, rfl⟩ | ⟨c, pos, rfl⟩ | ⟨c, pos, rfl⟩ | ⟨c, pos, rfl⟩ | ⟨c, pos, rfl⟩ <;> simp

theorem strictOKB_skip (k : Key) : ∀ (a b : List (Item σ)), (∀ it ∈ a, itemKey it ≠ some k) →
    strictOKB k true (a ++ b) = strictOKB k true b := by
  intro a
  induction a with
  | nil => intro b _; rfl
  | cons it rest ih =>
    intro b h
    have hr := ih b (fun x hx => h x (by simp [hx]))
    have h0 := h it (by simp)
    cases it with
    | use r ty c pos =>
      have : (r, ty) ≠ k := by intro e; apply h0; simp [itemKey, e]
      simpa [strictOKB, this] using hr
    | useSaved s r ty c pos =>
      have : (r, ty) ≠ k := by intro e; apply h0; simp [itemKey, e]
      simpa [strictOKB, this] using hr
    | inc => simpa [strictOKB] using hr
    | save s => simpa [strictOKB] using hr
    | bump s => simpa [strictOKB] using hr
    | sub x => simpa [strictOKB] using hr

theorem sepB_skip : ∀ (a b : List (Item σ)), a.all (fun i => !isSub i) = true →
    sepB true (a ++ b) = sepB true b := by
  intro a
  induction a with
  | nil => intro b _; rfl
  | cons it rest ih =>
    intro b h
    simp only [List.all_cons, Bool.and_eq_true] at h
    have hr := ih b h.2
    cases it with
    | sub x => simp [isSub] at h
    | _ => simpa [sepB] using hr

theorem popPieces_nosub (pst : PopSt π) (ins new removed : Bool) (c rp wp : Int) :
    (popPre (σ := σ) cfg emptyP pst ins c).all (fun i => !isSub i) = true ∧
    (popRd (σ := σ) cfg new c rp).all (fun i => !isSub i) = true ∧
    (popPost (σ := σ) cfg removed c wp).all (fun i => !isSub i) = true := by
  refine ⟨?_, ?_, ?_⟩
  · rw [List.all_eq_true]
    intro it hi
    rcases (popPre_plain (σ := σ) cfg emptyP pst ins c).1 it hi with rfl | ⟨r, ty, c', pos, rfl⟩ <;> rfl
  · rcases popRd_cases (σ := σ) cfg new c rp with e | e <;> rw [e] <;> rfl
  · rcases popPost_cases (σ := σ) cfg removed c wp with e | e <;> rw [e] <;> rfl

theorem popItems_sep : ∀ (steps : List (Step β)) (pst : PopSt π),
    sepB true (popItems cfg mk rm emptyP body pst steps).2 = true := by
  intro steps
  induction steps with
  | nil =>
    intro pst
    simp only [popItems]
    have : (moveItems (σ := σ) cfg emptyP pst).all (fun i => !isSub i) = true := by
      rw [List.all_eq_true]
      intro it hi
      unfold moveItems at hi
      split at hi
      · rcases moveLoop_mem cfg _ _ _ _ it hi with rfl | rfl | rfl | ⟨c, j, rfl⟩ | ⟨c, pos, rfl⟩ | ⟨c, pos, rfl⟩ | ⟨c, pos, rfl⟩ | ⟨c, pos, rfl⟩ <;> rfl
      · simp at hi
    have := sepB_skip _ [] this
    simpa [sepB] using this
  | cons x rest ih =>
    intro pst
    cases x with
    | emit i =>
      simp only [popItems]
      have := ih pst
      cases i with
      | sub x => exact nomatch x
      | _ => simpa [Item.lift, sepB] using this
    | yield c bp =>
      simp only [popItems]
      obtain ⟨ins, new, removed, cur, rp, wp, e⟩ := popYield_items cfg mk rm emptyP body pst c bp
      rw [e]
      obtain ⟨n1, n2, n3⟩ := popPieces_nosub (σ := σ) cfg emptyP pst ins new removed c rp wp
      rw [List.append_assoc, sepB_skip _ _ n1]
      simp only [List.cons_append, sepB, List.append_assoc]
      rw [sepB_skip _ _ n2]
      simp only [List.cons_append, sepB, Bool.true_and]
      rw [sepB_skip _ _ n3]
      exact ih _

theorem popItems_subs (steps : List (Step β)) (pst : PopSt π) :
    ∀ x ∈ subsOf (popItems cfg mk rm emptyP body pst steps).2, ∃ c cur bp, x = (body c cur bp).2 := by
  intro x hx
  have : Item.sub x ∈ (popItems cfg mk rm emptyP body pst steps).2 := by
    generalize (popItems cfg mk rm emptyP body pst steps).2 = items at hx
    induction items with
    | nil => simp [subsOf] at hx
    | cons it rest ih =>
      cases it with
      | sub y =>
        simp only [subsOf, List.mem_cons] at hx
        rcases hx with rfl | hx
        · simp
        · simp [ih hx]
      | _ => simp only [subsOf] at hx; simp [ih hx]
  rcases popItems_mem cfg mk rm emptyP body steps pst _ this with h | ⟨c, cur, bp, e⟩ | ⟨i, _, e⟩
  · rcases h with h | h | h | ⟨c, j, h⟩ | ⟨c, pos, h⟩ | ⟨c, pos, h⟩ | ⟨c, pos, h⟩ | ⟨c, pos, h⟩ <;> cases h
  · simp at e; exact ⟨c, cur, bp, e⟩
  · exfalso
    have := isSub_lift (σ := σ) i
    rw [← e] at this
    simp [isSub] at this

theorem popItems_strict (ok : PopTypesOK cfg) (plain saved : List Key)
    (hks : (cfg.rank, "iter") ∉ plain ++ saved) :
    ∀ (steps : List (Step β)) (pst : PopSt π), SrcSteps plain saved steps →
      strictOKB (cfg.rank, "iter") true (popItems cfg mk rm emptyP body pst steps).2 = true := by
  intro steps
  induction steps with
  | nil =>
    intro pst _
    simp only [popItems]
    have := strictOKB_skip (cfg.rank, "iter") (moveItems (σ := σ) cfg emptyP pst) [] (by
      intro it hi hkey
      unfold moveItems at hi
      split at hi
      · rcases moveLoop_mem' cfg _ _ _ _ it hi with rfl | ⟨c, pos, rfl⟩ | ⟨c, pos, rfl⟩ <;>
          simp [itemKey] at hkey
        · exact ok.ri hkey
        · exact ok.wi hkey
      · simp at hi)
    simpa [strictOKB] using this
  | cons x rest ih =>
    intro pst hsrc
    cases x with
    | emit i =>
      simp only [popItems]
      have hi := hsrc i (by simp)
      have := ih pst hsrc.tail
      cases i with
      | sub x => exact nomatch x
      | inc => simpa [Item.lift, strictOKB] using this
      | use r ty c pos =>
        have hne : (r, ty) ≠ (cfg.rank, "iter") := by
          intro e; apply hks; rw [← e]; exact List.mem_append.2 (Or.inl hi)
        simpa [Item.lift, strictOKB, hne] using this
      | useSaved s' r ty c pos =>
        have hne : (r, ty) ≠ (cfg.rank, "iter") := by
          intro e; apply hks; rw [← e]; exact List.mem_append.2 (Or.inr hi.2)
        simpa [Item.lift, strictOKB, hne] using this
      | save s' => simpa [Item.lift, strictOKB] using this
      | bump s' => exact hi.elim
    | yield c bp =>
      simp only [popItems]
      obtain ⟨ins, new, removed, cur, rp, wp, e⟩ := popYield_items cfg mk rm emptyP body pst c bp
      rw [e]
      have k1 : ∀ it ∈ popPre (σ := σ) cfg emptyP pst ins c, itemKey it ≠ some (cfg.rank, "iter") := by
        intro it hi hkey
        rcases (popPre_plain (σ := σ) cfg emptyP pst ins c).2 it hi _ hkey with h | h
        · exact ok.si (by simpa using h.symm)
        · exact ok.ri (by simpa using h.symm)
      have k2 : ∀ it ∈ popRd (σ := σ) cfg new c rp, itemKey it ≠ some (cfg.rank, "iter") := by
        intro it hi hkey
        rcases popRd_cases (σ := σ) cfg new c rp with e1 | e1 <;> rw [e1] at hi <;> simp at hi
        subst hi; simp [itemKey] at hkey; exact ok.ri hkey
      have k3 : ∀ it ∈ popPost (σ := σ) cfg removed c wp, itemKey it ≠ some (cfg.rank, "iter") := by
        intro it hi hkey
        rcases popPost_cases (σ := σ) cfg removed c wp with e1 | e1 <;> rw [e1] at hi <;> simp at hi
        rcases hi with rfl | rfl | rfl <;> simp [itemKey] at hkey
        exact ok.wi hkey
      rw [List.append_assoc, strictOKB_skip _ _ _ k1]
      simp only [List.cons_append, strictOKB, List.append_assoc]
      rw [strictOKB_skip _ _ _ k2]
      simp only [List.cons_append, strictOKB, if_true, Bool.true_and]
      rw [strictOKB_skip _ _ _ k3]
      exact ih _ hsrc.tail

/-- `z << src` consumed by `iterRange`: every key comes out sorted (the consumer's `iter` strictly) -/
theorem popItems_sorted (ok : PopTypesOK cfg) (plain saved : List Key)
    (hty : ∀ k ∈ plain ++ saved, k.2 ≠ "iter") (hdisj : ∀ k ∈ saved, k ∉ plain)
    (hpop : ∀ k ∈ plain ++ saved, k ≠ (cfg.rank, cfg.srcTy) ∧ k ≠ (cfg.rank, cfg.readTy) ∧ k ≠ (cfg.rank, cfg.writeTy))
    (steps : List (Step β)) (pst : PopSt π) (hsrc : SrcSteps plain saved steps) (k : Key) :
    LevelSorted k (popItems cfg mk rm emptyP body pst steps).2 := by
  have hmem := popItems_mem cfg mk rm emptyP body steps pst
  have hiter : (cfg.rank, "iter") ∉ plain ++ saved := fun h => hty _ h rfl
  by_cases hit : k.2 = "iter"
  · by_cases hr : k.1 = cfg.rank
    · have hk : k = (cfg.rank, "iter") := by cases k; simp_all
      subst hk
      exact levelSorted_of_lt _ _
        (levelStamps_strict _ _ {} true (popItems_strict cfg mk rm emptyP body ok plain saved hiter steps pst hsrc)).1
    · apply levelSorted_of_nil
      apply levelStamps_nokey
      intro it hi hkey
      rcases hmem it hi with h | ⟨c, cur, bp, e⟩ | ⟨i, hi', e⟩
      · rcases h.key cfg k hkey with h | h | h | h <;> subst h
        · exact hr rfl
        · exact hr rfl
        · exact hr rfl
        · exact hr rfl
      · subst e; simp [itemKey] at hkey
      · subst e
        rw [itemKey_lift] at hkey
        rcases (hsrc i hi').key k hkey with ⟨_, h⟩ | ⟨_, h, _⟩
        · exact hty k (List.mem_append.2 (Or.inl h)) hit
        · exact hty k (List.mem_append.2 (Or.inr h)) hit
  · by_cases hd : k = (cfg.rank, cfg.readTy) ∨ k = (cfg.rank, cfg.writeTy)
    · have hks : k ∉ plain ++ saved := by
        intro h
        rcases hd with rfl | rfl
        · exact (hpop _ h).2.1 rfl
        · exact (hpop _ h).2.2 rfl
      exact levelSorted_of_le _ _ hit
        (popItems_dest cfg mk rm emptyP body ok plain saved k hd hks steps pst {} hsrc (Nat.le_refl _)).1
    · by_cases hsv : k ∈ saved
      · apply levelSorted_of_le _ _ hit
        refine (levelStamps_saved k 1 _ {} ?_ ?_ (Nat.le_refl _)).1
        · intro it hi hkey
          rcases hmem it hi with h | ⟨c, cur, bp, e⟩ | ⟨i, hi', e⟩
          · exfalso
            have hp := hpop k (List.mem_append.2 (Or.inr hsv))
            rcases h.key cfg k hkey with h | h | h | h
            · exact hit (by rw [h])
            · exact hp.1 h
            · exact hp.2.1 h
            · exact hp.2.2 h
          · subst e; simp [itemKey] at hkey
          · subst e
            rw [itemKey_lift] at hkey
            rcases (hsrc i hi').key k hkey with ⟨_, h⟩ | ⟨_, _, r, ty, c, pos, e⟩
            · exact absurd h (hdisj k hsv)
            · subst e; exact ⟨r, ty, c, pos, rfl⟩
        · intro it hi
          rcases hmem it hi with h | ⟨c, cur, bp, e⟩ | ⟨i, hi', e⟩
          · exact h.not_bump1 cfg
          · subst e; simp
          · subst e; exact (hsrc i hi').not_bump 1
      · apply levelSorted_of_le _ _ hit
        refine (levelStamps_plain k _ {} ?_).1
        intro it hi hsaved hkey
        rcases hmem it hi with h | ⟨c, cur, bp, e⟩ | ⟨i, hi', e⟩
        · exact hd (h.savedKey cfg hsaved k hkey)
        · subst e; simp [isSaved] at hsaved
        · subst e
          rw [itemKey_lift] at hkey
          rw [isSaved_lift] at hsaved
          rcases (hsrc i hi').key k hkey with ⟨h, _⟩ | ⟨_, h, _⟩
          · rw [h] at hsaved; cases hsaved
          · exact hsv h

theorem popItems_ranks (plain saved : List Key) (steps : List (Step β)) (pst : PopSt π)
    (hsrc : SrcSteps plain saved steps) :
    ∀ it ∈ (popItems cfg mk rm emptyP body pst steps).2, ∀ k, itemKey it = some k →
      k.1 = cfg.rank ∨ k ∈ plain ++ saved := by
  intro it hi k hkey
  rcases popItems_mem cfg mk rm emptyP body steps pst it hi with h | ⟨c, cur, bp, e⟩ | ⟨i, hi', e⟩
  · rcases h.key cfg k hkey with h | h | h | h <;> subst h <;> exact Or.inl rfl
  · subst e; simp [itemKey] at hkey
  · subst e
    rw [itemKey_lift] at hkey
    rcases (hsrc i hi').key k hkey with ⟨_, h⟩ | ⟨_, h, _⟩
    · exact Or.inr (List.mem_append.2 (Or.inl h))
    · exact Or.inr (List.mem_append.2 (Or.inr h))

end

end Ft.C16
