/-
  Helper lemmas for C17 (cache): the consumption order of `_bufferTraffic` (minimum of the stamps
  padded with -1, then the binding position) is sorted the way `ListElem` compares, provided every
  binding's trace is stamp-sorted; ties can only occur inside one trace.
-/
import FtProofs.Lemmas.TrafficSched
import FtProofs.Lemmas.TrafficCacheOrd
import FtProofs.Lemmas.TrafficBuffet
set_option linter.unusedSectionVars false
set_option linter.unusedSimpArgs false
set_option linter.unusedVariables false
namespace Ft
namespace Traffic

/-! ### lexLtI is a strict total order -/

theorem lexLtI_irrefl : ∀ a : List Int, lexLtI a a = false
  | [] => rfl
  | x :: xs => by simp [lexLtI, lexLtI_irrefl xs]

theorem lexLtI_trans : ∀ {a b c : List Int}, lexLtI a b = true → lexLtI b c = true → lexLtI a c = true
  | [], [], _, h, _ => by simp [lexLtI] at h
  | [], _ :: _, [], _, h => by simp [lexLtI] at h
  | [], _ :: _, _ :: _, _, _ => by simp [lexLtI]
  | _ :: _, [], _, h, _ => by simp [lexLtI] at h
  | _ :: _, _ :: _, [], _, h => by simp [lexLtI] at h
  | x :: xs, y :: ys, z :: zs, h1, h2 => by
    simp only [lexLtI] at h1 h2 ⊢
    by_cases hxy : x < y
    · by_cases hyz : y < z
      · have : x < z := Int.lt_trans hxy hyz
        simp [this]
      · simp only [hyz, if_false] at h2
        by_cases hzy : z < y
        · simp [hzy] at h2
        · have : y = z := by omega
          subst this; simp [hxy]
    · simp only [hxy, if_false] at h1
      by_cases hyx : y < x
      · simp [hyx] at h1
      · simp only [hyx, if_false] at h1
        have : x = y := by omega
        subst this
        by_cases hxz : x < z
        · simp [hxz]
        · simp only [hxz, if_false] at h2 ⊢
          by_cases hzx : z < x
          · simp [hzx] at h2
          · simp only [hzx, if_false] at h2 ⊢
            exact lexLtI_trans h1 h2

theorem lexLtI_total : ∀ {a b : List Int}, lexLtI a b = false → lexLtI b a = false → a = b
  | [], [], _, _ => rfl
  | [], _ :: _, h, _ => by simp [lexLtI] at h
  | _ :: _, [], _, h => by simp [lexLtI] at h
  | x :: xs, y :: ys, h1, h2 => by
    simp only [lexLtI] at h1 h2
    by_cases hxy : x < y
    · simp [hxy] at h1
    · by_cases hyx : y < x
      · simp [hyx] at h2
      · simp only [hxy, hyx, if_false] at h1 h2
        have : x = y := by omega
        subst this
        rw [lexLtI_total h1 h2]

/-- `b ≤ c` and `a < b` give `a < c` -/
theorem lexLtI_of_lt_of_not_lt {a b c : List Int} (h1 : lexLtI a b = true) (h2 : lexLtI c b = false) :
    lexLtI a c = true := by
  cases hbc : lexLtI b c
  · have := lexLtI_total hbc h2; subst this; exact h1
  · exact lexLtI_trans h1 hbc

/-! ### padded keys compare like `ListElem`s -/

theorem padKey_cons (L : Nat) (x : Nat) (xs : List Nat) (i : Nat) :
    padKey (L + 1) (x :: xs) i = Int.ofNat x :: padKey L xs i := by
  simp [padKey]

theorem padKey_nil_succ (L : Nat) (i : Nat) : padKey (L + 1) [] i = (-1) :: padKey L [] i := by
  simp [padKey, List.replicate_succ]

/-- a strictly smaller stamp gives a strictly smaller padded key (whatever the positions) -/
theorem padKey_lt_of_lexLt : ∀ (L : Nat) (s1 s2 : List Nat) (i j : Nat), s1.length ≤ L → s2.length ≤ L →
    lexLt s1 s2 = true → lexLtI (padKey L s1 i) (padKey L s2 j) = true
  | _, [], [], _, _, _, _, h => by simp [lexLt] at h
  | 0, [], _ :: _, _, _, _, h2, _ => by simp at h2
  | L + 1, [], y :: ys, i, j, _, _, _ => by
    rw [padKey_nil_succ, padKey_cons]
    simp only [lexLtI]
    have : (-1 : Int) < Int.ofNat y := by
      have : (0 : Int) ≤ Int.ofNat y := Int.natCast_nonneg y
      omega
    rw [if_pos this]
  | _, _ :: _, [], _, _, _, _, h => by simp [lexLt] at h
  | 0, _ :: _, _ :: _, _, _, h1, _, _ => by simp at h1
  | L + 1, x :: xs, y :: ys, i, j, h1, h2, h => by
    rw [padKey_cons, padKey_cons]
    simp only [lexLt] at h
    simp only [lexLtI]
    by_cases hxy : x < y
    · have : Int.ofNat x < Int.ofNat y := Int.ofNat_lt.2 hxy
      rw [if_pos this]
    · simp only [hxy, if_false] at h
      by_cases hyx : y < x
      · simp [hyx] at h
      · simp only [hyx, if_false] at h
        have : x = y := by omega
        subst this
        rw [if_neg (Int.lt_irrefl _), if_neg (Int.lt_irrefl _)]
        exact padKey_lt_of_lexLt L xs ys i j (by simpa using h1) (by simpa using h2) h

/-- equal stamps: the binding position decides -/
theorem padKey_lt_of_pos (L : Nat) (s : List Nat) (i j : Nat) (h : i < j) :
    lexLtI (padKey L s i) (padKey L s j) = true := by
  unfold padKey
  generalize s.map Int.ofNat ++ List.replicate (L - s.length) (-1) = pre
  induction pre with
  | nil =>
    have : Int.ofNat i < Int.ofNat j := Int.ofNat_lt.2 h
    simp only [List.nil_append, lexLtI]
    rw [if_pos this]
  | cons z zs ih =>
    simp only [List.cons_append, lexLtI]
    rw [if_neg (Int.lt_irrefl _), if_neg (Int.lt_irrefl _)]
    exact ih

/-- `ListElem` order implies padded-key order -/
theorem padKey_lt_of_LElem {L : Nat} {s1 s2 : List Nat} {p1 p2 : List Nat} {i j : Nat}
    (h1 : s1.length ≤ L) (h2 : s2.length ≤ L)
    (h : LElem.lt ⟨s1, p1, i⟩ ⟨s2, p2, j⟩ = true) : lexLtI (padKey L s1 i) (padKey L s2 j) = true := by
  unfold LElem.lt at h
  by_cases hs : s1 = s2
  · subst hs
    simp only [ne_eq, not_true_eq_false, if_false, decide_eq_true_eq] at h
    exact padKey_lt_of_pos L s1 i j h
  · simp only [ne_eq, hs, not_false_eq_true, if_true] at h
    exact padKey_lt_of_lexLt L s1 s2 i j h1 h2 h

/-- within one binding the padded-key order is the stamp order -/
theorem lexLt_of_padKey_lt {L : Nat} {s1 s2 : List Nat} {i : Nat} (h1 : s1.length ≤ L) (h2 : s2.length ≤ L)
    (h : lexLtI (padKey L s1 i) (padKey L s2 i) = true) : lexLt s1 s2 = true := by
  cases h12 : lexLt s1 s2
  · exfalso
    cases h21 : lexLt s2 s1
    · have := lexLt_total h12 h21
      subst this
      rw [lexLtI_irrefl] at h; cases h
    · have := padKey_lt_of_lexLt L s2 s1 i i h2 h1 h21
      have := lexLtI_trans h this
      rw [lexLtI_irrefl] at this; cases this
  · rfl

/-! ### pickMin returns a minimal key -/

/-- key of the pending row of binding `j` -/
def headKey (L : Nat) (ts : List (List Acc)) (j : Nat) : Option (List Int) :=
  match ts[j]? with
  | some (a :: _) => some (padKey L a.stamp j)
  | _ => none

theorem pickMin_min (L : Nat) : ∀ (ts : List (List Acc)) (i : Nat) (best : Option (List Int × Nat)) (j : Nat),
    pickMin L i best ts = some j →
    ∃ k, ((best = some (k, j)) ∨ (i ≤ j ∧ ∃ a r, ts[j - i]? = some (a :: r) ∧ k = padKey L a.stamp j)) ∧
         (∀ kb jb, best = some (kb, jb) → lexLtI kb k = false) ∧
         (∀ m a r, ts[m]? = some (a :: r) → lexLtI (padKey L a.stamp (i + m)) k = false)
  | [], i, best, j, h => by
    cases best with
    | none => simp [pickMin] at h
    | some b =>
      obtain ⟨k, jb⟩ := b
      simp [pickMin] at h
      subst h
      refine ⟨k, Or.inl rfl, ?_, ?_⟩
      · intro kb jb' e; cases e; exact lexLtI_irrefl _
      · intro m a r hm; simp at hm
  | [] :: ts, i, best, j, h => by
    obtain ⟨k, hk, hb, hall⟩ := pickMin_min L ts (i + 1) best j (by simpa [pickMin] using h)
    refine ⟨k, ?_, hb, ?_⟩
    · rcases hk with hk | ⟨h1, a, r, h2, h3⟩
      · exact Or.inl hk
      · right
        refine ⟨by omega, a, r, ?_, h3⟩
        have e : j - i = (j - (i + 1)) + 1 := by omega
        rw [e]; simpa using h2
    · intro m a r hm
      cases m with
      | zero => simp at hm
      | succ m =>
        have := hall m a r (by simpa using hm)
        have e : i + 1 + m = i + (m + 1) := by omega
        rw [e] at this; exact this
  | (a0 :: r0) :: ts, i, best, j, h => by
    -- the candidate kept after looking at position `i`
    have key : ∀ (b : List Int × Nat),
        (b = (padKey L a0.stamp i, i) ∨ best = some b) →
        (∀ kb jb, best = some (kb, jb) → lexLtI kb b.1 = false) →
        lexLtI (padKey L a0.stamp i) b.1 = false →
        pickMin L (i + 1) (some b) ts = some j →
        ∃ k, ((best = some (k, j)) ∨ (i ≤ j ∧ ∃ a r, ((a0 :: r0) :: ts)[j - i]? = some (a :: r) ∧ k = padKey L a.stamp j)) ∧
          (∀ kb jb, best = some (kb, jb) → lexLtI kb k = false) ∧
          (∀ m a r, ((a0 :: r0) :: ts)[m]? = some (a :: r) → lexLtI (padKey L a.stamp (i + m)) k = false) := by
      intro b hb hbest hcur h'
      obtain ⟨k, hk, hbk, hall⟩ := pickMin_min L ts (i + 1) (some b) j h'
      have hbk' : lexLtI b.1 k = false := hbk b.1 b.2 rfl
      have le_k : ∀ c : List Int, lexLtI c b.1 = false → lexLtI c k = false := by
        intro c hc
        cases hck : lexLtI c k
        · rfl
        · have := lexLtI_of_lt_of_not_lt hck hbk'
          rw [hc] at this; cases this
      refine ⟨k, ?_, ?_, ?_⟩
      · rcases hk with hk | ⟨h1, a, r, h2, h3⟩
        · cases hk
          rcases hb with hb | hb
          · right
            obtain ⟨hk', hj⟩ := Prod.mk.inj hb
            refine ⟨by omega, a0, r0, ?_, ?_⟩
            · have : j - i = 0 := by omega
              rw [this]; rfl
            · rw [hk', hj]
          · exact Or.inl hb
        · right
          refine ⟨by omega, a, r, ?_, h3⟩
          have e : j - i = (j - (i + 1)) + 1 := by omega
          rw [e]; simpa using h2
      · intro kb jb e
        exact le_k kb (hbest kb jb e)
      · intro m a r hm
        cases m with
        | zero =>
          simp only [List.getElem?_cons_zero, Option.some.injEq, List.cons.injEq] at hm
          obtain ⟨rfl, rfl⟩ := hm
          exact le_k _ (by simpa using hcur)
        | succ m =>
          have := hall m a r (by simpa using hm)
          have e : i + 1 + m = i + (m + 1) := by omega
          rw [e] at this; exact this
    simp only [pickMin] at h
    cases best with
    | none =>
      exact key _ (Or.inl rfl) (by intro kb jb e; cases e) (lexLtI_irrefl _) h
    | some b =>
      obtain ⟨kb, ib⟩ := b
      simp only at h
      by_cases hlt : lexLtI (padKey L a0.stamp i) kb = true
      · simp only [hlt, if_true] at h
        refine key _ (Or.inl rfl) ?_ (lexLtI_irrefl _) h
        intro kb' jb' e; cases e
        cases hc : lexLtI kb (padKey L a0.stamp i)
        · rfl
        · have := lexLtI_trans hlt hc
          rw [lexLtI_irrefl] at this; cases this
      · simp only [hlt, if_false] at h
        refine key _ (Or.inr rfl) ?_ (by simpa using hlt) h
        intro kb' jb' e; cases e; exact lexLtI_irrefl _

/-! ### the consumption sequence of well-formed traces is ordered as `ListElem` compares -/

/-- no two different lines at one stamp inside a trace -/
def traceTieFreeB : List Acc → Bool
  | [] => true
  | a :: rest =>
    rest.all (fun b => !(decide (b.stamp = a.stamp)) || decide (b.point = a.point)) && traceTieFreeB rest

/-- a well-formed, tie-free trace of a binding at loop depth ≤ L -/
def TraceOk (L : Nat) (t : List Acc) : Prop :=
  stampsSortedB (t.map (·.stamp)) = true ∧ traceTieFreeB t = true ∧ ∀ a ∈ t, a.stamp.length ≤ L

theorem TraceOk.tail {L : Nat} {a : Acc} {r : List Acc} (h : TraceOk L (a :: r)) : TraceOk L r := by
  obtain ⟨h1, h2, h3⟩ := h
  refine ⟨stampsSorted_tail h1, ?_, fun x hx => h3 x (List.mem_cons_of_mem _ hx)⟩
  simp only [traceTieFreeB, Bool.and_eq_true] at h2
  exact h2.2

theorem mem_proj {xs : List (Nat × Acc)} {y : Nat × Acc} (h : y ∈ xs) : y.2 ∈ proj y.1 xs := by
  unfold proj
  apply List.mem_map.2
  exact ⟨y, List.mem_filter.2 ⟨h, by simp⟩, rfl⟩

theorem scheduleFuel_ord (L : Nat) : ∀ (fuel : Nat) (ts : List (List Acc)), totalLen ts ≤ fuel →
    (∀ t ∈ ts, TraceOk L t) → schedOrdB (scheduleFuel L fuel ts) = true
  | 0, _, _, _ => rfl
  | fuel + 1, ts, hf, hok => by
    simp only [scheduleFuel]
    cases hp : pickMin L 0 none ts with
    | none => rfl
    | some i =>
      obtain ⟨k, hk, _, hall⟩ := pickMin_min L ts 0 none i hp
      rcases hk with hk | ⟨_, a, r, hi, hka⟩
      · cases hk
      · simp only [Nat.sub_zero] at hi
        simp only [popAt_some i ts a r hi]
        have hlen := totalLen_set hi
        have hmem : (a :: r) ∈ ts := List.mem_of_getElem? hi
        have har := hok _ hmem
        have hok' : ∀ t ∈ ts.set i r, TraceOk L t := by
          intro t ht
          rcases List.mem_or_eq_of_mem_set ht with h | h
          · exact hok t h
          · rw [h]; exact har.tail
        have hlt : i < ts.length := by
          cases h : ts[i]? with
          | none => rw [h] at hi; cases hi
          | some _ => exact (List.getElem?_eq_some_iff.1 h).1
        simp only [schedOrdB, Bool.and_eq_true]
        refine ⟨?_, scheduleFuel_ord L fuel (ts.set i r) (by omega) hok'⟩
        rw [List.all_eq_true]
        intro y hy
        have hb : y.2 ∈ (ts.set i r).getD y.1 [] := by
          rw [← scheduleFuel_proj L fuel (ts.set i r) (by omega) y.1]
          exact mem_proj hy
        by_cases hji : y.1 = i
        · -- a later row of the same trace
          have hget : (ts.set i r).getD i [] = r := by
            simp [List.getD_eq_getElem?_getD, List.getElem?_set, hlt]
          rw [hji, hget] at hb
          obtain ⟨hs, htf, _⟩ := har
          have hle : lexLe a.stamp y.2.stamp = true :=
            sorted_tail_ge (by simpa using hs) y.2.stamp (List.mem_map_of_mem hb)
          have hnlt : lexLt y.2.stamp a.stamp = false := by simpa [lexLe] using hle
          simp only [traceTieFreeB, Bool.and_eq_true, List.all_eq_true] at htf
          have htie := htf.1 y.2 hb
          simp only [Bool.and_eq_true, Bool.not_eq_true', Bool.or_eq_true, decide_eq_true_eq,
            decide_eq_false_iff_not]
          refine ⟨?_, ?_⟩
          · unfold LElem.lt
            by_cases hst : y.2.stamp = a.stamp
            · simp [hst, hji]
            · simp [hst, hnlt]
          · simp only [Bool.not_eq_true', Bool.or_eq_true, decide_eq_false_iff_not, decide_eq_true_eq] at htie
            rcases htie with h1 | h1
            · left; simp [h1]
            · right; rw [hji, h1]
        · -- a row of another trace
          have hget : (ts.set i r).getD y.1 [] = ts.getD y.1 [] := by
            simp [List.getD_eq_getElem?_getD, List.getElem?_set, Ne.symm hji]
          rw [hget] at hb
          simp only [Bool.and_eq_true, Bool.not_eq_true', Bool.or_eq_true, decide_eq_true_eq,
            decide_eq_false_iff_not]
          refine ⟨?_, Or.inl (by simp [hji])⟩
          -- the trace of `y` and its pending row
          cases htj : ts[y.1]? with
          | none => simp [List.getD_eq_getElem?_getD, htj] at hb
          | some tj =>
            have hbt : y.2 ∈ tj := by simpa [List.getD_eq_getElem?_getD, htj] using hb
            cases tj with
            | nil => cases hbt
            | cons h r' =>
              have hokj := hok _ (List.mem_of_getElem? htj)
              obtain ⟨hs, _, hlenj⟩ := hokj
              have hle : lexLe h.stamp y.2.stamp = true := by
                rcases List.mem_cons.1 hbt with e | e
                · rw [e]; exact lexLe_refl _
                · exact sorted_tail_ge (by simpa using hs) y.2.stamp (List.mem_map_of_mem e)
              have hmin := hall y.1 h r' htj
              simp only [Nat.zero_add] at hmin
              cases hlt' : LElem.lt ⟨y.2.stamp, y.2.point, y.1⟩ ⟨a.stamp, a.point, i⟩
              · rfl
              · exfalso
                have h1 := padKey_lt_of_LElem (L := L) (hlenj y.2 hbt) (har.2.2 a List.mem_cons_self) hlt'
                rw [← hka] at h1
                have h2 := lexLtI_of_lt_of_not_lt h1 hmin
                have h3 := lexLt_of_padKey_lt (hlenj y.2 hbt) (hlenj h List.mem_cons_self) h2
                simp only [lexLe, Bool.not_eq_true'] at hle
                rw [hle] at h3; cases h3

theorem schedule_ord (L : Nat) (ts : List (List Acc)) (h : ∀ t ∈ ts, TraceOk L t) :
    schedOrdB (schedule L ts) = true :=
  scheduleFuel_ord L (totalLen ts) ts (Nat.le_refl _) h

/-- every access of the sequence comes from a trace -/
theorem schedule_mem (L : Nat) (ts : List (List Acc)) {y : Nat × Acc} (hy : y ∈ schedule L ts) :
    ∃ t ∈ ts, y.2 ∈ t := by
  have hb : y.2 ∈ ts.getD y.1 [] := by
    rw [← schedule_proj L ts y.1]; exact mem_proj hy
  cases htj : ts[y.1]? with
  | none => simp [List.getD_eq_getElem?_getD, htj] at hb
  | some tj =>
    exact ⟨tj, List.mem_of_getElem? htj, by simpa [List.getD_eq_getElem?_getD, htj] using hb⟩

end Traffic
end Ft
