/-
  C06 helper lemmas, part 2: cursors and the co-iteration of the participants of one loop.
  `RowsOK` is what the loop-nest proof needs from a co-iteration, whatever its style.
-/
import FtProofs.Lemmas.KernelSum
import FtProofs.Lemmas.Content
import FtProofs.Lemmas.EqLemmas
import FtProofs.Lemmas.PointLemmas
import FtProofs.C04
set_option linter.unusedSectionVars false
set_option linter.unusedSimpArgs false
set_option linter.unusedVariables false
namespace Ft.C06
open Ft StrictTotal

section
variable {κ : Type} [LT κ] [DecidableRel (α := κ) (· < ·)] [DecidableEq κ] [StrictTotal κ]

/-! ### association-list lemmas -/

theorem lookup_map_pay {π π' : Type} (f : Fib κ π) (g : κ → π → π') (c : κ) :
    lookup (f.map (fun e => (e.1, g e.1 e.2))) c = (lookup f c).map (g c) := by
  induction f with
  | nil => rfl
  | cons e r ih =>
    rw [List.map_cons, lookup_cons, lookup_cons]
    by_cases h : e.1 = c
    · simp [h]
    · simp [h, ih]

theorem lookup_filter_sorted {π : Type} {f : Fib κ π} (hs : Sorted f) (P : κ × π → Bool) (c : κ) :
    lookup (f.filter P) c = (lookup f c).bind (fun x => if P (c, x) then some x else none) := by
  induction f with
  | nil => rfl
  | cons e r ih =>
    have hnone : e.1 = c → lookup r c = none := fun he =>
      lookup_eq_none_of_lt (fun x hx => he ▸ hs.head_lt x hx)
    rw [List.filter_cons, lookup_cons]
    by_cases he : e.1 = c
    · have hP : P (c, e.2) = P e := by rw [← he]
      by_cases hp : P e = true
      · simp [hp, he, hP, lookup_cons]
      · have hp' : P e = false := by simpa using hp
        simp only [hp', Bool.false_eq_true, if_false, he, if_true, Option.bind_some, hP]
        rw [ih hs.tail, hnone he]; rfl
    · by_cases hp : P e = true
      · simp only [hp, if_true, lookup_cons, he, if_false]
        exact ih hs.tail
      · have hp' : P e = false := by simpa using hp
        simp only [hp', Bool.false_eq_true, if_false, he]
        exact ih hs.tail

theorem lookup_andSpec {α β : Type} (a : Fib κ α) (b : Fib κ β) (ha : Sorted a) (c : κ) :
    lookup (andSpec a b) c = (lookup a c).bind (fun pa => (lookup b c).map (fun pb => (pa, pb))) := by
  induction a with
  | nil => rfl
  | cons e r ih =>
    have hnone : e.1 = c → lookup r c = none := fun he =>
      lookup_eq_none_of_lt (fun x hx => he ▸ ha.head_lt x hx)
    have hstep : andSpec (e :: r) b =
        (match lookup b e.1 with
         | some pb => [(e.1, (e.2, pb))]
         | none => []) ++ andSpec r b := by
      unfold andSpec
      rw [List.filterMap_cons]
      cases lookup b e.1 <;> rfl
    rw [hstep, lookup_cons]
    by_cases he : e.1 = c
    · subst he
      cases hb : lookup b e.1 with
      | none =>
        simp only [List.nil_append, if_true, Option.bind_some, Option.map_none]
        rw [ih ha.tail, hnone rfl]; rfl
      | some pb =>
        simp [lookup_cons]
    · cases hb : lookup b e.1 with
      | none => simp only [List.nil_append, he, if_false]; exact ih ha.tail
      | some pb =>
        simp only [List.singleton_append, lookup_cons, he, if_false]
        exact ih ha.tail

theorem sorted_andSpec {α β : Type} (a : Fib κ α) (b : Fib κ β) (ha : Sorted a) : Sorted (andSpec a b) := by
  unfold andSpec Sorted
  apply List.Pairwise.filterMap _ _ ha
  intro x y hxy p hp q hq
  cases hx : lookup b x.1 with
  | none => rw [hx] at hp; cases hp
  | some px =>
    cases hy : lookup b y.1 with
    | none => rw [hy] at hq; cases hq
    | some py =>
      rw [hx] at hp; rw [hy] at hq
      simp only [Option.map_some, Option.some.injEq] at hp hq
      rw [← hp, ← hq]; exact hxy

theorem hasKey_iff_lookup {π : Type} (f : Fib κ π) (c : κ) : HasKey f c ↔ (lookup f c).isSome = true := by
  rw [← hasCoord_iff, hasCoord_iff_lookup]

theorem sorted_filter {π : Type} {f : Fib κ π} (hs : Sorted f) (P : κ × π → Bool) : Sorted (f.filter P) := by
  unfold Sorted at *; exact hs.filter _

/-- the content lists only non-default values -/
theorem content_ne_default {ν : Type} [DecidableEq ν] (dflt : ν) : ∀ (d : Nat) (t : Tree κ ν d),
    ∀ pv ∈ content dflt d t, pv.2 ≠ dflt
  | 0, v, pv, h => by
    have h' : pv ∈ (if (show ν from v) = dflt then [] else [([], (show ν from v))]) := h
    by_cases hv : (show ν from v) = dflt
    · rw [if_pos hv] at h'; cases h'
    · rw [if_neg hv] at h'
      rw [List.mem_singleton.1 h']; exact hv
  | d + 1, f, pv, h => by
    rw [content_succ] at h
    obtain ⟨e, _, hpv⟩ := List.mem_flatMap.1 h
    obtain ⟨x, hx, rfl⟩ := List.mem_map.1 hpv
    exact content_ne_default dflt d e.2 x hx

/-! ### n-ary two-finger intersection -/

/-- all operands' payloads at `c`, if every operand presents `c` -/
def allLookup {π : Type} : List (Fib κ π) → κ → Option (List π)
  | [], _ => some []
  | g :: gs, c => (lookup g c).bind (fun p => (allLookup gs c).map (fun ps => p :: ps))

theorem interAcc_spec {π : Type} : ∀ (gs : List (Fib κ π)) (acc : Fib κ (List π)), Sorted acc →
    (∀ g ∈ gs, Sorted g) →
    Sorted (interAcc acc gs) ∧
    ∀ c, lookup (interAcc acc gs) c = (lookup acc c).bind (fun l => (allLookup gs c).map (fun ps => l ++ ps))
  | [], acc, ha, _ => by
    refine ⟨ha, fun c => ?_⟩
    simp only [interAcc, allLookup, Option.map_some, List.append_nil]
    cases lookup acc c <;> rfl
  | g :: gs, acc, ha, hg => by
    have hgs : Sorted g := hg g (List.mem_cons_self ..)
    have hacc' : Sorted ((andMerge acc g).map (fun r => (r.1, r.2.1 ++ [r.2.2]))) := by
      rw [and_spec acc g ha hgs]
      exact sorted_map_key _ (fun r => r.2.1 ++ [r.2.2]) (sorted_andSpec acc g ha)
    obtain ⟨h1, h2⟩ := interAcc_spec gs _ hacc' (fun x hx => hg x (List.mem_cons_of_mem _ hx))
    refine ⟨h1, fun c => ?_⟩
    show lookup (interAcc ((andMerge acc g).map (fun r => (r.1, r.2.1 ++ [r.2.2]))) gs) c = _
    rw [h2 c, and_spec acc g ha hgs]
    have := lookup_map_pay (andSpec acc g) (fun _ (p : List π × π) => p.1 ++ [p.2]) c
    rw [this, lookup_andSpec acc g ha c]
    simp only [allLookup]
    cases lookup acc c with
    | none => rfl
    | some l =>
      cases lookup g c with
      | none => rfl
      | some p =>
        cases allLookup gs c with
        | none => rfl
        | some ps => simp

theorem interAll_spec {π : Type} (f : Fib κ π) (fs : List (Fib κ π)) (hs : ∀ g ∈ f :: fs, Sorted g) :
    Sorted (interAll (f :: fs)) ∧ ∀ c, lookup (interAll (f :: fs)) c = allLookup (f :: fs) c := by
  have hf : Sorted f := hs f (List.mem_cons_self ..)
  have h0 : Sorted (f.map (fun e => (e.1, [e.2]))) := sorted_map_key f (fun e => [e.2]) hf
  obtain ⟨h1, h2⟩ := interAcc_spec fs _ h0 (fun g hg => hs g (List.mem_cons_of_mem _ hg))
  refine ⟨h1, fun c => ?_⟩
  show lookup (interAcc (f.map (fun e => (e.1, [e.2]))) fs) c = _
  rw [h2 c]
  have := lookup_map_pay f (fun _ (p : π) => [p]) c
  rw [this]
  simp only [allLookup]
  cases lookup f c with
  | none => rfl
  | some p =>
    cases allLookup fs c with
    | none => rfl
    | some ps => simp

/-! ### cursors -/

def Cur.WF (c : Cur κ) : Prop := Ft.WF c.ranks.length c.t
def Cur.In (U : List κ) (c : Cur κ) : Prop := coordsInB U c.ranks.length c.t = true

theorem isPart_iff {v : Nat} {p : Cur κ} :
    isPart v p = true ↔ ∃ (rs : List Nat) (t : Tree κ Int (rs.length + 1)), p = ⟨v :: rs, t⟩ := by
  constructor
  · intro h
    obtain ⟨ranks, t⟩ := p
    cases ranks with
    | nil => simp [isPart] at h
    | cons w rs =>
      have : w = v := by simpa [isPart] using h
      subst this
      exact ⟨rs, t, rfl⟩
  · rintro ⟨rs, t, rfl⟩
    simp [isPart]

theorem lookup_present {d : Nat} (t : Tree κ Int (d + 1)) (hs : Sorted (show List (κ × Tree κ Int d) from t)) (c : κ) :
    lookup (present (0 : Int) d t) c =
      (lookup (show List (κ × Tree κ Int d) from t) c).bind (fun s => if isEmpty (0 : Int) d s then none else some s) := by
  unfold present
  rw [lookup_filter_sorted hs]
  cases lookup (show List (κ × Tree κ Int d) from t) c with
  | none => rfl
  | some s => cases h : isEmpty (0 : Int) d s <;> simp [h]

theorem lookup_elems (v : Nat) (rs : List Nat) (t : Tree κ Int (rs.length + 1)) (c : κ) :
    lookup (Cur.elems (⟨v :: rs, t⟩ : Cur κ)) c =
      (lookup (present (0 : Int) rs.length t) c).map (fun s => (⟨rs, s⟩ : Cur κ)) :=
  lookup_map_pay (present (0 : Int) rs.length t) (fun _ s => (⟨rs, s⟩ : Cur κ)) c

theorem at_cons (v : Nat) (rs : List Nat) (t : Tree κ Int (rs.length + 1))
    (h : Ft.WF (rs.length + 1) t) (c : κ) :
    Cur.at c (⟨v :: rs, t⟩ : Cur κ) =
      ⟨rs, (lookup (show List (κ × Tree κ Int rs.length) from t) c).getD (defaultTree (0 : Int) rs.length)⟩ := by
  show (⟨rs, (posLookup (show List (κ × Tree κ Int rs.length) from t) c).getD _⟩ : Cur κ) = _
  rw [posLookup_eq_lookup h.sorted]

/-- a presented element is what `getPayload` returns at its coordinate -/
theorem elems_eq_at (v : Nat) (rs : List Nat) (t : Tree κ Int (rs.length + 1))
    (h : Ft.WF (rs.length + 1) t) (c : κ) (s : Cur κ)
    (hl : lookup (Cur.elems (⟨v :: rs, t⟩ : Cur κ)) c = some s) :
    s = Cur.at c (⟨v :: rs, t⟩ : Cur κ) ∧ s.isEmpty = false := by
  rw [lookup_elems, lookup_present t h.sorted] at hl
  rw [at_cons v rs t h]
  cases hx : lookup (show List (κ × Tree κ Int rs.length) from t) c with
  | none => rw [hx] at hl; cases hl
  | some x =>
    rw [hx] at hl
    simp only [Option.bind_some] at hl
    by_cases he : isEmpty (0 : Int) rs.length x = true
    · simp [he] at hl
    · simp only [he, Bool.false_eq_true, if_false, Option.map_some, Option.some.injEq] at hl
      subst hl
      exact ⟨rfl, by simpa [Cur.isEmpty] using he⟩

/-- conversely a non-empty `getPayload` result is presented -/
theorem elems_of_at_nonempty (v : Nat) (rs : List Nat) (t : Tree κ Int (rs.length + 1))
    (h : Ft.WF (rs.length + 1) t) (c : κ)
    (hne : (Cur.at c (⟨v :: rs, t⟩ : Cur κ)).isEmpty = false) :
    lookup (Cur.elems (⟨v :: rs, t⟩ : Cur κ)) c = some (Cur.at c (⟨v :: rs, t⟩ : Cur κ)) := by
  rw [lookup_elems, lookup_present t h.sorted]
  rw [at_cons v rs t h] at hne ⊢
  cases hx : lookup (show List (κ × Tree κ Int rs.length) from t) c with
  | none =>
    rw [hx] at hne
    exfalso
    have : isEmpty (0 : Int) rs.length (defaultTree (κ := κ) (0 : Int) rs.length) = true := by
      cases rs.length with
      | zero => simp [isEmpty, defaultTree]
      | succ n => simp [isEmpty, defaultTree]
    simp [Cur.isEmpty, this] at hne
  | some x =>
    rw [hx] at hne
    have : isEmpty (0 : Int) rs.length x = false := by simpa [Cur.isEmpty] using hne
    simp [this]

theorem val_of_isEmpty {d : Nat} (t : Tree κ Int d) (hw : Ft.WF d t) (he : isEmpty (0 : Int) d t = true)
    (q : List κ) (hq : q.length = d) : val (0 : Int) d t q = 0 := by
  rw [val_eq_content (0 : Int) d t hw q hq, content_eq_nil_of_isEmpty he]; rfl

/-- the value of an operand at an assignment is the value of the cursor one level down -/
theorem cval_at (v : Nat) (rs : List Nat) (t : Tree κ Int (rs.length + 1))
    (h : Ft.WF (rs.length + 1) t) (σ : Nat → κ) :
    cval (⟨v :: rs, t⟩ : Cur κ) σ = cval (Cur.at (σ v) (⟨v :: rs, t⟩ : Cur κ)) σ := by
  rw [at_cons v rs t h]
  show val (0 : Int) (rs.length + 1) t (σ v :: rs.map σ) = val (0 : Int) rs.length _ (rs.map σ)
  simp only [val]
  cases lookup (show List (κ × Tree κ Int rs.length) from t) (σ v) with
  | none => simp only [Option.getD_none]; exact (val_defaultTree (0 : Int) rs.length _).symm
  | some s => rfl

/-- an operand that does not present the coordinate contributes a zero factor -/
theorem cval_zero_of_absent (v : Nat) (rs : List Nat) (t : Tree κ Int (rs.length + 1))
    (h : Ft.WF (rs.length + 1) t) (σ : Nat → κ)
    (hl : lookup (Cur.elems (⟨v :: rs, t⟩ : Cur κ)) (σ v) = none) :
    cval (⟨v :: rs, t⟩ : Cur κ) σ = 0 := by
  rw [lookup_elems, lookup_present t h.sorted] at hl
  show val (0 : Int) (rs.length + 1) t (σ v :: rs.map σ) = 0
  simp only [val]
  cases hx : lookup (show List (κ × Tree κ Int rs.length) from t) (σ v) with
  | none => rfl
  | some s =>
    rw [hx] at hl
    simp only [Option.bind_some] at hl
    by_cases he : isEmpty (0 : Int) rs.length s = true
    · exact val_of_isEmpty s (h.sub _ (lookup_mem hx)) he _ (by simp)
    · simp [he] at hl

theorem coordsIn_sub {U : List κ} {d : Nat} {t : Tree κ Int (d + 1)} (h : coordsInB U (d + 1) t = true)
    {e : κ × Tree κ Int d} (he : e ∈ (show List (κ × Tree κ Int d) from t)) :
    e.1 ∈ U ∧ coordsInB U d e.2 = true := by
  have := (List.all_eq_true.1 (show (show List (κ × Tree κ Int d) from t).all _ = true from h)) e he
  simp only [Bool.and_eq_true, List.contains_iff_mem] at this
  exact this

theorem coordsIn_default (U : List κ) : ∀ d, coordsInB U d (defaultTree (κ := κ) (0 : Int) d) = true
  | 0 => rfl
  | _ + 1 => rfl

theorem at_wf (v : Nat) (rs : List Nat) (t : Tree κ Int (rs.length + 1))
    (h : Ft.WF (rs.length + 1) t) (c : κ) : (Cur.at c (⟨v :: rs, t⟩ : Cur κ)).WF := by
  rw [at_cons v rs t h]
  show Ft.WF rs.length _
  cases hx : lookup (show List (κ × Tree κ Int rs.length) from t) c with
  | none => exact wf_defaultTree (0 : Int) rs.length
  | some s => exact h.sub _ (lookup_mem hx)

theorem at_in (U : List κ) (v : Nat) (rs : List Nat) (t : Tree κ Int (rs.length + 1))
    (h : Ft.WF (rs.length + 1) t) (hin : coordsInB U (rs.length + 1) t = true) (c : κ) :
    (Cur.at c (⟨v :: rs, t⟩ : Cur κ)).In U := by
  rw [at_cons v rs t h]
  show coordsInB U rs.length _ = true
  cases hx : lookup (show List (κ × Tree κ Int rs.length) from t) c with
  | none => exact coordsIn_default U rs.length
  | some s => exact (coordsIn_sub hin (lookup_mem hx)).2

theorem at_ranks (v : Nat) (rs : List Nat) (t : Tree κ Int (rs.length + 1)) (c : κ) :
    (Cur.at c (⟨v :: rs, t⟩ : Cur κ)).ranks = rs := rfl

theorem elems_sorted (v : Nat) (rs : List Nat) (t : Tree κ Int (rs.length + 1))
    (h : Ft.WF (rs.length + 1) t) : Sorted (Cur.elems (⟨v :: rs, t⟩ : Cur κ)) :=
  sorted_map_key _ (fun e => (⟨rs, e.2⟩ : Cur κ)) (present_sorted h.sorted)

theorem elems_key_in (U : List κ) (v : Nat) (rs : List Nat) (t : Tree κ Int (rs.length + 1))
    (hin : coordsInB U (rs.length + 1) t = true) (c : κ)
    (hk : HasKey (Cur.elems (⟨v :: rs, t⟩ : Cur κ)) c) : c ∈ U := by
  obtain ⟨e, he, rfl⟩ := hk
  obtain ⟨x, hx, rfl⟩ := List.mem_map.1 he
  exact (coordsIn_sub hin (mem_present.1 hx).1).1

/-! ### what the loop-nest proof needs from a co-iteration -/

structure RowsOK (parts : List (Cur κ)) (rows : Fib κ (List (Cur κ))) : Prop where
  sorted : Sorted rows
  /-- every row delivers, for each participant, what `getPayload` returns at the row's coordinate -/
  sub : ∀ r ∈ rows, r.2 = parts.map (Cur.at r.1)
  /-- a coordinate that every participant presents has a row -/
  complete : ∀ c, (∀ p ∈ parts, (lookup p.elems c).isSome = true) → HasKey rows c
  /-- every row's coordinate is presented by the first participant -/
  keys : ∀ r ∈ rows, ∀ p, parts.head? = some p → HasKey p.elems r.1

/-- participants: all have `v` as their next rank and are well-formed -/
def Parts (v : Nat) (parts : List (Cur κ)) : Prop := ∀ p ∈ parts, isPart v p = true ∧ p.WF

theorem allLookup_elems (v : Nat) : ∀ (parts : List (Cur κ)), Parts v parts → ∀ c l,
    allLookup (parts.map Cur.elems) c = some l → l = parts.map (Cur.at c)
  | [], _, _, l, h => by simp [allLookup] at h; simp [h]
  | p :: ps, hp, c, l, h => by
    obtain ⟨hpv, hpw⟩ := hp p (List.mem_cons_self ..)
    obtain ⟨rs, t, rfl⟩ := isPart_iff.1 hpv
    simp only [List.map_cons, allLookup] at h
    cases hx : lookup (Cur.elems (⟨v :: rs, t⟩ : Cur κ)) c with
    | none => rw [hx] at h; cases h
    | some s =>
      rw [hx] at h
      simp only [Option.bind_some] at h
      cases hy : allLookup (ps.map Cur.elems) c with
      | none => rw [hy] at h; cases h
      | some l' =>
        rw [hy] at h
        simp only [Option.map_some, Option.some.injEq] at h
        rw [← h, List.map_cons, (elems_eq_at v rs t hpw c s hx).1,
          allLookup_elems v ps (fun q hq => hp q (List.mem_cons_of_mem _ hq)) c l' hy]

theorem allLookup_isSome {π : Type} : ∀ (gs : List (Fib κ π)) (c : κ),
    (∀ g ∈ gs, (lookup g c).isSome = true) → (allLookup gs c).isSome = true
  | [], _, _ => rfl
  | g :: gs, c, h => by
    simp only [allLookup]
    have h1 := h g (List.mem_cons_self ..)
    have h2 := allLookup_isSome gs c (fun x hx => h x (List.mem_cons_of_mem _ hx))
    cases hg : lookup g c with
    | none => rw [hg] at h1; cases h1
    | some p =>
      cases ha : allLookup gs c with
      | none => rw [ha] at h2; cases h2
      | some ps => rfl

theorem allLookup_head {π : Type} (g : Fib κ π) (gs : List (Fib κ π)) (c : κ)
    (h : (allLookup (g :: gs) c).isSome = true) : (lookup g c).isSome = true := by
  simp only [allLookup] at h
  cases hg : lookup g c with
  | none => rw [hg] at h; cases h
  | some p => rfl

theorem parts_sorted (v : Nat) (parts : List (Cur κ)) (hp : Parts v parts) :
    ∀ g ∈ parts.map Cur.elems, Sorted g := by
  intro g hg
  obtain ⟨p, hpm, rfl⟩ := List.mem_map.1 hg
  obtain ⟨hpv, hpw⟩ := hp p hpm
  obtain ⟨rs, t, rfl⟩ := isPart_iff.1 hpv
  exact elems_sorted v rs t hpw

/-- any co-iteration of `p :: ps` that is sorted and whose rows are all the operands' payloads at the
    coordinates every operand presents -/
theorem rowsOK_of_allLookup (v : Nat) (p : Cur κ) (ps : List (Cur κ)) (hp : Parts v (p :: ps))
    (rows : Fib κ (List (Cur κ))) (h1 : Sorted rows)
    (h2 : ∀ c, lookup rows c = allLookup (p.elems :: ps.map Cur.elems) c) : RowsOK (p :: ps) rows := by
  refine ⟨h1, ?_, ?_, ?_⟩
  · intro r hr
    have hl := lookup_of_sorted_mem h1 hr
    rw [h2 r.1] at hl
    exact allLookup_elems v (p :: ps) hp r.1 r.2 (by simpa using hl)
  · intro c hc
    rw [hasKey_iff_lookup, h2 c]
    apply allLookup_isSome
    intro g hg
    have hg' : g ∈ (p :: ps).map Cur.elems := by simpa using hg
    obtain ⟨q, hq, rfl⟩ := List.mem_map.1 hg'
    exact hc q hq
  · intro r hr q hq
    have : q = p := by simpa using hq.symm
    subst this
    have hl := lookup_of_sorted_mem h1 hr
    rw [h2 r.1] at hl
    rw [hasKey_iff_lookup]
    exact allLookup_head _ _ _ (by rw [hl]; rfl)

/-- two-finger (`&`, nested or through `Fiber.intersection`) -/
theorem rowsOK_tf (v : Nat) (parts : List (Cur κ)) (hp : Parts v parts) (hne : parts ≠ []) :
    RowsOK parts (coiter .tf parts) := by
  cases parts with
  | nil => exact absurd rfl hne
  | cons p ps =>
    obtain ⟨h1, h2⟩ := interAll_spec p.elems (ps.map Cur.elems) (by
      have := parts_sorted v (p :: ps) hp
      simpa using this)
    exact rowsOK_of_allLookup v p ps hp _ h1 h2

theorem interR_spec {π : Type} (f : Fib κ π) (fs : List (Fib κ π)) (hs : ∀ g ∈ f :: fs, Sorted g) :
    Sorted (interR (f :: fs)) ∧ ∀ c, lookup (interR (f :: fs)) c = allLookup (f :: fs) c := by
  have hf : Sorted f := hs f (List.mem_cons_self ..)
  cases fs with
  | nil =>
    refine ⟨sorted_map_key f (fun e => [e.2]) hf, fun c => ?_⟩
    show lookup (f.map (fun e => (e.1, [e.2]))) c = _
    rw [lookup_map_pay f (fun _ (p : π) => [p]) c]
    simp only [allLookup]
    cases lookup f c <;> rfl
  | cons g gs =>
    obtain ⟨h1, h2⟩ := interAll_spec g gs (fun x hx => hs x (List.mem_cons_of_mem _ hx))
    have hm : interR (f :: g :: gs) =
        (andSpec f (interAll (g :: gs))).map (fun r => (r.1, r.2.1 :: r.2.2)) := by
      show (andMerge f (interAll (g :: gs))).map _ = _
      rw [and_spec f _ hf h1]
    rw [hm]
    refine ⟨sorted_map_key _ (fun r => r.2.1 :: r.2.2) (sorted_andSpec f _ hf), fun c => ?_⟩
    rw [lookup_map_pay (andSpec f (interAll (g :: gs))) (fun _ (p : π × List π) => p.1 :: p.2) c,
      lookup_andSpec f _ hf c, h2 c]
    show _ = (lookup f c).bind (fun p => (allLookup (g :: gs) c).map (fun ps => p :: ps))
    cases lookup f c with
    | none => rfl
    | some p => cases allLookup (g :: gs) c <;> rfl

/-- two-finger with a lazy right operand: `a & (b & c)`, hoisted or not -/
theorem rowsOK_tfr (v : Nat) (parts : List (Cur κ)) (hp : Parts v parts) (hne : parts ≠ []) :
    RowsOK parts (coiter .tfr parts) := by
  cases parts with
  | nil => exact absurd rfl hne
  | cons p ps =>
    obtain ⟨h1, h2⟩ := interR_spec p.elems (ps.map Cur.elems) (by
      have := parts_sorted v (p :: ps) hp
      simpa using this)
    exact rowsOK_of_allLookup v p ps hp _ h1 h2

/-- leader-follower, unfiltered -/
theorem rowsOK_lf (v : Nat) (parts : List (Cur κ)) (hp : Parts v parts) (hne : parts ≠ []) :
    RowsOK parts (coiter .lf parts) := by
  cases parts with
  | nil => exact absurd rfl hne
  | cons p fs =>
    obtain ⟨hpv, hpw⟩ := hp p (List.mem_cons_self ..)
    obtain ⟨rs, t, rfl⟩ := isPart_iff.1 hpv
    have hco : coiter .lf ((⟨v :: rs, t⟩ : Cur κ) :: fs) =
        (Cur.elems (⟨v :: rs, t⟩ : Cur κ)).map (fun e => (e.1, e.2 :: fs.map (Cur.at e.1))) := rfl
    rw [hco]
    have hse := elems_sorted v rs t hpw
    refine ⟨sorted_map_key _ (fun e => e.2 :: fs.map (Cur.at e.1)) hse, ?_, ?_, ?_⟩
    · intro r hr
      obtain ⟨e, he, rfl⟩ := List.mem_map.1 hr
      have hl := lookup_of_sorted_mem hse he
      simp only [List.map_cons]
      rw [(elems_eq_at v rs t hpw e.1 e.2 hl).1]
    · intro c hc
      have := hc _ (List.mem_cons_self ..)
      rw [← hasKey_iff_lookup] at this
      exact (hasKey_map_key _ _ c).2 this
    · intro r hr q hq
      have : q = ⟨v :: rs, t⟩ := by simpa using hq.symm
      subst this
      obtain ⟨e, he, rfl⟩ := List.mem_map.1 hr
      exact ⟨e, he, rfl⟩

/-- leader-follower with the emptiness filter on the followers -/
theorem rowsOK_lff (v : Nat) (parts : List (Cur κ)) (hp : Parts v parts) (hne : parts ≠ []) :
    RowsOK parts (coiter .lff parts) := by
  have hlf := rowsOK_lf v parts hp hne
  have hco : coiter .lff parts = (coiter .lf parts).filter (fun r => r.2.tail.all (fun c => !c.isEmpty)) := rfl
  rw [hco]
  refine ⟨sorted_filter hlf.sorted _, fun r hr => hlf.sub r (List.mem_filter.1 hr).1, ?_,
    fun r hr => hlf.keys r (List.mem_filter.1 hr).1⟩
  intro c hc
  obtain ⟨r, hr, rfl⟩ := hlf.complete c hc
  refine ⟨r, List.mem_filter.2 ⟨hr, ?_⟩, rfl⟩
  rw [hlf.sub r hr]
  cases parts with
  | nil => exact absurd rfl hne
  | cons p fs =>
    simp only [List.map_cons, List.tail_cons, List.all_map, List.all_eq_true, Function.comp]
    intro f hf
    obtain ⟨hfv, hfw⟩ := hp f (List.mem_cons_of_mem _ hf)
    obtain ⟨rs, t, rfl⟩ := isPart_iff.1 hfv
    have h1 := hc _ (List.mem_cons_of_mem _ hf)
    cases hx : lookup (Cur.elems (⟨v :: rs, t⟩ : Cur κ)) r.1 with
    | none => rw [hx] at h1; cases h1
    | some s =>
      obtain ⟨e1, e2⟩ := elems_eq_at v rs t hfw r.1 s hx
      rw [← e1, e2]; rfl

/-! ### the filtered leader-follower rows are the two-finger rows -/

theorem allLookup_all {π : Type} : ∀ (gs : List (Fib κ π)) (c : κ),
    (allLookup gs c).isSome = true → ∀ g ∈ gs, (lookup g c).isSome = true
  | [], _, _, g, hg => by cases hg
  | g :: gs, c, h, x, hx => by
    simp only [allLookup] at h
    cases hg : lookup g c with
    | none => rw [hg] at h; cases h
    | some p =>
      rw [hg] at h
      simp only [Option.bind_some] at h
      rcases List.mem_cons.1 hx with rfl | hx
      · rw [hg]; rfl
      · apply allLookup_all gs c _ x hx
        cases ha : allLookup gs c with
        | none => rw [ha] at h; cases h
        | some ps => rfl

/-- two-finger rows exist only where every participant presents the coordinate -/
theorem tf_sound (v : Nat) (parts : List (Cur κ)) (hp : Parts v parts) (hne : parts ≠ []) (c : κ)
    (hk : HasKey (coiter .tf parts) c) : ∀ p ∈ parts, (lookup p.elems c).isSome = true := by
  cases parts with
  | nil => exact absurd rfl hne
  | cons p ps =>
    obtain ⟨h1, h2⟩ := interAll_spec p.elems (ps.map Cur.elems) (by
      have := parts_sorted v (p :: ps) hp
      simpa using this)
    have hco : coiter .tf (p :: ps) = interAll (p.elems :: ps.map Cur.elems) := rfl
    rw [hco, hasKey_iff_lookup, h2 c] at hk
    intro q hq
    exact allLookup_all _ c hk q.elems (by
      have : q.elems ∈ (p :: ps).map Cur.elems := List.mem_map.2 ⟨q, hq, rfl⟩
      simpa using this)

/-- … and so do the filtered leader-follower rows -/
theorem lff_sound (v : Nat) (parts : List (Cur κ)) (hp : Parts v parts) (hne : parts ≠ []) (c : κ)
    (hk : HasKey (coiter .lff parts) c) : ∀ p ∈ parts, (lookup p.elems c).isSome = true := by
  have hlf := rowsOK_lf v parts hp hne
  have hco : coiter .lff parts = (coiter .lf parts).filter (fun r => r.2.tail.all (fun c => !c.isEmpty)) := rfl
  rw [hco] at hk
  obtain ⟨r, hr, rfl⟩ := hk
  obtain ⟨hr1, hr2⟩ := List.mem_filter.1 hr
  cases parts with
  | nil => exact absurd rfl hne
  | cons p fs =>
    intro q hq
    rcases List.mem_cons.1 hq with rfl | hq
    · rw [← hasKey_iff_lookup]
      exact hlf.keys r hr1 q rfl
    · rw [hlf.sub r hr1] at hr2
      simp only [List.map_cons, List.tail_cons, List.all_map, List.all_eq_true, Function.comp] at hr2
      have hqe := hr2 q hq
      obtain ⟨hqv, hqw⟩ := hp q (List.mem_cons_of_mem _ hq)
      obtain ⟨rs, t, rfl⟩ := isPart_iff.1 hqv
      rw [elems_of_at_nonempty v rs t hqw r.1 (by simpa using hqe)]
      rfl

theorem lff_eq_tf (v : Nat) (parts : List (Cur κ)) (hp : Parts v parts) (hne : parts ≠ []) :
    coiter .lff parts = coiter .tf parts := by
  have h1 := rowsOK_lff v parts hp hne
  have h2 := rowsOK_tf v parts hp hne
  apply sorted_ext_of_fn (F := fun c => parts.map (Cur.at c)) _ _ h1.sorted h2.sorted h1.sub h2.sub
  intro c
  exact ⟨fun h => h2.complete c (lff_sound v parts hp hne c h), fun h => h1.complete c (tf_sound v parts hp hne c h)⟩

/-- the nesting of the two-finger intersections is irrelevant: same rows, same payload order -/
theorem tfr_eq_tf (v : Nat) (parts : List (Cur κ)) (hp : Parts v parts) (hne : parts ≠ []) :
    coiter .tfr parts = coiter .tf parts := by
  have h1 := rowsOK_tfr v parts hp hne
  have h2 := rowsOK_tf v parts hp hne
  cases parts with
  | nil => exact absurd rfl hne
  | cons p ps =>
    have hs := parts_sorted v (p :: ps) hp
    obtain ⟨_, l1⟩ := interR_spec p.elems (ps.map Cur.elems) (by simpa using hs)
    obtain ⟨_, l2⟩ := interAll_spec p.elems (ps.map Cur.elems) (by simpa using hs)
    apply sorted_ext_of_fn (F := fun c => (p :: ps).map (Cur.at c)) _ _ h1.sorted h2.sorted h1.sub h2.sub
    intro c
    rw [hasKey_iff_lookup, hasKey_iff_lookup]
    show (lookup (interR (p.elems :: ps.map Cur.elems)) c).isSome = true ↔
      (lookup (interAll (p.elems :: ps.map Cur.elems)) c).isSome = true
    rw [l1 c, l2 c]

theorem rowsOK (style : Style) (v : Nat) (parts : List (Cur κ)) (hp : Parts v parts) (hne : parts ≠ []) :
    RowsOK parts (coiter style parts) := by
  cases style with
  | tf => exact rowsOK_tf v parts hp hne
  | tfr => exact rowsOK_tfr v parts hp hne
  | lf => exact rowsOK_lf v parts hp hne
  | lff => exact rowsOK_lff v parts hp hne

end
end Ft.C06
