/-
  Helper lemmas for C17: the buffet state (resident lines in fill order, drain queue) and the
  invariant that ties the simulation to the (line, eviction-window) groups of the trace.
-/
import FtProofs.Lemmas.TrafficBasic
set_option linter.unusedSectionVars false
set_option linter.unusedSimpArgs false
set_option linter.unusedVariables false
namespace Ft
namespace Traffic

abbrev Pt := List Nat
abbrev Objs := List (Pt × BEntry)

/-- resident lines in fill order carry consecutive queue indices starting at `d` -/
def QOK (objs : Objs) : Nat → List Pt → Prop
  | _, [] => True
  | d, p :: t => (∃ dirty, alookup objs p = some ⟨dirty, d⟩) ∧ QOK objs (d + 1) t

def isDirty (objs : Objs) (p : Pt) : Bool :=
  match alookup objs p with | some en => en.dirty | none => false

def dirtyCount (objs : Objs) (q : List Pt) : Nat := (q.filter (isDirty objs)).length

/-- the line has been handed to the drain queue (`ready_to_drain[idx] = obj`) -/
def IsReady (s : B1) (p : Pt) : Prop :=
  ∃ en, alookup s.objs p = some en ∧ alookup s.ready en.idx = some p

theorem qok_ge {objs : Objs} : ∀ {d : Nat} {q : List Pt}, QOK objs d q → ∀ {p : Pt}, p ∈ q →
    ∀ {en : BEntry}, alookup objs p = some en → d ≤ en.idx
  | d, h :: t, hq, p, hp, en, hen => by
    rcases List.mem_cons.1 hp with rfl | hp
    · obtain ⟨dirty, hl⟩ := hq.1
      rw [hl] at hen; cases hen; exact Nat.le_refl _
    · have := qok_ge hq.2 hp hen; omega

theorem qok_lt {objs : Objs} : ∀ {d : Nat} {q : List Pt}, QOK objs d q → ∀ {p : Pt}, p ∈ q →
    ∀ {en : BEntry}, alookup objs p = some en → en.idx < d + q.length
  | d, h :: t, hq, p, hp, en, hen => by
    rcases List.mem_cons.1 hp with rfl | hp
    · obtain ⟨dirty, hl⟩ := hq.1
      rw [hl] at hen; cases hen; simp
    · have := qok_lt hq.2 hp hen; simp only [List.length_cons]; omega

/-- the line at the front of the queue is the only resident one with the index `d` -/
theorem qok_head_unique {objs : Objs} {d : Nat} {h : Pt} {t : List Pt} (hq : QOK objs d (h :: t))
    {p : Pt} (hp : p ∈ h :: t) {en : BEntry} (hen : alookup objs p = some en) (hd : en.idx = d) :
    p = h := by
  rcases List.mem_cons.1 hp with rfl | hp
  · rfl
  · have := qok_ge hq.2 hp hen; omega

theorem qok_congr {objs objs' : Objs} : ∀ {d : Nat} {q : List Pt}, QOK objs d q →
    (∀ p ∈ q, ∀ en, alookup objs p = some en → ∃ b, alookup objs' p = some ⟨b, en.idx⟩) → QOK objs' d q
  | _, [], _, _ => trivial
  | d, h :: t, hq, hc => by
    refine ⟨?_, qok_congr hq.2 (fun p hp => hc p (List.mem_cons_of_mem _ hp))⟩
    obtain ⟨dirty, hl⟩ := hq.1
    obtain ⟨b, hb⟩ := hc h List.mem_cons_self _ hl
    exact ⟨b, hb⟩

theorem qok_append {objs : Objs} : ∀ {d : Nat} {q : List Pt}, QOK objs d q → ∀ {p : Pt}, p ∉ q →
    ∀ (b : Bool), QOK (ainsert objs p ⟨b, d + q.length⟩) d (q ++ [p])
  | d, [], _, p, _, b => by
    simp only [List.nil_append, QOK, List.length_nil, Nat.add_zero, and_true]
    exact ⟨b, alookup_ainsert_self _ _ _⟩
  | d, h :: t, hq, p, hp, b => by
    have hne : p ≠ h := fun e => hp (e ▸ List.mem_cons_self)
    have hpt : p ∉ t := fun e => hp (List.mem_cons_of_mem _ e)
    refine ⟨?_, ?_⟩
    · obtain ⟨dirty, hl⟩ := hq.1
      exact ⟨dirty, by rw [alookup_ainsert_ne _ _ hne]; exact hl⟩
    · have := qok_append hq.2 hpt b
      simp only [List.length_cons]
      have e : d + (t.length + 1) = d + 1 + t.length := by omega
      rw [e]; exact this

theorem isDirty_congr {objs objs' : Objs} {q : List Pt}
    (h : ∀ p ∈ q, isDirty objs' p = isDirty objs p) : dirtyCount objs' q = dirtyCount objs q := by
  unfold dirtyCount
  congr 1
  apply List.filter_congr
  intro x hx; exact h x hx

/-! ### the structural invariant of a binding's buffet state -/

structure SInv (s : B1) (q : List Pt) : Prop where
  nodup : q.Nodup
  mem   : ∀ p, (alookup s.objs p).isSome = true ↔ p ∈ q
  qok   : QOK s.objs s.drain q
  fill  : s.fill = s.drain + q.length
  rdy   : ∀ j p, alookup s.ready j = some p → ∃ d, alookup s.objs p = some ⟨d, j⟩

theorem SInv.mem_of_lookup {s : B1} {q : List Pt} (h : SInv s q) {p : Pt} {en : BEntry}
    (hl : alookup s.objs p = some en) : p ∈ q := (h.mem p).1 (by simp [hl])

theorem SInv.lookup_of_mem {s : B1} {q : List Pt} (h : SInv s q) {p : Pt} (hp : p ∈ q) :
    ∃ en, alookup s.objs p = some en := by
  have := (h.mem p).2 hp
  cases hl : alookup s.objs p with
  | none => simp [hl] at this
  | some en => exact ⟨en, rfl⟩

/-- the drain loop removes a prefix of ready lines, charges the dirty ones, and stops in front of
    a line that is not ready -/
theorem drainLoop_spec (ls : Nat) : ∀ (fuel : Nat) (s : B1) (q : List Pt), SInv s q →
    s.ready.length ≤ fuel →
    ∃ pre q', q = pre ++ q' ∧ SInv (drainLoop ls fuel s) q' ∧
      (∀ p ∈ pre, IsReady s p) ∧
      (drainLoop ls fuel s).reads = s.reads ∧
      (drainLoop ls fuel s).writes + ls * dirtyCount (drainLoop ls fuel s).objs q'
        = s.writes + ls * dirtyCount s.objs q ∧
      (∀ p ∈ q', alookup (drainLoop ls fuel s).objs p = alookup s.objs p) ∧
      (∀ j p, alookup (drainLoop ls fuel s).ready j = some p → alookup s.ready j = some p) ∧
      (∀ j p, alookup s.ready j = some p → p ∈ q' → alookup (drainLoop ls fuel s).ready j = some p) ∧
      alookup (drainLoop ls fuel s).ready (drainLoop ls fuel s).drain = none
  | 0, s, q, hs, hf => by
    have : s.ready = [] := List.eq_nil_of_length_eq_zero (by omega)
    refine ⟨[], q, rfl, by simpa [drainLoop] using hs, by simp, rfl, rfl, fun _ _ => rfl,
      fun _ _ h => h, fun _ _ h _ => h, ?_⟩
    simp [drainLoop, this, alookup]
  | fuel + 1, s, q, hs, hf => by
    cases hr : alookup s.ready s.drain with
    | none =>
      have e : drainLoop ls (fuel + 1) s = s := by simp [drainLoop, hr]
      rw [e]
      exact ⟨[], q, rfl, hs, by simp, rfl, rfl, fun _ _ => rfl, fun _ _ h => h, fun _ _ h _ => h, hr⟩
    | some obj =>
      -- `obj` is resident with index `drain`, hence it is the front of the queue
      obtain ⟨d, hobj⟩ := hs.rdy _ _ hr
      have hmem : obj ∈ q := hs.mem_of_lookup hobj
      cases q with
      | nil => cases hmem
      | cons h t =>
        have hobjh : obj = h := qok_head_unique hs.qok hmem hobj rfl
        subst hobjh
        have hnd := List.nodup_cons.1 hs.nodup
        -- the state after one iteration
        let s1 : B1 := { s with writes := (if d then s.writes + ls else s.writes),
                                 objs := aerase s.objs obj,
                                 ready := aerase s.ready s.drain,
                                 drain := s.drain + 1,
                                 occ := s.occ - ls }
        have e : drainLoop ls (fuel + 1) s = drainLoop ls fuel s1 := by
          simp [drainLoop, hr, hobj, s1]
        have hs1 : SInv s1 t := by
          refine ⟨hnd.2, ?_, ?_, ?_, ?_⟩
          · intro p
            show (alookup (aerase s.objs obj) p).isSome = true ↔ p ∈ t
            by_cases hp : obj = p
            · subst hp; simp [alookup_aerase_self, hnd.1]
            · rw [alookup_aerase_ne _ hp, hs.mem p]
              simp [List.mem_cons, Ne.symm hp]
          · show QOK (aerase s.objs obj) (s.drain + 1) t
            apply qok_congr hs.qok.2
            intro p hp en hen
            have : obj ≠ p := fun e => hnd.1 (e ▸ hp)
            exact ⟨en.dirty, by rw [alookup_aerase_ne _ this, hen]⟩
          · show s.fill = s.drain + 1 + t.length
            have := hs.fill; simp only [List.length_cons] at this; omega
          · intro j p hj
            show ∃ d, alookup (aerase s.objs obj) p = some ⟨d, j⟩
            have hj' : alookup (aerase s.ready s.drain) j = some p := hj
            rw [alookup_aerase] at hj'
            by_cases hjd : s.drain = j
            · simp [hjd] at hj'
            · simp only [hjd, if_false] at hj'
              obtain ⟨d', hd'⟩ := hs.rdy _ _ hj'
              have : obj ≠ p := by
                intro e; subst e; rw [hobj] at hd'; cases hd'; exact hjd rfl
              exact ⟨d', by rw [alookup_aerase_ne _ this, hd']⟩
        have hf1 : s1.ready.length ≤ fuel := by
          have := aerase_length_lt s.ready s.drain hr
          show (aerase s.ready s.drain).length ≤ fuel
          omega
        obtain ⟨pre, q', hq, hs', hpre, hreads, hwrites, hobjs, hrdy1, hrdy2, hhead⟩ :=
          drainLoop_spec ls fuel s1 t hs1 hf1
        rw [e]
        refine ⟨obj :: pre, q', by simp [hq], hs', ?_, ?_, ?_, ?_, ?_, ?_, hhead⟩
        · intro p hp
          rcases List.mem_cons.1 hp with rfl | hp
          · exact ⟨_, hobj, hr⟩
          · obtain ⟨en, hen1, hen2⟩ := hpre p hp
            have hpt : p ∈ t := by rw [hq]; exact List.mem_append_left _ hp
            have hne : obj ≠ p := fun e => hnd.1 (e ▸ hpt)
            have h1 : alookup s.objs p = some en := by
              have : alookup (aerase s.objs obj) p = some en := hen1
              rwa [alookup_aerase_ne _ hne] at this
            have h2 : alookup (aerase s.ready s.drain) en.idx = some p := hen2
            rw [alookup_aerase] at h2
            by_cases hjd : s.drain = en.idx
            · simp [hjd] at h2
            · simp only [hjd, if_false] at h2
              exact ⟨en, h1, h2⟩
        · rw [hreads]
        · rw [hwrites]
          show (if d = true then s.writes + ls else s.writes) + ls * dirtyCount (aerase s.objs obj) t
            = s.writes + ls * dirtyCount s.objs (obj :: t)
          have hc : dirtyCount (aerase s.objs obj) t = dirtyCount s.objs t := by
            apply isDirty_congr
            intro p hp
            have : obj ≠ p := fun e => hnd.1 (e ▸ hp)
            simp [isDirty, alookup_aerase_ne _ this]
          rw [hc]
          have hd : isDirty s.objs obj = d := by simp [isDirty, hobj]
          simp only [dirtyCount, List.filter_cons, hd]
          cases d
          · simp
          · simp only [if_true, List.length_cons]
            rw [Nat.mul_add]; omega
        · intro p hp
          rw [hobjs p hp]
          have hpt : p ∈ t := by rw [hq]; exact List.mem_append_right _ hp
          have : obj ≠ p := fun e => hnd.1 (e ▸ hpt)
          exact alookup_aerase_ne _ this
        · intro j p hj
          have := hrdy1 j p hj
          have h2 : alookup (aerase s.ready s.drain) j = some p := this
          rw [alookup_aerase] at h2
          by_cases hjd : s.drain = j
          · simp [hjd] at h2
          · simpa [hjd] using h2
        · intro j p hj hp
          apply hrdy2 j p _ hp
          show alookup (aerase s.ready s.drain) j = some p
          rw [alookup_aerase]
          have hpt : p ∈ t := by rw [hq]; exact List.mem_append_right _ hp
          by_cases hjd : s.drain = j
          · exfalso
            subst hjd
            rw [hr] at hj; cases hj
            exact hnd.1 hpt
          · simp [hjd, hj]

/-! ### the trace-level invariant -/

/-- eviction window of an access: the stamp down to the evict-on rank -/
def win (e : Nat) (a : Acc) : List Nat := a.stamp.take e

theorem gkey_eq (e : Nat) (a : Acc) : a.gkey e = (a.point, win e a) := rfl

/-- `next` is the stamp of the first later access to the same line -/
def NextOk : List Acc → Prop
  | [] => True
  | a :: rest => a.next = (rest.find? (fun x => decide (x.point = a.point))).map (·.stamp) ∧ NextOk rest

/-- the rows of one window are adjacent -/
def WinContig (e : Nat) : List Acc → Prop
  | [] => True
  | a :: rest =>
    (∀ pre x post, rest = pre ++ x :: post → win e x = win e a → ∀ y ∈ pre, win e y = win e a)
      ∧ WinContig e rest

theorem bToBuf_iff (e : Nat) (a : Acc) (rest : List Acc)
    (h : a.next = (rest.find? (fun x => decide (x.point = a.point))).map (·.stamp)) :
    bToBuf e a = true ↔
      ∃ x, rest.find? (fun x => decide (x.point = a.point)) = some x ∧ win e x = win e a := by
  unfold bToBuf
  rw [h]
  cases hf : rest.find? (fun x => decide (x.point = a.point)) with
  | none => simp
  | some x =>
    simp only [Option.map_some, decide_eq_true_eq, Option.some.injEq, exists_eq_left', win]
    exact eq_comm

theorem find_split {l : List Acc} {P : Acc → Bool} {x : Acc} (h : l.find? P = some x) :
    P x = true ∧ ∃ pre post, l = pre ++ x :: post ∧ ∀ y ∈ pre, P y = false := by
  have := List.find?_eq_some_iff_append.1 h
  refine ⟨this.1, ?_⟩
  obtain ⟨as, bs, hl, hn⟩ := this.2
  exact ⟨as, bs, hl, fun y hy => by simpa using hn y hy⟩

structure Inv (e : Nat) (s : B1) (q : List Pt) (seen sd : List GKey) (w : List Nat)
    (rem : List Acc) : Prop where
  sinv  : SInv s q
  head  : alookup s.ready s.drain = none
  cur   : ∀ p ∈ q, (p, w) ∈ seen
  opn   : ∀ p ∈ q, ¬ IsReady s p →
            ∃ x, rem.find? (fun x => decide (x.point = p)) = some x ∧ win e x = w
  cls   : ∀ p ∈ q, IsReady s p → ∀ x ∈ rem, x.point = p → win e x ≠ w
  gone  : ∀ k ∈ seen, k.1 ∉ q → ∀ x ∈ rem, x.gkey e ≠ k
  sdsub : ∀ k ∈ sd, k ∈ seen
  dirty : ∀ p ∈ q, (isDirty s.objs p = true ↔ (p, w) ∈ sd)
  c1    : ∀ k ∈ seen, k.2 ≠ w → ∀ x ∈ rem, win e x ≠ k.2
  c2    : seen ≠ [] → ∀ pre x post, rem = pre ++ x :: post → win e x = w → ∀ y ∈ pre, win e y = w
  c3    : WinContig e rem

theorem head_not_ready {s : B1} {h : Pt} {t : List Pt} (hs : SInv s (h :: t))
    (hd : alookup s.ready s.drain = none) : ¬ IsReady s h := by
  rintro ⟨en, hen, hr⟩
  obtain ⟨d, hl⟩ := hs.qok.1
  rw [hl] at hen; cases hen
  rw [hd] at hr; cases hr

theorem q_nil_of_all_ready {s : B1} {q : List Pt} (hs : SInv s q)
    (hd : alookup s.ready s.drain = none) (h : ∀ p ∈ q, IsReady s p) : q = [] := by
  cases q with
  | nil => rfl
  | cons a t => exact absurd (h a List.mem_cons_self) (head_not_ready hs hd)

/-- the next row either continues the current window or the buffet is empty -/
theorem Inv.win_or_empty {e : Nat} {s : B1} {q : List Pt} {seen sd : List GKey} {w : List Nat}
    {a : Acc} {rest : List Acc} (hI : Inv e s q seen sd w (a :: rest)) : win e a = w ∨ q = [] := by
  by_cases hw : win e a = w
  · exact Or.inl hw
  · right
    apply q_nil_of_all_ready hI.sinv hI.head
    intro p hp
    apply Classical.byContradiction
    intro hnr
    obtain ⟨x, hx, hxw⟩ := hI.opn p hp hnr
    obtain ⟨_, pre, post, hl, _⟩ := find_split hx
    have hseen : seen ≠ [] := by
      intro e; have := hI.cur p hp; rw [e] at this; cases this
    cases pre with
    | nil =>
      simp only [List.nil_append, List.cons.injEq] at hl
      rw [hl.1] at hw; exact hw hxw
    | cons y pre' =>
      simp only [List.cons_append, List.cons.injEq] at hl
      have := hI.c2 hseen (a :: pre') x post (by rw [hl.2]; simp) hxw a List.mem_cons_self
      exact hw this

/-- a resident line that is accessed now is open, and the access continues the current window -/
theorem Inv.hit_open {e : Nat} {s : B1} {q : List Pt} {seen sd : List GKey} {w : List Nat}
    {a : Acc} {rest : List Acc} (hI : Inv e s q seen sd w (a :: rest)) (hp : a.point ∈ q) :
    ¬ IsReady s a.point ∧ win e a = w := by
  have hopen : ¬ IsReady s a.point → win e a = w := by
    intro hnr
    obtain ⟨x, hx, hxw⟩ := hI.opn _ hp hnr
    simp only [List.find?_cons, decide_true, Option.some.injEq] at hx
    rw [hx]; exact hxw
  by_cases hr : IsReady s a.point
  · exfalso
    cases q with
    | nil => cases hp
    | cons h t =>
      have hnh := head_not_ready hI.sinv hI.head
      obtain ⟨x, hx, hxw⟩ := hI.opn h List.mem_cons_self hnh
      obtain ⟨hxp, pre, post, hl, _⟩ := find_split hx
      have hseen : seen ≠ [] := by
        intro e; have := hI.cur h List.mem_cons_self; rw [e] at this; cases this
      have hwa : win e a = w := by
        cases pre with
        | nil =>
          simp only [List.nil_append, List.cons.injEq] at hl
          -- the accessed line would be the (open) front of the queue
          exfalso
          have : a.point = h := by rw [hl.1]; simpa using hxp
          rw [this] at hr; exact hnh hr
        | cons y pre' =>
          simp only [List.cons_append, List.cons.injEq] at hl
          exact hI.c2 hseen (a :: pre') x post (by rw [hl.2]; simp) hxw a List.mem_cons_self
      exact hI.cls _ hp hr a List.mem_cons_self rfl hwa
  · exact ⟨hr, hopen hr⟩

/-- a line that is not resident starts a new (line, window) group -/
theorem Inv.miss_new {e : Nat} {s : B1} {q : List Pt} {seen sd : List GKey} {w : List Nat}
    {a : Acc} {rest : List Acc} (hI : Inv e s q seen sd w (a :: rest)) (hp : a.point ∉ q) :
    a.gkey e ∉ seen := by
  intro hk
  exact hI.gone _ hk hp a List.mem_cons_self rfl

/-- after a row that ends its group, the group never reappears -/
theorem no_later_same_group {e : Nat} {a : Acc} {rest : List Acc} (hc : WinContig e (a :: rest))
    (hn : a.next = (rest.find? (fun x => decide (x.point = a.point))).map (·.stamp))
    (hb : bToBuf e a = false) : ∀ x ∈ rest, x.point = a.point → win e x ≠ win e a := by
  intro x hx hxp hxw
  have hnb : ¬ (∃ x, rest.find? (fun x => decide (x.point = a.point)) = some x ∧ win e x = win e a) := by
    rw [← bToBuf_iff e a rest hn, hb]; simp
  cases hf : rest.find? (fun x => decide (x.point = a.point)) with
  | none =>
    have := List.find?_eq_none.1 hf x hx
    simp [hxp] at this
  | some y =>
    obtain ⟨_, pre, post, hl, hpre⟩ := find_split hf
    -- x is y or comes after y; all rows before x have a's window, so y has it as well
    have hy : win e y = win e a := by
      rw [hl] at hx
      rcases List.mem_append.1 hx with hx1 | hx2
      · have := hpre x hx1; simp [hxp] at this
      · rcases List.mem_cons.1 hx2 with rfl | hx3
        · exact hxw
        · obtain ⟨p1, p2, hp⟩ := List.append_of_mem hx3
          have := hc.1 (pre ++ y :: p1) x p2 (by rw [hl, hp]; simp) hxw y (by simp)
          exact this
    exact hnb ⟨y, hf, hy⟩

/-- the window bookkeeping after consuming one row -/
theorem Inv.c_next {e : Nat} {s : B1} {q : List Pt} {seen sd : List GKey} {w : List Nat}
    {a : Acc} {rest : List Acc} (hI : Inv e s q seen sd w (a :: rest)) :
    (∀ k' ∈ a.gkey e :: seen, k'.2 ≠ win e a → ∀ x ∈ rest, win e x ≠ k'.2) ∧
    (∀ pre x post, rest = pre ++ x :: post → win e x = win e a → ∀ y ∈ pre, win e y = win e a) ∧
    WinContig e rest := by
  refine ⟨?_, hI.c3.1, hI.c3.2⟩
  intro k' hk' hne x hx
  rcases List.mem_cons.1 hk' with rfl | hk'
  · exact absurd rfl hne
  · by_cases hkw : k'.2 = w
    · intro hxw
      obtain ⟨p1, p2, hp⟩ := List.append_of_mem hx
      have hseen : seen ≠ [] := by intro e; rw [e] at hk'; cases hk'
      have := hI.c2 hseen (a :: p1) x p2 (by rw [hp]; simp) (by rw [hxw, hkw]) a List.mem_cons_self
      exact hne (by rw [hkw, this])
    · exact hI.c1 k' hk' hkw x (List.mem_cons_of_mem _ hx)

theorem isDirty_ainsert_self (objs : Objs) (p : Pt) (en : BEntry) :
    isDirty (ainsert objs p en) p = en.dirty := by simp [isDirty, alookup_ainsert_self]

theorem isDirty_ainsert_ne (objs : Objs) {p p' : Pt} (en : BEntry) (h : p ≠ p') :
    isDirty (ainsert objs p en) p' = isDirty objs p' := by simp [isDirty, alookup_ainsert_ne _ _ h]

theorem dirtyCount_append (objs : Objs) (q : List Pt) (p : Pt) :
    dirtyCount objs (q ++ [p]) = dirtyCount objs q + (if isDirty objs p then 1 else 0) := by
  unfold dirtyCount
  rw [List.filter_append, List.length_append]
  cases h : isDirty objs p <;> simp [List.filter_cons, h]

/-- miss, and the line will be used again inside its window: it is filled -/
theorem Inv.step_fill {e ls : Nat} {s : B1} {q : List Pt} {seen sd : List GKey} {w : List Nat}
    {a : Acc} {rest : List Acc} (hI : Inv e s q seen sd w (a :: rest))
    (hn : a.next = (rest.find? (fun x => decide (x.point = a.point))).map (·.stamp))
    (hp : a.point ∉ q) (hb : bToBuf e a = true) :
    ∃ q', Inv e (bstep e ls s a) q' (a.gkey e :: seen) (if a.wb then a.gkey e :: sd else sd)
            (win e a) rest ∧
      (bstep e ls s a).reads = s.reads + (if a.isWrite then 0 else ls) ∧
      (bstep e ls s a).writes + ls * dirtyCount (bstep e ls s a).objs q'
        = s.writes + ls * dirtyCount s.objs q + (if a.wb then ls else 0) := by
  have hnone : alookup s.objs a.point = none := by
    cases hl : alookup s.objs a.point with
    | none => rfl
    | some en => exact absurd (hI.sinv.mem_of_lookup hl) hp
  let s' : B1 := { s with reads := (if a.isWrite then s.reads else s.reads + ls),
                          objs := ainsert s.objs a.point ⟨a.wb, s.fill⟩,
                          fill := s.fill + 1, occ := s.occ + ls }
  have es : bstep e ls s a = s' := by
    cases hw : a.isWrite <;> simp [bstep, hnone, hb, hw, s']
  rw [es]
  have hwe := hI.win_or_empty
  have hknew : a.gkey e ∉ seen := hI.miss_new hp
  obtain ⟨hc1, hc2, hc3⟩ := hI.c_next
  have hnr' : ∀ p ∈ q, (IsReady s' p ↔ IsReady s p) := by
    intro p hpq
    have hne : a.point ≠ p := fun e => hp (e ▸ hpq)
    constructor
    · rintro ⟨en, h1, h2⟩
      exact ⟨en, by simpa [s', alookup_ainsert_ne _ _ hne] using h1, h2⟩
    · rintro ⟨en, h1, h2⟩
      exact ⟨en, by simpa [s', alookup_ainsert_ne _ _ hne] using h1, h2⟩
  have hanr : ¬ IsReady s' a.point := by
    rintro ⟨en, h1, h2⟩
    have h1' : alookup (ainsert s.objs a.point ⟨a.wb, s.fill⟩) a.point = some en := h1
    rw [alookup_ainsert_self] at h1'; cases h1'
    obtain ⟨d, hd⟩ := hI.sinv.rdy _ _ h2
    rw [hnone] at hd; cases hd
  refine ⟨q ++ [a.point], ⟨?_, hI.head, ?_, ?_, ?_, ?_, ?_, ?_, hc1, fun _ => hc2, hc3⟩, ?_, ?_⟩
  · -- structural
    refine ⟨?_, ?_, ?_, ?_, ?_⟩
    · exact List.nodup_append.2 ⟨hI.sinv.nodup, by simp, by
        intro x hx y hy; simp at hy; subst hy; intro e; exact hp (e ▸ hx)⟩
    · intro p
      show (alookup (ainsert s.objs a.point ⟨a.wb, s.fill⟩) p).isSome = true ↔ p ∈ q ++ [a.point]
      rw [alookup_ainsert]
      by_cases h : a.point = p
      · subst h; simp
      · simp only [h, if_false, List.mem_append, List.mem_singleton]
        rw [hI.sinv.mem p]
        constructor
        · exact Or.inl
        · rintro (h1 | h1)
          · exact h1
          · exact absurd h1.symm h
    · show QOK (ainsert s.objs a.point ⟨a.wb, s.fill⟩) s.drain (q ++ [a.point])
      rw [hI.sinv.fill]; exact qok_append hI.sinv.qok hp _
    · show s.fill + 1 = s.drain + (q ++ [a.point]).length
      rw [hI.sinv.fill]; simp; omega
    · intro j p hj
      obtain ⟨d, hd⟩ := hI.sinv.rdy j p hj
      have hne : a.point ≠ p := by
        intro e; rw [← e, hnone] at hd; cases hd
      exact ⟨d, by show alookup (ainsert s.objs a.point _) p = _; rw [alookup_ainsert_ne _ _ hne]; exact hd⟩
  · -- cur
    intro p hpq
    rcases List.mem_append.1 hpq with h1 | h1
    · rcases hwe with hw | hq
      · rw [hw]; exact List.mem_cons_of_mem _ (hI.cur p h1)
      · rw [hq] at h1; cases h1
    · simp at h1; subst h1; exact List.mem_cons_self
  · -- opn
    intro p hpq hnr
    rcases List.mem_append.1 hpq with h1 | h1
    · have hne : a.point ≠ p := fun e => hp (e ▸ h1)
      obtain ⟨x, hx, hxw⟩ := hI.opn p h1 (fun h => hnr ((hnr' p h1).2 h))
      simp only [List.find?_cons, hne, decide_false] at hx
      refine ⟨x, hx, ?_⟩
      rcases hwe with hw | hq
      · rw [hw]; exact hxw
      · rw [hq] at h1; cases h1
    · simp at h1; subst h1
      exact (bToBuf_iff e a rest hn).1 hb
  · -- cls
    intro p hpq hr x hx hxp
    rcases List.mem_append.1 hpq with h1 | h1
    · have := hI.cls p h1 ((hnr' p h1).1 hr) x (List.mem_cons_of_mem _ hx) hxp
      rcases hwe with hw | hq
      · rw [hw]; exact this
      · rw [hq] at h1; cases h1
    · simp at h1; subst h1; exact absurd hr hanr
  · -- gone
    intro k' hk' hkq x hx
    rcases List.mem_cons.1 hk' with rfl | hk'
    · exact absurd (List.mem_append_right q (List.mem_singleton.2 rfl)) hkq
    · exact hI.gone k' hk' (fun h => hkq (List.mem_append_left _ h)) x (List.mem_cons_of_mem _ hx)
  · -- sdsub
    intro k' hk'
    cases hwb : a.wb
    · simp only [hwb, Bool.false_eq_true, if_false] at hk'
      exact List.mem_cons_of_mem _ (hI.sdsub k' hk')
    · simp only [hwb, if_true] at hk'
      rcases List.mem_cons.1 hk' with rfl | hk'
      · exact List.mem_cons_self
      · exact List.mem_cons_of_mem _ (hI.sdsub k' hk')
  · -- dirty
    intro p hpq
    show isDirty (ainsert s.objs a.point ⟨a.wb, s.fill⟩) p = true ↔ _
    rcases List.mem_append.1 hpq with h1 | h1
    · have hne : a.point ≠ p := fun e => hp (e ▸ h1)
      rw [isDirty_ainsert_ne _ _ hne]
      have hw : win e a = w := by
        rcases hwe with hw | hq
        · exact hw
        · rw [hq] at h1; cases h1
      rw [hw, hI.dirty p h1]
      cases hwb : a.wb
      · simp
      · simp only [if_true, List.mem_cons]
        constructor
        · exact Or.inr
        · rintro (h2 | h2)
          · rw [gkey_eq] at h2; simp only [Prod.mk.injEq] at h2; exact absurd h2.1.symm hne
          · exact h2
    · simp at h1; subst h1
      rw [isDirty_ainsert_self]
      cases hwb : a.wb
      · simp only [Bool.false_eq_true, if_false, false_iff]
        intro h; exact hknew (hI.sdsub _ h)
      · simp [gkey_eq]
  · cases hw : a.isWrite <;> simp [s', hw]
  · show s.writes + ls * dirtyCount (ainsert s.objs a.point ⟨a.wb, s.fill⟩) (q ++ [a.point]) = _
    rw [dirtyCount_append, isDirty_ainsert_self]
    have : dirtyCount (ainsert s.objs a.point ⟨a.wb, s.fill⟩) q = dirtyCount s.objs q := by
      apply isDirty_congr
      intro p hpq
      exact isDirty_ainsert_ne _ _ (fun e => hp (e ▸ hpq))
    rw [this]
    cases a.wb <;> simp [Nat.mul_add] <;> omega

/-- miss, and the line is not used again inside its window: it bypasses the buffet -/
theorem Inv.step_bypass {e ls : Nat} {s : B1} {q : List Pt} {seen sd : List GKey} {w : List Nat}
    {a : Acc} {rest : List Acc} (hI : Inv e s q seen sd w (a :: rest))
    (hn : a.next = (rest.find? (fun x => decide (x.point = a.point))).map (·.stamp))
    (hp : a.point ∉ q) (hb : bToBuf e a = false) :
    Inv e (bstep e ls s a) q (a.gkey e :: seen) (if a.wb then a.gkey e :: sd else sd)
            (win e a) rest ∧
      (bstep e ls s a).reads = s.reads + (if a.isWrite then 0 else ls) ∧
      (bstep e ls s a).writes + ls * dirtyCount (bstep e ls s a).objs q
        = s.writes + ls * dirtyCount s.objs q + (if a.wb then ls else 0) := by
  have hnone : alookup s.objs a.point = none := by
    cases hl : alookup s.objs a.point with
    | none => rfl
    | some en => exact absurd (hI.sinv.mem_of_lookup hl) hp
  let s' : B1 := { s with reads := (if a.isWrite then s.reads else s.reads + ls),
                          writes := (if a.wb then s.writes + ls else s.writes) }
  have es : bstep e ls s a = s' := by
    cases hw : a.isWrite <;> cases hwb : a.wb <;> simp [bstep, hnone, hb, hw, hwb, s']
  rw [es]
  have hwe := hI.win_or_empty
  have hknew : a.gkey e ∉ seen := hI.miss_new hp
  obtain ⟨hc1, hc2, hc3⟩ := hI.c_next
  have hrd : ∀ p, IsReady s' p ↔ IsReady s p := fun p => Iff.rfl
  have hwq : ∀ p ∈ q, win e a = w := by
    intro p h1
    rcases hwe with hw | hq
    · exact hw
    · rw [hq] at h1; cases h1
  refine ⟨⟨⟨hI.sinv.nodup, hI.sinv.mem, hI.sinv.qok, hI.sinv.fill, hI.sinv.rdy⟩, hI.head, ?_, ?_, ?_, ?_, ?_, ?_,
    hc1, fun _ => hc2, hc3⟩, ?_, ?_⟩
  · intro p h1; rw [hwq p h1]; exact List.mem_cons_of_mem _ (hI.cur p h1)
  · intro p h1 hnr
    have hne : a.point ≠ p := fun e => hp (e ▸ h1)
    obtain ⟨x, hx, hxw⟩ := hI.opn p h1 hnr
    simp only [List.find?_cons, hne, decide_false] at hx
    exact ⟨x, hx, by rw [hwq p h1]; exact hxw⟩
  · intro p h1 hr x hx hxp
    rw [hwq p h1]; exact hI.cls p h1 hr x (List.mem_cons_of_mem _ hx) hxp
  · intro k' hk' hkq x hx
    rcases List.mem_cons.1 hk' with rfl | hk'
    · intro hxk
      rw [gkey_eq, gkey_eq] at hxk
      simp only [Prod.mk.injEq] at hxk
      exact no_later_same_group hI.c3 hn hb x hx hxk.1 hxk.2
    · exact hI.gone k' hk' hkq x (List.mem_cons_of_mem _ hx)
  · intro k' hk'
    cases hwb : a.wb
    · simp only [hwb, Bool.false_eq_true, if_false] at hk'
      exact List.mem_cons_of_mem _ (hI.sdsub k' hk')
    · simp only [hwb, if_true] at hk'
      rcases List.mem_cons.1 hk' with rfl | hk'
      · exact List.mem_cons_self
      · exact List.mem_cons_of_mem _ (hI.sdsub k' hk')
  · intro p h1
    have hne : a.point ≠ p := fun e => hp (e ▸ h1)
    show isDirty s.objs p = true ↔ _
    rw [hwq p h1, hI.dirty p h1]
    cases hwb : a.wb
    · simp
    · simp only [if_true, List.mem_cons]
      constructor
      · exact Or.inr
      · rintro (h2 | h2)
        · rw [gkey_eq] at h2; simp only [Prod.mk.injEq] at h2; exact absurd h2.1.symm hne
        · exact h2
  · cases hw : a.isWrite <;> simp [s', hw]
  · show (if a.wb then s.writes + ls else s.writes) + ls * dirtyCount s.objs q = _
    cases a.wb <;> simp <;> omega

theorem qok_inj {objs : Objs} : ∀ {d : Nat} {q : List Pt}, QOK objs d q → q.Nodup →
    ∀ {p p' : Pt}, p ∈ q → p' ∈ q → ∀ {en en' : BEntry}, alookup objs p = some en →
      alookup objs p' = some en' → en.idx = en'.idx → p = p'
  | d, h :: t, hq, hnd, p, p', hp, hp', en, en', hen, hen', hi => by
    have hnd' := List.nodup_cons.1 hnd
    obtain ⟨dd, hl⟩ := hq.1
    by_cases h1 : p = h
    · by_cases h2 : p' = h
      · rw [h1, h2]
      · have hp't : p' ∈ t := by
          rcases List.mem_cons.1 hp' with e | e
          · exact absurd e h2
          · exact e
        rw [h1, hl] at hen; cases hen
        have := qok_ge hq.2 hp't hen'
        simp only at hi; omega
    · have hpt : p ∈ t := by
        rcases List.mem_cons.1 hp with e | e
        · exact absurd e h1
        · exact e
      by_cases h2 : p' = h
      · rw [h2, hl] at hen'; cases hen'
        have := qok_ge hq.2 hpt hen
        simp only at hi; omega
      · have hp't : p' ∈ t := by
          rcases List.mem_cons.1 hp' with e | e
          · exact absurd e h2
          · exact e
        exact qok_inj hq.2 hnd'.2 hpt hp't hen hen' hi

theorem dirtyCount_set (objs : Objs) (p : Pt) (d wb : Bool) (i : Nat) (hd : isDirty objs p = d) :
    ∀ (q : List Pt), q.Nodup → p ∈ q →
      dirtyCount (ainsert objs p ⟨d || wb, i⟩) q = dirtyCount objs q + (if wb && !d then 1 else 0)
  | h :: t, hnd, hp => by
    have hnd' := List.nodup_cons.1 hnd
    unfold dirtyCount
    by_cases hph : p = h
    · subst hph
      have ht : dirtyCount (ainsert objs p ⟨d || wb, i⟩) t = dirtyCount objs t := by
        apply isDirty_congr
        intro x hx
        exact isDirty_ainsert_ne _ _ (fun e => hnd'.1 (e ▸ hx))
      unfold dirtyCount at ht
      simp only [List.filter_cons, isDirty_ainsert_self, hd]
      cases d <;> cases wb <;>
        (simp only [Bool.or_false, Bool.or_true, Bool.or_self] at ht ⊢; simp [ht])
    · have hpt : p ∈ t := by
        rcases List.mem_cons.1 hp with h1 | h1
        · exact absurd h1 hph
        · exact h1
      have ih := dirtyCount_set objs p d wb i hd t hnd'.2 hpt
      unfold dirtyCount at ih
      simp only [List.filter_cons, isDirty_ainsert_ne _ _ hph]
      cases isDirty objs h <;> simp [ih] <;> omega

/-- hit: the line is open and in the current window; it stays (used again in the window) or is
    handed to the in-order drain queue (last use in the window) -/
theorem Inv.step_hit {e ls : Nat} {s : B1} {q : List Pt} {seen sd : List GKey} {w : List Nat}
    {a : Acc} {rest : List Acc} (hI : Inv e s q seen sd w (a :: rest))
    (hn : a.next = (rest.find? (fun x => decide (x.point = a.point))).map (·.stamp))
    (hp : a.point ∈ q) :
    ∃ q', Inv e (bstep e ls s a) q' (a.gkey e :: seen) (if a.wb then a.gkey e :: sd else sd)
            (win e a) rest ∧
      (bstep e ls s a).reads = s.reads ∧
      (bstep e ls s a).writes + ls * dirtyCount (bstep e ls s a).objs q'
        = s.writes + ls * dirtyCount s.objs q + (if a.wb = true ∧ a.gkey e ∉ sd then ls else 0) := by
  obtain ⟨hnr, hw⟩ := hI.hit_open hp
  obtain ⟨en, hen⟩ := hI.sinv.lookup_of_mem hp
  obtain ⟨hc1, hc2, hc3⟩ := hI.c_next
  have hk : a.gkey e = (a.point, w) := by rw [gkey_eq, hw]
  have hkseen : a.gkey e ∈ seen := by rw [hk]; exact hI.cur _ hp
  have hdirty : isDirty s.objs a.point = en.dirty := by simp [isDirty, hen]
  -- the new dirty flag
  let objs1 : Objs := ainsert s.objs a.point ⟨en.dirty || a.wb, en.idx⟩
  have hsd : setDirty s.objs a.point a.wb = objs1 := by simp [setDirty, hen, objs1]
  have hl1 : alookup objs1 a.point = some ⟨en.dirty || a.wb, en.idx⟩ := alookup_ainsert_self _ _ _
  have hl1ne : ∀ p, a.point ≠ p → alookup objs1 p = alookup s.objs p :=
    fun p h => alookup_ainsert_ne _ _ h
  have hcount : dirtyCount objs1 q = dirtyCount s.objs q + (if a.wb && !en.dirty then 1 else 0) :=
    dirtyCount_set s.objs a.point en.dirty a.wb en.idx hdirty q hI.sinv.nodup hp
  have hacc : (if a.wb && !en.dirty then 1 else 0) = (if a.wb = true ∧ a.gkey e ∉ sd then 1 else 0) := by
    have := hI.dirty _ hp
    rw [hdirty, ← hk] at this
    cases hwb : a.wb <;> cases hd : en.dirty <;> simp [hd] at this ⊢ <;> simp [this]
  have hqok1 : QOK objs1 s.drain q := by
    apply qok_congr hI.sinv.qok
    intro p hpq en' hen'
    by_cases h : a.point = p
    · subst h; rw [hen] at hen'; cases hen'; exact ⟨_, hl1⟩
    · exact ⟨en'.dirty, by rw [hl1ne p h, hen']⟩
  have hmem1 : ∀ p, (alookup objs1 p).isSome = true ↔ p ∈ q := by
    intro p
    by_cases h : a.point = p
    · subst h; simp [hl1, hp]
    · rw [hl1ne p h]; exact hI.sinv.mem p
  have hsd' : ∀ k' ∈ (if a.wb then a.gkey e :: sd else sd), k' ∈ a.gkey e :: seen := by
    intro k' hk'
    cases hwb : a.wb
    · simp only [hwb, Bool.false_eq_true, if_false] at hk'
      exact List.mem_cons_of_mem _ (hI.sdsub k' hk')
    · simp only [hwb, if_true] at hk'
      rcases List.mem_cons.1 hk' with rfl | hk'
      · exact List.mem_cons_self
      · exact List.mem_cons_of_mem _ (hI.sdsub k' hk')
  have hdirty1 : ∀ p ∈ q, (isDirty objs1 p = true ↔ (p, win e a) ∈ (if a.wb then a.gkey e :: sd else sd)) := by
    intro p hpq
    rw [hw]
    by_cases h : a.point = p
    · subst h
      have := hI.dirty _ hp
      simp only [isDirty, hl1]
      rw [hdirty] at this
      cases hwb : a.wb
      · simpa using this
      · simp [hk]
    · have := hI.dirty p hpq
      simp only [isDirty, hl1ne p h]
      simp only [isDirty] at this
      rw [this]
      cases hwb : a.wb
      · simp
      · simp only [if_true, List.mem_cons]
        constructor
        · exact Or.inr
        · rintro (h2 | h2)
          · rw [hk] at h2; simp only [Prod.mk.injEq] at h2; exact absurd h2.1.symm h
          · exact h2
  cases hb : bToBuf e a
  · ---------------------------------------------------------------- last use in the window
    let s1 : B1 := { s with objs := objs1, ready := ainsert s.ready en.idx a.point }
    have es : bstep e ls s a = drainLoop ls s1.ready.length s1 := by
      simp [bstep, hen, hb, hsd, hl1, s1]
    rw [es]
    have hs1 : SInv s1 q := by
      refine ⟨hI.sinv.nodup, hmem1, hqok1, hI.sinv.fill, ?_⟩
      intro j p hj
      have hj' : alookup (ainsert s.ready en.idx a.point) j = some p := hj
      rw [alookup_ainsert] at hj'
      by_cases hji : en.idx = j
      · simp only [hji, if_true, Option.some.injEq] at hj'
        subst hj'; subst hji; exact ⟨_, hl1⟩
      · simp only [hji, if_false] at hj'
        obtain ⟨d, hd⟩ := hI.sinv.rdy j p hj'
        have hne : a.point ≠ p := by
          intro h; subst h; rw [hen] at hd; cases hd; exact hji rfl
        exact ⟨d, by show alookup objs1 p = _; rw [hl1ne p hne, hd]⟩
    have hready1 : IsReady s1 a.point := ⟨_, hl1, alookup_ainsert_self _ _ _⟩
    have hready_ne : ∀ p ∈ q, a.point ≠ p → (IsReady s1 p ↔ IsReady s p) := by
      intro p hpq hne
      have hidx : ∀ en', alookup s.objs p = some en' → en.idx ≠ en'.idx := by
        intro en' hen' hi
        exact hne (qok_inj hI.sinv.qok hI.sinv.nodup hp hpq hen hen' hi)
      constructor
      · rintro ⟨en', h1, h2⟩
        have h1' : alookup s.objs p = some en' := by rw [← hl1ne p hne]; exact h1
        have h2' : alookup (ainsert s.ready en.idx a.point) en'.idx = some p := h2
        rw [alookup_ainsert_ne _ _ (hidx en' h1')] at h2'
        exact ⟨en', h1', h2'⟩
      · rintro ⟨en', h1, h2⟩
        refine ⟨en', by show alookup objs1 p = _; rw [hl1ne p hne]; exact h1, ?_⟩
        show alookup (ainsert s.ready en.idx a.point) en'.idx = some p
        rw [alookup_ainsert_ne _ _ (hidx en' h1)]; exact h2
    obtain ⟨pre, q', hq, hs', hpre, hreads, hwrites, hobjs, hrdy1, hrdy2, hhead⟩ :=
      drainLoop_spec ls s1.ready.length s1 q hs1 (Nat.le_refl _)
    have hq'sub : ∀ p ∈ q', p ∈ q := fun p h => by rw [hq]; exact List.mem_append_right _ h
    have hnd := List.nodup_append.1 (hq ▸ hI.sinv.nodup)
    have hready' : ∀ p ∈ q', (IsReady (drainLoop ls s1.ready.length s1) p ↔ IsReady s1 p) := by
      intro p hpq
      constructor
      · rintro ⟨en', h1, h2⟩
        exact ⟨en', by rw [← hobjs p hpq]; exact h1, hrdy1 _ _ h2⟩
      · rintro ⟨en', h1, h2⟩
        exact ⟨en', by rw [hobjs p hpq]; exact h1, hrdy2 _ _ h2 hpq⟩
    have hclosed : ∀ x ∈ rest, x.point = a.point → win e x ≠ w := by
      intro x hx hxp; rw [← hw]; exact no_later_same_group hI.c3 hn hb x hx hxp
    have hcls1 : ∀ p ∈ q, IsReady s1 p → ∀ x ∈ rest, x.point = p → win e x ≠ w := by
      intro p hpq hr x hx hxp
      by_cases h : a.point = p
      · subst h; exact hclosed x hx hxp
      · exact hI.cls p hpq ((hready_ne p hpq h).1 hr) x (List.mem_cons_of_mem _ hx) hxp
    refine ⟨q', ⟨hs', hhead, ?_, ?_, ?_, ?_, hsd', ?_, hc1, fun _ => hc2, hc3⟩, ?_, ?_⟩
    · intro p hpq; rw [hw]; exact List.mem_cons_of_mem _ (hI.cur p (hq'sub p hpq))
    · intro p hpq hnr'
      have hnr1 : ¬ IsReady s1 p := fun h => hnr' ((hready' p hpq).2 h)
      have hne : a.point ≠ p := by intro h; subst h; exact hnr1 hready1
      have hnr0 : ¬ IsReady s p := fun h => hnr1 ((hready_ne p (hq'sub p hpq) hne).2 h)
      obtain ⟨x, hx, hxw⟩ := hI.opn p (hq'sub p hpq) hnr0
      simp only [List.find?_cons, hne, decide_false] at hx
      exact ⟨x, hx, by rw [hw]; exact hxw⟩
    · intro p hpq hr x hx hxp
      rw [hw]; exact hcls1 p (hq'sub p hpq) ((hready' p hpq).1 hr) x hx hxp
    · intro k' hk' hkq x hx hxk
      have hk'seen : k' ∈ seen := by
        rcases List.mem_cons.1 hk' with rfl | h
        · exact hkseen
        · exact h
      by_cases hkq0 : k'.1 ∈ q
      · have hkpre : k'.1 ∈ pre := by
          rw [hq] at hkq0
          rcases List.mem_append.1 hkq0 with h | h
          · exact h
          · exact absurd h hkq
        have hxp : x.point = k'.1 := by rw [← hxk]; rfl
        have hxw : win e x = k'.2 := by rw [← hxk]; rfl
        by_cases hkw : k'.2 = w
        · exact hcls1 _ hkq0 (hpre _ hkpre) x hx hxp (by rw [hxw, hkw])
        · exact hI.c1 k' hk'seen hkw x (List.mem_cons_of_mem _ hx) hxw
      · exact hI.gone k' hk'seen hkq0 x (List.mem_cons_of_mem _ hx) hxk
    · intro p hpq
      have : isDirty (drainLoop ls s1.ready.length s1).objs p = isDirty objs1 p := by
        simp only [isDirty, hobjs p hpq]; rfl
      rw [this]; exact hdirty1 p (hq'sub p hpq)
    · rw [hreads]
    · rw [hwrites]
      show s.writes + ls * dirtyCount objs1 q = _
      rw [hcount, hacc, Nat.mul_add]
      by_cases hcnd : a.wb = true ∧ a.gkey e ∉ sd
      · simp [hcnd]; omega
      · simp [hcnd]
  · ---------------------------------------------------------------- used again in the window
    let s' : B1 := { s with objs := objs1 }
    have es : bstep e ls s a = s' := by simp [bstep, hen, hb, hsd, s']
    rw [es]
    have hready_iff : ∀ p ∈ q, (IsReady s' p ↔ IsReady s p) := by
      intro p hpq
      by_cases h : a.point = p
      · subst h
        constructor
        · rintro ⟨en', h1, h2⟩
          have : alookup objs1 a.point = some en' := h1
          rw [hl1] at this; cases this
          exact ⟨en, hen, h2⟩
        · rintro ⟨en', h1, h2⟩
          rw [hen] at h1; cases h1
          exact ⟨_, hl1, h2⟩
      · constructor
        · rintro ⟨en', h1, h2⟩
          exact ⟨en', by rw [← hl1ne p h]; exact h1, h2⟩
        · rintro ⟨en', h1, h2⟩
          exact ⟨en', by show alookup objs1 p = _; rw [hl1ne p h]; exact h1, h2⟩
    refine ⟨q, ⟨⟨hI.sinv.nodup, hmem1, hqok1, hI.sinv.fill, ?_⟩, hI.head, ?_, ?_, ?_, ?_, hsd', hdirty1,
      hc1, fun _ => hc2, hc3⟩, rfl, ?_⟩
    · intro j p hj
      obtain ⟨d, hd⟩ := hI.sinv.rdy j p hj
      by_cases h : a.point = p
      · subst h; rw [hen] at hd; cases hd; exact ⟨_, hl1⟩
      · exact ⟨d, by show alookup objs1 p = _; rw [hl1ne p h, hd]⟩
    · intro p hpq; rw [hw]; exact List.mem_cons_of_mem _ (hI.cur p hpq)
    · intro p hpq hnr'
      by_cases h : a.point = p
      · subst h
        obtain ⟨x, hx, hxw⟩ := (bToBuf_iff e a rest hn).1 hb
        exact ⟨x, hx, hxw⟩
      · obtain ⟨x, hx, hxw⟩ := hI.opn p hpq (fun hr => hnr' ((hready_iff p hpq).2 hr))
        simp only [List.find?_cons, h, decide_false] at hx
        exact ⟨x, hx, by rw [hw]; exact hxw⟩
    · intro p hpq hr x hx hxp
      rw [hw]; exact hI.cls p hpq ((hready_iff p hpq).1 hr) x (List.mem_cons_of_mem _ hx) hxp
    · intro k' hk' hkq x hx
      have hk'seen : k' ∈ seen := by
        rcases List.mem_cons.1 hk' with rfl | h
        · exact hkseen
        · exact h
      exact hI.gone k' hk'seen hkq x (List.mem_cons_of_mem _ hx)
    · show s.writes + ls * dirtyCount objs1 q = _
      rw [hcount, hacc, Nat.mul_add]
      by_cases hcnd : a.wb = true ∧ a.gkey e ∉ sd
      · simp [hcnd]; omega
      · simp [hcnd]

/-- the whole run: fills and write-backs from any state that satisfies the invariant -/
theorem inv_run (e ls : Nat) : ∀ (rem : List Acc) (s : B1) (q : List Pt) (seen sd : List GKey)
    (w : List Nat), Inv e s q seen sd w rem → NextOk rem →
    (rem.foldl (bstep e ls) s).reads = s.reads + ls * fillsFrom e seen rem ∧
    (rem.foldl (bstep e ls) s).writes = s.writes + ls * dirtyCount s.objs q + ls * wbFrom e sd rem
  | [], s, q, seen, sd, w, hI, _ => by
    have hq : q = [] := by
      apply q_nil_of_all_ready hI.sinv hI.head
      intro p hp
      apply Classical.byContradiction
      intro hnr
      obtain ⟨x, hx, _⟩ := hI.opn p hp hnr
      simp at hx
    subst hq
    simp [fillsFrom, wbFrom, dirtyCount]
  | a :: rest, s, q, seen, sd, w, hI, hn => by
    simp only [List.foldl_cons]
    by_cases hp : a.point ∈ q
    · obtain ⟨q', hI', hr, hw⟩ := hI.step_hit (ls := ls) hn.1 hp
      obtain ⟨ih1, ih2⟩ := inv_run e ls rest _ q' _ _ _ hI' hn.2
      have hk : a.gkey e ∈ seen := by
        have := (hI.hit_open hp).2
        rw [gkey_eq, this]; exact hI.cur _ hp
      refine ⟨?_, ?_⟩
      · rw [ih1, hr]
        simp [fillsFrom, List.contains_iff_mem, hk]
      · rw [ih2, hw]
        simp only [wbFrom]
        cases hwb : a.wb
        · simp
        · by_cases hsd : a.gkey e ∈ sd
          · simp [hsd, List.contains_iff_mem]
          · simp [hsd, List.contains_iff_mem, Nat.mul_add]; omega
    · have hk : a.gkey e ∉ seen := hI.miss_new hp
      have hksd : a.gkey e ∉ sd := fun h => hk (hI.sdsub _ h)
      have hfin : ∀ (s' : B1) (q' : List Pt),
          Inv e s' q' (a.gkey e :: seen) (if a.wb then a.gkey e :: sd else sd) (win e a) rest →
          s'.reads = s.reads + (if a.isWrite then 0 else ls) →
          s'.writes + ls * dirtyCount s'.objs q' = s.writes + ls * dirtyCount s.objs q + (if a.wb then ls else 0) →
          (rest.foldl (bstep e ls) s').reads = s.reads + ls * fillsFrom e seen (a :: rest) ∧
          (rest.foldl (bstep e ls) s').writes
            = s.writes + ls * dirtyCount s.objs q + ls * wbFrom e sd (a :: rest) := by
        intro s' q' hI' hr hw
        obtain ⟨ih1, ih2⟩ := inv_run e ls rest s' q' _ _ _ hI' hn.2
        refine ⟨?_, ?_⟩
        · rw [ih1, hr]
          cases hiw : a.isWrite <;> simp [fillsFrom, List.contains_iff_mem, hk, hiw, Nat.mul_add] <;> omega
        · rw [ih2, hw]
          simp only [wbFrom]
          cases hwb : a.wb
          · simp
          · simp [hksd, List.contains_iff_mem, Nat.mul_add]; omega
      cases hb : bToBuf e a
      · obtain ⟨hI', hr, hw⟩ := hI.step_bypass (ls := ls) hn.1 hp hb
        exact hfin _ q hI' hr hw
      · obtain ⟨q', hI', hr, hw⟩ := hI.step_fill (ls := ls) hn.1 hp hb
        exact hfin _ q' hI' hr hw

theorem inv_init (e : Nat) (accs : List Acc) (hc : WinContig e accs) : Inv e {} [] [] [] [] accs := by
  refine ⟨⟨List.nodup_nil, ?_, trivial, rfl, ?_⟩, rfl, ?_, ?_, ?_, ?_, ?_, ?_, ?_, ?_, hc⟩
  · intro p; simp [alookup]
  · intro j p h; simp [alookup] at h
  all_goals simp

/-! ### the executable hypotheses -/

theorem nextOk_of_B : ∀ {accs : List Acc}, nextOkB accs = true → NextOk accs
  | [], _ => trivial
  | a :: rest, h => by
    simp only [nextOkB, Bool.and_eq_true, decide_eq_true_eq] at h
    exact ⟨h.1, nextOk_of_B h.2⟩

theorem winContig_aux (e : Nat) (w : List Nat) : ∀ (l : List Acc),
    (l.dropWhile (fun x => x.stamp.take e == w)).all (fun x => x.stamp.take e != w) = true →
    ∀ pre x post, l = pre ++ x :: post → win e x = w → ∀ y ∈ pre, win e y = w
  | [], _, pre, x, post, hl, _, _, _ => by simp at hl
  | h :: t, hd, pre, x, post, hl, hxw, y, hy => by
    by_cases hh : h.stamp.take e = w
    · have hd' : (t.dropWhile (fun x => x.stamp.take e == w)).all (fun x => x.stamp.take e != w) = true := by
        simpa [List.dropWhile_cons, hh] using hd
      cases pre with
      | nil => cases hy
      | cons p0 pre' =>
        simp only [List.cons_append, List.cons.injEq] at hl
        rcases List.mem_cons.1 hy with rfl | hy'
        · rw [← hl.1]; exact hh
        · exact winContig_aux e w t hd' pre' x post hl.2 hxw y hy'
    · exfalso
      have hd' : (h :: t).all (fun x => x.stamp.take e != w) = true := by
        simpa [List.dropWhile_cons, hh] using hd
      have hx : x ∈ h :: t := by rw [hl]; simp
      have := List.all_eq_true.1 hd' x hx
      simp [win] at hxw
      simp [hxw] at this

theorem winContig_of_B (e : Nat) : ∀ {accs : List Acc}, winContigB e accs = true → WinContig e accs
  | [], _ => trivial
  | a :: rest, h => by
    simp only [winContigB, Bool.and_eq_true] at h
    exact ⟨winContig_aux e (a.stamp.take e) rest h.1, winContig_of_B e h.2⟩

/-! ### stamp-sorted traces have contiguous windows -/

theorem take_between : ∀ (e : Nat) (a b c : List Nat), lexLe a b = true → lexLe b c = true →
    a.take e = c.take e → b.take e = a.take e
  | 0, _, _, _, _, _, _ => by simp
  | e + 1, [], b, [], h1, h2, _ => by
    cases b with
    | nil => rfl
    | cons z zs => simp [lexLe, lexLt] at h2
  | e + 1, [], _, _ :: _, _, _, h => by simp at h
  | e + 1, _ :: _, _, [], _, _, h => by simp at h
  | e + 1, x :: xs, b, y :: ys, h1, h2, h => by
    simp only [List.take_succ_cons, List.cons.injEq] at h
    obtain ⟨hxy, hrest⟩ := h
    subst hxy
    cases b with
    | nil => simp [lexLe, lexLt] at h1
    | cons z zs =>
      simp only [lexLe, lexLt, Bool.not_eq_true'] at h1 h2
      have hzx : z = x := by
        by_cases h3 : z < x
        · simp [h3] at h1
        · by_cases h4 : x < z
          · simp [h4] at h2
          · omega
      subst hzx
      simp only [Nat.lt_irrefl, if_false] at h1 h2
      have := take_between e xs zs ys (by simp [lexLe, h1]) (by simp [lexLe, h2]) hrest
      simp [this]

theorem sorted_tail_ge : ∀ {l : List (List Nat)} {a : List Nat}, stampsSortedB (a :: l) = true →
    ∀ x ∈ l, lexLe a x = true
  | [], _, _, x, hx => by cases hx
  | b :: r, a, h, x, hx => by
    simp only [stampsSortedB, Bool.and_eq_true] at h
    rcases List.mem_cons.1 hx with rfl | hx
    · exact h.1
    · exact lexLe_trans h.1 (sorted_tail_ge h.2 x hx)

theorem stampsSorted_tail {a : List Nat} {l : List (List Nat)} (h : stampsSortedB (a :: l) = true) :
    stampsSortedB l = true := by
  cases l with
  | nil => rfl
  | cons b r => simp only [stampsSortedB, Bool.and_eq_true] at h; exact h.2

theorem winContig_of_sorted (e : Nat) : ∀ {accs : List Acc},
    stampsSortedB (accs.map (·.stamp)) = true → WinContig e accs
  | [], _ => trivial
  | a :: rest, h => by
    refine ⟨?_, winContig_of_sorted e (stampsSorted_tail h)⟩
    intro pre x post hl hxw y hy
    have hs : stampsSortedB (a.stamp :: (pre.map (·.stamp) ++ x.stamp :: post.map (·.stamp))) = true := by
      simpa [hl] using h
    have hay : lexLe a.stamp y.stamp = true :=
      sorted_tail_ge hs y.stamp (List.mem_append_left _ (List.mem_map_of_mem hy))
    -- y ≤ x because y precedes x in the sorted tail
    have hyx : lexLe y.stamp x.stamp = true := by
      obtain ⟨p1, p2, hp⟩ := List.append_of_mem hy
      have hs' := stampsSorted_tail hs
      rw [hp] at hs'
      simp only [List.map_append, List.map_cons, List.append_assoc, List.cons_append] at hs'
      -- drop p1
      have hdrop : ∀ (l1 : List (List Nat)) (l2 : List (List Nat)), stampsSortedB (l1 ++ l2) = true →
          stampsSortedB l2 = true := by
        intro l1
        induction l1 with
        | nil => intro l2 h; exact h
        | cons c r ih => intro l2 h; exact ih l2 (stampsSorted_tail h)
      have := hdrop _ _ hs'
      exact sorted_tail_ge this x.stamp (by simp)
    have := take_between e a.stamp y.stamp x.stamp hay hyx (by simpa [win] using hxw.symm)
    simpa [win] using this

/-! ### bounds on the group counts -/

theorem fillsFrom_le (e : Nat) : ∀ (seen : List GKey) (accs : List Acc),
    fillsFrom e seen accs ≤ (accs.filter (fun a => !a.isWrite)).length
  | _, [] => Nat.le_refl _
  | seen, a :: rest => by
    have := fillsFrom_le e (a.gkey e :: seen) rest
    simp only [fillsFrom, List.filter_cons]
    cases a.isWrite
    · simp only [Bool.not_false, Bool.and_true, if_true, List.length_cons]
      split <;> omega
    · simpa using this

theorem distinct_le_fillsFrom (e : Nat) : ∀ (accs : List Acc) (seenP : List (List Nat)) (seen : List GKey),
    (∀ k ∈ seen, k.1 ∈ seenP) → distinctFirstReads seenP accs ≤ fillsFrom e seen accs
  | [], _, _, _ => Nat.le_refl _
  | a :: rest, seenP, seen, h => by
    have ih := distinct_le_fillsFrom e rest (a.point :: seenP) (a.gkey e :: seen) (by
      intro k hk
      rcases List.mem_cons.1 hk with rfl | hk
      · exact List.mem_cons_self
      · exact List.mem_cons_of_mem _ (h k hk))
    simp only [distinctFirstReads, fillsFrom]
    by_cases hp : a.point ∈ seenP
    · simp [List.contains_iff_mem, hp]; omega
    · have : a.gkey e ∉ seen := fun hk => hp (h _ hk)
      simp [List.contains_iff_mem, hp, this]; omega

theorem wbFrom_le (e : Nat) : ∀ (sd : List GKey) (accs : List Acc),
    wbFrom e sd accs ≤ (accs.filter (fun a => a.wb)).length
  | _, [] => Nat.le_refl _
  | sd, a :: rest => by
    simp only [wbFrom, List.filter_cons]
    cases hwb : a.wb
    · simpa using wbFrom_le e sd rest
    · have := wbFrom_le e (a.gkey e :: sd) rest
      simp only [if_true, List.length_cons]
      split <;> omega

end Traffic
end Ft
