/-
  C15 lemmas: the calls of a loop nest never trip an assertion of `Metrics`
  (`safeB` is the static condition: every rank is registered before it is used).
-/
import FtProofs.Lemmas.MetricsSession
set_option linter.unusedSectionVars false
set_option linter.unusedSimpArgs false
set_option linter.unusedVariables false
namespace Ft.C15

/-- the session invariant plus what the loop-nest calls need in order to succeed -/
def RInv (p : String) (s : MState) : Prop :=
  SInv p s ∧ ∃ lo it lp pt m, s.lineOrder = some lo ∧ s.iteration = some it ∧ s.loopOrder = some lp ∧
    s.point = some pt ∧ s.metrics = some m ∧ (∀ r i, dget lo r = some i → i < it.length)

def HasRegd (regd : List String) (s : MState) : Prop :=
  ∃ lo, s.lineOrder = some lo ∧ ∀ r, regd.contains r = true → dhas lo r = true

theorem writeTrace_ok {p : String} {s : MState} {r t : String} {tr : TraceSt} (hs : SInv p s)
    (htr : dget s.traces (r, t) = some tr) : ∃ s', writeTrace s r t = some s' := by
  obtain ⟨_, hf⟩ := hs.entry htr
  cases hfile : tr.file with
  | none => rw [hfile] at hf; cases hf
  | some f =>
    unfold writeTrace
    rw [htr, hs.pfx]
    simp only [hfile]
    exact ⟨_, rfl⟩

theorem startTrace_ok {p : String} {s : MState} {r t : String} {i : Nat} {lp : List String} (hs : SInv p s)
    (hi : lineIdx s r = some i) (hlp : s.loopOrder = some lp) (hd : dhas s.traces (r, t) = true) :
    ∃ s', startTrace s r t = some s' := by
  rw [dhas_eq_isSome] at hd
  cases htr : dget s.traces (r, t) with
  | none => rw [htr] at hd; cases hd
  | some tr =>
    obtain ⟨_, hf⟩ := hs.entry htr
    cases hfile : tr.file with
    | none => rw [hfile] at hf; cases hf
    | some f =>
      unfold startTrace
      rw [hi, hlp, htr]
      simp only [hfile, hs.pfx, Option.map_some]
      exact ⟨_, rfl⟩

theorem startFold_ok {p r : String} {i : Nat} {lp : List String} (L : List String) :
    ∀ s, SInv p s → lineIdx s r = some i → s.loopOrder = some lp → (∀ t ∈ L, dhas s.traces (r, t) = true) →
      ∃ s', L.foldlM (fun s t => startTrace s r t) s = some s' := by
  induction L with
  | nil => intro s _ _ _ _; exact ⟨s, rfl⟩
  | cons t L ih =>
    intro s hs hi hlp hall
    obtain ⟨s1, h1⟩ := startTrace_ok hs hi hlp (hall t List.mem_cons_self)
    have hc := startTrace_core h1
    have hall1 : ∀ t' ∈ L, dhas s1.traces (r, t') = true := by
      intro t' ht'
      rw [dhas_iff_mem_keys, hc.keys, ← dhas_iff_mem_keys]
      exact hall t' (List.mem_cons_of_mem _ ht')
    obtain ⟨s', h'⟩ := ih s1 (startTrace_sinv hs h1) ((lineIdx_congr hc.lo hc.rm r).trans hi)
      (hc.lp.trans hlp) hall1
    exact ⟨s', by simp only [List.foldlM_cons, h1]; exact h'⟩

theorem mRegister_ok {p : String} {s : MState} (rank : String) (hr : RInv p s) :
    ∃ s', mRegister rank s = some s' ∧ RInv p s' ∧
      (∀ lo, s.lineOrder = some lo → ∃ lo', s'.lineOrder = some lo' ∧ dhas lo' rank = true ∧
        ∀ x, dhas lo x = true → dhas lo' x = true) := by
  obtain ⟨hs, lo, it, lp, pt, m, hlo, hit, hlp, hpt, hm, hbound⟩ := hr
  unfold mRegister
  rw [if_pos hs.coll, hlo, hit, hlp, hpt]
  simp only
  by_cases hd : dhas lo rank = true
  · rw [if_pos hd]
    refine ⟨s, rfl, ⟨hs, lo, it, lp, pt, m, hlo, hit, hlp, hpt, hm, hbound⟩, ?_⟩
    intro lo1 h1
    cases h1
    exact ⟨lo, hlo, hd, fun _ h => h⟩
  · rw [if_neg hd]
    have hd' : dhas lo rank = false := by simpa using hd
    -- the state the traces are started from
    have hs1 : SInv p (regState s rank lo it lp pt) := ⟨hs.coll, hs.pfx, hs.arm, hs.rm, hs.files, hs.nodup⟩
    have hidx : lineIdx (regState s rank lo it lp pt) rank = some it.length := by
      simp [lineIdx, regState, dget_dset_self]
    obtain ⟨s2, h2⟩ := startFold_ok (p := p) (r := rank) (typesOf (regState s rank lo it lp pt) rank) _ hs1 hidx rfl
      (fun t ht => (mem_typesOf _ rank t).1 ht)
    have h2' : startAll (regState s rank lo it lp pt) rank = some s2 := h2
    rw [h2']
    simp only
    have hcore := startAll_core h2'
    have harm : s2.allRankMatches = [] := hcore.arm.trans hs.arm
    rw [harm]
    refine ⟨s2, rfl, ⟨(startAll_inv (p := p) (r := rank) (ty := "") h2' hs1).1, dset lo rank it.length, it ++ [0],
      lp ++ [rank], pt ++ [0], m, hcore.lo, hcore.it, hcore.lp, hcore.pt, hcore.met.trans hm, ?_⟩, ?_⟩
    · intro r i hri
      simp only [List.length_append, List.length_cons, List.length_nil]
      by_cases hrr : r = rank
      · subst hrr; rw [dget_dset_self] at hri; cases hri; omega
      · rw [dget_dset_ne _ _ hrr] at hri
        have := hbound r i hri; omega
    · intro lo1 h1
      cases h1
      refine ⟨_, hcore.lo, by rw [dhas_dset]; simp, ?_⟩
      intro x hx
      rw [dhas_dset, hx]; simp

theorem pushRow_sinv {p : String} {rank t : String} {tr : TraceSt} {data : Row} {s1 s' : MState}
    (hrec : pushRow s1 rank t tr data = some s') (hs1 : SInv p s1) (htr : dget s1.traces (rank, t) = some tr) :
    SInv p s' := by
  obtain ⟨hm, hf⟩ := hs1.entry htr
  cases hfile : tr.file with
  | none => rw [hfile] at hf; cases hf
  | some f =>
    unfold pushRow at hrec
    rw [hfile] at hrec
    simp only at hrec
    have hs2 : SInv p (setTrace s1 (rank, t) (withRow tr f data)) :=
      sinv_set hs1 htr (by simp [withRow, hm]) rfl
    split at hrec
    · exact writeTrace_sinv hs2 hrec
    · cases hrec; exact hs2

theorem pushRow_ok {p : String} {rank t : String} {tr : TraceSt} (data : Row) {s1 : MState}
    (hs1 : SInv p s1) (htr : dget s1.traces (rank, t) = some tr) : ∃ s', pushRow s1 rank t tr data = some s' := by
  obtain ⟨hm, hf⟩ := hs1.entry htr
  cases hfile : tr.file with
  | none => rw [hfile] at hf; cases hf
  | some f =>
    unfold pushRow
    rw [hfile]
    simp only
    split
    · have hs2 : SInv p (setTrace s1 (rank, t) (withRow tr f data)) :=
        sinv_set hs1 htr (by simp [withRow, hm]) rfl
      exact writeTrace_ok (tr := withRow tr f data) hs2 (by simp [setTrace, dget_dset_self])
    · exact ⟨_, rfl⟩

theorem mAddUse_ok {p : String} {s : MState} (rank : String) (c pos : Int) (ty : String) (hr : RInv p s)
    (hreg : ∃ lo, s.lineOrder = some lo ∧ dhas lo rank = true) :
    ∃ s', mAddUse rank c pos ty none s = some s' ∧ RInv p s' ∧ s'.lineOrder = s.lineOrder := by
  obtain ⟨hs, lo, it, lp, pt, m, hlo, hit, hlp, hpt, hm, hbound⟩ := hr
  obtain ⟨lo', hlo', hd⟩ := hreg
  rw [hlo] at hlo'; cases hlo'
  have hknown : known s rank = true := by rw [known_iff hs hlo]; exact hd
  rw [dhas_eq_isSome] at hd
  cases hi : dget lo rank with
  | none => rw [hi] at hd; cases hd
  | some i =>
    have hidx : lineIdx s rank = some i := by simp [lineIdx, hlo, hi]
    unfold mAddUse
    rw [hs.coll, hknown, hlo, hpt, hidx]
    simp only [Bool.and_self, if_true]
    have hs1 : SInv p (setPoint s (newPoint lo pt rank i c)) :=
      ⟨hs.coll, hs.pfx, hs.arm, hs.rm, hs.files, hs.nodup⟩
    have hfin : ∀ s', recordUse (setPoint s (newPoint lo pt rank i c)) rank ty
        (newPoint lo pt rank i c) i c pos none = some s' → RInv p s' ∧ s'.lineOrder = some lo := by
      intro s' h'
      have hcore := recordUse_core h'
      have hsinv : SInv p s' := by
        unfold recordUse at h'
        split at h'
        · cases h'; exact hs1
        · rename_i tr htr
          split at h'
          · cases h'
          · exact pushRow_sinv h' hs1 htr
      exact ⟨⟨hsinv, lo, it, lp, _, m, hcore.lo.trans hlo, hcore.it.trans hit, hcore.lp.trans hlp, hcore.pt,
        hcore.met.trans hm, hbound⟩, hcore.lo.trans hlo⟩
    unfold recordUse at hfin ⊢
    cases htr : dget (setPoint s (newPoint lo pt rank i c)).traces (rank, ty) with
    | none =>
      simp only [htr] at hfin ⊢
      exact ⟨_, rfl, hfin _ rfl⟩
    | some tr =>
      have hit' : (setPoint s (newPoint lo pt rank i c)).iteration = some it := hit
      simp only [htr, hit'] at hfin ⊢
      obtain ⟨s', h'⟩ := pushRow_ok (useRow it (newPoint lo pt rank i c) i c pos) hs1 htr
      exact ⟨s', h', hfin s' h'⟩

theorem run_safe {p : String} : ∀ (ops : List MOp) (regd : List String) (s : MState), RInv p s → HasRegd regd s →
    safeB regd ops = true → ∃ rs s', runOps ops s = some (rs, s') ∧ RInv p s' := by
  intro ops
  induction ops with
  | nil => intro regd s hr _ _; exact ⟨[], s, rfl, hr⟩
  | cons op ops ih =>
    intro regd s hr hreg hsafe
    obtain ⟨lo, hlo, hall⟩ := hreg
    have fin : ∀ (x : MRet) (s1 : MState) (regd' : List String), step op s = some (x, s1) → RInv p s1 →
        HasRegd regd' s1 → safeB regd' ops = true → ∃ rs s', runOps (op :: ops) s = some (rs, s') ∧ RInv p s' := by
      intro x s1 regd' h1 hr1 hreg1 hs1
      obtain ⟨rs, s', h2, hr'⟩ := ih regd' s1 hr1 hreg1 hs1
      exact ⟨x :: rs, s', by simp [runOps, h1, h2], hr'⟩
    cases op with
    | registerRank r =>
      simp only [safeB] at hsafe
      obtain ⟨s1, h1, hr1, hmono⟩ := mRegister_ok r hr
      obtain ⟨lo', hlo', hd', hm'⟩ := hmono lo hlo
      refine fin .unit s1 (r :: regd) (by simp [step, h1]) hr1 ⟨lo', hlo', ?_⟩ hsafe
      intro x hx
      simp only [List.contains_cons, Bool.or_eq_true] at hx
      rcases hx with hx | hx
      · rw [eq_of_beq hx]; exact hd'
      · exact hm' x (hall x hx)
    | addUse r c pos t itn =>
      cases itn with
      | some l => simp [safeB] at hsafe
      | none =>
        simp only [safeB, Bool.and_eq_true] at hsafe
        obtain ⟨s1, h1, hr1, hlo1⟩ := mAddUse_ok r c pos t hr ⟨lo, hlo, hall r hsafe.1⟩
        exact fin .unit s1 regd (by simp [step, h1]) hr1 ⟨lo, hlo1.trans hlo, hall⟩ hsafe.2
    | incIter r =>
      simp only [safeB, Bool.and_eq_true] at hsafe
      obtain ⟨hs, lo0, it, lp, pt, m, hlo0, hit, hlp, hpt, hm, hbound⟩ := hr
      rw [hlo] at hlo0; cases hlo0
      have hd := hall r hsafe.1
      have hknown : known s r = true := by rw [known_iff hs hlo]; exact hd
      rw [dhas_eq_isSome] at hd
      cases hi : dget lo r with
      | none => rw [hi] at hd; cases hd
      | some i =>
        have hidx : lineIdx s r = some i := by simp [lineIdx, hlo, hi]
        have hstep : step (.incIter r) s = some (.unit, { s with iteration := some (it.modify i (· + 1)) }) := by
          simp [step, mIncIter, hs.coll, hknown, hit, hidx, hbound r i hi]
        refine fin _ _ regd hstep ⟨⟨hs.coll, hs.pfx, hs.arm, hs.rm, hs.files, hs.nodup⟩, lo, _, lp, pt, m, hlo,
          rfl, hlp, hpt, hm, ?_⟩ ⟨lo, hlo, hall⟩ hsafe.2
        intro r' i' h'
        rw [List.length_modify]; exact hbound r' i' h'
    | endIter r =>
      simp only [safeB, Bool.and_eq_true] at hsafe
      obtain ⟨hs, lo0, it, lp, pt, m, hlo0, hit, hlp, hpt, hm, hbound⟩ := hr
      rw [hlo] at hlo0; cases hlo0
      have hd := hall r hsafe.1
      rw [dhas_eq_isSome] at hd
      cases hi : dget lo r with
      | none => rw [hi] at hd; cases hd
      | some i =>
        have hidx : lineIdx s r = some i := by simp [lineIdx, hlo, hi]
        have hstep : step (.endIter r) s = some (.unit, { s with fiberLabel := dset s.fiberLabel r 0, iteration := some (it.set i 0) }) := by
          simp [step, mEndIter, hs.coll, hit, hidx, hbound r i hi]
        refine fin _ _ regd hstep ⟨⟨hs.coll, hs.pfx, hs.arm, hs.rm, hs.files, hs.nodup⟩, lo, _, lp, pt, m, hlo,
          rfl, hlp, hpt, hm, ?_⟩ ⟨lo, hlo, hall⟩ hsafe.2
        intro r' i' h'
        rw [List.length_set]; exact hbound r' i' h'
    | incCount l k n =>
      simp only [safeB] at hsafe
      obtain ⟨hs, lo0, it, lp, pt, m, hlo0, hit, hlp, hpt, hm, hbound⟩ := hr
      have hstep : step (.incCount l k n) s = some (.unit, { s with metrics := some (dset m (strip l) (dset ((dget m (strip l)).getD []) k ((dget ((dget m (strip l)).getD []) k).getD 0 + n))) }) := by
        simp [step, mIncCount, hs.coll, hm]
      exact fin _ _ regd hstep ⟨⟨hs.coll, hs.pfx, hs.arm, hs.rm, hs.files, hs.nodup⟩, lo0, it, lp, pt, _, hlo0,
        hit, hlp, hpt, rfl, hbound⟩ ⟨lo, hlo, hall⟩ hsafe
    | beginCollect q => simp [safeB] at hsafe
    | endCollect => simp [safeB] at hsafe
    | getLabel r => simp [safeB] at hsafe
    | getIndex r => simp [safeB] at hsafe
    | getIter => simp [safeB] at hsafe
    | isCollecting => simp [safeB] at hsafe
    | isTraced r t => simp [safeB] at hsafe
    | matchRanks a b => simp [safeB] at hsafe
    | trace r t c => simp [safeB] at hsafe
    | consumeTrace r t => simp [safeB] at hsafe
    | setNumCachedUses n => simp [safeB] at hsafe
    | associateShape r => simp [safeB] at hsafe
    | dump => simp [safeB] at hsafe

/-- `endCollect` succeeds at the end of a structured session -/
theorem mEnd_ok {p : String} {s : MState} (hs : SInv p s) : ∃ s', mEnd s = some s' := by
  have : ∀ (L : List (TKey × TraceSt)) (s : MState), SInv p s →
      (∀ e ∈ L, e.2.mem = none ∧ e.2.file.isSome = true ∧ dhas s.traces e.1 = true) →
      ∃ s', L.foldlM endOne s = some s' := by
    intro L
    induction L with
    | nil => intro s _ _; exact ⟨s, rfl⟩
    | cons e L ih =>
      intro s hs hall
      obtain ⟨hm, hf, hd⟩ := hall e List.mem_cons_self
      rw [dhas_eq_isSome] at hd
      cases htr : dget s.traces e.1 with
      | none => rw [htr] at hd; cases hd
      | some tr =>
        obtain ⟨s1, h1⟩ := writeTrace_ok (r := e.1.1) (t := e.1.2) hs htr
        have h1' : endOne s e = some s1 := by
          unfold endOne
          rw [if_pos hf, h1, hm]
        have hc := writeTrace_core h1
        obtain ⟨s', h'⟩ := ih s1 (writeTrace_sinv hs h1) (fun x hx => by
          obtain ⟨a, b, c⟩ := hall x (List.mem_cons_of_mem _ hx)
          refine ⟨a, b, ?_⟩
          rw [dhas_iff_mem_keys, hc.keys, ← dhas_iff_mem_keys]; exact c)
        exact ⟨s', by simp only [List.foldlM_cons, h1']; exact h'⟩
  obtain ⟨s1, h1⟩ := this s.traces s hs (fun e he => by
    obtain ⟨a, b⟩ := hs.files e he
    refine ⟨a, b, ?_⟩
    rw [dhas_iff_mem_keys]; exact List.mem_map.2 ⟨e, he, rfl⟩)
  exact ⟨_, by unfold mEnd; rw [h1]; rfl⟩

end Ft.C15
