/-
  Lemmas for C16: the interpreter of a loop nest emits a nest that is well-nested for every key of
  every level (assembly of the per-iterator lemmas of TraceEmit).
-/
import FtProofs.Lemmas.TraceEmit
set_option linter.unusedSimpArgs false
set_option linter.unusedVariables false
namespace Ft.C16

/-! ### the trace types are different strings -/

theorem label_intersect_ne (n : Nat) (t : String)
    (ht : t = "iter" ∨ t = "populate_1" ∨ t = "populate_read_0" ∨ t = "populate_write_0") :
    label n "intersect_" ≠ t := by
  unfold label
  intro h
  have := congrArg String.toList h
  rcases ht with rfl | rfl | rfl | rfl <;> simp at this

theorem label_project_ne (n : Nat) (t : String)
    (ht : t = "iter" ∨ t = "populate_1" ∨ t = "populate_read_0" ∨ t = "populate_write_0") :
    label n "project_" ≠ t := by
  unfold label
  intro h
  have := congrArg String.toList h
  rcases ht with rfl | rfl | rfl | rfl <;> simp at this

theorem label_intersect_project (n m : Nat) : label n "intersect_" ≠ label m "project_" := by
  unfold label
  intro h
  have := congrArg String.toList h
  simp at this

theorem popCfgOf_ok (tr : Key → Bool) (lv : Level) : PopTypesOK (popCfgOf tr lv) := by
  constructor <;> simp [popCfgOf]

/-! ### the keys of a level's source -/

def srcPlain (rank : String) (l0 : Nat) : SrcKind → List Key
  | .and _ _ => [(rank, label l0 "intersect_"), (rank, label (l0 + 1) "intersect_")]
  | .lf _ _ => [(rank, label l0 "intersect_"), (rank, label (l0 + 1) "intersect_")]
  | .orAnd _ _ => [(rank, label l0 "intersect_"), (rank, label (l0 + 1) "intersect_"),
                   (rank, label (l0 + 4) "intersect_"), (rank, label (l0 + 5) "intersect_")]
  | _ => []

def srcSaved (l0 : Nat) : SrcKind → List Key
  | .proj _ sr _ _ _ own => [(sr, label (if own then 0 else l0) "project_")]
  | _ => []

/-- the rank names a level writes traces under: its own and, for a projection, the source rank -/
def levelNames (lv : Level) : List String :=
  lv.rank :: (match lv.src with | .proj _ sr _ _ _ _ => [sr] | _ => [])

theorem srcSteps_src (tr : Key → Bool) (dflt : Int) (rank : String) (l0 : Nat) (env : Env) (u : Nat → Option Nat)
    (src : SrcKind) :
    SrcSteps (srcPlain rank l0 src) (srcSaved l0 src) (srcSteps tr dflt rank l0 env u src) := by
  cases src with
  | fiber x =>
    intro i hi
    simp only [srcSteps, List.mem_map] at hi
    obtain ⟨e, _, h⟩ := hi
    cases h
  | and x y =>
    intro i hi
    simp only [srcSteps, List.mem_map] at hi
    obtain ⟨s, hs, e⟩ := hi
    cases s with
    | emit j => simp at e; subst e; exact andSteps_src _ _ _ _ _ _ _ _ _ j hs
    | yield c p => simp at e
  | lf x y =>
    intro i hi
    simp only [srcSteps, List.mem_map] at hi
    obtain ⟨s, hs, e⟩ := hi
    cases s with
    | emit j => simp at e; subst e; exact lfSteps_src _ _ _ _ _ _ _ _ _ j hs
    | yield c p => simp at e
  | dense x n => intro i hm; simp [srcSteps] at hm
  | orAnd x y =>
    intro i hi
    simp only [srcSteps, List.mem_map] at hi
    obtain ⟨s, hs, e⟩ := hi
    cases s with
    | yield c p => simp at e
    | emit j =>
      simp at e; subst e
      have hin : SrcSteps (srcPlain rank l0 (.orAnd x y)) [] (andSteps rank (label (l0 + 4) "intersect_") (label (l0 + 5) "intersect_")
          (tr (rank, label (l0 + 4) "intersect_")) (tr (rank, label (l0 + 5) "intersect_"))
          (viewIdx dflt (u x) (opAt env x)) (viewIdx dflt (u y) (opAt env y))
          (viewAny dflt (u x) (opAt env x)) (viewAny dflt (u y) (opAt env y))) :=
        (andSteps_src _ _ _ _ _ _ _ _ _).mono (by intro k hk; simp [srcPlain] at hk ⊢; rcases hk with rfl | rfl <;> simp)
      have hp := pullStep_mem (andSteps rank (label (l0 + 4) "intersect_") (label (l0 + 5) "intersect_")
          (tr (rank, label (l0 + 4) "intersect_")) (tr (rank, label (l0 + 5) "intersect_"))
          (viewIdx dflt (u x) (opAt env x)) (viewIdx dflt (u y) (opAt env y))
          (viewAny dflt (u x) (opAt env x)) (viewAny dflt (u y) (opAt env y)))
      rcases List.mem_append.1 hs with hs | hs
      · obtain ⟨j', hj', e'⟩ := List.mem_map.1 hs
        simp at e'; subst e'
        exact hin _ (hp.1 _ hj')
      · exact andStream_src rank _ _ _ _ (srcPlain rank l0 (.orAnd x y)) (by simp [srcPlain]) (by simp [srcPlain])
          0 0 _ _ _ (fun j' hj' => hin _ (hp.2 _ hj')) _ hs
  | proj x sr off lo hi own =>
    intro i hm
    simp only [srcSteps, List.mem_map] at hm
    obtain ⟨s, hs, e⟩ := hm
    cases s with
    | emit j => simp at e; subst e; exact projSteps_src _ _ _ _ _ _ _ _ j hs
    | yield c p => simp at e

theorem popSource_src (tr : Key → Bool) (dflt : Int) (lv : Level) (env : Env) :
    SrcSteps (srcPlain lv.rank 2 lv.src) (srcSaved 2 lv.src) (popSource tr dflt lv env) := by
  have h := srcSteps_src tr dflt lv.rank 2 env (aget lv.uOps) lv.src
  unfold popSource
  split
  · intro i hi
    exact h i (List.mem_filter.1 hi).1
  · exact h

theorem srcKeys_ty (rank : String) (l0 : Nat) (src : SrcKind) :
    ∀ k ∈ srcPlain rank l0 src ++ srcSaved l0 src, k.2 ≠ "iter" ∧ k.2 ≠ "populate_1" ∧
      k.2 ≠ "populate_read_0" ∧ k.2 ≠ "populate_write_0" := by
  intro k hk
  cases src <;> simp [srcPlain, srcSaved] at hk
  · rcases hk with rfl | rfl <;>
      exact ⟨label_intersect_ne _ _ (by simp), label_intersect_ne _ _ (by simp),
        label_intersect_ne _ _ (by simp), label_intersect_ne _ _ (by simp)⟩
  · rcases hk with rfl | rfl <;>
      exact ⟨label_intersect_ne _ _ (by simp), label_intersect_ne _ _ (by simp),
        label_intersect_ne _ _ (by simp), label_intersect_ne _ _ (by simp)⟩
  · subst hk
    exact ⟨label_project_ne _ _ (by simp), label_project_ne _ _ (by simp),
      label_project_ne _ _ (by simp), label_project_ne _ _ (by simp)⟩
  · rcases hk with rfl | rfl | rfl | rfl <;>
      exact ⟨label_intersect_ne _ _ (by simp), label_intersect_ne _ _ (by simp),
        label_intersect_ne _ _ (by simp), label_intersect_ne _ _ (by simp)⟩

theorem srcKeys_disj (rank : String) (l0 : Nat) (src : SrcKind) :
    ∀ k ∈ srcSaved l0 src, k ∉ srcPlain rank l0 src := by
  intro k hk
  cases src <;> simp [srcPlain, srcSaved] at hk ⊢

theorem srcKeys_names (lv : Level) (l0 : Nat) :
    ∀ k ∈ srcPlain lv.rank l0 lv.src ++ srcSaved l0 lv.src, k.1 ∈ levelNames lv := by
  intro k hk
  unfold levelNames
  cases hsrc : lv.src <;> rw [hsrc] at hk <;> simp [srcPlain, srcSaved] at hk ⊢
  · rcases hk with rfl | rfl <;> simp
  · rcases hk with rfl | rfl <;> simp
  · subst hk; simp
  · rcases hk with rfl | rfl | rfl | rfl <;> simp

/-! ### one level -/

section
variable {σ : Type}

/-- what the items of one `for` satisfy, whatever the loop body does -/
theorem levelItems_ok (tr : Key → Bool) (dflt : Int) (lv : Level) (env : Env) (body : Env → AnyTree × σ) :
    sepB true (levelItems tr dflt lv env body).2 = true ∧
    (∀ x ∈ subsOf (levelItems tr dflt lv env body).2, ∃ env', x = (body env').2) ∧
    (∀ it ∈ (levelItems tr dflt lv env body).2, ∀ k, itemKey it = some k → k.1 ∈ levelNames lv) ∧
    (∀ k, LevelSorted k (levelItems tr dflt lv env body).2) := by
  unfold levelItems
  split
  · -- z << src
    have hsrc := popSource_src tr dflt lv env
    have hty := srcKeys_ty lv.rank 2 lv.src
    refine ⟨popItems_sep _ _ _ _ _ _ _, ?_, ?_, ?_⟩
    · intro x hx
      obtain ⟨c, cur, bp, e⟩ := popItems_subs _ _ _ _ _ _ _ x hx
      exact ⟨_, e⟩
    · intro it hi k hkey
      rcases popItems_ranks _ _ _ _ _ _ _ _ _ hsrc it hi k hkey with h | h
      · simp [levelNames, popCfgOf] at h ⊢; exact Or.inl h
      · exact srcKeys_names lv 2 k h
    · intro k
      apply popItems_sorted _ _ _ _ _ (popCfgOf_ok tr lv) _ _ (fun k hk => (hty k hk).1)
        (srcKeys_disj lv.rank 2 lv.src) ?_ _ _ hsrc
      intro k hk
      obtain ⟨_, h2, h3, h4⟩ := hty k hk
      refine ⟨?_, ?_, ?_⟩ <;> intro e <;> rw [e] at h2 h3 h4 <;> simp [popCfgOf] at h2 h3 h4
  · split
    · -- a concrete fiber
      rename_i x
      split
      rotate_left
      · -- … of a rank of format "U": the dense walk of `iterRangeShape`
        refine ⟨denseItems_sep _ _ _ _ _ _ _ _, ?_, ?_, ?_⟩
        · intro y hy
          obtain ⟨s', c, p, e⟩ := denseItems_subs _ _ _ _ _ _ _ _ y hy
          exact ⟨_, e⟩
        · intro it hi k hkey
          rcases denseItems_mem _ _ _ _ _ _ _ _ it hi with ⟨c, j', e⟩ | ⟨s', c, p, e⟩ | e <;> subst e <;>
            simp [itemKey] at hkey
          simp [levelNames, ← hkey]
        · intro k; exact denseItems_sorted _ _ _ _ _ _ _ _ k
      refine ⟨(iterItems_eq_lazy _ _ _ _ _ _).choose_spec.2.1, ?_, ?_, ?_⟩
      · intro y hy
        obtain ⟨s', c, p, e⟩ := iterItems_subs _ _ _ _ _ _ y hy
        exact ⟨_, e⟩
      · intro it hi k hkey
        rcases iterItems_mem _ _ _ _ _ _ it hi with ⟨c, j', e⟩ | ⟨s', c, p, e⟩ | e <;> subst e <;>
          simp [itemKey] at hkey
        simp [levelNames, ← hkey]
      · intro k; exact iterItems_sorted _ _ _ _ _ _ k
    · -- a dense Ref loop
      refine ⟨denseItems_sep _ _ _ _ _ _ _ _, ?_, ?_, ?_⟩
      · intro y hy
        obtain ⟨s', c, p, e⟩ := denseItems_subs _ _ _ _ _ _ _ _ y hy
        exact ⟨_, e⟩
      · intro it hi k hkey
        rcases denseItems_mem _ _ _ _ _ _ _ _ it hi with ⟨c, j', e⟩ | ⟨s', c, p, e⟩ | e <;> subst e <;>
          simp [itemKey] at hkey
        simp [levelNames, ← hkey]
      · intro k; exact denseItems_sorted _ _ _ _ _ _ _ _ k
    · -- a lazy source
      have hsrc := srcSteps_src tr dflt lv.rank 0 env (aget lv.uOps) lv.src
      have hty := srcKeys_ty lv.rank 0 lv.src
      refine ⟨lazyItems_sep _ _ _ _ _, ?_, ?_, ?_⟩
      · intro y hy
        obtain ⟨s', c, p, e⟩ := lazyItems_subs _ _ _ _ _ y hy
        exact ⟨_, e⟩
      · intro it hi k hkey
        rcases lazyItems_ranks _ _ _ _ _ _ _ hsrc it hi k hkey with h | h
        · simp [levelNames, h]
        · exact srcKeys_names lv 0 k h
      · intro k
        exact lazyItems_sorted _ _ _ _ (fun k hk => (hty k hk).1) (srcKeys_disj lv.rank 0 lv.src) _ _ _ hsrc k

end

/-! ### the whole nest -/

theorem interp_noKey (tr : Key → Bool) (dflt : Int) (k : Key) :
    ∀ (D : Nat) (levels : List Level) (env : Env),
      (∀ lv ∈ levels, k.1 ∉ levelNames lv) → noKey k D (interp tr dflt D levels env).2 = true
  | 0, _, _, _ => rfl
  | _ + 1, [], _, _ => rfl
  | D + 1, lv :: rest, env, h => by
    obtain ⟨_, h2, h3, _⟩ := levelItems_ok tr dflt lv env (interp tr dflt D rest)
    simp only [interp, noKey, Bool.and_eq_true, List.isEmpty_iff, List.all_eq_true]
    constructor
    · apply levelStamps_nokey
      intro it hi hkey
      exact h lv (by simp) (h3 it hi k hkey)
    · intro x hx
      obtain ⟨env', e⟩ := h2 x hx
      rw [e]
      exact interp_noKey tr dflt k D rest env' (fun lv' hl => h lv' (by simp [hl]))

/-- the nest of a loop nest is well-nested for every key of its `i`-th level, provided no other
    level writes traces under the same rank name -/
theorem interp_wn (tr : Key → Bool) (dflt : Int) (k : Key) :
    ∀ (levels : List Level) (i : Nat) (lv : Level) (env : Env),
      levels[i]? = some lv → k.1 ∈ levelNames lv →
      (∀ (j : Nat) (lv' : Level), levels[j]? = some lv' → j ≠ i → k.1 ∉ levelNames lv') →
      wn k (k.2 == "iter") i levels.length (interp tr dflt levels.length levels env).2 = true
  | [], i, lv, env, hi, _, _ => by simp at hi
  | lv0 :: rest, 0, lv, env, hi, hk, hd => by
    simp only [List.getElem?_cons_zero, Option.some.injEq] at hi
    subst hi
    obtain ⟨_, h2, _, h4⟩ := levelItems_ok tr dflt lv0 env (interp tr dflt rest.length rest)
    simp only [List.length_cons, interp, wn, Bool.and_eq_true, List.all_eq_true]
    refine ⟨h4 k, ?_⟩
    intro x hx
    obtain ⟨env', e⟩ := h2 x hx
    rw [e]
    apply interp_noKey
    intro lv' hl
    obtain ⟨j, hj⟩ := List.mem_iff_getElem?.1 hl
    exact hd (j + 1) lv' (by simpa using hj) (by omega)
  | lv0 :: rest, i + 1, lv, env, hi, hk, hd => by
    obtain ⟨h1, h2, h3, _⟩ := levelItems_ok tr dflt lv0 env (interp tr dflt rest.length rest)
    simp only [List.length_cons, interp, wn, Bool.and_eq_true, List.isEmpty_iff, List.all_eq_true]
    refine ⟨⟨h1, ?_⟩, ?_⟩
    · apply levelStamps_nokey
      intro it hit hkey
      exact hd 0 lv0 (by simp) (by omega) (h3 it hit k hkey)
    · intro x hx
      obtain ⟨env', e⟩ := h2 x hx
      rw [e]
      exact interp_wn tr dflt k rest i lv env' (by simpa using hi) hk
        (fun j lv' hj hne => hd (j + 1) lv' (by simpa using hj) (by omega))

end Ft.C16
