/-
  Helpers for assignment at a partial point (C03): what a read sees after a fiber-level
  transformer has been applied at the sub-fiber reached by a stored path.
-/
import FtProofs.Lemmas.MutLemmas
import FtProofs.Lemmas.PointLemmas
import FtModel.Ranks
set_option linter.unusedSectionVars false
set_option linter.unusedSimpArgs false
namespace Ft
open StrictTotal

section
variable {κ ν : Type} [LT κ] [DecidableRel (α := κ) (· < ·)] [DecidableEq κ] [StrictTotal κ]

/-- reads after `atPath F … path`: points under `path` see the transformed sub-fiber, every other
    point sees what it saw before -/
theorem val_atPath (dflt : ν) (F : (d : Nat) → Tree κ ν (d + 1) → Tree κ ν (d + 1) × Outcome) :
    ∀ (d : Nat) (t : Tree κ ν (d + 1)), WF (d + 1) t → ∀ (path : List κ) (d' : Nat) (s : Tree κ ν (d' + 1)),
      locate d t path = some ⟨d', s⟩ → ∀ q,
      val dflt (d + 1) (atPath F d t path).1 q =
        if path <+: q then val dflt (d' + 1) (F d' s).1 (q.drop path.length) else val dflt (d + 1) t q
  | d, t, _, [], d', s, hl, q => by
    simp only [locate, Option.some.injEq] at hl
    cases hl
    simp [atPath]
  | 0, t, _, _ :: _, d', s, hl, q => by simp [locate] at hl
  | d + 1, (t : List (κ × Tree κ ν (d + 1))), h, c :: cs, d', s, hl, q => by
    simp only [locate] at hl
    simp only [atPath]
    cases hlk : lookup (show List (κ × Tree κ ν (d + 1)) from t) c with
    | none => rw [hlk] at hl; cases hl
    | some s0 =>
      rw [hlk] at hl
      simp only at hl
      have ih := val_atPath dflt F d s0 (h.sub _ (lookup_mem hlk)) cs d' s hl
      cases q with
      | nil => simp [val]
      | cons c2 q2 =>
        show val dflt ((d + 1) + 1) (show List (κ × Tree κ ν (d + 1)) from
          (show List (κ × Tree κ ν (d + 1)) from t).map (fun e => if e.1 = c then (e.1, (atPath F d s0 cs).1) else e)) (c2 :: q2) = _
        simp only [val]
        rw [lookup_map_key (show List (κ × Tree κ ν (d + 1)) from t) c c2 (fun _ => (atPath F d s0 cs).1)]
        by_cases hc : c2 = c
        · subst hc
          simp only [if_true, hlk, Option.map_some, List.cons_prefix_cons, true_and, List.length_cons, List.drop_succ_cons]
          exact ih q2
        · have hc' : ¬ c = c2 := fun e => hc e.symm
          simp only [hc, if_false, List.cons_prefix_cons, hc', false_and]

/-- the fiber a stored path reaches lies `path.length` ranks below the root -/
theorem locate_depth : ∀ (d : Nat) (t : Tree κ ν (d + 1)) (path : List κ) (d' : Nat) (s : Tree κ ν (d' + 1)),
    locate d t path = some ⟨d', s⟩ → d = d' + path.length
  | d, t, [], d', s, hl => by
    simp only [locate, Option.some.injEq] at hl
    cases hl
    rfl
  | 0, t, _ :: _, d', s, hl => by simp [locate] at hl
  | d + 1, (t : List (κ × Tree κ ν (d + 1))), c :: cs, d', s, hl => by
    simp only [locate] at hl
    cases hlk : lookup (show List (κ × Tree κ ν (d + 1)) from t) c with
    | none => rw [hlk] at hl; cases hl
    | some s0 =>
      rw [hlk] at hl
      have := locate_depth d s0 cs d' s hl
      simp only [List.length_cons]
      omega

/-- a reference at a partial point makes the path to its fiber a stored path -/
theorem locate_refAt (dflt : ν) : ∀ (d : Nat) (t : Tree κ ν (d + 1)), WF (d + 1) t → ∀ (p : List κ),
    p.length ≤ d → ∃ (d' : Nat) (s : Tree κ ν (d' + 1)), locate d (refAt dflt (d + 1) t p) p = some ⟨d', s⟩
  | d, t, _, [], _ => ⟨d, t, by simp [refAt, locate]⟩
  | 0, _, _, _ :: _, hp => by simp at hp
  | d + 1, (t : List (κ × Tree κ ν (d + 1))), h, c :: cs, hp => by
    have hp' : cs.length ≤ d := by simpa using hp
    simp only [refAt]
    rw [posLookup_eq_lookup h.sorted]
    cases hlk : lookup (show List (κ × Tree κ ν (d + 1)) from t) c with
    | some s0 =>
      obtain ⟨d', s, hs⟩ := locate_refAt dflt d s0 (h.sub _ (lookup_mem hlk)) cs hp'
      refine ⟨d', s, ?_⟩
      show locate (d + 1) (show List (κ × Tree κ ν (d + 1)) from
        (show List (κ × Tree κ ν (d + 1)) from t).map (fun e => if e.1 = c then (e.1, refAt dflt (d + 1) e.2 cs) else e)) (c :: cs) = _
      simp only [locate]
      rw [lookup_map_key (show List (κ × Tree κ ν (d + 1)) from t) c c (fun x => refAt dflt (d + 1) x cs)]
      simp only [if_true, hlk, Option.map_some]
      exact hs
    | none =>
      obtain ⟨d', s, hs⟩ := locate_refAt dflt d (defaultTree dflt (d + 1)) (wf_defaultTree dflt (d + 1)) cs hp'
      refine ⟨d', s, ?_⟩
      show locate (d + 1) (show List (κ × Tree κ ν (d + 1)) from
        insertAt (show List (κ × Tree κ ν (d + 1)) from t) c (refAt dflt (d + 1) (defaultTree dflt (d + 1)) cs)) (c :: cs) = _
      simp only [locate]
      rw [lookup_insertAt hlk]
      simp only [if_true]
      exact hs

end
end Ft
