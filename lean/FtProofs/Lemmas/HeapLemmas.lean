/-
  Helper lemmas for C10 (heap model, FtModel/Heap.lean).  Everything lives in `Ft.C10`.
-/
import FtModel.Heap
set_option linter.unusedSectionVars false
set_option linter.unusedSimpArgs false
set_option linter.unusedVariables false
namespace Ft.C10

section
variable {δ : Type}

theorem get_cons (b : Nat) (o : Obj δ) (h : Heap δ) (a : Nat) :
    get ((b, o) :: h) a = if a = b then some o else get h a := rfl

theorem get_set (h : Heap δ) (a : Nat) (o : Obj δ) (x : Nat) :
    get (set h a o) x = if x = a then some o else get h x := rfl

theorem get_set_ne (h : Heap δ) (a : Nat) (o : Obj δ) (x : Nat) (hne : x ≠ a) :
    get (set h a o) x = get h x := by rw [get_set, if_neg hne]

theorem flatMap_congr' {α β : Type} (l : List α) (f g : α → List β) (hfg : ∀ x ∈ l, f x = g x) :
    l.flatMap f = l.flatMap g := by
  induction l with
  | nil => rfl
  | cons a l ih =>
    simp only [List.flatMap_cons]
    rw [hfg a (List.mem_cons_self), ih (fun x hx => hfg x (List.mem_cons_of_mem _ hx))]

theorem contains_iff (S : List Nat) (a : Nat) : S.contains a = true ↔ a ∈ S := by
  simp

theorem closedB_iff (h : Heap δ) (S : List Nat) : closedB h S = true ↔ Closed h S := by
  unfold closedB Closed
  rw [List.all_eq_true]
  constructor
  · intro H a ha o ho p hp
    have h1 := H a ha
    rw [ho] at h1
    simp only [List.all_eq_true] at h1
    exact (contains_iff S p).1 (h1 p hp)
  · intro H a ha
    cases ho : get h a with
    | none => rfl
    | some o =>
      simp only [List.all_eq_true]
      intro p hp
      exact (contains_iff S p).2 (H a ha o ho p hp)

theorem disjointB_iff (A B : List Nat) : disjointB A B = true ↔ ∀ x ∈ A, x ∉ B := by
  unfold disjointB
  rw [List.all_eq_true]
  constructor
  · intro H x hx hb
    have := H x hx
    simp [hb] at this
  · intro H x hx
    simp [H x hx]

/-- a closed set containing the root contains everything reachable from it -/
theorem reach_closed (h : Heap δ) (S : List Nat) (hc : Closed h S) {a b : Nat} (ha : a ∈ S)
    (hr : Reach h a b) : b ∈ S := by
  induction hr with
  | refl => exact ha
  | step o _ hget hmem ih => exact hc _ ih o hget _ hmem

/-- two heaps that agree on a closed set show the same view from every root in it -/
theorem view_congr (h1 h2 : Heap δ) (S : List Nat) (hc : Closed h1 S)
    (hag : ∀ x ∈ S, get h1 x = get h2 x) : ∀ n r, r ∈ S → view h1 n r = view h2 n r := by
  intro n
  induction n with
  | zero => intro r _; rfl
  | succ n ih =>
    intro r hr
    simp only [view]
    rw [← hag r hr]
    cases ho : get h1 r with
    | none => rfl
    | some o =>
      simp only
      rw [flatMap_congr' o.ptrs (fun p => view h1 n p) (fun p => view h2 n p)
        (fun p hp => ih p (hc r hr o ho p hp))]

/-! ### separation and steps -/

/-- both sides' sets are closed under references and they are disjoint -/
def Sep (st : St δ) : Prop :=
  (∀ s, Closed st.heap (st.mine s)) ∧ (∀ s x, x ∈ st.mine s → x ∉ st.mine (!s))

theorem sepB_iff (st : St δ) : sepB st = true ↔ Sep st := by
  unfold sepB Sep
  simp only [Bool.and_eq_true, closedB_iff, disjointB_iff]
  constructor
  · rintro ⟨⟨ha, hb⟩, hd⟩
    refine ⟨?_, ?_⟩
    · intro s; cases s
      · simpa [St.mine] using ha
      · simpa [St.mine] using hb
    · intro s x hx; cases s
      · simp only [St.mine] at hx ⊢; simpa using hd x (by simpa using hx)
      · simp only [St.mine] at hx ⊢
        intro hxa
        exact hd x (by simpa using hxa) (by simpa using hx)
  · rintro ⟨hc, hd⟩
    refine ⟨⟨?_, ?_⟩, ?_⟩
    · simpa [St.mine] using hc false
    · simpa [St.mine] using hc true
    · intro x hx
      have := hd false x (by simpa [St.mine] using hx)
      simpa [St.mine] using this

theorem bool_eq_or_not (a b : Bool) : a = b ∨ a = !b := by
  cases a <;> cases b <;> simp

theorem mine_apply_same (st : St δ) (w : Step δ) :
    (applyStep st w).mine w.side = w.addr :: (w.obj.ptrs ++ st.mine w.side) := by
  unfold applyStep St.mine
  cases hs : w.side <;> simp

theorem mine_apply_other (st : St δ) (w : Step δ) :
    (applyStep st w).mine (!w.side) = st.mine (!w.side) := by
  unfold applyStep St.mine
  cases hs : w.side <;> simp

theorem heap_apply (st : St δ) (w : Step δ) :
    (applyStep st w).heap = set st.heap w.addr w.obj := by
  unfold applyStep
  cases hs : w.side <;> simp

theorem stepOk_unpack (st : St δ) (w : Step δ) (hok : stepOkB st w = true) :
    w.addr ∉ st.mine (!w.side) ∧ (w.addr ∈ st.mine w.side ∨ get st.heap w.addr = none) ∧
    ∀ p ∈ w.obj.ptrs, p ∈ st.mine w.side ∨ p = w.addr ∨
      (get st.heap p = none ∧ p ∉ st.mine (!w.side)) := by
  unfold stepOkB at hok
  simp only [Bool.and_eq_true, Bool.or_eq_true, Bool.not_eq_true', List.all_eq_true,
    Option.isNone_iff_eq_none, beq_iff_eq] at hok
  obtain ⟨⟨h1, h2⟩, h3⟩ := hok
  refine ⟨?_, ?_, ?_⟩
  · intro hm
    have := (contains_iff _ _).2 hm
    rw [this] at h1; cases h1
  · rcases h2 with h2 | h2
    · exact Or.inl ((contains_iff _ _).1 h2)
    · exact Or.inr h2
  · intro p hp
    rcases h3 p hp with (h | h) | h
    · exact Or.inl ((contains_iff _ _).1 h)
    · exact Or.inr (Or.inl h)
    · refine Or.inr (Or.inr ⟨h.1, ?_⟩)
      intro hm
      have := (contains_iff _ _).2 hm
      rw [this] at h; exact absurd h.2 (by simp)

theorem mine_mono (st : St δ) (w : Step δ) (s : Bool) (x : Nat) (hx : x ∈ st.mine s) :
    x ∈ (applyStep st w).mine s := by
  rcases bool_eq_or_not s w.side with rfl | rfl
  · rw [mine_apply_same]
    exact List.mem_cons_of_mem _ (List.mem_append_right _ hx)
  · rw [mine_apply_other]; exact hx

/-- a step that obeys the discipline preserves separation -/
theorem sep_step (st : St δ) (w : Step δ) (hs : Sep st) (hok : stepOkB st w = true) :
    Sep (applyStep st w) := by
  obtain ⟨hnt, hown, hptr⟩ := stepOk_unpack st w hok
  obtain ⟨hc, hd⟩ := hs
  -- elements of the new own set are not in the other side's set
  have hnew : ∀ x, x ∈ w.addr :: (w.obj.ptrs ++ st.mine w.side) → x ∉ st.mine (!w.side) := by
    intro x hx
    rcases List.mem_cons.1 hx with rfl | hx
    · exact hnt
    · rcases List.mem_append.1 hx with hx | hx
      · rcases hptr x hx with h | rfl | h
        · exact hd _ x h
        · exact hnt
        · exact h.2
      · exact hd _ x hx
  refine ⟨?_, ?_⟩
  · intro s
    rcases bool_eq_or_not s w.side with rfl | rfl
    · -- the writer's side
      rw [mine_apply_same, heap_apply]
      intro x hx o ho p hp
      by_cases hxa : x = w.addr
      · subst hxa
        rw [get_set, if_pos rfl] at ho
        cases ho
        exact List.mem_cons_of_mem _ (List.mem_append_left _ hp)
      · rw [get_set_ne _ _ _ _ hxa] at ho
        have hxM : x ∈ st.mine w.side := by
          rcases List.mem_cons.1 hx with h | hx
          · exact absurd h hxa
          · rcases List.mem_append.1 hx with hx | hx
            · rcases hptr x hx with h | h | h
              · exact h
              · exact absurd h hxa
              · rw [h.1] at ho; cases ho
            · exact hx
        exact List.mem_cons_of_mem _ (List.mem_append_right _ (hc _ x hxM o ho p hp))
    · -- the other side: untouched
      rw [mine_apply_other, heap_apply]
      intro x hx o ho p hp
      have hxa : x ≠ w.addr := fun h => hnt (h ▸ hx)
      rw [get_set_ne _ _ _ _ hxa] at ho
      exact hc _ x hx o ho p hp
  · intro s x hx
    rcases bool_eq_or_not s w.side with rfl | rfl
    · rw [mine_apply_same] at hx
      rw [mine_apply_other]
      exact hnew x hx
    · rw [mine_apply_other] at hx
      rw [Bool.not_not, mine_apply_same]
      intro hx2
      exact hnew x hx2 hx

theorem sep_run : ∀ (ws : List (Step δ)) (st : St δ), Sep st → validB st ws = true →
    Sep (runAll st ws) := by
  intro ws
  induction ws with
  | nil => intro st hs _; exact hs
  | cons w ws ih =>
    intro st hs hv
    simp only [validB, Bool.and_eq_true] at hv
    exact ih (applyStep st w) (sep_step st w hs hv.1) hv.2

theorem mine_mono_run : ∀ (ws : List (Step δ)) (st : St δ) (s : Bool) (x : Nat),
    x ∈ st.mine s → x ∈ (runAll st ws).mine s := by
  intro ws
  induction ws with
  | nil => intro st s x hx; exact hx
  | cons w ws ih =>
    intro st s x hx
    exact ih (applyStep st w) s x (mine_mono st w s x hx)

/-- outside the set the *other* side ends up owning, the real heap equals the independent state
    in which only side `s` was replayed (no hypothesis needed: every write of the other side lands
    in its own, growing, set) -/
theorem agree_run (s : Bool) : ∀ (ws : List (Step δ)) (st : St δ) (h2 : Heap δ),
    (∀ x, x ∉ st.mine (!s) → get st.heap x = get h2 x) →
    ∀ x, x ∉ (runAll st ws).mine (!s) → get (runAll st ws).heap x = get (runOnly s h2 ws) x := by
  intro ws
  induction ws with
  | nil => intro st h2 hag x hx; exact hag x hx
  | cons w ws ih =>
    intro st h2 hag x hx
    simp only [runAll, runOnly] at hx ⊢
    by_cases hws : w.side = s
    · rw [if_pos hws]
      apply ih (applyStep st w) (set h2 w.addr w.obj) _ x hx
      intro y hy
      have hy' : y ∉ st.mine (!s) := by
        have := mine_apply_other st w
        rw [hws] at this; rw [this] at hy; exact hy
      rw [heap_apply, get_set, get_set, hag y hy']
    · rw [if_neg hws]
      apply ih (applyStep st w) h2 _ x hx
      intro y hy
      have hside : (!s) = w.side := by
        cases hs : s <;> cases hw : w.side <;> simp_all
      have hmine := mine_apply_same st w
      rw [← hside] at hmine
      rw [hmine] at hy
      have hya : y ≠ w.addr := fun h => hy (h ▸ List.mem_cons_self)
      have hy' : y ∉ st.mine (!s) := fun h =>
        hy (List.mem_cons_of_mem _ (List.mem_append_right _ h))
      rw [heap_apply, get_set_ne _ _ _ _ hya]
      exact hag y hy'

theorem runOnly_none (s : Bool) : ∀ (ws : List (Step δ)) (h : Heap δ),
    (∀ w ∈ ws, w.side ≠ s) → runOnly s h ws = h := by
  intro ws
  induction ws with
  | nil => intro h _; rfl
  | cons w ws ih =>
    intro h hall
    simp only [runOnly]
    rw [if_neg (hall w List.mem_cons_self)]
    exact ih h (fun w' hw' => hall w' (List.mem_cons_of_mem _ hw'))

/-- writes outside a set leave every record of the set as it was -/
theorem writeAll_outside (S : List Nat) : ∀ (ws : List (Step δ)) (h' h : Heap δ),
    (∀ w ∈ ws, w.addr ∉ S) → (∀ x ∈ S, get h' x = get h x) →
    ∀ x ∈ S, get (writeAll h' ws) x = get h x := by
  intro ws
  induction ws with
  | nil => intro h' h _ hag x hx; exact hag x hx
  | cons w ws ih =>
    intro h' h hout hag x hx
    simp only [writeAll]
    apply ih (set h' w.addr w.obj) h (fun w' hw' => hout w' (List.mem_cons_of_mem _ hw')) _ x hx
    intro y hy
    have hne : y ≠ w.addr := fun he => hout w List.mem_cons_self (he ▸ hy)
    rw [get_set_ne _ _ _ _ hne]
    exact hag y hy

/-! ### deep copy -/

theorem get_append_left_none : ∀ (h1 h2 : Heap δ) (x : Nat), get h1 x = none →
    get (h1 ++ h2) x = get h2 x := by
  intro h1
  induction h1 with
  | nil => intro h2 x _; rfl
  | cons e h1 ih =>
    intro h2 x hx
    obtain ⟨b, o⟩ := e
    rw [List.cons_append, get_cons]
    rw [get_cons] at hx
    by_cases hxb : x = b
    · rw [if_pos hxb] at hx; cases hx
    · rw [if_neg hxb] at hx ⊢; exact ih h2 x hx

theorem get_append_left_some : ∀ (h1 h2 : Heap δ) (x : Nat) (o : Obj δ), get h1 x = some o →
    get (h1 ++ h2) x = some o := by
  intro h1
  induction h1 with
  | nil => intro h2 x o hx; cases hx
  | cons e h1 ih =>
    intro h2 x o hx
    obtain ⟨b, ob⟩ := e
    rw [List.cons_append, get_cons]
    rw [get_cons] at hx
    by_cases hxb : x = b
    · rw [if_pos hxb] at hx ⊢; exact hx
    · rw [if_neg hxb] at hx ⊢; exact ih h2 x o hx

/-- the copy allocates nothing at `x` unless `x = ρ c` for an allocated `c ∈ S` -/
theorem get_copyWith_notin (ρ : Nat → Nat) (h : Heap δ) : ∀ (S : List Nat) (x : Nat),
    (∀ c ∈ S, get h c ≠ none → ρ c ≠ x) → get (copyWith ρ h S) x = none := by
  intro S
  induction S with
  | nil => intro x _; rfl
  | cons b S ih =>
    intro x hx
    have ihx := ih x (fun c hc => hx c (List.mem_cons_of_mem _ hc))
    simp only [copyWith]
    cases hb : get h b with
    | none => exact ihx
    | some o =>
      simp only
      rw [get_cons]
      have : x ≠ ρ b := fun he => hx b List.mem_cons_self (by rw [hb]; simp) he.symm
      rw [if_neg this]; exact ihx

theorem get_copyWith_some (ρ : Nat → Nat) (h : Heap δ) : ∀ (S : List Nat),
    (∀ a ∈ S, ∀ b ∈ S, ρ a = ρ b → a = b) →
    ∀ a ∈ S, ∀ o, get h a = some o → get (copyWith ρ h S) (ρ a) = some (renObj ρ o) := by
  intro S
  induction S with
  | nil => intro _ a ha; cases ha
  | cons b S ih =>
    intro hinj a ha o ho
    have hinj' : ∀ a ∈ S, ∀ b ∈ S, ρ a = ρ b → a = b :=
      fun a ha b hb => hinj a (List.mem_cons_of_mem _ ha) b (List.mem_cons_of_mem _ hb)
    simp only [copyWith]
    by_cases hab : a = b
    · subst hab
      rw [ho]
      simp only
      rw [get_cons, if_pos rfl]
    · have haS : a ∈ S := by
        rcases List.mem_cons.1 ha with h | h
        · exact absurd h hab
        · exact h
      cases hb : get h b with
      | none => exact ih hinj' a haS o ho
      | some ob =>
        simp only
        rw [get_cons]
        have : ρ a ≠ ρ b := fun he => hab (hinj a ha b List.mem_cons_self he)
        rw [if_neg this]
        exact ih hinj' a haS o ho

/-- hypotheses of a copy, as propositions -/
def FreshRen (ρ : Nat → Nat) (h : Heap δ) (S : List Nat) : Prop :=
  (∀ a ∈ S, get h (ρ a) = none ∧ ρ a ∉ S) ∧ (∀ a ∈ S, ∀ b ∈ S, ρ a = ρ b → a = b)

theorem freshRenB_iff (ρ : Nat → Nat) (h : Heap δ) (S : List Nat) :
    freshRenB ρ h S = true ↔ FreshRen ρ h S := by
  unfold freshRenB FreshRen
  simp only [Bool.and_eq_true, List.all_eq_true, Option.isNone_iff_eq_none, Bool.not_eq_true',
    Bool.or_eq_true, beq_iff_eq, bne_iff_ne, ne_eq]
  constructor
  · rintro ⟨h1, h2⟩
    refine ⟨fun a ha => ⟨(h1 a ha).1, ?_⟩, ?_⟩
    · intro hm
      have := (h1 a ha).2
      rw [(contains_iff S (ρ a)).2 hm] at this; cases this
    · intro a ha b hb he
      rcases h2 a ha b hb with h | h
      · exact h
      · exact absurd he h
  · rintro ⟨h1, h2⟩
    refine ⟨fun a ha => ⟨(h1 a ha).1, ?_⟩, ?_⟩
    · cases hcn : S.contains (ρ a) with
      | false => rfl
      | true => exact absurd ((contains_iff S (ρ a)).1 hcn) (h1 a ha).2
    · intro a ha b hb
      by_cases hab : a = b
      · exact Or.inl hab
      · exact Or.inr (fun he => hab (h2 a ha b hb he))

/-- the copy leaves every old address as it was -/
theorem deepcopy_old (ρ : Nat → Nat) (h : Heap δ) (S : List Nat) (x : Nat)
    (hx : x ∉ S.map ρ) : get (deepcopy ρ h S) x = get h x := by
  unfold deepcopy
  apply get_append_left_none
  apply get_copyWith_notin
  intro c hc _ he
  exact hx (he ▸ List.mem_map_of_mem hc)

/-- the record at the new address of `a` is `a`'s record with redirected references -/
theorem deepcopy_new (ρ : Nat → Nat) (h : Heap δ) (S : List Nat) (hf : FreshRen ρ h S)
    (a : Nat) (ha : a ∈ S) : get (deepcopy ρ h S) (ρ a) = (get h a).map (renObj ρ) := by
  unfold deepcopy
  cases ho : get h a with
  | some o =>
    exact get_append_left_some _ _ _ _ (get_copyWith_some ρ h S hf.2 a ha o ho)
  | none =>
    rw [get_append_left_none]
    · simpa using (hf.1 a ha).1
    · apply get_copyWith_notin
      intro c hc hcn he
      have := hf.2 c hc a ha he
      subst this
      exact hcn ho

/-- the copy is structurally identical to the original -/
theorem deepcopy_view (ρ : Nat → Nat) (h : Heap δ) (S : List Nat) (hc : Closed h S)
    (hf : FreshRen ρ h S) : ∀ n a, a ∈ S → view (deepcopy ρ h S) n (ρ a) = view h n a := by
  intro n
  induction n with
  | zero => intro a _; rfl
  | succ n ih =>
    intro a ha
    simp only [view]
    rw [deepcopy_new ρ h S hf a ha]
    cases ho : get h a with
    | none => rfl
    | some o =>
      simp only [Option.map_some, renObj]
      rw [List.flatMap_map]
      rw [flatMap_congr' o.ptrs _ (fun p => view h n p) (fun p hp => ih p (hc a ha o ho p hp))]

/-- after the copy, original and copy are separated -/
theorem deepcopy_sep (ρ : Nat → Nat) (h : Heap δ) (S : List Nat) (hc : Closed h S)
    (hf : FreshRen ρ h S) : Sep ⟨deepcopy ρ h S, S, S.map ρ⟩ := by
  have hdis : ∀ x ∈ S, x ∉ S.map ρ := by
    intro x hx hm
    obtain ⟨a, ha, rfl⟩ := List.mem_map.1 hm
    exact (hf.1 a ha).2 hx
  refine ⟨?_, ?_⟩
  · intro s
    cases s
    · show Closed (deepcopy ρ h S) S
      intro x hx o ho p hp
      rw [deepcopy_old ρ h S x (hdis x hx)] at ho
      exact hc x hx o ho p hp
    · show Closed (deepcopy ρ h S) (S.map ρ)
      intro x hx o ho p hp
      obtain ⟨a, ha, rfl⟩ := List.mem_map.1 hx
      rw [deepcopy_new ρ h S hf a ha] at ho
      cases hoa : get h a with
      | none => rw [hoa] at ho; cases ho
      | some oa =>
        rw [hoa] at ho
        simp only [Option.map_some, Option.some.injEq] at ho
        subst ho
        simp only [renObj] at hp
        obtain ⟨q, hq, rfl⟩ := List.mem_map.1 hp
        exact List.mem_map_of_mem (hc a ha oa hoa q hq)
  · intro s x hx
    cases s
    · exact hdis x hx
    · intro hxS
      exact hdis x hxS hx

/-! ### the executable reach set only contains reachable addresses -/

/-- every member is reachable from one of `roots` -/
def FromRoots (h : Heap δ) (roots S : List Nat) : Prop := ∀ x ∈ S, ∃ r ∈ roots, Reach h r x

theorem addNew_from (h : Heap δ) (roots : List Nat) (b : Nat) (o : Obj δ) (hb : ∃ r ∈ roots, Reach h r b)
    (ho : get h b = some o) : ∀ (ps acc : List Nat), (∀ p ∈ ps, p ∈ o.ptrs) →
    FromRoots h roots acc → FromRoots h roots (addNew acc ps) := by
  intro ps
  induction ps with
  | nil => intro acc _ hacc; exact hacc
  | cons p ps ih =>
    intro acc hps hacc
    unfold addNew
    simp only [List.foldl_cons]
    have hrest : ∀ q ∈ ps, q ∈ o.ptrs := fun q hq => hps q (List.mem_cons_of_mem _ hq)
    by_cases hcn : acc.contains p = true
    · rw [if_pos hcn]; exact ih acc hrest hacc
    · rw [if_neg hcn]
      apply ih (acc ++ [p]) hrest
      intro x hx
      rcases List.mem_append.1 hx with hx | hx
      · exact hacc x hx
      · have : x = p := by simpa using hx
        subst this
        obtain ⟨r, hr, hreach⟩ := hb
        exact ⟨r, hr, Reach.step o hreach ho (hps x List.mem_cons_self)⟩

theorem expand_from (h : Heap δ) (roots : List Nat) : ∀ (T acc : List Nat),
    FromRoots h roots T → FromRoots h roots acc →
    FromRoots h roots (T.foldl (fun acc a => match get h a with
      | none => acc
      | some o => addNew acc o.ptrs) acc) := by
  intro T
  induction T with
  | nil => intro acc _ hacc; exact hacc
  | cons b T ih =>
    intro acc hT hacc
    simp only [List.foldl_cons]
    apply ih _ (fun x hx => hT x (List.mem_cons_of_mem _ hx))
    cases ho : get h b with
    | none => exact hacc
    | some o =>
      exact addNew_from h roots b o (hT b List.mem_cons_self) ho o.ptrs acc (fun p hp => hp) hacc

theorem reachList_from (h : Heap δ) (roots : List Nat) : ∀ (n : Nat) (S : List Nat),
    FromRoots h roots S → FromRoots h roots (reachList h n S) := by
  intro n
  induction n with
  | zero => intro S hS; exact hS
  | succ n ih =>
    intro S hS
    simp only [reachList]
    split
    · exact hS
    · exact ih _ (expand_from h roots S S hS hS)

end
end Ft.C10
