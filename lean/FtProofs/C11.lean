/- C11 — property theorems (to be written) -/
