/-
  C11 — arithmetic on boxes and on fibers agrees with arithmetic on the values.
  Property theorems only; helper lemmas live in FtProofs/Lemmas/Arith.lean.

  Part A is polymorphic in the value algebra `Alg ν ε` (ints, floats, … — whatever the
  underlying Python operators do, including raising), Part B in the leaf values `ν` (with the
  algebraic laws a statement needs as explicit hypotheses) and, where only order matters, in the
  coordinates.
-/
import FtProofs.Lemmas.Arith
set_option linter.unusedSectionVars false
set_option linter.unusedSimpArgs false
set_option linter.unusedVariables false
namespace Ft
open StrictTotal

/-! ## Part A — boxes and elements -/

section
variable {ν ε : Type} (A : Alg ν ε)

theorem Res.rebox_rebox (r : Res ν ε) : r.rebox.rebox = r.rebox := by cases r <;> rfl

/-- **Operator table (partial).** For every operator × operand-kind combination in
    `binSupported` (at least one operand a box or an element), the expression evaluates to a box
    holding the result of the same operator on the underlying values — or raises exactly what the
    value operator raises.  The combinations outside `binSupported` are the gap, see
    `box_op_unsupported_raises`. -/
theorem box_op_table_partial (op : BinOp) (ka kb : Kind) (x y : ν)
    (hk : ¬ (ka = .S ∧ kb = .S)) (h : binSupported op ka kb = true) :
    pyBin A op ka kb x y = binSpec A op x y := by
  cases op <;> cases ka <;> cases kb <;>
    simp_all [binSupported, pyBin, binSpec, opPS, opSP, opPP, opES, opSE, opEE, opEP, opPE,
      Kind.hasOp, Kind.hasROp, Res.rebox_rebox]

/-- The gap of `box_op_table_partial` is exact: every other combination raises TypeError today
    (`//` everywhere; `/` and `<< & |` with a scalar on the left or an element on either side). -/
theorem box_op_unsupported_raises (op : BinOp) (ka kb : Kind) (x y : ν)
    (hk : ¬ (ka = .S ∧ kb = .S)) (h : binSupported op ka kb = false) :
    pyBin A op ka kb x y = .typeError := by
  cases op <;> cases ka <;> cases kb <;>
    simp_all [binSupported, pyBin, opPS, opSP, opPP, opES, opSE, opEE, opEP, opPE,
      Kind.hasOp, Kind.hasROp, Res.rebox]

/-- **Comparison table (full).** All six comparisons, all operand-kind combinations: the result
    is the comparison of the underlying values, given the one law of the value order that
    Python's reflected dispatch relies on (`y > x` is `x < y`, …). -/
theorem box_cmp_table (hsw : ∀ c x y, A.cmp c.swap y x = A.cmp c x y)
    (c : CmpOp) (ka kb : Kind) (x y : ν) : pyCmp A c ka kb x y = A.cmp c x y := by
  cases ka <;> cases kb <;>
    simp [pyCmp, cmpSS, cmpPS, cmpSP, cmpPP, cmpES, cmpSE, cmpEE, cmpEP, cmpPE, hsw]

/-- **In-place forms (partial).** For the combinations in `iopSupported` (`+= -= *=` on a box or
    an element with any right operand; `<<=` on a box from a box or scalar) the statement leaves
    the name bound to the same object whose box now holds the operator's result (`<<=`: the new
    value), or raises what the value operator raises and changes nothing. -/
theorem inplace_same_ref_partial (i : IOp) (ka kb : Kind) (x y : ν)
    (h : iopSupported i ka kb = true) : pyIop A i ka kb x y = iopSpec A i x y := by
  cases i <;> cases ka <;> cases kb <;>
    simp_all [iopSupported, pyIop, iopP, iopE, iopSpec, IOp.bin, opSS, opSE, opSP,
      Kind.hasOp, Kind.hasROp] <;>
    (split <;> simp_all [Res.rebox, Res.store])

/-- `<<=` on a box replaces its value (right operand a box or a scalar) and keeps the box. -/
theorem ilshift_replaces_partial (kb : Kind) (x y : ν) (hkb : kb ≠ .E) :
    pyIop A .ishl .P kb x y = .done .same (.val y) := by
  cases kb <;> simp_all [pyIop, iopP]

/-- Today's `CoordPayload.__ilshift__`: from an element it assigns but the statement rebinds the
    name to `None`; from anything else it *adds* (and rebinds to `None`). -/
theorem today_elem_ilshift (x y : ν) :
    pyIop A .ishl .E .E x y = .done .none (.val y) ∧
    (∀ kb v, kb ≠ .E → A.bin .add x y = .ok v → pyIop A .ishl .E kb x y = .done .none (.val v)) := by
  refine ⟨by simp [pyIop, iopE], ?_⟩
  intro kb v hkb hv
  cases kb <;>
    simp_all [pyIop, iopE, pyBin, opPS, opPP, opSS, Kind.hasOp, Res.rebox, Res.storeNone]

/-- Today's `Payload.__ilshift__` given an element stores the element object, not its value. -/
theorem today_box_ilshift_from_elem (x y : ν) :
    pyIop A .ishl .P .E x y = .done .same .elemObj := by
  simp [pyIop, iopP]

/-- Today `/=` on an element raises TypeError (the class only has the Python 2 name `__idiv__`). -/
theorem today_elem_idiv_raises (kb : Kind) (x y : ν) : pyIop A .idiv .E kb x y = .typeError := by
  cases kb <;>
    simp [pyIop, iopE, pyBin, opES, opEE, opEP, Kind.hasOp, Kind.hasROp, Res.rebox, Res.fallback]

end

/-! ### non-vacuity of Part A: an integer algebra -/

/-- `+ - *` and the comparisons of `Int`; `/` raising on a zero divisor (exact quotients only) -/
def intAlg : Alg Int String where
  bin := fun op x y =>
    match op with
    | .add => .ok (x + y)
    | .sub => .ok (x - y)
    | .mul => .ok (x * y)
    | .div => if y = 0 then .error "ZeroDivisionError" else .ok (x / y)
    | .fdiv => if y = 0 then .error "ZeroDivisionError" else .ok (Int.fdiv x y)
    | _ => .error "not modelled"
  cmp := fun c x y =>
    match c with
    | .eq => decide (x = y) | .ne => decide (x ≠ y) | .lt => decide (x < y)
    | .le => decide (x ≤ y) | .gt => decide (x > y) | .ge => decide (x ≥ y)

theorem intAlg_swap : ∀ c x y, intAlg.cmp (CmpOp.swap c) y x = intAlg.cmp c x y := by
  intro c x y
  cases c <;> simp [intAlg, CmpOp.swap, eq_comm]

example : pyBin intAlg .sub .S .E 12 5 = .boxed 7 :=
  box_op_table_partial intAlg .sub .S .E 12 5 (by decide) (by decide)
example : pyBin intAlg .div .P .S 12 0 = .raised "ZeroDivisionError" :=
  box_op_table_partial intAlg .div .P .S 12 0 (by decide) (by decide)
example : pyBin intAlg .div .S .P 12 5 = .typeError :=
  box_op_unsupported_raises intAlg .div .S .P 12 5 (by decide) (by decide)
example : pyCmp intAlg .lt .S .E 4 5 = true := by
  rw [box_cmp_table intAlg intAlg_swap]; decide
example : pyIop intAlg .imul .E .P 12 5 = .done .same (.val 60) :=
  inplace_same_ref_partial intAlg .imul .E .P 12 5 (by decide)
example : pyIop intAlg .ishl .E .S 12 5 = .done .none (.val 17) :=
  (today_elem_ilshift intAlg 12 5).2 .S 17 (by decide) rfl

/-! ## Part B — fibers -/

section
variable {κ ν : Type} [LT κ] [DecidableRel (α := κ) (· < ·)] [DecidableEq κ] [StrictTotal κ]
variable [DecidableEq ν]

theorem ne_of_not_isEmpty_zero (dflt : ν) (t : Tree κ ν 0) (h : isEmpty dflt 0 t = false) :
    (show ν from t) ≠ dflt := by
  simpa [isEmpty] using h

/-- the leaf step of a fiber sum -/
theorem addT_leaf [Add ν] (dflt : ν) (x y : ν) (q : List κ) (h : x ≠ dflt ∨ y ≠ dflt) :
    denseAt (κ := κ) dflt 0 (addT (κ := κ) dflt 0 x y) q =
      addExpect dflt (denseAt (κ := κ) dflt 0 x q) (denseAt (κ := κ) dflt 0 y q) := by
  show x + y = if x ≠ dflt ∨ y ≠ dflt then x + y else dflt
  rw [if_pos h]

/-- lookup in a fiber sum: present iff presented on a side; the payload is the sum of the two
    presented payloads, an absent side contributing the default tree -/
theorem lookup_addT [Add ν] (dflt : ν) (d : Nat) (a b : Tree κ ν (d + 1))
    (ha : WF (d + 1) a) (hb : WF (d + 1) b) (c : κ) :
    lookup (show List (κ × Tree κ ν d) from addT dflt (d + 1) a b) c =
      if (lookup (present dflt d a) c).isSome = true ∨ (lookup (present dflt d b) c).isSome = true then
        some (addT dflt d ((lookup (present dflt d a) c).getD (dfltTree dflt d))
                          ((lookup (present dflt d b) c).getD (dfltTree dflt d)))
      else none := by
  have hsa := sorted_present dflt d a ((WF_succ d a).1 ha).1
  have hsb := sorted_present dflt d b ((WF_succ d b).1 hb).1
  have hm := lookup_orMerge (present dflt d a) (present dflt d b) hsa hsb c
  have hmap := lookup_map_val (orMerge (present dflt d a) (present dflt d b))
    (fun _ (v : Mask × Option (Tree κ ν d) × Option (Tree κ ν d)) =>
      addT dflt d (v.2.1.getD (dfltTree dflt d)) (v.2.2.getD (dfltTree dflt d))) c
  have hdef : (show List (κ × Tree κ ν d) from addT dflt (d + 1) a b) =
      (orMerge (present dflt d a) (present dflt d b)).map
        (fun r => (r.1, addT dflt d (r.2.2.1.getD (dfltTree dflt d)) (r.2.2.2.getD (dfltTree dflt d)))) := by
    rw [addT]
  rw [hdef, hmap]
  cases hl : lookup (orMerge (present dflt d a) (present dflt d b)) c with
  | none =>
    rw [hl] at hm
    by_cases hcond : (lookup (present dflt d a) c).isSome = true ∨ (lookup (present dflt d b) c).isSome = true
    · rw [if_pos hcond] at hm; simp at hm
    · rw [if_neg hcond]; rfl
  | some row =>
    rw [hl] at hm
    by_cases hcond : (lookup (present dflt d a) c).isSome = true ∨ (lookup (present dflt d b) c).isSome = true
    · rw [if_pos hcond] at hm
      rw [if_pos hcond]
      simp only [Option.map_some, Option.some.injEq, Prod.mk.injEq] at hm
      simp [hm.1, hm.2]
    · rw [if_neg hcond] at hm; simp at hm

/-- **Fiber + fiber is the elementwise sum over the union of coordinates** (any depth, any
    default): at every point the dense view of `a + b` is the sum of the operands' dense views
    wherever either operand is non-default (the other side contributing its default), and the
    default elsewhere. -/
theorem fiber_add_spec [Add ν] (dflt : ν) : ∀ (d : Nat) (a b : Tree κ ν (d + 1)),
    WF (d + 1) a → WF (d + 1) b → ∀ p : List κ,
    denseAt dflt (d + 1) (addT dflt (d + 1) a b) p =
      addExpect dflt (denseAt dflt (d + 1) a p) (denseAt dflt (d + 1) b p) := by
  intro d
  induction d with
  | zero =>
    intro a b ha hb p
    cases p with
    | nil => simp [denseAt_nil, addExpect]
    | cons c q =>
      have hsa := ((WF_succ 0 a).1 ha).1
      have hsb := ((WF_succ 0 b).1 hb).1
      rw [denseAt_cons, lookup_addT dflt 0 a b ha hb c,
        ← denseAt_present dflt 0 a hsa c q, ← denseAt_present dflt 0 b hsb c q]
      by_cases hcond : (lookup (present dflt 0 a) c).isSome = true ∨ (lookup (present dflt 0 b) c).isSome = true
      · rw [if_pos hcond]
        apply addT_leaf
        rcases hcond with h | h
        · left
          obtain ⟨t, ht⟩ := Option.isSome_iff_exists.1 h
          rw [ht]; exact ne_of_not_isEmpty_zero dflt t (not_isEmpty_of_lookup_present ht)
        · right
          obtain ⟨t, ht⟩ := Option.isSome_iff_exists.1 h
          rw [ht]; exact ne_of_not_isEmpty_zero dflt t (not_isEmpty_of_lookup_present ht)
      · rw [if_neg hcond]
        have h1 : lookup (present dflt 0 a) c = none := by
          cases h : lookup (present dflt 0 a) c with
          | none => rfl
          | some _ => exact absurd (Or.inl (by simp [h])) hcond
        have h2 : lookup (present dflt 0 b) c = none := by
          cases h : lookup (present dflt 0 b) c with
          | none => rfl
          | some _ => exact absurd (Or.inr (by simp [h])) hcond
        simp [h1, h2, denseAt_dfltTree, addExpect]
  | succ d ih =>
    intro a b ha hb p
    cases p with
    | nil => simp [denseAt_nil, addExpect]
    | cons c q =>
      have hsa := ((WF_succ (d + 1) a).1 ha).1
      have hsb := ((WF_succ (d + 1) b).1 hb).1
      rw [denseAt_cons, lookup_addT dflt (d + 1) a b ha hb c,
        ← denseAt_present dflt (d + 1) a hsa c q, ← denseAt_present dflt (d + 1) b hsb c q]
      by_cases hcond : (lookup (present dflt (d + 1) a) c).isSome = true ∨
          (lookup (present dflt (d + 1) b) c).isSome = true
      · rw [if_pos hcond]
        exact ih _ _ (WF_getD_present ha c) (WF_getD_present hb c) q
      · rw [if_neg hcond]
        have h1 : lookup (present dflt (d + 1) a) c = none := by
          cases h : lookup (present dflt (d + 1) a) c with
          | none => rfl
          | some _ => exact absurd (Or.inl (by simp [h])) hcond
        have h2 : lookup (present dflt (d + 1) b) c = none := by
          cases h : lookup (present dflt (d + 1) b) c with
          | none => rfl
          | some _ => exact absurd (Or.inr (by simp [h])) hcond
        simp [h1, h2, denseAt_dfltTree, addExpect]

end
end Ft
