/-
  C11 — arithmetic on boxes and on fibers agrees with arithmetic on the values.
  Property theorems only; helper lemmas live in FtProofs/Lemmas/Arith.lean.

  Part A is polymorphic in the value algebra `Alg ν ε` (ints, floats, … — whatever the
  underlying Python operators do, including raising), Part B in the leaf values `ν` (with the
  algebraic laws a statement needs as explicit hypotheses) and, where only order matters, in the
  coordinates.
-/
import FtProofs.Lemmas.Arith
set_option linter.unusedSectionVars false
set_option linter.unusedSimpArgs false
set_option linter.unusedVariables false
namespace Ft
open StrictTotal

/-! ## Part A — boxes and elements -/

section
variable {ν ε : Type} (A : Alg ν ε)

theorem Res.rebox_rebox (r : Res ν ε) : r.rebox.rebox = r.rebox := by cases r <;> rfl

/-- **Operator table (partial).** For every operator × operand-kind combination in
    `binSupported` (at least one operand a box or an element), the expression evaluates to a box
    holding the result of the same operator on the underlying values — or raises exactly what the
    value operator raises.  The combinations outside `binSupported` are the gap, see
    `box_op_unsupported_raises`. -/
theorem box_op_table_partial (op : BinOp) (ka kb : Kind) (x y : ν)
    (hk : ¬ (ka = .S ∧ kb = .S)) (h : binSupported op ka kb = true) :
    pyBin A op ka kb x y = binSpec A op x y := by
  cases op <;> cases ka <;> cases kb <;>
    simp_all [binSupported, pyBin, binSpec, opPS, opSP, opPP, opES, opSE, opEE, opEP, opPE,
      Kind.hasOp, Kind.hasROp, Res.rebox_rebox]

/-- The gap of `box_op_table_partial` is exact: every other combination raises TypeError today
    (`//` everywhere; `/` and `<< & |` with a scalar on the left or an element on either side). -/
theorem box_op_unsupported_raises (op : BinOp) (ka kb : Kind) (x y : ν)
    (hk : ¬ (ka = .S ∧ kb = .S)) (h : binSupported op ka kb = false) :
    pyBin A op ka kb x y = .typeError := by
  cases op <;> cases ka <;> cases kb <;>
    simp_all [binSupported, pyBin, opPS, opSP, opPP, opES, opSE, opEE, opEP, opPE,
      Kind.hasOp, Kind.hasROp, Res.rebox]

/-- **Comparison table (full).** All six comparisons, all operand-kind combinations: the result
    is the comparison of the underlying values, given the one law of the value order that
    Python's reflected dispatch relies on (`y > x` is `x < y`, …). -/
theorem box_cmp_table (hsw : ∀ c x y, A.cmp c.swap y x = A.cmp c x y)
    (c : CmpOp) (ka kb : Kind) (x y : ν) : pyCmp A c ka kb x y = A.cmp c x y := by
  cases ka <;> cases kb <;>
    simp [pyCmp, cmpSS, cmpPS, cmpSP, cmpPP, cmpES, cmpSE, cmpEE, cmpEP, cmpPE, hsw]

/-- **In-place forms (partial).** For the combinations in `iopSupported` (`+= -= *=` on a box or
    an element with any right operand; `<<=` on a box from a box or scalar) the statement leaves
    the name bound to the same object whose box now holds the operator's result (`<<=`: the new
    value), or raises what the value operator raises and changes nothing. -/
theorem inplace_same_ref_partial (i : IOp) (ka kb : Kind) (x y : ν)
    (h : iopSupported i ka kb = true) : pyIop A i ka kb x y = iopSpec A i x y := by
  cases i <;> cases ka <;> cases kb <;>
    simp_all [iopSupported, pyIop, iopP, iopE, iopSpec, IOp.bin, opSS, opSE, opSP,
      Kind.hasOp, Kind.hasROp] <;>
    (split <;> simp_all [Res.rebox, Res.store])

/-- `<<=` on a box replaces its value (right operand a box or a scalar) and keeps the box. -/
theorem ilshift_replaces_partial (kb : Kind) (x y : ν) (hkb : kb ≠ .E) :
    pyIop A .ishl .P kb x y = .done .same (.val y) := by
  cases kb <;> simp_all [pyIop, iopP]

/-- Today's `CoordPayload.__ilshift__`: from an element it assigns but the statement rebinds the
    name to `None`; from anything else it *adds* (and rebinds to `None`). -/
theorem today_elem_ilshift (x y : ν) :
    pyIop A .ishl .E .E x y = .done .none (.val y) ∧
    (∀ kb v, kb ≠ .E → A.bin .add x y = .ok v → pyIop A .ishl .E kb x y = .done .none (.val v)) := by
  refine ⟨by simp [pyIop, iopE], ?_⟩
  intro kb v hkb hv
  cases kb <;>
    simp_all [pyIop, iopE, pyBin, opPS, opPP, opSS, Kind.hasOp, Res.rebox, Res.storeNone]

/-- Today's `Payload.__ilshift__` given an element stores the element object, not its value. -/
theorem today_box_ilshift_from_elem (x y : ν) :
    pyIop A .ishl .P .E x y = .done .same .elemObj := by
  simp [pyIop, iopP]

/-- Today `/=` on an element raises TypeError (the class only has the Python 2 name `__idiv__`). -/
theorem today_elem_idiv_raises (kb : Kind) (x y : ν) : pyIop A .idiv .E kb x y = .typeError := by
  cases kb <;>
    simp [pyIop, iopE, pyBin, opES, opEE, opEP, Kind.hasOp, Kind.hasROp, Res.rebox, Res.fallback]

end

/-! ### non-vacuity of Part A: an integer algebra -/

/-- `+ - *` and the comparisons of `Int`; `/` raising on a zero divisor (exact quotients only) -/
def intAlg : Alg Int String where
  bin := fun op x y =>
    match op with
    | .add => .ok (x + y)
    | .sub => .ok (x - y)
    | .mul => .ok (x * y)
    | .div => if y = 0 then .error "ZeroDivisionError" else .ok (x / y)
    | .fdiv => if y = 0 then .error "ZeroDivisionError" else .ok (Int.fdiv x y)
    | _ => .error "not modelled"
  cmp := fun c x y =>
    match c with
    | .eq => decide (x = y) | .ne => decide (x ≠ y) | .lt => decide (x < y)
    | .le => decide (x ≤ y) | .gt => decide (x > y) | .ge => decide (x ≥ y)

theorem intAlg_swap : ∀ c x y, intAlg.cmp (CmpOp.swap c) y x = intAlg.cmp c x y := by
  intro c x y
  cases c <;> simp [intAlg, CmpOp.swap, eq_comm]

example : pyBin intAlg .sub .S .E 12 5 = .boxed 7 :=
  box_op_table_partial intAlg .sub .S .E 12 5 (by decide) (by decide)
example : pyBin intAlg .div .P .S 12 0 = .raised "ZeroDivisionError" :=
  box_op_table_partial intAlg .div .P .S 12 0 (by decide) (by decide)
example : pyBin intAlg .div .S .P 12 5 = .typeError :=
  box_op_unsupported_raises intAlg .div .S .P 12 5 (by decide) (by decide)
example : pyCmp intAlg .lt .S .E 4 5 = true := by
  rw [box_cmp_table intAlg intAlg_swap]; decide
example : pyIop intAlg .imul .E .P 12 5 = .done .same (.val 60) :=
  inplace_same_ref_partial intAlg .imul .E .P 12 5 (by decide)
example : pyIop intAlg .ishl .E .S 12 5 = .done .none (.val 17) :=
  (today_elem_ilshift intAlg 12 5).2 .S 17 (by decide) rfl

/-! ## Part B — fibers -/

section
variable {κ ν : Type} [LT κ] [DecidableRel (α := κ) (· < ·)] [DecidableEq κ] [StrictTotal κ]
variable [DecidableEq ν]

theorem ne_of_not_isEmpty_zero (dflt : ν) (t : Tree κ ν 0) (h : isEmpty dflt 0 t = false) :
    (show ν from t) ≠ dflt := by
  simpa [isEmpty] using h

/-- the leaf step of a fiber sum -/
theorem addT_leaf [Add ν] (dflt : ν) (x y : ν) (q : List κ) (h : x ≠ dflt ∨ y ≠ dflt) :
    denseAt (κ := κ) dflt 0 (addT (κ := κ) dflt 0 x y) q =
      addExpect dflt (denseAt (κ := κ) dflt 0 x q) (denseAt (κ := κ) dflt 0 y q) := by
  show x + y = if x ≠ dflt ∨ y ≠ dflt then x + y else dflt
  rw [if_pos h]

/-- lookup in a fiber sum: present iff presented on a side; the payload is the sum of the two
    presented payloads, an absent side contributing the default tree -/
theorem lookup_addT [Add ν] (dflt : ν) (d : Nat) (a b : Tree κ ν (d + 1))
    (ha : WF (d + 1) a) (hb : WF (d + 1) b) (c : κ) :
    lookup (show List (κ × Tree κ ν d) from addT dflt (d + 1) a b) c =
      if (lookup (present dflt d a) c).isSome = true ∨ (lookup (present dflt d b) c).isSome = true then
        some (addT dflt d ((lookup (present dflt d a) c).getD (dfltTree dflt d))
                          ((lookup (present dflt d b) c).getD (dfltTree dflt d)))
      else none := by
  have hsa := sorted_present dflt d a ((WF_succ d a).1 ha).1
  have hsb := sorted_present dflt d b ((WF_succ d b).1 hb).1
  have hm := lookup_orMerge (present dflt d a) (present dflt d b) hsa hsb c
  have hmap := lookup_map_val (orMerge (present dflt d a) (present dflt d b))
    (fun _ (v : Mask × Option (Tree κ ν d) × Option (Tree κ ν d)) =>
      addT dflt d (v.2.1.getD (dfltTree dflt d)) (v.2.2.getD (dfltTree dflt d))) c
  have hdef : (show List (κ × Tree κ ν d) from addT dflt (d + 1) a b) =
      (orMerge (present dflt d a) (present dflt d b)).map
        (fun r => (r.1, addT dflt d (r.2.2.1.getD (dfltTree dflt d)) (r.2.2.2.getD (dfltTree dflt d)))) := by
    rw [addT]
  rw [hdef, hmap]
  cases hl : lookup (orMerge (present dflt d a) (present dflt d b)) c with
  | none =>
    rw [hl] at hm
    by_cases hcond : (lookup (present dflt d a) c).isSome = true ∨ (lookup (present dflt d b) c).isSome = true
    · rw [if_pos hcond] at hm; simp at hm
    · rw [if_neg hcond]; rfl
  | some row =>
    rw [hl] at hm
    by_cases hcond : (lookup (present dflt d a) c).isSome = true ∨ (lookup (present dflt d b) c).isSome = true
    · rw [if_pos hcond] at hm
      rw [if_pos hcond]
      simp only [Option.map_some, Option.some.injEq, Prod.mk.injEq] at hm
      simp [hm.1, hm.2]
    · rw [if_neg hcond] at hm; simp at hm

/-- **Fiber + fiber is the elementwise sum over the union of coordinates** (any depth, any
    default): at every point the dense view of `a + b` is the sum of the operands' dense views
    wherever either operand is non-default (the other side contributing its default), and the
    default elsewhere. -/
theorem fiber_add_spec [Add ν] (dflt : ν) : ∀ (d : Nat) (a b : Tree κ ν (d + 1)),
    WF (d + 1) a → WF (d + 1) b → ∀ p : List κ,
    denseAt dflt (d + 1) (addT dflt (d + 1) a b) p =
      addExpect dflt (denseAt dflt (d + 1) a p) (denseAt dflt (d + 1) b p) := by
  intro d
  induction d with
  | zero =>
    intro a b ha hb p
    cases p with
    | nil => simp [denseAt_nil, addExpect]
    | cons c q =>
      have hsa := ((WF_succ 0 a).1 ha).1
      have hsb := ((WF_succ 0 b).1 hb).1
      rw [denseAt_cons, lookup_addT dflt 0 a b ha hb c,
        ← denseAt_present dflt 0 a hsa c q, ← denseAt_present dflt 0 b hsb c q]
      by_cases hcond : (lookup (present dflt 0 a) c).isSome = true ∨ (lookup (present dflt 0 b) c).isSome = true
      · rw [if_pos hcond]
        apply addT_leaf
        rcases hcond with h | h
        · left
          obtain ⟨t, ht⟩ := Option.isSome_iff_exists.1 h
          rw [ht]; exact ne_of_not_isEmpty_zero dflt t (not_isEmpty_of_lookup_present ht)
        · right
          obtain ⟨t, ht⟩ := Option.isSome_iff_exists.1 h
          rw [ht]; exact ne_of_not_isEmpty_zero dflt t (not_isEmpty_of_lookup_present ht)
      · rw [if_neg hcond]
        have h1 : lookup (present dflt 0 a) c = none := by
          cases h : lookup (present dflt 0 a) c with
          | none => rfl
          | some _ => exact absurd (Or.inl (by simp [h])) hcond
        have h2 : lookup (present dflt 0 b) c = none := by
          cases h : lookup (present dflt 0 b) c with
          | none => rfl
          | some _ => exact absurd (Or.inr (by simp [h])) hcond
        simp [h1, h2, denseAt_dfltTree, addExpect]
  | succ d ih =>
    intro a b ha hb p
    cases p with
    | nil => simp [denseAt_nil, addExpect]
    | cons c q =>
      have hsa := ((WF_succ (d + 1) a).1 ha).1
      have hsb := ((WF_succ (d + 1) b).1 hb).1
      rw [denseAt_cons, lookup_addT dflt (d + 1) a b ha hb c,
        ← denseAt_present dflt (d + 1) a hsa c q, ← denseAt_present dflt (d + 1) b hsb c q]
      by_cases hcond : (lookup (present dflt (d + 1) a) c).isSome = true ∨
          (lookup (present dflt (d + 1) b) c).isSome = true
      · rw [if_pos hcond]
        exact ih _ _ (WF_getD_present ha c) (WF_getD_present hb c) q
      · rw [if_neg hcond]
        have h1 : lookup (present dflt (d + 1) a) c = none := by
          cases h : lookup (present dflt (d + 1) a) c with
          | none => rfl
          | some _ => exact absurd (Or.inl (by simp [h])) hcond
        have h2 : lookup (present dflt (d + 1) b) c = none := by
          cases h : lookup (present dflt (d + 1) b) c with
          | none => rfl
          | some _ => exact absurd (Or.inr (by simp [h])) hcond
        simp [h1, h2, denseAt_dfltTree, addExpect]

/-- lookup in a fiber product: present iff presented on both sides -/
theorem lookup_mulT [Mul ν] (dflt : ν) (d : Nat) (a b : Tree κ ν (d + 1))
    (ha : WF (d + 1) a) (hb : WF (d + 1) b) (c : κ) :
    lookup (show List (κ × Tree κ ν d) from mulT dflt (d + 1) a b) c =
      match lookup (present dflt d a) c, lookup (present dflt d b) c with
      | some x, some y => some (mulT dflt d x y)
      | _, _ => none := by
  have hsa := sorted_present dflt d a ((WF_succ d a).1 ha).1
  have hsb := sorted_present dflt d b ((WF_succ d b).1 hb).1
  have hdef : (show List (κ × Tree κ ν d) from mulT dflt (d + 1) a b) =
      (andMerge (present dflt d a) (present dflt d b)).map
        (fun r => (r.1, mulT dflt d r.2.1 r.2.2)) := by
    rw [mulT]
  rw [hdef, lookup_map_val (andMerge (present dflt d a) (present dflt d b))
    (fun _ (v : Tree κ ν d × Tree κ ν d) => mulT dflt d v.1 v.2) c,
    lookup_andMerge _ _ hsa hsb c]
  cases lookup (present dflt d a) c <;> cases lookup (present dflt d b) c <;> rfl

/-- the leaf step of a fiber product -/
theorem mulT_leaf [Mul ν] (dflt : ν) (x y : ν) (q : List κ) (h : x ≠ dflt ∧ y ≠ dflt) :
    denseAt (κ := κ) dflt 0 (mulT (κ := κ) dflt 0 x y) q =
      mulExpect dflt (denseAt (κ := κ) dflt 0 x q) (denseAt (κ := κ) dflt 0 y q) := by
  show x * y = if x ≠ dflt ∧ y ≠ dflt then x * y else dflt
  rw [if_pos h]

theorem mulExpect_left [Mul ν] (dflt y : ν) : mulExpect dflt dflt y = dflt := by simp [mulExpect]
theorem mulExpect_right [Mul ν] (dflt x : ν) : mulExpect dflt x dflt = dflt := by simp [mulExpect]

/-- dense view under `c` when the fiber does not present `c` -/
theorem denseAt_not_presented (dflt : ν) (d : Nat) (f : Tree κ ν (d + 1))
    (hs : Sorted (show List (κ × Tree κ ν d) from f)) (c : κ) (q : List κ)
    (h : lookup (present dflt d f) c = none) : denseAt dflt (d + 1) f (c :: q) = dflt := by
  rw [← denseAt_present dflt d f hs c q, h]; simp [denseAt_dfltTree]

theorem denseAt_presented (dflt : ν) (d : Nat) (f : Tree κ ν (d + 1))
    (hs : Sorted (show List (κ × Tree κ ν d) from f)) (c : κ) (q : List κ) (t : Tree κ ν d)
    (h : lookup (present dflt d f) c = some t) : denseAt dflt (d + 1) f (c :: q) = denseAt dflt d t q := by
  rw [← denseAt_present dflt d f hs c q, h]; rfl

/-- **Fiber * fiber is the elementwise product over the intersection of coordinates** (any
    depth, any default): the dense view of `a * b` is the product of the operands' dense views
    where both are non-default, and the default elsewhere. -/
theorem fiber_mul_spec [Mul ν] (dflt : ν) : ∀ (d : Nat) (a b : Tree κ ν (d + 1)),
    WF (d + 1) a → WF (d + 1) b → ∀ p : List κ,
    denseAt dflt (d + 1) (mulT dflt (d + 1) a b) p =
      mulExpect dflt (denseAt dflt (d + 1) a p) (denseAt dflt (d + 1) b p) := by
  intro d
  induction d with
  | zero =>
    intro a b ha hb p
    cases p with
    | nil => simp [denseAt_nil, mulExpect]
    | cons c q =>
      have hsa := ((WF_succ 0 a).1 ha).1
      have hsb := ((WF_succ 0 b).1 hb).1
      rw [denseAt_cons, lookup_mulT dflt 0 a b ha hb c]
      cases h1 : lookup (present dflt 0 a) c with
      | none => simp [denseAt_not_presented dflt 0 a hsa c q h1, mulExpect_left]
      | some x =>
        cases h2 : lookup (present dflt 0 b) c with
        | none => simp [denseAt_not_presented dflt 0 b hsb c q h2, mulExpect_right]
        | some y =>
          rw [denseAt_presented dflt 0 a hsa c q x h1, denseAt_presented dflt 0 b hsb c q y h2]
          exact mulT_leaf dflt x y q
            ⟨ne_of_not_isEmpty_zero dflt x (not_isEmpty_of_lookup_present h1),
             ne_of_not_isEmpty_zero dflt y (not_isEmpty_of_lookup_present h2)⟩
  | succ d ih =>
    intro a b ha hb p
    cases p with
    | nil => simp [denseAt_nil, mulExpect]
    | cons c q =>
      have hsa := ((WF_succ (d + 1) a).1 ha).1
      have hsb := ((WF_succ (d + 1) b).1 hb).1
      rw [denseAt_cons, lookup_mulT dflt (d + 1) a b ha hb c]
      cases h1 : lookup (present dflt (d + 1) a) c with
      | none => simp [denseAt_not_presented dflt (d + 1) a hsa c q h1, mulExpect_left]
      | some x =>
        cases h2 : lookup (present dflt (d + 1) b) c with
        | none => simp [denseAt_not_presented dflt (d + 1) b hsb c q h2, mulExpect_right]
        | some y =>
          rw [denseAt_presented dflt (d + 1) a hsa c q x h1, denseAt_presented dflt (d + 1) b hsb c q y h2]
          exact ih x y (WF_of_lookup_present ha h1) (WF_of_lookup_present hb h2) q

/-- lookup after `a += b`: untouched where `b` presents nothing; otherwise the old (or a fresh
    default) payload updated in place, unless the populate iterator removed it again -/
theorem lookup_iaddT [Add ν] (dflt : ν) (d : Nat) (a b : Tree κ ν (d + 1))
    (ha : WF (d + 1) a) (hb : WF (d + 1) b) (c : κ) :
    lookup (show List (κ × Tree κ ν d) from iaddT dflt (d + 1) a b) c =
      match lookup (present dflt d b) c with
      | none => lookup (show List (κ × Tree κ ν d) from a) c
      | some vb =>
        if removeAfter dflt d (lookup (show List (κ × Tree κ ν d) from a) c).isNone
            (iaddT dflt d ((lookup (show List (κ × Tree κ ν d) from a) c).getD (dfltTree dflt d)) vb)
        then none
        else some (iaddT dflt d ((lookup (show List (κ × Tree κ ν d) from a) c).getD (dfltTree dflt d)) vb) := by
  have hsa := ((WF_succ d a).1 ha).1
  have hsb := sorted_present dflt d b ((WF_succ d b).1 hb).1
  have hdef : (show List (κ × Tree κ ν d) from iaddT dflt (d + 1) a b) =
      lshiftMerge (fun (old : Option (Tree κ ν d)) (vb : Tree κ ν d) =>
        let v := iaddT dflt d (old.getD (dfltTree dflt d)) vb
        if removeAfter dflt d old.isNone v then none else some v)
      (show List (κ × Tree κ ν d) from a) (present dflt d b) := by
    rw [iaddT]
  rw [hdef, lookup_lshiftMerge _ _ _ hsa hsb c]
  cases lookup (present dflt d b) c <;> rfl

theorem lookup_iaddT_none [Add ν] (dflt : ν) (d : Nat) (a b : Tree κ ν (d + 1))
    (ha : WF (d + 1) a) (hb : WF (d + 1) b) (c : κ) (h : lookup (present dflt d b) c = none) :
    lookup (show List (κ × Tree κ ν d) from iaddT dflt (d + 1) a b) c =
      lookup (show List (κ × Tree κ ν d) from a) c := by
  rw [lookup_iaddT dflt d a b ha hb c, h]

theorem lookup_iaddT_some [Add ν] (dflt : ν) (d : Nat) (a b : Tree κ ν (d + 1))
    (ha : WF (d + 1) a) (hb : WF (d + 1) b) (c : κ) (vb : Tree κ ν d)
    (h : lookup (present dflt d b) c = some vb) :
    lookup (show List (κ × Tree κ ν d) from iaddT dflt (d + 1) a b) c =
      if removeAfter dflt d (lookup (show List (κ × Tree κ ν d) from a) c).isNone
          (iaddT dflt d ((lookup (show List (κ × Tree κ ν d) from a) c).getD (dfltTree dflt d)) vb)
      then none
      else some (iaddT dflt d ((lookup (show List (κ × Tree κ ν d) from a) c).getD (dfltTree dflt d)) vb) := by
  rw [lookup_iaddT dflt d a b ha hb c, h]

theorem denseAt_nil_fiber (dflt : ν) (d : Nat) (f : Tree κ ν (d + 1))
    (h : (show List (κ × Tree κ ν d) from f) = []) (p : List κ) : denseAt dflt (d + 1) f p = dflt := by
  cases p with
  | nil => exact denseAt_nil dflt d f
  | cons c q => rw [denseAt_cons, h]; rfl

/-- dense view of the old payload (or a fresh default) under `c` -/
theorem denseAt_getD_lookup (dflt : ν) (d : Nat) (f : Tree κ ν (d + 1)) (c : κ) (q : List κ) :
    denseAt dflt d ((lookup (show List (κ × Tree κ ν d) from f) c).getD (dfltTree dflt d)) q =
      denseAt dflt (d + 1) f (c :: q) := by
  rw [denseAt_cons]
  cases lookup (show List (κ × Tree κ ν d) from f) c with
  | none => simp [denseAt_dfltTree]
  | some t => rfl

theorem WF_getD_lookup {dflt : ν} {d : Nat} {f : Tree κ ν (d + 1)} (h : WF (d + 1) f) (c : κ) :
    WF d ((lookup (show List (κ × Tree κ ν d) from f) c).getD (dfltTree dflt d)) := by
  cases hl : lookup (show List (κ × Tree κ ν d) from f) c with
  | none => exact WF_dfltTree dflt d
  | some t => exact WF_of_lookup h hl

theorem iaddExpect_dflt [Add ν] (dflt x : ν) : iaddExpect dflt x dflt = x := by simp [iaddExpect]

/-- the leaf step of `+=`: whether or not the iterator removes a leaf that ended at the
    default, the dense value is the sum -/
theorem iaddT_leaf [Add ν] (dflt : ν) (isNew : Bool) (x y : ν) (q : List κ) (hy : y ≠ dflt) :
    optDense dflt 0 (if removeAfter (κ := κ) dflt 0 isNew (iaddT (κ := κ) dflt 0 x y) = true then none
            else some (iaddT (κ := κ) dflt 0 x y) : Option (Tree κ ν 0)) q =
      iaddExpect dflt (denseAt (κ := κ) dflt 0 x q) (denseAt (κ := κ) dflt 0 y q) := by
  have hrhs : iaddExpect dflt (denseAt (κ := κ) dflt 0 x q) (denseAt (κ := κ) dflt 0 y q) = x + y := by
    show (if y ≠ dflt then x + y else x) = x + y
    rw [if_pos hy]
  rw [hrhs]
  by_cases h : removeAfter (κ := κ) dflt 0 isNew (iaddT (κ := κ) dflt 0 x y) = true
  · rw [if_pos h]
    have : x + y = dflt := by
      have h' : decide (x + y = dflt) = true := h
      simpa using h'
    exact this.symm
  · rw [if_neg h]; rfl

/-- **What `a += b` does, pointwise** (any depth, any default): the right operand's value is
    added wherever the right operand is non-default; everything else is untouched. -/
theorem fiber_iadd_dense [Add ν] (dflt : ν) : ∀ (d : Nat) (a b : Tree κ ν (d + 1)),
    WF (d + 1) a → WF (d + 1) b → ∀ p : List κ,
    denseAt dflt (d + 1) (iaddT dflt (d + 1) a b) p =
      iaddExpect dflt (denseAt dflt (d + 1) a p) (denseAt dflt (d + 1) b p) := by
  intro d
  induction d with
  | zero =>
    intro a b ha hb p
    cases p with
    | nil => simp [denseAt_nil, iaddExpect]
    | cons c q =>
      have hsb := ((WF_succ 0 b).1 hb).1
      cases h2 : lookup (present dflt 0 b) c with
      | none =>
        rw [denseAt_cons, lookup_iaddT_none dflt 0 a b ha hb c h2,
          denseAt_not_presented dflt 0 b hsb c q h2, iaddExpect_dflt, denseAt_cons]
      | some vb =>
        rw [denseAt_cons', lookup_iaddT_some dflt 0 a b ha hb c vb h2,
          denseAt_presented dflt 0 b hsb c q vb h2, ← denseAt_getD_lookup dflt 0 a c q]
        exact iaddT_leaf dflt (lookup (show List (κ × Tree κ ν 0) from a) c).isNone
          ((lookup (show List (κ × Tree κ ν 0) from a) c).getD (dfltTree dflt 0)) vb q
          (ne_of_not_isEmpty_zero dflt vb (not_isEmpty_of_lookup_present h2))
  | succ d ih =>
    intro a b ha hb p
    cases p with
    | nil => simp [denseAt_nil, iaddExpect]
    | cons c q =>
      have hsb := ((WF_succ (d + 1) b).1 hb).1
      cases h2 : lookup (present dflt (d + 1) b) c with
      | none =>
        rw [denseAt_cons, lookup_iaddT_none dflt (d + 1) a b ha hb c h2,
          denseAt_not_presented dflt (d + 1) b hsb c q h2, iaddExpect_dflt, denseAt_cons]
      | some vb =>
        rw [denseAt_cons', lookup_iaddT_some dflt (d + 1) a b ha hb c vb h2,
          denseAt_presented dflt (d + 1) b hsb c q vb h2, ← denseAt_getD_lookup dflt (d + 1) a c q]
        have hih := ih _ vb (WF_getD_lookup (dflt := dflt) ha c) (WF_of_lookup_present hb h2) q
        by_cases hrem : removeAfter dflt (d + 1)
            (lookup (show List (κ × Tree κ ν (d + 1)) from a) c).isNone
            (iaddT dflt (d + 1) ((lookup (show List (κ × Tree κ ν (d + 1)) from a) c).getD
              (dfltTree dflt (d + 1))) vb) = true
        · rw [if_pos hrem, optDense_none, ← hih]
          have hnil : (show List (κ × Tree κ ν d) from
              (iaddT dflt (d + 1) ((lookup (show List (κ × Tree κ ν (d + 1)) from a) c).getD
                (dfltTree dflt (d + 1))) vb)) = [] := by
            simp only [removeAfter, Bool.and_eq_true] at hrem
            exact List.isEmpty_iff.1 hrem.2
          exact (denseAt_nil_fiber dflt d _ hnil q).symm
        · rw [if_neg hrem, optDense_some]
          exact hih

/-- **In-place sum = value-returning sum (partial).** When the default is a right identity of
    `+` (the usual default 0), `a += b` leaves `a` with the dense view of `a + b`.
    Without that hypothesis the two differ on points only `a` stores (`a + b` adds `b`'s default
    there, `a += b` does not): see `today_fiber_iadd_ne_add_witness`. -/
theorem fiber_iadd_eq_add_partial [Add ν] (dflt : ν) (hr : ∀ x : ν, x + dflt = x)
    (d : Nat) (a b : Tree κ ν (d + 1)) (ha : WF (d + 1) a) (hb : WF (d + 1) b) (p : List κ) :
    denseAt dflt (d + 1) (iaddT dflt (d + 1) a b) p =
      denseAt dflt (d + 1) (addT dflt (d + 1) a b) p := by
  rw [fiber_iadd_dense dflt d a b ha hb p, fiber_add_spec dflt d a b ha hb p]
  simp only [iaddExpect, addExpect]
  by_cases hy : denseAt dflt (d + 1) b p = dflt
  · by_cases hx : denseAt dflt (d + 1) a p = dflt
    · simp [hx, hy]
    · simp [hx, hy, hr]
  · simp [hy]

/-! ### `*=` with a fiber -/

theorem andMerge_sorted {α β : Type} (a : Fib κ α) (b : Fib κ β) (ha : Sorted a) (hb : Sorted b) :
    Sorted (andMerge a b) := by
  rw [and_spec a b ha hb]
  unfold andSpec Sorted
  refine List.Pairwise.filterMap _ ?_ ha
  intro e e' hlt r hr r' hr'
  cases h1 : lookup b e.1 with
  | none => simp [h1] at hr
  | some pb =>
    cases h2 : lookup b e'.1 with
    | none => simp [h2] at hr'
    | some pb' =>
      simp [h1] at hr; simp [h2] at hr'
      subst hr; subst hr'
      exact hlt

theorem mem_andMerge {α β : Type} (a : Fib κ α) (b : Fib κ β) (ha : Sorted a) (hb : Sorted b)
    (r : κ × α × β) (hr : r ∈ andMerge a b) : (r.1, r.2.1) ∈ a ∧ lookup b r.1 = some r.2.2 := by
  rw [and_spec a b ha hb] at hr
  unfold andSpec at hr
  obtain ⟨e, he, hf⟩ := List.mem_filterMap.1 hr
  cases h1 : lookup b e.1 with
  | none => simp [h1] at hf
  | some pb =>
    simp [h1] at hf
    subst hf
    exact ⟨he, h1⟩

/-- a fiber product of well-formed trees is well-formed -/
theorem mulT_WF [Mul ν] (dflt : ν) : ∀ (d : Nat) (a b : Tree κ ν d), WF d a → WF d b →
    WF d (mulT dflt d a b) := by
  intro d
  induction d with
  | zero => intro a b _ _; simp [WF]
  | succ d ih =>
    intro a b ha hb
    have hsa := sorted_present dflt d a ((WF_succ d a).1 ha).1
    have hsb := sorted_present dflt d b ((WF_succ d b).1 hb).1
    have hdef : (show List (κ × Tree κ ν d) from mulT dflt (d + 1) a b) =
        (andMerge (present dflt d a) (present dflt d b)).map
          (fun r => (r.1, mulT dflt d r.2.1 r.2.2)) := by
      rw [mulT]
    rw [WF_succ, hdef]
    refine ⟨sorted_map_key _ (fun r => mulT dflt d r.2.1 r.2.2) (andMerge_sorted _ _ hsa hsb), ?_⟩
    intro e he
    obtain ⟨r, hr, rfl⟩ := List.mem_map.1 he
    obtain ⟨h1, h2⟩ := mem_andMerge _ _ hsa hsb r hr
    have hwa : WF d r.2.1 := by
      unfold present at h1
      exact ((WF_succ d a).1 ha).2 _ (List.mem_filter.1 h1).1
    have hwb : WF d r.2.2 := WF_of_lookup_present hb h2
    exact ih _ _ hwa hwb

/-- `<<=` of a fiber (`nonEmpty`: a copy of the presented elements) keeps the dense view -/
theorem denseAt_nonEmpty (dflt : ν) : ∀ (d : Nat) (t : Tree κ ν d), WF d t → ∀ p : List κ,
    denseAt dflt d (nonEmpty dflt d t) p = denseAt dflt d t p := by
  intro d
  induction d with
  | zero => intro t _ p; rfl
  | succ d ih =>
    intro t ht p
    cases p with
    | nil => rw [denseAt_nil, denseAt_nil]
    | cons c q =>
      have hs := ((WF_succ d t).1 ht).1
      have hdef : (show List (κ × Tree κ ν d) from nonEmpty dflt (d + 1) t) =
          (present dflt d t).map (fun e => (e.1, nonEmpty dflt d e.2)) := by
        rw [nonEmpty]; rfl
      rw [denseAt_cons', hdef,
        lookup_map_val (present dflt d t) (fun _ (v : Tree κ ν d) => nonEmpty dflt d v) c]
      cases hl : lookup (present dflt d t) c with
      | none =>
        rw [denseAt_not_presented dflt d t hs c q hl]; rfl
      | some u =>
        rw [denseAt_presented dflt d t hs c q u hl]
        exact ih u (WF_of_lookup_present ht hl) q

/-- lookup after `a *= b`: an element of `a` is rewritten only where both operands present the
    coordinate; every other element of `a` is still there -/
theorem lookup_imulT [Mul ν] (dflt : ν) (d : Nat) (a b : Tree κ ν (d + 1))
    (ha : WF (d + 1) a) (hb : WF (d + 1) b) (c : κ) :
    lookup (show List (κ × Tree κ ν d) from imulT dflt d a b) c =
      match lookup (show List (κ × Tree κ ν d) from a) c with
      | none => none
      | some x =>
        match lookup (present dflt d b) c with
        | some y => some (if isEmpty dflt d x then x else nonEmpty dflt d (mulT dflt d x y))
        | none => some x := by
  have hsa := ((WF_succ d a).1 ha).1
  have hsb := sorted_present dflt d b ((WF_succ d b).1 hb).1
  have h := lookup_imulMerge
    (fun (pa pb : Tree κ ν d) => if isEmpty dflt d pa then pa else nonEmpty dflt d (mulT dflt d pa pb))
    (show List (κ × Tree κ ν d) from a) (present dflt d b) hsa hsb c
  have hdef : (show List (κ × Tree κ ν d) from imulT dflt d a b) =
      imulMerge (fun (pa pb : Tree κ ν d) => if isEmpty dflt d pa then pa else nonEmpty dflt d (mulT dflt d pa pb))
        (show List (κ × Tree κ ν d) from a) (present dflt d b) := rfl
  rw [hdef, h]
  cases lookup (show List (κ × Tree κ ν d) from a) c with
  | none => rfl
  | some x => cases lookup (present dflt d b) c <;> rfl

/-- **In-place product = value-returning product (partial).** If every coordinate `a` presents
    is also presented by `b` (`hcovB`, executable), `a *= b` leaves `a` with the dense view of `a * b` (any depth, any
    default).  Without the hypothesis it does not: `today_fiber_imul_keeps_unmatched`. -/
theorem fiber_imul_eq_mul_partial [Mul ν] (dflt : ν) (d : Nat) (a b : Tree κ ν (d + 1))
    (ha : WF (d + 1) a) (hb : WF (d + 1) b)
    (hcovB : (present dflt d a).all (fun e => hasCoord (present dflt d b) e.1) = true)
    (p : List κ) :
    denseAt dflt (d + 1) (imulT dflt d a b) p = denseAt dflt (d + 1) (mulT dflt (d + 1) a b) p := by
  have hcov : ∀ c, (lookup (present dflt d a) c).isSome = true →
      (lookup (present dflt d b) c).isSome = true := by
    intro c hc
    obtain ⟨t, ht⟩ := Option.isSome_iff_exists.1 hc
    have := List.all_eq_true.1 hcovB (c, t) (mem_of_lookup ht)
    rwa [hasCoord_iff_lookup] at this
  cases p with
  | nil => rw [denseAt_nil, denseAt_nil]
  | cons c q =>
    have hsa := ((WF_succ d a).1 ha).1
    rw [denseAt_cons', denseAt_cons', lookup_imulT dflt d a b ha hb c, lookup_mulT dflt d a b ha hb c,
      lookup_present dflt d a hsa c]
    cases hl : lookup (show List (κ × Tree κ ν d) from a) c with
    | none => rfl
    | some x =>
      by_cases he : isEmpty dflt d x = true
      · have hx : denseAt dflt d x q = dflt := denseAt_of_isEmpty dflt d x q he
        cases lookup (present dflt d b) c <;> simp [Option.filter, he, optDense, hx]
      · have hpa : lookup (present dflt d a) c = some x := by
          rw [lookup_present dflt d a hsa c, hl]; simp [Option.filter, he]
        have := hcov c (by simp [hpa])
        obtain ⟨y, hy⟩ := Option.isSome_iff_exists.1 this
        have hwx : WF d x := WF_of_lookup ha hl
        have hwy : WF d y := WF_of_lookup_present hb hy
        simp only [hy, Option.filter, he, Bool.not_false, if_true, Bool.false_eq_true, if_false,
          optDense_some]
        simp [optDense, denseAt_nonEmpty dflt d _ (mulT_WF dflt d x y hwx hwy) q]

/-- **Today's `*=` keeps what it does not match**: at a coordinate `b` does not present, `a`'s
    element survives `a *= b` unchanged, while `a * b` has nothing there. -/
theorem today_fiber_imul_keeps_unmatched [Mul ν] (dflt : ν) (d : Nat) (a b : Tree κ ν (d + 1))
    (ha : WF (d + 1) a) (hb : WF (d + 1) b) (c : κ) (hnb : lookup (present dflt d b) c = none) :
    lookup (show List (κ × Tree κ ν d) from imulT dflt d a b) c =
      lookup (show List (κ × Tree κ ν d) from a) c ∧
    lookup (show List (κ × Tree κ ν d) from mulT dflt (d + 1) a b) c = none := by
  constructor
  · rw [lookup_imulT dflt d a b ha hb c, hnb]
    cases lookup (show List (κ × Tree κ ν d) from a) c <;> rfl
  · rw [lookup_mulT dflt d a b ha hb c, hnb]
    cases lookup (present dflt d a) c <;> rfl

end

/-! ### fiber ∘ scalar (leaf fibers, integer coordinates) -/

section
variable {ν : Type} [DecidableEq ν]

/-- the dense view of a leaf fiber at one coordinate -/
theorem denseAt_leaf (dflt : ν) (f : Fib Int ν) (c : Int) :
    denseAt dflt 1 (leafFiber f) [c] = (lookup f c).getD dflt := by
  rw [denseAt_cons']
  have : ∀ o : Option ν, optDense (κ := Int) dflt 0 (o : Option (Tree Int ν 0)) [] = o.getD dflt := by
    intro o; cases o <;> rfl
  exact this _

/-- **Fiber + scalar adds over the whole shape**: inside `[0, n)` every coordinate — stored or
    not — holds `s +` the operand's dense value; outside the shape the result stores nothing. -/
theorem fiber_scalar_add [Add ν] (dflt s : ν) (n : Nat) (f : Fib Int ν) (c : Int) :
    denseAt dflt 1 (leafFiber (saddF dflt s n f)) [c] =
      if 0 ≤ c ∧ c < (n : Int) then s + denseAt dflt 1 (leafFiber f) [c] else dflt := by
  rw [denseAt_leaf, denseAt_leaf]
  unfold saddF
  rw [lookup_range_map (fun i => s + (lookup f (i : Int)).getD dflt) n c]
  by_cases h : 0 ≤ c ∧ c < (n : Int)
  · rw [if_pos h, if_pos h, Int.toNat_of_nonneg h.1]; rfl
  · rw [if_neg h, if_neg h]; rfl

/-- **Fiber * scalar scales the stored (non-default) elements** and stores nothing else. -/
theorem fiber_scalar_mul [Mul ν] (dflt s : ν) (f : Fib Int ν) (hs : Sorted f) (c : Int) :
    denseAt dflt 1 (leafFiber (smulF dflt s f)) [c] =
      if denseAt dflt 1 (leafFiber f) [c] ≠ dflt
      then s * denseAt dflt 1 (leafFiber f) [c] else dflt := by
  rw [denseAt_leaf, denseAt_leaf]
  unfold smulF
  rw [lookup_map_val (f.filter (fun e => !decide (e.2 = dflt))) (fun _ v => s * v) c,
    lookup_filter_val hs (fun v => !decide (v = dflt)) c]
  cases hl : lookup f c with
  | none => simp [Option.filter]
  | some v =>
    by_cases hv : v = dflt
    · simp [Option.filter, hv]
    · simp [Option.filter, hv]

/-- what `f += s` does: inside the shape every coordinate gets `+ s` (absent ones are created
    from the default); coordinates outside the shape are left alone -/
theorem fiber_scalar_iadd_dense [Add ν] (dflt s : ν) (n : Nat) (f : Fib Int ν) (hs : Sorted f) (c : Int) :
    denseAt dflt 1 (leafFiber (isaddF dflt s n f)) [c] =
      if 0 ≤ c ∧ c < (n : Int) then denseAt dflt 1 (leafFiber f) [c] + s
      else denseAt dflt 1 (leafFiber f) [c] := by
  rw [denseAt_leaf, denseAt_leaf, (lookup_isaddF dflt s n f hs).2 c]
  by_cases h : 0 ≤ c ∧ c < (n : Int)
  · rw [if_pos h, if_pos h]; rfl
  · rw [if_neg h, if_neg h]

/-- what `f *= s` does: the stored non-default values are scaled in place -/
theorem fiber_scalar_imul_dense [Mul ν] (dflt s : ν) (f : Fib Int ν) (c : Int) :
    denseAt dflt 1 (leafFiber (ismulF dflt s f)) [c] =
      if denseAt dflt 1 (leafFiber f) [c] ≠ dflt
      then denseAt dflt 1 (leafFiber f) [c] * s
      else denseAt dflt 1 (leafFiber f) [c] := by
  rw [denseAt_leaf, denseAt_leaf]
  have hmap : ismulF dflt s f = f.map (fun e => (e.1, (fun _ v => if v = dflt then v else v * s) e.1 e.2)) := by
    unfold ismulF
    apply List.map_congr_left
    intro e _
    obtain ⟨k, v⟩ := e
    by_cases hv : v = dflt <;> simp [hv]
  rw [hmap, lookup_map_val f (fun _ v => if v = dflt then v else v * s) c]
  cases hl : lookup f c with
  | none => simp
  | some v =>
    by_cases hv : v = dflt
    · simp [hv]
    · simp [hv]

/-- **`f += s` = `f + s` (partial)**: when every coordinate of `f` lies inside the shape and `s`
    commutes with the values (`+` evaluates `s + v`, `+=` evaluates `v + s`). -/
theorem fiber_scalar_iadd_eq_add_partial [Add ν] (dflt s : ν) (n : Nat) (f : Fib Int ν) (hs : Sorted f)
    (hcomm : ∀ v : ν, s + v = v + s) (hin : inShapeB n f = true) (c : Int) :
    denseAt dflt 1 (leafFiber (isaddF dflt s n f)) [c] =
      denseAt dflt 1 (leafFiber (saddF dflt s n f)) [c] := by
  rw [fiber_scalar_iadd_dense dflt s n f hs c, fiber_scalar_add dflt s n f c]
  by_cases h : 0 ≤ c ∧ c < (n : Int)
  · rw [if_pos h, if_pos h, hcomm]
  · rw [if_neg h, if_neg h, denseAt_leaf]
    cases hl : lookup f c with
    | none => rfl
    | some v =>
      exfalso
      have hm := mem_of_lookup hl
      have := List.all_eq_true.1 hin (c, v) hm
      simp only [Bool.and_eq_true, decide_eq_true_eq] at this
      exact h this

/-- **`f *= s` = `f * s` (partial)**: when `s` commutes with the values. -/
theorem fiber_scalar_imul_eq_mul_partial [Mul ν] (dflt s : ν) (f : Fib Int ν) (hs : Sorted f)
    (hcomm : ∀ v : ν, s * v = v * s) (c : Int) :
    denseAt dflt 1 (leafFiber (ismulF dflt s f)) [c] =
      denseAt dflt 1 (leafFiber (smulF dflt s f)) [c] := by
  rw [fiber_scalar_imul_dense dflt s f c, fiber_scalar_mul dflt s f hs c]
  by_cases h : denseAt dflt 1 (leafFiber f) [c] ≠ dflt
  · rw [if_pos h, if_pos h, hcomm]
  · rw [if_neg h, if_neg h]
    exact Classical.not_not.1 h

end
/-! ### the executable specifications used by the driver are satisfied by the model -/

section
variable {κ ν : Type} [LT κ] [DecidableRel (α := κ) (· < ·)] [DecidableEq κ] [StrictTotal κ]
variable [DecidableEq ν]

/-- the executable pointwise check accepts the model's sum -/
theorem fiber_add_specB_sound [Add ν] (dflt : ν) (d : Nat) (a b : Tree κ ν (d + 1))
    (ha : WF (d + 1) a) (hb : WF (d + 1) b) :
    pointwiseB dflt (d + 1) (addExpect dflt) a b (addT dflt (d + 1) a b) = true := by
  unfold pointwiseB
  exact List.all_eq_true.2 (fun p _ => decide_eq_true (fiber_add_spec dflt d a b ha hb p))

/-- the executable pointwise check accepts the model's product -/
theorem fiber_mul_specB_sound [Mul ν] (dflt : ν) (d : Nat) (a b : Tree κ ν (d + 1))
    (ha : WF (d + 1) a) (hb : WF (d + 1) b) :
    pointwiseB dflt (d + 1) (mulExpect dflt) a b (mulT dflt (d + 1) a b) = true := by
  unfold pointwiseB
  exact List.all_eq_true.2 (fun p _ => decide_eq_true (fiber_mul_spec dflt d a b ha hb p))

/-- a point with a non-default dense value is one of the tree's content points -/
theorem mem_points_of_dense_ne (dflt : ν) : ∀ (d : Nat) (t : Tree κ ν d) (p : List κ),
    p.length = d → denseAt dflt d t p ≠ dflt → p ∈ (content dflt d t).map (·.1) := by
  intro d
  induction d with
  | zero =>
    intro t p hp hne
    have hp' : p = [] := List.eq_nil_of_length_eq_zero hp
    subst hp'
    have hne' : (show ν from t) ≠ dflt := hne
    simp [content, hne']
  | succ d ih =>
    intro t p hp hne
    cases p with
    | nil => simp at hp
    | cons c q =>
      rw [denseAt_cons'] at hne
      cases hl : lookup (show List (κ × Tree κ ν d) from t) c with
      | none => rw [hl] at hne; exact absurd rfl hne
      | some u =>
        rw [hl, optDense_some] at hne
        have hq : q.length = d := by simpa using hp
        have hmem := ih u q hq hne
        obtain ⟨pv, hpv, hpvq⟩ := List.mem_map.1 hmem
        have hcont : content dflt (d + 1) t =
            (show List (κ × Tree κ ν d) from t).flatMap
              (fun e => (content dflt d e.2).map (fun pv => (e.1 :: pv.1, pv.2))) := by
          rw [content]
        rw [hcont]
        refine List.mem_map.2 ⟨(c :: pv.1, pv.2), ?_, by simp [hpvq]⟩
        exact List.mem_flatMap.2 ⟨(c, u), mem_of_lookup hl, List.mem_map.2 ⟨pv, hpv, rfl⟩⟩

/-- **The executable pointwise check decides the pointwise statement**: checking the stored
    points of the operands and of the candidate output is enough for all points (of full
    length), for any expectation that maps two defaults to the default. -/
theorem pointwiseB_complete (dflt : ν) (d : Nat) (exp : ν → ν → ν) (hexp : exp dflt dflt = dflt)
    (a b out : Tree κ ν d) (h : pointwiseB dflt d exp a b out = true) (p : List κ) (hp : p.length = d) :
    denseAt dflt d out p = exp (denseAt dflt d a p) (denseAt dflt d b p) := by
  unfold pointwiseB at h
  by_cases hm : p ∈ pointsOf dflt d [a, b, out]
  · exact of_decide_eq_true (List.all_eq_true.1 h p hm)
  · have hnot : ∀ t ∈ [a, b, out], denseAt dflt d t p = dflt := by
      intro t ht
      apply Classical.byContradiction
      intro hne
      apply hm
      unfold pointsOf
      exact List.mem_flatMap.2 ⟨t, ht, mem_points_of_dense_ne dflt d t p hp hne⟩
    rw [hnot a (by simp), hnot b (by simp), hnot out (by simp), hexp]

/-- **Today's `+=` versus `+` with a default that is not a right identity**: on a point only
    `a` stores, `a += b` keeps `a`'s value while `a + b` adds `b`'s default to it. -/
theorem today_fiber_iadd_vs_add [Add ν] (dflt : ν) (d : Nat) (a b : Tree κ ν (d + 1))
    (ha : WF (d + 1) a) (hb : WF (d + 1) b) (p : List κ)
    (hx : denseAt dflt (d + 1) a p ≠ dflt) (hy : denseAt dflt (d + 1) b p = dflt) :
    denseAt dflt (d + 1) (iaddT dflt (d + 1) a b) p = denseAt dflt (d + 1) a p ∧
    denseAt dflt (d + 1) (addT dflt (d + 1) a b) p = denseAt dflt (d + 1) a p + dflt := by
  rw [fiber_iadd_dense dflt d a b ha hb p, fiber_add_spec dflt d a b ha hb p, hy]
  simp [iaddExpect, addExpect, hx]

end

/-! ### non-vacuity of Part B: concrete overlapping fibers satisfy every hypothesis -/

def exA0 : Fib Int Int := [(0, 2), (1, 3), (3, 4)]
def exB0 : Fib Int Int := [(1, 5), (2, 6)]
def exC0 : Fib Int Int := [(0, 1), (1, 5), (2, 6), (3, -4)]
theorem exA0_sorted : Sorted exA0 := by unfold Sorted exA0; decide
theorem exB0_sorted : Sorted exB0 := by unfold Sorted exB0; decide
theorem exC0_sorted : Sorted exC0 := by unfold Sorted exC0; decide
def exA : Tree Int Int 1 := leafFiber exA0
def exB : Tree Int Int 1 := leafFiber exB0
def exC : Tree Int Int 1 := leafFiber exC0
theorem exA_WF : WF 1 exA := (WF_succ 0 exA).2 ⟨exA0_sorted, fun _ _ => trivial⟩
theorem exB_WF : WF 1 exB := (WF_succ 0 exB).2 ⟨exB0_sorted, fun _ _ => trivial⟩
theorem exC_WF : WF 1 exC := (WF_succ 0 exC).2 ⟨exC0_sorted, fun _ _ => trivial⟩
/-- a two-level tree with an empty sub-fiber and an explicit default -/
def exD : Tree Int Int 2 :=
  show List (Int × Tree Int Int 1) from [(0, exA), (2, leafFiber []), (5, leafFiber [(1, 0), (4, 7)])]
theorem exD_WF : WF 2 exD := by
  refine (WF_succ 1 exD).2 ⟨by unfold Sorted exD; decide, ?_⟩
  intro e he
  have he' : e = (0, exA) ∨ e = (2, leafFiber []) ∨ e = (5, leafFiber [(1, 0), (4, 7)]) := by
    simpa [exD] using he
  rcases he' with rfl | rfl | rfl
  · exact exA_WF
  · exact (WF_succ 0 _).2 ⟨List.Pairwise.nil, fun _ h => by cases h⟩
  · exact (WF_succ 0 _).2 ⟨by unfold Sorted leafFiber; decide, fun _ _ => trivial⟩

example : ∀ p, denseAt (0 : Int) 1 (addT 0 1 exA exB) p =
    addExpect 0 (denseAt 0 1 exA p) (denseAt 0 1 exB p) := fiber_add_spec 0 0 exA exB exA_WF exB_WF
example : ∀ p, denseAt (0 : Int) 2 (addT 0 2 exD exD) p =
    addExpect 0 (denseAt 0 2 exD p) (denseAt 0 2 exD p) := fiber_add_spec 0 1 exD exD exD_WF exD_WF
example : ∀ p, denseAt (7 : Int) 1 (mulT 7 1 exA exB) p =
    mulExpect 7 (denseAt 7 1 exA p) (denseAt 7 1 exB p) := fiber_mul_spec 7 0 exA exB exA_WF exB_WF
example : ∀ p, denseAt (0 : Int) 2 (iaddT 0 2 exD exD) p =
    iaddExpect 0 (denseAt 0 2 exD p) (denseAt 0 2 exD p) := fiber_iadd_dense 0 1 exD exD exD_WF exD_WF
example : ∀ p, denseAt (0 : Int) 1 (iaddT 0 1 exA exB) p = denseAt 0 1 (addT 0 1 exA exB) p :=
  fiber_iadd_eq_add_partial 0 (by intro x; omega) 0 exA exB exA_WF exB_WF
/-- the coverage hypothesis of the `*=` theorem is satisfiable with a non-trivial intersection … -/
example : ∀ p, denseAt (0 : Int) 1 (imulT 0 0 exA exC) p = denseAt 0 1 (mulT 0 1 exA exC) p :=
  fiber_imul_eq_mul_partial 0 0 exA exC exA_WF exC_WF (by decide)
/-- … and it fails for `exA`, `exB`: coordinate 0 of `exA` survives `exA *= exB` but is not in `exA * exB`. -/
example : denseAt (0 : Int) 1 (imulT 0 0 exA exB) [0] = 2 ∧ denseAt (0 : Int) 1 (mulT 0 1 exA exB) [0] = 0 := by
  have h := today_fiber_imul_keeps_unmatched (0 : Int) 0 exA exB exA_WF exB_WF 0 (by decide)
  constructor
  · rw [denseAt_cons', h.1]; decide
  · rw [denseAt_cons', h.2]; rfl
/-- default 7: `[(1,3)] += []` keeps 3 at coordinate 1, `[(1,3)] + []` gives 3 + 7 -/
example : denseAt (7 : Int) 1 (iaddT 7 1 (leafFiber [((1 : Int), (3 : Int))]) (leafFiber [])) [1] = 3 ∧
    denseAt (7 : Int) 1 (addT 7 1 (leafFiber [((1 : Int), (3 : Int))]) (leafFiber [])) [1] = 3 + 7 := by
  have hw : WF 1 (leafFiber [((1 : Int), (3 : Int))]) :=
    (WF_succ 0 _).2 ⟨by unfold Sorted leafFiber; decide, fun _ _ => trivial⟩
  have hn : WF 1 (leafFiber ([] : Fib Int Int)) :=
    (WF_succ 0 _).2 ⟨List.Pairwise.nil, fun _ h => by cases h⟩
  exact today_fiber_iadd_vs_add (7 : Int) 0 _ _ hw hn [1] (by decide) (by decide)
example : ∀ c, denseAt (0 : Int) 1 (leafFiber (saddF 0 5 4 exA0)) [c] =
    if 0 ≤ c ∧ c < ((4 : Nat) : Int) then 5 + denseAt 0 1 (leafFiber exA0) [c] else 0 :=
  fiber_scalar_add 0 5 4 exA0
example : ∀ c, denseAt (0 : Int) 1 (leafFiber (smulF 0 5 exA0)) [c] =
    if denseAt 0 1 (leafFiber exA0) [c] ≠ 0 then 5 * denseAt 0 1 (leafFiber exA0) [c] else 0 :=
  fiber_scalar_mul 0 5 exA0 exA0_sorted
example : ∀ c, denseAt (0 : Int) 1 (leafFiber (isaddF 0 5 4 exA0)) [c] =
    denseAt 0 1 (leafFiber (saddF 0 5 4 exA0)) [c] :=
  fiber_scalar_iadd_eq_add_partial 0 5 4 exA0 exA0_sorted (by intro v; omega) (by decide)
example : ∀ c, denseAt (0 : Int) 1 (leafFiber (ismulF 0 5 exA0)) [c] =
    denseAt 0 1 (leafFiber (smulF 0 5 exA0)) [c] :=
  fiber_scalar_imul_eq_mul_partial 0 5 exA0 exA0_sorted (by intro v; exact Int.mul_comm 5 v)

end Ft
