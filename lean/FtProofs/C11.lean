/-
  C11 — arithmetic on boxes and on fibers agrees with arithmetic on the values.
  Property theorems only; helper lemmas live in FtProofs/Lemmas/Arith.lean.

  Part A is polymorphic in the value algebra `Alg ν ε` (ints, floats, … — whatever the
  underlying Python operators do, including raising), Part B in the leaf values `ν` (with the
  algebraic laws a statement needs as explicit hypotheses) and, where only order matters, in the
  coordinates.
-/
import FtProofs.Lemmas.Arith
set_option linter.unusedSectionVars false
set_option linter.unusedSimpArgs false
set_option linter.unusedVariables false
namespace Ft
open StrictTotal Arith

/-! ## Part A — boxes and elements -/

section
variable {ν ε : Type} (A : Alg ν ε)

/-- **Operator table.** For every documented operator (`+ - * / // << & |`) and every
    operand-kind combination with at least one box or element (box-box, box-scalar, scalar-box,
    and an element on either side), the expression evaluates to a box holding the result of the
    same operator on the underlying values — or raises exactly what the value operator raises. -/
theorem box_op_table (op : BinOp) (ka kb : Kind) (x y : ν) (hk : ¬ (ka = .S ∧ kb = .S)) :
    pyBin A op ka kb x y = binSpec A op x y := by
  cases ka <;> cases kb <;>
    simp_all [pyBin, binSpec, opPS, opSP, opPP, opES, opSE, opEE, opEP, opPE,
      Kind.hasOp, Kind.hasROp, Res.rebox_rebox]

/-- **Comparison table (full).** All six comparisons, all operand-kind combinations: the result
    is the comparison of the underlying values, given the one law of the value order that
    Python's reflected dispatch relies on (`y > x` is `x < y`, …). -/
theorem box_cmp_table (hsw : ∀ c x y, A.cmp c.swap y x = A.cmp c x y)
    (c : CmpOp) (ka kb : Kind) (x y : ν) : pyCmp A c ka kb x y = A.cmp c x y := by
  cases ka <;> cases kb <;>
    simp [pyCmp, cmpSS, cmpPS, cmpSP, cmpPP, cmpES, cmpSE, cmpEE, cmpEP, cmpPE, hsw]

/-- **In-place forms.** `+= -= *= /= <<=` on a box or on an element, with a scalar, a box or an
    element on the right: the statement leaves the name bound to the same object, whose box now
    holds the operator's result (`<<=`: the new value) — or raises what the value operator
    raises and changes nothing. -/
theorem inplace_same_ref (i : IOp) (ka kb : Kind) (x y : ν) (hka : ka ≠ .S) :
    pyIop A i ka kb x y = iopSpec A i x y := by
  cases i <;> cases ka <;> cases kb <;>
    simp_all [pyIop, iopP, iopE, iopSpec, IOp.bin, opSS, opSE, opSP, Kind.hasOp, Kind.hasROp] <;>
    (split <;> simp_all [Res.rebox, Res.store])

/-- `<<=` replaces the value and keeps the object, whatever the kinds of the two operands. -/
theorem ilshift_replaces (ka kb : Kind) (x y : ν) (hka : ka ≠ .S) :
    pyIop A .ishl ka kb x y = .done .same (.val y) := by
  cases ka <;> cases kb <;> simp_all [pyIop, iopP, iopE]

end

/-! ### non-vacuity of Part A: an integer algebra -/
namespace C11

/-- `+ - *` and the comparisons of `Int`; `/` raising on a zero divisor (exact quotients only) -/
def intAlg : Alg Int String where
  bin := fun op x y =>
    match op with
    | .add => .ok (x + y)
    | .sub => .ok (x - y)
    | .mul => .ok (x * y)
    | .div => if y = 0 then .error "ZeroDivisionError" else .ok (x / y)
    | .fdiv => if y = 0 then .error "ZeroDivisionError" else .ok (Int.fdiv x y)
    | _ => .error "not modelled"
  cmp := fun c x y =>
    match c with
    | .eq => decide (x = y) | .ne => decide (x ≠ y) | .lt => decide (x < y)
    | .le => decide (x ≤ y) | .gt => decide (x > y) | .ge => decide (x ≥ y)

theorem intAlg_swap : ∀ c x y, intAlg.cmp (CmpOp.swap c) y x = intAlg.cmp c x y := by
  intro c x y
  cases c <;> simp [intAlg, CmpOp.swap, eq_comm]

example : pyBin intAlg .sub .S .E 12 5 = .boxed 7 :=
  box_op_table intAlg .sub .S .E 12 5 (by decide)
example : pyBin intAlg .div .P .S 12 0 = .raised "ZeroDivisionError" :=
  box_op_table intAlg .div .P .S 12 0 (by decide)
example : pyBin intAlg .fdiv .S .E 12 5 = .boxed 2 :=
  box_op_table intAlg .fdiv .S .E 12 5 (by decide)
example : pyCmp intAlg .lt .S .E 4 5 = true := by
  rw [box_cmp_table intAlg intAlg_swap]; decide
example : pyIop intAlg .imul .E .P 12 5 = .done .same (.val 60) :=
  inplace_same_ref intAlg .imul .E .P 12 5 (by decide)
example : pyIop intAlg .idiv .E .S 12 4 = .done .same (.val 3) :=
  inplace_same_ref intAlg .idiv .E .S 12 4 (by decide)
example : pyIop intAlg .ishl .P .E 12 5 = .done .same (.val 5) :=
  ilshift_replaces intAlg .P .E 12 5 (by decide)

end C11

/-! ## Part B — fibers -/

section
variable {κ ν : Type} [LT κ] [DecidableRel (α := κ) (· < ·)] [DecidableEq κ] [StrictTotal κ]
variable [DecidableEq ν]

/-- **Fiber + fiber is the elementwise sum over the union of coordinates** (any depth, any
    defaults `dfa` of `a` and `dfb` of `b`, equal or not): at every point the dense view of
    `a + b` is the sum of the operands' dense views wherever either operand differs from its own
    default (an absent side contributing ITS OWN default), and `a`'s default elsewhere. -/
theorem fiber_add_spec [Add ν] (dfa dfb : ν) : ∀ (d : Nat) (a b : Tree κ ν (d + 1)),
    WF (d + 1) a → WF (d + 1) b → ∀ p : List κ,
    denseAt dfa (d + 1) (addT dfa dfb (d + 1) a b) p =
      addExpect dfa dfb (denseAt dfa (d + 1) a p) (denseAt dfb (d + 1) b p) := by
  intro d
  induction d with
  | zero =>
    intro a b ha hb p
    cases p with
    | nil => simp [denseAt_nil, addExpect]
    | cons c q =>
      have hsa := ((WF_succ 0 a).1 ha).1
      have hsb := ((WF_succ 0 b).1 hb).1
      rw [denseAt_cons, lookup_addT dfa dfb 0 a b ha hb c,
        ← denseAt_present dfa 0 a hsa c q, ← denseAt_present dfb 0 b hsb c q]
      by_cases hcond : (lookup (present dfa 0 a) c).isSome = true ∨ (lookup (present dfb 0 b) c).isSome = true
      · rw [if_pos hcond]
        apply addT_leaf
        rcases hcond with h | h
        · left
          obtain ⟨t, ht⟩ := Option.isSome_iff_exists.1 h
          rw [ht]; exact ne_of_not_isEmpty_zero dfa t (not_isEmpty_of_lookup_present ht)
        · right
          obtain ⟨t, ht⟩ := Option.isSome_iff_exists.1 h
          rw [ht]; exact ne_of_not_isEmpty_zero dfb t (not_isEmpty_of_lookup_present ht)
      · rw [if_neg hcond]
        have h1 : lookup (present dfa 0 a) c = none := by
          cases h : lookup (present dfa 0 a) c with
          | none => rfl
          | some _ => exact absurd (Or.inl (by simp [h])) hcond
        have h2 : lookup (present dfb 0 b) c = none := by
          cases h : lookup (present dfb 0 b) c with
          | none => rfl
          | some _ => exact absurd (Or.inr (by simp [h])) hcond
        simp [h1, h2, denseAt_dfltTree, addExpect]
  | succ d ih =>
    intro a b ha hb p
    cases p with
    | nil => simp [denseAt_nil, addExpect]
    | cons c q =>
      have hsa := ((WF_succ (d + 1) a).1 ha).1
      have hsb := ((WF_succ (d + 1) b).1 hb).1
      rw [denseAt_cons, lookup_addT dfa dfb (d + 1) a b ha hb c,
        ← denseAt_present dfa (d + 1) a hsa c q, ← denseAt_present dfb (d + 1) b hsb c q]
      by_cases hcond : (lookup (present dfa (d + 1) a) c).isSome = true ∨
          (lookup (present dfb (d + 1) b) c).isSome = true
      · rw [if_pos hcond]
        exact ih _ _ (WF_getD_present ha c) (WF_getD_present hb c) q
      · rw [if_neg hcond]
        have h1 : lookup (present dfa (d + 1) a) c = none := by
          cases h : lookup (present dfa (d + 1) a) c with
          | none => rfl
          | some _ => exact absurd (Or.inl (by simp [h])) hcond
        have h2 : lookup (present dfb (d + 1) b) c = none := by
          cases h : lookup (present dfb (d + 1) b) c with
          | none => rfl
          | some _ => exact absurd (Or.inr (by simp [h])) hcond
        simp [h1, h2, denseAt_dfltTree, addExpect]

/-- **Fiber * fiber is the elementwise product over the intersection of coordinates** (any
    depth, any default): the dense view of `a * b` is the product of the operands' dense views
    where both are non-default, and the default elsewhere. -/
theorem fiber_mul_spec [Mul ν] (dflt : ν) : ∀ (d : Nat) (a b : Tree κ ν (d + 1)),
    WF (d + 1) a → WF (d + 1) b → ∀ p : List κ,
    denseAt dflt (d + 1) (mulT dflt (d + 1) a b) p =
      mulExpect dflt (denseAt dflt (d + 1) a p) (denseAt dflt (d + 1) b p) := by
  intro d
  induction d with
  | zero =>
    intro a b ha hb p
    cases p with
    | nil => simp [denseAt_nil, mulExpect]
    | cons c q =>
      have hsa := ((WF_succ 0 a).1 ha).1
      have hsb := ((WF_succ 0 b).1 hb).1
      rw [denseAt_cons, lookup_mulT dflt 0 a b ha hb c]
      cases h1 : lookup (present dflt 0 a) c with
      | none => simp [denseAt_not_presented dflt 0 a hsa c q h1, mulExpect_left]
      | some x =>
        cases h2 : lookup (present dflt 0 b) c with
        | none => simp [denseAt_not_presented dflt 0 b hsb c q h2, mulExpect_right]
        | some y =>
          rw [denseAt_presented dflt 0 a hsa c q x h1, denseAt_presented dflt 0 b hsb c q y h2]
          exact mulT_leaf dflt x y q
            ⟨ne_of_not_isEmpty_zero dflt x (not_isEmpty_of_lookup_present h1),
             ne_of_not_isEmpty_zero dflt y (not_isEmpty_of_lookup_present h2)⟩
  | succ d ih =>
    intro a b ha hb p
    cases p with
    | nil => simp [denseAt_nil, mulExpect]
    | cons c q =>
      have hsa := ((WF_succ (d + 1) a).1 ha).1
      have hsb := ((WF_succ (d + 1) b).1 hb).1
      rw [denseAt_cons, lookup_mulT dflt (d + 1) a b ha hb c]
      cases h1 : lookup (present dflt (d + 1) a) c with
      | none => simp [denseAt_not_presented dflt (d + 1) a hsa c q h1, mulExpect_left]
      | some x =>
        cases h2 : lookup (present dflt (d + 1) b) c with
        | none => simp [denseAt_not_presented dflt (d + 1) b hsb c q h2, mulExpect_right]
        | some y =>
          rw [denseAt_presented dflt (d + 1) a hsa c q x h1, denseAt_presented dflt (d + 1) b hsb c q y h2]
          exact ih x y (WF_of_lookup_present ha h1) (WF_of_lookup_present hb h2) q

/-- **What `a += b` does, pointwise** (any depth, any default): the right operand's value is
    added wherever the right operand is non-default; everything else is untouched. -/
theorem fiber_iadd_dense [Add ν] (dflt : ν) : ∀ (d : Nat) (a b : Tree κ ν (d + 1)),
    WF (d + 1) a → WF (d + 1) b → ∀ p : List κ,
    denseAt dflt (d + 1) (iaddT dflt (d + 1) a b) p =
      iaddExpect dflt (denseAt dflt (d + 1) a p) (denseAt dflt (d + 1) b p) := by
  intro d
  induction d with
  | zero =>
    intro a b ha hb p
    cases p with
    | nil => simp [denseAt_nil, iaddExpect]
    | cons c q =>
      have hsb := ((WF_succ 0 b).1 hb).1
      cases h2 : lookup (present dflt 0 b) c with
      | none =>
        rw [denseAt_cons, lookup_iaddT_none dflt 0 a b ha hb c h2,
          denseAt_not_presented dflt 0 b hsb c q h2, iaddExpect_dflt, denseAt_cons]
      | some vb =>
        rw [denseAt_cons', lookup_iaddT_some dflt 0 a b ha hb c vb h2,
          denseAt_presented dflt 0 b hsb c q vb h2, ← denseAt_getD_lookup dflt 0 a c q]
        exact iaddT_leaf dflt (lookup (show List (κ × Tree κ ν 0) from a) c).isNone
          ((lookup (show List (κ × Tree κ ν 0) from a) c).getD (dfltTree dflt 0)) vb q
          (ne_of_not_isEmpty_zero dflt vb (not_isEmpty_of_lookup_present h2))
  | succ d ih =>
    intro a b ha hb p
    cases p with
    | nil => simp [denseAt_nil, iaddExpect]
    | cons c q =>
      have hsb := ((WF_succ (d + 1) b).1 hb).1
      cases h2 : lookup (present dflt (d + 1) b) c with
      | none =>
        rw [denseAt_cons, lookup_iaddT_none dflt (d + 1) a b ha hb c h2,
          denseAt_not_presented dflt (d + 1) b hsb c q h2, iaddExpect_dflt, denseAt_cons]
      | some vb =>
        rw [denseAt_cons', lookup_iaddT_some dflt (d + 1) a b ha hb c vb h2,
          denseAt_presented dflt (d + 1) b hsb c q vb h2, ← denseAt_getD_lookup dflt (d + 1) a c q]
        have hih := ih _ vb (WF_getD_lookup (dflt := dflt) ha c) (WF_of_lookup_present hb h2) q
        by_cases hrem : removeAfter dflt (d + 1)
            (lookup (show List (κ × Tree κ ν (d + 1)) from a) c).isNone
            (iaddT dflt (d + 1) ((lookup (show List (κ × Tree κ ν (d + 1)) from a) c).getD
              (dfltTree dflt (d + 1))) vb) = true
        · rw [if_pos hrem, optDense_none, ← hih]
          have hnil : (show List (κ × Tree κ ν d) from
              (iaddT dflt (d + 1) ((lookup (show List (κ × Tree κ ν (d + 1)) from a) c).getD
                (dfltTree dflt (d + 1))) vb)) = [] := by
            simp only [removeAfter, Bool.and_eq_true] at hrem
            exact List.isEmpty_iff.1 hrem.2
          exact (denseAt_nil_fiber dflt d _ hnil q).symm
        · rw [if_neg hrem, optDense_some]
          exact hih

/-- **In-place sum = value-returning sum (partial).** When the default is a right identity of
    `+` (the usual default 0), `a += b` leaves `a` with the dense view of `a + b`.
    Without that hypothesis the two differ on points only `a` stores (`a + b` adds `b`'s default
    there, `a += b` does not): see `today_fiber_iadd_ne_add_witness`. -/
theorem fiber_iadd_eq_add_partial [Add ν] (dflt : ν) (hr : ∀ x : ν, x + dflt = x)
    (d : Nat) (a b : Tree κ ν (d + 1)) (ha : WF (d + 1) a) (hb : WF (d + 1) b) (p : List κ) :
    denseAt dflt (d + 1) (iaddT dflt (d + 1) a b) p =
      denseAt dflt (d + 1) (addT dflt dflt (d + 1) a b) p := by
  rw [fiber_iadd_dense dflt d a b ha hb p, fiber_add_spec dflt dflt d a b ha hb p]
  simp only [iaddExpect, addExpect]
  by_cases hy : denseAt dflt (d + 1) b p = dflt
  · by_cases hx : denseAt dflt (d + 1) a p = dflt
    · simp [hx, hy]
    · simp [hx, hy, hr]
  · simp [hy]

/-- **`a += b` = `a + b` for integer payloads with the usual default 0**, any depth, any
    coordinate type, no side condition beyond well-formedness: the instance of
    `fiber_iadd_eq_add_partial` the campaigns live in (`x + 0 = x`). -/
theorem fiber_iadd_eq_add_int_zero (d : Nat) (a b : Tree κ Int (d + 1)) (ha : WF (d + 1) a)
    (hb : WF (d + 1) b) (p : List κ) :
    denseAt (0 : Int) (d + 1) (iaddT 0 (d + 1) a b) p =
      denseAt 0 (d + 1) (addT 0 0 (d + 1) a b) p :=
  fiber_iadd_eq_add_partial (0 : Int) Int.add_zero d a b ha hb p

/-! ### `*=` with a fiber -/

/-- **In-place product = value-returning product.** `a *= b` leaves `a` with the dense view
    of `a * b` (any depth, any default): matched elements hold the product, elements only `a`
    presents are emptied. -/
theorem fiber_imul_eq_mul [Mul ν] (dflt : ν) (d : Nat) (a b : Tree κ ν (d + 1))
    (ha : WF (d + 1) a) (hb : WF (d + 1) b) (p : List κ) :
    denseAt dflt (d + 1) (imulT dflt d a b) p = denseAt dflt (d + 1) (mulT dflt (d + 1) a b) p := by
  cases p with
  | nil => rw [denseAt_nil, denseAt_nil]
  | cons c q =>
    have hsa := ((WF_succ d a).1 ha).1
    rw [denseAt_cons', denseAt_cons', lookup_imulT dflt d a b ha hb c, lookup_mulT dflt d a b ha hb c,
      lookup_present dflt d a hsa c]
    cases hl : lookup (show List (κ × Tree κ ν d) from a) c with
    | none => rfl
    | some x =>
      by_cases he : isEmpty dflt d x = true
      · have hx : denseAt dflt d x q = dflt := denseAt_of_isEmpty dflt d x q he
        cases lookup (present dflt d b) c <;> simp [Option.filter, he, optDense, hx]
      · cases hy : lookup (present dflt d b) c with
        | none => simp [Option.filter, he, optDense, denseAt_dfltTree]
        | some y =>
          have hwx : WF d x := WF_of_lookup ha hl
          have hwy : WF d y := WF_of_lookup_present hb hy
          simp [Option.filter, he, optDense, denseAt_nonEmpty dflt d _ (mulT_WF dflt d x y hwx hwy) q]

/-- **Fiber * scalar scales the stored elements, at any depth**: the dense view of `s * f` is
    `s *` the operand's value wherever that is non-default, and the default elsewhere. -/
theorem fiber_scalar_mul_spec [Mul ν] (dflt s : ν) : ∀ (d : Nat) (a : Tree κ ν (d + 1)),
    WF (d + 1) a → ∀ p : List κ,
    denseAt dflt (d + 1) (smulT dflt s (d + 1) a) p =
      if denseAt dflt (d + 1) a p ≠ dflt then s * denseAt dflt (d + 1) a p else dflt := by
  intro d
  induction d with
  | zero =>
    intro a ha p
    cases p with
    | nil => simp [denseAt_nil]
    | cons c q =>
      have hsa := ((WF_succ 0 a).1 ha).1
      have hdef : (show List (κ × Tree κ ν 0) from smulT dflt s 1 a) =
          (present dflt 0 a).map (fun e => (e.1, smulT dflt s 0 e.2)) := by rw [smulT]
      rw [denseAt_cons', hdef, lookup_map_val (present dflt 0 a) (fun _ v => smulT dflt s 0 v) c]
      cases hl : lookup (present dflt 0 a) c with
      | none => simp [denseAt_not_presented dflt 0 a hsa c q hl, optDense]
      | some t =>
        rw [denseAt_presented dflt 0 a hsa c q t hl]
        exact smulT_leaf dflt s t q (ne_of_not_isEmpty_zero dflt t (not_isEmpty_of_lookup_present hl))
  | succ d ih =>
    intro a ha p
    cases p with
    | nil => simp [denseAt_nil]
    | cons c q =>
      have hsa := ((WF_succ (d + 1) a).1 ha).1
      have hdef : (show List (κ × Tree κ ν (d + 1)) from smulT dflt s (d + 2) a) =
          (present dflt (d + 1) a).map (fun e => (e.1, smulT dflt s (d + 1) e.2)) := by rw [smulT]
      rw [denseAt_cons', hdef,
        lookup_map_val (present dflt (d + 1) a) (fun _ v => smulT dflt s (d + 1) v) c]
      cases hl : lookup (present dflt (d + 1) a) c with
      | none => simp [denseAt_not_presented dflt (d + 1) a hsa c q hl, optDense]
      | some t =>
        rw [denseAt_presented dflt (d + 1) a hsa c q t hl]
        exact ih t (WF_of_lookup_present ha hl) q

end

/-! ### fiber ∘ scalar (leaf fibers, integer coordinates) -/

section
variable {ν : Type} [DecidableEq ν]

/-- **Fiber + scalar adds over the whole shape**: inside `[0, n)` every coordinate — stored or
    not — holds `s +` the operand's dense value; outside the shape the result stores nothing. -/
theorem fiber_scalar_add [Add ν] (dflt s : ν) (n : Nat) (f : Fib Int ν) (c : Int) :
    denseAt dflt 1 (leafFiber (saddF dflt s n f)) [c] =
      if 0 ≤ c ∧ c < (n : Int) then s + denseAt dflt 1 (leafFiber f) [c] else dflt := by
  rw [denseAt_leaf, denseAt_leaf]
  unfold saddF
  rw [lookup_range_map (fun i => s + (lookup f (i : Int)).getD dflt) n c]
  by_cases h : 0 ≤ c ∧ c < (n : Int)
  · rw [if_pos h, if_pos h, Int.toNat_of_nonneg h.1]; rfl
  · rw [if_neg h, if_neg h]; rfl

/-- **Fiber * scalar scales the stored (non-default) elements** and stores nothing else. -/
theorem fiber_scalar_mul [Mul ν] (dflt s : ν) (f : Fib Int ν) (hs : Sorted f) (c : Int) :
    denseAt dflt 1 (leafFiber (smulF dflt s f)) [c] =
      if denseAt dflt 1 (leafFiber f) [c] ≠ dflt
      then s * denseAt dflt 1 (leafFiber f) [c] else dflt := by
  rw [denseAt_leaf, denseAt_leaf]
  unfold smulF
  rw [lookup_map_val (f.filter (fun e => !decide (e.2 = dflt))) (fun _ v => s * v) c,
    lookup_filter_val hs (fun v => !decide (v = dflt)) c]
  cases hl : lookup f c with
  | none => simp [Option.filter]
  | some v =>
    by_cases hv : v = dflt
    · simp [Option.filter, hv]
    · simp [Option.filter, hv]

/-- what `f += s` does: inside the shape every coordinate gets `+ s` (absent ones are created
    from the default); coordinates outside the shape are left alone -/
theorem fiber_scalar_iadd_dense [Add ν] (dflt s : ν) (n : Nat) (f : Fib Int ν) (hs : Sorted f) (c : Int) :
    denseAt dflt 1 (leafFiber (isaddF dflt s n f)) [c] =
      if 0 ≤ c ∧ c < (n : Int) then denseAt dflt 1 (leafFiber f) [c] + s
      else denseAt dflt 1 (leafFiber f) [c] := by
  rw [denseAt_leaf, denseAt_leaf, (lookup_isaddF dflt s n f hs).2 c]
  by_cases h : 0 ≤ c ∧ c < (n : Int)
  · rw [if_pos h, if_pos h]; rfl
  · rw [if_neg h, if_neg h]

/-- what `f *= s` does: the stored non-default values are scaled in place -/
theorem fiber_scalar_imul_dense [Mul ν] (dflt s : ν) (f : Fib Int ν) (c : Int) :
    denseAt dflt 1 (leafFiber (ismulF dflt s f)) [c] =
      if denseAt dflt 1 (leafFiber f) [c] ≠ dflt
      then denseAt dflt 1 (leafFiber f) [c] * s
      else denseAt dflt 1 (leafFiber f) [c] := by
  rw [denseAt_leaf, denseAt_leaf]
  have hmap : ismulF dflt s f = f.map (fun e => (e.1, (fun _ v => if v = dflt then v else v * s) e.1 e.2)) := by
    unfold ismulF
    apply List.map_congr_left
    intro e _
    obtain ⟨k, v⟩ := e
    by_cases hv : v = dflt <;> simp [hv]
  rw [hmap, lookup_map_val f (fun _ v => if v = dflt then v else v * s) c]
  cases hl : lookup f c with
  | none => simp
  | some v =>
    by_cases hv : v = dflt
    · simp [hv]
    · simp [hv]

/-- **`f += s` = `f + s` (partial)**: when every coordinate of `f` lies inside the shape and `s`
    commutes with the values (`+` evaluates `s + v`, `+=` evaluates `v + s`). -/
theorem fiber_scalar_iadd_eq_add_partial [Add ν] (dflt s : ν) (n : Nat) (f : Fib Int ν) (hs : Sorted f)
    (hcomm : ∀ v : ν, s + v = v + s) (hin : inShapeB n f = true) (c : Int) :
    denseAt dflt 1 (leafFiber (isaddF dflt s n f)) [c] =
      denseAt dflt 1 (leafFiber (saddF dflt s n f)) [c] := by
  rw [fiber_scalar_iadd_dense dflt s n f hs c, fiber_scalar_add dflt s n f c]
  by_cases h : 0 ≤ c ∧ c < (n : Int)
  · rw [if_pos h, if_pos h, hcomm]
  · rw [if_neg h, if_neg h, denseAt_leaf]
    cases hl : lookup f c with
    | none => rfl
    | some v =>
      exfalso
      have hm := mem_of_lookup hl
      have := List.all_eq_true.1 hin (c, v) hm
      simp only [Bool.and_eq_true, decide_eq_true_eq] at this
      exact h this

/-- **`f *= s` = `f * s` (partial)**: when `s` commutes with the values. -/
theorem fiber_scalar_imul_eq_mul_partial [Mul ν] (dflt s : ν) (f : Fib Int ν) (hs : Sorted f)
    (hcomm : ∀ v : ν, s * v = v * s) (c : Int) :
    denseAt dflt 1 (leafFiber (ismulF dflt s f)) [c] =
      denseAt dflt 1 (leafFiber (smulF dflt s f)) [c] := by
  rw [fiber_scalar_imul_dense dflt s f c, fiber_scalar_mul dflt s f hs c]
  by_cases h : denseAt dflt 1 (leafFiber f) [c] ≠ dflt
  · rw [if_pos h, if_pos h, hcomm]
  · rw [if_neg h, if_neg h]
    exact Classical.not_not.1 h

/-- **Fiber + scalar adds over the whole (multi-rank) shape, at any depth**: at every point
    inside the shape the dense view of `s + f` is `s +` the operand's dense value (stored or not),
    outside the shape nothing is stored. -/
theorem fiber_scalar_add_spec [Add ν] (dflt s : ν) : ∀ (d : Nat) (shp : List Nat) (a : Tree Int ν (d + 1))
    (p : List Int), p.length = d + 1 → shp.length = d + 1 →
    denseAt dflt (d + 1) (saddT dflt s (d + 1) shp a) p =
      if inGridB shp p = true then s + denseAt dflt (d + 1) a p else dflt := by
  intro d
  induction d with
  | zero =>
    intro shp a p hp hs
    match p, shp, hp, hs with
    | [c], [n], _, _ =>
      have hdef : (show List (Int × Tree Int ν 0) from saddT dflt s 1 [n] a) =
          (List.range n).map (fun (i : Nat) => ((i : Int), saddT dflt s 0 []
            ((lookup (show List (Int × Tree Int ν 0) from a) (i : Int)).getD (dfltTree dflt 0)))) := by
        rw [saddT]; rfl
      rw [denseAt_cons', hdef, lookup_range_map (fun i => saddT dflt s 0 []
            ((lookup (show List (Int × Tree Int ν 0) from a) (i : Int)).getD (dfltTree dflt 0))) n c]
      by_cases h : 0 ≤ c ∧ c < (n : Int)
      · rw [if_pos h, optDense_some, Int.toNat_of_nonneg h.1]
        have h1 : denseAt dflt 0 (saddT dflt s 0 []
            ((lookup (show List (Int × Tree Int ν 0) from a) c).getD (dfltTree dflt 0))) [] =
            s + denseAt dflt 0 ((lookup (show List (Int × Tree Int ν 0) from a) c).getD (dfltTree dflt 0)) [] :=
          saddT_leaf dflt s [] _ []
        rw [h1, denseAt_getD_lookup]
        simp [inGridB, h.1, h.2]
      · rw [if_neg h, optDense_none]
        have : inGridB [n] [c] = false := by
          simp only [inGridB, Bool.and_true, Bool.and_eq_false_iff, decide_eq_false_iff_not]
          by_cases h0 : 0 ≤ c
          · right; intro h1; exact h ⟨h0, h1⟩
          · left; exact h0
        simp [this]
  | succ d ih =>
    intro shp a p hp hs
    match p, shp, hp, hs with
    | c :: q, n :: ns, hp, hs =>
      have hq : q.length = d + 1 := by simpa using hp
      have hns : ns.length = d + 1 := by simpa using hs
      have hdef : (show List (Int × Tree Int ν (d + 1)) from saddT dflt s (d + 2) (n :: ns) a) =
          (List.range n).map (fun (i : Nat) => ((i : Int), saddT dflt s (d + 1) ns
            ((lookup (show List (Int × Tree Int ν (d + 1)) from a) (i : Int)).getD (dfltTree dflt (d + 1))))) := by
        rw [saddT]; rfl
      rw [denseAt_cons', hdef, lookup_range_map (fun i => saddT dflt s (d + 1) ns
            ((lookup (show List (Int × Tree Int ν (d + 1)) from a) (i : Int)).getD (dfltTree dflt (d + 1)))) n c]
      by_cases h : 0 ≤ c ∧ c < (n : Int)
      · rw [if_pos h, optDense_some, Int.toNat_of_nonneg h.1, ih ns _ q hq hns, denseAt_getD_lookup]
        simp [inGridB, h.1, h.2]
      · rw [if_neg h, optDense_none]
        have : inGridB (n :: ns) (c :: q) = false := by
          simp only [inGridB, Bool.and_eq_false_iff, decide_eq_false_iff_not]
          by_cases h0 : 0 ≤ c
          · left; right; intro h1; exact h ⟨h0, h1⟩
          · left; left; exact h0
        simp [this]

end

/-! ### integer payloads: the commutation hypotheses of the two `_partial` statements are discharged

    The payload type every campaign of the harness generates is `Int` (Python ints), where scalar
    `+` and `*` commute; for that instance the in-place and the out-of-place scalar operators
    agree with no algebraic side condition left (the shape condition of `+=` stays: it is about
    coordinates, not about values). -/

/-- **`f *= s` = `f * s` for integer payloads**, every default, every sorted fiber. -/
theorem fiber_scalar_imul_eq_mul_int (dflt s : Int) (f : Fib Int Int) (hs : Sorted f) (c : Int) :
    denseAt dflt 1 (leafFiber (ismulF dflt s f)) [c] =
      denseAt dflt 1 (leafFiber (smulF dflt s f)) [c] :=
  fiber_scalar_imul_eq_mul_partial dflt s f hs (fun v => Int.mul_comm s v) c

/-- **`f += s` = `f + s` for integer payloads** whenever every stored coordinate lies inside
    the shape (outside it the two differ: `today_`-style witness in the harness side conditions). -/
theorem fiber_scalar_iadd_eq_add_int (dflt s : Int) (n : Nat) (f : Fib Int Int) (hs : Sorted f)
    (hin : inShapeB n f = true) (c : Int) :
    denseAt dflt 1 (leafFiber (isaddF dflt s n f)) [c] =
      denseAt dflt 1 (leafFiber (saddF dflt s n f)) [c] :=
  fiber_scalar_iadd_eq_add_partial dflt s n f hs (fun v => Int.add_comm s v) hin c

/-! ### the executable specifications used by the driver are satisfied by the model -/

section
variable {κ ν : Type} [LT κ] [DecidableRel (α := κ) (· < ·)] [DecidableEq κ] [StrictTotal κ]
variable [DecidableEq ν]

/-- the executable pointwise check accepts the model's sum -/
theorem fiber_add_specB_sound [Add ν] (dflt : ν) (d : Nat) (a b : Tree κ ν (d + 1))
    (ha : WF (d + 1) a) (hb : WF (d + 1) b) :
    pointwiseB dflt (d + 1) (addExpect dflt dflt) a b (addT dflt dflt (d + 1) a b) = true := by
  unfold pointwiseB
  exact List.all_eq_true.2 (fun p _ => decide_eq_true (fiber_add_spec dflt dflt d a b ha hb p))

/-- the executable pointwise check accepts the model's product -/
theorem fiber_mul_specB_sound [Mul ν] (dflt : ν) (d : Nat) (a b : Tree κ ν (d + 1))
    (ha : WF (d + 1) a) (hb : WF (d + 1) b) :
    pointwiseB dflt (d + 1) (mulExpect dflt) a b (mulT dflt (d + 1) a b) = true := by
  unfold pointwiseB
  exact List.all_eq_true.2 (fun p _ => decide_eq_true (fiber_mul_spec dflt d a b ha hb p))

/-- **The executable pointwise check decides the pointwise statement**: checking the stored
    points of the operands and of the candidate output is enough for all points (of full
    length), for any expectation that maps two defaults to the default. -/
theorem pointwiseB_complete (dflt : ν) (d : Nat) (exp : ν → ν → ν) (hexp : exp dflt dflt = dflt)
    (a b out : Tree κ ν d) (h : pointwiseB dflt d exp a b out = true) (p : List κ) (hp : p.length = d) :
    denseAt dflt d out p = exp (denseAt dflt d a p) (denseAt dflt d b p) := by
  unfold pointwiseB at h
  by_cases hm : p ∈ pointsOf dflt d [a, b, out]
  · exact of_decide_eq_true (List.all_eq_true.1 h p hm)
  · have hnot : ∀ t ∈ [a, b, out], denseAt dflt d t p = dflt := by
      intro t ht
      apply Classical.byContradiction
      intro hne
      apply hm
      unfold pointsOf
      exact List.mem_flatMap.2 ⟨t, ht, mem_points_of_dense_ne dflt d t p hp hne⟩
    rw [hnot a (by simp), hnot b (by simp), hnot out (by simp), hexp]

/-- **Today's `+=` versus `+` with a default that is not a right identity**: on a point only
    `a` stores, `a += b` keeps `a`'s value while `a + b` adds `b`'s default to it. -/
theorem today_fiber_iadd_vs_add [Add ν] (dflt : ν) (d : Nat) (a b : Tree κ ν (d + 1))
    (ha : WF (d + 1) a) (hb : WF (d + 1) b) (p : List κ)
    (hx : denseAt dflt (d + 1) a p ≠ dflt) (hy : denseAt dflt (d + 1) b p = dflt) :
    denseAt dflt (d + 1) (iaddT dflt (d + 1) a b) p = denseAt dflt (d + 1) a p ∧
    denseAt dflt (d + 1) (addT dflt dflt (d + 1) a b) p = denseAt dflt (d + 1) a p + dflt := by
  rw [fiber_iadd_dense dflt d a b ha hb p, fiber_add_spec dflt dflt d a b ha hb p, hy]
  simp [iaddExpect, addExpect, hx]

end

/-! ### non-vacuity of Part B: concrete overlapping fibers satisfy every hypothesis -/
namespace C11

def exA0 : Fib Int Int := [(0, 2), (1, 3), (3, 4)]
def exB0 : Fib Int Int := [(1, 5), (2, 6)]
def exC0 : Fib Int Int := [(0, 1), (1, 5), (2, 6), (3, -4)]
theorem exA0_sorted : Sorted exA0 := by unfold Sorted exA0; decide
theorem exB0_sorted : Sorted exB0 := by unfold Sorted exB0; decide
theorem exC0_sorted : Sorted exC0 := by unfold Sorted exC0; decide
def exA : Tree Int Int 1 := leafFiber exA0
def exB : Tree Int Int 1 := leafFiber exB0
def exC : Tree Int Int 1 := leafFiber exC0
theorem exA_WF : WF 1 exA := (WF_succ 0 exA).2 ⟨exA0_sorted, fun _ _ => trivial⟩
theorem exB_WF : WF 1 exB := (WF_succ 0 exB).2 ⟨exB0_sorted, fun _ _ => trivial⟩
theorem exC_WF : WF 1 exC := (WF_succ 0 exC).2 ⟨exC0_sorted, fun _ _ => trivial⟩
/-- a two-level tree with an empty sub-fiber and an explicit default -/
def exD : Tree Int Int 2 :=
  show List (Int × Tree Int Int 1) from [(0, exA), (2, leafFiber []), (5, leafFiber [(1, 0), (4, 7)])]
theorem exD_WF : WF 2 exD := by
  refine (WF_succ 1 exD).2 ⟨by unfold Sorted exD; decide, ?_⟩
  intro e he
  have he' : e = (0, exA) ∨ e = (2, leafFiber []) ∨ e = (5, leafFiber [(1, 0), (4, 7)]) := by
    simpa [exD] using he
  rcases he' with rfl | rfl | rfl
  · exact exA_WF
  · exact (WF_succ 0 _).2 ⟨List.Pairwise.nil, fun _ h => by cases h⟩
  · exact (WF_succ 0 _).2 ⟨by unfold Sorted leafFiber; decide, fun _ _ => trivial⟩

example : ∀ p, denseAt (0 : Int) 1 (addT 0 0 1 exA exB) p =
    addExpect 0 0 (denseAt 0 1 exA p) (denseAt 0 1 exB p) := fiber_add_spec 0 0 0 exA exB exA_WF exB_WF
example : ∀ p, denseAt (0 : Int) 2 (addT 0 0 2 exD exD) p =
    addExpect 0 0 (denseAt 0 2 exD p) (denseAt 0 2 exD p) := fiber_add_spec 0 0 1 exD exD exD_WF exD_WF
example : ∀ p, denseAt (7 : Int) 1 (addT 7 0 1 exA exB) p =
    addExpect 7 0 (denseAt 7 1 exA p) (denseAt 0 1 exB p) := fiber_add_spec 7 0 0 exA exB exA_WF exB_WF
example : ∀ p, denseAt (7 : Int) 1 (mulT 7 1 exA exB) p =
    mulExpect 7 (denseAt 7 1 exA p) (denseAt 7 1 exB p) := fiber_mul_spec 7 0 exA exB exA_WF exB_WF
example : ∀ p, denseAt (0 : Int) 2 (iaddT 0 2 exD exD) p =
    iaddExpect 0 (denseAt 0 2 exD p) (denseAt 0 2 exD p) := fiber_iadd_dense 0 1 exD exD exD_WF exD_WF
example : ∀ p, denseAt (0 : Int) 1 (iaddT 0 1 exA exB) p = denseAt 0 1 (addT 0 0 1 exA exB) p :=
  fiber_iadd_eq_add_partial 0 (by intro x; omega) 0 exA exB exA_WF exB_WF
example : ∀ p, denseAt (0 : Int) 1 (imulT 0 0 exA exB) p = denseAt 0 1 (mulT 0 1 exA exB) p :=
  fiber_imul_eq_mul 0 0 exA exB exA_WF exB_WF
example : ∀ p, denseAt (0 : Int) 2 (imulT 0 1 exD exD) p = denseAt 0 2 (mulT 0 2 exD exD) p :=
  fiber_imul_eq_mul 0 1 exD exD exD_WF exD_WF
/-- default 7: `[(1,3)] += []` keeps 3 at coordinate 1, `[(1,3)] + []` gives 3 + 7 -/
example : denseAt (7 : Int) 1 (iaddT 7 1 (leafFiber [((1 : Int), (3 : Int))]) (leafFiber [])) [1] = 3 ∧
    denseAt (7 : Int) 1 (addT 7 7 1 (leafFiber [((1 : Int), (3 : Int))]) (leafFiber [])) [1] = 3 + 7 := by
  have hw : WF 1 (leafFiber [((1 : Int), (3 : Int))]) :=
    (WF_succ 0 _).2 ⟨by unfold Sorted leafFiber; decide, fun _ _ => trivial⟩
  have hn : WF 1 (leafFiber ([] : Fib Int Int)) :=
    (WF_succ 0 _).2 ⟨List.Pairwise.nil, fun _ h => by cases h⟩
  exact today_fiber_iadd_vs_add (7 : Int) 0 _ _ hw hn [1] (by decide) (by decide)
example : ∀ c, denseAt (0 : Int) 1 (leafFiber (saddF 0 5 4 exA0)) [c] =
    if 0 ≤ c ∧ c < ((4 : Nat) : Int) then 5 + denseAt 0 1 (leafFiber exA0) [c] else 0 :=
  fiber_scalar_add 0 5 4 exA0
example : ∀ c, denseAt (0 : Int) 1 (leafFiber (smulF 0 5 exA0)) [c] =
    if denseAt 0 1 (leafFiber exA0) [c] ≠ 0 then 5 * denseAt 0 1 (leafFiber exA0) [c] else 0 :=
  fiber_scalar_mul 0 5 exA0 exA0_sorted
example : ∀ c, denseAt (0 : Int) 1 (leafFiber (isaddF 0 5 4 exA0)) [c] =
    denseAt 0 1 (leafFiber (saddF 0 5 4 exA0)) [c] :=
  fiber_scalar_iadd_eq_add_partial 0 5 4 exA0 exA0_sorted (by intro v; omega) (by decide)
example : ∀ c, denseAt (0 : Int) 1 (leafFiber (ismulF 0 5 exA0)) [c] =
    denseAt 0 1 (leafFiber (smulF 0 5 exA0)) [c] :=
  fiber_scalar_imul_eq_mul_partial 0 5 exA0 exA0_sorted (by intro v; exact Int.mul_comm 5 v)

example : ∀ p, denseAt (0 : Int) 2 (smulT 0 5 2 exD) p =
    if denseAt 0 2 exD p ≠ 0 then 5 * denseAt 0 2 exD p else 0 :=
  fiber_scalar_mul_spec 0 5 1 exD exD_WF
example : ∀ p : List Int, p.length = 2 → denseAt (0 : Int) 2 (saddT 0 5 2 [6, 5] exD) p =
    if inGridB [6, 5] p = true then 5 + denseAt 0 2 exD p else 0 :=
  fun p hp => fiber_scalar_add_spec 0 5 1 [6, 5] exD p hp rfl
-- integer instances, with a non-zero default as well
example : ∀ p, denseAt (0 : Int) 2 (iaddT 0 2 exD exD) p = denseAt 0 2 (addT 0 0 2 exD exD) p :=
  fiber_iadd_eq_add_int_zero 1 exD exD exD_WF exD_WF
example : ∀ c, denseAt (7 : Int) 1 (leafFiber (ismulF 7 5 exA0)) [c] =
    denseAt 7 1 (leafFiber (smulF 7 5 exA0)) [c] :=
  fiber_scalar_imul_eq_mul_int 7 5 exA0 exA0_sorted
example : ∀ c, denseAt (0 : Int) 1 (leafFiber (isaddF 0 5 4 exA0)) [c] =
    denseAt 0 1 (leafFiber (saddF 0 5 4 exA0)) [c] :=
  fiber_scalar_iadd_eq_add_int 0 5 4 exA0 exA0_sorted (by decide)

end C11
end Ft
