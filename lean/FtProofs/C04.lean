/-
  C04 — co-iteration operators compute exactly their coordinate-set truth tables.
  Property theorems only; helper lemmas live in FtProofs/Lemmas.
-/
import FtProofs.Lemmas.Sorted
import FtProofs.Lemmas.Merge
set_option linter.unusedSectionVars false
set_option linter.unusedSimpArgs false
namespace Ft
open StrictTotal

section
variable {κ : Type} [LT κ] [DecidableRel (α := κ) (· < ·)] [DecidableEq κ] [StrictTotal κ]
variable {α β : Type}

/-- `a & b` on sorted operands is the filter-map of `a` by membership in `b`: ascending,
    each common coordinate once, both operands' own payloads. -/
theorem and_spec (a : Fib κ α) (b : Fib κ β) (ha : Sorted a) (hb : Sorted b) :
    andMerge a b = andSpec a b := by
  fun_induction andMerge a b with
  | case1 b => simp [andSpec]
  | case2 e r =>
    simp only [andSpec]
    symm
    rw [List.filterMap_eq_nil_iff]
    intro x _; simp [lookup_nil]
  | case3 pa ra ca pb rb ih =>
    have h1 : andSpec ((ca, pa) :: ra) ((ca, pb) :: rb) = (ca, (pa, pb)) :: andSpec ra ((ca, pb) :: rb) := by
      simp [andSpec, lookup_cons]
    rw [h1, ih ha.tail hb.tail]
    congr 1
    unfold andSpec
    apply filterMap_congr'
    intro x hx
    have : ca ≠ x.1 := lt_ne (ha.head_lt x hx)
    simp [lookup_cons, this]
  | case4 ca pa ra cb pb rb hne hlt ih =>
    rw [ih ha.tail hb]
    have hnone : lookup ((cb, pb) :: rb) ca = none := by
      apply lookup_eq_none_of_lt
      intro x hx
      rcases List.mem_cons.1 hx with rfl | hx
      · exact hlt
      · exact trans hlt (hb.head_lt x hx)
    simp [andSpec, hnone]
  | case5 ca pa ra cb pb rb hne hnlt ih =>
    rw [ih ha hb.tail]
    have hgt : cb < ca := by
      rcases tri ca cb with h | h | h
      · exact absurd h hnlt
      · exact absurd h hne
      · exact h
    unfold andSpec
    apply filterMap_congr'
    intro x hx
    have : cb ≠ x.1 := by
      rcases List.mem_cons.1 hx with rfl | hx
      · exact lt_ne hgt
      · exact lt_ne (trans hgt (ha.head_lt x hx))
    simp [lookup_cons, this]

/-- `a - b` on sorted operands: the elements of `a` whose coordinate `b` lacks. -/
theorem sub_spec (a : Fib κ α) (b : Fib κ β) (ha : Sorted a) (hb : Sorted b) :
    subMerge a b = subSpec a b := by
  fun_induction subMerge a b with
  | case1 b => simp [subSpec]
  | case2 e r => simp [subSpec, hasCoord, List.filter_eq_self.2]
  | case3 pa ra ca pb rb ih =>
    rw [ih ha.tail hb.tail]
    simp only [subSpec, List.filter_cons, hasCoord_cons]
    simp only [decide_true, Bool.true_or, Bool.not_true, Bool.false_eq_true, if_false]
    apply filter_congr'
    intro x hx
    have : ca ≠ x.1 := lt_ne (ha.head_lt x hx)
    simp [this]
  | case4 ca pa ra cb pb rb hne hlt ih =>
    rw [ih ha.tail hb]
    have hnb : ¬ HasKey ((cb, pb) :: rb) ca := by
      intro h; exact irrefl ca (hb.lt_of_hasKey_cons hlt h)
    simp [subSpec, List.filter_cons, hasCoord_false_of_not_hasKey hnb]
  | case5 ca pa ra cb pb rb hne hnlt ih =>
    have hgt := gt_of_not_lt_ne hne hnlt
    rw [ih ha hb.tail]
    unfold subSpec
    apply filter_congr'
    intro x hx
    have : cb ≠ x.1 := by
      rcases List.mem_cons.1 hx with rfl | hx
      · exact lt_ne hgt
      · exact lt_ne (trans hgt (ha.head_lt x hx))
    rw [hasCoord_cons_ne this]

/-- `a | b` on sorted operands satisfies the union truth table: ascending, every row has
    the operands' own payloads and a mask naming exactly the sides present, and every
    operand coordinate is covered. -/
theorem or_sound [DecidableEq α] [DecidableEq β] (a : Fib κ α) (b : Fib κ β)
    (ha : Sorted a) (hb : Sorted b) : orSpecB a b (orMerge a b) = true := by
  simp only [orSpecB, Bool.and_eq_true, List.all_eq_true]
  refine ⟨⟨⟨(sortedB_iff _).2 (orMerge_sorted a b ha hb), ?_⟩, ?_⟩, ?_⟩
  · intro row hrow; exact (orRowOk_iff a b row).2 (orMerge_rows a b ha hb row hrow)
  · intro e he; exact (hasCoord_iff _ _).2 (orMerge_cover a b e.1 (Or.inl ⟨e, he, rfl⟩))
  · intro e he; exact (hasCoord_iff _ _).2 (orMerge_cover a b e.1 (Or.inr ⟨e, he, rfl⟩))

/-- … and the truth table determines the output: any list that passes the executable
    union check is the model's union. (So checking the spec on the implementation's
    output and comparing it with the model's output are the same test.) -/
theorem or_complete [DecidableEq α] [DecidableEq β] (a : Fib κ α) (b : Fib κ β)
    (ha : Sorted a) (hb : Sorted b) (out : Fib κ (Mask × Option α × Option β))
    (h : orSpecB a b out = true) : out = orMerge a b := by
  simp only [orSpecB, Bool.and_eq_true, List.all_eq_true] at h
  obtain ⟨⟨⟨hs, hrows⟩, hca⟩, hcb⟩ := h
  let F : κ → Mask × Option α × Option β :=
    fun c => ((maskOf (hasCoord a c) (hasCoord b c)).getD Mask.A, lookup a c, lookup b c)
  have toF : ∀ row, OrRow a b row → row.2 = F row.1 := by
    intro row ⟨h1, h2, h3⟩
    refine Prod.ext ?_ (Prod.ext h1 h2)
    show row.2.1 = (maskOf (hasCoord a row.1) (hasCoord b row.1)).getD Mask.A
    rw [← h3]; rfl
  have keyOf : ∀ row, OrRow a b row → HasKey a row.1 ∨ HasKey b row.1 := by
    intro row ⟨_, _, h3⟩
    cases hA : hasCoord a row.1
    · cases hB : hasCoord b row.1
      · rw [hA, hB] at h3; cases h3
      · exact Or.inr ((hasCoord_iff _ _).1 hB)
    · exact Or.inl ((hasCoord_iff _ _).1 hA)
  apply sorted_ext_of_fn (F := F) out (orMerge a b) ((sortedB_iff _).1 hs) (orMerge_sorted a b ha hb)
  · intro r hr; exact toF r ((orRowOk_iff a b r).1 (hrows r hr))
  · intro r hr; exact toF r (orMerge_rows a b ha hb r hr)
  · intro c
    constructor
    · rintro ⟨r, hr, rfl⟩
      exact orMerge_cover a b r.1 (keyOf r ((orRowOk_iff a b r).1 (hrows r hr)))
    · intro hc
      rcases orMerge_keys a b c hc with ⟨e, he, rfl⟩ | ⟨e, he, rfl⟩
      · exact (hasCoord_iff _ _).1 (hca e he)
      · exact (hasCoord_iff _ _).1 (hcb e he)

/-- `a ^ b` is `a | b` without the rows present on both sides. -/
theorem xor_eq_filter_or (a : Fib κ α) (b : Fib κ β) :
    xorMerge a b = (orMerge a b).filter (fun r => decide (r.2.1 ≠ Mask.AB)) := by
  fun_induction xorMerge a b with
  | case1 b => simp [orMerge, List.filter_map]; rw [List.filter_eq_self.2]; intro x _; simp
  | case2 e r =>
    rw [orMerge]
    · symm; rw [List.filter_eq_self]; intro x hx
      obtain ⟨y, _, rfl⟩ := List.mem_map.1 hx; simp
  | case3 pa ra ca pb rb ih => simp [orMerge, ih]
  | case4 ca pa ra cb pb rb hne hlt ih => simp [orMerge, hne, hlt, ih]
  | case5 ca pa ra cb pb rb hne hnlt ih => simp [orMerge, hne, hnlt, ih]

end
end Ft
