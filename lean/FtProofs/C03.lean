/-
  C03 — point access behaves like a map from points to values.
  Property theorems only; helpers in FtProofs/Lemmas/PointLemmas.lean.
-/
import FtProofs.Lemmas.PointLemmas
import FtProofs.Lemmas.AssignLemmas
import FtProofs.C12
set_option linter.unusedSectionVars false
set_option linter.unusedSimpArgs false
namespace Ft
open StrictTotal

section
variable {κ ν : Type} [LT κ] [DecidableRel (α := κ) (· < ·)] [DecidableEq κ] [StrictTotal κ]

/-- reading a full point (position search as the code does it) returns the abstract value … -/
theorem getPayload_val (dflt : ν) (d : Nat) (t : Tree κ ν d) (h : WF d t) (p : List κ) :
    getLeaf dflt d t p = val dflt d t p := getLeaf_eq_val dflt d t h p

/-- … which is the value stored in the content, or the default if the point is absent or
    holds an explicit default -/
theorem getPayload_lookup [DecidableEq ν] (dflt : ν) (d : Nat) (t : Tree κ ν d) (h : WF d t)
    (p : List κ) (hp : p.length = d) :
    getLeaf dflt d t p = (clookup (content dflt d t) p).getD dflt := by
  rw [getLeaf_eq_val dflt d t h p, val_eq_content dflt d t h p hp]

/-- reading a prefix `q` of a point returns the sub-tree holding exactly the values under `q` -/
theorem getPayload_prefix (dflt : ν) : ∀ (k d : Nat) (t : Tree κ ν (d + k)), WF (d + k) t →
    ∀ (q : List κ), q.length = k → ∀ r,
    val dflt d (getAt dflt k d t q) r = val dflt (d + k) t (q ++ r)
  | 0, _, _, _, [], _, _ => rfl
  | _ + 1, _, _, _, [], hq, _ => by cases hq
  | k + 1, d, (t : List (κ × Tree κ ν (d + k))), h, c :: cs, hq, r => by
    have hq' : cs.length = k := by simpa using hq
    show val dflt d (getAt dflt (k + 1) d t (c :: cs)) r = val dflt ((d + k) + 1) t (c :: (cs ++ r))
    simp only [getAt, val]
    rw [posLookup_eq_lookup h.sorted]
    cases hl : lookup (show List (κ × Tree κ ν (d + k)) from t) c with
    | some s =>
      exact getPayload_prefix dflt k d s (h.sub _ (lookup_mem hl)) cs hq' r
    | none =>
      show val dflt d (getAt dflt k d (defaultTree dflt (d + k)) cs) r = dflt
      rw [getPayload_prefix dflt k d _ (wf_defaultTree dflt (d + k)) cs hq' r, val_defaultTree]

/-- obtaining a reference creates the missing path, keeps the tree well-formed and disturbs
    no point -/
theorem getPayloadRef_spec (dflt : ν) (d : Nat) (t : Tree κ ν d) (h : WF d t) (p : List κ)
    (hp : p.length = d) :
    WF d (refAt dflt d t p) ∧ PathExists d (refAt dflt d t p) p ∧
    ∀ q, val dflt d (refAt dflt d t p) q = val dflt d t q :=
  ⟨refAt_wf dflt d t h p, refAt_path dflt d t h p hp, refAt_val dflt d t h p⟩

/-- assignment through the reference is visible to every later read and to no other point -/
theorem write_read (dflt : ν) (d : Nat) (t : Tree κ ν d) (h : WF d t) (p q : List κ)
    (hp : p.length = d) (hq : q.length = d) (v : ν) :
    getLeaf dflt d (updateAt (fun _ => v) d (refAt dflt d t p) p) q =
      if q = p then v else getLeaf dflt d t q := by
  rw [getLeaf_eq_val _ _ _ (updateAt_wf _ d _ (refAt_wf dflt d t h p) p), getLeaf_eq_val _ _ _ h,
    updateAt_val dflt _ d _ p q (refAt_path dflt d t h p hp) hp hq, refAt_val dflt d t h p]

/-- in-place update through the reference -/
theorem update_read (dflt : ν) (g : ν → ν) (d : Nat) (t : Tree κ ν d) (h : WF d t) (p q : List κ)
    (hp : p.length = d) (hq : q.length = d) :
    getLeaf dflt d (updateAt g d (refAt dflt d t p) p) q =
      if q = p then g (getLeaf dflt d t p) else getLeaf dflt d t q := by
  rw [getLeaf_eq_val _ _ _ (updateAt_wf _ d _ (refAt_wf dflt d t h p) p), getLeaf_eq_val _ _ _ h,
    getLeaf_eq_val _ _ _ h,
    updateAt_val dflt _ d _ p q (refAt_path dflt d t h p hp) hp hq, refAt_val dflt d t h p,
    refAt_val dflt d t h p]

/-- a legal search-start shortcut never changes the position found (hence no accessor's answer) -/
theorem startpos_irrelevant {π : Type} (f : Fib κ π) (hs : Sorted f) (sp : Nat) (c : κ)
    (hl : legalStart f sp c = true) : coord2posFrom f sp c = lowerBound f c :=
  coord2posFrom_eq hs sp c hl

/-- position lookup finds exactly the stored coordinate's index -/
theorem getPosition_spec {π : Type} (f : Fib κ π) (hs : Sorted f) (c : κ) :
    (getPosition f c).isSome = (lookup f c).isSome ∧
    ∀ i, getPosition f c = some i → ∃ e, f[i]? = some e ∧ e.1 = c :=
  ⟨getPosition_isSome_iff hs c, fun i h => (getPosition_eq c i h).2⟩

/-! ### refinement: any interleaving of reads, reference creation, assignment and in-place
update returns what the abstract map machine returns -/

/-- the tree represents the map `m` on full points -/
def Abs (dflt : ν) (d : Nat) (t : Tree κ ν d) (m : List κ → ν) : Prop :=
  ∀ q, q.length = d → val dflt d t q = m q

theorem step_refines [Add ν] (dflt : ν) (d : Nat) (t : Tree κ ν d) (m : List κ → ν)
    (op : PointOp κ ν) (h : WF d t) (ha : Abs dflt d t m) (hp : op.ok dflt d) :
    WF d (pointStep dflt d t op).1 ∧ Abs dflt d (pointStep dflt d t op).1 (specStep m op).1 ∧
    (pointStep dflt d t op).2 = (specStep m op).2 := by
  cases op with
  | get p =>
    have hp : p.length = d := hp
    exact ⟨h, ha, by show some (getLeaf dflt d t p) = some (m p); rw [getLeaf_eq_val _ _ _ h]; exact congrArg some (ha p hp)⟩
  | ref p =>
    have hp : p.length = d := hp
    refine ⟨refAt_wf dflt d t h p, fun q hq => ?_, ?_⟩
    · show val dflt d (refAt dflt d t p) q = m q
      rw [refAt_val dflt d t h p]; exact ha q hq
    · show some (getLeaf dflt d (refAt dflt d t p) p) = some (m p)
      rw [getLeaf_eq_val _ _ _ (refAt_wf dflt d t h p), refAt_val dflt d t h p]; exact congrArg some (ha p hp)
  | assign p v =>
    have hp : p.length = d := hp
    have hw := updateAt_wf (fun _ => v) d _ (refAt_wf dflt d t h p) p
    have hv : ∀ q, q.length = d → val dflt d (updateAt (fun _ => v) d (refAt dflt d t p) p) q =
        if q = p then v else m q := by
      intro q hq
      rw [updateAt_val dflt _ d _ p q (refAt_path dflt d t h p hp) hp hq, refAt_val dflt d t h p]
      by_cases hqp : q = p <;> simp [hqp, ha q hq]
    refine ⟨hw, hv, ?_⟩
    show some (getLeaf dflt d _ p) = some v
    rw [getLeaf_eq_val _ _ _ hw, hv p hp]; simp
  | iadd p v =>
    have hp : p.length = d := hp
    have hw := updateAt_wf (fun x => x + v) d _ (refAt_wf dflt d t h p) p
    have hv : ∀ q, q.length = d → val dflt d (updateAt (fun x => x + v) d (refAt dflt d t p) p) q =
        if q = p then m p + v else m q := by
      intro q hq
      rw [updateAt_val dflt _ d _ p q (refAt_path dflt d t h p hp) hp hq, refAt_val dflt d t h p,
        refAt_val dflt d t h p, ha p hp]
      by_cases hqp : q = p <;> simp [hqp, ha q hq]
    refine ⟨hw, hv, ?_⟩
    show some (getLeaf dflt d _ p) = some (m p + v)
    rw [getLeaf_eq_val _ _ _ hw, hv p hp]; simp
  | scale p g =>
    obtain ⟨hp, hg⟩ : p.length ≤ d ∧ g dflt = dflt := hp
    refine ⟨updateUnder_wf g d _ (refAt_wf dflt d t h p) p, fun q hq => ?_, rfl⟩
    show val dflt d (updateUnder g d (refAt dflt d t p) p) q = if p <+: q then g (m q) else m q
    rw [updateUnder_val dflt g hg d _ p q hp, refAt_val dflt d t h p, ha q hq]

/-- **C03, histories.**  Any interleaving of reads, references, assignments and in-place additions at full points and
    of in-place scalings through the handle of any partial point refines the abstract map machine: the outputs are
    those of the map, and the tree stays well-formed. -/
theorem run_refines_map [Add ν] (dflt : ν) (d : Nat) : ∀ (ops : List (PointOp κ ν)) (t : Tree κ ν d)
    (m : List κ → ν), WF d t → Abs dflt d t m → (∀ op ∈ ops, op.ok dflt d) →
    (pointRun dflt d t ops).2 = specRun m ops ∧ WF d (pointRun dflt d t ops).1
  | [], _, _, h, _, _ => ⟨rfl, h⟩
  | op :: ops, t, m, h, ha, hp => by
    obtain ⟨h1, h2, h3⟩ := step_refines dflt d t m op h ha (hp op (List.mem_cons_self ..))
    obtain ⟨r1, r2⟩ := run_refines_map dflt d ops _ _ h1 h2 (fun o ho => hp o (List.mem_cons_of_mem _ ho))
    refine ⟨?_, r2⟩
    show (pointStep dflt d t op).2 :: (pointRun dflt d (pointStep dflt d t op).1 ops).2 =
      (specStep m op).2 :: specRun (specStep m op).1 ops
    rw [h3, r1]

end

/-! ### assignment at a partial point (fiber assignment through the reference at a prefix) -/
section
variable {ν : Type} [DecidableEq ν]

/-- the canonical copy `<<=` stores reads like its source -/
theorem val_nonEmpty (dflt : ν) (d : Nat) (x : Tree Int ν d) (hx : WF d x) (q : List Int) (hq : q.length = d) :
    val dflt d (nonEmpty dflt d x) q = val dflt d x q := by
  rw [val_eq_content dflt d _ (nonEmpty_wf dflt d x hx) q hq, val_eq_content dflt d x hx q hq, nonEmpty_content]

/-- `h = t.getPayloadRef(*p); h <<= x` at a stored partial point `p`: every point under `p` then reads
    what `x` holds there (the default where `x` holds nothing), every other point reads what it read
    before, and the tree stays well-formed -/
theorem assign_partial_read (dflt : ν) (d : Nat) (t : Tree Int ν (d + 1)) (h : WF (d + 1) t)
    (p : List Int) (d' : Nat) (s : Tree Int ν (d' + 1)) (hl : locate d t p = some ⟨d', s⟩)
    (g : TreeArg ν) (x : Tree Int ν (d' + 1)) (hg : g.get (d' + 1) = some x) (hx : WF (d' + 1) x)
    (q : List Int) (hq : q.length = d + 1) :
    val dflt (d + 1) (mstep dflt d t (.assignF p g)).1 q =
      if p <+: q then val dflt (d' + 1) x (q.drop p.length) else val dflt (d + 1) t q := by
  have hd := locate_depth d t p d' s hl
  show val dflt (d + 1) (atPath (fiberStep dflt (.assignF p g)) d t p).1 q = _
  rw [val_atPath dflt _ d t h p d' s hl q]
  by_cases hpq : p <+: q
  · simp only [hpq, if_true]
    show val dflt (d' + 1) (fiberStep dflt (.assignF p g) d' s).1 _ = _
    simp only [fiberStep, hg]
    exact val_nonEmpty dflt (d' + 1) x hx _ (by simp only [List.length_drop]; omega)
  · simp only [hpq, if_false]

/-- … and the reference itself makes `p` a stored partial point without changing any read, so the two
    steps together behave like assignment of a block of the abstract map -/
theorem assign_partial_after_ref (dflt : ν) (d : Nat) (t : Tree Int ν (d + 1)) (h : WF (d + 1) t)
    (p : List Int) (hp : p.length ≤ d) :
    ∃ (d' : Nat) (s : Tree Int ν (d' + 1)), locate d (refAt dflt (d + 1) t p) p = some ⟨d', s⟩ ∧
      WF (d + 1) (refAt dflt (d + 1) t p) ∧ ∀ q, val dflt (d + 1) (refAt dflt (d + 1) t p) q = val dflt (d + 1) t q := by
  obtain ⟨d', s, hs⟩ := locate_refAt dflt d t h p hp
  exact ⟨d', s, hs, refAt_wf dflt (d + 1) t h p, refAt_val dflt (d + 1) t h p⟩

end

/-! ### in-place arithmetic through the handle of a partial point -/
section
variable {κ ν : Type} [LT κ] [DecidableRel (α := κ) (· < ·)] [DecidableEq κ] [StrictTotal κ]

/-- `h = t.getPayloadRef(*p); h *= k` at a partial point `p` (modelled as `updateUnder` after `refAt`; `g` is
    `x ↦ if x = dflt then x else x * k`, which is what the library's walk over non-empty elements computes):
    every point below `p` then reads `g` of what it read before, every other point reads what it read before, the
    tree stays well-formed — the in-place form changes the abstract map block-wise and nothing else.  Handles held
    from earlier `getPayloadRef` calls keep denoting their points because no element is replaced (the model
    updates leaves where they are; the correspondence check compares object identity on the implementation) -/
theorem scale_partial_read (dflt : ν) (g : ν → ν) (hg : g dflt = dflt) (d : Nat) (t : Tree κ ν d) (h : WF d t)
    (p : List κ) (hp : p.length ≤ d) (q : List κ) :
    WF d (updateUnder g d (refAt dflt d t p) p) ∧
    val dflt d (updateUnder g d (refAt dflt d t p) p) q =
      if p <+: q then g (val dflt d t q) else val dflt d t q := by
  refine ⟨updateUnder_wf g d _ (refAt_wf dflt d t h p) p, ?_⟩
  rw [updateUnder_val dflt g hg d _ p q hp, refAt_val dflt d t h p]

end

/-! ### in-place addition of a scalar through the handle of a leaf fiber -/
section
variable {κ ν : Type} [LT κ] [DecidableRel (α := κ) (· < ·)] [DecidableEq κ] [StrictTotal κ] [DecidableEq ν]

/-- `h = t.getPayloadRef(*p)` for a prefix `p` one short of a full point (a leaf fiber), then `h += v`: the library
    walks the coordinates `cs` of the rank's extent with `iterShapeRef` and adds to every one of them.  In the model
    this is the history `ref p; iadd (p ++ [c]) v` for `c ∈ cs`, so it refines the abstract map like any other history:
    every point `p ++ [c]` then reads its old value plus `v` (the default plus `v` where nothing was stored), every
    other point is untouched. -/
theorem iadd_scalar_leaf_fiber [Add ν] (dflt : ν) (d : Nat) (t : Tree κ ν d) (m : List κ → ν) (h : WF d t)
    (ha : Abs dflt d t m) (p : List κ) (hp : p.length + 1 = d) (cs : List κ) (v : ν) :
    let ops := cs.map (fun c => PointOp.iadd (p ++ [c]) v)
    (pointRun dflt d (refAt dflt d t p) ops).2 = specRun m ops ∧ WF d (pointRun dflt d (refAt dflt d t p) ops).1 := by
  intro ops
  refine run_refines_map dflt d ops (refAt dflt d t p) m (refAt_wf dflt d t h p)
    (fun q hq => by rw [refAt_val dflt d t h p]; exact ha q hq) ?_
  intro op hop
  obtain ⟨c, _, rfl⟩ := List.mem_map.1 hop
  show (p ++ [c]).length = d
  simp; omega

end

/-! ### non-vacuity -/
section
private def exT : Tree Int Int 2 := [(0, [(1, (5 : Int)), (2, (0 : Int))]), (3, []), (4, [(0, (7 : Int))])]
example : WF 2 exT := (wfB_iff 2 exT).1 (by decide)
example : Abs 0 2 exT (val 0 2 exT) := fun _ _ => rfl
#guard getLeaf 0 2 exT [0, 1] == 5 && getLeaf 0 2 exT [0, 2] == 0 && getLeaf 0 2 exT [3, 1] == 0 && getLeaf 0 2 exT [9, 9] == 0
#guard (pointRun 0 2 exT [.get [3, 1], .assign [3, 1] 4, .iadd [9, 0] 2, .get [3, 1], .get [9, 0], .ref [1, 1], .get [0, 1]]).2 == [some 0, some 4, some 2, some 4, some 2, some 0, some 5]
-- a history with a scaling of row 0 through its handle between reads: (0,1) reads 5, then 15; row 4 keeps 7
#guard (pointRun 0 2 exT [.get [0, 1], .scale [0] (fun x => if x = 0 then x else x * 3), .get [0, 1], .get [0, 2], .get [4, 0]]).2
         == [some 5, none, some 15, some 0, some 7]
-- partial assignment: row 3 := a copy of [(1, 9), (2, 0)]; (3,1) reads 9, (3,2) the default, row 0 is untouched
private def exG : TreeArg Int := ⟨fun k => match k with | 1 => some ([(1, (9 : Int)), (2, (0 : Int))] : Tree Int Int 1) | _ => none⟩
#guard (locate 1 exT [3]).isSome
#guard let t' := (mstep 0 1 exT (.assignF [3] exG)).1
       getLeaf 0 2 t' [3, 1] == 9 && getLeaf 0 2 t' [3, 2] == 0 && getLeaf 0 2 t' [0, 1] == 5 && wfB 2 t'
-- row 0 scaled in place by 3 through its handle (default 0): (0,1) reads 15, the explicit default stays, row 4 untouched
#guard let t' := updateUnder (fun x => if x = 0 then x else x * 3) 2 (refAt (0 : Int) 2 exT [0]) [0]
       getLeaf 0 2 t' [0, 1] == 15 && getLeaf 0 2 t' [0, 2] == 0 && getLeaf 0 2 t' [4, 0] == 7 && wfB 2 t'
#guard legalStart ([(0, 1), (2, 1), (5, 1)] : Fib Int Int) 1 4 && coord2posFrom ([(0, 1), (2, 1), (5, 1)] : Fib Int Int) 1 4 == 2
end
end Ft
