/- C03 — property theorems (to be written) -/
