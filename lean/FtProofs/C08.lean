/-
  C08 — splitting partitions a fiber losslessly at exactly the specified boundaries.
  Property theorems only; helper lemmas live in FtProofs/Lemmas/Split*.lean.

  Reading guide.  `splitUniformIter`, `splitNonUniformIter`, `splitEqualIter`, `splitUnEqualIter`
  (FtModel/Split.lean) mirror the Python loops; `uSpec` / `nuSpec` / `chunkParts` are the
  declarative results.  `elems` are the presented (non-empty) elements of the fiber in storage
  order, `[as, ae)` its active range.  `none` = the implementation raises.
-/
import FtProofs.Lemmas.SplitUniform
import FtProofs.Lemmas.SplitNonUniform
import FtProofs.Lemmas.SplitSpec
import FtProofs.Lemmas.SplitChunks
set_option linter.unusedSectionVars false
set_option linter.unusedSimpArgs false
set_option linter.unusedVariables false
namespace Ft

section
variable {π : Type}

/-! ### the splitters compute their specifications -/

/-- **Uniform split.**  For every positive step, non-negative halos, non-empty active range and
    ascending fiber, the two nested loops with their lookup-or-append and `search_start` shortcut
    return: for each multiple `P` of `step` whose interval `[P, P+step)` meets the active range,
    in ascending order, the presented elements of `[P-pre, P+step+post)` inside the halo-extended
    active range, in order, payloads untouched; empty partitions are not created; each lower's
    active range is `[max P as, min (P+step) ae)`; `relativeCoords` subtracts `P`. -/
theorem uniform_spec (step pre post as ae : Int) (rel : Bool) (elems : Fib Int π)
    (hstep : 0 < step) (hact : as < ae) (hpre : 0 ≤ pre) (hpost : 0 ≤ post) (hsorted : Sorted elems) :
    splitUniformIter step pre post as ae rel elems = some (uSpec step pre post as ae rel elems) :=
  splitUniformIter_eq step pre post as ae hstep hact hpre hpost rel elems hsorted

example : splitUniformIter 2 1 1 0 6 false [((1 : Int), (10 : Int)), (2, 20), (5, 50)] =
    some [⟨0, [(1, 10), (2, 20)], 0, 2⟩, ⟨2, [(1, 10), (2, 20)], 2, 4⟩, ⟨4, [(5, 50)], 4, 6⟩] := by
  decide

/-- **Non-uniform split.**  For every ascending boundary list and ascending fiber (any halos, any
    active range) the scan with its `search_start` shortcut returns: partition `i` is `[S[i], S[i+1])`,
    the last one unbounded; it exists only if it meets the active range and holds the presented
    elements of its halo-extended interval inside the halo-extended active range; elements below the
    first boundary — and, since /repo fix 9ea13c4, elements reaching only partitions that start
    at/after the active end — belong to no partition. -/
theorem nonuniform_spec (S : List Int) (pre post as ae : Int) (rel : Bool) (elems : Fib Int π)
    (hS : S.Pairwise (· < ·)) (hsorted : Sorted elems) :
    splitNonUniformIter S pre post as ae rel elems = some (nuSpec S pre post as ae rel elems) :=
  splitNonUniformIter_eq S pre post as ae hS rel elems hsorted

example : splitNonUniformIter [0, 3] 1 0 0 6 true [((1 : Int), (10 : Int)), (2, 20), (5, 50)] =
    some [⟨0, [(1, 10), (2, 20)], 0, 3⟩, ⟨3, [(-1, 20), (2, 50)], 0, 3⟩] := by
  decide

/-- the former crash `Fiber([3],[5]).splitNonUniform([4], pre_halo=1)` (active range `[0,4)`): no partition -/
example : splitNonUniformIter [4] 1 0 0 4 false [((3 : Int), (5 : Int))] = some [] := by decide

/-- **boundaries handed over as a fiber** (`splitNonUniform(splits=<Fiber>)`): the boundaries are all the
    stored coordinates of that fiber — elements with an explicit default or an empty sub-fiber as payload
    included; for a well-formed (ascending) boundary fiber the split is `nuSpec` at exactly these -/
theorem nonuniform_fiber_spec {ρ : Type} (bf : Fib Int ρ) (pre post as ae : Int) (rel : Bool)
    (elems : Fib Int π) (hb : Sorted bf) (hsorted : Sorted elems) :
    splitNonUniformIter (fiberCoords bf) pre post as ae rel elems =
      some (nuSpec (bf.map (·.1)) pre post as ae rel elems) :=
  nonuniform_spec _ pre post as ae rel elems (by unfold fiberCoords; rw [List.pairwise_map]; exact hb) hsorted

example : splitNonUniformIter (fiberCoords [((0 : Int), (0 : Int)), (3, 0)]) 0 0 0 6 false
    [((1 : Int), (10 : Int)), (2, 20), (5, 50)] =
    some [⟨0, [(1, 10), (2, 20)], 0, 3⟩, ⟨3, [(5, 50)], 3, 6⟩] := by decide

/-- **splitEqual**: never raises; it is the non-uniform split at the boundaries `active start,
    coordinate of every step-th active element` -/
theorem equal_spec (step pre post as ae : Int) (rel : Bool) (elems : Fib Int π)
    (hact : as < ae) (hsorted : Sorted elems) :
    splitEqualIter step pre post as ae rel elems =
      some (nuSpec (equalBounds step as (iterActive as ae elems)) pre post as ae rel elems) := by
  obtain ⟨h1, h2⟩ := bounds_ok as ae elems hsorted hact _ (equalBounds_sublist step as (iterActive as ae elems))
  exact nonuniform_spec _ pre post as ae rel elems h1 hsorted

example : splitEqualIter 2 0 0 0 8 false [((1 : Int), (10 : Int)), (2, 20), (5, 50)] =
    some [⟨0, [(1, 10), (2, 20)], 0, 5⟩, ⟨5, [(5, 50)], 5, 8⟩] := by decide

/-- **splitUnEqual**: never raises; non-uniform split at the boundaries selected by the sizes -/
theorem unequal_spec (sizes : List Int) (pre post as ae : Int) (rel : Bool) (elems : Fib Int π)
    (hact : as < ae) (hsorted : Sorted elems) :
    splitUnEqualIter sizes pre post as ae rel elems =
      some (nuSpec (unequalBounds sizes as (iterActive as ae elems)) pre post as ae rel elems) := by
  obtain ⟨h1, h2⟩ := bounds_ok as ae elems hsorted hact _ (unequalBounds_sublist sizes as (iterActive as ae elems))
  exact nonuniform_spec _ pre post as ae rel elems h1 hsorted

example : splitUnEqualIter [1] 0 0 0 8 false [((1 : Int), (10 : Int)), (2, 20), (5, 50)] =
    some [⟨0, [(1, 10)], 0, 2⟩, ⟨2, [(2, 20), (5, 50)], 2, 8⟩] := by decide

end

/-- **rank ids of a tensor-level split**: the rank addressed (by `rankid=`, which overrides `depth=`)
    is replaced in place by its two halves `id.1`, `id.0`; every other rank keeps its id and its place -/
theorem split_rank_ids (ids : List String) (k : Nat) (h : k < ids.length) :
    splitRankIds ids k = ids.take k ++ [ids[k] ++ ".1", ids[k] ++ ".0"] ++ ids.drop (k + 1) ∧
    (splitRankIds ids k).length = ids.length + 1 := by
  have e : splitRankIds ids k = ids.take k ++ [ids[k] ++ ".1", ids[k] ++ ".0"] ++ ids.drop (k + 1) := by
    unfold splitRankIds
    rw [List.getElem?_eq_getElem h]
  refine ⟨e, ?_⟩
  rw [e]
  simp only [List.length_append, List.length_take, List.length_drop, List.length_cons, List.length_nil]
  omega

example : splitRankIds ["C", "H", "W"] 1 = ["C", "H.1", "H.0", "W"] := by decide

/-! ### ranks of format "U" -/

section
variable {ν : Type} [DecidableEq ν]

/-- what a rank of format "U" presents is ascending (every coordinate of the active range once), so
    all the theorems of this file apply to it -/
theorem presentU_sorted (dflt : ν) (d : Nat) (as ae : Int) (f : Tree Int ν (d + 1)) :
    Sorted (presentU dflt d as ae f) := by
  unfold presentU Sorted
  rw [List.pairwise_map]
  exact List.pairwise_lt_range.imp (fun h => by simp only; omega)

theorem presentFmt_sorted (fmtU : Bool) (dflt : ν) (d : Nat) (as ae : Int) (f : Tree Int ν (d + 1))
    (hf : Sorted (show List (Int × Tree Int ν d) from f)) : Sorted (presentFmt fmtU dflt d as ae f) := by
  unfold presentFmt
  split
  · split
    · exact List.Pairwise.nil
    · exact presentU_sorted dflt d as ae f
  · exact List.Pairwise.sublist List.filter_sublist hf

end

section
variable {π : Type}

/-- **every kind of split, boundaries from the occupancy, partitions from what the rank presents**
    (the two coincide for format "C"; for format "U" the rank presents every coordinate of its active
    range): the loops compute the declarative result -/
theorem split_spec_on (op : SplitOp) (pre post as ae : Int) (rel : Bool) (occ elems : Fib Int π)
    (hop : match op with
      | .uniform step => 0 < step ∧ 0 ≤ pre ∧ 0 ≤ post
      | .nonuniform S => S.Pairwise (· < ·)
      | _ => True)
    (hact : as < ae) (hocc : Sorted occ) (hsorted : Sorted elems) :
    splitIterOn op pre post as ae rel occ elems = some (specIterOn op pre post as ae rel occ elems) := by
  cases op with
  | uniform step => exact uniform_spec step pre post as ae rel elems hop.1 hact hop.2.1 hop.2.2 hsorted
  | nonuniform S => exact nonuniform_spec S pre post as ae rel elems hop hsorted
  | equal step =>
    obtain ⟨h1, _⟩ := bounds_ok as ae occ hocc hact _ (equalBounds_sublist step as (iterActive as ae occ))
    exact nonuniform_spec _ pre post as ae rel elems h1 hsorted
  | unequal sizes =>
    obtain ⟨h1, _⟩ := bounds_ok as ae occ hocc hact _ (unequalBounds_sublist sizes as (iterActive as ae occ))
    exact nonuniform_spec _ pre post as ae rel elems h1 hsorted

end

/-! ### what the specifications say -/

section
variable {π : Type}

/-- upper coordinates strictly ascending (uniform) -/
theorem upper_ascending (step pre post as ae : Int) (rel : Bool) (elems : Fib Int π) (hstep : 0 < step) :
    ((uSpec step pre post as ae rel elems).map (·.start)).Pairwise (· < ·) :=
  uSpec_starts step pre post as ae hstep rel elems

/-- upper coordinates strictly ascending (non-uniform / equal / unequal: any ascending boundary list) -/
theorem upper_ascending_nonuniform (S : List Int) (pre post as ae : Int) (rel : Bool) (elems : Fib Int π)
    (hS : S.Pairwise (· < ·)) :
    ((nuSpec S pre post as ae rel elems).map (·.start)).Pairwise (· < ·) :=
  nuSpec_starts S pre post as ae hS rel elems

/-- **halo membership, uniform**: an upper coordinate is a multiple of `step` whose interval meets the
    active range; its lower is non-empty and contains precisely the presented elements of the
    halo-extended active range that lie in `[P - pre, P + step + post)` -/
theorem halo_membership (step pre post as ae : Int) (elems : Fib Int π) (hstep : 0 < step)
    (p : Part π) (hp : p ∈ uSpec step pre post as ae false elems) :
    step ∣ p.start ∧ as < p.start + step ∧ p.start < ae ∧ p.elems ≠ [] ∧
    p.elems.Sublist elems ∧
    ∀ e, e ∈ p.elems ↔ e ∈ elems ∧ as - pre ≤ e.1 ∧ e.1 < ae + post ∧
      p.start - pre ≤ e.1 ∧ e.1 < p.start + step + post := by
  obtain ⟨P, hP, hne, rfl⟩ := (mem_uSpec step pre post as ae false elems p).1 hp
  obtain ⟨h1, h2, h3⟩ := (mem_uCands step as ae hstep P).1 hP
  refine ⟨h1, h2, h3, hne, List.filter_sublist, ?_⟩
  intro e
  show e ∈ elems.filter _ ↔ _
  rw [List.mem_filter]
  simp only [uMemb, inWindow, Bool.and_eq_true, decide_eq_true_eq, mkPart]
  constructor
  · rintro ⟨a, ⟨⟨b, c⟩, d⟩, f⟩; exact ⟨a, b, c, d, f⟩
  · rintro ⟨a, b, c, d, f⟩; exact ⟨a, ⟨⟨b, c⟩, d⟩, f⟩

/-- … and every such (partition, element) pair is present: an element appears in *precisely* the
    partitions whose halo-extended interval contains it -/
theorem halo_cover (step pre post as ae : Int) (elems : Fib Int π) (hstep : 0 < step)
    (P : Int) (hd : step ∣ P) (h1 : as < P + step) (h2 : P < ae)
    (e : Int × π) (he : e ∈ elems) (hw1 : as - pre ≤ e.1) (hw2 : e.1 < ae + post)
    (hi1 : P - pre ≤ e.1) (hi2 : e.1 < P + step + post) :
    ∃ p ∈ uSpec step pre post as ae false elems, p.start = P ∧ e ∈ p.elems := by
  have hmem : e ∈ elems.filter (fun e => uMemb step pre post as ae P e.1) := by
    rw [List.mem_filter]
    simp only [uMemb, inWindow, Bool.and_eq_true, decide_eq_true_eq]
    exact ⟨he, ⟨⟨hw1, hw2⟩, hi1⟩, hi2⟩
  refine ⟨_, (mem_uSpec step pre post as ae false elems _).2
    ⟨P, (mem_uCands step as ae hstep P).2 ⟨hd, h1, h2⟩, List.ne_nil_of_mem hmem, rfl⟩, rfl, hmem⟩

example : (⟨2, [((1 : Int), (10 : Int)), (2, 20)], 2, 4⟩ : Part Int) ∈
    uSpec 2 1 1 0 6 false [((1 : Int), (10 : Int)), (2, 20), (5, 50)] := by decide

/-- **halo membership, non-uniform**: partition `i` (it exists only if `[S[i], S[i+1])` meets the
    active range) holds precisely the presented elements of the halo-extended active range inside
    `[S[i] - pre, S[i+1] + post)` (no upper bound for the last boundary) -/
theorem halo_membership_nonuniform (S : List Int) (pre post as ae : Int) (elems : Fib Int π)
    (p : Part π) (hp : p ∈ nuSpec S pre post as ae false elems) :
    ∃ i, ∃ h : i < S.length, p.start = S[i] ∧ S[i] < ae ∧ (∀ t, S[i + 1]? = some t → as < t) ∧
      p.elems ≠ [] ∧ p.elems.Sublist elems ∧
      ∀ e, e ∈ p.elems ↔ e ∈ elems ∧ as - pre ≤ e.1 ∧ e.1 < ae + post ∧
        S[i] - pre ≤ e.1 ∧ ∀ t, S[i + 1]? = some t → e.1 < t + post := by
  obtain ⟨i, hi, hne, rfl⟩ := (mem_nuSpec S pre post as ae false elems p).1 hp
  obtain ⟨x, hx⟩ := List.exists_mem_of_ne_nil _ hne
  rw [List.mem_filter] at hx
  obtain ⟨s, hs, _, _, x3, x4, _⟩ := (nuMemb_iff S pre post as ae i x.1).1 hx.2
  have hsi : S[i]? = some S[i] := List.getElem?_eq_getElem hi
  rw [hsi] at hs; cases hs
  refine ⟨i, hi, getD_eq_getElem S i hi, x4, fun t ht => (x3 t ht).1, hne, List.filter_sublist, ?_⟩
  intro e
  show e ∈ elems.filter _ ↔ _
  rw [List.mem_filter, nuMemb_iff]
  constructor
  · rintro ⟨a, s, hs, b, c, d, _, f⟩
    rw [hsi] at hs; cases hs
    exact ⟨a, b, c, f, fun t ht => (d t ht).2⟩
  · rintro ⟨a, b, c, d, f⟩
    exact ⟨a, S[i], hsi, b, c, fun t ht => ⟨(x3 t ht).1, f t ht⟩, x4, d⟩

/-- **lossless, uniform** (halo 0): the lowers concatenated in upper order are exactly the presented
    elements of the active range, each once, in order, payloads untouched -/
theorem lossless (step as ae : Int) (elems : Fib Int π) (hstep : 0 < step) (hsorted : Sorted elems) :
    (uSpec step 0 0 as ae false elems).flatMap (·.elems) =
      elems.filter (fun e => decide (as ≤ e.1) && decide (e.1 < ae)) :=
  uSpec_lossless step as ae hstep elems hsorted

/-- **lossless, non-uniform** (halo 0): … the presented active elements at/after the first boundary -/
theorem lossless_nonuniform (S : List Int) (as ae : Int) (elems : Fib Int π) (hS : S.Pairwise (· < ·))
    (hsorted : Sorted elems) :
    (nuSpec S 0 0 as ae false elems).flatMap (·.elems) =
      elems.filter (fun e => decide (as ≤ e.1) && decide (e.1 < ae) &&
        (match S[0]? with | some s0 => decide (s0 ≤ e.1) | none => false)) :=
  nuSpec_lossless S as ae hS elems hsorted

/-- equal / unequal splits (halo 0) lose nothing: their first boundary is the active start -/
theorem lossless_position (B : List Int) (as ae : Int) (elems : Fib Int π) (hB : B.Pairwise (· < ·))
    (hsorted : Sorted elems) (h0 : B[0]? = some as) :
    (nuSpec B 0 0 as ae false elems).flatMap (·.elems) =
      elems.filter (fun e => decide (as ≤ e.1) && decide (e.1 < ae)) := by
  rw [nuSpec_lossless B as ae hB elems hsorted, h0]
  apply filter_congr'
  intro x _
  by_cases h : as ≤ x.1 <;> simp [h]

/-- **active ranges, uniform** (absolute coordinates; with `relativeCoords` the same range shifted by
    the partition start, see `relative_spec`): each lower's active range is its interval clipped to the
    parent's, it is non-empty, inside the parent's, and (halo 0) contains all the lower's elements -/
theorem active_clip (step pre post as ae : Int) (elems : Fib Int π) (hstep : 0 < step)
    (hact : as < ae) (p : Part π) (hp : p ∈ uSpec step pre post as ae false elems) :
    p.lo = max p.start as ∧ p.hi = min (p.start + step) ae ∧ as ≤ p.lo ∧ p.lo < p.hi ∧ p.hi ≤ ae := by
  obtain ⟨P, hP, _, rfl⟩ := (mem_uSpec step pre post as ae false elems p).1 hp
  obtain ⟨_, h2, h3⟩ := (mem_uCands step as ae hstep P).1 hP
  refine ⟨rfl, rfl, ?_, ?_, ?_⟩
  · show as ≤ max P as; omega
  · show max P as < min (P + step) ae; omega
  · show min (P + step) ae ≤ ae; omega

theorem active_contains (step as ae : Int) (elems : Fib Int π) (hstep : 0 < step)
    (p : Part π) (hp : p ∈ uSpec step 0 0 as ae false elems) :
    ∀ e ∈ p.elems, p.lo ≤ e.1 ∧ e.1 < p.hi := by
  obtain ⟨P, hP, _, rfl⟩ := (mem_uSpec step 0 0 as ae false elems p).1 hp
  intro e he
  have he' : e ∈ elems.filter (fun e => uMemb step 0 0 as ae P e.1) := he
  rw [List.mem_filter] at he'
  have := he'.2
  simp only [uMemb, inWindow, Bool.and_eq_true, decide_eq_true_eq] at this
  show max P as ≤ e.1 ∧ e.1 < min (P + step) ae
  omega

/-- **active ranges, non-uniform** (absolute coordinates; relative: `relative_spec_nonuniform`) -/
theorem active_clip_nonuniform (S : List Int) (pre post as ae : Int) (elems : Fib Int π)
    (hS : S.Pairwise (· < ·)) (hact : as < ae) (p : Part π) (hp : p ∈ nuSpec S pre post as ae false elems) :
    ∃ i, ∃ h : i < S.length, p.start = S[i] ∧ p.lo = max S[i] as ∧
      p.hi = (match S[i + 1]? with | some t => min t ae | none => ae) ∧
      as ≤ p.lo ∧ p.lo < p.hi ∧ p.hi ≤ ae := by
  obtain ⟨i, hi, hne, rfl⟩ := (mem_nuSpec S pre post as ae false elems p).1 hp
  obtain ⟨x, hx⟩ := List.exists_mem_of_ne_nil _ hne
  rw [List.mem_filter] at hx
  obtain ⟨s, hs, _, _, x3, x4, _⟩ := (nuMemb_iff S pre post as ae i x.1).1 hx.2
  have hsi : S[i]? = some S[i] := List.getElem?_eq_getElem hi
  rw [hsi] at hs; cases hs
  have hg := getD_eq_getElem S i hi
  refine ⟨i, hi, hg, ?_, rfl, ?_⟩
  · show max (S.getD i 0) as = max S[i] as; rw [hg]
  · show as ≤ max (S.getD i 0) as ∧ max (S.getD i 0) as < nuHi S ae i ∧ nuHi S ae i ≤ ae
    rw [hg]
    unfold nuHi
    cases hn : S[i + 1]? with
    | none => simp only; omega
    | some t =>
      have h1 := (x3 t hn).1
      have h2 : S[i] < t := sorted_getElem?_lt S hS (Nat.lt_succ_self i) hsi hn
      simp only; omega

/-- **relative coordinates** are the offsets from the partition start, everything else unchanged -/
theorem relative_spec (step pre post as ae : Int) (elems : Fib Int π) :
    uSpec step pre post as ae true elems =
      (uSpec step pre post as ae false elems).map
        (fun p => { p with elems := p.elems.map (fun e => (e.1 - p.start, e.2)),
                           lo := p.lo - p.start, hi := p.hi - p.start }) := by
  rw [uSpec_eq_map, uSpec_eq_map, List.map_map]
  rfl

theorem relative_spec_nonuniform (S : List Int) (pre post as ae : Int) (elems : Fib Int π) :
    nuSpec S pre post as ae true elems =
      (nuSpec S pre post as ae false elems).map
        (fun p => { p with elems := p.elems.map (fun e => (e.1 - p.start, e.2)),
                           lo := p.lo - p.start, hi := p.hi - p.start }) := by
  unfold nuSpec
  rw [List.map_filterMap]
  apply filterMap_congr'
  intro i _
  by_cases h : (elems.filter (fun e => nuMemb S pre post as ae i e.1)).isEmpty = true <;> simp [h, mkPart]

example : uSpec 2 0 0 0 6 true [((1 : Int), (10 : Int)), (3, 30)] =
    [⟨0, [(1, 10)], 0, 2⟩, ⟨2, [(1, 30)], 0, 2⟩] := by decide

/-- **partitions of partitions tile the original** (absolute coordinates, halo 0): re-splitting every
    lower uniformly, with the lower's own active range, loses and duplicates nothing -/
theorem resplit_tiles (step step2 as ae : Int) (elems : Fib Int π) (hstep : 0 < step) (hstep2 : 0 < step2)
    (hsorted : Sorted elems) :
    (uSpec step 0 0 as ae false elems).flatMap
        (fun p => (uSpec step2 0 0 p.lo p.hi false p.elems).flatMap (·.elems)) =
      elems.filter (fun e => decide (as ≤ e.1) && decide (e.1 < ae)) := by
  rw [← uSpec_lossless step as ae hstep elems hsorted]
  apply flatMap_congr'
  intro p hp
  have hsub : p.elems.Sublist elems := (halo_membership step 0 0 as ae elems hstep p hp).2.2.2.2.1
  have hps : Sorted p.elems := List.Pairwise.sublist hsub hsorted
  rw [uSpec_lossless step2 p.lo p.hi hstep2 p.elems hps, List.filter_eq_self]
  intro e he
  have := active_contains step as ae elems hstep p hp e he
  simp only [Bool.and_eq_true, decide_eq_true_eq]
  exact this

example : (uSpec 4 0 0 0 8 false [((1 : Int), (10 : Int)), (3, 30), (6, 60)]).flatMap
    (fun p => (uSpec 2 0 0 p.lo p.hi false p.elems).map (fun q => (q.start, q.lo, q.hi))) =
    [(0, 0, 2), (2, 2, 4), (6, 6, 8)] := by decide

/-- … and so do partitions made with `relativeCoords` (since /repo fix 0894f84 their active range is
    relative too): re-splitting every relative lower with its own range and shifting back by the
    partition start gives the presented active elements again -/
theorem resplit_tiles_relative (step step2 as ae : Int) (elems : Fib Int π) (hstep : 0 < step)
    (hstep2 : 0 < step2) (hsorted : Sorted elems) :
    (uSpec step 0 0 as ae true elems).flatMap
        (fun p => ((uSpec step2 0 0 p.lo p.hi false p.elems).flatMap (·.elems)).map
          (fun e => (e.1 + p.start, e.2))) =
      elems.filter (fun e => decide (as ≤ e.1) && decide (e.1 < ae)) := by
  rw [relative_spec, List.flatMap_map, ← uSpec_lossless step as ae hstep elems hsorted]
  apply flatMap_congr'
  intro p hp
  have hsub : p.elems.Sublist elems := (halo_membership step 0 0 as ae elems hstep p hp).2.2.2.2.1
  have hps : Sorted p.elems := List.Pairwise.sublist hsub hsorted
  have hps' : Sorted (p.elems.map (fun e => (e.1 - p.start, e.2))) := by
    unfold Sorted at hps ⊢
    rw [List.pairwise_map]
    exact hps.imp (fun h => by simp only; omega)
  simp only
  rw [uSpec_lossless step2 _ _ hstep2 _ hps', List.filter_eq_self.2, List.map_map]
  · have : ((fun e : Int × π => (e.1 + p.start, e.2)) ∘ fun e => (e.1 - p.start, e.2)) = id := by
      funext e; simp only [Function.comp, id]; exact Prod.ext (by simp) rfl
    rw [this, List.map_id]
  · intro e he
    obtain ⟨x, hx, rfl⟩ := List.mem_map.1 he
    have := active_contains step as ae elems hstep p hp x hx
    simp only [Bool.and_eq_true, decide_eq_true_eq]
    omega

/-- `/`: at most `n` partitions -/
theorem truediv_parts (shape n : Int) (rel : Bool) (elems : Fib Int π) (hshape : 0 < shape) (hn : 0 < n) :
    (uSpec (truedivStep shape n) 0 0 0 shape rel elems).length ≤ n.toNat := by
  unfold uSpec
  refine Nat.le_trans (List.length_filterMap_le _ _) ?_
  unfold uCands truedivStep
  simp only [List.length_map, List.length_range]
  have h1 := Int.lt_ediv_add_one_mul_self (shape + n - 1) hn
  rw [succ_mul'] at h1
  have hst : 0 < (shape + n - 1) / n := by
    have : (1 : Int) ≤ (shape + n - 1) / n := (Int.le_ediv_iff_mul_le hn).2 (by omega)
    omega
  have h2 : (shape - 1) / ((shape + n - 1) / n) < n := by
    apply (Int.ediv_lt_iff_lt_mul hst).2
    rw [Int.mul_comm]; omega
  have h3 : (0 : Int) / ((shape + n - 1) / n) = 0 := Int.zero_ediv _
  rw [h3]
  omega

end

/-! ### splitting at a depth -/

section
variable {ν : Type} [DecidableEq ν]

/-- **depth**: `split…(depth = k)` replaces every fiber reached by a coordinate path of length `k`
    by its split and leaves the levels above untouched — whatever sits above (explicit defaults,
    empty sub-fibers included) -/
theorem depth_spec (cfg : SplitCfg) (dflt : ν) (d : Nat) :
    ∀ (k : Nat) (t : Tree Int ν (d + 1 + k)) (r : Tree Int ν (d + 2 + k)),
      splitAt cfg dflt d k t = some r →
      ∀ path, subAt (d + 2) k r path = (subAt (d + 1) k t path).bind (splitFiber cfg dflt d) := by
  intro k
  induction k with
  | zero =>
    intro t r h path
    cases path with
    | nil => simp only [subAt, Option.bind_some]; exact h.symm
    | cons c cs => simp [subAt]
  | succ k ih =>
    intro t r h path
    cases path with
    | nil => simp [subAt]
    | cons c cs =>
      unfold splitAt at h
      cases hm : mapM? (fun e => (splitAt cfg dflt d k e.2).map (fun t => (e.1, t)))
          (show List (Int × Tree Int ν (d + 1 + k)) from t) with
      | none => rw [hm] at h; cases h
      | some l =>
        rw [hm] at h
        have hr : r = l := (Option.some.inj h).symm
        subst hr
        have hl := lookup_mapM? (splitAt cfg dflt d k) c _ _ hm
        simp only [subAt]
        rw [hl]
        cases hlk : lookup (show List (Int × Tree Int ν (d + 1 + k)) from t) c with
        | none => rfl
        | some s =>
          simp only [Option.bind_some]
          cases hs : splitAt cfg dflt d k s with
          | none =>
            exfalso
            obtain ⟨e, he, hes⟩ := lookup_some_mem _ c s hlk
            exact mapM?_some_of_mem (splitAt cfg dflt d k) _ _ hm e he (by rw [hes]; exact hs)
          | some r' =>
            simp only [Option.bind_some]
            exact ih s r' hs cs

/-- the levels above the split depth keep their coordinates, position by position -/
theorem depth_coords (cfg : SplitCfg) (dflt : ν) (d k : Nat) (t : Tree Int ν (d + 1 + (k + 1)))
    (r : Tree Int ν (d + 2 + (k + 1))) (h : splitAt cfg dflt d (k + 1) t = some r) :
    (show List (Int × Tree Int ν (d + 2 + k)) from r).map (·.1) =
      (show List (Int × Tree Int ν (d + 1 + k)) from t).map (·.1) := by
  unfold splitAt at h
  cases hm : mapM? (fun e => (splitAt cfg dflt d k e.2).map (fun t => (e.1, t)))
      (show List (Int × Tree Int ν (d + 1 + k)) from t) with
  | none => rw [hm] at h; cases h
  | some l =>
    rw [hm] at h
    have hr : r = l := (Option.some.inj h).symm
    subst hr
    exact keys_mapM? (splitAt cfg dflt d k) _ _ hm

end

/-! ### position space: the lowers are the chunks -/

section
variable {π : Type}

/-- **splitEqual in position space** (halo 0): the active presented elements are cut into
    consecutive chunks of `step` elements, the remainder last; the first upper coordinate is the
    active start, every other the first coordinate of its chunk; each lower's active range runs
    from its upper coordinate to the next one (the last to the active end) -/
theorem equal_chunks (step as ae : Int) (rel : Bool) (elems : Fib Int π)
    (hstep : 1 ≤ step) (hact : as < ae) (hsorted : Sorted elems) :
    splitEqualIter step 0 0 as ae rel elems =
      some (chunkParts as ae rel (chunksOf step.toNat
        (elems.filter (fun e => decide (as ≤ e.1) && decide (e.1 < ae))))) := by
  rw [equal_spec step 0 0 as ae rel elems hact hsorted,
    iterActive_eq_filter as ae elems hsorted, equalBounds_eq, eqBounds_chunks step as hstep _ 0 (by simp)]
  have hn : step.toNat ≠ 0 := by omega
  simp only [if_true]
  rw [nuSpec_chunks as ae rel elems hsorted _ as (chunksOf_nonempty _ hn _) (Int.le_refl _)]
  · rfl
  · rw [chunksOf_flatten _ hn]
    apply filter_congr'
    intro x _
    by_cases h : as ≤ x.1 <;> simp [h]

example : splitEqualIter 2 0 0 0 9 false [((1 : Int), (10 : Int)), (2, 20), (5, 50), (6, 60), (8, 80)] =
    some [⟨0, [(1, 10), (2, 20)], 0, 5⟩, ⟨5, [(5, 50), (6, 60)], 5, 8⟩, ⟨8, [(8, 80)], 8, 9⟩] := by decide

/-- **splitUnEqual in position space** (halo 0), every list of positive sizes — the empty list
    included (one partition with everything, since /repo COMMIT:C08-01): chunks of the stated sizes,
    whatever remains in one last chunk. -/
theorem unequal_chunks (sizes : List Int) (as ae : Int) (rel : Bool) (elems : Fib Int π)
    (hpos : ∀ s ∈ sizes, 1 ≤ s) (hact : as < ae) (hsorted : Sorted elems) :
    splitUnEqualIter sizes 0 0 as ae rel elems =
      some (chunkParts as ae rel (takeChunks (sizes.map Int.toNat)
        (elems.filter (fun e => decide (as ≤ e.1) && decide (e.1 < ae))))) := by
  rw [unequal_spec sizes 0 0 as ae rel elems hact hsorted,
    iterActive_eq_filter as ae elems hsorted, unequalBounds_chunks sizes hpos as]
  rw [nuSpec_chunks as ae rel elems hsorted _ as
    (takeChunks_nonempty _ _ (by
      intro s hs
      obtain ⟨z, hz, rfl⟩ := List.mem_map.1 hs
      have := hpos z hz
      omega)) (Int.le_refl _)]
  · rfl
  · rw [takeChunks_flatten]
    apply filter_congr'
    intro x _
    by_cases h : as ≤ x.1 <;> simp [h]

example : splitUnEqualIter [1, 2] 0 0 0 9 false [((1 : Int), (10 : Int)), (2, 20), (5, 50), (6, 60), (8, 80)] =
    some [⟨0, [(1, 10)], 0, 2⟩, ⟨2, [(2, 20), (5, 50)], 2, 6⟩, ⟨6, [(6, 60), (8, 80)], 6, 9⟩] := by decide

/-- the former defect witness `Fiber([3],[5]).splitUnEqual([])`: one final partition -/
example : splitUnEqualIter [] 0 0 0 4 false [((3 : Int), (5 : Int))] = some [⟨0, [(3, 5)], 0, 4⟩] := by decide

end

section
variable {π : Type}

/-- `//`: at most `n` partitions (the chunk size is computed from the raw occupancy `occ`, the
    chunks then count presented active elements — adopted reading DESIGN §7.1) -/
theorem floordiv_parts (occ : Nat) (n as ae : Int) (rel : Bool) (elems : Fib Int π)
    (hn : 0 < n) (hocc : elems.length ≤ occ) :
    (chunkParts as ae rel (chunksOf (floordivStep occ n).toNat
      (elems.filter (fun e => decide (as ≤ e.1) && decide (e.1 < ae))))).length ≤ n.toNat := by
  unfold chunkParts
  rw [chunkPartsFrom_length]
  apply chunksOf_length_le
  have hlen : (elems.filter (fun e => decide (as ≤ e.1) && decide (e.1 < ae))).length ≤ occ :=
    Nat.le_trans (List.length_filter_le _ _) hocc
  unfold floordivStep
  have h1 := Int.lt_ediv_add_one_mul_self ((occ : Int) + n - 1) hn
  rw [succ_mul'] at h1
  have hq : 0 ≤ ((occ : Int) + n - 1) / n := Int.ediv_nonneg (by omega) (by omega)
  have hcast : ((n.toNat * (((occ : Int) + n - 1) / n).toNat : Nat) : Int) = n * (((occ : Int) + n - 1) / n) := by
    rw [Int.natCast_mul, Int.toNat_of_nonneg (by omega), Int.toNat_of_nonneg hq]
  have : (occ : Int) ≤ ((n.toNat * (((occ : Int) + n - 1) / n).toNat : Nat) : Int) := by
    rw [hcast, Int.mul_comm]; omega
  omega

end

/-! ### non-vacuity: the hypotheses of the theorems above are satisfiable by non-trivial values
    (each theorem is instantiated; every hypothesis is discharged by evaluation) -/

section
open Ft

private def exF : Fib Int Int := [(1, 10), (2, 20), (5, 50), (6, 60), (8, 80)]
private theorem exF_sorted : Sorted exF := (sortedB_iff exF).1 (by decide)

example : splitUniformIter 2 1 1 0 9 true exF = some (uSpec 2 1 1 0 9 true exF) :=
  uniform_spec 2 1 1 0 9 true exF (by decide) (by decide) (by decide) (by decide) exF_sorted
example : (uSpec 2 1 1 0 9 true exF).length = 5 := by decide

example : splitNonUniformIter [0, 3, 12] 1 2 0 9 false exF = some (nuSpec [0, 3, 12] 1 2 0 9 false exF) :=
  nonuniform_spec [0, 3, 12] 1 2 0 9 false exF (by decide) exF_sorted
example : (nuSpec [0, 3, 12] 1 2 0 9 false exF).length = 2 := by decide
example : (nuSpec [0, 3, 7] 1 2 0 9 false exF).length = 3 := by decide

example := equal_spec 2 1 0 0 9 false exF (by decide) exF_sorted
example := unequal_spec [1, 2] 0 1 0 9 false exF (by decide) exF_sorted
example := equal_chunks 2 0 9 false exF (by decide) (by decide) exF_sorted
example := unequal_chunks [1, 2] 0 9 false exF (by decide) (by decide) exF_sorted
example := unequal_chunks [] 0 9 false exF (by decide) (by decide) exF_sorted

example := upper_ascending 2 1 1 0 9 false exF (by decide)
example := upper_ascending_nonuniform [0, 3, 7] 1 2 0 9 false exF (by decide)
example := halo_membership 2 1 1 0 9 exF (by decide) ⟨4, [(5, 50), (6, 60)], 4, 6⟩ (by decide)
example := halo_cover 2 1 1 0 9 exF (by decide) 4 (by decide) (by decide) (by decide) (6, 60)
  (by decide) (by decide) (by decide) (by decide) (by decide)
example := halo_membership_nonuniform [0, 3, 7] 1 2 0 9 exF ⟨3, [(2, 20), (5, 50), (6, 60), (8, 80)], 3, 7⟩ (by decide)
example := lossless 2 0 9 exF (by decide) exF_sorted
example := lossless_nonuniform [2, 6] 0 9 exF (by decide) exF_sorted
example := lossless_position [0, 5] 0 9 exF (by decide) exF_sorted rfl
example := active_clip 4 1 1 1 7 exF (by decide) (by decide) ⟨4, [(5, 50), (6, 60)], 4, 7⟩ (by decide)
example := active_contains 4 1 7 exF (by decide) ⟨4, [(5, 50), (6, 60)], 4, 7⟩ (by decide)
example := active_clip_nonuniform [0, 3, 7] 0 0 1 8 exF (by decide) (by decide) ⟨0, [(1, 10), (2, 20)], 1, 3⟩ (by decide)
example := resplit_tiles 4 2 0 9 exF (by decide) (by decide) exF_sorted
example := split_spec_on (.equal 2) 1 1 0 9 false exF (presentU (0 : Int) 0 0 9 (show Tree Int Int 1 from exF)) trivial (by decide) exF_sorted (presentU_sorted _ _ _ _ _)
example : (presentU (0 : Int) 0 0 4 (show Tree Int Int 1 from [((1 : Int), (10 : Int))])) =
    ([(0, 0), (1, 10), (2, 0), (3, 0)] : List (Int × Int)) := by rfl
example := resplit_tiles_relative 4 2 0 9 exF (by decide) (by decide) exF_sorted
example := truediv_parts 9 2 false exF (by decide) (by decide)
example := floordiv_parts 5 2 0 9 false exF (by decide) (by decide)

/-- the former defect witness: every fiber of depth 1 is split, the empty one included -/
private def exT : Tree Int Int (0 + 1 + 1) :=
  show List (Int × List (Int × Int)) from [(0, [(0, 1), (1, 2)]), (1, []), (2, [(3, 4)])]

private def exR : Tree Int Int (0 + 2 + 1) :=
  show List (Int × List (Int × List (Int × Int))) from
    [(0, [(0, [(0, 1), (1, 2)])]), (1, []), (2, [(2, [(3, 4)])])]

private def exCfg : SplitCfg := { op := .uniform 2 }

private theorem exT_split : splitAt exCfg 0 0 1 exT = some exR := by decide

example := depth_spec exCfg 0 0 1 exT exR exT_split [2]
example := depth_coords exCfg 0 0 0 exT exR exT_split

end

end Ft
