/- C08 — property theorems (to be written) -/
