/-
  C08 — splitting partitions a fiber losslessly at exactly the specified boundaries.
  Property theorems only; helper lemmas live in FtProofs/Lemmas/Split*.lean.

  Reading guide.  `splitUniformIter`, `splitNonUniformIter`, `splitEqualIter`, `splitUnEqualIter`
  (FtModel/Split.lean) mirror the Python loops; `uSpec` / `nuSpec` / `chunkParts` are the
  declarative results.  `elems` are the presented (non-empty) elements of the fiber in storage
  order, `[as, ae)` its active range.  `none` = the implementation raises.
-/
import FtProofs.Lemmas.SplitUniform
import FtProofs.Lemmas.SplitNonUniform
import FtProofs.Lemmas.SplitSpec
set_option linter.unusedSectionVars false
set_option linter.unusedSimpArgs false
set_option linter.unusedVariables false
namespace Ft

section
variable {π : Type}

/-! ### the splitters compute their specifications -/

/-- **Uniform split.**  For every positive step, non-negative halos, non-empty active range and
    ascending fiber, the two nested loops with their lookup-or-append and `search_start` shortcut
    return: for each multiple `P` of `step` whose interval `[P, P+step)` meets the active range,
    in ascending order, the presented elements of `[P-pre, P+step+post)` inside the halo-extended
    active range, in order, payloads untouched; empty partitions are not created; each lower's
    active range is `[max P as, min (P+step) ae)`; `relativeCoords` subtracts `P`. -/
theorem uniform_spec (step pre post as ae : Int) (rel : Bool) (elems : Fib Int π)
    (hstep : 0 < step) (hact : as < ae) (hpre : 0 ≤ pre) (hpost : 0 ≤ post) (hsorted : Sorted elems) :
    splitUniformIter step pre post as ae rel elems = some (uSpec step pre post as ae rel elems) :=
  splitUniformIter_eq step pre post as ae hstep hact hpre hpost rel elems hsorted

example : splitUniformIter 2 1 1 0 6 false [((1 : Int), (10 : Int)), (2, 20), (5, 50)] =
    some [⟨0, [(1, 10), (2, 20)], 0, 2⟩, ⟨2, [(1, 10), (2, 20)], 2, 4⟩, ⟨4, [(5, 50)], 4, 6⟩] := by
  decide

/-- **Non-uniform split** — partial: proved for ascending boundary lists all of whose boundaries lie
    below the active end.  (With a boundary at/after the active end the code raises `ValueError`
    for an element in that boundary's pre-halo, see `nonuniform_crash_witness`.)  Partition `i` is
    `[S[i], S[i+1])`, the last one unbounded; elements below the first boundary belong to no partition. -/
theorem nonuniform_spec_partial (S : List Int) (pre post as ae : Int) (rel : Bool) (elems : Fib Int π)
    (hS : S.Pairwise (· < ·)) (hpre : 0 ≤ pre) (hpost : 0 ≤ post) (hsorted : Sorted elems)
    (hin : ∀ s ∈ S, s < ae) :
    splitNonUniformIter S pre post as ae rel elems = some (nuSpec S pre post as ae rel elems) :=
  splitNonUniformIter_eq S pre post as ae hS rel elems hsorted
    (fun y _ hw h0 => cover_of_lt_ae S pre post as ae hS hin hpre hpost y.1 hw h0)

example : splitNonUniformIter [0, 3] 1 0 0 6 true [((1 : Int), (10 : Int)), (2, 20), (5, 50)] =
    some [⟨0, [(1, 10), (2, 20)], 0, 3⟩, ⟨3, [(-1, 20), (2, 50)], 3, 6⟩] := by
  decide

/-- the excluded class is real: `Fiber([3],[5]).splitNonUniform([4], pre_halo=1)` (active range
    `[0,4)`) raises in the model exactly as in the implementation -/
theorem nonuniform_crash_witness :
    splitNonUniformIter [4] 1 0 0 4 false [((3 : Int), (5 : Int))] = none := by decide

/-- the same statement under the weakest hypothesis the proof needs: every element inside the
    window that reaches the first boundary's pre-halo belongs to some partition -/
theorem nonuniform_spec_of_cover (S : List Int) (pre post as ae : Int) (rel : Bool) (elems : Fib Int π)
    (hS : S.Pairwise (· < ·)) (hsorted : Sorted elems)
    (hcover : ∀ y ∈ elems, inWindow as ae pre post y.1 = true →
      (∃ s0, S[0]? = some s0 ∧ s0 - pre ≤ y.1) → ∃ i, nuMemb S pre post as ae i y.1 = true) :
    splitNonUniformIter S pre post as ae rel elems = some (nuSpec S pre post as ae rel elems) :=
  splitNonUniformIter_eq S pre post as ae hS rel elems hsorted hcover

/-- **splitEqual**: never raises; it is the non-uniform split at the boundaries `active start,
    coordinate of every step-th active element` -/
theorem equal_spec (step pre post as ae : Int) (rel : Bool) (elems : Fib Int π)
    (hact : as < ae) (hpre : 0 ≤ pre) (hpost : 0 ≤ post) (hsorted : Sorted elems) :
    splitEqualIter step pre post as ae rel elems =
      some (nuSpec (equalBounds step as (iterActive as ae elems)) pre post as ae rel elems) := by
  obtain ⟨h1, h2⟩ := bounds_ok as ae elems hsorted hact _ (equalBounds_sublist step as (iterActive as ae elems))
  exact nonuniform_spec_partial _ pre post as ae rel elems h1 hpre hpost hsorted h2

example : splitEqualIter 2 0 0 0 8 false [((1 : Int), (10 : Int)), (2, 20), (5, 50)] =
    some [⟨0, [(1, 10), (2, 20)], 0, 5⟩, ⟨5, [(5, 50)], 5, 8⟩] := by decide

/-- **splitUnEqual**: never raises; non-uniform split at the boundaries selected by the sizes -/
theorem unequal_spec (sizes : List Int) (pre post as ae : Int) (rel : Bool) (elems : Fib Int π)
    (hact : as < ae) (hpre : 0 ≤ pre) (hpost : 0 ≤ post) (hsorted : Sorted elems) :
    splitUnEqualIter sizes pre post as ae rel elems =
      some (nuSpec (unequalBounds sizes as (iterActive as ae elems)) pre post as ae rel elems) := by
  obtain ⟨h1, h2⟩ := bounds_ok as ae elems hsorted hact _ (unequalBounds_sublist sizes as (iterActive as ae elems))
  exact nonuniform_spec_partial _ pre post as ae rel elems h1 hpre hpost hsorted h2

example : splitUnEqualIter [1] 0 0 0 8 false [((1 : Int), (10 : Int)), (2, 20), (5, 50)] =
    some [⟨0, [(1, 10)], 0, 2⟩, ⟨2, [(2, 20), (5, 50)], 2, 8⟩] := by decide

end
end Ft
