/-
  C17 — buffer traffic models charge exactly what their policy implies.
  Property theorems only; helper lemmas live in FtProofs/Lemmas/Traffic*.lean.
-/
import FtProofs.Lemmas.TrafficBasic
import FtProofs.Lemmas.TrafficTools
import FtProofs.Lemmas.TrafficBuffet
import FtProofs.Lemmas.TrafficSched
import FtProofs.Lemmas.TrafficCache
import FtProofs.Lemmas.TrafficCacheBounds
import FtProofs.Lemmas.TrafficSchedOrd
set_option linter.unusedSectionVars false
set_option linter.unusedSimpArgs false
set_option linter.unusedVariables false
namespace Ft
namespace Traffic

/-! ## trace combination is a stable merge by iteration stamp -/

/-- `_combineTraces` on stamp-sorted files: nothing lost, nothing invented, each file's rows in
    their own order, a write never precedes a read with an equal-or-smaller stamp and a read never
    precedes a write with a strictly smaller stamp (reads first on ties). -/
theorem combine_stable_merge (reads writes : List Row)
    (hr : StampSorted reads) (hw : StampSorted writes) :
    combineSpecB reads writes (combine reads writes) = true := by
  simp only [combineSpecB, Bool.and_eq_true, decide_eq_true_eq]
  exact ⟨⟨⟨combine_reads reads writes, combine_writes reads writes⟩,
    combine_tiesReadFirst reads writes hr⟩, combine_readsNotOvertaken reads writes hw⟩

/-- … and these conditions determine the merge: any list passing the executable check is the
    model's output (so "spec on the implementation's file" and "file = model" are one test). -/
theorem combine_complete (reads writes : List Row) (out : List CRow)
    (h : combineSpecB reads writes out = true) : out = combine reads writes := by
  induction out generalizing reads writes with
  | nil =>
    simp only [combineSpecB, Bool.and_eq_true, decide_eq_true_eq] at h
    obtain ⟨⟨⟨h1, h2⟩, _⟩, _⟩ := h
    simp at h1 h2; subst h1; subst h2; simp [combine]
  | cons x out ih =>
    simp only [combineSpecB, Bool.and_eq_true, decide_eq_true_eq] at h
    obtain ⟨⟨⟨h1, h2⟩, h3⟩, h4⟩ := h
    simp only [tiesReadFirst, readsNotOvertaken, Bool.and_eq_true, Bool.or_eq_true,
      Bool.not_eq_true', List.all_eq_true] at h3 h4
    have ih' : ∀ rs ws, (out.filter (fun r => !r.isWrite)).map CRow.untag = rs →
        (out.filter (fun r => r.isWrite)).map CRow.untag = ws → out = combine rs ws := by
      intro rs ws e1 e2
      apply ih
      simp only [combineSpecB, Bool.and_eq_true, decide_eq_true_eq]
      exact ⟨⟨⟨e1, e2⟩, h3.2⟩, h4.2⟩
    cases hx : x.isWrite
    · -- the head is a read: it is the first read
      simp only [List.filter_cons, hx, Bool.not_false, if_true, List.map_cons, Bool.false_eq_true,
        if_false] at h1 h2
      cases reads with
      | nil => cases h1
      | cons r rs =>
        simp only [List.cons.injEq] at h1
        have hrest := ih' rs writes h1.2 h2
        have hxr : x = r.tag false := eq_tag_of_untag h1.1 hx
        cases writes with
        | nil =>
          rw [combine, hrest, hxr]
          cases rs <;> simp [combine]
        | cons w ws =>
          rw [combine]
          have hnot : lexLt w.stamp r.stamp = false := by
            -- w occurs later in `out` as a write; a read is never overtaken
            have hw_mem : w.tag true ∈ out := mem_of_proj_write h2 List.mem_cons_self
            rcases h4.1 with hxw | hall
            · rw [hx] at hxw; cases hxw
            · have := hall _ hw_mem
              rcases this with hc | hc
              · simp at hc
              · simp only [lexLe, Bool.not_eq_true', tag_stamp] at hc
                rw [hxr] at hc; exact hc
          simp [hnot, hrest, hxr]
    · -- the head is a write: it is the first write and strictly precedes the first read
      simp only [List.filter_cons, hx, Bool.not_true, Bool.false_eq_true, if_false, if_true,
        List.map_cons] at h1 h2
      cases writes with
      | nil => cases h2
      | cons w ws =>
        simp only [List.cons.injEq] at h2
        have hrest := ih' reads ws h1 h2.2
        have hxw : x = w.tag true := eq_tag_of_untag h2.1 hx
        cases reads with
        | nil => rw [combine]; simp [hrest, hxw, combine]
        | cons r rs =>
          rw [combine]
          have hlt : lexLt w.stamp r.stamp = true := by
            have hr_mem : r.tag false ∈ out := mem_of_proj_read h1 List.mem_cons_self
            rcases h3.1 with hxf | hall
            · rw [hx] at hxf; cases hxf
            · have := hall _ hr_mem
              rcases this with hc | hc
              · simp at hc
              · rw [hxw] at hc; exact hc
          simp [hlt, hrest, hxw]

example : combine [⟨[0], [1], 1⟩, ⟨[2], [0], 0⟩] [⟨[0], [5], 5⟩, ⟨[1], [6], 6⟩] =
    [⟨[0], [1], 1, false⟩, ⟨[0], [5], 5, true⟩, ⟨[1], [6], 6, true⟩, ⟨[2], [0], 0, false⟩] := by
  simp [combine, lexLt, Row.tag]

/-! ## trace filtering keeps exactly the rows whose point occurs in the filter trace -/

/-- `filterTrace` on an input whose points are strictly increasing and a filter whose (cut) points
    are non-decreasing — both in Python tuple order — keeps exactly the matching rows. -/
theorem filter_spec (n : Nat) (inp fil : List Row)
    (hlen : ∀ x ∈ inp, x.coords.length = n)
    (hin : inp.Pairwise (fun a b => lexLt a.coords b.coords = true))
    (hfil : fil.Pairwise (fun a b => lexLe (a.coords.take n) (b.coords.take n) = true)) :
    filterTrace inp fil = filterSpec inp fil := by
  fun_induction filterTrace inp fil with
  | case1 fil => simp [filterSpec]
  | case2 i is => simp [filterSpec]
  | case3 i is f fs heq ih =>
    have hi := hlen i List.mem_cons_self
    have hlen' : ∀ x ∈ is, x.coords.length = n := fun x hx => hlen x (List.mem_cons_of_mem _ hx)
    rw [ih hlen' (List.pairwise_cons.1 hin).2 (List.pairwise_cons.1 hfil).2]
    have hkeep : (f :: fs).any (fun g => decide (g.coords.take i.coords.length = i.coords)) = true := by
      simp only [List.any_cons, Bool.or_eq_true, decide_eq_true_eq]; left; exact heq.symm
    simp only [filterSpec, List.filter_cons, hkeep, if_true]
    congr 1
    apply List.filter_congr
    intro x hx
    have hxl := hlen' x hx
    have hlt := (List.pairwise_cons.1 hin).1 x hx
    have : ¬ (f.coords.take x.coords.length = x.coords) := by
      intro e
      have : i.coords = x.coords := by
        rw [← e, hxl, ← hi]; exact heq
      exact lexLt_ne hlt this
    simp [this]
  | case4 i is f fs hne hlt ih =>
    have hi := hlen i List.mem_cons_self
    have hlen' : ∀ x ∈ is, x.coords.length = n := fun x hx => hlen x (List.mem_cons_of_mem _ hx)
    rw [ih hlen' (List.pairwise_cons.1 hin).2 hfil]
    have hdrop : (f :: fs).any (fun g => decide (g.coords.take i.coords.length = i.coords)) = false := by
      rw [List.any_eq_false]
      intro g hg
      simp only [decide_eq_true_eq]
      intro e
      have hfg : lexLe (f.coords.take n) (g.coords.take n) = true := by
        rcases List.mem_cons.1 hg with rfl | hg
        · exact lexLe_refl _
        · exact (List.pairwise_cons.1 hfil).1 g hg
      have h1 : lexLt i.coords (g.coords.take n) = true := by
        apply lexLt_of_lt_of_le _ hfg
        rw [← hi]; exact hlt
      rw [← hi, e, lexLt_irrefl] at h1; cases h1
    simp only [filterSpec, List.filter_cons, hdrop, Bool.false_eq_true, if_false]
  | case5 i is f fs hne hnlt ih =>
    have hi := hlen i List.mem_cons_self
    rw [ih hlen hin (List.pairwise_cons.1 hfil).2]
    simp only [filterSpec]
    apply List.filter_congr
    intro x hx
    have hxl := hlen x hx
    -- f's point is strictly below every remaining input point
    have hgt : lexLt (f.coords.take n) i.coords = true := by
      cases h : lexLt (f.coords.take n) i.coords
      · exfalso
        have h2 : lexLt i.coords (f.coords.take n) = false := by
          have := hnlt; simp only [Bool.not_eq_true] at this
          rw [← hi]; exact this
        have := lexLt_total h h2
        apply hne; rw [hi]; exact this.symm
      · rfl
    have hfx : lexLt (f.coords.take n) x.coords = true := by
      rcases List.mem_cons.1 hx with rfl | hx'
      · exact hgt
      · exact lexLt_trans hgt ((List.pairwise_cons.1 hin).1 x hx')
    have : ¬ (f.coords.take x.coords.length = x.coords) := by
      intro e; rw [hxl] at e; rw [e, lexLt_irrefl] at hfx; cases hfx
    simp [this]

example : filterTrace [⟨[0], [1], 0⟩, ⟨[1], [3], 1⟩, ⟨[2], [4], 2⟩]
    [⟨[0, 0], [1, 7], 0⟩, ⟨[0, 1], [1, 9], 1⟩, ⟨[1, 0], [2, 0], 0⟩, ⟨[2, 0], [4, 4], 0⟩] =
    [⟨[0], [1], 0⟩, ⟨[2], [4], 2⟩] := by simp [filterTrace, lexLt]

/-! ## next use -/

/-- `_buildNextUseTrace`: every row is paired with the first later row on the same line. -/
theorem nextuse_correct (mask : List Bool) (epl : Nat) (rows : List CRow) :
    nextUse mask epl rows = nextUseSpec mask epl rows := by
  unfold nextUse
  induction rows with
  | nil => rfl
  | cons r rest ih =>
    simp only [nextUseAux, nextUseSpec, nextUseAux_dict, ih]

example : (nextUse [true] 2 [⟨[0], [0], 0, false⟩, ⟨[1], [5], 5, true⟩, ⟨[2], [1], 1, false⟩]).map
    (fun x => x.2.map (·.stamp)) = [some [2], none, none] := by decide

/-- what the main loop reads is the next-use annotation: the accesses built from a combined trace
    carry, as `next`, the stamp of the first later access to the same line (when the mask the
    next-use pass derives from the trace header is the one the main loop derives from `order`) -/
theorem accsOf_nextOk (mask : List Bool) (epl : Nat) (shape : Option Nat) (rows : List CRow) :
    nextOkB (accsOf mask mask epl shape rows) = true := by
  unfold accsOf
  rw [nextuse_correct]
  induction rows with
  | nil => rfl
  | cons r rest ih =>
    simp only [nextUseSpec, List.map_cons, nextOkB, Bool.and_eq_true, decide_eq_true_eq, ih, and_true]
    simp only [mkAcc]
    exact (find_map_spec mask epl shape (r.line mask epl) rest).symm

/-! ## the buffet charges one fill per (line, eviction-window) pair whose first access is a read,
       one write-back per pair containing a non-staging write -/

/-- Buffet fills.  `accs` is one binding's next-use trace as the main loop reads it (`nextOkB`: the
    annotation is what `_buildNextUseTrace` produces, see `accsOf_nextOk`); `winContigB`: the rows
    of one eviction window are adjacent (true for stamp-sorted traces, `buffet_fills_sorted`).
    Any capacity (the buffet never refuses a line), any line size, any evict-on depth `e`
    (0 = root). -/
theorem buffet_fills (e ls : Nat) (accs : List Acc)
    (hn : nextOkB accs = true) (hc : winContigB e accs = true) :
    (buffet1 e ls accs).reads = ls * fillsSpec e accs := by
  have := (inv_run e ls accs {} [] [] [] [] (inv_init e accs (winContig_of_B e hc)) (nextOk_of_B hn)).1
  simpa [buffet1, fillsSpec] using this

/-- Buffet write-backs (`Acc.wb` is false for writes into the staging area beyond the shape). -/
theorem buffet_writebacks (e ls : Nat) (accs : List Acc)
    (hn : nextOkB accs = true) (hc : winContigB e accs = true) :
    (buffet1 e ls accs).writes = ls * writebacksSpec e accs := by
  have := (inv_run e ls accs {} [] [] [] [] (inv_init e accs (winContig_of_B e hc)) (nextOk_of_B hn)).2
  simpa [buffet1, writebacksSpec, dirtyCount] using this

/-- The same for well-formed (stamp-sorted) traces, from the rows of the combined trace. -/
theorem buffet_fills_sorted (e ls epl : Nat) (mask : List Bool) (shape : Option Nat) (rows : List CRow)
    (hs : stampsSortedB (rows.map (·.stamp)) = true) :
    (buffet1 e ls (accsOf mask mask epl shape rows)).reads
        = ls * fillsSpec e (accsOf mask mask epl shape rows) ∧
    (buffet1 e ls (accsOf mask mask epl shape rows)).writes
        = ls * writebacksSpec e (accsOf mask mask epl shape rows) := by
  have hst := accsOf_stamps mask epl shape rows
  have hc := winContig_of_sorted e (accs := accsOf mask mask epl shape rows) (by rw [hst]; exact hs)
  have hn := nextOk_of_B (accsOf_nextOk mask epl shape rows)
  have := inv_run e ls _ {} [] [] [] [] (inv_init e _ hc) hn
  exact ⟨by simpa [buffet1, fillsSpec] using this.1,
         by simpa [buffet1, writebacksSpec, dirtyCount] using this.2⟩

/-- non-vacuity: a trace with a reuse inside a window, a reuse across windows, a write and a
    staging write; evict-on the outer rank -/
example :
    let rows : List CRow := [⟨[0, 0], [0, 1], 1, false⟩, ⟨[0, 1], [0, 1], 1, true⟩,
                             ⟨[1, 0], [1, 1], 1, false⟩, ⟨[1, 1], [1, 5], 5, true⟩]
    let accs := accsOf [false, true] [false, true] 1 (some 4) rows
    stampsSortedB (rows.map (·.stamp)) = true ∧ winContigB 1 accs = true ∧
    fillsSpec 1 accs = 2 ∧ writebacksSpec 1 accs = 1 ∧
    (buffet1 1 32 accs).reads = 64 ∧ (buffet1 1 32 accs).writes = 32 := by
  decide

/-! ## several bindings -/

/-- `_bufferTraffic` consumes the bindings' traces in (padded stamp, binding position) order; this
    order is an interleaving, and with the buffet callbacks the state of binding `i` after the run
    is the state of a run over binding `i`'s rows alone (the shared occupancy only feeds the
    overflow counter). -/
theorem buffet_bindings_independent (L ls : Nat) (cap : Option Nat) (evictEnds : List Nat)
    (traces : List (List Acc)) (i : Nat) (hi : i < traces.length) :
    (buffetRun L evictEnds ls cap traces).bs.getD i {} =
      buffet1 (evictEnds.getD i 0) ls (traces.getD i []) := by
  unfold buffetRun buffet1
  have := (bg_proj evictEnds ls cap i (schedule L traces) { bs := traces.map (fun _ => {}) }
    (by simpa using hi)).1
  rw [this, schedule_proj]
  congr 1
  simp [List.getD_eq_getElem?_getD, hi]

/-- hence the per-binding charges of a multi-binding buffet run -/
theorem buffet_fills_all (L ls : Nat) (cap : Option Nat) (evictEnds : List Nat)
    (traces : List (List Acc)) (i : Nat) (hi : i < traces.length)
    (hn : nextOkB (traces.getD i []) = true) (hc : winContigB (evictEnds.getD i 0) (traces.getD i []) = true) :
    ((buffetRun L evictEnds ls cap traces).bs.getD i {}).reads
        = ls * fillsSpec (evictEnds.getD i 0) (traces.getD i []) ∧
    ((buffetRun L evictEnds ls cap traces).bs.getD i {}).writes
        = ls * writebacksSpec (evictEnds.getD i 0) (traces.getD i []) := by
  rw [buffet_bindings_independent L ls cap evictEnds traces i hi]
  exact ⟨buffet_fills _ ls _ hn hc, buffet_writebacks _ ls _ hn hc⟩

example :
    let t0 : List Acc := accsOf [true] [true] 1 none [⟨[0], [3], 3, false⟩, ⟨[1], [3], 3, false⟩]
    let t1 : List Acc := accsOf [false, true] [false, true] 1 none
      [⟨[0, 0], [3, 1], 1, false⟩, ⟨[1, 0], [3, 1], 1, false⟩]
    (schedule 2 [t0, t1]).map (·.1) = [0, 1, 0, 1] ∧
    ((buffetRun 2 [0, 1] 32 (some 0) [t0, t1]).bs.map (·.reads)) = [32, 64] := by decide

/-! ## hence: never below one fill per distinct line, never above one per access -/

/-- Buffet traffic bounds: at least one fill for every distinct line whose first access is a read
    (in a read-only trace: every distinct line touched), at most one per read access; at most one
    write-back per written-back access. -/
theorem buffet_traffic_bounds (e ls : Nat) (accs : List Acc)
    (hn : nextOkB accs = true) (hc : winContigB e accs = true) :
    ls * distinctFirstReads [] accs ≤ (buffet1 e ls accs).reads ∧
    (buffet1 e ls accs).reads ≤ ls * (accs.filter (fun a => !a.isWrite)).length ∧
    (buffet1 e ls accs).writes ≤ ls * (accs.filter (fun a => a.wb)).length := by
  rw [buffet_fills e ls accs hn hc, buffet_writebacks e ls accs hn hc]
  exact ⟨Nat.mul_le_mul_left _ (distinct_le_fillsFrom e accs [] [] (by simp)),
         Nat.mul_le_mul_left _ (fillsFrom_le e [] accs),
         Nat.mul_le_mul_left _ (wbFrom_le e [] accs)⟩

/-! ## traffic depends only on line-granular positions -/

/-- two combined traces that agree on stamps, coordinates, access kind, the LINE of every position
    and its side of the shape (staging or not) -/
def LineEquiv (epl : Nat) (shape : Option Nat) : List CRow → List CRow → Prop
  | [], [] => True
  | r :: rs, r' :: rs' =>
    (r.stamp = r'.stamp ∧ r.coords = r'.coords ∧ r.isWrite = r'.isWrite ∧
      r.pos / epl = r'.pos / epl ∧ (∀ s, shape = some s → (r.pos < s ↔ r'.pos < s)))
      ∧ LineEquiv epl shape rs rs'
  | _, _ => False

/-- … are the same sequence of accesses for the simulation, for either policy, any bindings, any
    capacity: everything downstream of `accsOf` is literally equal. -/
theorem line_granular (mask : List Bool) (epl : Nat) (shape : Option Nat) :
    ∀ (rows rows' : List CRow), LineEquiv epl shape rows rows' →
      accsOf mask mask epl shape rows = accsOf mask mask epl shape rows' := by
  intro rows rows' h
  unfold accsOf
  rw [nextuse_correct, nextuse_correct]
  have hline : ∀ (r r' : CRow), r.coords = r'.coords → r.pos / epl = r'.pos / epl →
      r.line mask epl = r'.line mask epl := by
    intro r r' h1 h2; simp [CRow.line, linePoint, h1, h2]
  -- the first later row on a given line carries the same stamp in both traces
  have hfind : ∀ (l l' : List CRow), LineEquiv epl shape l l' → ∀ p,
      (l.find? (fun x => decide (x.line mask epl = p))).map (·.stamp)
        = (l'.find? (fun x => decide (x.line mask epl = p))).map (·.stamp) := by
    intro l
    induction l with
    | nil => intro l' hl p; cases l' with
      | nil => rfl
      | cons _ _ => exact absurd hl (by simp [LineEquiv])
    | cons r rs ih =>
      intro l' hl p
      cases l' with
      | nil => exact absurd hl (by simp [LineEquiv])
      | cons r' rs' =>
        obtain ⟨⟨h1, h2, _, h4, _⟩, hrest⟩ := hl
        simp only [List.find?_cons, hline r r' h2 h4]
        by_cases hp : r'.line mask epl = p
        · simp [hp, h1]
        · simp only [hp, decide_false]; exact ih rs' hrest p
  induction rows generalizing rows' with
  | nil => cases rows' with
    | nil => rfl
    | cons _ _ => exact absurd h (by simp [LineEquiv])
  | cons r rs ih =>
    cases rows' with
    | nil => exact absurd h (by simp [LineEquiv])
    | cons r' rs' =>
      obtain ⟨⟨h1, h2, h3, h4, h5⟩, hrest⟩ := h
      simp only [nextUseSpec, List.map_cons, List.cons.injEq]
      refine ⟨?_, ih rs' hrest⟩
      have hl := hline r r' h2 h4
      have hf := hfind rs rs' hrest (r'.line mask epl)
      cases shape with
      | none => simp only [mkAcc, hl, h1, h3, hf]
      | some s =>
        have e1 : decide (r.pos < s) = decide (r'.pos < s) := decide_eq_decide.2 (h5 s rfl)
        have e2 : decide (s ≤ r.pos) = decide (s ≤ r'.pos) := by
          have := h5 s rfl
          simp only [decide_eq_decide]
          constructor <;> intro hh <;> omega
        simp only [mkAcc, hl, h1, h3, hf, e1, e2]

example : LineEquiv 4 (some 6) [⟨[0], [1], 1, true⟩, ⟨[1], [7], 7, true⟩] [⟨[0], [1], 3, true⟩, ⟨[1], [7], 6, true⟩] := by
  simp [LineEquiv]

/-! ## the cache charges what a furthest-next-use policy with bypass incurs -/

/-- `cacheTraffic` = the reference simulator (resident set; on a miss with a later use the line is
    brought in if there is room, if it is a pinned staging line, or if some resident unpinned line is
    needed later than it, evicting the unpinned resident line whose next use is furthest; "next use"
    measured by position in the access sequence).  Pinned (staging) lines included.
    PARTIAL: proved for consumption sequences `xs` (all bindings interleaved) that (1) carry correct
    next-use stamps, (2) are ordered as `ListElem` compares and have no stamp tie between different
    lines of a binding.  With such ties the implementation can evict suboptimally (open finding);
    there the correspondence still compares it with the reference. -/
theorem cache_eq_reference_partial (ls : Nat) (cap : Option Nat) (xs : Sched)
    (h1 : schedNextOkB xs = true) (h2 : schedOrdB xs = true) :
    (xs.foldl (cstep ls cap) {}).failed = none ∧
    (xs.foldl (cstep ls cap) {}).reads = (refCache ls cap {} xs).reads ∧
    (xs.foldl (cstep ls cap) {}).writes = (refCache ls cap {} xs).writes ∧
    (xs.foldl (cstep ls cap) {}).over = (refCache ls cap {} xs).over := by
  have key : ∀ (xs : Sched) (s : CState) (r : RState), CRel ls s r xs → SNextOk xs → SOrd xs →
      CRel ls (xs.foldl (cstep ls cap) s) (refCache ls cap r xs) [] := by
    intro xs
    induction xs with
    | nil => intro s r h _ _; exact h
    | cons x rest ih =>
      intro s r h hn ho
      simp only [List.foldl_cons, refCache]
      apply ih _ _ _ hn.2 ho.2
      have hstep : cstep ls cap s x = cCore ls cap (cCharge ls s x) x := by
        simp [cstep, h.ok]
      rw [hstep]
      exact crel_core (crel_charge h) hn ho
  have hinit : CRel ls {} {} xs := by
    refine ⟨rfl, ?_, ?_, ?_, ?_, ?_, ?_, rfl, rfl, rfl, rfl⟩
    · intro k
      constructor
      · intro hc; simp at hc
      · rintro ⟨en, hen, _⟩; cases hen
    · intro k; rfl
    · exact List.nodup_nil
    · intro en hen; cases hen
    · exact List.Pairwise.nil
    · intro e; constructor
      · intro he; cases he
      · rintro ⟨en, hen, _⟩; cases hen
  have := key xs {} {} hinit (snextOk_of_B h1) (sord_of_B h2)
  exact ⟨this.ok, this.reads, this.writes, this.over⟩

/-- non-vacuity: capacity of one line, X Y X Y X without ties: the second line is bypassed -/
example :
    let t : List Acc := accsOf [true] [true] 1 none
      [⟨[0], [0], 0, false⟩, ⟨[1], [1], 1, false⟩, ⟨[2], [0], 0, false⟩, ⟨[3], [1], 1, false⟩, ⟨[4], [0], 0, false⟩]
    let xs := schedule 1 [t]
    schedNextOkB xs = true ∧ schedOrdB xs = true ∧ xs.all (fun x => !x.2.staging) = true ∧
    getAt (xs.foldl (cstep 32 (some 32)) {}).reads 0 = 96 ∧
    getAt (refCache 32 (some 32) {} xs).reads 0 = 96 := by decide

/-- hypothesis (1) of `cache_eq_reference_partial` is discharged by the next-use pass: the
    interleaving of the bindings' next-use traces carries correct next-use stamps. -/
theorem cache_hyp_next (L : Nat) (bs : List (List Bool × Nat × Option Nat × List CRow)) :
    schedNextOkB (schedule L (bs.map (fun b => accsOf b.1 b.1 b.2.1 b.2.2.1 b.2.2.2))) = true := by
  apply schedule_nextOk
  intro t ht
  obtain ⟨b, _, rfl⟩ := List.mem_map.1 ht
  exact accsOf_nextOk _ _ _ _

/-- Cache traffic bounds, for ANY consumption sequence (ties and pinned lines included): the fills
    charged to binding `i` are at most one per read access of `i`, and — if the run does not end in
    an exception — at least one for every distinct line of `i` whose first access is a read. -/
theorem cache_traffic_bounds (ls : Nat) (cap : Option Nat) (xs : Sched) (i : Nat) :
    getAt (xs.foldl (cstep ls cap) {}).reads i ≤ ls * readsOf i xs ∧
    ((xs.foldl (cstep ls cap) {}).failed = none →
      ls * firstReadsOf i [] xs ≤ getAt (xs.foldl (cstep ls cap) {}).reads i) := by
  refine ⟨?_, ?_⟩
  · have := cache_upper ls cap i xs {}
    simpa [getAt, alookup] using this
  · intro hok
    have := cache_lower ls cap i xs {} [] (by intro k hk; simp [alookup] at hk) hok
    simpa [getAt, alookup] using this

example :
    let xs : Sched := schedule 1 [accsOf [true] [true] 1 none
      [⟨[0], [0], 0, false⟩, ⟨[1], [1], 1, false⟩, ⟨[2], [0], 0, false⟩, ⟨[3], [2], 2, true⟩]]
    readsOf 0 xs = 3 ∧ firstReadsOf 0 [] xs = 2 ∧
    getAt (xs.foldl (cstep 32 (some 0)) {}).reads 0 = 96 ∧
    getAt (xs.foldl (cstep 32 (some 64)) {}).reads 0 = 64 := by decide

/-- The cache theorem stated on the bindings' traces: if every binding's next-use trace is
    stamp-sorted, carries correct next-use stamps (`accsOf_nextOk`) and has no two different lines at
    one stamp, then `cacheTraffic` (all bindings, any capacity and line size, pinned staging lines
    included) raises nothing and charges what the furthest-next-use-with-bypass reference charges on
    the consumption sequence.  PARTIAL with respect to the property's quantifier: stamp ties between
    different lines are excluded (see `cache_eq_reference_partial`). -/
theorem cache_eq_reference_traces_partial (L ls : Nat) (cap : Option Nat) (traces : List (List Acc))
    (h1 : ∀ t ∈ traces, nextOkB t = true) (h2 : ∀ t ∈ traces, TraceOk L t) :
    (cacheRun L ls cap traces).failed = none ∧
    (cacheRun L ls cap traces).reads = (refCache ls cap {} (schedule L traces)).reads ∧
    (cacheRun L ls cap traces).writes = (refCache ls cap {} (schedule L traces)).writes := by
  have := cache_eq_reference_partial ls cap (schedule L traces) (schedule_nextOk L traces h1)
    (schedule_ord L traces h2)
  exact ⟨this.1, this.2.1, this.2.2.1⟩

/-- non-vacuity with a pinned staging line (shape 2, writes at positions 3 and 1 of one line) next to
    a second binding that addresses the same line tuple — the situation of the repaired defect -/
example :
    let t0 : List Acc := accsOf [false, true] [false, true] 8 none
      [⟨[0, 1], [1, 0], 0, false⟩, ⟨[1, 7], [2, 2], 1, false⟩]
    let t1 : List Acc := accsOf [false, true] [false, true] 16 (some 2)
      [⟨[0, 0], [0, 0], 3, true⟩, ⟨[0, 2], [0, 0], 1, true⟩]
    (∀ t ∈ [t0, t1], nextOkB t = true ∧ stampsSortedB (t.map (·.stamp)) = true ∧ traceTieFreeB t = true
        ∧ t.all (fun a => decide (a.stamp.length ≤ 2)) = true) ∧
    t1.any (·.staging) = true ∧
    (cacheRun 2 128 none [t0, t1]).failed = none ∧
    getAt (cacheRun 2 128 none [t0, t1]).reads 0 = 128 ∧
    getAt (cacheRun 2 128 none [t0, t1]).writes 1 = 128 := by decide

example :
    let t0 : List Acc := accsOf [true] [true] 1 none [⟨[0], [3], 3, false⟩, ⟨[1], [3], 3, false⟩, ⟨[2], [4], 4, false⟩]
    let t1 : List Acc := accsOf [false, true] [false, true] 1 none
      [⟨[0, 0], [3, 1], 1, false⟩, ⟨[0, 1], [3, 2], 2, true⟩, ⟨[2, 0], [4, 1], 1, false⟩]
    (∀ t ∈ [t0, t1], nextOkB t = true ∧ stampsSortedB (t.map (·.stamp)) = true ∧ traceTieFreeB t = true
        ∧ t.all (fun a => decide (a.stamp.length ≤ 2) && !a.staging) = true) ∧
    getAt (cacheRun 2 32 (some 32) [t0, t1]).reads 0 = 64 ∧
    getAt (cacheRun 2 32 (some 32) [t0, t1]).reads 1 = 64 := by decide

end Traffic
end Ft
