/- C17 — property theorems (to be written) -/
