/-
  C04 (continued) — tuple coordinates: the generic merge theorems of FtProofs/C04.lean apply at
  `κ := TCoord` (lexicographic order is a strict total order), and a fiber with shorter tuple
  coordinates matches on the common prefix.
-/
import FtProofs.Lemmas.TupleLemmas
import FtProofs.C04
set_option linter.unusedSectionVars false
set_option linter.unusedSimpArgs false
namespace Ft
open StrictTotal

section
variable {α β : Type}

/-- **prefix matching**: for a sorted operand `a` with `k`-tuple coordinates and a sorted operand
    `b` with longer tuples, `a & b` yields exactly the elements of `b` whose `k`-prefix `a` presents,
    in `b`'s (ascending) order, each once, with `a`'s payload for the prefix and `b`'s own payload -/
theorem prefix_spec (k : Nat) (a : Fib TCoord α) (b : Fib TCoord β) (ha : Sorted a) (hb : Sorted b) :
    prefixAndMerge k a b = prefixAndSpec k a b := by
  fun_induction prefixAndMerge k a b with
  | case1 b =>
    unfold prefixAndSpec
    symm; rw [List.filterMap_eq_nil_iff]; intro e _; simp [lookup_nil]
  | case2 e r => simp [prefixAndSpec]
  | case3 pa ra cb pb rb ih =>
    rw [ih ha hb.tail]
    unfold prefixAndSpec
    rw [List.filterMap_cons]
    have : lookup ((cb.take k, pa) :: ra) (cb.take k) = some pa := by rw [lookup_cons]; simp
    simp [this]
  | case4 ca pa ra cb pb rb hne hlt ih =>
    rw [ih ha.tail hb]
    unfold prefixAndSpec
    apply filterMap_congr'
    intro e he
    -- every coordinate of b has a prefix at least cb's prefix, hence above ca
    have hge : ca < e.1.take k := by
      rcases List.mem_cons.1 he with rfl | he'
      · exact hlt
      · rcases TCoord.take_mono k (hb.head_lt e he') with h | h
        · exact trans hlt h
        · exact h ▸ hlt
    have : ca ≠ e.1.take k := lt_ne hge
    rw [lookup_cons_ne this]
  | case5 ca pa ra cb pb rb hne hnlt ih =>
    rw [ih ha hb.tail]
    have hgt : cb.take k < ca := gt_of_not_lt_ne hne hnlt
    unfold prefixAndSpec
    rw [List.filterMap_cons]
    have hnone : lookup ((ca, pa) :: ra) (cb.take k) = none := by
      apply lookup_eq_none_of_lt
      intro x hx
      rcases List.mem_cons.1 hx with rfl | hx
      · exact hgt
      · exact trans hgt (ha.head_lt x hx)
    simp [hnone]

/-- the two-operand truth tables hold verbatim for tuple coordinates -/
theorem and_spec_tuple (a : Fib TCoord α) (b : Fib TCoord β) (ha : Sorted a) (hb : Sorted b) :
    andMerge a b = andSpec a b := and_spec a b ha hb

theorem or_sound_tuple [DecidableEq α] [DecidableEq β] (a : Fib TCoord α) (b : Fib TCoord β)
    (ha : Sorted a) (hb : Sorted b) : orSpecB a b (orMerge a b) = true := or_sound a b ha hb

end

/-! ### non-vacuity (tests) -/
section
private def sh : Fib TCoord Int := [(⟨[1]⟩, 7), (⟨[3]⟩, 8)]
private def lg : Fib TCoord Int := [(⟨[1, 2]⟩, 1), (⟨[1, 3]⟩, 2), (⟨[2, 5]⟩, 3), (⟨[3, 0]⟩, 4)]
example : Sorted sh ∧ Sorted lg := ⟨(sortedB_iff sh).1 (by decide), (sortedB_iff lg).1 (by decide)⟩
#guard prefixAndMerge 1 sh lg == [(⟨[1, 2]⟩, (7, 1)), (⟨[1, 3]⟩, (7, 2)), (⟨[3, 0]⟩, (8, 4))]
end
end Ft
