/- C07 — property theorems (to be written) -/
