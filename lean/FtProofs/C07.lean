/-
  C07 — every traversal mode enumerates exactly the slice of content it names.
  Property theorems only; helper lemmas live in FtProofs/Lemmas/Traverse.lean
  (namespace `Ft.C07`, model in FtModel/Traverse.lean).
-/
import FtProofs.Lemmas.Traverse
set_option linter.unusedSectionVars false
set_option linter.unusedSimpArgs false
set_option linter.unusedVariables false
namespace Ft
open StrictTotal Ft.C07

/-! ### occupancy, range and active-range iteration (any strictly ordered coordinate type) -/
section range
variable {κ : Type} [LT κ] [DecidableRel (α := κ) (· < ·)] [DecidableEq κ] [StrictTotal κ]
variable {π : Type}

/-- **`iterRange(start, end)`** on a sorted fiber yields precisely the non-empty elements with
    `start <= coord < end` (either bound may be `None`), in ascending order, each once. -/
theorem iterRange_spec (emp : π → Bool) (s e : Option κ) (f : Fib κ π) (hs : Sorted f) :
    strip (iterRange emp s e none f) = rangeSpec emp s e f := by
  rw [iterRange_strip, rangeLoop_eq_filter emp s e f hs]

/-- … and what it yields are the fiber's own payloads: a yield tagged with position `i` is
    the element stored at `i` (this is also the position `setSavedPos` records). -/
theorem iterRange_yields_own_payloads (emp : π → Bool) (s e : Option κ) (sp : Option Nat) (f : Fib κ π)
    (c : κ) (i : Nat) (p : π) (h : (c, (i, p)) ∈ iterRange emp s e sp f) : f[i]? = some (c, p) :=
  mem_iterRange h

/-- **a valid saved-position shortcut never changes what is yielded**: if no element before
    `start_pos` belongs to the slice, the traversal from `start_pos` yields the same elements
    (same payload objects, same positions). -/
theorem iterRange_startpos (emp : π → Bool) (s e : Option κ) (sp : Nat) (f : Fib κ π) (hs : Sorted f)
    (hv : validStart emp s e sp f = true) :
    iterRange emp s e (some sp) f = iterRange emp s e none f :=
  iterRange_startpos_eq emp s e sp f hs hv

/-- the positions a traversal saves are valid shortcuts for every later slice that begins at
    or after the coordinate yielded there (how `getSavedPos()` is meant to be used). -/
theorem iterRange_saved_valid (emp : π → Bool) (s e : Option κ) (sp : Option Nat) (f : Fib κ π) (hs : Sorted f)
    (c : κ) (i : Nat) (p : π) (h : (c, (i, p)) ∈ iterRange emp s e sp f)
    (s' : κ) (e' : Option κ) (hle : ¬ s' < c) : validStart emp (some s') e' i f = true :=
  saved_is_valid hs h s' e' hle

/-- **`iterOccupancy()`** (= `iterRange(None, None)`): the non-empty elements in storage order;
    no ordering assumption is needed because nothing is clipped. -/
theorem iterOccupancy_spec (emp : π → Bool) (f : Fib κ π) :
    strip (iterRange emp none none none f) = f.filter (fun x => !emp x.2) := by
  rw [iterRange_strip, rangeLoop_none]

end range

/-- on trees: default iteration of a compressed rank presents `present` (the notion C04, C05
    and C12 are stated with). -/
theorem iterOccupancy_eq_present {ν : Type} [DecidableEq ν] (dflt : ν) (d : Nat) (f : Tree Int ν (d + 1)) :
    strip (iterRange (isEmpty dflt d) none none none (show List (Int × Tree Int ν d) from f)) = present dflt d f :=
  iterOccupancy_spec (isEmpty dflt d) _

/-! ### shape iteration -/
section shape
variable {π : Type}

/-- **`iterRangeShape(start, end, step)`** (and `iterShape` / `iterActiveShape`, which call it with
    `(0, shape)` / the active range): every coordinate of the range, in order, with the stored
    payload (and its position) or the default standing in for an absent one. -/
theorem iterRangeShape_spec (mk : π) (f : Fib Int π) (hs : Sorted f) (s e : Int) (k : Nat) :
    shapeIter mk f (pyRange s e k) = shapeSpec mk f (pyRange s e k) :=
  shapeIter_eq_spec mk hs _

/-- what "the stored payload or the default" means: the payload component is `lookup` or the
    default; a position component `some i` points at that very element, `none` means absent. -/
theorem shapeSpec_row (mk : π) (f : Fib Int π) (c : Int) :
    (lookupPos mk f c).2 = (lookup f c).getD mk ∧
    (∀ i, (lookupPos mk f c).1 = some i → f[i]? = some (c, (lookupPos mk f c).2)) ∧
    ((lookupPos mk f c).1 = none → lookup f c = none) :=
  ⟨lookupPos_snd mk f c, fun _ h => lookupPos_fst_some h, lookupPos_fst_none⟩

/-- the coordinates of the range: `start, start+step, …` below `end`, strictly ascending. -/
theorem pyRange_spec (s e : Int) (k : Nat) :
    (∀ c, c ∈ pyRange s e k ↔ 0 < k ∧ c < e ∧ ∃ n : Nat, c = s + n * k) ∧
    (pyRange s e k).Pairwise (· < ·) :=
  ⟨mem_pyRange s e k, pyRange_ascending s e k⟩

/-- **reference variants insert exactly the visited absent coordinates**: after
    `iterRangeShapeRef` over the coordinates `cs` the fiber is sorted, holds every original
    element unchanged, holds the default at every visited coordinate that was absent, and nothing
    else; the yields are those of the plain traversal. -/
theorem iterRangeShapeRef_inserts_exactly (mk : π) (f : Fib Int π) (hs : Sorted f) (cs : List Int) :
    Sorted (shapeRefLoop mk f cs).1 ∧
    (∀ c, lookup (shapeRefLoop mk f cs).1 c = refExpect mk f cs c) ∧
    (shapeRefLoop mk f cs).2 = cs.map (fun c => (c, (lookup f c).getD mk)) :=
  shapeRefLoop_spec mk cs f hs

/-- the executable form of that statement accepts the model's result … -/
theorem iterRangeShapeRef_specB_sound [DecidableEq π] (mk : π) (f : Fib Int π) (hs : Sorted f) (cs : List Int) :
    refSpecB mk f cs (shapeRefLoop mk f cs).1 = true := by
  obtain ⟨h1, h2, _⟩ := shapeRefLoop_spec mk cs f hs
  unfold refSpecB
  rw [Bool.and_eq_true, List.all_eq_true]
  exact ⟨(sortedB_iff _).2 h1, fun c _ => by simpa using h2 c⟩

/-- … and nothing else (so checking it on the implementation's fiber is the same test as
    comparing with the model). -/
theorem iterRangeShapeRef_specB_complete [DecidableEq π] (mk : π) (f : Fib Int π) (hs : Sorted f) (cs : List Int)
    (out : Fib Int π) (h : refSpecB mk f cs out = true) : out = (shapeRefLoop mk f cs).1 := by
  obtain ⟨h1, h2, _⟩ := shapeRefLoop_spec mk cs f hs
  unfold refSpecB at h
  rw [Bool.and_eq_true, List.all_eq_true] at h
  obtain ⟨hso, hall⟩ := h
  have hso := (sortedB_iff _).1 hso
  apply sorted_eq_of_lookup hso h1
  intro c
  rw [h2 c]
  by_cases hk : c ∈ out.map (·.1) ++ f.map (·.1) ++ cs
  · simpa using hall c hk
  · simp only [List.mem_append, List.mem_map, not_or, not_exists, not_and] at hk
    have e1 : lookup out c = none := lookup_eq_none_of_ne (fun x hx => hk.1.1 x hx)
    have e2 : lookup f c = none := lookup_eq_none_of_ne (fun x hx => hk.1.2 x hx)
    simp [refExpect, e1, e2, hk.2]

/-- **repeatable**: a second reference traversal of the same range inserts nothing more and
    yields the same (coordinate, payload) list. -/
theorem iterRangeShapeRef_reiterable (mk : π) (f : Fib Int π) (hs : Sorted f) (cs : List Int) :
    shapeRefLoop mk (shapeRefLoop mk f cs).1 cs = shapeRefLoop mk f cs := by
  obtain ⟨h1, h2, h3⟩ := shapeRefLoop_spec mk cs f hs
  have hall : ∀ c ∈ cs, lookup (shapeRefLoop mk f cs).1 c ≠ none := by
    intro c hc
    rw [h2 c]; unfold refExpect
    cases lookup f c <;> simp [hc]
  rw [shapeRefLoop_present mk cs _ h1 hall]
  apply Prod.ext
  · rfl
  · show cs.map _ = (shapeRefLoop mk f cs).2
    rw [h3]
    apply List.map_congr_left
    intro c hc
    rw [h2 c]; unfold refExpect
    cases lookup f c <;> simp [hc]

/-! ### dense co-iteration -/

/-- **`coiterRangeShape`** (and `coiterShape` / `coiterActiveShape`): every coordinate of the
    range with the tuple of the fibers' stored-or-default payloads. -/
theorem coiterRangeShape_spec (mk : π) (fs : List (Fib Int π)) (hs : ∀ f ∈ fs, Sorted f) (s e : Int) (k : Nat) :
    coShape mk fs (pyRange s e k) = coShapeSpec mk fs (pyRange s e k) :=
  coShape_eq_spec mk fs hs _

/-- **`coiterRangeShapeRef`**: each fiber ends up exactly as after its own single-fiber
    reference traversal (hence: original plus exactly the visited absent coordinates), and the
    yields are the tuples of stored-or-default payloads. -/
theorem coiterRangeShapeRef_spec (mk : π) (fs : List (Fib Int π)) (hs : ∀ f ∈ fs, Sorted f) (cs : List Int) :
    (coShapeRefLoop mk fs cs).1 = fs.map (fun f => (shapeRefLoop mk f cs).1) ∧
    (coShapeRefLoop mk fs cs).2 = cs.map (fun c => (c, fs.map (fun f => (lookup f c).getD mk))) :=
  coShapeRefLoop_spec mk cs fs hs

/-- **lazily produced fibers can be iterated repeatedly**: the lazy fiber returned by
    `coiterRangeShapeRef` mutates its operands on the first traversal; a second traversal
    (a fresh iterator instance on the mutated operands) yields the identical list and changes
    nothing further. -/
theorem coiterRangeShapeRef_reiterable (mk : π) (fs : List (Fib Int π)) (hs : ∀ f ∈ fs, Sorted f) (cs : List Int) :
    coShapeRefLoop mk (coShapeRefLoop mk fs cs).1 cs = coShapeRefLoop mk fs cs := by
  obtain ⟨h1, h2⟩ := coShapeRefLoop_spec mk cs fs hs
  have hs2 : ∀ g ∈ (coShapeRefLoop mk fs cs).1, Sorted g := by
    rw [h1]; intro g hg
    obtain ⟨f, hf, rfl⟩ := List.mem_map.1 hg
    exact (shapeRefLoop_spec mk cs f (hs f hf)).1
  obtain ⟨k1, k2⟩ := coShapeRefLoop_spec mk cs _ hs2
  apply Prod.ext
  · rw [k1, h1, List.map_map]
    apply List.map_congr_left
    intro f hf
    show (shapeRefLoop mk (shapeRefLoop mk f cs).1 cs).1 = _
    rw [iterRangeShapeRef_reiterable mk f (hs f hf)]
  · rw [k2, h2, h1]
    apply List.map_congr_left
    intro c hc
    congr 1
    rw [List.map_map]
    apply List.map_congr_left
    intro f hf
    show (lookup (shapeRefLoop mk f cs).1 c).getD mk = _
    rw [(shapeRefLoop_spec mk cs f (hs f hf)).2.1 c]
    unfold refExpect
    cases lookup f c <;> simp [hc]

end shape

/-! ### non-vacuity -/

example : Sorted ([(0, (0 : Int)), (2, 5), (3, 0), (6, 7)] : Fib Int Int) := (sortedB_iff _).1 (by decide)
example : validStart (fun v : Int => v == 0) (some 3) (some 7) 2 [(0, 0), (2, 5), (3, 0), (6, 7)] = true := by decide
example : strip (iterRange (fun v : Int => v == 0) (some (1 : Int)) (some 6) none [(0, 4), (2, 5), (3, 0), (6, 7)])
    = [(2, 5)] := by decide
#guard (shapeRefLoop (0 : Int) [(1, 5)] (pyRange 0 3 1)) == ([(0, 0), (1, 5), (2, 0)], [(0, 0), (1, 5), (2, 0)])
#guard pyRange (-1) 6 3 == [-1, 2, 5]

end Ft
