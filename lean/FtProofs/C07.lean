/-
  C07 — every traversal mode enumerates exactly the slice of content it names.
  Property theorems only; helper lemmas live in FtProofs/Lemmas/Traverse.lean
  (namespace `Ft.C07`, model in FtModel/Traverse.lean).
-/
import FtProofs.Lemmas.Traverse
import FtProofs.C12
set_option linter.unusedSectionVars false
set_option linter.unusedSimpArgs false
set_option linter.unusedVariables false
namespace Ft
open StrictTotal Ft.C07

/-! ### occupancy, range and active-range iteration (any strictly ordered coordinate type) -/
section range
variable {κ : Type} [LT κ] [DecidableRel (α := κ) (· < ·)] [DecidableEq κ] [StrictTotal κ]
variable {π : Type}

/-- **`iterRange(start, end)`** on a sorted fiber yields precisely the non-empty elements with
    `start <= coord < end` (either bound may be `None`), in ascending order, each once. -/
theorem iterRange_spec (emp : π → Bool) (s e : Option κ) (f : Fib κ π) (hs : Sorted f) :
    strip (iterRange emp s e none f) = rangeSpec emp s e f := by
  rw [iterRange_strip, rangeLoop_eq_filter emp s e f hs]

/-- … and what it yields are the fiber's own payloads: a yield tagged with position `i` is
    the element stored at `i` (this is also the position `setSavedPos` records). -/
theorem iterRange_yields_own_payloads (emp : π → Bool) (s e : Option κ) (sp : Option Nat) (f : Fib κ π)
    (c : κ) (i : Nat) (p : π) (h : (c, (i, p)) ∈ iterRange emp s e sp f) : f[i]? = some (c, p) :=
  mem_iterRange h

/-- **a valid saved-position shortcut never changes what is yielded**: if no element before
    `start_pos` belongs to the slice, the traversal from `start_pos` yields the same elements
    (same payload objects, same positions). -/
theorem iterRange_startpos (emp : π → Bool) (s e : Option κ) (sp : Nat) (f : Fib κ π) (hs : Sorted f)
    (hv : validStart emp s e sp f = true) :
    iterRange emp s e (some sp) f = iterRange emp s e none f :=
  iterRange_startpos_eq emp s e sp f hs hv

/-- the positions a traversal saves are valid shortcuts for every later slice that begins at
    or after the coordinate yielded there (how `getSavedPos()` is meant to be used). -/
theorem iterRange_saved_valid (emp : π → Bool) (s e : Option κ) (sp : Option Nat) (f : Fib κ π) (hs : Sorted f)
    (c : κ) (i : Nat) (p : π) (h : (c, (i, p)) ∈ iterRange emp s e sp f)
    (s' : κ) (e' : Option κ) (hle : ¬ s' < c) : validStart emp (some s') e' i f = true :=
  saved_is_valid hs h s' e' hle

/-- **`iterOccupancy()`** (= `iterRange(None, None)`): the non-empty elements in storage order;
    no ordering assumption is needed because nothing is clipped. -/
theorem iterOccupancy_spec (emp : π → Bool) (f : Fib κ π) :
    strip (iterRange emp none none none f) = f.filter (fun x => !emp x.2) := by
  rw [iterRange_strip, rangeLoop_none]

/-- **`reversed(fiber)`** (and `reversed(tensor)`, which forwards to the root): every stored element,
    its own payload at its own position, in reversed storage order. -/
theorem reversed_spec (f : Fib κ π) :
    strip (reversedIter f) = f.reverse ∧
    ∀ c i p, (c, (i, p)) ∈ reversedIter f → f[i]? = some (c, p) := by
  refine ⟨?_, ?_⟩
  · unfold reversedIter strip
    rw [List.map_reverse]
    exact congrArg List.reverse (strip_withPos f)
  · intro c i p h
    exact mem_withPos (List.mem_reverse.1 h)

end range

/-- on trees: default iteration of a compressed rank presents `present` (the notion C04, C05
    and C12 are stated with). -/
theorem iterOccupancy_eq_present {ν : Type} [DecidableEq ν] (dflt : ν) (d : Nat) (f : Tree Int ν (d + 1)) :
    strip (iterRange (isEmpty dflt d) none none none (show List (Int × Tree Int ν d) from f)) = present dflt d f :=
  iterOccupancy_spec (isEmpty dflt d) _

/-! ### shape iteration -/
section shape
variable {π : Type}

/-- **`iterRangeShape(start, end, step)`** (and `iterShape` / `iterActiveShape`, which call it with
    `(0, shape)` / the active range): every coordinate of the range, in order, with the stored
    payload (and its position) or the default standing in for an absent one. -/
theorem iterRangeShape_spec (mk : π) (f : Fib Int π) (hs : Sorted f) (s e : Int) (k : Nat) :
    shapeIter mk f (pyRange s e k) = shapeSpec mk f (pyRange s e k) :=
  shapeIter_eq_spec mk hs _

/-- what "the stored payload or the default" means: the payload component is `lookup` or the
    default; a position component `some i` points at that very element, `none` means absent. -/
theorem shapeSpec_row (mk : π) (f : Fib Int π) (c : Int) :
    (lookupPos mk f c).2 = (lookup f c).getD mk ∧
    (∀ i, (lookupPos mk f c).1 = some i → f[i]? = some (c, (lookupPos mk f c).2)) ∧
    ((lookupPos mk f c).1 = none → lookup f c = none) :=
  ⟨lookupPos_snd mk f c, fun _ h => lookupPos_fst_some h, lookupPos_fst_none⟩

/-- the coordinates of the range: `start, start+step, …` below `end`, strictly ascending. -/
theorem pyRange_spec (s e : Int) (k : Nat) :
    (∀ c, c ∈ pyRange s e k ↔ 0 < k ∧ c < e ∧ ∃ n : Nat, c = s + n * k) ∧
    (pyRange s e k).Pairwise (· < ·) :=
  ⟨mem_pyRange s e k, pyRange_ascending s e k⟩

/-- a negative step: `range(s, e, -k)` is `s, s-k, …` above `e`, strictly descending (the shape
    and Ref theorems hold for any coordinate list, hence for these too). -/
theorem pyRangeDown_spec (s e : Int) (k : Nat) :
    (∀ c, c ∈ pyRangeDown s e k ↔ 0 < k ∧ e < c ∧ ∃ n : Nat, c = s - n * k) ∧
    (pyRangeDown s e k).Pairwise (· > ·) :=
  ⟨mem_pyRangeDown s e k, pyRangeDown_descending s e k⟩

/-- the extent of an undeclared rank (what `iterShape*` / the default active range of every fiber
    of that rank use): the largest non-zero estimate `last coordinate + 1` over the rank's fibers —
    so a narrow fiber of a ragged rank is iterated over the rank's full width; `none` (each fiber
    falls back to its own estimate) iff every fiber of the rank is empty. -/
theorem rankExtent_spec (sibs : List (Fib Int π)) :
    match rankExtent sibs with
    | none => ∀ g ∈ sibs, estShape g = 0
    | some n => n ≠ 0 ∧ (∀ g ∈ sibs, estShape g = 0 ∨ estShape g ≤ n) ∧ ∃ g ∈ sibs, estShape g = n := by
  have h := extFold_spec sibs (none : Option Int)
  have e : rankExtent sibs = extFold none sibs := rfl
  rw [e]
  cases hres : extFold (none : Option Int) sibs with
  | none => rw [hres] at h; exact h.2
  | some n =>
    rw [hres] at h
    rcases h.2.2 with h3 | ⟨g, hg, hgn, hn0⟩
    · cases h3
    · exact ⟨hn0, h.2.1, g, hg, hgn⟩

/-- the wrappers' ranges: `iterShape*` visits exactly `0 <= c < shape`, `iterActiveShape*`
    exactly the active range (declared, or `(0, shape)` with an unknown shape estimated from the
    last coordinate). -/
theorem wrapper_ranges (cfg : Cfg) (f : Fib Int π) (c : Int) :
    (c ∈ wrapCoords .shape cfg f ↔ 0 ≤ c ∧ c < getShape cfg f) ∧
    (c ∈ wrapCoords .active cfg f ↔ (getActive cfg f).1 ≤ c ∧ c < (getActive cfg f).2) :=
  ⟨mem_pyRange_one _ _ c, mem_pyRange_one _ _ c⟩

/-- **reference variants insert exactly the visited absent coordinates**: after
    `iterRangeShapeRef` over the coordinates `cs` the fiber is sorted, holds every original
    element unchanged, holds the default at every visited coordinate that was absent, and nothing
    else; the yields are those of the plain traversal. -/
theorem iterRangeShapeRef_inserts_exactly (mk : π) (f : Fib Int π) (hs : Sorted f) (cs : List Int) :
    Sorted (shapeRefLoop mk f cs).1 ∧
    (∀ c, lookup (shapeRefLoop mk f cs).1 c = refExpect mk f cs c) ∧
    (shapeRefLoop mk f cs).2 = cs.map (fun c => (c, (lookup f c).getD mk)) :=
  shapeRefLoop_spec mk cs f hs

/-- the executable form of that statement accepts the model's result … -/
theorem iterRangeShapeRef_specB_sound [DecidableEq π] (mk : π) (f : Fib Int π) (hs : Sorted f) (cs : List Int) :
    refSpecB mk f cs (shapeRefLoop mk f cs).1 = true := by
  obtain ⟨h1, h2, _⟩ := shapeRefLoop_spec mk cs f hs
  unfold refSpecB
  rw [Bool.and_eq_true, List.all_eq_true]
  exact ⟨(sortedB_iff _).2 h1, fun c _ => by simpa using h2 c⟩

/-- … and nothing else (so checking it on the implementation's fiber is the same test as
    comparing with the model). -/
theorem iterRangeShapeRef_specB_complete [DecidableEq π] (mk : π) (f : Fib Int π) (hs : Sorted f) (cs : List Int)
    (out : Fib Int π) (h : refSpecB mk f cs out = true) : out = (shapeRefLoop mk f cs).1 := by
  obtain ⟨h1, h2, _⟩ := shapeRefLoop_spec mk cs f hs
  unfold refSpecB at h
  rw [Bool.and_eq_true, List.all_eq_true] at h
  obtain ⟨hso, hall⟩ := h
  have hso := (sortedB_iff _).1 hso
  apply sorted_eq_of_lookup hso h1
  intro c
  rw [h2 c]
  by_cases hk : c ∈ out.map (·.1) ++ f.map (·.1) ++ cs
  · simpa using hall c hk
  · simp only [List.mem_append, List.mem_map, not_or, not_exists, not_and] at hk
    have e1 : lookup out c = none := lookup_eq_none_of_ne (fun x hx => hk.1.1 x hx)
    have e2 : lookup f c = none := lookup_eq_none_of_ne (fun x hx => hk.1.2 x hx)
    simp [refExpect, e1, e2, hk.2]

/-- **repeatable**: a second reference traversal of the same range inserts nothing more and
    yields the same (coordinate, payload) list. -/
theorem iterRangeShapeRef_reiterable (mk : π) (f : Fib Int π) (hs : Sorted f) (cs : List Int) :
    shapeRefLoop mk (shapeRefLoop mk f cs).1 cs = shapeRefLoop mk f cs := by
  obtain ⟨h1, h2, h3⟩ := shapeRefLoop_spec mk cs f hs
  have hall : ∀ c ∈ cs, lookup (shapeRefLoop mk f cs).1 c ≠ none := by
    intro c hc
    rw [h2 c]; unfold refExpect
    cases lookup f c <;> simp [hc]
  rw [shapeRefLoop_present mk cs _ h1 hall]
  apply Prod.ext
  · rfl
  · show cs.map _ = (shapeRefLoop mk f cs).2
    rw [h3]
    apply List.map_congr_left
    intro c hc
    rw [h2 c]; unfold refExpect
    cases lookup f c <;> simp [hc]

/-! ### dense co-iteration -/

/-- **`coiterRangeShape`** (and `coiterShape` / `coiterActiveShape`): every coordinate of the
    range with the tuple of the fibers' stored-or-default payloads. -/
theorem coiterRangeShape_spec (mk : π) (fs : List (Fib Int π)) (hs : ∀ f ∈ fs, Sorted f) (s e : Int) (k : Nat) :
    coShape mk fs (pyRange s e k) = coShapeSpec mk fs (pyRange s e k) :=
  coShape_eq_spec mk fs hs _

/-- **`coiterRangeShapeRef`**: each fiber ends up exactly as after its own single-fiber
    reference traversal (hence: original plus exactly the visited absent coordinates), and the
    yields are the tuples of stored-or-default payloads. -/
theorem coiterRangeShapeRef_spec (mk : π) (fs : List (Fib Int π)) (hs : ∀ f ∈ fs, Sorted f) (cs : List Int) :
    (coShapeRefLoop mk fs cs).1 = fs.map (fun f => (shapeRefLoop mk f cs).1) ∧
    (coShapeRefLoop mk fs cs).2 = cs.map (fun c => (c, fs.map (fun f => (lookup f c).getD mk))) :=
  coShapeRefLoop_spec mk cs fs hs

/-- **lazily produced fibers can be iterated repeatedly**: the lazy fiber returned by
    `coiterRangeShapeRef` mutates its operands on the first traversal; a second traversal
    (a fresh iterator instance on the mutated operands) yields the identical list and changes
    nothing further. -/
theorem coiterRangeShapeRef_reiterable (mk : π) (fs : List (Fib Int π)) (hs : ∀ f ∈ fs, Sorted f) (cs : List Int) :
    coShapeRefLoop mk (coShapeRefLoop mk fs cs).1 cs = coShapeRefLoop mk fs cs := by
  obtain ⟨h1, h2⟩ := coShapeRefLoop_spec mk cs fs hs
  have hs2 : ∀ g ∈ (coShapeRefLoop mk fs cs).1, Sorted g := by
    rw [h1]; intro g hg
    obtain ⟨f, hf, rfl⟩ := List.mem_map.1 hg
    exact (shapeRefLoop_spec mk cs f (hs f hf)).1
  obtain ⟨k1, k2⟩ := coShapeRefLoop_spec mk cs _ hs2
  apply Prod.ext
  · rw [k1, h1, List.map_map]
    apply List.map_congr_left
    intro f hf
    show (shapeRefLoop mk (shapeRefLoop mk f cs).1 cs).1 = _
    rw [iterRangeShapeRef_reiterable mk f (hs f hf)]
  · rw [k2, h2, h1]
    apply List.map_congr_left
    intro c hc
    congr 1
    rw [List.map_map]
    apply List.map_congr_left
    intro f hf
    show (lookup (shapeRefLoop mk f cs).1 c).getD mk = _
    rw [(shapeRefLoop_spec mk cs f (hs f hf)).2.1 c]
    unfold refExpect
    cases lookup f c <;> simp [hc]

end shape

/-! ### `__iter__`: default iteration follows the rank's format -/
section dispatch
variable {π : Type}

/-- **`__iter__`** on a compressed rank ("C") is occupancy iteration — the non-empty elements,
    each with its storage position; on an uncompressed rank ("U") it is dense iteration of the
    active range — every coordinate with the stored payload or the default.  A valid shortcut
    (only empty elements before it) changes nothing; "U" ignores the shortcut altogether. -/
theorem iter_dispatch (emp : π → Bool) (mk : π) (cfg : Cfg) (sp : Option Nat) (f : Fib Int π) (hs : Sorted f)
    (hv : ∀ i, sp = some i → cfg.fmt = .U ∨ validStart emp none none i f = true) :
    iterDefault emp mk cfg sp f = iterDefaultSpec emp mk cfg f ∧
    iterDefaultSpec emp mk cfg f =
      (match cfg.fmt with
       | .C => stored ((withPos f).filter (fun x => !emp x.2.2))
       | .U => shapeSpec mk f (pyRange (getActive cfg f).1 (getActive cfg f).2 1)) := by
  refine ⟨?_, by unfold iterDefaultSpec; cases cfg.fmt <;> rfl⟩
  cases hf : cfg.fmt with
  | U => exact iterDefault_U emp mk cfg hf hs sp
  | C =>
    cases sp with
    | none => exact iterDefault_C emp mk cfg hf f
    | some i =>
      rcases hv i rfl with h | h
      · rw [hf] at h; cases h
      · exact iterDefault_C_sp emp mk cfg hf hs i h

/-- the two modes agree on what is there: the non-empty part of the dense traversal of `[a, b)`
    is the occupancy traversal clipped to `[a, b)` (same payload objects, same positions). -/
theorem shape_nonempty_is_range (emp : π → Bool) (mk : π) (hmk : emp mk = true) (f : Fib Int π) (hs : Sorted f)
    (a b : Int) :
    (shapeSpec mk f (pyRange a b 1)).filter (fun x => !emp x.2.2) =
      stored (rangeSpec (fun ip : Nat × π => emp ip.2) (some a) (some b) (withPos f)) := by
  rw [shape_nonempty_eq_range emp mk hmk hs]
  congr 1
  apply filter_congr'
  intro x _
  simp only [inSlice, geStart, geEnd, Bool.not_not]
  by_cases h1 : x.1 < a
  · have : ¬ a ≤ x.1 := by omega
    simp [h1, this]
  · have : a ≤ x.1 := by omega
    simp [h1, this]

end dispatch

/-! ### lazy fibers: projection, pruning, materialisation -/
section lazy
variable {π : Type}

/-- **what a projection has to deliver**: `r` is an element of `projectSpec` iff it is one of the
    fiber's stored non-empty elements (`f[i] = (c, p)`, the same payload object) under the
    transformed coordinate `k*c + m`, the latter lying in the interval (and in the range the
    result is iterated with); and the list is strictly ascending, for increasing (`k > 0`) and
    decreasing (`k < 0`) transforms alike. -/
theorem projectSpec_meaning (emp : π → Bool) (k m : Int) (hk : k ≠ 0) (iv : Option (Int × Int)) (os oe : Option Int)
    (f : Fib Int π) (hs : Sorted f) :
    Sorted (projectSpec emp k m iv os oe f) ∧
    ∀ r, r ∈ projectSpec emp k m iv os oe f ↔
      ∃ c i p, f[i]? = some (c, p) ∧ emp p = false ∧ inIv iv (k * c + m) = true ∧
        geStart os (k * c + m) = true ∧ geEnd oe (k * c + m) = false ∧ r = (k * c + m, (some i, p)) :=
  ⟨projectSpec_sorted emp hk m iv os oe hs, mem_projectSpec emp k m iv os oe f⟩

/-- **`project`** (affine `c ↦ k*c + m`, `k > 0` or `k < 0`, optional interval, optional shortcut;
    the lazy result iterated by `__iter__` or `iterRange(os, oe)`) delivers `projectSpec`, for
    every sorted fiber (any occupancy, explicit defaults, any default value).  A shortcut is
    claimed for increasing transforms (the reversed path asserts on any `start_pos`) and must be
    valid (`projValidStart`: with an interval, the element before it projects below the interval;
    without one, only empty elements are skipped) — a valid shortcut passes the code's own
    assertion and never changes what is yielded.  An uncompressed rank holds no content outside
    its active range. -/
theorem project_startpos_spec (emp : π → Bool) (mk : π) (hmk : emp mk = true) (cfg : Cfg) (k m : Int) (hk : k ≠ 0)
    (iv : Option (Int × Int)) (sp : Option Nat) (os oe : Option Int) (f : Fib Int π) (hs : Sorted f)
    (hU : cfg.fmt = .C ∨ withinActive emp cfg f = true)
    (hsp : ∀ i, sp = some i → 0 < k ∧ projValidStart emp k m iv i f = true) :
    project emp mk cfg k m iv sp os oe f = .ok (projectSpec emp k m iv os oe f) := by
  have h3 : projStartOk k m iv sp f = true := by
    cases sp with
    | none => rfl
    | some i => exact projStartOk_of_valid (hsp i rfl).2
  by_cases hneg : k < 0
  · cases sp with
    | some i => have := (hsp i rfl).1; omega
    | none => exact project_rev emp mk cfg hneg m iv os oe hs
  · have hpos : 0 < k := by omega
    cases hf : cfg.fmt with
    | U =>
      have hin : withinActive emp cfg f = true := by
        rcases hU with h | h
        · rw [hf] at h; cases h
        · exact h
      exact project_fwd_U emp mk hmk cfg hf hpos m iv sp os oe hs h3 hin
    | C =>
      cases sp with
      | none => exact project_fwd_C emp mk cfg hf hpos m iv os oe hs
      | some i => exact project_fwd_C_sp emp mk cfg hf hpos m iv i os oe hs h3 (hsp i rfl).2

/-- without a shortcut: **`project` = `projectSpec`** for every sorted fiber, every increasing or
    decreasing affine transform, every interval and every range the result is iterated with. -/
theorem project_spec (emp : π → Bool) (mk : π) (hmk : emp mk = true) (cfg : Cfg) (k m : Int) (hk : k ≠ 0)
    (iv : Option (Int × Int)) (os oe : Option Int) (f : Fib Int π) (hs : Sorted f)
    (hU : cfg.fmt = .C ∨ withinActive emp cfg f = true) :
    project emp mk cfg k m iv none os oe f = .ok (projectSpec emp k m iv os oe f) :=
  project_startpos_spec emp mk hmk cfg k m hk iv none os oe f hs hU (fun i h => by cases h)

/-- **lazy fibers as operands**: projecting (increasing transform) or pruning a lazy fiber that
    presents the ascending list `src` — e.g. the result of an earlier `project` / `prune` —
    delivers the non-empty elements of `src` under the transformed coordinates inside the
    interval, resp. those the predicate accepts (rank = index among the non-empty ones). -/
theorem project_of_lazy_spec {ρ : Type} (emp : ρ → Bool) (k : Int) (hk : 0 < k) (m : Int) (iv : Option (Int × Int))
    (src : Fib Int ρ) (hs : Sorted src) :
    projectOfLazy emp k m iv none src =
      .ok ((transF k m (src.filter (fun x => !emp x.2))).filter (fun x => inIv iv x.1)) :=
  projectOfLazy_eq emp hk m iv hs

theorem prune_of_lazy_spec {ρ : Type} (emp : ρ → Bool) (pred : Nat → Int → ρ → Bool) (src : Fib Int ρ) :
    pruneOfLazy emp pred none src =
      .ok ((((src.filter (fun x => !emp x.2)).zipIdx).filter (fun x => pred x.2 x.1.1 x.1.2)).map (·.1)) :=
  pruneOfLazy_eq emp pred src

/-- **`prune`**: the lazy result delivers the non-empty elements of the default traversal that
    `trans_fn(i, c, p)` accepts (`i` = rank in that traversal), clipped to the range the result
    is iterated with; a legal valid shortcut changes nothing. (A `None` answer is treated like
    `False` — the traversal does not stop, contrary to the docstring.) -/
theorem prune_spec (emp : π → Bool) (mk : π) (cfg : Cfg) (pred : Nat → Int → π → Bool) (sp : Option Nat)
    (os oe : Option Int) (f : Fib Int π) (hs : Sorted f) (hl : startLegal sp f = true)
    (hv : ∀ i, sp = some i → cfg.fmt = .U ∨ validStart emp none none i f = true) :
    prune emp mk cfg pred sp os oe f = .ok (pruneSpec emp mk cfg pred os oe f) :=
  prune_eq_spec emp mk cfg pred sp os oe hs hl (iter_dispatch emp mk cfg sp f hs hv).1

/-- pruning keeps order and takes nothing but what the default traversal presents -/
theorem pruneSpec_sublist (emp : π → Bool) (mk : π) (cfg : Cfg) (pred : Nat → Int → π → Bool) (os oe : Option Int)
    (f : Fib Int π) : (pruneSpec emp mk cfg pred os oe f).Sublist (iterDefaultSpec emp mk cfg f) := by
  unfold pruneSpec
  have h1 : ((iterDefaultSpec emp mk cfg f).zipIdx.filter
      (fun x => !emp x.1.2.2 && pred x.2 x.1.1 x.1.2.2 && geStart os x.1.1 && !geEnd oe x.1.1)).Sublist
      (iterDefaultSpec emp mk cfg f).zipIdx := List.filter_sublist
  have h2 := h1.map (·.1)
  rwa [List.zipIdx_map_fst] at h2

end lazy

/-- **lazily produced fibers materialise to equal eager fibers**: `Fiber.fromLazy` of a lazy
    fiber presenting the ascending list `ys` is the recursive non-empty copy of the eager fiber
    `ys`, hence `==` to it (C12's equality). -/
theorem fromLazy_eq {ν : Type} [DecidableEq ν] (dflt : ν) (d : Nat) (ys : Tree Int ν (d + 1)) (hw : WF (d + 1) ys) :
    fromLazy dflt d (show List (Int × Tree Int ν d) from ys) = nonEmpty dflt (d + 1) ys ∧
    fiberEq dflt dflt (d + 1) (fromLazy dflt d (show List (Int × Tree Int ν d) from ys)) ys = true := by
  have h := fromLazy_eq_nonEmpty dflt d (show List (Int × Tree Int ν d) from ys) hw.sorted
  refine ⟨h, ?_⟩
  rw [h]
  exact nonEmpty_eq dflt d ys hw

/-! ### non-vacuity -/

example : Sorted ([(0, (0 : Int)), (2, 5), (3, 0), (6, 7)] : Fib Int Int) := (sortedB_iff _).1 (by decide)
example : validStart (fun v : Int => v == 0) (some 3) (some 7) 2 [(0, 0), (2, 5), (3, 0), (6, 7)] = true := by decide
example : strip (iterRange (fun v : Int => v == 0) (some (1 : Int)) (some 6) none [(0, 4), (2, 5), (3, 0), (6, 7)])
    = [(2, 5)] := by decide
#guard (shapeRefLoop (0 : Int) [(1, 5)] (pyRange 0 3 1)) == ([(0, 0), (1, 5), (2, 0)], [(0, 0), (1, 5), (2, 0)])
#guard pyRange (-1) 6 3 == [-1, 2, 5]
#guard pyRangeI 5 (-1) (-2) == [5, 3, 1] && pyRangeI 0 3 (-1) == []
#guard rankExtent [[(1, (5 : Int))], [], [(0, 6), (4, 7)]] == some 5 && rankExtent [([] : Fib Int Int)] == none

/-! ### the classes repaired in /repo now meet `projectSpec`; non-vacuity of the hypotheses -/

private def c07_emp (dflt : Int) : Int → Bool := fun v => v == dflt

/-- `Fiber([0,2],[5,1]).project(lambda c: c-2, interval=(-1,1), start_pos=1)`: a valid shortcut
    (the skipped element projects to -2 < -1), formerly rejected by a source-space assertion -/
example : projValidStart (c07_emp 0) 1 (-2) (some (-1, 1)) 1 [(0, (5 : Int)), (2, 1)] = true := by decide
example : project (c07_emp 0) 0 {} 1 (-2) (some (-1, 1)) (some 1) none none [(0, 5), (2, 1)]
    = .ok [(0, (some 1, 1))] := by rfl
/-- … and the dual, an invalid shortcut the old assertion let through, is rejected:
    `Fiber([1,3],[5,6]).project(lambda c: c+10, interval=(11,14), start_pos=1)` -/
example : project (c07_emp 0) 0 {} 1 10 (some (11, 14)) (some 1) none none [(1, 5), (3, 6)]
    = .error .assertion := by rfl
/-- reversed transform with a non-zero default, and a fiber storing only an explicit default -/
example : project (c07_emp 7) 7 {} (-1) (-2) none none none none [(2, 0)] = .ok [(-4, (some 0, 0))] := by rfl
example : project (c07_emp 0) 0 {} 1 (-2) none none none none [(2, 0)] = .ok [] := by rfl
/-- the hypotheses of `project_startpos_spec` are satisfiable by non-trivial values (decreasing
    transform with interval; increasing transform with a positive valid shortcut) -/
example : project (c07_emp 0) 0 {} (-2) 10 (some (1, 9)) none none none [(0, 0), (1, 5), (3, 6), (5, 7)]
    = .ok [(4, (some 2, 6)), (8, (some 1, 5))] := by rfl
example : projValidStart (c07_emp 0) 1 10 (some (12, 20)) 2 [(0, (0 : Int)), (1, 5), (3, 6), (5, 7)] = true := by decide
example : project (c07_emp 0) 0 {} 1 10 (some (12, 20)) (some 2) none none [(0, 0), (1, 5), (3, 6), (5, 7)]
    = .ok [(13, (some 2, 6)), (15, (some 3, 7))] := by rfl

/-- prune: a legal, valid shortcut over an explicit default; an uncompressed rank within its active range -/
example : startLegal (some 1) [(0, (0 : Int)), (2, 5), (4, 6)] = true ∧
    validStart (c07_emp 0) none none 1 [(0, (0 : Int)), (2, 5), (4, 6)] = true := by decide
example : withinActive (c07_emp 0) { fmt := .U, shape := some 4 } [(0, (0 : Int)), (1, 5), (3, 6)] = true := by decide
#guard (match prune (c07_emp 0) 0 { fmt := .U, shape := some 4 } (fun i _ _ => i % 2 == 1) none none none
          [(0, 0), (1, 5), (3, 6)] with | .ok l => l == [(1, (some 1, 5)), (3, (some 2, 6))] | _ => false)
#guard (match project (c07_emp 0) 0 { fmt := .U, shape := some 4 } 2 1 (some (2, 8)) none none none
          [(0, 0), (1, 5), (3, 6)] with | .ok l => l == [(3, (some 1, 5)), (7, (some 2, 6))] | _ => false)
/-- fromLazy: a well-formed depth-2 list of yields with an empty sub-fiber and an explicit default -/
private def c07_ys : Tree Int Int 2 := [(1, [(0, (0 : Int)), (2, (5 : Int))]), (4, [])]
private def c07_mat : Tree Int Int 2 := [(1, [(2, (5 : Int))])]
example : WF 2 c07_ys := (wfB_iff 2 c07_ys).1 (by decide)
#guard fiberEq 0 0 2 (fromLazy (0 : Int) 1 c07_ys) c07_mat && fiberEq 0 0 2 (fromLazy (0 : Int) 1 c07_ys) c07_ys
#guard canonicalB 0 2 (fromLazy (0 : Int) 1 c07_ys)

end Ft
