/-
  C09 — rank transforms move every point to its image and nothing else.
  Property theorems only; helper lemmas live in FtProofs/Lemmas/Transform.lean.

  Reading guide.  `swizzle`, `swapFiber`, `mergeLv` (`_mergeRanksHelper`), `unflatLv`
  (`unflattenRanks`), `atDepth` (`updatePayloads` descent of every `…Below` form) in
  FtModel/Transform.lean mirror the Python loops; `none` = the implementation raises.
  `content dflt d t` is the tensor as a map point → value (ascending list of the non-default
  leaves with their coordinate lists).  The fiber-level functions are generic in the coordinate
  type; tuple coordinates are `Coord = List Int` (an integer coordinate is a singleton).
  `z` is `Payload(0)`, the default the implementation falls back to for fibers it creates itself:
  the theorems that need it assume `z = dflt` (tensor default 0) — the other case is an open
  finding, see `obligations/C09.json`.
-/
import FtProofs.Lemmas.Transform
import FtProofs.Lemmas.SplitUniform
import FtProofs.Lemmas.SplitSpec
set_option linter.unusedSectionVars false
set_option linter.unusedSimpArgs false
set_option linter.unusedVariables false
namespace Ft
open StrictTotal C09

section generic
variable {κ : Type} [LT κ] [DecidableRel (α := κ) (· < ·)] [DecidableEq κ] [StrictTotal κ]
variable {ν : Type} [DecidableEq ν]

/-! ### swizzle -/

/-- **Swizzle.**  For every well-formed tensor (any depth `r + swiz_len`, explicit defaults and
    empty sub-fibers allowed) and every permutation `g` of the top `k+1 = swiz_len` ranks, the DFS
    extraction / sort / rebuild of `Tensor.swizzleRanks` yields a well-formed tensor whose content
    is the original's with every point's coordinates permuted by `g`, in ascending order. -/
theorem swizzle_content (dflt : ν) (r k : Nat) (g : List Nat) (hg : guideOkB (k + 1) g = true)
    (t : Tree κ ν (r + (k + 1))) (hw : WF (r + (k + 1)) t) :
    WF (r + (k + 1)) (swizzle r k g t) ∧
    content dflt (r + (k + 1)) (swizzle r k g t) = swizzleSpec g (content dflt (r + (k + 1)) t) :=
  swizzle_wf_content dflt r k g ((guideOkB_iff _ _).1 hg) t hw

example : guideOkB 3 [2, 0, 1] = true := by decide

/-- **Swizzle round trip.**  Swizzling with `g` and then with a permutation `g'` that undoes it
    restores the content (an equal tensor; empty sub-fibers of the swizzled ranks are not
    re-created). -/
theorem swizzle_inverse (dflt : ν) (r k : Nat) (g g' : List Nat)
    (hg : guideOkB (k + 1) g = true) (hg' : guideOkB (k + 1) g' = true)
    (hinv : ∀ p : List κ, p.length = k + 1 → permute g' (permute g p) = p)
    (t : Tree κ ν (r + (k + 1))) (hw : WF (r + (k + 1)) t) :
    WF (r + (k + 1)) (swizzle r k g' (swizzle r k g t)) ∧
    content dflt (r + (k + 1)) (swizzle r k g' (swizzle r k g t)) = content dflt (r + (k + 1)) t := by
  have G := (guideOkB_iff _ _).1 hg
  have G' := (guideOkB_iff _ _).1 hg'
  obtain ⟨w1, c1⟩ := swizzle_wf_content dflt r k g G t hw
  obtain ⟨w2, c2⟩ := swizzle_wf_content dflt r k g' G' (swizzle r k g t) w1
  refine ⟨w2, ?_⟩
  rw [c2, c1]
  unfold swizzleSpec
  symm
  apply eq_isort_of_sorted_perm (content_sorted dflt _ t hw)
  have hp := isort_perm (κ := List κ) ((content dflt (r + (k + 1)) t).map (fun pv => (permPoint g pv.1, pv.2)))
  refine List.Perm.trans ?_ (hp.map _).symm
  rw [List.map_map]
  have : (content dflt (r + (k + 1)) t).map
      ((fun pv => (permPoint g' pv.1, pv.2)) ∘ (fun pv => (permPoint g pv.1, pv.2))) =
      content dflt (r + (k + 1)) t := by
    conv => rhs; rw [← List.map_id (content dflt (r + (k + 1)) t)]
    apply List.map_congr_left
    intro pv hpv
    obtain ⟨p, v⟩ := pv
    have hl : p.length = r + (k + 1) := content_point_length dflt _ t (p, v) hpv
    have htl : (p.take (k + 1)).length = k + 1 := by
      rw [List.length_take]; omega
    have hpl : (permute g (p.take (k + 1))).length = k + 1 := by
      rw [permute_length (fun i hi => by rw [htl]; exact G.2.1 i hi), G.1]
    show (permPoint g' (permPoint g p), v) = (p, v)
    have e1 : permPoint g p = permute g (p.take (k + 1)) ++ p.drop (k + 1) := by
      conv => lhs; rw [← List.take_append_drop (k + 1) p]
      exact permPoint_append G htl
    rw [e1, permPoint_append G' hpl, hinv _ htl, List.take_append_drop]
  rw [this]

/-! ### flatten / merge without collisions -/

/-- **Flatten** (any number of levels, payloads at any depth `r` below, any way of combining
    coordinates): whenever the new coordinates come out ascending at every level (`monoLvB`,
    decidable; it holds for the tuple / pair styles, see `flatten_tuple_mono`, and for the linear
    style on coordinates inside the declared shape), `_mergeRanksHelper` succeeds, never calls the
    merge function, returns a well-formed fiber, and every point has moved to its image
    `joinTop` — its first `l+2` coordinates combined, everything else untouched, order preserved.
    Stated for the data path with the tensor's own default, which is the code for every default and
    every style since /repo COMMIT:C14-06 (before: only for tensor default 0, non-linear styles). -/
theorem flatten_content_partial (comb : Nat → κ → κ → κ) (mf : List ν → Option ν) (dflt : ν) (r l : Nat)
    (f : Tree κ ν (r + 2 + l)) (hw : WF (r + 2 + l) f) (hm : monoLvB comb dflt r l f = true) :
    mergeLv false dflt comb mf dflt r l f = some (flatLv comb dflt r l f) ∧
    content dflt (r + 1) (flatLv comb dflt r l f) =
      (content dflt (r + 2 + l) f).map (fun pv => (joinTop comb l pv.1, pv.2)) ∧
    Sorted (show List (κ × Tree κ ν r) from flatLv comb dflt r l f) :=
  ⟨mergeLv_mono comb mf dflt r l f ((monoLvB_iff comb dflt r l f).1 hm),
   content_flatLv comb dflt r l f,
   ((monoLvB_iff comb dflt r l f).1 hm).sorted⟩

/-! ### merge with collisions (down to the leaves) -/

/-- **Merge reduces colliding points with the merge function.**  For ANY two-rank tree (nothing
    assumed: any coordinates, explicit defaults, empty sub-fibers), any way `comb` of combining
    the two coordinates (absolute, relative, linear, tuple …) and any `merge_fn`:
    `_mergeRanksHelper(levels=1)` returns the fiber whose coordinates are exactly the new
    coordinates of the presented (non-default) points, ascending, each once (`G`), and whose
    payload at a coordinate is the value itself when a single point got it, otherwise `merge_fn`
    of the colliding values in traversal order (`foldVals`); it raises iff `merge_fn` does
    (`flattenRanks`: iff there is a collision). -/
theorem merge_leaf_spec (comb : κ → κ → κ) (mf : List ν → Option ν) (z dflt : ν) (f : Tree κ ν 2) :
    ∃ G : Fib κ (List ν), Sorted G ∧
      (∀ row ∈ G, row.2 = valsAt (leafPairs comb dflt f) row.1 ∧ row.2 ≠ []) ∧
      (∀ c, HasKey G c ↔ HasKey (leafPairs comb dflt f) c) ∧
      merge2 comb mf z dflt 0 f =
        (mapM? (fun row => (foldVals mf row.2).map (fun v => (row.1, v))) G).map
          (fun l => show Tree κ ν 1 from l) := by
  -- the groups the implementation builds (payloads tagged with their default)
  have hrows : pairsOf comb ((show List (κ × Tree κ ν 1) from f).map
      (fun e => (e.1, tagWith dflt (present dflt 0 e.2)))) = tagWith dflt (leafPairs comb dflt f) := by
    have e := pairsOf_map_tag comb dflt ((show List (κ × Tree κ ν 1) from f).map
      (fun e => (e.1, (show List (κ × ν) from present dflt 0 e.2))))
    rw [List.map_map] at e
    exact e
  obtain ⟨hs, hr, hk⟩ := gather_spec comb ((show List (κ × Tree κ ν 1) from f).map
      (fun e => (e.1, tagWith dflt (present dflt 0 e.2))))
  rw [hrows] at hr hk
  refine ⟨(gather comb ((show List (κ × Tree κ ν 1) from f).map
      (fun e => (e.1, tagWith dflt (present dflt 0 e.2))))).map
        (fun row => (row.1, row.2.map (fun t => (show ν from t.1)))), ?_, ?_, ?_, ?_⟩
  · unfold Sorted
    rw [List.pairwise_map]
    exact hs
  · intro row hrow
    obtain ⟨row', hrow', rfl⟩ := List.mem_map.1 hrow
    have := hr row' hrow'
    have key : row'.2.map (fun t => (show ν from t.1)) = valsAt (leafPairs comb dflt f) row'.1 := by
      refine (congrArg (List.map (fun t : Tree κ ν 0 × ν => (show ν from t.1))) this.1).trans ?_
      refine (congrArg (List.map (fun t : ν × ν => t.1))
        (valsAt_tagWith dflt (leafPairs comb dflt f) row'.1)).trans ?_
      rw [List.map_map]
      conv => rhs; rw [← List.map_id (valsAt (leafPairs comb dflt f) row'.1)]
      apply List.map_congr_left
      intro x _; rfl
    refine ⟨key, ?_⟩
    show row'.2.map _ ≠ []
    intro h
    exact this.2 (List.map_eq_nil_iff.1 h)
  · intro c
    have h1 : HasKey ((gather comb ((show List (κ × Tree κ ν 1) from f).map
        (fun e => (e.1, tagWith dflt (present dflt 0 e.2))))).map
          (fun row => (row.1, row.2.map (fun t => (show ν from t.1))))) c ↔
        HasKey (gather comb ((show List (κ × Tree κ ν 1) from f).map
          (fun e => (e.1, tagWith dflt (present dflt 0 e.2))))) c := by
      constructor
      · rintro ⟨row, hrow, rfl⟩
        obtain ⟨row', hrow', rfl⟩ := List.mem_map.1 hrow
        exact ⟨row', hrow', rfl⟩
      · rintro ⟨row', hrow', rfl⟩
        exact ⟨_, List.mem_map.2 ⟨row', hrow', rfl⟩, rfl⟩
    have h2 : HasKey (tagWith dflt (leafPairs comb dflt f)) c ↔ HasKey (leafPairs comb dflt f) c := by
      unfold tagWith
      constructor
      · rintro ⟨x, hx, rfl⟩
        obtain ⟨y, hy, rfl⟩ := List.mem_map.1 hx
        exact ⟨y, hy, rfl⟩
      · rintro ⟨y, hy, rfl⟩
        exact ⟨_, List.mem_map.2 ⟨y, hy, rfl⟩, rfl⟩
    exact h1.trans ((hk c).trans h2)
  · have hfinal : ∀ a ∈ gather comb ((show List (κ × Tree κ ν 1) from f).map
          (fun e => (e.1, tagWith dflt (present dflt 0 e.2)))),
        ((mergeTrees mf z 0 a.2).map (fun t => (a.1, t))).map
            (fun e : κ × (Tree κ ν 0 × ν) => ((e.1, (show ν from e.2.1)) : κ × ν)) =
          (foldVals mf (a.2.map (fun t => (show ν from t.1)))).map (fun v => (a.1, v)) := by
      intro a ha
      have hv : a.2 = (valsAt (leafPairs comb dflt f) a.1).map (fun v => ((show Tree κ ν 0 from v), dflt)) :=
        (hr a ha).1.trans (valsAt_tagWith dflt (leafPairs comb dflt f) a.1)
      obtain ⟨c, l⟩ := a
      simp only [] at hv
      subst hv
      have hl := mergeTrees_leaf (κ := κ) mf z dflt (valsAt (leafPairs comb dflt f) c)
      have hm : (List.map (fun v => ((show Tree κ ν 0 from v), dflt)) (valsAt (leafPairs comb dflt f) c)).map
          (fun t : Tree κ ν 0 × ν => (show ν from t.1)) = valsAt (leafPairs comb dflt f) c := by
        rw [List.map_map]
        conv => rhs; rw [← List.map_id (valsAt (leafPairs comb dflt f) c)]
        apply List.map_congr_left
        intro x _; rfl
      have e1 : foldVals mf ((List.map (fun v => ((show Tree κ ν 0 from v), dflt)) (valsAt (leafPairs comb dflt f) c)).map
          (fun t : Tree κ ν 0 × ν => (show ν from t.1))) = foldVals mf (valsAt (leafPairs comb dflt f) c) :=
        congrArg (foldVals mf) hm
      refine Eq.trans ?_ (congrArg (Option.map (fun v => (c, v))) (hl.trans e1.symm))
      show Option.map (fun e : κ × (Tree κ ν 0 × ν) => ((e.1, (show ν from e.2.1)) : κ × ν))
          (Option.map (fun t => (c, t)) (mergeTrees (κ := κ) mf z 0
            (List.map (fun v => ((show Tree κ ν 0 from v), dflt)) (valsAt (leafPairs comb dflt f) c)))) =
        Option.map (fun v => (c, v)) (Option.map (fun t : Tree κ ν 0 × ν => (show ν from t.1))
          (mergeTrees (κ := κ) mf z 0
            (List.map (fun v => ((show Tree κ ν 0 from v), dflt)) (valsAt (leafPairs comb dflt f) c))))
      generalize mergeTrees (κ := κ) mf z 0
        (List.map (fun v => ((show Tree κ ν 0 from v), dflt)) (valsAt (leafPairs comb dflt f) c)) = o
      cases o <;> rfl
    unfold merge2 merge2T mergeRows
    rw [mapM?_map_in, ← mapM?_congr _ hfinal, ← mapM?_map_out]
    cases mapM? (fun row => (mergeTrees mf z 0 row.2).map (fun t => (row.1, t)))
      (gather comb ((show List (κ × Tree κ ν 1) from f).map
        (fun e => (e.1, tagWith dflt (present dflt 0 e.2))))) <;> rfl

/-! ### unflatten -/

/-- **Unflatten** (any number of levels): on a well-formed fiber (with or without elements) whose
    tuple coordinates are ordered lexicographically by (first component, rest) — `LexSplit`,
    true for Python tuples, see `lexSplit_coord` — `unflattenRanks` succeeds, returns a
    well-formed fiber and every point has moved to its image `splitTop` (first coordinate split
    into `l+2` coordinates), order preserved. -/
theorem unflatten_content (dflt : ν) (hd tl : κ → κ) (hH : LexSplit hd tl) (r l : Nat)
    (f : Tree κ ν (r + 1)) (hw : WF (r + 1) f) :
    ∃ g, unflatLv hd tl r l f = some g ∧ WF (r + 2 + l) g ∧
      content dflt (r + 2 + l) g =
        (content dflt (r + 1) f).map (fun pv => (splitTop hd tl l pv.1, pv.2)) :=
  unflatLv_spec dflt hd tl hH r l f hw

/-- a fiber without elements is unflattened to an empty fiber (`if len(self.coords) == 0`,
    /repo 97d752a; before that fix `self.coords[0]` raised `IndexError`, which made
    `Tensor.unflattenRanks(depth ≥ 1)` fail on a tree with an empty sub-fiber) -/
theorem unflatten_empty (dflt : ν) (hd tl : κ → κ) (r l : Nat) :
    ∃ g, unflatLv (ν := ν) hd tl r l (show Tree κ ν (r + 1) from ([] : List (κ × Tree κ ν r))) = some g ∧
      WF (r + 2 + l) g ∧ content dflt (r + 2 + l) g = [] :=
  unflatLv_nil dflt hd tl r l

/-! ### every depth -/

/-- **Every depth.**  What a fiber-level transform `g` does to every fiber at depth `k` (succeeds,
    well-formed result, content = the `φ`-image) the `…Below` / `depth=k` form does to the whole
    tree, with `φ` applied below the first `k` coordinates — for every `k`, every tree, empty
    sub-fibers and explicit defaults included (`updatePayloads` visits every stored payload at
    its own position). -/
theorem transform_at_depth (dflt dflt' : ν) (a b : Nat) (g : Tree κ ν a → Option (Tree κ ν b))
    (φ : List κ → List κ) (k : Nat) (t : Tree κ ν (a + k)) (hw : WF (a + k) t)
    (h : ∀ s ∈ subsAt a k t, WF a s → ∃ s', g s = some s' ∧ WF b s' ∧
        content dflt' b s' = (content dflt a s).map (fun pv => (φ pv.1, pv.2))) :
    ∃ t', atDepth g k t = some t' ∧ WF (b + k) t' ∧
      content dflt' (b + k) t' = (content dflt (a + k) t).map (fun pv => (liftN φ k pv.1, pv.2)) :=
  atDepth_spec_eq dflt dflt' a b g φ k t hw h

/-- the same for transforms that reorder (swap): content up to permutation, hence — the result
    being well-formed — the ascending arrangement of the images -/
theorem transform_at_depth_sorted (dflt dflt' : ν) (a b : Nat) (g : Tree κ ν a → Option (Tree κ ν b))
    (φ : List κ → List κ) (k : Nat) (t : Tree κ ν (a + k)) (hw : WF (a + k) t)
    (h : ∀ s ∈ subsAt a k t, WF a s → ∃ s', g s = some s' ∧ WF b s' ∧
        (content dflt' b s').Perm ((content dflt a s).map (fun pv => (φ pv.1, pv.2)))) :
    ∃ t', atDepth g k t = some t' ∧ WF (b + k) t' ∧
      content dflt' (b + k) t' =
        isort (κ := List κ) ((content dflt (a + k) t).map (fun pv => (liftN φ k pv.1, pv.2))) := by
  obtain ⟨t', h1, h2, h3⟩ := atDepth_spec_perm dflt dflt' a b g φ k t hw h
  exact ⟨t', h1, h2, content_eq_isort_of_perm h2 h3⟩

end generic

/-! ### tuple coordinates: the tuple / pair styles, unflatten ∘ flatten, swap -/

section tuples
variable {α : Type} [LT α] [DecidableRel (α := α) (· < ·)] [DecidableEq α] [StrictTotal α]
variable {ν : Type} [DecidableEq ν]

/-- Python's tuple order splits lexicographically into (first component, rest) -/
theorem lexSplit_coord : LexSplit (κ := List α) (fun c => c.take 1) (fun c => c.drop 1) :=
  lexSplit_list

/-- **The tuple and pair styles never collide**: on every well-formed tree whose ranks hold
    coordinates of uniform arity (`UpperAr`; arity 1 = integer coordinates) the hypothesis of
    `flatten_content_partial` holds, for any number of levels and any payload depth. -/
theorem flatten_tuple_mono (dflt : ν) (r l : Nat) (ar : List Nat) (f : Tree (List α) ν (r + 2 + l))
    (hw : WF (r + 2 + l) f) (har : upperArB r l ar f = true) :
    monoLvB (tupleComb (α := α)) dflt r l f = true :=
  (monoLvB_iff _ dflt r l f).2 (monoLv_tuple dflt r l ar f hw ((upperArB_iff r l ar f).1 har))

/-- **Unflatten inverts flatten** (tuple / pair style, any number of levels, any payload depth):
    for a well-formed tree (empty or not) with integer coordinates on the flattened ranks,
    unflattening the flattened fiber succeeds, is well-formed and has the original's content
    (explicit defaults and empty sub-fibers of the flattened ranks are not re-created). -/
theorem unflatten_flatten (dflt : ν) (r l : Nat) (f : Tree (List α) ν (r + 2 + l))
    (hw : WF (r + 2 + l) f) (har' : upperArB r l (List.replicate (l + 1) 1) f = true) :
    ∃ g, unflatLv (fun c => c.take 1) (fun c => c.drop 1) r l (flatLv (tupleComb (α := α)) dflt r l f) = some g ∧
      WF (r + 2 + l) g ∧ content dflt (r + 2 + l) g = content dflt (r + 2 + l) f := by
  have har := (upperArB_iff r l _ f).1 har'
  have hm := monoLv_tuple dflt r l _ f hw har
  have hwf := flatLv_wf (tupleComb (α := α)) dflt r l f hw hm
  have hc := content_flatLv (tupleComb (α := α)) dflt r l f
  obtain ⟨g, hg, hgw, hgc⟩ := unflatLv_spec dflt _ _ (lexSplit_list (α := α)) r l _ hwf
  refine ⟨g, hg, hgw, ?_⟩
  rw [hgc, hc, List.map_map]
  conv => rhs; rw [← List.map_id (content dflt (r + 2 + l) f)]
  apply List.map_congr_left
  intro pv hpv
  obtain ⟨p, v⟩ := pv
  have hl : p.length = r + 2 + l := content_point_length dflt _ f (p, v) hpv
  have hone : ∀ c ∈ p.take (l + 1), c.length = 1 := fun c hc =>
    List.eq_of_mem_replicate (upperAr_points dflt r l _ f har (p, v) hpv c hc)
  show (splitTop _ _ l (joinTop tupleComb l p), v) = (p, v)
  rw [(splitTop_joinTop l p (by omega) hone).1]

/-- **Flatten at every depth** (Tensor.flattenRanks(depth=k, levels=l+1, tuple / pair style)), for
    every tensor default (full since /repo COMMIT:C14-05, which removed the `TypeError` of the
    active-range bookkeeping with levels ≥ 3, and COMMIT:C14-06, since which a merged fiber keeps the
    default of a payload fiber that has elements).  For every depth `k`, every number of levels and
    every payload depth `r`, on every well-formed tree with coordinates of uniform arity on the
    flattened ranks: the transform succeeds, the result is well-formed, and every point has moved
    to its image (the coordinates `k … k+l+1` concatenated, all others untouched), nothing else
    changes, order preserved. -/
theorem flattenT_tuple_content (mf : List ν → Option ν) (dflt : ν) (r l k : Nat) (ar : List Nat)
    (t : Tree (List α) ν (r + 2 + l + k)) (hw : WF (r + 2 + l + k) t)
    (har : (subsAt (r + 2 + l) k t).all (fun s => upperArB r l ar s) = true) :
    ∃ t', mergeT false false dflt (tupleComb (α := α)) mf dflt r l k t = some t' ∧ WF (r + 1 + k) t' ∧
      content dflt (r + 1 + k) t' =
        (content dflt (r + 2 + l + k) t).map (fun pv => (liftN (joinTop (tupleComb (α := α)) l) k pv.1, pv.2)) := by
  unfold mergeT
  apply atDepth_spec_eq dflt dflt (r + 2 + l) (r + 1) _ (joinTop (tupleComb (α := α)) l) k t hw
  intro s hs hws
  have hs' := List.all_eq_true.1 har s hs
  have hm := monoLv_tuple dflt r l ar s hws ((upperArB_iff r l ar s).1 hs')
  refine ⟨flatLv (tupleComb (α := α)) dflt r l s, ?_, flatLv_wf _ dflt r l s hws hm, content_flatLv _ dflt r l s⟩
  unfold mergeLvA
  simp only [Bool.false_and, Bool.false_eq_true, if_false]
  exact mergeLv_mono _ mf dflt r l s hm

/-- **Swap is the adjacent swizzle.**  `Fiber.swapRanks` (flatten with style pair, sort on the
    reversed pair, unflatten) on a well-formed non-empty fiber with integer coordinates on its top
    two ranks succeeds, is well-formed, and its content is the original's with the first two
    coordinates of every point exchanged — the specification of `swizzle` for the permutation
    `[1, 0]`; payloads at any depth `r` below. -/
theorem swap_is_adjacent_swizzle (dflt : ν) (r : Nat) (f : Tree (List α) ν (r + 2))
    (hw : WF (r + 2) f) (hint' : int2B r f = true) (hne : isEmpty dflt (r + 2) f = false) :
    ∃ g, swapFiber (fun a b => a ++ b) List.reverse (fun c => c.take 1) (fun c => c.drop 1) dflt r f = some g ∧
      WF (r + 2) g ∧ content dflt (r + 2) g = swizzleSpec [1, 0] (content dflt (r + 2) f) := by
  have hint := (int2B_iff r f).1 hint'
  have hmono : Sorted (show List (List α × Tree (List α) ν r) from flat2 (fun a b => a ++ b) dflt r f) :=
    monoLv_tuple dflt r 0 [1] f hw (fun e he => (hint e he).1)
  obtain ⟨g, hg, hgw, hgc⟩ := swapFiber_spec (fun a b => a ++ b) List.reverse _ _ (lexSplit_list (α := α))
    dflt r f hw hmono hne (fun a _ b _ h => List.reverse_inj.1 h)
  refine ⟨g, hg, hgw, ?_⟩
  unfold swizzleSpec
  apply content_eq_isort_of_perm hgw
  refine hgc.trans (List.Perm.of_eq ?_)
  apply List.map_congr_left
  intro pv hpv
  -- the point is `[a] :: [b] :: rest`
  have hpv' : pv ∈ (show List (List α × Tree (List α) ν (r + 1)) from f).flatMap
      (fun e => pre e.1 (content dflt (r + 1) e.2)) := hpv
  obtain ⟨e, he, hpe⟩ := List.mem_flatMap.1 hpv'
  obtain ⟨y, hy, rfl⟩ := mem_pre hpe
  have hy' : y ∈ (show List (List α × Tree (List α) ν r) from e.2).flatMap
      (fun x => pre x.1 (content dflt r x.2)) := hy
  obtain ⟨x, hx, hyx⟩ := List.mem_flatMap.1 hy'
  obtain ⟨w, _, rfl⟩ := mem_pre hyx
  have h1 := (hint e he).1
  have h2 := (hint e he).2 x hx
  match e.1, x.1, h1, h2 with
  | [a], [b], _, _ => rfl

/-- **Swap at every depth** (Tensor.swapRanks(depth=k)).  For every `k` and every payload depth
    `r`, on every well-formed tensor whose non-empty fibers at depth `k` hold integer coordinates
    on ranks `k`, `k+1` — empty fibers at depth `k` and all-empty tensors included —: the
    transform succeeds, the result is well-formed and its content is the original's with
    coordinates `k` and `k+1` of every point exchanged, in ascending order. -/
theorem swapT_content (dflt : ν) (r k : Nat) (t : Tree (List α) ν (r + 2 + k)) (hw : WF (r + 2 + k) t)
    (hsub : (subsAt (r + 2) k t).all (fun s => isEmpty dflt (r + 2) s || int2B r s) = true) :
    ∃ t', swapT (fun a b => a ++ b) List.reverse (fun c => c.take 1) (fun c => c.drop 1) dflt r k t = some t' ∧
      WF (r + 2 + k) t' ∧
      content dflt (r + 2 + k) t' = isort (κ := List (List α))
        ((content dflt (r + 2 + k) t).map (fun pv => (liftN (permPoint [1, 0]) k pv.1, pv.2))) := by
  unfold swapT
  cases hg : allEmptyAt dflt (r + 1) k t with
  | true =>
    simp only [if_true]
    have hc : content dflt (r + 2 + k) t = [] := by
      rw [allEmptyAt_eq_isEmpty] at hg
      exact (isEmpty_iff_content dflt _ t).1 hg
    refine ⟨_, rfl, (defaultTree_spec dflt _).1, ?_⟩
    rw [hc, (defaultTree_spec dflt _).2]; rfl
  | false =>
    simp only [Bool.false_eq_true, if_false]
    apply transform_at_depth_sorted dflt dflt (r + 2) (r + 2) _ (permPoint [1, 0]) k t hw
    intro s hs hws
    have hs' := List.all_eq_true.1 hsub s hs
    cases he : isEmpty dflt (r + 2) s with
    | true =>
      refine ⟨show Tree (List α) ν (r + 2) from ([] : List (List α × Tree (List α) ν (r + 1))), ?_,
        ⟨List.Pairwise.nil, fun _ h => by cases h⟩, ?_⟩
      · simp only [if_true]
      · rw [(isEmpty_iff_content dflt _ s).1 he]
        exact List.Perm.refl _
    | false =>
      rw [he, Bool.false_or] at hs'
      obtain ⟨g, hg', hgw, hgc⟩ := swap_is_adjacent_swizzle dflt r s hws hs' he
      refine ⟨g, ?_, hgw, ?_⟩
      · simp only [Bool.false_eq_true, if_false]; exact hg'
      · rw [hgc]
        exact isort_perm _

/-- **Unflatten at every depth** (Tensor.unflattenRanks(depth=k, levels=l+1)) — partial only in
    that the tensor must have a declared shape or hold at least one coordinate at rank `k`
    (otherwise `_unflattenRankIdsShape` raises `TypeError` — open finding).  Then for every `k`,
    `l`, `r` and every well-formed tensor — empty fibers at depth `k` included (/repo 97d752a), an
    all-empty tensor included (the guard returns an empty root) — : success, a well-formed result,
    every point moved to its image (coordinate `k` split into `l+2` coordinates), order preserved.
    The result keeps the operand's default (/repo e4536c9): both contents are relative to `dflt`. -/
theorem unflattenT_content_partial (declared : Bool) (dflt : ν) (r l k : Nat) (t : Tree (List α) ν (r + 1 + k))
    (hw : WF (r + 1 + k) t)
    (hshape : (declared || !(fibersAt r k t).all
      (fun f => (show List (List α × Tree (List α) ν r) from f).isEmpty)) = true) :
    ∃ t', unflattenTS declared (fun c => c.take 1) (fun c => c.drop 1) dflt r l k t = some t' ∧
      WF (r + 2 + l + k) t' ∧
      content dflt (r + 2 + l + k) t' = (content dflt (r + 1 + k) t).map
        (fun pv => (liftN (splitTop (fun c => c.take 1) (fun c => c.drop 1) l) k pv.1, pv.2)) := by
  unfold unflattenTS
  unfold unflattenT
  cases hg : allEmptyAt dflt r k t with
  | true =>
    simp only [if_true]
    have hc : content dflt (r + 1 + k) t = [] := by
      rw [allEmptyAt_eq_isEmpty] at hg
      exact (isEmpty_iff_content dflt _ t).1 hg
    refine ⟨_, rfl, (defaultTree_spec dflt _).1, ?_⟩
    rw [hc, (defaultTree_spec dflt _).2]; rfl
  | false =>
    simp only [Bool.false_eq_true, if_false]
    apply transform_at_depth dflt dflt (r + 1) (r + 2 + l) _ _ k t hw
    intro s _ hws
    exact unflatLv_spec dflt _ _ (lexSplit_list (α := α)) r l s hws

/-- **Flatten then unflatten restores the tensor's content — at every depth, for every default.**
    `Tensor.flattenRanks(depth=k, levels=1, tuple / pair)` followed by
    `Tensor.unflattenRanks(depth=k, levels=1)` (which keeps the default since /repo e4536c9), on a
    well-formed non-empty tensor (empty fibers at depth `k` allowed, /repo 97d752a) with integer
    coordinates on rank `k`, declared shape or not: both succeed, the result is well-formed and has the original's content, relative
    to the same default; `z` (the implementation's `Payload(0)` fallback) is arbitrary, i.e. the
    tensor default need not be 0.  (More levels: `unflatten_flatten` with the hypotheses of
    `flattenT_tuple_content`.) -/
theorem flatten_unflatten_roundtrip (mf : List ν → Option ν) (z dflt : ν) (r k : Nat)
    (t : Tree (List α) ν (r + 2 + k)) (hw : WF (r + 2 + k) t)
    (hne : isEmpty dflt (r + 2 + k) t = false)
    (hsub : (subsAt (r + 2) k t).all (fun s => upperArB r 0 [1] s) = true) (declared : Bool) :
    ∃ u t', mergeT false false z (tupleComb (α := α)) mf dflt r 0 k t = some u ∧
      unflattenTS declared (fun c => c.take 1) (fun c => c.drop 1) dflt r 0 k u = some t' ∧
      WF (r + 2 + k) t' ∧ content dflt (r + 2 + k) t' = content dflt (r + 2 + k) t := by
  -- the flatten of one fiber at depth k, for any z
  have h1 : ∀ s ∈ subsAt (r + 2) k t, WF (r + 2) s →
      mergeLvA false false z (tupleComb (α := α)) mf dflt r 0 s = some (flatLv (tupleComb (α := α)) dflt r 0 s) ∧
      MonoLv (tupleComb (α := α)) dflt r 0 s := by
    intro s hs hws
    have hs' := List.all_eq_true.1 hsub s hs
    have hm := monoLv_tuple dflt r 0 [1] s hws ((upperArB_iff r 0 [1] s).1 hs')
    refine ⟨?_, hm⟩
    show (merge2T (tupleComb 0) mf z dflt r s).map _ = _
    rw [merge2T_sorted (tupleComb 0) mf z dflt r s hm]
    exact congrArg some (untag_tagWith dflt (show List (List α × Tree (List α) ν r) from flat2 (tupleComb 0) dflt r s))
  -- the flattened tensor
  obtain ⟨u, hu, huw, huc⟩ := atDepth_spec_eq dflt dflt (r + 2) (r + 1)
    (mergeLvA false false z (tupleComb (α := α)) mf dflt r 0) (joinTop (tupleComb (α := α)) 0) k t hw
    (fun s hs hws => ⟨_, (h1 s hs hws).1, flatLv_wf _ dflt r 0 s hws (h1 s hs hws).2, content_flatLv _ dflt r 0 s⟩)
  -- flatten ; unflatten on one fiber
  obtain ⟨t', ht', htw, htc⟩ := atDepth_spec_eq dflt dflt (r + 2) (r + 2)
    (fun s => (mergeLvA false false z (tupleComb (α := α)) mf dflt r 0 s).bind
      (unflatLv (fun c => c.take 1) (fun c => c.drop 1) r 0)) (fun q => q) k t hw
    (fun s hs hws => by
      have hs' := List.all_eq_true.1 hsub s hs
      obtain ⟨g, hg, hgw, hgc⟩ := unflatten_flatten dflt r 0 s hws hs'
      refine ⟨g, ?_, hgw, ?_⟩
      · rw [(h1 s hs hws).1]; exact hg
      · rw [hgc, List.map_id'])
  refine ⟨u, t', hu, ?_, htw, ?_⟩
  · have hg : allEmptyAt dflt r k u = false := by
      rw [allEmptyAt_eq_isEmpty]
      cases he : isEmpty dflt (r + 1 + k) u with
      | false => rfl
      | true =>
        have := (isEmpty_iff_content dflt _ u).1 he
        rw [huc, List.map_eq_nil_iff] at this
        rw [(isEmpty_iff_content dflt _ t).2 this] at hne
        cases hne
    have hnil : (fibersAt r k u).all
        (fun f => (show List (List α × Tree (List α) ν r) from f).isEmpty) = false := by
      cases hn : (fibersAt r k u).all (fun f => (show List (List α × Tree (List α) ν r) from f).isEmpty) with
      | false => rfl
      | true => rw [allEmptyAt_of_all_nil dflt r k u hn] at hg; cases hg
    unfold unflattenTS unflattenT
    rw [hg]
    simp only [Bool.false_eq_true, if_false]
    rw [atDepth_bind _ _ k t u hu]
    exact ht'
  · rw [htc]
    conv => rhs; rw [← List.map_id (content dflt (r + 2 + k) t)]
    apply List.map_congr_left
    intro pv _
    rw [liftN_id]
    rfl

end tuples

/-! ### flattening a split with absolute coordinates restores the original -/

section split
variable {ν : Type} [DecidableEq ν]

/-- **Flattening a uniform split with absolute coordinates restores the original.**  For every
    positive step, every well-formed fiber (payloads at any depth, explicit defaults and empty
    sub-fibers allowed) whose presented elements lie in the active range: the split of C08
    (`splitFiber`, halo 0, absolute coordinates) succeeds, and merging its two ranks with the
    absolute style — `flattenRanks(coord_style="absolute")`, raising merge function — returns
    exactly the presented elements of the original, hence the original's content. -/
theorem flattenAbs_split_id (step as ae : Int) (hstep : 0 < step) (hact : as < ae) (z dflt : ν) (r : Nat)
    (f : Tree Int ν (r + 1)) (hw : WF (r + 1) f)
    (hin : ∀ e ∈ present dflt r f, as ≤ e.1 ∧ e.1 < ae) :
    ∃ u, splitFiber { op := .uniform step, act := some (as, ae) } dflt r f = some u ∧
      merge2 (fun _ c => c) mfRaise z dflt r u = some (show Tree Int ν (r + 1) from present dflt r f) ∧
      content dflt (r + 1) (show Tree Int ν (r + 1) from present dflt r f) = content dflt (r + 1) f := by
  have hps : Sorted (present dflt r f) := present_sorted hw.1
  have hsplit : splitFiberParts { op := .uniform step, act := some (as, ae) } dflt r f =
      some (uSpec step 0 0 as ae false (present dflt r f)) :=
    splitUniformIter_eq step 0 0 as ae hstep hact (Int.le_refl 0) (Int.le_refl 0) false _ hps
  have hloss := uSpec_lossless step as ae hstep (present dflt r f) hps
  have hfilt : (present dflt r f).filter (fun e => decide (as ≤ e.1) && decide (e.1 < ae)) =
      present dflt r f := by
    rw [List.filter_eq_self]
    intro e he
    simp [(hin e he).1, (hin e he).2]
  rw [hfilt] at hloss
  refine ⟨partsTree r (uSpec step 0 0 as ae false (present dflt r f)), ?_, ?_, ?_⟩
  · unfold splitFiber; rw [hsplit]; rfl
  · -- the flattening of the parts is the concatenation of their (presented) elements
    have hflat : (show List (Int × Tree Int ν r) from
        flat2 (fun _ c => c) dflt r (partsTree r (uSpec step 0 0 as ae false (present dflt r f)))) =
        present dflt r f := by
      refine Eq.trans ?_ hloss
      unfold flat2 pairsOf partsTree
      show List.flatMap _ (List.map _ (List.map _ _)) = _
      rw [List.map_map, List.flatMap_map]
      have fm_congr : ∀ (L : List (Part (Tree Int ν r))) (F G : Part (Tree Int ν r) → List (Int × Tree Int ν r)),
          (∀ p ∈ L, F p = G p) → L.flatMap F = L.flatMap G := by
        intro L F G h
        induction L with
        | nil => rfl
        | cons p L ih =>
          rw [List.flatMap_cons, List.flatMap_cons, h p (List.mem_cons_self ..),
            ih (fun q hq => h q (List.mem_cons_of_mem _ hq))]
      apply fm_congr
      intro p hp
      show List.map _ (present dflt r (show Tree Int ν (r + 1) from p.elems)) = p.elems
      have hall : ∀ x ∈ p.elems, isEmpty dflt r x.2 = false := by
        intro x hx
        have : x ∈ present dflt r f := by
          rw [← hloss]; exact List.mem_flatMap.2 ⟨p, hp, hx⟩
        have := (List.mem_filter.1 this).2
        simpa using this
      have : present dflt r (show Tree Int ν (r + 1) from p.elems) = p.elems := by
        unfold present
        rw [List.filter_eq_self]
        intro x hx
        simp [hall x hx]
      rw [this]
      conv => rhs; rw [← List.map_id p.elems]
      apply List.map_congr_left
      intro x _; rfl
    unfold merge2
    rw [merge2T_sorted (fun _ c => c) mfRaise z dflt r _ (by rw [hflat]; exact hps)]
    show some (untag (tagWith dflt _)) = _
    rw [untag_tagWith, hflat]
    rfl
  · exact (content_present dflt r f).symm ▸ rfl

end split

/-! ### the hypotheses are satisfiable by non-trivial values (and what the theorems then say) -/

namespace C09.Ex
abbrev TI := Tree Int Int
abbrev TC := Tree Coord Int

/-- ranks A,B,C with an explicit default (A=1,B=0,C=1), an empty C fiber (A=1,B=3) and an empty
    B fiber (A=2) -/
def tI : TI 3 := show List (Int × TI 2) from
  [(0, show List (Int × TI 1) from [(0, show List (Int × TI 0) from [(0, (1 : Int)), (2, (2 : Int))]),
                                     (1, show List (Int × TI 0) from [(1, (3 : Int))])]),
   (1, show List (Int × TI 1) from [(0, show List (Int × TI 0) from [(0, (4 : Int)), (1, (0 : Int))]),
                                     (3, show List (Int × TI 0) from [])]),
   (2, show List (Int × TI 1) from [])]

/-- the same tensor with its integer coordinates as 1-tuples -/
def tC : TC 3 := show List (Coord × TC 2) from
  [([0], show List (Coord × TC 1) from [([0], show List (Coord × TC 0) from [([0], (1 : Int)), ([2], (2 : Int))]),
                                        ([1], show List (Coord × TC 0) from [([1], (3 : Int))])]),
   ([1], show List (Coord × TC 1) from [([0], show List (Coord × TC 0) from [([0], (4 : Int)), ([1], (0 : Int))]),
                                        ([3], show List (Coord × TC 0) from [])]),
   ([2], show List (Coord × TC 1) from [])]

def mkC1 (l : List (Coord × Int)) : TC 1 := l
def mkI1 (l : List (Int × Int)) : TI 1 := l

theorem tI_wf : WF 3 tI := (wfB_iff 3 tI).1 (by decide)
theorem tC_wf : WF 3 tC := (wfB_iff 3 tC).1 (by decide)

-- swizzle (A,B,C) → (C,A,B)
example : content (0 : Int) 3 (swizzle 0 2 [2, 0, 1] tI) = swizzleSpec [2, 0, 1] (content (0 : Int) 3 tI) :=
  (swizzle_content (0 : Int) 0 2 [2, 0, 1] (by decide) tI tI_wf).2
example : content (0 : Int) 3 (swizzle 0 2 [2, 0, 1] tI) =
    [([0, 0, 0], 1), ([0, 1, 0], 4), ([1, 0, 1], 3), ([2, 0, 0], 2)] := by decide
-- … and back with (B,C,A)
example : content (0 : Int) 3 (swizzle 0 2 [1, 2, 0] (swizzle 0 2 [2, 0, 1] tI)) = content (0 : Int) 3 tI :=
  (swizzle_inverse (0 : Int) 0 2 [2, 0, 1] [1, 2, 0] (by decide) (by decide)
    (fun p hp => by
      match p, hp with
      | [a, b, c], _ => rfl) tI tI_wf).2

-- flatten all three ranks (levels = 2), tuple style
example : mergeLv false (0 : Int) (tupleComb (α := Int)) mfRaise 0 0 1 tC =
    some (mkC1 [([0, 0, 0], 1), ([0, 0, 2], 2), ([0, 1, 1], 3), ([1, 0, 0], 4)]) :=
  ((flatten_content_partial (tupleComb (α := Int)) mfRaise (0 : Int) 0 1 tC tC_wf
    (flatten_tuple_mono (0 : Int) 0 1 [1, 1] tC tC_wf (by decide))).1).trans (by decide)

-- unflatten inverts it
example : ∃ g, unflatLv (fun c => c.take 1) (fun c => c.drop 1) 0 1
      (flatLv (tupleComb (α := Int)) (0 : Int) 0 1 tC) = some g ∧ WF 3 g ∧
      content (0 : Int) 3 g = content (0 : Int) 3 tC :=
  unflatten_flatten (0 : Int) 0 1 tC tC_wf (by decide)

-- unflatten of a directly built fiber with 2-tuple coordinates, an explicit default kept
example : ∃ g, unflatLv (fun c => c.take 1) (fun c => c.drop 1) 0 0
      (mkC1 [([0, 1], 5), ([0, 2], 0), ([1, 0], 7)]) = some g ∧ WF 2 g ∧
      content (0 : Int) 2 g = [([[0], [1]], 5), ([[1], [0]], 7)] :=
  unflatten_content (0 : Int) _ _ lexSplit_coord 0 0 _ ((wfB_iff 1 _).1 (by decide))

-- swap A and B
example : ∃ g, swapFiber (fun a b => a ++ b) List.reverse (fun c => c.take 1) (fun c => c.drop 1) (0 : Int) 1 tC = some g ∧
      WF 3 g ∧ content (0 : Int) 3 g = swizzleSpec [1, 0] (content (0 : Int) 3 tC) :=
  swap_is_adjacent_swizzle (0 : Int) 1 tC tC_wf (by decide) (by decide)
example : swizzleSpec [1, 0] (content (0 : Int) 3 tC) =
    [([[0], [0], [0]], 1), ([[0], [0], [2]], 2), ([[0], [1], [0]], 4), ([[1], [0], [1]], 3)] := by decide

-- split the leaf rank of a fiber uniformly by 2, flatten with absolute coordinates
example : ∃ u, splitFiber { op := .uniform 2, act := some (0, 6) } (0 : Int) 0
      (mkI1 [(0, 1), (1, 0), (3, 2), (4, 5)]) = some u ∧
      merge2 (fun _ c => c) mfRaise (0 : Int) 0 0 u = some (mkI1 [(0, 1), (3, 2), (4, 5)]) ∧
      content (0 : Int) 1 (mkI1 [(0, 1), (3, 2), (4, 5)]) =
        content (0 : Int) 1 (mkI1 [(0, 1), (1, 0), (3, 2), (4, 5)]) :=
  flattenAbs_split_id 2 0 6 (by decide) (by decide) (0 : Int) (0 : Int) 0 _ ((wfB_iff 1 _).1 (by decide))
    (by decide)

-- every depth: flatten ranks B,C below rank A (depth = 1); the empty B fiber at A=2 stays
example : ∃ t', mergeT false false (0 : Int) (tupleComb (α := Int)) mfRaise 0 0 0 1 tC = some t' ∧ WF 2 t' ∧
      content (0 : Int) 2 t' =
        (content (0 : Int) 3 tC).map (fun pv => (liftN (joinTop (tupleComb (α := Int)) 0) 1 pv.1, pv.2)) :=
  flattenT_tuple_content mfRaise (0 : Int) 0 0 1 [1] tC tC_wf (by decide)
example : (content (0 : Int) 3 tC).map (fun pv => (liftN (joinTop (tupleComb (α := Int)) 0) 1 pv.1, pv.2)) =
    [([[0], [0, 0]], 1), ([[0], [0, 2]], 2), ([[0], [1, 1]], 3), ([[1], [0, 0]], 4)] := by decide

-- swap B and C below A (depth = 1) on a tree without empty fibers at depth 1
def tD : TC 3 := show List (Coord × TC 2) from
  [([0], show List (Coord × TC 1) from [([0], mkC1 [([0], 1), ([2], 2)]), ([1], mkC1 [([0], 3)])]),
   ([1], show List (Coord × TC 1) from [([5], mkC1 [([1], 4), ([2], 0)])])]
example : ∃ t', swapT (fun a b => a ++ b) List.reverse (fun c => c.take 1) (fun c => c.drop 1) (0 : Int) 0 1 tD = some t' ∧
      WF 3 t' ∧ content (0 : Int) 3 t' = isort (κ := List Coord)
        ((content (0 : Int) 3 tD).map (fun pv => (liftN (permPoint [1, 0]) 1 pv.1, pv.2))) :=
  swapT_content (0 : Int) 0 1 tD ((wfB_iff 3 tD).1 (by decide)) (by decide)
example : isort (κ := List Coord)
      ((content (0 : Int) 3 tD).map (fun pv => (liftN (permPoint [1, 0]) 1 pv.1, pv.2))) =
    [([[0], [0], [0]], 1), ([[0], [0], [1]], 3), ([[0], [2], [0]], 2), ([[1], [1], [5]], 4)] := by decide

-- … and on `tC`, whose B fiber at A=2 is empty (an empty fiber stays in its place)
example : ∃ t', swapT (fun a b => a ++ b) List.reverse (fun c => c.take 1) (fun c => c.drop 1) (0 : Int) 0 1 tC = some t' ∧
      WF 3 t' ∧ content (0 : Int) 3 t' = isort (κ := List Coord)
        ((content (0 : Int) 3 tC).map (fun pv => (liftN (permPoint [1, 0]) 1 pv.1, pv.2))) :=
  swapT_content (0 : Int) 0 1 tC tC_wf (by decide)

-- unflatten rank 1 (2-tuples) below rank 0, no declared shape; the fiber at A=2 has no element
def tU : TC 2 := show List (Coord × TC 1) from
  [([0], mkC1 [([0, 1], 5), ([1, 0], 0), ([1, 2], 6)]), ([2], mkC1 []), ([3], mkC1 [([2, 2], 7)])]
example : ∃ t', unflattenTS false (fun c => c.take 1) (fun c => c.drop 1) (0 : Int) 0 0 1 tU = some t' ∧ WF 3 t' ∧
      content (0 : Int) 3 t' = (content (0 : Int) 2 tU).map
        (fun pv => (liftN (splitTop (fun c => c.take 1) (fun c => c.drop 1) 0) 1 pv.1, pv.2)) :=
  unflattenT_content_partial false (0 : Int) 0 0 1 tU ((wfB_iff 2 tU).1 (by decide)) (by decide)
example : (content (0 : Int) 2 tU).map
      (fun pv => (liftN (splitTop (fun c => c.take 1) (fun c => c.drop 1) 0) 1 pv.1, pv.2)) =
    [([[0], [0], [1]], 5), ([[0], [1], [2]], 6), ([[3], [2], [2]], 7)] := by decide

-- merge ranks A,B of a two-rank tensor with absolute coordinates and the default merge function:
-- B=0 collides (1+4), B=2 collides (2-2 = 0 is stored explicitly), the explicit default at B=1 is skipped
def tM : TI 2 := show List (Int × TI 1) from
  [(0, mkI1 [(0, 1), (2, 2)]), (1, mkI1 [(0, 4), (1, 0), (2, -2)])]
example : merge2 (fun _ c => c) mfSum (0 : Int) 0 0 tM = some (mkI1 [(0, 5), (2, 0)]) := by decide
example : leafPairs (fun _ c => c) (0 : Int) tM = [(0, 1), (2, 2), (0, 4), (2, -2)] := by decide
example : ∃ G : Fib Int (List Int), Sorted G ∧
      (∀ row ∈ G, row.2 = valsAt (leafPairs (fun _ c => c) (0 : Int) tM) row.1 ∧ row.2 ≠ []) ∧
      (∀ c, HasKey G c ↔ HasKey (leafPairs (fun _ c => c) (0 : Int) tM) c) ∧
      merge2 (fun _ c => c) mfSum (0 : Int) 0 0 tM =
        (mapM? (fun row => (foldVals mfSum row.2).map (fun v => (row.1, v))) G).map (fun l => show TI 1 from l) :=
  merge_leaf_spec (fun _ c => c) mfSum (0 : Int) 0 tM

-- flatten ; unflatten with default 7: the stored 0 is a value, the stored 7 is empty — both survive
def tR : TC 2 := show List (Coord × TC 1) from
  [([1], mkC1 [([1], 0), ([2], 7)]), ([2], mkC1 [([0], 3)])]
example : ∃ u t', mergeT false false (0 : Int) (tupleComb (α := Int)) mfRaise (7 : Int) 0 0 0 tR = some u ∧
      unflattenTS false (fun c => c.take 1) (fun c => c.drop 1) (7 : Int) 0 0 0 u = some t' ∧
      WF 2 t' ∧ content (7 : Int) 2 t' = content (7 : Int) 2 tR :=
  flatten_unflatten_roundtrip mfRaise (0 : Int) (7 : Int) 0 0 tR ((wfB_iff 2 tR).1 (by decide)) (by decide) (by decide) false
example : content (7 : Int) 2 tR = [([[1], [1]], 0), ([[2], [0]], 3)] := by decide
-- … and below rank A (depth = 1) of the three-rank tensor `tC` (default 7), whose B fiber at A=2 is empty
example : ∃ u t', mergeT false false (0 : Int) (tupleComb (α := Int)) mfRaise (7 : Int) 0 0 1 tC = some u ∧
      unflattenTS false (fun c => c.take 1) (fun c => c.drop 1) (7 : Int) 0 0 1 u = some t' ∧
      WF 3 t' ∧ content (7 : Int) 3 t' = content (7 : Int) 3 tC :=
  flatten_unflatten_roundtrip mfRaise (0 : Int) (7 : Int) 0 1 tC tC_wf (by decide) (by decide) false

end C09.Ex

end Ft
