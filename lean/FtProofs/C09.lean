/-
  C09 — rank transforms move every point to its image and nothing else.
  Property theorems only; helper lemmas live in FtProofs/Lemmas/Transform.lean.

  Reading guide.  `swizzle`, `swapFiber`, `mergeLv` (`_mergeRanksHelper`), `unflatLv`
  (`unflattenRanks`), `atDepth` (`updatePayloads` descent of every `…Below` form) in
  FtModel/Transform.lean mirror the Python loops; `none` = the implementation raises.
  `content dflt d t` is the tensor as a map point → value (ascending list of the non-default
  leaves with their coordinate lists).  The fiber-level functions are generic in the coordinate
  type; tuple coordinates are `Coord = List Int` (an integer coordinate is a singleton).
  `z` is `Payload(0)`, the default the implementation falls back to for fibers it creates itself:
  the theorems that need it assume `z = dflt` (tensor default 0) — the other case is an open
  finding, see `obligations/C09.json`.
-/
import FtProofs.Lemmas.Transform
import FtProofs.Lemmas.SplitUniform
import FtProofs.Lemmas.SplitSpec
set_option linter.unusedSectionVars false
set_option linter.unusedSimpArgs false
set_option linter.unusedVariables false
namespace Ft
open StrictTotal C09

section generic
variable {κ : Type} [LT κ] [DecidableRel (α := κ) (· < ·)] [DecidableEq κ] [StrictTotal κ]
variable {ν : Type} [DecidableEq ν]

/-! ### swizzle -/

/-- **Swizzle.**  For every well-formed tensor (any depth `r + swiz_len`, explicit defaults and
    empty sub-fibers allowed) and every permutation `g` of the top `k+1 = swiz_len` ranks, the DFS
    extraction / sort / rebuild of `Tensor.swizzleRanks` yields a well-formed tensor whose content
    is the original's with every point's coordinates permuted by `g`, in ascending order. -/
theorem swizzle_content (dflt : ν) (r k : Nat) (g : List Nat) (hg : guideOkB (k + 1) g = true)
    (t : Tree κ ν (r + (k + 1))) (hw : WF (r + (k + 1)) t) :
    WF (r + (k + 1)) (swizzle r k g t) ∧
    content dflt (r + (k + 1)) (swizzle r k g t) = swizzleSpec g (content dflt (r + (k + 1)) t) :=
  swizzle_wf_content dflt r k g ((guideOkB_iff _ _).1 hg) t hw

example : guideOkB 3 [2, 0, 1] = true := by decide

/-- **Swizzle round trip.**  Swizzling with `g` and then with a permutation `g'` that undoes it
    restores the content (an equal tensor; empty sub-fibers of the swizzled ranks are not
    re-created). -/
theorem swizzle_inverse (dflt : ν) (r k : Nat) (g g' : List Nat)
    (hg : guideOkB (k + 1) g = true) (hg' : guideOkB (k + 1) g' = true)
    (hinv : ∀ p : List κ, p.length = k + 1 → permute g' (permute g p) = p)
    (t : Tree κ ν (r + (k + 1))) (hw : WF (r + (k + 1)) t) :
    WF (r + (k + 1)) (swizzle r k g' (swizzle r k g t)) ∧
    content dflt (r + (k + 1)) (swizzle r k g' (swizzle r k g t)) = content dflt (r + (k + 1)) t := by
  have G := (guideOkB_iff _ _).1 hg
  have G' := (guideOkB_iff _ _).1 hg'
  obtain ⟨w1, c1⟩ := swizzle_wf_content dflt r k g G t hw
  obtain ⟨w2, c2⟩ := swizzle_wf_content dflt r k g' G' (swizzle r k g t) w1
  refine ⟨w2, ?_⟩
  rw [c2, c1]
  unfold swizzleSpec
  symm
  apply eq_isort_of_sorted_perm (content_sorted dflt _ t hw)
  have hp := isort_perm (κ := List κ) ((content dflt (r + (k + 1)) t).map (fun pv => (permPoint g pv.1, pv.2)))
  refine List.Perm.trans ?_ (hp.map _).symm
  rw [List.map_map]
  have : (content dflt (r + (k + 1)) t).map
      ((fun pv => (permPoint g' pv.1, pv.2)) ∘ (fun pv => (permPoint g pv.1, pv.2))) =
      content dflt (r + (k + 1)) t := by
    conv => rhs; rw [← List.map_id (content dflt (r + (k + 1)) t)]
    apply List.map_congr_left
    intro pv hpv
    obtain ⟨p, v⟩ := pv
    have hl : p.length = r + (k + 1) := content_point_length dflt _ t (p, v) hpv
    have htl : (p.take (k + 1)).length = k + 1 := by
      rw [List.length_take]; omega
    have hpl : (permute g (p.take (k + 1))).length = k + 1 := by
      rw [permute_length (fun i hi => by rw [htl]; exact G.2.1 i hi), G.1]
    show (permPoint g' (permPoint g p), v) = (p, v)
    have e1 : permPoint g p = permute g (p.take (k + 1)) ++ p.drop (k + 1) := by
      conv => lhs; rw [← List.take_append_drop (k + 1) p]
      exact permPoint_append G htl
    rw [e1, permPoint_append G' hpl, hinv _ htl, List.take_append_drop]
  rw [this]

/-! ### flatten / merge without collisions -/

/-- **Flatten** (any number of levels, payloads at any depth `r` below, any way of combining
    coordinates): whenever the new coordinates come out ascending at every level (`monoLvB`,
    decidable; it holds for the tuple / pair styles, see `flatten_tuple_mono`, and for the linear
    style on coordinates inside the declared shape), `_mergeRanksHelper` succeeds, never calls the
    merge function, returns a well-formed fiber, and every point has moved to its image
    `joinTop` — its first `l+2` coordinates combined, everything else untouched, order preserved.
    Stated for tensor default 0 (`z = dflt`) and the non-linear code path. -/
theorem flatten_content (comb : Nat → κ → κ → κ) (mf : List ν → Option ν) (dflt : ν) (r l : Nat)
    (f : Tree κ ν (r + 2 + l)) (hw : WF (r + 2 + l) f) (hm : monoLvB comb dflt r l f = true) :
    mergeLv false dflt comb mf dflt r l f = some (flatLv comb dflt r l f) ∧
    content dflt (r + 1) (flatLv comb dflt r l f) =
      (content dflt (r + 2 + l) f).map (fun pv => (joinTop comb l pv.1, pv.2)) ∧
    Sorted (show List (κ × Tree κ ν r) from flatLv comb dflt r l f) :=
  ⟨mergeLv_mono comb mf dflt r l f ((monoLvB_iff comb dflt r l f).1 hm),
   content_flatLv comb dflt r l f,
   ((monoLvB_iff comb dflt r l f).1 hm).sorted⟩

/-! ### unflatten -/

/-- **Unflatten** (any number of levels): on a well-formed fiber with at least one element whose
    tuple coordinates are ordered lexicographically by (first component, rest) — `LexSplit`,
    true for Python tuples, see `lexSplit_coord` — `unflattenRanks` succeeds, returns a
    well-formed fiber and every point has moved to its image `splitTop` (first coordinate split
    into `l+2` coordinates), order preserved. -/
theorem unflatten_content (dflt : ν) (hd tl : κ → κ) (hH : LexSplit hd tl) (r l : Nat)
    (f : Tree κ ν (r + 1)) (hne : (show List (κ × Tree κ ν r) from f) ≠ []) (hw : WF (r + 1) f) :
    ∃ g, unflatLv hd tl r l f = some g ∧ WF (r + 2 + l) g ∧
      content dflt (r + 2 + l) g =
        (content dflt (r + 1) f).map (fun pv => (splitTop hd tl l pv.1, pv.2)) :=
  unflatLv_spec dflt hd tl hH r l f hne hw

/-- `self.coords[0]` of `unflattenRanks` raises on a fiber without elements (this is what makes
    `Tensor.unflattenRanks(depth ≥ 1)` fail on a tree with an empty sub-fiber — open finding) -/
theorem unflatten_empty_raises (hd tl : κ → κ) (r l : Nat) :
    unflatLv (ν := ν) hd tl r l (show Tree κ ν (r + 1) from ([] : List (κ × Tree κ ν r))) = none := by
  cases l <;> rfl

/-! ### every depth -/

/-- **Every depth.**  What a fiber-level transform `g` does to every fiber at depth `k` (succeeds,
    well-formed result, content = the `φ`-image) the `…Below` / `depth=k` form does to the whole
    tree, with `φ` applied below the first `k` coordinates — for every `k`, every tree, empty
    sub-fibers and explicit defaults included (`updatePayloads` visits every stored payload at
    its own position). -/
theorem transform_at_depth (dflt dflt' : ν) (a b : Nat) (g : Tree κ ν a → Option (Tree κ ν b))
    (φ : List κ → List κ) (k : Nat) (t : Tree κ ν (a + k)) (hw : WF (a + k) t)
    (h : ∀ s ∈ subsAt a k t, WF a s → ∃ s', g s = some s' ∧ WF b s' ∧
        content dflt' b s' = (content dflt a s).map (fun pv => (φ pv.1, pv.2))) :
    ∃ t', atDepth g k t = some t' ∧ WF (b + k) t' ∧
      content dflt' (b + k) t' = (content dflt (a + k) t).map (fun pv => (liftN φ k pv.1, pv.2)) :=
  atDepth_spec_eq dflt dflt' a b g φ k t hw h

/-- the same for transforms that reorder (swap): content up to permutation, hence — the result
    being well-formed — the ascending arrangement of the images -/
theorem transform_at_depth_sorted (dflt dflt' : ν) (a b : Nat) (g : Tree κ ν a → Option (Tree κ ν b))
    (φ : List κ → List κ) (k : Nat) (t : Tree κ ν (a + k)) (hw : WF (a + k) t)
    (h : ∀ s ∈ subsAt a k t, WF a s → ∃ s', g s = some s' ∧ WF b s' ∧
        (content dflt' b s').Perm ((content dflt a s).map (fun pv => (φ pv.1, pv.2)))) :
    ∃ t', atDepth g k t = some t' ∧ WF (b + k) t' ∧
      content dflt' (b + k) t' =
        isort (κ := List κ) ((content dflt (a + k) t).map (fun pv => (liftN φ k pv.1, pv.2))) := by
  obtain ⟨t', h1, h2, h3⟩ := atDepth_spec_perm dflt dflt' a b g φ k t hw h
  exact ⟨t', h1, h2, content_eq_isort_of_perm h2 h3⟩

end generic

end Ft
