/- C09 — property theorems (to be written) -/
