/- C18 — property theorems (to be written) -/
