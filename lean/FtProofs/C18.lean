/-
  C18 — format footprints add up from the tree exactly (fibertree/model/format.py).
  Property theorems only; helper lemmas live in FtProofs/Lemmas/Format.lean.

  Model: FtModel/Format.lean.  Heights: a fiber of the leaf rank has height 0, rank `i` of a
  tensor with `D+1` ranks has height `D - i`; `lv h` is the filled spec + shape of that rank.
-/
import FtProofs.Lemmas.Format
set_option linter.unusedSectionVars false
set_option linter.unusedSimpArgs false
set_option linter.unusedVariables false
namespace Ft

/-! ### a fiber -/

/-- `_getFiberFootprint`: header plus (coordinate + payload bits) times the occupancy
    (`len(fiber)`) if compressed, times the rank's shape if uncompressed. -/
theorem fiber_fp (l : FpLevel) (occ : Nat) :
    fpFiber l occ = l.fhbits + (l.cbits + l.pbits) *
      (match l.format with | .C => occ | .U => l.shape) := by
  rw [fpFiber_eq]; rfl

example : fpFiber { format := .C, fhbits := 10, cbits := 3, pbits := 4, shape := 6 } 2 = 24 ∧
          fpFiber { format := .U, fhbits := 10, cbits := 3, pbits := 4, shape := 6 } 2 = 52 := by decide

/-! ### a rank, the tensor -/

/-- `getRank`: the loop over `Rank.getFibers()` returns the rank header plus the footprints
    of all the rank's fibers. -/
theorem rank_fp (l : FpLevel) (fibers : List FpRankEntry) :
    fpGetRank l fibers = l.rhbits + (fibers.map (fun e => fpFiber l e.2)).sum :=
  foldl_add_eq_sum _ _ _

/-- `getTensor`: the root's bits plus all ranks'. -/
theorem tensor_fp (rootBits : Nat) (lv : Nat → FpLevel) (D : Nat) (ranks : List (List FpRankEntry)) :
    fpGetTensor rootBits lv D ranks =
      rootBits + ((List.range (D + 1)).map (fun i => fpGetRank (lv (D - i)) (ranks.getD i []))).sum :=
  foldl_add_eq_sum _ _ _

section
variable {ν : Type} [DecidableEq ν]

/-- The executable mirror check decides `FpMirror`. -/
theorem fpMirrorB_iff (D : Nat) (root : Tree Int ν (D + 1)) (ranks : List (List FpRankEntry)) :
    fpMirrorB D root ranks = true ↔ FpMirror D root ranks := by
  simp only [fpMirrorB, FpMirror, List.all_eq_true, List.mem_range, List.isPerm_iff]
  constructor
  · intro h i hi; exact h i (by omega)
  · intro h i hi; exact h i (by omega)

/-- Under `Mirror` (C02: the fiber list of rank `i` is a permutation of the fibers stored
    `i` levels below the root) the rank footprint equals the sum recomputed from the raw walk
    of the tree.  PARTIAL: `Mirror` is an assumption here, it is C02's claim. -/
theorem rank_fp_tree_partial (lv : Nat → FpLevel) (D : Nat) (root : Tree Int ν (D + 1))
    (ranks : List (List FpRankEntry)) (hm : FpMirror D root ranks) (i : Nat) (hi : i ≤ D) :
    fpGetRank (lv (D - i)) (ranks.getD i []) = fpRankSpec lv D root i := by
  rw [rank_fp, fpRankSpec]
  congr 1
  exact ((hm i hi).map _).sum_nat

/-- … and so does the tensor footprint.  PARTIAL: under `Mirror`. -/
theorem tensor_fp_tree_partial (rootBits : Nat) (lv : Nat → FpLevel) (D : Nat)
    (root : Tree Int ν (D + 1)) (ranks : List (List FpRankEntry)) (hm : FpMirror D root ranks) :
    fpGetTensor rootBits lv D ranks = fpTensorSpec rootBits lv D root := by
  rw [tensor_fp, fpTensorSpec]
  congr 2
  apply List.map_congr_left
  intro i hi
  exact rank_fp_tree_partial lv D root ranks hm i (by have := List.mem_range.1 hi; omega)

/-- the raw walk by depth lists exactly the stored fibers `i` levels down (every stored
    element counts, empty or not), each with its `len` -/
theorem rank_fibers_iff (d : Nat) (f : Tree Int ν (d + 1)) (i : Nat) (e : FpRankEntry) :
    e ∈ fpFibersAt d f i ↔ ∃ p, e.1 = some p ∧ p.length = i ∧ FpStored d f p e.2 :=
  fpFibersAt_iff d f i e

/-- non-vacuity: a 2-rank tensor whose rank lists (in another order) mirror the tree -/
def exTree : Tree Int Int 2 := (show List (Int × Tree Int Int 1) from
  [(0, (show List (Int × Int) from [(1, 5), (3, 0)])), (2, (show List (Int × Int) from [])),
   (3, (show List (Int × Int) from [(0, 0)]))])

def exRanks : List (List FpRankEntry) :=
  [[(some [], 3)], [(some [3], 1), (some [0], 2), (some [2], 0)]]

def exLv (fm fk : FmtKind) : Nat → FpLevel
  | 1 => { format := fm, rhbits := 1000, fhbits := 100, cbits := 1, pbits := 2, shape := 4 }
  | _ => { format := fk, rhbits := 0, fhbits := 10, cbits := 3, pbits := 4, shape := 4 }

example : FpMirror 1 exTree exRanks := (fpMirrorB_iff 1 exTree exRanks).1 (by decide)
example : fpGetTensor 5 (exLv .U .C) 1 exRanks = 1168 := by decide

/-! ### a sub-tree -/

/-- The stack loop of `getSubTree`, started on one fiber with as much fuel as there are
    fibers to visit, returns the sum of the footprints of the enumerated reachable fibers. -/
theorem subtree_walk (dflt : ν) (lv : Nat → FpLevel) (d : Nat) (f : Tree Int ν (d + 1)) :
    fpWalk dflt lv (fpSize dflt lv d f) [⟨d, f⟩] 0 = fpSubTreeSpec dflt lv d f := by
  have := fpWalk_spec dflt lv (fpSize dflt lv d f) [⟨d, f⟩] 0 (by simp [fpItemSize])
  simpa [fpItemSpec] using this

/-- more fuel changes nothing (the loop has stopped) -/
theorem subtree_walk_fuel (dflt : ν) (lv : Nat → FpLevel) (d : Nat) (f : Tree Int ν (d + 1))
    (fuel : Nat) (h : fpSize dflt lv d f ≤ fuel) :
    fpWalk dflt lv fuel [⟨d, f⟩] 0 = fpSubTreeSpec dflt lv d f := by
  have := fpWalk_spec dflt lv fuel [⟨d, f⟩] 0 (by simpa [fpItemSize] using h)
  simpa [fpItemSpec] using this

/-- `getSubTree(*coords)` for every point prefix: the sum over the enumerated fibers
    reachable below the addressed fiber (an absent point addresses an empty fiber); for a
    full-length point the leaf rank's element bits. -/
theorem subtree_fp (dflt : ν) (lv : Nat → FpLevel) (D : Nat) (root : Tree Int ν (D + 1))
    (coords : List Int) :
    fpGetSubTree dflt lv D root coords = fpSubTreeAtSpec dflt lv D root coords := by
  unfold fpGetSubTree fpSubTreeAtSpec
  split
  · rfl
  · cases fpDescend D root coords with
    | none => rfl
    | some it =>
      obtain ⟨h, f⟩ := it
      simp only [Option.map_some, subtree_walk]

/-- The enumeration is exact: it lists a (path, height, len) iff that fiber is reachable —
    through the stored non-empty elements of a compressed rank, through every coordinate
    `0 ≤ c < shape` of an uncompressed one, an absent child counting as an empty fiber. -/
theorem subtree_reach_iff (dflt : ν) (lv : Nat → FpLevel) (d : Nat) (f : Tree Int ν (d + 1))
    (p : List Int) (h o : Nat) :
    (p, h, o) ∈ fpReach dflt lv d f ↔ FpReachable dflt lv d f p h o :=
  fpReach_iff dflt lv d f p h o

/-- … and every reachable fiber is listed once (coordinate paths are distinct) when the
    fibers are sorted (C01's order clause). -/
theorem subtree_reach_nodup (dflt : ν) (lv : Nat → FpLevel) (d : Nat) (f : Tree Int ν (d + 1))
    (hw : WF (d + 1) f) : ((fpReach dflt lv d f).map (·.1)).Nodup :=
  fpReach_nodup dflt lv d f hw

example : WF 2 exTree := (fp_wfB_iff 2 exTree).1 (by decide)

/-- … and sortedness is not needed for that: unique coordinates in every fiber suffice, so the
    statement covers fibers created with `ordered=False` (elements in insertion order). -/
theorem subtree_reach_nodup_unordered (dflt : ν) (lv : Nat → FpLevel) (d : Nat) (f : Tree Int ν (d + 1))
    (hu : FpUniq (d + 1) f) : ((fpReach dflt lv d f).map (·.1)).Nodup :=
  fpReach_nodup_uniq dflt lv d f hu

/-- a tree whose root stores its coordinates as [2, 0, 1] -/
def exUnordered : Tree Int Int 2 := (show List (Int × Tree Int Int 1) from
  [(2, (show List (Int × Int) from [(1, 5), (0, 6)])), (0, (show List (Int × Int) from [(3, 1)])),
   (1, (show List (Int × Int) from []))])

example : FpUniq 2 exUnordered ∧ ¬ WF 2 exUnordered := by
  refine ⟨⟨by decide, ?_⟩, fun h => absurd ((fp_wfB_iff 2 exUnordered).2 h) (by decide)⟩
  intro e he
  simp only [exUnordered, List.mem_cons, List.not_mem_nil, or_false] at he
  rcases he with rfl | rfl | rfl <;> exact ⟨by decide, fun _ _ => trivial⟩

example : fpGetSubTree (0 : Int) (exLv .U .C) 1 exUnordered [] = some 173 ∧
          fpGetSubTree (0 : Int) (exLv .U .C) 1 exUnordered [2] = some 24 := by decide

/-- non-vacuity of the reachability clauses on `exTree` (children 0 ↦ [1↦5, 3↦0], 2 ↦ [], 3 ↦ [0↦0]):
    under an uncompressed top rank the absent coordinate 1 is reached as an empty fiber and
    coordinate 4 (= shape) is not; under a compressed top rank the stored but empty children 2, 3
    are not reached while child 0 is. -/
example : FpReachable (0 : Int) (exLv .U .C) 1 exTree [1] 0 0 ∧
          ¬ FpReachable (0 : Int) (exLv .U .C) 1 exTree [4] 0 0 ∧
          FpReachable (0 : Int) (exLv .C .C) 1 exTree [0] 0 2 ∧
          ¬ FpReachable (0 : Int) (exLv .C .C) 1 exTree [2] 0 0 ∧
          ¬ FpReachable (0 : Int) (exLv .C .C) 1 exTree [3] 0 1 := by
  refine ⟨?_, ?_, ?_, ?_, ?_⟩
  · exact (subtree_reach_iff _ _ _ _ _ _ _).1 (by decide)
  · exact fun h => absurd ((subtree_reach_iff _ _ _ _ _ _ _).2 h) (by decide)
  · exact (subtree_reach_iff _ _ _ _ _ _ _).1 (by decide)
  · exact fun h => absurd ((subtree_reach_iff _ _ _ _ _ _ _).2 h) (by decide)
  · exact fun h => absurd ((subtree_reach_iff _ _ _ _ _ _ _).2 h) (by decide)

example : fpGetSubTree (0 : Int) (exLv .C .C) 1 exTree [] = some 133 ∧
          fpGetSubTree (0 : Int) (exLv .U .U) 1 exTree [] = some 264 ∧
          fpGetSubTree (0 : Int) (exLv .U .C) 1 exTree [1] = some 10 ∧
          fpGetSubTree (0 : Int) (exLv .U .C) 1 exTree [0, 1] = some 7 := by decide

end

/-! ### defaults of the specification -/

/-- `_checkFillSpec` on a rank entry: every field keeps the given value and a missing field
    gets zero bits / "C" / "contiguous". -/
theorem spec_defaults_rank {e e' : SpecDict} (h : checkFillRank e = some e') (k : String) :
    lookup e' k = match lookup e k with
      | some v => some v
      | none => specRankDefault k :=
  checkFillRank_lookup h k

/-- the same for the `"root"` entry (`hbits`, `pbits` default to zero) -/
theorem spec_defaults_root {e e' : SpecDict} (h : checkFillRoot e = some e') (k : String) :
    lookup e' k = match lookup e k with
      | some v => some v
      | none => specRootDefault k :=
  checkFillRoot_lookup h k

/-- the executable form used on the implementation's filled dictionaries -/
theorem spec_defaults_sound {e e' : SpecDict} (h : checkFillRank e = some e') :
    specFilledB specRankDefault specRankKeys e e' = true := by
  simp only [specFilledB, List.all_eq_true, beq_iff_eq]
  intro k _
  exact checkFillRank_lookup h k

/-- a wholly missing spec is accepted and means: zero bits everywhere, compressed, contiguous -/
theorem spec_defaults_missing :
    checkFillSpec none [none] =
      some ([("hbits", .int 0), ("pbits", .int 0)],
            [[("rhbits", .int 0), ("fhbits", .int 0), ("cbits", .int 0), ("pbits", .int 0),
              ("format", .str "C"), ("layout", .str "contiguous")]]) ∧
    levelOf [("rhbits", .int 0), ("fhbits", .int 0), ("cbits", .int 0), ("pbits", .int 0),
              ("format", .str "C"), ("layout", .str "contiguous")] 7 =
      { format := .C, rhbits := 0, fhbits := 0, cbits := 0, pbits := 0, shape := 7 } := by
  constructor <;> decide

example : checkFillRank [("format", .str "U"), ("cbits", .int 3)] =
    some [("format", .str "U"), ("cbits", .int 3), ("rhbits", .int 0), ("fhbits", .int 0),
          ("pbits", .int 0), ("layout", .str "contiguous")] := by decide

end Ft
