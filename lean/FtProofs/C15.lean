/-
  C15 — metrics collection is transparent, exact and session-isolated (the counter side).
  Property theorems only; helper lemmas live in FtProofs/Lemmas/Metrics*.lean.

  Part A speaks about the `Metrics` class alone (any client), part B about the sum-of-products
  kernels of FtModel/MetricsKernel.lean.
-/
import FtProofs.Lemmas.MetricsLemmas
import FtProofs.Lemmas.MetricsSession
import FtProofs.Lemmas.MetricsSafe
import FtProofs.Lemmas.MetricsKernelLemmas
set_option linter.unusedSectionVars false
set_option linter.unusedSimpArgs false
set_option linter.unusedVariables false
namespace Ft.C15

/-! ## A. the class -/

/-- **`beginCollect` resets every attribute**: whatever ran before, the state it leaves depends only
    on the prefix — and on the two things it does not touch, the flush threshold
    (`num_cached_uses`) and the trace files on disk. -/
theorem beginCollect_const (p : Option String) (s₁ s₂ : MState)
    (hn : s₁.numCachedUses = s₂.numCachedUses) (hf : s₁.fs = s₂.fs) :
    step (.beginCollect p) s₁ = step (.beginCollect p) s₂ := by
  simp [step, mBegin, hn, hf]

/-- **session isolation, any client** (partial: the two histories must agree on the two things
    `beginCollect` does not reset, the flush threshold and the files on disk): a session (`beginCollect`, any calls — each may depend on what
    the earlier ones returned —, `endCollect`) returns the same values and leaves the same attributes
    and files from any two earlier histories that agree on the threshold and on the files. -/
theorem session_isolated_partial (p : Option String) (client : Prog) (s₁ s₂ : MState)
    (hn : s₁.numCachedUses = s₂.numCachedUses) (hf : s₁.fs = s₂.fs) :
    session p client s₁ = session p client s₂ := by
  unfold session
  rw [beginCollect_const p s₁ s₂ hn hf]

/-- **exact counters**: after `beginCollect` and any calls that do not open another session,
    `dump()[line][metric]` (`Compute.numOps`) is the sum of the `incCount(line', metric, n)` calls
    with `line'.strip() = line` — nothing else moves a counter, nothing is lost. -/
theorem dump_counts_exact (p : Option String) (calls : List MOp) (s₀ s' : MState) (rs : List MRet)
    (hb : ∀ op ∈ calls, op.isBegin = false)
    (h : runOps (.beginCollect p :: calls) s₀ = some (rs, s')) (line metric : String) :
    count s' line metric = sumInc line metric calls := by
  obtain ⟨x, s1, rs', h1, h2, _⟩ := runOps_cons h
  simp only [step, Option.some.injEq, Prod.mk.injEq] at h1
  rw [runOps_count h2 hb line metric, ← h1.2]
  simp [count, mBegin, dget]

/-- **exact iteration counts**: in a structured session (file traces declared after `beginCollect`,
    then only the calls a loop nest makes, then `endCollect`), `Compute.numIters` of the file of EVERY
    declared trace is the number of `addUse` calls for that rank and type — whatever the flush
    threshold, whatever an earlier session left in a file of the same name, whether or not the rank
    was ever registered. -/
theorem numIters_eq_uses (p : String) (keys : List TKey) (body : List MOp) (s₀ s' : MState) (rs : List MRet)
    (hbody : ∀ op ∈ body, op.inBody = true)
    (hrun : runOps (openOps p keys ++ body ++ [.endCollect]) s₀ = some (rs, s'))
    (r ty : String) (hk : (r, ty) ∈ keys) :
    numIters (fileOf s' p r ty) = nUse r ty body := by
  obtain ⟨s2, hs2, hc2, hend⟩ := session_inv hbody hrun hk
  cases hreg : registers r body with
  | true =>
    rw [hreg] at hc2
    rw [numIters, mEnd_file hs2 hc2 hend]
    omega
  | false =>
    rw [hreg] at hc2
    obtain ⟨h1, h2⟩ := mEnd_file_unstarted hs2 hc2 hend
    rw [h1, h2]; rfl

/-- a declared trace whose rank is never registered in the session (its loop never starts) ends the
    session with a new, empty file: nothing of an earlier session survives. -/
theorem unregistered_trace_file_empty (p : String) (keys : List TKey) (body : List MOp) (s₀ s' : MState)
    (rs : List MRet) (hbody : ∀ op ∈ body, op.inBody = true)
    (hrun : runOps (openOps p keys ++ body ++ [.endCollect]) s₀ = some (rs, s'))
    (r ty : String) (hk : (r, ty) ∈ keys) (hreg : registers r body = false) :
    fileOf s' p r ty = [] := by
  obtain ⟨s2, hs2, hc2, hend⟩ := session_inv hbody hrun hk
  rw [hreg] at hc2
  exact (mEnd_file_unstarted hs2 hc2 hend).1

/-! ## B. kernels (the loop nests of FtModel/MetricsKernel.lean) -/

theorem runOps_append_ok {a b : List MOp} {s s1 s2 : MState} {ra rb : List MRet}
    (h1 : runOps a s = some (ra, s1)) (h2 : runOps b s1 = some (rb, s2)) :
    runOps (a ++ b) s = some (ra ++ rb, s2) := by
  induction a generalizing s ra with
  | nil => simp [runOps] at h1; obtain ⟨rfl, rfl⟩ := h1; simpa using h2
  | cons op a ih =>
    obtain ⟨r, sm, rs', g1, g2, rfl⟩ := runOps_cons h1
    have := ih g2
    simp [runOps, g1, this]

theorem runOps_cons_ok {op : MOp} {ops : List MOp} {s s1 s' : MState} {r : MRet} {rs : List MRet}
    (h1 : step op s = some (r, s1)) (h2 : runOps ops s1 = some (rs, s')) :
    runOps (op :: ops) s = some (r :: rs, s') := by
  simp [runOps, h1, h2]

theorem open_ok (p : String) (keys : List TKey) (s₀ : MState) :
    ∃ rs s, runOps (openOps p keys) s₀ = some (rs, s) := by
  have : ∀ (keys : List TKey) (s : MState), DeclInv p s₀.fs s →
      ∃ rs s', runOps (keys.map (fun k => MOp.trace k.1 k.2 false)) s = some (rs, s') := by
    intro keys
    induction keys with
    | nil => intro s _; exact ⟨[], s, rfl⟩
    | cons k keys ih =>
      intro s hd
      have hg : mTrace k.1 k.2 false s = some (setTrace s (k.1, k.2)
          { (dget s.traces (k.1, k.2)).getD { file := none, mem := none, started := false } with file := some [] }) := by
        simp [mTrace, hd.sinv.pfx, hd.sinv.coll, setTrace]
      obtain ⟨hd1, _, _⟩ := mTrace_decl hd hg
      obtain ⟨rs, s', h'⟩ := ih _ hd1
      exact ⟨MRet.unit :: rs, s', runOps_cons_ok (by simp [step, hg]) h'⟩
  obtain ⟨rs, s, h⟩ := this keys _ (mBegin_decl p s₀)
  exact ⟨MRet.unit :: rs, s, runOps_cons_ok (by simp [step]) h⟩

/-- **the `Metrics` calls of a kernel never fail**: from any earlier state, opening a session with any
    set of file traces, running the kernel's calls and closing the session goes through — every
    `addUse`/`incIter`/`endIter` finds its rank registered, every flush and header write succeeds. -/
theorem kernel_calls_safe (k : Kernel) (z : ATree) (ops : List Operand) (p : String) (keys : List TKey)
    (s₀ : MState) :
    ∃ rs s', runOps (openOps p keys ++ callsOf (kernelEvents k z ops) ++ [.endCollect]) s₀ = some (rs, s') := by
  obtain ⟨r1, s1, h1⟩ := open_ok p keys s₀
  obtain ⟨hd, _⟩ := open_inv h1
  have hr1 : RInv p s1 :=
    ⟨hd.sinv, [], [], [], [], [], hd.lo, hd.it, hd.lp, hd.pt, hd.met, fun r i h => by simp [dget] at h⟩
  obtain ⟨r2, s2, h2, hr2⟩ := run_safe (callsOf (kernelEvents k z ops)) [] s1 hr1
    ⟨[], hd.lo, fun r h => by simp at h⟩ (runK_safe _ _ _ _ _ [])
  obtain ⟨s3, h3⟩ := mEnd_ok hr2.1
  have h3' : runOps [MOp.endCollect] s2 = some ([.unit], s3) := by simp [runOps, step, h3]
  exact ⟨_, s3, runOps_append_ok (runOps_append_ok h1 h2) h3'⟩

/-- **transparency** (partial: the collecting-only assertion of `lshift_iterator` must not fire):
    a collecting session around the kernel — any prefix, any set of traces, any earlier state —
    completes and leaves the tensor the kernel computes with collection off. -/
theorem kernel_transparent_partial (k : Kernel) (z : ATree) (ops : List Operand) (p : String) (keys : List TKey)
    (s₀ : MState) (hok : assertsOk (wtrOf keys) (kernelEvents k z ops) = true) :
    ∃ s', kernelSession k z ops p keys s₀ = some (runPlain k z ops, s') := by
  obtain ⟨rs, s', h⟩ := kernel_calls_safe k z ops p keys s₀
  refine ⟨s', ?_⟩
  simp only [kernelEvents] at hok h
  show (if assertsOk (wtrOf keys) (runK k.cfg k.loops k.out z ops).2 = true then _ else none) = _
  rw [if_pos hok, h]; rfl

/-- … which is guaranteed when the output tensor was created with a shape -/
theorem kernel_transparent_declared (k : Kernel) (z : ATree) (ops : List Operand) (p : String) (keys : List TKey)
    (s₀ : MState) (hd : k.declared = true) :
    ∃ s', kernelSession k z ops p keys s₀ = some (runPlain k z ops, s') := by
  apply kernel_transparent_partial
  unfold kernelEvents Kernel.cfg
  rw [hd]
  exact assertsOk_of_declared _ _ _ _ _ _

/-- … and also when the write trace of no populate destination is collected: then every kernel,
    whatever the shape declarations, is transparent -/
theorem kernel_transparent_untraced (k : Kernel) (z : ATree) (ops : List Operand) (p : String) (keys : List TKey)
    (s₀ : MState) (hw : ∀ v, (v, "populate_write_0") ∉ keys) :
    ∃ s', kernelSession k z ops p keys s₀ = some (runPlain k z ops, s') := by
  apply kernel_transparent_partial
  apply assertsOk_of_untraced
  intro v
  simp only [wtrOf, List.contains_eq_mem, decide_eq_false_iff_not]
  exact hw v

/-- the unrestricted statement is false: **witness** — inserting `a`'s coordinate 1 below the
    element 5 of an output vector created without a shape, while the output's write trace is
    collected, aborts with collection on and runs with collection off. -/
theorem kernel_assert_witness :
    let k : Kernel := { loops := ["K"], out := ["K"], declared := false }
    let z : ATree := ⟨1, [((5 : Int), (1 : Int))]⟩
    let a : Operand := { ranks := ["K"], t := ⟨1, [((1 : Int), (2 : Int))]⟩ }
    (kernelSession k z [a] "p" [("K", "populate_write_0")] MState.init).isNone = true ∧
    (kernelSession k z [a] "p" [("K", "iter")] MState.init).isSome = true ∧
    (show List (Int × Int) from castT 1 (runPlain k z [a]) []) = [((1 : Int), (2 : Int)), ((5 : Int), (1 : Int))] := by
  decide

theorem sumInc_traces (line metric : String) (keys : List TKey) :
    sumInc line metric (keys.map (fun k => MOp.trace k.1 k.2 false)) = 0 := by
  induction keys with
  | nil => rfl
  | cons k ks ih => simp [sumInc, ih]

/-- **exact counts**: after the collecting session `dump()["Compute"]` shows exactly the payload
    operators the kernel executed, however its innermost statement is spelled (`z += a*b`,
    `z <<= z + a*b`, `t *= b; z += t`): `payload_mul` the `*` and `*=`, `payload_update` the `+=`,
    `<<=` and `*=`, `payload_add` the `+` and the `+=` on an accumulator that already held a non-zero
    value. -/
theorem kernel_counts_exact (k : Kernel) (z : ATree) (ops : List Operand) (p : String) (keys : List TKey)
    (s₀ s' : MState) (out : ATree) (h : kernelSession k z ops p keys s₀ = some (out, s')) :
    count s' "Compute" "payload_mul" = nMul (kernelEvents k z ops) ∧
    count s' "Compute" "payload_update" = nUpd (kernelEvents k z ops) ∧
    count s' "Compute" "payload_add" = nAdd (kernelEvents k z ops) := by
  unfold kernelSession at h
  simp only at h
  split at h
  · simp only [Option.map_eq_some_iff, Prod.mk.injEq] at h
    obtain ⟨⟨rs, s1⟩, hrun, _, rfl⟩ := h
    have hb : ∀ op ∈ keys.map (fun k => MOp.trace k.1 k.2 false) ++ callsOf (kernelEvents k z ops) ++ [MOp.endCollect],
        op.isBegin = false := by
      intro op hop
      simp only [List.mem_append, List.mem_map, List.mem_singleton] at hop
      rcases hop with (⟨k, _, rfl⟩ | hop) | rfl
      · rfl
      · have := inBody_of_safe _ [] (runK_safe _ _ _ _ _ []) op hop
        cases op <;> simp [MOp.inBody] at this <;> rfl
      · rfl
    have hrun' : runOps (MOp.beginCollect (some p) ::
        (keys.map (fun k => MOp.trace k.1 k.2 false) ++ callsOf (kernelEvents k z ops) ++ [MOp.endCollect])) s₀ = some (rs, s1) := by
      simpa [openOps, kernelEvents] using hrun
    have key := fun m => dump_counts_exact (some p) _ s₀ s1 rs hb hrun' "Compute" m
    obtain ⟨b1, b2, b3⟩ := runK_bal k.cfg k.loops k.out z ops
    simp only [cnt] at b1 b2 b3
    refine ⟨?_, ?_, ?_⟩
    · rw [key, sumInc_append, sumInc_append, sumInc_traces]; simp [sumInc, kernelEvents, b1]
    · rw [key, sumInc_append, sumInc_append, sumInc_traces]; simp [sumInc, kernelEvents, b2]
    · rw [key, sumInc_append, sumInc_append, sumInc_traces]; simp [sumInc, kernelEvents, b3]
  · cases h

/-- **iteration count = loop bodies** (partial: no rank of format "U"): for every rank traced with the
    "iter" trace — reached by the kernel or not, whatever file an earlier session left —
    `Compute.numIters` of its file is the number of loop bodies the kernel executed at that rank. -/
theorem kernel_numIters_eq_bodies_partial (k : Kernel) (z : ATree) (ops : List Operand) (p : String)
    (keys : List TKey) (s₀ s' : MState) (out : ATree)
    (hU : ∀ o ∈ ops, o.uShape = none)
    (h : kernelSession k z ops p keys s₀ = some (out, s'))
    (r : String) (hk : (r, "iter") ∈ keys) :
    numIters (fileOf s' p r "iter") = nBody r (kernelEvents k z ops) := by
  unfold kernelSession at h
  simp only at h
  split at h
  · simp only [Option.map_eq_some_iff, Prod.mk.injEq] at h
    obtain ⟨⟨rs, s1⟩, hrun, _, rfl⟩ := h
    have hsafe := runK_safe k.cfg k.loops k.out z ops []
    have hub := runK_ub k.cfg k.loops k.out z ops hU r
    show _ = nBody r (runK k.cfg k.loops k.out z ops).2
    rw [← hub]
    exact numIters_eq_uses p keys _ s₀ s1 rs (inBody_of_safe _ [] hsafe) hrun r "iter" hk
  · cases h

/-- the "U" hypothesis is needed: **witness** — a leaf rank of format "U" and shape 2 runs two loop
    bodies and leaves a header-only "iter" trace. -/
theorem kernel_formatU_witness :
    let k : Kernel := { loops := ["K"], out := [], declared := true }
    let a : Operand := { ranks := ["K"], t := ⟨1, [((0 : Int), (5 : Int))]⟩, uShape := some 2 }
    nBody "K" (kernelEvents k ⟨0, (0 : Int)⟩ [a]) = 2 ∧
    (kernelSession k ⟨0, (0 : Int)⟩ [a] "p" [("K", "iter")] MState.init).map
      (fun x => numIters (fileOf x.2 "p" "K" "iter")) = some 0 := by
  decide

/-- **session isolation for kernels, counter side** (partial: the collecting-only assertion must not
    fire): from ANY two earlier states (different
    thresholds, different files, sessions left open, …) the collecting session around the same
    kernel completes with the same tensor, the same value of every counter, and the same iteration
    count in the file of every declared trace. -/
theorem kernel_session_isolated_partial (k : Kernel) (z : ATree) (ops : List Operand) (p : String) (keys : List TKey)
    (s₁ s₂ : MState) (hok : assertsOk (wtrOf keys) (kernelEvents k z ops) = true) :
    ∃ s₁' s₂', kernelSession k z ops p keys s₁ = some (runPlain k z ops, s₁') ∧
      kernelSession k z ops p keys s₂ = some (runPlain k z ops, s₂') ∧
      (∀ line metric, count s₁' line metric = count s₂' line metric) ∧
      (∀ r ty, (r, ty) ∈ keys → numIters (fileOf s₁' p r ty) = numIters (fileOf s₂' p r ty)) := by
  obtain ⟨rs1, t1, h1⟩ := kernel_calls_safe k z ops p keys s₁
  obtain ⟨rs2, t2, h2⟩ := kernel_calls_safe k z ops p keys s₂
  have hsafe := runK_safe k.cfg k.loops k.out z ops []
  have hin := inBody_of_safe _ [] hsafe
  have hb : ∀ op ∈ keys.map (fun k => MOp.trace k.1 k.2 false) ++ callsOf (kernelEvents k z ops) ++ [MOp.endCollect],
      op.isBegin = false := by
    intro op hop
    simp only [List.mem_append, List.mem_map, List.mem_singleton] at hop
    rcases hop with (⟨k, _, rfl⟩ | hop) | rfl
    · rfl
    · have := hin op hop
      cases op <;> simp [MOp.inBody] at this <;> rfl
    · rfl
  refine ⟨t1, t2, ?_, ?_, ?_, ?_⟩
  · simp only [kernelEvents] at hok h1
    show (if assertsOk (wtrOf keys) (runK k.cfg k.loops k.out z ops).2 = true then _ else none) = _
    rw [if_pos hok, h1]; rfl
  · simp only [kernelEvents] at hok h2
    show (if assertsOk (wtrOf keys) (runK k.cfg k.loops k.out z ops).2 = true then _ else none) = _
    rw [if_pos hok, h2]; rfl
  · intro line metric
    rw [dump_counts_exact (some p) _ s₁ t1 rs1 hb (by simpa [openOps] using h1),
      dump_counts_exact (some p) _ s₂ t2 rs2 hb (by simpa [openOps] using h2)]
  · intro r ty hk
    rw [numIters_eq_uses p keys _ s₁ t1 rs1 hin h1 r ty hk,
      numIters_eq_uses p keys _ s₂ t2 rs2 hin h2 r ty hk]

/-! ## non-vacuity: the hypotheses are met by non-trivial values, the conclusions say something -/
section
/-- a state left by an earlier, unfinished session -/
private def dirty : MState :=
  { collecting := true, fiberLabel := [("K", 3)], iteration := some [4], lineOrder := some [("K", 0)],
    loopOrder := some ["K"], metrics := some [("Compute", [("payload_mul", 7)])], point := some [2],
    pfx := some "q", traces := [(("K", "iter"), ⟨some [.dat [1, 2, 3]], none, true⟩)] }

-- beginCollect_const / session_isolated: two very different histories meet the hypotheses
example : dirty.numCachedUses = MState.init.numCachedUses ∧ dirty.fs = MState.init.fs ∧ dirty ≠ MState.init := by decide
example : step (.beginCollect (some "p")) dirty = step (.beginCollect (some "p")) MState.init :=
  beginCollect_const _ _ _ rfl rfl

/-- a structured session: two traces, a two-level loop nest, counters on a padded line name -/
private def body1 : List MOp :=
  [.registerRank "M", .addUse "M" 0 0 "iter" none, .registerRank "K", .getLabel "K",
   .addUse "K" 3 0 "iter" none, .incCount " Compute " "payload_mul" 1, .incIter "K",
   .addUse "K" 5 1 "iter" none, .incCount "Compute" "payload_mul" 1, .incCount "Compute" "payload_add" 1, .incIter "K",
   .addUse "K" 7 2 "iter" none, .incIter "K", .endIter "K", .incIter "M", .endIter "M"]
private def keys1 : List TKey := [("K", "iter"), ("M", "iter"), ("N", "iter")]
/-- an earlier session: flush threshold 2, the same prefix and trace, one row -/
private def hist1 : List MOp :=
  [.setNumCachedUses 2] ++ openOps "p" [("K", "iter"), ("N", "iter")] ++
    [.registerRank "N", .addUse "N" 1 0 "iter" none, .registerRank "K", .addUse "K" 9 0 "iter" none, .endCollect]

-- dump_counts_exact / numIters_eq_uses: the run exists (from the state the earlier session left:
-- threshold 2, so the three K rows are flushed in two pieces), K is registered, 3 uses, 2 muls
example : ((runOps hist1 MState.init).bind (fun h => runOps (openOps "p" keys1 ++ body1 ++ [.endCollect]) h.2)).map
    (fun x => (numIters (fileOf x.2 "p" "K" "iter"), count x.2 "Compute" "payload_mul",
      -- N is declared but never registered: the earlier session's row is gone, the file is new and empty
      numIters (fileOf x.2 "p" "N" "iter"), fileOf x.2 "p" "N" "iter")) = some (3, 2, 0, []) := by decide
example : (∀ op ∈ body1, op.inBody = true) ∧ registers "K" body1 = true ∧ nUse "K" "iter" body1 = 3 ∧
    registers "N" body1 = false ∧ sumInc "Compute" "payload_mul" body1 = 2 := by decide

/-- column sums `Z_k = Σ_m A_mk`: the output fiber is revisited for every `m` -/
private def kCol : Kernel := { loops := ["M", "K"], out := ["K"], declared := true }
private def aCol : Operand :=
  { ranks := ["M", "K"], t := ⟨2, [((0 : Int), [((0 : Int), (1 : Int)), ((1 : Int), (2 : Int))]), ((1 : Int), [((0 : Int), (-1 : Int)), ((2 : Int), (4 : Int))])]⟩ }

-- kernel_transparent_*: the assertion is reached (the output is revisited while non-empty) and passes
example : assertsOk (wtrOf [("K", "populate_write_0")]) (kernelEvents kCol ⟨1, []⟩ [aCol]) = true ∧
    (kernelEvents kCol ⟨1, []⟩ [aCol]).any (fun e => match e with | .assertShape _ _ _ => true | _ => false) = true ∧
    -- the same kernel into an undeclared output: the second row inserts 0 below 1; fine unless the write trace is on
    assertsOk (wtrOf [("K", "iter"), ("K", "populate_read_0")]) (kernelEvents { kCol with declared := false } ⟨1, []⟩ [aCol]) = true ∧
    assertsOk (wtrOf [("K", "populate_write_0")]) (kernelEvents { kCol with declared := false } ⟨1, []⟩ [aCol]) = false := by
  decide
-- … the sum at k = 0 cancels (1 + -1) and is removed, 4 updates, 1 addition on a non-empty accumulator,
-- 2 bodies at M and 4 at K; the session exists and reports exactly that
example : (show List (Int × Int) from castT 1 (runPlain kCol ⟨1, []⟩ [aCol]) []) = [((1 : Int), (2 : Int)), ((2 : Int), (4 : Int))] ∧
    nUpd (kernelEvents kCol ⟨1, []⟩ [aCol]) = 4 ∧ nAdd (kernelEvents kCol ⟨1, []⟩ [aCol]) = 1 ∧
    nBody "M" (kernelEvents kCol ⟨1, []⟩ [aCol]) = 2 ∧ nBody "K" (kernelEvents kCol ⟨1, []⟩ [aCol]) = 4 := by decide
example : (kernelSession kCol ⟨1, []⟩ [aCol] "p" [("K", "iter"), ("M", "iter")] dirty).map
    (fun x => (count x.2 "Compute" "payload_update", count x.2 "Compute" "payload_add",
      numIters (fileOf x.2 "p" "K" "iter"), numIters (fileOf x.2 "p" "M" "iter"))) = some (4, 1, 4, 2) := by decide
-- the same kernel spelled `z <<= z + a` / `t = a; z += t`: other operators, other counts, same theorem
example : (kernelSession { kCol with body := .addAssign } ⟨1, []⟩ [aCol] "p" [] dirty).map
    (fun x => (count x.2 "Compute" "payload_update", count x.2 "Compute" "payload_add", count x.2 "Compute" "payload_mul")) = some (4, 4, 0) ∧
    nAdd (kernelEvents { kCol with body := .addAssign } ⟨1, []⟩ [aCol]) = 4 := by decide
example : (∀ o ∈ [aCol], o.uShape = none) ∧ registers "K" (callsOf (kernelEvents kCol ⟨1, []⟩ [aCol])) = true := by decide

/-- matrix multiply `Z_mn = Σ_k A_mk B_kn` in the order M, K, N (intersections are well-founded
    recursions: tested with `#guard`, not `decide`) -/
private def kMM : Kernel := { loops := ["M", "K", "N"], out := ["M", "N"], declared := true }
private def aMM : Operand := { ranks := ["M", "K"], t := ⟨2, [((0 : Int), [((0 : Int), (1 : Int)), ((1 : Int), (2 : Int))]), ((1 : Int), [((1 : Int), (3 : Int))])]⟩ }
private def bMM : Operand := { ranks := ["K", "N"], t := ⟨2, [((0 : Int), [((0 : Int), (1 : Int))]), ((1 : Int), [((0 : Int), (4 : Int)), ((1 : Int), (5 : Int))])]⟩ }
#guard (kernelSession kMM ⟨2, []⟩ [aMM, bMM] "p" [("K", "iter"), ("N", "iter")] MState.init).map
    (fun x => (count x.2 "Compute" "payload_mul", count x.2 "Compute" "payload_update", count x.2 "Compute" "payload_add",
      numIters (fileOf x.2 "p" "K" "iter"), numIters (fileOf x.2 "p" "N" "iter"))) == some (5, 5, 1, 3, 5)
#guard nMul (kernelEvents kMM ⟨2, []⟩ [aMM, bMM]) == 5 && nBody "N" (kernelEvents kMM ⟨2, []⟩ [aMM, bMM]) == 5 &&
  assertsOk (wtrOf []) (kernelEvents kMM ⟨2, []⟩ [aMM, bMM])
-- the same kernel into an output created without a shape runs as well (it only appends), with every trace on
#guard (kernelSession { kMM with declared := false } ⟨2, []⟩ [aMM, bMM] "p" [("N", "populate_write_0"), ("N", "iter")] MState.init).isSome
end

end Ft.C15
