/- C15 — property theorems (to be written) -/
