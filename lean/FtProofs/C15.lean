/-
  C15 — metrics collection is transparent, exact and session-isolated (the counter side).
  Property theorems only; helper lemmas live in FtProofs/Lemmas/Metrics*.lean.

  Part A speaks about the `Metrics` class alone (any client), part B about the sum-of-products
  kernels of FtModel/MetricsKernel.lean.
-/
import FtProofs.Lemmas.MetricsLemmas
import FtProofs.Lemmas.MetricsSession
set_option linter.unusedSectionVars false
set_option linter.unusedSimpArgs false
set_option linter.unusedVariables false
namespace Ft.C15

/-! ## A. the class -/

/-- **`beginCollect` resets every attribute**: whatever ran before, the state it leaves depends only
    on the prefix — and on the two things it does not touch, the flush threshold
    (`num_cached_uses`) and the trace files on disk. -/
theorem beginCollect_const (p : Option String) (s₁ s₂ : MState)
    (hn : s₁.numCachedUses = s₂.numCachedUses) (hf : s₁.fs = s₂.fs) :
    step (.beginCollect p) s₁ = step (.beginCollect p) s₂ := by
  simp [step, mBegin, hn, hf]

/-- **session isolation, any client**: a session (`beginCollect`, any calls — each may depend on what
    the earlier ones returned —, `endCollect`) returns the same values and leaves the same attributes
    and files from any two earlier histories that agree on the threshold and on the files. -/
theorem session_isolated (p : Option String) (client : Prog) (s₁ s₂ : MState)
    (hn : s₁.numCachedUses = s₂.numCachedUses) (hf : s₁.fs = s₂.fs) :
    session p client s₁ = session p client s₂ := by
  unfold session
  rw [beginCollect_const p s₁ s₂ hn hf]

/-- **exact counters**: after `beginCollect` and any calls that do not open another session,
    `dump()[line][metric]` (`Compute.numOps`) is the sum of the `incCount(line', metric, n)` calls
    with `line'.strip() = line` — nothing else moves a counter, nothing is lost. -/
theorem dump_counts_exact (p : Option String) (calls : List MOp) (s₀ s' : MState) (rs : List Ret)
    (hb : ∀ op ∈ calls, op.isBegin = false)
    (h : runOps (.beginCollect p :: calls) s₀ = some (rs, s')) (line metric : String) :
    count s' line metric = sumInc line metric calls := by
  obtain ⟨x, s1, rs', h1, h2, _⟩ := runOps_cons h
  simp only [step, Option.some.injEq, Prod.mk.injEq] at h1
  rw [runOps_count h2 hb line metric, ← h1.2]
  simp [count, mBegin, dget]

/-- **exact iteration counts**: in a structured session (file traces declared after `beginCollect`,
    then only the calls a loop nest makes, then `endCollect`), for every declared trace whose rank
    was registered, `Compute.numIters` of its file is the number of `addUse` calls for that rank and
    type — whatever the flush threshold, whatever the file held before. -/
theorem numIters_eq_uses (p : String) (keys : List TKey) (body : List MOp) (s₀ s' : MState) (rs : List Ret)
    (hbody : ∀ op ∈ body, op.inBody = true)
    (hrun : runOps (openOps p keys ++ body ++ [.endCollect]) s₀ = some (rs, s'))
    (r ty : String) (hk : (r, ty) ∈ keys) (hreg : registers r body = true) :
    numIters (fileOf s' p r ty) = nUse r ty body := by
  obtain ⟨s2, hs2, hc2, hend⟩ := session_inv hbody hrun hk
  rw [hreg] at hc2
  rw [numIters, mEnd_file hs2 hc2 hend]
  omega

/-- **the leak** (what the code does for a declared trace whose rank is never registered in the
    session — its loop never starts): the file is exactly what it was before the session. -/
theorem unregistered_trace_keeps_file (p : String) (keys : List TKey) (body : List MOp) (s₀ s' : MState)
    (rs : List Ret) (hbody : ∀ op ∈ body, op.inBody = true)
    (hrun : runOps (openOps p keys ++ body ++ [.endCollect]) s₀ = some (rs, s'))
    (r ty : String) (hk : (r, ty) ∈ keys) (hreg : registers r body = false) :
    fileOf s' p r ty = fileOf s₀ p r ty := by
  obtain ⟨s2, hs2, hc2, hend⟩ := session_inv hbody hrun hk
  rw [hreg] at hc2
  exact mEnd_file_stale hs2 hc2 hend

/-- hence **the iteration count is exact for every declared trace as long as no stale file is in
    the way** (fresh prefix, or the earlier file empty): registered or not. -/
theorem numIters_eq_uses_partial (p : String) (keys : List TKey) (body : List MOp) (s₀ s' : MState)
    (rs : List Ret) (hbody : ∀ op ∈ body, op.inBody = true)
    (hrun : runOps (openOps p keys ++ body ++ [.endCollect]) s₀ = some (rs, s'))
    (r ty : String) (hk : (r, ty) ∈ keys)
    (hfresh : registers r body = false → numIters (fileOf s₀ p r ty) = 0)
    (huse : registers r body = false → nUse r ty body = 0) :
    numIters (fileOf s' p r ty) = nUse r ty body := by
  cases hreg : registers r body with
  | true => exact numIters_eq_uses p keys body s₀ s' rs hbody hrun r ty hk hreg
  | false =>
    rw [unregistered_trace_keeps_file p keys body s₀ s' rs hbody hrun r ty hk hreg, hfresh hreg, huse hreg]

/-- the full statement (without the freshness hypothesis) is false: **witness** — after a session
    that traced rank K and left one row, a session that declares the same trace and never reaches
    rank K reports one iteration; in a fresh process it reports none. -/
theorem stale_file_witness :
    let earlier : List MOp := openOps "p" [("K", "iter")] ++ [.registerRank "K", .addUse "K" 3 0 "iter" none, .endCollect]
    let sess : List MOp := openOps "p" [("K", "iter")] ++ [] ++ [.endCollect]
    ((runOps (earlier ++ sess) MState.init).map (fun x => numIters (fileOf x.2 "p" "K" "iter")) = some 1) ∧
    ((runOps sess MState.init).map (fun x => numIters (fileOf x.2 "p" "K" "iter")) = some 0) := by
  decide

end Ft.C15
