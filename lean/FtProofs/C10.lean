/-
  C10 — value-returning operations never disturb or alias their operands; readers are pure.

  The Lean part of C10 is the *heap* argument (FtModel/Heap.lean): objects with fields pointing
  to objects, `Reach`, the observer's `view`, mutation histories attributed to two sides, and the
  pickle round trip `deepcopy`.  The per-call hypotheses of these theorems (the operand's snapshot
  is unchanged; the object sets reachable from operand and result are closed and disjoint; every
  follow-up mutation writes only objects of its own side) are evaluated by the driver, with these
  very definitions (`sepB`, `validB`, `agreeOnB`, `reachList`), on the object graph of the real
  Python objects for every operation of the two families (harness/props/c10.py).

  Property theorems only; helper lemmas live in FtProofs/Lemmas/HeapLemmas.lean.
-/
import FtProofs.Lemmas.HeapLemmas
set_option linter.unusedSectionVars false
set_option linter.unusedVariables false
namespace Ft
open Ft.C10

section
variable {δ : Type}

/-- The executable separation check is sound for reachability: if `sepB` holds and the roots lie
    in their sides' sets, no object is reachable from both roots. -/
theorem heap_sep_reach_disjoint (st : St δ) (hsep : sepB st = true) (ra rb : Nat)
    (ha : ra ∈ st.sa) (hb : rb ∈ st.sb) : ¬ ∃ x, Reach st.heap ra x ∧ Reach st.heap rb x := by
  obtain ⟨hc, hd⟩ := (sepB_iff st).1 hsep
  rintro ⟨x, hxa, hxb⟩
  have h1 : x ∈ st.mine false := reach_closed st.heap _ (hc false) (by simpa [St.mine] using ha) hxa
  have h2 : x ∈ st.mine true := reach_closed st.heap _ (hc true) (by simpa [St.mine] using hb) hxb
  exact hd false x h1 (by simpa using h2)

/-- … and the executable reach set is exact from below: everything `reachList` returns really is
    reachable from one of the roots (so a reported shared object is a real alias). -/
theorem heap_reachList_reachable (h : Heap δ) (n : Nat) (roots : List Nat) (x : Nat)
    (hx : x ∈ reachList h n roots) : ∃ r ∈ roots, Reach h r x :=
  reachList_from h roots n roots (fun y hy => ⟨y, hy, Reach.refl y⟩) x hx

/-- Separation is an invariant of every history that obeys the discipline. -/
theorem heap_sep_preserved (st : St δ) (ws : List (Step δ)) (hsep : sepB st = true)
    (hv : validB st ws = true) : sepB (runAll st ws) = true :=
  (sepB_iff _).2 (sep_run ws st ((sepB_iff st).1 hsep) hv)

/-- Frame, one step: a mutation performed by one side is invisible from every root of the other. -/
theorem heap_frame_step (st : St δ) (w : Step δ) (hsep : sepB st = true)
    (hok : stepOkB st w = true) (r : Nat) (hr : r ∈ st.mine (!w.side)) (n : Nat) :
    view (applyStep st w).heap n r = view st.heap n r := by
  obtain ⟨hc, hd⟩ := (sepB_iff st).1 hsep
  obtain ⟨hnt, _, _⟩ := stepOk_unpack st w hok
  symm
  apply view_congr st.heap (applyStep st w).heap (st.mine (!w.side)) (hc _) _ n r hr
  intro x hx
  rw [heap_apply, get_set_ne]
  exact fun h => hnt (h ▸ hx)

/-- Frame, histories: after ANY interleaving of mutations of the two sides that obeys the
    discipline, what side `s` sees from any of its roots is exactly what it would see had only its
    own mutations been performed — the other side's whole history is invisible. -/
theorem heap_frame_run (st : St δ) (ws : List (Step δ)) (hsep : sepB st = true)
    (hv : validB st ws = true) (s : Bool) (r : Nat) (hr : r ∈ st.mine s) (n : Nat) :
    view (runAll st ws).heap n r = view (runOnly s st.heap ws) n r := by
  have hS := sep_run ws st ((sepB_iff st).1 hsep) hv
  obtain ⟨hc, hd⟩ := hS
  apply view_congr _ _ ((runAll st ws).mine s) (hc s) _ n r (mine_mono_run ws st s r hr)
  intro x hx
  exact agree_run s ws st st.heap (fun _ _ => rfl) x (hd s x hx)

/-- Frame, one-sided corollary: if only the other side mutates, a side's view does not change. -/
theorem heap_frame_silent (st : St δ) (ws : List (Step δ)) (hsep : sepB st = true)
    (hv : validB st ws = true) (s : Bool) (hother : ∀ w ∈ ws, w.side ≠ s)
    (r : Nat) (hr : r ∈ st.mine s) (n : Nat) :
    view (runAll st ws).heap n r = view st.heap n r := by
  rw [heap_frame_run st ws hsep hv s r hr n, runOnly_none s ws st.heap hother]

/-- `pickle.loads(pickle.dumps(x))`: the copy of a closed object set at fresh addresses leaves
    every old object as it was, is separated from the original, and is structurally identical. -/
theorem deepcopy_separates (ρ : Nat → Nat) (h : Heap δ) (S : List Nat)
    (hc : closedB h S = true) (hf : freshRenB ρ h S = true) :
    (∀ x, x ∉ S.map ρ → get (deepcopy ρ h S) x = get h x) ∧
    sepB ⟨deepcopy ρ h S, S, S.map ρ⟩ = true ∧
    (∀ n a, a ∈ S → view (deepcopy ρ h S) n (ρ a) = view h n a) ∧
    (∀ n a, a ∈ S → view (deepcopy ρ h S) n a = view h n a) := by
  have hc' := (closedB_iff h S).1 hc
  have hf' := (freshRenB_iff ρ h S).1 hf
  refine ⟨fun x hx => deepcopy_old ρ h S x hx, (sepB_iff _).2 (deepcopy_sep ρ h S hc' hf'),
    deepcopy_view ρ h S hc' hf', ?_⟩
  intro n a ha
  symm
  apply view_congr h (deepcopy ρ h S) S hc' _ n a ha
  intro x hx
  symm
  apply deepcopy_old
  intro hm
  obtain ⟨b, hb, rfl⟩ := List.mem_map.1 hm
  exact (hf'.1 b hb).2 hx

/-- The shape of every value-returning operation of the library (`_splitGeneric`, `mergeRanks`,
    `Tensor.updateCoords / updatePayloads / swizzleRanks / _modifyRoot`, `copy`, `deepcopy`):
    deep-copy the operand, then build the result by mutations on the copy's side.  The operand's
    view is unchanged by the whole operation, operand and result stay separated, and therefore
    (by `heap_frame_run`) every later history on either side is invisible to the other. -/
theorem value_op_safe (ρ : Nat → Nat) (h : Heap δ) (S : List Nat)
    (hc : closedB h S = true) (hf : freshRenB ρ h S = true) (ws : List (Step δ))
    (hres : ∀ w ∈ ws, w.side = true)
    (hv : validB ⟨deepcopy ρ h S, S, S.map ρ⟩ ws = true) :
    (∀ n r, r ∈ S → view (runAll ⟨deepcopy ρ h S, S, S.map ρ⟩ ws).heap n r = view h n r) ∧
    sepB (runAll ⟨deepcopy ρ h S, S, S.map ρ⟩ ws) = true := by
  obtain ⟨_, hsep, _, hsame⟩ := deepcopy_separates ρ h S hc hf
  refine ⟨?_, heap_sep_preserved _ ws hsep hv⟩
  intro n r hr
  rw [heap_frame_silent _ ws hsep hv false (fun w hw => by rw [hres w hw]; simp) r
    (by simpa [St.mine] using hr) n]
  exact hsame n r hr

/-- Readers (`getPayload` / `_createDefault(addtorank=False)`, non-reference iteration,
    co-iteration, `==`, counting, shape queries, printing, dumping, footprints, rendering) only
    allocate temporaries (which may well reference the operand's objects): ANY history that never
    writes an object of the operand's closed set leaves the operand's view from every root exactly
    as it was. -/
theorem reader_pure (h : Heap δ) (S : List Nat) (hc : closedB h S = true) (ws : List (Step δ))
    (hout : ∀ w ∈ ws, w.addr ∉ S) (r : Nat) (hr : r ∈ S) (n : Nat) :
    view (writeAll h ws) n r = view h n r := by
  symm
  apply view_congr h (writeAll h ws) S ((closedB_iff h S).1 hc) _ n r hr
  intro x hx
  exact (writeAll_outside S ws h h hout (fun _ _ => rfl) x hx).symm

end

/-! ### non-vacuity: the hypotheses are satisfiable by non-trivial values, and necessary -/

section examples

/-- a fiber object 0 with a coords list 1 and a payloads list 2 holding two boxes 3, 4 -/
def c10_exHeap : Heap String :=
  [(0, ⟨"Fiber", [1, 2]⟩), (1, ⟨"[0,5]", []⟩), (2, ⟨"list", [3, 4]⟩),
   (3, ⟨"Payload 7", []⟩), (4, ⟨"Payload 9", []⟩)]

def c10_exS : List Nat := [0, 1, 2, 3, 4]
def c10_exρ : Nat → Nat := fun a => a + 10

example : closedB c10_exHeap c10_exS = true := by decide
example : freshRenB c10_exρ c10_exHeap c10_exS = true := by decide
example : reachList c10_exHeap 5 [0] = c10_exS := by decide

/-- the copy, then a result-side history: overwrite the copied box 13, allocate a new box 20 and
    hang it into the copied payloads list -/
def c10_exSteps : List (Step String) :=
  [⟨true, 13, ⟨"Payload 99", []⟩⟩, ⟨true, 20, ⟨"Payload 1", []⟩⟩, ⟨true, 12, ⟨"list", [13, 14, 20]⟩⟩]

example : validB ⟨deepcopy c10_exρ c10_exHeap c10_exS, c10_exS, c10_exS.map c10_exρ⟩ c10_exSteps = true := by
  decide

example : view (runAll ⟨deepcopy c10_exρ c10_exHeap c10_exS, c10_exS, c10_exS.map c10_exρ⟩ c10_exSteps).heap 4 0
    = view c10_exHeap 4 0 :=
  (value_op_safe c10_exρ c10_exHeap c10_exS (by decide) (by decide) c10_exSteps (by decide) (by decide)).1 4 0
    (by decide)

/-- an interleaved history of both sides after the copy -/
def c10_exMixed : List (Step String) :=
  [⟨true, 13, ⟨"Payload 99", []⟩⟩, ⟨false, 3, ⟨"Payload -1", []⟩⟩, ⟨true, 12, ⟨"list", [13]⟩⟩,
   ⟨false, 21, ⟨"Payload 5", []⟩⟩, ⟨false, 2, ⟨"list", [3, 4, 21]⟩⟩]

example : validB ⟨deepcopy c10_exρ c10_exHeap c10_exS, c10_exS, c10_exS.map c10_exρ⟩ c10_exMixed = true := by
  decide

/-- the views really change (the history is not a no-op) … -/
example : view (runAll ⟨deepcopy c10_exρ c10_exHeap c10_exS, c10_exS, c10_exS.map c10_exρ⟩ c10_exMixed).heap 4 0
    ≠ view c10_exHeap 4 0 := by decide
example : view (runAll ⟨deepcopy c10_exρ c10_exHeap c10_exS, c10_exS, c10_exS.map c10_exρ⟩ c10_exMixed).heap 4 10
    ≠ view c10_exHeap 4 0 := by decide

/-- What `Fiber.unflattenRanks` does at fiber level (fiber.py:4444-4516: the new fibers are built
    around the operand's own payload objects, no copy): result fiber 10 with its own lists 11, 12
    but the operand's boxes 3, 4.  The separation check fails, the discipline rejects the result
    side's write to box 3, and that write IS visible from the operand: the disjointness hypothesis
    of the frame theorems is necessary. -/
def c10_exAlias : Heap String :=
  [(10, ⟨"Fiber", [11, 12]⟩), (11, ⟨"[0,5]", []⟩), (12, ⟨"list", [3, 4]⟩)] ++ c10_exHeap

example : sepB ⟨c10_exAlias, reachList c10_exAlias 5 [0], reachList c10_exAlias 5 [10]⟩ = false := by decide
example : stepOkB ⟨c10_exAlias, reachList c10_exAlias 5 [0], reachList c10_exAlias 5 [10]⟩
    ⟨true, 3, ⟨"Payload 99", []⟩⟩ = false := by decide
example : view (set c10_exAlias 3 ⟨"Payload 99", []⟩) 4 0 ≠ view c10_exAlias 4 0 := by decide

/-- a reader that allocates two temporaries: a default box, and a default fiber that points to it
    and (like `_createDefault(addtorank=False)`, whose fiber's owner is the operand's rank) to an
    object of the operand -/
example : view (writeAll c10_exHeap
    [⟨true, 30, ⟨"Payload 0", []⟩⟩, ⟨true, 31, ⟨"Fiber", [30, 2]⟩⟩]) 4 0 = view c10_exHeap 4 0 :=
  reader_pure c10_exHeap c10_exS (by decide) _ (by decide) 0 (by decide) 4

end examples
end Ft
