/- C10 — property theorems (to be written) -/
