/-
  C19 — intersection and merge cost models count what the hardware idiom would do.
  Property theorems only; helper lemmas live in FtProofs/Lemmas/{Intersect,Compute}.lean.

  Vocabulary (FtModel/Intersect.lean): a `FiberIn` is one intersected fiber pair as the loop
  nest presents it (iteration stamps `oi` and coordinates `pre` of the outer loop ranks, the
  presented coordinate lists `a`, `b`); `batchesOf n groups` are the rows that successive
  `Metrics.consumeTrace` calls return when the two `intersect_i` traces of `a & b` are
  consumed after every group of consecutive fibers (header with the first); `tfTotal` /
  `saTotal` / `lfTotal` feed them to a fresh Two-Finger / Skip-Ahead / Leader-Follower
  intersector (`none` = the call raises) and read `getNumIntersects()`.
-/
import FtProofs.Lemmas.Intersect
set_option linter.unusedSectionVars false
set_option linter.unusedSimpArgs false
set_option linter.unusedVariables false
namespace Ft

/-! ## Two-finger and skip-ahead -/

/-- **Two-finger, any batching (partial).**  Whatever the grouping of the fibers into
    `addTraces` calls, the total is the number of comparison steps of a two-finger merge of
    each fiber's two coordinate lists (before either is exhausted), summed over the fibers —
    PROVIDED that inside every call the outer-loop points are pairwise distinct and every
    fiber that is followed by another one in the same call is `clean` (not exactly one
    operand empty, and its merge does not end on a match that exhausts exactly one operand).
    Without the last proviso the statement is false for the code as it is
    (`oneShot_counterexample`). -/
theorem twoFinger_batched_partial (n : Nat) (groups : List (List FiberIn))
    (hshape : ∀ g ∈ groups, ∀ f ∈ g, f.oi.length + 1 = n ∧ f.pre.length + 1 = n)
    (hdist : ∀ g ∈ groups, distinctPre g = true)
    (hclean : ∀ g ∈ groups, groupClean g = true) :
    tfTotal (batchesOf n groups) = some (tfSpecAll groups.flatten : Int) :=
  tfTotal_batches n groups (fun g hg => ⟨hshape g hg, hdist g hg, hclean g hg⟩)

/-- **Skip-ahead, any batching (partial)**: maximal same-side runs plus matches of every
    fiber's merge, under the same provisos. -/
theorem skipAhead_batched_partial (n : Nat) (groups : List (List FiberIn))
    (hshape : ∀ g ∈ groups, ∀ f ∈ g, f.oi.length + 1 = n ∧ f.pre.length + 1 = n)
    (hdist : ∀ g ∈ groups, distinctPre g = true)
    (hclean : ∀ g ∈ groups, groupClean g = true) :
    saTotal (batchesOf n groups) = some (saSpecAll groups.flatten : Int) :=
  saTotal_batches n groups (fun g hg => ⟨hshape g hg, hdist g hg, hclean g hg⟩)

theorem singletons_ok (n : Nat) (fs : List FiberIn)
    (hshape : ∀ f ∈ fs, f.oi.length + 1 = n ∧ f.pre.length + 1 = n) :
    GroupsOk n (fs.map (fun f => [f])) := by
  intro g hg
  obtain ⟨f, hf, rfl⟩ := List.mem_map.1 hg
  refine ⟨?_, rfl, rfl⟩
  intro f' hf'
  rw [List.mem_singleton.1 hf']
  exact hshape f hf

theorem flatten_singletons (fs : List FiberIn) : (fs.map (fun f => [f])).flatten = fs := by
  induction fs with
  | nil => rfl
  | cons f r ih => simp [ih]

/-- **Two-finger, fed fiber by fiber** (no proviso: empty operands, disjoint, interleaved,
    identical lists, any number of fibers, equal or different outer points): the total is
    the number of merge comparison steps. -/
theorem twoFinger_spec (n : Nat) (fs : List FiberIn)
    (hshape : ∀ f ∈ fs, f.oi.length + 1 = n ∧ f.pre.length + 1 = n) :
    tfTotal (batchesOf n (fs.map (fun f => [f]))) = some (tfSpecAll fs : Int) := by
  have := tfTotal_batches n _ (singletons_ok n fs hshape)
  rwa [flatten_singletons] at this

/-- **Skip-ahead, fed fiber by fiber**: maximal same-side runs plus matches. -/
theorem skipAhead_spec (n : Nat) (fs : List FiberIn)
    (hshape : ∀ f ∈ fs, f.oi.length + 1 = n ∧ f.pre.length + 1 = n) :
    saTotal (batchesOf n (fs.map (fun f => [f]))) = some (saSpecAll fs : Int) := by
  have := saTotal_batches n _ (singletons_ok n fs hshape)
  rwa [flatten_singletons] at this

/-! ## Leader-follower -/

/-- **Leader-follower**: fed the leader trace of leader-follower intersections, in any
    batching, the total is the number of elements the leader presented. -/
theorem leaderFollower_spec (n : Nat) (groups : List (List FiberIn)) :
    lfTotal (leaderBatchesOf n groups) = (lfSpecAll groups.flatten : Int) :=
  lfTotal_leader n groups

/-- … and for any trace at all (e.g. an `intersect_i` trace of `a & b`, as the test-suite
    feeds it) the total is the number of rows behind the header, however the rows are
    distributed over the calls. -/
theorem leaderFollower_rows (b : List TRow) (r : List (List TRow)) :
    lfTotal (b :: r) = (((b :: r).map List.length).sum : Nat) - 1 :=
  lfTotal_cons b r

/-! ## Batching -/

/-- **Batching is irrelevant (partial)**: two groupings of the same fibers that both satisfy
    the provisos of `twoFinger_batched_partial` give the same totals; for the
    leader-follower model any two groupings do. -/
theorem batching_irrelevant_partial (n : Nat) (g1 g2 : List (List FiberIn))
    (hsame : g1.flatten = g2.flatten)
    (h1 : GroupsOk n g1) (h2 : GroupsOk n g2) :
    tfTotal (batchesOf n g1) = tfTotal (batchesOf n g2) ∧
    saTotal (batchesOf n g1) = saTotal (batchesOf n g2) ∧
    lfTotal (leaderBatchesOf n g1) = lfTotal (leaderBatchesOf n g2) := by
  refine ⟨?_, ?_, ?_⟩
  · rw [tfTotal_batches n g1 h1, tfTotal_batches n g2 h2, hsame]
  · rw [saTotal_batches n g1 h1, saTotal_batches n g2 h2, hsame]
  · rw [lfTotal_leader, lfTotal_leader, hsame]

/-! ## The unrestricted claim fails for the code as it is (DESIGN §7 #14) -/

/-- two fibers under one outer rank (points 0 and 1), each `a = [1]`, `b = [1, 2]`: the merge of
    each ends with a match that exhausts `a` only -/
def wit : List FiberIn := [⟨[0], [0], [1], [1, 2]⟩, ⟨[1], [1], [1], [1, 2]⟩]

/-- Fed in one shot both models report 3, fed fiber by fiber they report 2 = the merge
    steps: the totals DO depend on the batching, and no comparison should span two fibers. -/
theorem oneShot_counterexample :
    (∀ f ∈ wit, f.oi.length + 1 = 2 ∧ f.pre.length + 1 = 2) ∧ distinctPre wit = true ∧
    tfSpecAll wit = 2 ∧ saSpecAll wit = 2 ∧
    tfTotal (batchesOf 2 (wit.map (fun f => [f]))) = some 2 ∧
    saTotal (batchesOf 2 (wit.map (fun f => [f]))) = some 2 ∧
    tfTotal (batchesOf 2 [wit]) = some 3 ∧
    saTotal (batchesOf 2 [wit]) = some 3 := by
  refine ⟨by simp [wit], by simp [wit, distinctPre], ?_, ?_, ?_, ?_, ?_, ?_⟩
  · simp [wit, tfSpecAll, tfSpec, mergeLabels]
  · simp [wit, saSpecAll, saSpec, mergeLabels, sameSideRuns]
  · simp [wit, tfTotal, batchesOf, groupRows, FiberIn.rows, andUses, mkRows, feed2, tfAdd, startPts,
      TRow.point, TRow.len, tfLoop, lexLt, endOf, List.zipIdx]
  · simp [wit, saTotal, batchesOf, groupRows, FiberIn.rows, andUses, mkRows, feed2, saAdd, startPts,
      TRow.point, TRow.len, saLoop, lexLt, endOf, fiberOf, List.zipIdx]
  · simp [wit, tfTotal, batchesOf, groupRows, FiberIn.rows, andUses, mkRows, feed2, tfAdd, startPts,
      TRow.point, TRow.len, tfLoop, lexLt, endOf, List.zipIdx]
  · simp [wit, saTotal, batchesOf, groupRows, FiberIn.rows, andUses, mkRows, feed2, saAdd, startPts,
      TRow.point, TRow.len, saLoop, lexLt, endOf, fiberOf, List.zipIdx]

/-- a fiber with exactly one empty operand in front of another one: the call raises -/
theorem oneShot_assertion_counterexample :
    tfTotal (batchesOf 2 [[⟨[0], [0], [], [2]⟩, ⟨[1], [2], [1], [1]⟩]]) = none := by
  simp [tfTotal, batchesOf, groupRows, FiberIn.rows, andUses, mkRows, feed2, tfAdd, startPts,
    TRow.point, TRow.len, List.zipIdx]

/-! ## Non-vacuity: the hypotheses hold for non-trivial values -/

/-- a mixed batching: a clean fiber (ends on a match exhausting both operands, with a run of
    two on the left) followed in the same call by an unclean last one, then a call of its own -/
def exGroups : List (List FiberIn) :=
  [[⟨[0], [0], [1, 2, 5], [3, 5]⟩, ⟨[1], [4], [1], [1, 2]⟩], [⟨[2], [6], [], [7]⟩]]

example : (∀ g ∈ exGroups, ∀ f ∈ g, f.oi.length + 1 = 2 ∧ f.pre.length + 1 = 2) ∧
    (∀ g ∈ exGroups, distinctPre g = true) ∧ (∀ g ∈ exGroups, groupClean g = true) ∧
    tfSpecAll exGroups.flatten = 5 ∧ saSpecAll exGroups.flatten = 4 := by
  refine ⟨by simp [exGroups], by simp [exGroups, distinctPre], ?_, ?_, ?_⟩
  · simp [exGroups, groupClean, clean, cleanEnd]
  · simp [exGroups, tfSpecAll, tfSpec, mergeLabels]
  · simp [exGroups, saSpecAll, saSpec, mergeLabels, sameSideRuns]

example : lfSpecAll exGroups.flatten = 4 := by simp [exGroups, lfSpecAll]

example : GroupsOk 2 exGroups ∧ GroupsOk 2 (exGroups.flatten.map (fun f => [f])) := by
  refine ⟨?_, singletons_ok 2 _ (by simp [exGroups])⟩
  intro g hg
  simp only [exGroups, List.mem_cons, List.not_mem_nil, or_false] at hg
  rcases hg with rfl | rfl
  · exact ⟨by simp [ShapeOk], by simp [distinctPre], by simp [groupClean, clean, cleanEnd]⟩
  · exact ⟨by simp [ShapeOk], by simp [distinctPre], by simp [groupClean]⟩

end Ft
