/-
  C19 — intersection and merge cost models count what the hardware idiom would do.
  Property theorems only; helper lemmas live in FtProofs/Lemmas/{Intersect,Compute,MergeInf,MergeEmit}.lean.

  Vocabulary (FtModel/Intersect.lean): a `FiberIn` is one intersected fiber pair as the loop
  nest presents it (iteration stamps `oi` and coordinates `pre` of the outer loop ranks, the
  presented coordinate lists `a`, `b`); `batchesOf n groups` are the rows that successive
  `Metrics.consumeTrace` calls return when the two `intersect_i` traces of `a & b` are
  consumed after every group of consecutive fibers (header with the first); `tfTotal` /
  `saTotal` / `lfTotal` feed them to a fresh Two-Finger / Skip-Ahead / Leader-Follower
  intersector (`none` = the call raises) and read `getNumIntersects()`.
  `ascPre g`: the outer-loop points of the fibers of one call ascend (Python's list order) —
  what every loop nest produces, and the only way a trace can tell two fibers apart.
-/
import FtProofs.Lemmas.Intersect
import FtProofs.Lemmas.Compute
import FtProofs.Lemmas.MergeInf
import FtProofs.Lemmas.MergeEmit
set_option linter.unusedSectionVars false
set_option linter.unusedSimpArgs false
set_option linter.unusedVariables false
namespace Ft

/-! ## Two-finger and skip-ahead -/

/-- **Two-finger, any batching.**  Whatever the grouping of the fibers into `addTraces`
    calls (fiber by fiber, one shot, mixed, with calls that receive nothing before the first,
    between two, or after the last intersection), the total is the number of comparison steps
    of a two-finger merge of each fiber's two coordinate lists (before either is exhausted),
    summed over the fibers: no comparison spans two fibers.  Operands may be empty, disjoint,
    interleaved, identical; inside one call the outer-loop points ascend. -/
theorem twoFinger_batched (n : Nat) (groups : List (List FiberIn))
    (hshape : ∀ g ∈ groups, ∀ f ∈ g, f.oi.length + 1 = n ∧ f.pre.length + 1 = n)
    (hasc : ∀ g ∈ groups, ascPre g = true) :
    tfTotal (batchesOf n groups) = some (tfSpecAll groups.flatten : Int) :=
  tfTotal_batches n groups (fun g hg => ⟨hshape g hg, hasc g hg⟩)

/-- **Skip-ahead, any batching** (empty calls anywhere): maximal same-side runs plus matches
    of every fiber's merge. -/
theorem skipAhead_batched (n : Nat) (groups : List (List FiberIn))
    (hshape : ∀ g ∈ groups, ∀ f ∈ g, f.oi.length + 1 = n ∧ f.pre.length + 1 = n)
    (hasc : ∀ g ∈ groups, ascPre g = true) :
    saTotal (batchesOf n groups) = some (saSpecAll groups.flatten : Int) :=
  saTotal_batches n groups (fun g hg => ⟨hshape g hg, hasc g hg⟩)

/-- **Two-finger, fed fiber by fiber** (no condition on the outer points: they may even be
    equal, as when the same pair is intersected repeatedly without an outer rank). -/
theorem twoFinger_spec (n : Nat) (fs : List FiberIn)
    (hshape : ∀ f ∈ fs, f.oi.length + 1 = n ∧ f.pre.length + 1 = n) :
    tfTotal (batchesOf n (fs.map (fun f => [f]))) = some (tfSpecAll fs : Int) := by
  have := tfTotal_batches n _ (singletons_ok n fs hshape)
  rwa [flatten_singletons] at this

/-- **Skip-ahead, fed fiber by fiber**: maximal same-side runs plus matches. -/
theorem skipAhead_spec (n : Nat) (fs : List FiberIn)
    (hshape : ∀ f ∈ fs, f.oi.length + 1 = n ∧ f.pre.length + 1 = n) :
    saTotal (batchesOf n (fs.map (fun f => [f]))) = some (saSpecAll fs : Int) := by
  have := saTotal_batches n _ (singletons_ok n fs hshape)
  rwa [flatten_singletons] at this

/-! ## Leader-follower -/

/-- **Leader-follower**: fed the leader trace of leader-follower intersections, in any
    batching (calls that receive nothing included, anywhere — even if no intersection ever
    runs), the total is the number of elements the leader presented. -/
theorem c19_leaderFollower_spec (n : Nat) (groups : List (List FiberIn)) :
    lfTotal (leaderBatchesOf n groups) = (lfSpecAll groups.flatten : Int) :=
  lfTotal_leader n groups

/-- … and for any trace at all (e.g. an `intersect_i` trace of `a & b`, as the test-suite
    feeds it) the total is the number of rows behind the header, however the rows are
    distributed over the calls (empty calls included; 0 as long as no row has arrived). -/
theorem leaderFollower_rows (bs : List (List TRow)) :
    lfTotal bs = ((bs.map List.length).sum : Nat) - (if bs.all List.isEmpty then (0 : Int) else 1) :=
  lfTotal_rows bs

/-! ## Batching -/

/-- **Batching is irrelevant**: any two groupings of the same fibers into calls — empty calls
    anywhere — give the same totals for all three models (`GroupsOk n g`: every fiber has rows
    of `n` loop ranks and inside each call the outer points ascend). -/
theorem batching_irrelevant (n : Nat) (g1 g2 : List (List FiberIn))
    (hsame : g1.flatten = g2.flatten)
    (h1 : GroupsOk n g1) (h2 : GroupsOk n g2) :
    tfTotal (batchesOf n g1) = tfTotal (batchesOf n g2) ∧
    saTotal (batchesOf n g1) = saTotal (batchesOf n g2) ∧
    lfTotal (leaderBatchesOf n g1) = lfTotal (leaderBatchesOf n g2) := by
  refine ⟨?_, ?_, ?_⟩
  · rw [tfTotal_batches n g1 h1, tfTotal_batches n g2 h2, hsame]
  · rw [saTotal_batches n g1 h1, saTotal_batches n g2 h2, hsame]
  · rw [lfTotal_leader, lfTotal_leader, hsame]

/-- in particular one shot = fiber by fiber -/
theorem oneShot_eq_fiberByFiber (n : Nat) (fs : List FiberIn)
    (hshape : ∀ f ∈ fs, f.oi.length + 1 = n ∧ f.pre.length + 1 = n) (hasc : ascPre fs = true) :
    tfTotal (batchesOf n [fs]) = tfTotal (batchesOf n (fs.map (fun f => [f]))) ∧
    saTotal (batchesOf n [fs]) = saTotal (batchesOf n (fs.map (fun f => [f]))) := by
  have h1 : GroupsOk n [fs] := by
    intro g hg
    rw [List.mem_singleton.1 hg]
    exact ⟨hshape, hasc⟩
  have h2 := singletons_ok n fs hshape
  have hs : [fs].flatten = (fs.map (fun f => [f])).flatten := by
    rw [flatten_singletons]; simp
  exact ⟨(batching_irrelevant n _ _ hs h1 h2).1, (batching_irrelevant n _ _ hs h1 h2).2.1⟩

/-! ## Non-vacuity, and the former counterexamples (DESIGN §7 #14, repaired) -/

/-- two fibers under one outer rank (points 0 and 1), each `a = [1]`, `b = [1, 2]`: the merge of
    each ends with a match that exhausts `a` only, leaving a lone trailing row of `b` -/
def wit : List FiberIn := [⟨[0], [0], [1], [1, 2]⟩, ⟨[1], [1], [1], [1, 2]⟩]

/-- fed in one shot both models report 2 = the merge steps (before the repair: 3) -/
example :
    (∀ f ∈ wit, f.oi.length + 1 = 2 ∧ f.pre.length + 1 = 2) ∧ ascPre wit = true ∧
    tfSpecAll wit = 2 ∧ saSpecAll wit = 2 ∧
    tfTotal (batchesOf 2 [wit]) = some 2 ∧
    saTotal (batchesOf 2 [wit]) = some 2 := by
  refine ⟨by simp [wit], by simp [wit, ascPre, c19_lexLt], ?_, ?_, ?_, ?_⟩
  · simp [wit, tfSpecAll, tfSpec, mergeLabels]
  · simp [wit, saSpecAll, saSpec, mergeLabels, sameSideRuns]
  · simp [wit, tfTotal, batchesOf, groupRows, FiberIn.rows, andUses, mkRows, feed2, tfAdd, startPts,
      TRow.point, TRow.len, tfLoop, c19_lexLt, endOf, List.zipIdx]
  · simp [wit, saTotal, batchesOf, groupRows, FiberIn.rows, andUses, mkRows, feed2, saAdd, startPts,
      TRow.point, TRow.len, saLoop, c19_lexLt, endOf, fiberOf, List.zipIdx]

/-- calls made before the first intersection (empty traces, e.g. feeding at the top of every
    outer iteration) and after the last one: all three models report the fiber-by-fiber totals
    (before the repair the two-finger model raised IndexError and the leader-follower total was
    -1 until the header arrived) -/
example :
    tfTotal (batchesOf 2 ([] :: [wit] ++ [[]])) = some 2 ∧
    saTotal (batchesOf 2 ([] :: [wit] ++ [[]])) = some 2 ∧
    lfTotal (leaderBatchesOf 2 ([] :: [wit] ++ [[]])) = 2 ∧
    lfTotal (leaderBatchesOf 2 [[], []]) = 0 := by
  refine ⟨?_, ?_, ?_, ?_⟩
  · simp [wit, tfTotal, batchesOf, groupRows, FiberIn.rows, andUses, mkRows, feed2, tfAdd, startPts,
      TRow.point, TRow.len, tfLoop, c19_lexLt, endOf, List.zipIdx]
  · simp [wit, saTotal, batchesOf, groupRows, FiberIn.rows, andUses, mkRows, feed2, saAdd, startPts,
      TRow.point, TRow.len, saLoop, c19_lexLt, endOf, fiberOf, List.zipIdx]
  · simp [wit, lfTotal, leaderBatchesOf, FiberIn.leaderRows, mkRows, lfAdd, List.zipIdx]
  · simp [lfTotal, leaderBatchesOf, lfAdd]

/-- a fiber with exactly one empty operand in front of another one (before the repair: the
    call raised) -/
example : tfTotal (batchesOf 2 [[⟨[0], [0], [], [2]⟩, ⟨[1], [2], [1], [1]⟩]]) = some 1 := by
  simp [tfTotal, batchesOf, groupRows, FiberIn.rows, andUses, mkRows, feed2, tfAdd, startPts,
    TRow.point, TRow.len, tfLoop, c19_lexLt, endOf, List.zipIdx]

/-- a mixed batching: a fiber with a run of two on the left, one ending on a match with a
    trailing row, one with an empty operand -/
def exGroups : List (List FiberIn) :=
  [[⟨[0], [0], [1, 2, 5], [3, 5]⟩, ⟨[1], [4], [1], [1, 2]⟩, ⟨[2], [6], [], [7]⟩], [⟨[3], [8], [4], [4]⟩]]

example : (∀ g ∈ exGroups, ∀ f ∈ g, f.oi.length + 1 = 2 ∧ f.pre.length + 1 = 2) ∧
    (∀ g ∈ exGroups, ascPre g = true) ∧
    tfSpecAll exGroups.flatten = 6 ∧ saSpecAll exGroups.flatten = 5 ∧ lfSpecAll exGroups.flatten = 5 := by
  refine ⟨by simp [exGroups], by simp [exGroups, ascPre, c19_lexLt], ?_, ?_, ?_⟩
  · simp [exGroups, tfSpecAll, tfSpec, mergeLabels]
  · simp [exGroups, saSpecAll, saSpec, mergeLabels, sameSideRuns]
  · simp [exGroups, lfSpecAll]

example : GroupsOk 2 exGroups ∧ GroupsOk 2 (exGroups.flatten.map (fun f => [f])) := by
  refine ⟨?_, singletons_ok 2 _ (by simp [exGroups])⟩
  intro g hg
  simp only [exGroups, List.mem_cons, List.not_mem_nil, or_false] at hg
  rcases hg with rfl | rfl
  · exact ⟨by simp [ShapeOk], by simp [ascPre, c19_lexLt]⟩
  · exact ⟨by simp [ShapeOk], by simp [ascPre]⟩

/-- groupings with calls that receive nothing (before, in between, at the end) satisfy the hypotheses -/
example : GroupsOk 2 ([] :: exGroups ++ [[]]) := by
  intro g hg
  simp only [exGroups, List.cons_append, List.nil_append, List.mem_cons, List.not_mem_nil, or_false] at hg
  rcases hg with rfl | rfl | rfl | rfl
  · exact ⟨by simp [ShapeOk], rfl⟩
  · exact ⟨by simp [ShapeOk], by simp [ascPre, c19_lexLt]⟩
  · exact ⟨by simp [ShapeOk], by simp [ascPre]⟩
  · exact ⟨by simp [ShapeOk], rfl⟩

/-! ## The swap-count model (`Compute.numSwaps`)

`numSwapsTree e radix lat depth t` is `_numSwapsTree(root, depth, radix, next_latency)` on a
tree with `e + 2 + depth` ranks (any payload type: values are never read); `mergeNodes e depth t`
lists, for every fiber of level `depth`, the coordinate lists that are merged there (the
stored coordinates of every sub-fiber holding at least one); `RadixOk radix`: the radix is
`float("inf")` or at least 2 (radix 1 does not terminate in Python). -/

/-- **Finite latency**: at every fiber of the target level, each merge round over `k > 1`
    lists holding `n` coordinates in total is charged `lat · (k + n)` — the latency per list
    and per element — and leaves ⌈k / min(radix, k)⌉ lists (`roundsCost`). -/
theorem swaps_finite {ν : Type} (e : Nat) (radix : Option Nat) (hr : RadixOk radix) (lat depth : Nat)
    (t : Tree Int ν (e + 2 + depth)) :
    numSwapsTree e radix (Lat.fin lat) depth t =
      ((mergeNodes e depth t).map (fun lists => roundsCost radix lat (total lists) lists.length)).sum := by
  rw [numSwapsTree_eq_nodes]
  congr 1
  apply List.map_congr_left
  intro lists _
  exact swapsAt_fin radix hr lat lists

/-- the rounds: `roundsCost` unfolded once -/
theorem roundsCost_round (radix : Option Nat) (lat n k : Nat) :
    roundsCost radix lat n k =
      if 2 ≤ k ∧ 2 ≤ clampRadix radix k then
        lat * (k + n) + roundsCost radix lat n (ceilDiv k (clampRadix radix k))
      else 0 :=
  roundsCost_eq radix lat n k

/-- **Unbounded latency ("N")**: at every fiber of the target level, each round merges the
    lists in groups of `min(radix, k)` through a sorted buffer of list heads; bringing a
    coordinate into the buffer is charged one comparison per buffered head that is emitted
    before it (smaller coordinate, or equal coordinate and larger list index) plus one
    (`insertMerge`, stated on the coordinates themselves — the implementation works on negated
    coordinates, stacks and `bisect_right` positions). -/
theorem swaps_infinite (e : Nat) (radix : Option Nat) (hr : RadixOk radix) (depth : Nat)
    (t : Tree Int Int (e + 2 + depth)) (hwf : wfB (e + 2 + depth) t = true) :
    numSwapsTree e radix Lat.inf depth t = ((mergeNodes e depth t).map (roundsInf radix)).sum := by
  have hwf := (c19_wfB_iff _ t).1 hwf
  rw [numSwapsTree_eq_nodes]
  congr 1
  apply List.map_congr_left
  intro lists hl
  rw [swapsAt_inf radix hr lists, map_pySort_of_sorted lists (mergeNodes_sorted e depth t hwf lists hl)]

/-- the rounds: `roundsInf` unfolded once -/
theorem roundsInf_round (radix : Option Nat) (lists : List (List Int)) :
    roundsInf radix lists =
      if 2 ≤ lists.length ∧ 2 ≤ clampRadix radix lists.length then
        (((chunks (clampRadix radix lists.length) lists).map insertMerge).map (·.1)).sum +
          roundsInf radix (((chunks (clampRadix radix lists.length) lists).map insertMerge).map (·.2))
      else 0 :=
  roundsInf_eq radix lists

/-- a merge emits every coordinate of its lists exactly once: what it leaves for the next
    round is the sorted union of its lists -/
theorem insertMerge_leaves_sorted_union (lists : List (List Int)) :
    (insertMerge lists).2 = pySort lists.flatten :=
  insertMerge_sorted lists

/-- **Payload independence**: the count is a function of the coordinate skeleton alone
    (`skel` erases every payload value; `swapsSpec` is computed from the skeleton). -/
theorem swaps_skeleton {ν : Type} (e : Nat) (radix : Option Nat) (lat : Lat) (depth : Nat)
    (t : Tree Int ν (e + 2 + depth)) :
    numSwapsTree e radix lat depth t = swapsSpec e radix lat depth (skel (e + 2 + depth) t) :=
  numSwapsTree_skel e radix lat depth t

/-- two trees with the same coordinates get the same count, whatever their payload values
    (explicit defaults included) and whatever their payload types -/
theorem swaps_payload_independent {ν ν' : Type} (e : Nat) (radix : Option Nat) (lat : Lat)
    (depth : Nat) (t : Tree Int ν (e + 2 + depth)) (t' : Tree Int ν' (e + 2 + depth))
    (hs : skel (e + 2 + depth) t = skel (e + 2 + depth) t') :
    numSwapsTree e radix lat depth t = numSwapsTree e radix lat depth t' := by
  rw [numSwapsTree_skel e radix lat depth t, numSwapsTree_skel e radix lat depth t', hs]

/-- the executable specifications the driver evaluates on the implementation's result
    (`swapsSpecFin`: closed-form rounds on the skeleton; `swapsSpecInf`: insertion-buffer
    rounds on the skeleton) are what the model computes -/
theorem swaps_finite_skeleton {ν : Type} (e : Nat) (radix : Option Nat) (hr : RadixOk radix)
    (lat depth : Nat) (t : Tree Int ν (e + 2 + depth)) :
    numSwapsTree e radix (Lat.fin lat) depth t = swapsSpecFin e radix lat depth (skel (e + 2 + depth) t) := by
  rw [swaps_finite e radix hr lat depth t, mergeNodes_skel e depth t, swapsSpecFin]

theorem swaps_infinite_skeleton (e : Nat) (radix : Option Nat) (hr : RadixOk radix)
    (depth : Nat) (t : Tree Int Int (e + 2 + depth)) (hwf : wfB (e + 2 + depth) t = true) :
    numSwapsTree e radix Lat.inf depth t = swapsSpecInf e radix depth (skel (e + 2 + depth) t) := by
  rw [swaps_infinite e radix hr depth t hwf, mergeNodes_skel e depth t, swapsSpecInf]

/-- ranks M, K: M0 ↦ {1: v}, M1 ↦ {2: 5, 3: 5} -/
def witTree (v : Int) : Tree Int Int 2 :=
  show List (Int × List (Int × Int)) from [(0, [(1, v)]), (1, [(2, 5), (3, 5)])]

/-- the former counterexample (DESIGN §7 #13, repaired): payload 0 or 7 at one leaf, 5 swaps
    either way (before the repair: 0 and 5) -/
example :
    skel 2 (witTree 0) = skel 2 (witTree 7) ∧
    numSwapsTree 0 (some 2) (Lat.fin 1) 0 (witTree 7) = 5 ∧
    numSwapsTree 0 (some 2) (Lat.fin 1) 0 (witTree 0) = 5 := by
  have h1 : roundsCost (some 2) 1 3 1 = 0 := roundsCost_small _ _ _ _ (by omega)
  have h2 : roundsCost (some 2) 1 3 2 = 5 := by
    rw [roundsCost_eq]; simp [clampRadix, ceilDiv, h1]
  have m7 : mergeNodes 0 0 (witTree 7) = [[[1], [2, 3]]] := by decide
  have m0 : mergeNodes 0 0 (witTree 0) = [[[1], [2, 3]]] := by decide
  refine ⟨rfl, ?_, ?_⟩
  · rw [swaps_finite 0 (some 2) (by simp [RadixOk]) 1 0 (witTree 7), m7]
    simp [total, h2]
  · rw [swaps_finite 0 (some 2) (by simp [RadixOk]) 1 0 (witTree 0), m0]
    simp [total, h2]

/-- non-vacuity: three lists, radix 2: two rounds, 3·(3+8) + 3·(2+8) (test_num_swaps_finite_radix) -/
example : RadixOk (some 2) ∧ roundsCost (some 2) 3 8 3 = 63 := by
  refine ⟨by simp [RadixOk], ?_⟩
  have h1 : roundsCost (some 2) 3 8 1 = 0 := roundsCost_small _ _ _ _ (by omega)
  have h2 : roundsCost (some 2) 3 8 2 = 30 := by
    rw [roundsCost_eq]; simp [clampRadix, ceilDiv, h1]
  rw [roundsCost_eq]; simp [clampRadix, ceilDiv, h2]

/-- non-vacuity (test_num_swaps_undefined_next): three lists in one merge, 15 comparisons -/
example : (insertMerge [[1, 3, 5], [0, 2, 3], [1, 4]]).1 = 15 := by decide

example : wfB 2 (witTree 7) = true := by decide

end Ft
