/- C19 — property theorems (to be written) -/
