/-
  C05 — populate (z << a) offers exactly a's coordinates and keeps only what was written.
  Property theorems only; helpers in FtProofs/Lemmas/PopLemmas.lean.
-/
import FtProofs.Lemmas.PopLemmas
set_option linter.unusedSectionVars false
set_option linter.unusedSimpArgs false
namespace Ft
open StrictTotal

section
variable {κ π β : Type} [LT κ] [DecidableRel (α := κ) (· < ·)] [DecidableEq κ] [StrictTotal κ]
variable (mk : π) (rm : Bool → π → Bool) (body : κ → π → β → π)

/-- **the loop as coded** (`a_pos` advanced by a bisect in the suffix, `get_payload_pos`
    shortcut, creation at `a_pos`, removal at `bisect_left`, `a_pos -= 1`) **is the declarative
    merge**, and yields exactly the source's coordinates in order, each with the destination's
    current payload (the default if absent) and the source's payload — for every sorted
    destination, every sorted source and every loop body. -/
theorem populate_eq_spec (z : Fib κ π) (b : Fib κ β) (hz : Sorted z) (hb : Sorted b) :
    popLoop mk rm body z 0 b = (popSpec mk rm body z b, popYields mk z b) := by
  have := popLoop_inv mk rm body b [] z (by simpa using hz) hb (fun x hx => by cases hx)
  simpa using this

/-- **structure of the result**: coordinates of the destination outside the source are untouched;
    a source coordinate leaves the payload the body produced, unless the removal rule drops it -/
theorem populate_struct (z : Fib κ π) (b : Fib κ β) (hz : Sorted z) (hb : Sorted b) :
    Sorted (popLoop mk rm body z 0 b).1 ∧
    ∀ c, lookup (popLoop mk rm body z 0 b).1 c = popExpect mk rm body z b c := by
  rw [populate_eq_spec mk rm body z b hz hb]
  exact ⟨popSpec_sorted mk rm body z b hz hb, popSpec_lookup mk rm body z b hz hb⟩

/-- the executable structural spec accepts the loop's result … -/
theorem populate_specB_sound [DecidableEq π] (z : Fib κ π) (b : Fib κ β) (hz : Sorted z) (hb : Sorted b) :
    popSpecB mk rm body z b (popLoop mk rm body z 0 b).1 = true := by
  obtain ⟨h1, h2⟩ := populate_struct mk rm body z b hz hb
  unfold popSpecB
  rw [Bool.and_eq_true, List.all_eq_true]
  exact ⟨(sortedB_iff _).2 h1, fun c _ => by simpa using h2 c⟩

/-- … and accepts nothing else: a sorted list with the expected lookups is the result.
    (So evaluating the spec on the implementation's destination and comparing it with the
    model's destination are the same test.) -/
theorem populate_specB_complete [DecidableEq π] (z : Fib κ π) (b : Fib κ β) (hz : Sorted z) (hb : Sorted b)
    (out : Fib κ π) (h : popSpecB mk rm body z b out = true) : out = (popLoop mk rm body z 0 b).1 := by
  obtain ⟨h1, h2⟩ := populate_struct mk rm body z b hz hb
  unfold popSpecB at h
  rw [Bool.and_eq_true, List.all_eq_true] at h
  obtain ⟨hs, hall⟩ := h
  have hso := (sortedB_iff _).1 hs
  -- both lists are sorted and have the same lookup function on all relevant keys
  have hlk : ∀ c, lookup out c = lookup (popLoop mk rm body z 0 b).1 c := by
    intro c
    rw [h2 c]
    by_cases hk : HasKey out c ∨ HasKey z c ∨ HasKey b c
    · have : c ∈ out.map (·.1) ++ z.map (·.1) ++ b.map (·.1) := by
        simp only [List.mem_append, List.mem_map]
        rcases hk with ⟨x, hx, rfl⟩ | ⟨x, hx, rfl⟩ | ⟨x, hx, rfl⟩
        · exact Or.inl (Or.inl ⟨x, hx, rfl⟩)
        · exact Or.inl (Or.inr ⟨x, hx, rfl⟩)
        · exact Or.inr ⟨x, hx, rfl⟩
      simpa using hall c this
    · have h1' : ¬ HasKey out c := fun h => hk (Or.inl h)
      have h2' : ¬ HasKey z c := fun h => hk (Or.inr (Or.inl h))
      have h3' : ¬ HasKey b c := fun h => hk (Or.inr (Or.inr h))
      simp [popExpect, lookup_none_of_not_hasKey h1', lookup_none_of_not_hasKey h2',
        lookup_none_of_not_hasKey h3']
  apply sorted_ext_of_fn (F := fun c => (lookup out c).getD mk) out _ hso h1
  · intro r hr; rw [lookup_of_sorted_mem hso hr]; rfl
  · intro r hr; rw [hlk r.1, lookup_of_sorted_mem h1 hr]; rfl
  · intro c
    rw [← hasCoord_iff, ← hasCoord_iff, hasCoord_iff_lookup, hasCoord_iff_lookup, hlk c]

end

/-! ### tree level: content, residue, well-formedness, nesting -/
section
variable {κ ν β : Type} [LT κ] [DecidableRel (α := κ) (· < ·)] [DecidableEq κ] [StrictTotal κ] [DecidableEq ν]

/-- **content after the loop** = previous content overridden by what the body wrote: at a
    coordinate the source does not present nothing changes; at a presented coordinate the values
    are those of the payload the body left (a dropped payload reads as the default everywhere,
    which is what it held).  Holds at the leaf rank and at every interior rank, hence nested
    populate loops (a `body` that is itself a `populate` one level down) compose level by level. -/
theorem populate_val (dflt : ν) (d : Nat) (body : κ → Tree κ ν d → β → Tree κ ν d)
    (z : Tree κ ν (d + 1)) (src : Fib κ β) (hz : WF (d + 1) z) (hb : Sorted src) (c : κ) (q : List κ) :
    val dflt (d + 1) (populate dflt d body z src).1 (c :: q) =
      match lookup src c with
      | none => val dflt (d + 1) z (c :: q)
      | some bp => val dflt d (body c ((lookup (show List (κ × Tree κ ν d) from z) c).getD (defaultTree dflt d)) bp) q := by
  have hl := (populate_struct (defaultTree dflt d) (rmOf dflt d) body
    (show List (κ × Tree κ ν d) from z) src hz.sorted hb).2 c
  simp only [val]
  show (match lookup (popLoop (defaultTree dflt d) (rmOf dflt d) body (show List (κ × Tree κ ν d) from z) 0 src).1 c with
    | some s => val dflt d s q | none => dflt) = _
  rw [hl]
  unfold popExpect
  cases hs : lookup src c with
  | none => rfl
  | some bp =>
    simp only [popAt]
    by_cases hr : rmOf dflt d (lookup (show List (κ × Tree κ ν d) from z) c).isNone
        (body c ((lookup (show List (κ × Tree κ ν d) from z) c).getD (defaultTree dflt d)) bp) = true
    · simp only [hr, if_true]
      -- a dropped payload reads as the default
      cases d with
      | zero =>
        have : (show ν from body c ((lookup (show List (κ × Tree κ ν 0) from z) c).getD (defaultTree dflt 0)) bp) = dflt := by
          simpa [rmOf, rmLeaf] using hr
        simp only [val]; exact this.symm
      | succ d' =>
        have hnil : (show List (κ × Tree κ ν d') from
            body c ((lookup (show List (κ × Tree κ ν (d' + 1)) from z) c).getD (defaultTree dflt (d' + 1))) bp) = [] := by
          have := hr
          simp only [rmOf, rmFiber, Bool.and_eq_true] at this
          exact List.isEmpty_iff.1 this.2
        cases q with
        | nil => rfl
        | cons c' q' =>
          simp only [val]
          rw [show lookup (show List (κ × Tree κ ν d') from
            body c ((lookup (show List (κ × Tree κ ν (d' + 1)) from z) c).getD (defaultTree dflt (d' + 1))) bp) c' = none from by
              rw [hnil]; rfl]
    · simp only [hr, Bool.false_eq_true, if_false]

/-- **no residue**: an element that the loop created and kept is not a default leaf / not an
    element-less sub-fiber -/
theorem populate_no_residue (dflt : ν) (d : Nat) (body : κ → Tree κ ν d → β → Tree κ ν d)
    (z : Tree κ ν (d + 1)) (src : Fib κ β) (hz : WF (d + 1) z) (hb : Sorted src) (c : κ) (bp : β)
    (hsrc : lookup src c = some bp) (hnew : lookup (show List (κ × Tree κ ν d) from z) c = none) (p : Tree κ ν d)
    (hp : lookup (populate dflt d body z src).1 c = some p) : rmOf dflt d true p = false := by
  have hl := (populate_struct (defaultTree dflt d) (rmOf dflt d) body
    (show List (κ × Tree κ ν d) from z) src hz.sorted hb).2 c
  have hp' : lookup (popLoop (defaultTree dflt d) (rmOf dflt d) body (show List (κ × Tree κ ν d) from z) 0 src).1 c = some p := hp
  rw [hl] at hp'
  simp only [popExpect, hsrc, popAt, hnew, Option.isNone_none, Option.getD_none] at hp'
  by_cases hr : rmOf dflt d true (body c (defaultTree dflt d) bp) = true
  · simp [hr] at hp'
  · simp only [hr, Bool.false_eq_true, if_false, Option.some.injEq] at hp'
    rw [← hp']; simpa using hr

/-- **well-formedness** is kept when the body keeps the offered payload well-formed -/
theorem populate_wf (dflt : ν) (d : Nat) (body : κ → Tree κ ν d → β → Tree κ ν d)
    (z : Tree κ ν (d + 1)) (src : Fib κ β)
    (hbody : ∀ c cur bp, (c, bp) ∈ src → WF d cur → WF d (body c cur bp))
    (hz : WF (d + 1) z) (hb : Sorted src) :
    WF (d + 1) (populate dflt d body z src).1 := by
  obtain ⟨h1, h2⟩ := populate_struct (defaultTree dflt d) (rmOf dflt d) body
    (show List (κ × Tree κ ν d) from z) src hz.sorted hb
  refine ⟨h1, ?_⟩
  intro e he
  have hl := h2 e.1
  have hle : lookup (popLoop (defaultTree dflt d) (rmOf dflt d) body (show List (κ × Tree κ ν d) from z) 0 src).1 e.1 = some e.2 :=
    lookup_of_sorted_mem h1 he
  rw [hle] at hl
  unfold popExpect at hl
  cases hs : lookup src e.1 with
  | none =>
    rw [hs] at hl
    exact hz.sub _ (lookup_mem hl.symm)
  | some bp =>
    rw [hs] at hl
    simp only [popAt] at hl
    split at hl
    · cases hl
    · simp only [Option.some.injEq] at hl
      rw [hl]
      apply hbody _ _ _ (lookup_mem hs)
      cases hz' : lookup (show List (κ × Tree κ ν d) from z) e.1 with
      | none => exact wf_defaultTree dflt d
      | some s => exact hz.sub _ (lookup_mem hz')

end

/-! ### non-vacuity (tests): a destination with an explicit default, overlapping source -/
section
private def zEx : Fib Int Int := [(1, 5), (3, 0), (6, 2)]
private def srcEx : Fib Int Int := [(0, 1), (3, 4), (6, 9), (7, 1)]
example : Sorted zEx := (sortedB_iff zEx).1 (by decide)
example : Sorted srcEx := (sortedB_iff srcEx).1 (by decide)
-- body: accumulate at 0 and 3, reset to default at 6, leave 7 alone; leaf removal rule
private def bodyEx : Int → Int → Int → Int := fun c cur bp => if c = 6 then 0 else if c = 7 then cur else cur + bp
private def rmEx : Bool → Int → Bool := fun _ v => v == 0
#guard (popLoop 0 rmEx bodyEx zEx 0 srcEx).1 == [(0, 1), (1, 5), (3, 4)]
#guard (popLoop 0 rmEx bodyEx zEx 0 srcEx).2 == [(0, 0, 1), (3, 0, 4), (6, 2, 9), (7, 0, 1)]
#guard popSpecB 0 rmEx bodyEx zEx srcEx [(0, 1), (1, 5), (3, 4)] && !popSpecB 0 rmEx bodyEx zEx srcEx [(0, 1), (1, 5), (3, 4), (6, 0)]
end
end Ft
