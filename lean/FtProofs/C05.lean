/- C05 — property theorems (to be written) -/
