/- C16 — property theorems (to be written) -/
