/-
  C16 — traces are well-formed: one sorted, correctly addressed row per traced event.
  Property theorems only; helper lemmas live in FtProofs/Lemmas/Trace*.lean.
-/
import FtProofs.Lemmas.TraceMachine
import FtProofs.Lemmas.TraceNest
import FtProofs.Lemmas.TraceKernel
import FtProofs.Lemmas.TraceAddr
import FtProofs.C04
namespace Ft
open Ft.C16

/-! ### the Metrics class: buffering is unobservable, memory = file, one row per traced access -/

/-- The lines of a trace (written + still buffered) do not depend on `num_cached_uses`, for every
    sequence of calls that does not restart / re-declare a trace that already has lines. -/
theorem trace_flush_independent (evs : List Ev) (n m : Nat) (k : Key)
    (hr : (run (init n) evs).restarted = false) :
    C16.content (run (init n) evs) k = C16.content (run (init m) evs) k :=
  ((Sim.init n m).run_sim evs).cont hr k

/-- … and once `endCollect` has run, the files themselves coincide. -/
theorem trace_files_flush_independent (evs : List Ev) (n m : Nat) (k : Key)
    (hr : (run (init n) evs).restarted = false)
    (hd : k ∈ (run (init n) evs).declared) (hf : fileOn (run (init n) evs) k = true) :
    (run (init n) (evs ++ [.endCollect])).disk k = (run (init m) (evs ++ [.endCollect])).disk k := by
  have hs := (Sim.init n m).run_sim evs
  have hd' : k ∈ (run (init m) evs).declared := hs.declared ▸ hd
  have hf' : fileOn (run (init m) evs) k = true := by
    have := hs.slots k
    unfold fileOn at hf ⊢
    cases h1 : (run (init n) evs).slots k <;> cases h2 : (run (init m) evs).slots k <;>
      simp_all [SlotSim]
  simp only [run, List.foldl_append, List.foldl_cons, List.foldl_nil, step]
  have e1 := endCollect_disk (run (init n) evs) k hd hf
  have e2 := endCollect_disk (run (init m) evs) k hd' hf'
  simp only [run] at e1 e2
  rw [e1, e2]
  exact congrArg some (hs.cont hr k)

/-- A trace kept both as a file and as a consumable trace delivers the same lines in memory
    (consumed so far + still held) as in the file (written + buffered). -/
theorem trace_mem_eq_file (evs : List Ev) (n : Nat) (k : Key)
    (hr : (run (init n) evs).restarted = false)
    (hf : fileOn (run (init n) evs) k = true) (hm : memOn (run (init n) evs) k = true) :
    C16.content (run (init n) evs) k = memAll (run (init n) evs) k :=
  ((MF.init n).run_mf evs) hr k hf hm

/-- `addUse` adds exactly one row — `iteration[:i+1] + point[:i] + [coord] + [pos]` — to the trace
    of its (rank, type) when that trace is declared and the rank is known, and nothing to any other
    trace. -/
theorem trace_use_one_row (s : MState) (r : String) (c pos : Int) (ty : String) (ovr : Option (List Nat))
    (k' : Key) :
    C16.content (addUse s r c pos ty ovr) k' =
      C16.content s k' ++ (if k' = (r, ty) ∧ fileOn s k' then (useLine s r c pos ovr).toList else []) ∧
    memAll (addUse s r c pos ty ovr) k' =
      memAll s k' ++ (if k' = (r, ty) ∧ memOn s k' then (useLine s r c pos ovr).toList else []) :=
  ⟨(addUse_lines s r c pos ty ovr k').1, (addUse_lines s r c pos ty ovr k').2.1⟩

/-- `_startTrace` (called by `registerRank` for every declared trace of the rank and of the ranks
    matched to it) on a trace that has no lines yet puts exactly the header
    `r_pos … , r …, fiber_pos` of the loop order down to the trace's level there.
    `_partial`: one call; that a trace of a regular run is started exactly once before its first row
    (so that the header is the first line of the file) is checked on every case (`fileShapeOK` on the
    implementation's files, equality with the model's files) but not proved as a run invariant. -/
theorem trace_header_line_partial (s : MState) (k : Key) (x : Slot) (i : Nat)
    (hs : s.slots k = some x) (hl : levelOf s k.1 = some i)
    (hc : C16.content s k = []) (hm : memAll s k = []) :
    C16.content (startTrace s k) k = (if x.file.isSome then [headerOf (s.loopOrder.take (i + 1))] else []) ∧
    memAll (startTrace s k) k = (if x.mem.isSome then [headerOf (s.loopOrder.take (i + 1))] else []) :=
  startTrace_header s k x i hs hl hc hm

/-- `incIter`, `endIter`, `consumeTrace` and `endCollect` add no line to any trace (`registerRank` and a
    `matchRanks` with an already registered rank add headers only): together with `trace_use_one_row` —
    rows come from `addUse` only, one per call, in call order. -/
theorem trace_other_calls_no_rows (s : MState) (e : Ev) (k : Key)
    (he : match e with | .inc _ => True | .endI _ => True | .consume _ _ => True
                       | .endCollect => True | _ => False) :
    C16.content (step s e) k = C16.content s k ∧ memAll (step s e) k = memAll s k :=
  step_keeps_lines s e k he

-- non-vacuity: a run that flushes at 2 but not at 1000, same content
example :
    let evs : List Ev := [.trace "K" "iter" false, .trace "K" "iter" true, .reg "K",
      .use "K" 4 0 "iter" none, .inc "K", .use "K" 7 1 "iter" none, .inc "K", .endI "K"]
    (run (init 2) evs).restarted = false ∧
    (run (init 2) evs).disk ("K", "iter") ≠ (run (init 1000) evs).disk ("K", "iter") ∧
    C16.content (run (init 2) evs) ("K", "iter") =
      [.hdr ["K_pos", "K", "fiber_pos"], .dat [0, 4, 0], .dat [1, 7, 1]] ∧
    fileOn (run (init 2) evs) ("K", "iter") = true ∧ memOn (run (init 2) evs) ("K", "iter") = true := by
  decide

/-! ### loop nests: the odometer keeps the rows sorted -/

/-- In a loop nest that is well-nested for key `k` (the body of every enclosing loop runs at most
    once per counter value, the level's own stamps of `k` are non-decreasing) the iteration stamps of
    the rows of `k` are lexicographically non-decreasing — pairwise, hence also consecutively
    (`chainB lexLe`, the clause `fileShapeOK` evaluates on the implementation's files). -/
theorem trace_stamps_sorted (tr : Key → Bool) (k : Key) (here d : Nat) (n : Nest d)
    (h : wn k false here d n = true) :
    ((rowsOf tr d n k).map (·.stamp)).Pairwise (fun a b => lexLe a b = true) ∧
    chainB lexLe ((rowsOf tr d n k).map (·.stamp)) = true := by
  have := (wn_sorted tr k false here d n [] [] h).2
  rw [← rowsOf_stamps] at this
  have hp : ((rowsOf tr d n k).map (·.stamp)).Pairwise (fun a b => lexLe a b = true) :=
    this.imp (fun hab => by simpa [stampR] using hab)
  exact ⟨hp, chainB_of_pairwise lexLe _ hp⟩

/-- … and strictly increasing when the level's own stamps are (plain iteration traces). -/
theorem trace_iter_stamps_strict (tr : Key → Bool) (k : Key) (here d : Nat) (n : Nest d)
    (h : wn k true here d n = true) :
    ((rowsOf tr d n k).map (·.stamp)).Pairwise (fun a b => lexLt a b = true) ∧
    chainB lexLt ((rowsOf tr d n k).map (·.stamp)) = true := by
  have := (wn_sorted tr k true here d n [] [] h).2
  rw [← rowsOf_stamps] at this
  have hp : ((rowsOf tr d n k).map (·.stamp)).Pairwise (fun a b => lexLt a b = true) :=
    this.imp (fun hab => by simpa [stampR] using hab)
  exact ⟨hp, chainB_of_pairwise lexLt _ hp⟩

-- non-vacuity: a two-level nest (second execution of the inner loop restarts its counter)
example :
    let inner (c : Int) : Nest 1 := ("K", [.use "K" "iter" c 0, .sub PUnit.unit, .inc, .use "K" "iter" (c + 1) 1, .sub PUnit.unit, .inc])
    let n : Nest 2 := ("M", [.use "M" "iter" 0 0, .sub (inner 5), .inc, .use "M" "iter" 3 1, .sub (inner 7), .inc])
    wn ("K", "iter") true 1 2 n = true ∧
    (rowsOf (fun _ => true) 2 n ("K", "iter")).map (·.stamp) = [[0, 0], [0, 1], [1, 0], [1, 1]] := by
  decide

/-! ### loop nests over operand trees: what the iterators emit is well-nested -/

/-- For every loop nest (any depth; per level a source fiber / `a & b` / leader-follower / projection /
    dense `iterShapeRef()` loop, input ranks of format C or U, optionally under `z <<` with a destination rank
    of format C or U,
    inserting and move phase included), all operand trees, every set of
    declared traces: the calls the iterators make are well-nested for every key of the `i`-th
    level, provided no other level writes traces under the same rank name. -/
theorem trace_kernel_wellnested (tr : Key → Bool) (dflt : Int) (levels : List Level) (env : Env)
    (i : Nat) (lv : Level) (k : Key) (hi : levels[i]? = some lv) (hk : k.1 ∈ levelNames lv)
    (hd : ∀ (j : Nat) (lv' : Level), levels[j]? = some lv' → j ≠ i → k.1 ∉ levelNames lv') :
    wn k (k.2 == "iter") i levels.length (interp tr dflt levels.length levels env).2 = true :=
  interp_wn tr dflt k levels i lv env hi hk hd

/-- Hence the rows of every trace of such a nest carry lexicographically non-decreasing iteration
    stamps, strictly increasing ones for `iter` traces — source-side and destination-side traces of
    a populate alike (the "stamp-ordered" half of the relaxed clause for inserting populates). -/
theorem trace_kernel_stamps_sorted (tr : Key → Bool) (dflt : Int) (levels : List Level) (env : Env)
    (i : Nat) (lv : Level) (k : Key) (hi : levels[i]? = some lv) (hk : k.1 ∈ levelNames lv)
    (hd : ∀ (j : Nat) (lv' : Level), levels[j]? = some lv' → j ≠ i → k.1 ∉ levelNames lv') :
    ((rowsOf tr levels.length (interp tr dflt levels.length levels env).2 k).map (·.stamp)).Pairwise
        (fun a b => lexLe a b = true) ∧
    (k.2 = "iter" →
      ((rowsOf tr levels.length (interp tr dflt levels.length levels env).2 k).map (·.stamp)).Pairwise
        (fun a b => lexLt a b = true)) := by
  have h := trace_kernel_wellnested tr dflt levels env i lv k hi hk hd
  by_cases hit : k.2 = "iter"
  · have hb : (k.2 == "iter") = true := by simpa using hit
    rw [hb] at h
    have hs := (trace_iter_stamps_strict tr k i _ _ h).1
    exact ⟨hs.imp (fun hab => lexLe_of_lexLt _ _ hab), fun _ => hs⟩
  · have hb : (k.2 == "iter") = false := by simpa using hit
    rw [hb] at h
    exact ⟨(trace_stamps_sorted tr k i _ _ h).1, fun e => absurd e hit⟩

/-! ### addresses: coordinates and positions name the element touched -/

/-- `iterRange` over a concrete fiber: every `iter` row carries the coordinate of a stored, non-empty
    element and its index in the fiber (storage position). -/
theorem trace_iter_addresses {σ S π : Type} (rank : String) (emptyP : π → Bool) (body : S → Int → π → S × σ)
    (f : Fib Int π) (s : S) (r ty : String) (c pos : Int)
    (h : Item.use r ty c pos ∈ (iterItems rank emptyP body s 0 f).2) :
    r = rank ∧ ty = "iter" ∧ ∃ (i : Nat) (p : π), pos = (i : Int) ∧ f[i]? = some (c, p) ∧ emptyP p = false := by
  obtain ⟨h1, h2, i, p, e1, e2, e3⟩ := iterItems_addr rank emptyP body f s 0 r ty c pos h
  exact ⟨h1, h2, i, p, by simpa using e1, e2, e3⟩

/-- `iterRange` over a lazy fiber (`a & b`, `z << …`, a projection): every `iter` row carries a yielded
    coordinate and its index in the yielded sequence. -/
theorem trace_lazy_iter_addresses {σ S β : Type} (rank : String) (body : S → Int → β → S × σ)
    (steps : List (Step β)) (s : S) (c pos : Int)
    (hk : ∀ i, Step.emit i ∈ steps → itemKey i ≠ some (rank, "iter"))
    (h : Item.use rank "iter" c pos ∈ (lazyItems rank body s 0 steps).2) :
    ∃ (i : Nat) (p : β), pos = (i : Int) ∧ (yieldsOf steps)[i]? = some (c, p) := by
  obtain ⟨i, p, e1, e2⟩ := lazyItems_addr rank body steps s 0 c pos hk h
  exact ⟨i, p, by simpa using e1, e2⟩

/-- The sequences the lazy sources hand to their consumer (the sequence `trace_lazy_iter_addresses`
    and `trace_populate_src_addresses_partial` index into), declaratively: `a & b` on sorted operands
    yields C04's truth-table intersection; leader-follower yields every presented leader element;
    a projection yields the shifted coordinates inside the interval, cut at its upper end. -/
theorem trace_lazy_yields_spec {α β : Type} (rank tyA tyB : String) (ta tb : Bool)
    (a : Fib Int α) (b : Fib Int β) (ha : Sorted a) (hb : Sorted b) (dfl : β)
    (srcRank ty : String) (t : Bool) (off : Int) (lo hi : Option Int) (pa pb : List Nat) :
    yieldsOf (andSteps rank tyA tyB ta tb pa pb a b) = andSpec a b ∧
    yieldsOf (lfSteps rank rank tyA tyB ta dfl b pa a) = a.map (fun e => (e.1, (e.2, (posLookup b e.1).getD dfl))) ∧
    yieldsOf (projSteps srcRank ty t off lo hi pa a) =
      ((a.takeWhile (fun e => !aboveHi hi (e.1 + off))).filter (fun e => inLo lo (e.1 + off))).map
        (fun e => (e.1 + off, e.2)) := by
  refine ⟨?_, lfSteps_yields _ _ _ _ _ _ _ a pa, ?_⟩
  · rw [andSteps_yields, and_spec a b ha hb]
  · simp only [projSteps, yieldsOf]
    exact projLoop_yields srcRank ty t off lo hi a pa

/-- `and_iterator` on two stored operands: every `intersect_i` row carries the coordinate of a stored,
    non-empty element of its operand and the index of that element in the operand's fiber. -/
theorem trace_intersect_addresses (dflt : Int) (rank tyA tyB : String) (ta tb : Bool) (x y : AnyTree)
    (r ty : String) (c pos : Int)
    (h : Step.emit (.use r ty c pos) ∈ andSteps rank tyA tyB ta tb (presentIdx dflt x) (presentIdx dflt y)
      (presentAny dflt x) (presentAny dflt y)) :
    r = rank ∧
    ((ty = tyA ∧ ∃ (n : Nat) (p : AnyTree), pos = (n : Int) ∧ (children x)[n]? = some (c, p) ∧ anyEmpty dflt p = false) ∨
     (ty = tyB ∧ ∃ (n : Nat) (p : AnyTree), pos = (n : Int) ∧ (children y)[n]? = some (c, p) ∧ anyEmpty dflt p = false)) := by
  obtain ⟨h1, h2⟩ := andSteps_addr rank tyA tyB ta tb _ _ _ _ r ty c pos h
  refine ⟨h1, ?_⟩
  rcases h2 with ⟨e, i, p, e1, e2⟩ | ⟨e, i, p, e1, e2⟩
  · obtain ⟨s1, s2⟩ := present_storage dflt x i (c, p) e2
    exact Or.inl ⟨e, _, p, e1, s1, s2⟩
  · obtain ⟨s1, s2⟩ := present_storage dflt y i (c, p) e2
    exact Or.inr ⟨e, _, p, e1, s1, s2⟩

/-- leader-follower intersection: the leader's rows carry the coordinate of a stored, non-empty element
    of the leader and its index in the leader's fiber; the follower's rows (`getPayload(trace=…)`)
    carry the probed coordinate and its lower-bound position in the follower as stored — the
    element's index when it is present. -/
theorem trace_follower_addresses (dflt : Int) (rankA rankB tyA tyB : String) (ta : Bool) (dfl : AnyTree)
    (x y : AnyTree) (r ty : String) (c pos : Int)
    (h : Step.emit (.use r ty c pos) ∈ lfSteps rankA rankB tyA tyB ta dfl (children y) (presentIdx dflt x) (presentAny dflt x)) :
    (r = rankA ∧ ty = tyA ∧ ∃ (n : Nat) (p : AnyTree), pos = (n : Int) ∧ (children x)[n]? = some (c, p) ∧
      anyEmpty dflt p = false) ∨
    (r = rankB ∧ ty = tyB ∧ pos = ((lowerBound (children y) c : Nat) : Int)) := by
  rcases lfSteps_addr rankA rankB tyA tyB ta dfl (children y) _ _ r ty c pos h with ⟨e1, e2, i, p, e3, e4⟩ | ⟨e1, e2, e3, _⟩
  · obtain ⟨s1, s2⟩ := present_storage dflt x i (c, p) e4
    exact Or.inl ⟨e1, e2, _, p, e3, s1, s2⟩
  · exact Or.inr ⟨e1, e2, e3⟩

/-- `project_iterator` over a stored fiber: every `project_i` row carries the SOURCE coordinate of a
    stored, non-empty element whose image lies in the interval, and its index in the source fiber. -/
theorem trace_project_addresses (dflt : Int) (srcRank ty : String) (t : Bool) (off : Int) (lo hi : Option Int)
    (x : AnyTree) (s : Nat) (r ty' : String) (c pos : Int)
    (h : Step.emit (.useSaved s r ty' c pos) ∈ projSteps srcRank ty t off lo hi (presentIdx dflt x) (presentAny dflt x)) :
    r = srcRank ∧ ty' = ty ∧ ∃ (n : Nat) (p : AnyTree), pos = (n : Int) ∧ (children x)[n]? = some (c, p) ∧
      anyEmpty dflt p = false ∧ inLo lo (c + off) = true ∧ aboveHi hi (c + off) = false := by
  simp only [projSteps, List.mem_cons, Step.emit.injEq, reduceCtorEq, false_or] at h
  obtain ⟨_, e2, e3, i, p, e4, e5, e6⟩ := projLoop_addr srcRank ty t off lo hi _ _ s r ty' c pos h
  obtain ⟨s1, s2⟩ := present_storage dflt x i (c, p) e5
  exact ⟨e2, e3, _, p, e4, s1, s2, e6⟩

/-- `lshift_iterator`, source side and consumer: the `iter` rows of `z << src` carry an offered
    coordinate and its index in the sequence the source yields; the `populate_i` rows carry an offered
    coordinate and, for a stored source fiber `x`, the index of that element in `x` (for a lazy source:
    its index in the yielded sequence). -/
theorem trace_populate_src_addresses {σ : Type} (dflt : Int) (cfg : PopCfg) (mk : AnyTree) (rm : Bool → AnyTree → Bool)
    (emptyP : AnyTree → Bool) (body : Int → AnyTree → AnyTree → AnyTree × σ) (ok : PopTypesOK cfg)
    (x : AnyTree) (z : Fib Int AnyTree) (c pos : Int)
    (h : Item.use cfg.rank cfg.srcTy c pos ∈
      (popItems cfg mk rm emptyP body { z := z, bposs := some (presentIdx dflt x) }
        ((presentAny dflt x).map (fun e => Step.yield e.1 e.2))).2) :
    ∃ (n : Nat) (p : AnyTree), pos = (n : Int) ∧ (children x)[n]? = some (c, p) ∧ anyEmpty dflt p = false := by
  have hy : ∀ (l : Fib Int AnyTree), yieldsOf (l.map (fun e => Step.yield e.1 e.2)) = l := by
    intro l; induction l with
    | nil => rfl
    | cons e r ih => simp [yieldsOf, ih]
  obtain ⟨i, p, e1, e2⟩ := popItems_src_addr cfg mk rm emptyP body ok _ _ cfg.srcTy c pos (Or.inl rfl)
    (by intro i hi; simp at hi) h
  rw [hy] at e2
  obtain ⟨s1, s2⟩ := present_storage dflt x i (c, p) e2
  refine ⟨_, p, ?_, s1, s2⟩
  rw [e1]
  simp [ok.si, srcPosAt]

/-- … and for any source (stored or lazy) the `iter` rows and, for a lazy source, the `populate_i` rows of
    `z << src` carry the index in the sequence the source yields. -/
theorem trace_populate_lazy_addresses {σ π β : Type} (cfg : PopCfg) (mk : π) (rm : Bool → π → Bool)
    (emptyP : π → Bool) (body : Int → π → β → π × σ) (ok : PopTypesOK cfg)
    (steps : List (Step β)) (z : Fib Int π) (ty : String) (c pos : Int)
    (hty : ty = cfg.srcTy ∨ ty = "iter")
    (hk : ∀ i, Step.emit i ∈ steps → itemKey i ≠ some (cfg.rank, ty))
    (h : Item.use cfg.rank ty c pos ∈ (popItems cfg mk rm emptyP body { z := z } steps).2) :
    ∃ (i : Nat) (p : β), pos = (i : Int) ∧ (yieldsOf steps)[i]? = some (c, p) := by
  obtain ⟨i, p, e1, e2⟩ := popItems_src_addr cfg mk rm emptyP body ok steps { z := z } ty c pos hty hk h
  refine ⟨i, p, ?_, e2⟩
  rw [e1]
  split <;> simp [srcPosAt]

-- non-vacuity of the address theorems: a fiber with an explicit default at position 0
example : (iterItems (σ := PUnit) (S := PUnit) "K" (fun (v : Int) => v == 0) (fun s _ _ => (s, PUnit.unit)) PUnit.unit 0
    [(1, 0), (3, 4), (5, 6)]).2 =
    [.use "K" "iter" 3 1, .sub PUnit.unit, .inc, .use "K" "iter" 5 2, .sub PUnit.unit, .inc] := by
  simp [iterItems]

namespace C16
/-- Gustavson: `for m,(z_n,a_k) in z_m << a_m: for k,(a,b_n) in a_k & b_k: for n,(z,b) in z_n << b_n: z += a*b` -/
def exLevels : List Level :=
  [{ rank := "M", src := .fiber 0, pop := true, insertPos := 9 },
   { rank := "K", src := .and 0 1, pop := false },
   { rank := "N", src := .fiber 1, pop := true, insertPos := 9 }]
def exA : Tree Int Int 2 := (show List (Int × List (Int × Int)) from [(0, [(0, 1), (2, 2)]), (2, [(1, 3), (2, 4), (3, 5)])])
def exB : Tree Int Int 2 := (show List (Int × List (Int × Int)) from [(0, [(0, 1), (1, 2)]), (2, [(1, 3)]), (3, [(0, 4), (2, 5)])])
def exEnv : Env := { ops := [⟨2, exA⟩, ⟨2, exB⟩], z := ⟨2, ([] : List (Int × Tree Int Int 1))⟩ }
end C16

-- non-vacuity: the destination-side write trace of the innermost populate of Gustavson's nest, which
-- goes through the inserting mode and the move phase (staging positions 9, 10 beyond the shape)
example := trace_kernel_stamps_sorted (fun _ => true) 0 C16.exLevels C16.exEnv 2
  { rank := "N", src := .fiber 1, pop := true, insertPos := 9 } ("N", "populate_write_0") rfl
  (by simp [levelNames])
  (by
    intro j lv' hj hne
    rcases j with _ | _ | _ | j
    · simp [C16.exLevels] at hj; subst hj; simp [levelNames]
    · simp [C16.exLevels] at hj; subst hj; simp [levelNames]
    · exact absurd rfl hne
    · simp [C16.exLevels] at hj)

#guard ((rowsOf (fun _ => true) 3 (interp (fun _ => true) 0 3 C16.exLevels C16.exEnv).2 ("N", "populate_write_0")).map
    (fun r => (r.stamp, r.pt, r.pos))) ==
  [([0, 0, 1], [0, 0, 0], 0), ([0, 0, 3], [0, 0, 1], 1), ([0, 1, 1], [0, 2, 1], 1),
   ([2, 2, 1], [2, 2, 1], 0), ([2, 3, 1], [2, 3, 0], 9), ([2, 3, 4], [2, 3, 2], 10),
   ([2, 3, 5], [2, 3, 2], 2), ([2, 3, 6], [2, 3, 1], 1), ([2, 3, 7], [2, 3, 0], 0)]

end Ft
