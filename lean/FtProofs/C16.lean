/-
  C16 — traces are well-formed: one sorted, correctly addressed row per traced event.
  Property theorems only; helper lemmas live in FtProofs/Lemmas/Trace*.lean.
-/
import FtProofs.Lemmas.TraceMachine
import FtProofs.Lemmas.TraceNest
namespace Ft
open Ft.C16

/-! ### the Metrics class: buffering is unobservable, memory = file, one row per traced access -/

/-- The lines of a trace (written + still buffered) do not depend on `num_cached_uses`, for every
    sequence of calls that does not restart / re-declare a trace that already has lines. -/
theorem trace_flush_independent (evs : List Ev) (n m : Nat) (k : Key)
    (hr : (run (init n) evs).restarted = false) :
    C16.content (run (init n) evs) k = C16.content (run (init m) evs) k :=
  ((Sim.init n m).run_sim evs).cont hr k

/-- … and once `endCollect` has run, the files themselves coincide. -/
theorem trace_files_flush_independent (evs : List Ev) (n m : Nat) (k : Key)
    (hr : (run (init n) evs).restarted = false)
    (hd : k ∈ (run (init n) evs).declared) (hf : fileOn (run (init n) evs) k = true) :
    (run (init n) (evs ++ [.endCollect])).disk k = (run (init m) (evs ++ [.endCollect])).disk k := by
  have hs := (Sim.init n m).run_sim evs
  have hd' : k ∈ (run (init m) evs).declared := hs.declared ▸ hd
  have hf' : fileOn (run (init m) evs) k = true := by
    have := hs.slots k
    unfold fileOn at hf ⊢
    cases h1 : (run (init n) evs).slots k <;> cases h2 : (run (init m) evs).slots k <;>
      simp_all [SlotSim]
  simp only [run, List.foldl_append, List.foldl_cons, List.foldl_nil, step]
  have e1 := endCollect_disk (run (init n) evs) k hd hf
  have e2 := endCollect_disk (run (init m) evs) k hd' hf'
  simp only [run] at e1 e2
  rw [e1, e2]
  exact congrArg some (hs.cont hr k)

/-- A trace kept both as a file and as a consumable trace delivers the same lines in memory
    (consumed so far + still held) as in the file (written + buffered). -/
theorem trace_mem_eq_file (evs : List Ev) (n : Nat) (k : Key)
    (hr : (run (init n) evs).restarted = false)
    (hf : fileOn (run (init n) evs) k = true) (hm : memOn (run (init n) evs) k = true) :
    C16.content (run (init n) evs) k = memAll (run (init n) evs) k :=
  ((MF.init n).run_mf evs) hr k hf hm

/-- `addUse` adds exactly one row — `iteration[:i+1] + point[:i] + [coord] + [pos]` — to the trace
    of its (rank, type) when that trace is declared and the rank is known, and nothing to any other
    trace. -/
theorem trace_use_one_row (s : MState) (r : String) (c pos : Int) (ty : String) (ovr : Option (List Nat))
    (k' : Key) :
    C16.content (addUse s r c pos ty ovr) k' =
      C16.content s k' ++ (if k' = (r, ty) ∧ fileOn s k' then (useLine s r c pos ovr).toList else []) ∧
    memAll (addUse s r c pos ty ovr) k' =
      memAll s k' ++ (if k' = (r, ty) ∧ memOn s k' then (useLine s r c pos ovr).toList else []) :=
  ⟨(addUse_lines s r c pos ty ovr k').1, (addUse_lines s r c pos ty ovr k').2.1⟩

-- non-vacuity: a run that flushes at 2 but not at 1000, same content
example :
    let evs : List Ev := [.trace "K" "iter" false, .trace "K" "iter" true, .reg "K",
      .use "K" 4 0 "iter" none, .inc "K", .use "K" 7 1 "iter" none, .inc "K", .endI "K"]
    (run (init 2) evs).restarted = false ∧
    (run (init 2) evs).disk ("K", "iter") ≠ (run (init 1000) evs).disk ("K", "iter") ∧
    C16.content (run (init 2) evs) ("K", "iter") =
      [.hdr ["K_pos", "K", "fiber_pos"], .dat [0, 4, 0], .dat [1, 7, 1]] ∧
    fileOn (run (init 2) evs) ("K", "iter") = true ∧ memOn (run (init 2) evs) ("K", "iter") = true := by
  decide

/-! ### loop nests: the odometer keeps the rows sorted -/

/-- In a loop nest that is well-nested for key `k` (the body of every enclosing loop runs at most
    once per counter value, the level's own stamps of `k` are non-decreasing) the iteration stamps of
    the rows of `k` are lexicographically non-decreasing — pairwise, hence also consecutively
    (`chainB lexLe`, the clause `fileShapeOK` evaluates on the implementation's files). -/
theorem trace_stamps_sorted (tr : Key → Bool) (k : Key) (here d : Nat) (n : Nest d)
    (h : wn k false here d n = true) :
    ((rowsOf tr d n k).map (·.stamp)).Pairwise (fun a b => lexLe a b = true) ∧
    chainB lexLe ((rowsOf tr d n k).map (·.stamp)) = true := by
  have := (wn_sorted tr k false here d n [] [] h).2
  rw [← rowsOf_stamps] at this
  have hp : ((rowsOf tr d n k).map (·.stamp)).Pairwise (fun a b => lexLe a b = true) :=
    this.imp (fun hab => by simpa [stampR] using hab)
  exact ⟨hp, chainB_of_pairwise lexLe _ hp⟩

/-- … and strictly increasing when the level's own stamps are (plain iteration traces). -/
theorem trace_iter_stamps_strict (tr : Key → Bool) (k : Key) (here d : Nat) (n : Nest d)
    (h : wn k true here d n = true) :
    ((rowsOf tr d n k).map (·.stamp)).Pairwise (fun a b => lexLt a b = true) ∧
    chainB lexLt ((rowsOf tr d n k).map (·.stamp)) = true := by
  have := (wn_sorted tr k true here d n [] [] h).2
  rw [← rowsOf_stamps] at this
  have hp : ((rowsOf tr d n k).map (·.stamp)).Pairwise (fun a b => lexLt a b = true) :=
    this.imp (fun hab => by simpa [stampR] using hab)
  exact ⟨hp, chainB_of_pairwise lexLt _ hp⟩

-- non-vacuity: a two-level nest (second execution of the inner loop restarts its counter)
example :
    let inner (c : Int) : Nest 1 := ("K", [.use "K" "iter" c 0, .sub PUnit.unit, .inc, .use "K" "iter" (c + 1) 1, .sub PUnit.unit, .inc])
    let n : Nest 2 := ("M", [.use "M" "iter" 0 0, .sub (inner 5), .inc, .use "M" "iter" 3 1, .sub (inner 7), .inc])
    wn ("K", "iter") true 1 2 n = true ∧
    (rowsOf (fun _ => true) 2 n ("K", "iter")).map (·.stamp) = [[0, 0], [0, 1], [1, 0], [1, 1]] := by
  decide

end Ft
