/-
  C01 — fibertrees stay well-formed under every history of public mutations.
  Property theorems only; helpers in FtProofs/Lemmas/{MutLemmas,PopLemmas,PointLemmas}.lean.
  (Uniform depth and single boxing are carried by the type `Tree Int ν d`; that the
  implementation's stored objects have this shape is checked on every observed state by the
  driver's `rawWF`, which is the executable side of this property.)
-/
import FtProofs.Lemmas.MutLemmas
import FtProofs.C05
import FtProofs.C12
set_option linter.unusedSectionVars false
set_option linter.unusedSimpArgs false
namespace Ft
open StrictTotal

section
variable {ν : Type} [DecidableEq ν]

/-- the fiber arguments of an operation are themselves well-formed (they are `Fiber` objects
    built by a public constructor) -/
def TreeArg.WFArg (a : TreeArg ν) : Prop := ∀ d v, a.get d = some v → WF d v

def MutOp.ArgsWF : MutOp ν → Prop
  | .append _ _ v => v.WFArg
  | .extend _ g => g.WFArg
  | .setitem _ _ _ (some v) => v.WFArg
  | .assignF _ g => g.WFArg
  | .populate _ a _ _ => a.WFArg
  | _ => True

/-- nested populate loops keep the destination well-formed -/
theorem popNest_wf (dflt : ν) (leafF : List Int → ν → ν → ν) (skip : List Int → Inner Int) :
    ∀ (d : Nat) (pre : List Int) (z a : Tree Int ν (d + 1)), WF (d + 1) z → WF (d + 1) a →
      WF (d + 1) (popNest dflt leafF skip d pre z a)
  | 0, pre, z, a, hz, ha => by
    simp only [popNest]
    exact populate_wf dflt 0 _ z _ (fun _ _ _ _ _ => trivial) hz (present_sorted ha.sorted)
  | d + 1, pre, z, a, hz, ha => by
    simp only [popNest]
    apply populate_wf dflt (d + 1) _ z _ _ hz (present_sorted ha.sorted)
    intro c cur bp hmem hcur
    cases hs : skip (pre ++ [c]) with
    | skip => exact hcur
    | touch c' =>
      refine ⟨posrefF_sorted _ _ c' hcur.sorted, ?_⟩
      intro e he
      rcases posrefF_mem _ _ c' e he with h1 | h1
      · exact hcur.sub e h1
      · rw [h1]; exact wf_defaultTree dflt d
    | recurse =>
      exact popNest_wf dflt leafF skip d (pre ++ [c]) cur bp hcur (ha.sub _ (mem_present.1 hmem).1)

theorem denseRefF_wf (dflt : ν) (d : Nat) (cs : List Int) : ∀ (f : Tree Int ν (d + 1)), WF (d + 1) f →
    WF (d + 1) (denseRefF dflt d f cs) := by
  unfold denseRefF
  induction cs with
  | nil => intro f h; exact h
  | cons c r ih => intro f h; exact ih _ (refAt_wf dflt (d + 1) f h [c])

theorem writeLeaf_wf (f : Tree Int ν 1) (c : Int) (v : ν) (h : WF 1 f) : WF 1 (writeLeaf f c v) := by
  refine ⟨sorted_map_payload _ _ (fun e => by by_cases he : e.1 = c <;> simp [he]) h.sorted, ?_⟩
  intro e _; trivial

/-- every fiber-level mutator keeps the fiber it is applied to well-formed -/
theorem fiberStep_wf (dflt : ν) (op : MutOp ν) (hop : op.ArgsWF) (d : Nat) (f : Tree Int ν (d + 1))
    (h : WF (d + 1) f) : WF (d + 1) (fiberStep dflt op d f).1 := by
  cases op with
  | ref p => exact h
  | posref a c =>
    refine ⟨posrefF_sorted _ _ c h.sorted, ?_⟩
    intro e he
    rcases posrefF_mem _ _ c e he with h1 | h1
    · exact h.sub e h1
    · rw [h1]; exact wf_defaultTree dflt d
  | append a c v =>
    simp only [fiberStep]
    cases hv : v.get d with
    | none => exact h
    | some x =>
      refine ⟨appendF_sorted _ c x h.sorted, ?_⟩
      intro e he
      rcases appendF_mem _ c x e he with h1 | h1
      · exact h.sub e h1
      · rw [h1]; exact hop d x hv
  | extend a g =>
    simp only [fiberStep]
    cases hv : g.get (d + 1) with
    | none => exact h
    | some x =>
      have hx : WF (d + 1) x := hop (d + 1) x hv
      refine ⟨extendF_sorted _ _ _ h.sorted hx.sorted, ?_⟩
      intro e he
      rcases extendF_mem _ _ _ e he with h1 | h1
      · exact h.sub e h1
      · exact hx.sub e h1
  | setitem a pos c v =>
    cases v with
    | none =>
      simp only [fiberStep]
      refine ⟨setitemF_sorted _ pos c none h.sorted, ?_⟩
      intro e he
      rcases setitemF_mem _ pos c none e he with h1 | ⟨old, ho, h1⟩
      · exact h.sub e h1
      · rw [h1]; exact h.sub old ho
    | some arg =>
      simp only [fiberStep]
      cases hv : arg.get d with
      | none => exact h
      | some x =>
        refine ⟨setitemF_sorted _ pos c (some x) h.sorted, ?_⟩
        intro e he
        rcases setitemF_mem _ pos c (some x) e he with h1 | ⟨old, _, h1⟩
        · exact h.sub e h1
        · rw [h1]; exact hop d x hv
  | clear a => exact ⟨List.Pairwise.nil, fun _ h => by cases h⟩
  | updCoords a k m =>
    simp only [fiberStep]
    by_cases hk : k = 0
    · simp only [hk, if_true]; exact h
    · simp only [hk, if_false]
      refine ⟨updCoordsF_sorted k m hk _ h.sorted, ?_⟩
      intro e he
      obtain ⟨x, hx, hxe⟩ := updCoordsF_mem k m _ e he
      rw [hxe]; exact h.sub x hx
  | updPayloads a g =>
    cases d with
    | zero =>
      simp only [fiberStep]
      exact ⟨sorted_map_key _ (fun e => (g (show ν from e.2) : ν)) h.sorted, fun _ _ => trivial⟩
    | succ d' => exact h
  | denseRef a cs w =>
    have ht := denseRefF_wf dflt d cs f h
    cases d with
    | zero =>
      simp only [fiberStep]
      generalize denseRefF dflt 0 f cs = t at ht
      induction w generalizing t with
      | nil => exact ht
      | cons cv r ih =>
        simp only [List.foldl_cons]
        apply ih trivial
        split
        · exact writeLeaf_wf t cv.1 cv.2 ht
        · exact ht
    | succ d' => exact ht
  | assignF a g =>
    simp only [fiberStep]
    cases hv : g.get (d + 1) with
    | none => exact h
    | some x => exact nonEmpty_wf dflt (d + 1) x (hop (d + 1) x hv)
  | populate a src leafF skip =>
    simp only [fiberStep]
    cases hv : src.get (d + 1) with
    | none => exact h
    | some x => exact popNest_wf dflt leafF skip d [] f x h (hop (d + 1) x hv)

/-- **one step**: every public mutator, applied at any sub-fiber with any arguments, maps a
    well-formed tree to a well-formed tree (whether it is accepted or rejected) -/
theorem step_wf (dflt : ν) (d : Nat) (t : Tree Int ν (d + 1)) (op : MutOp ν) (hop : op.ArgsWF)
    (h : WF (d + 1) t) : WF (d + 1) (mstep dflt d t op).1 := by
  cases op with
  | ref p => exact refAt_wf dflt (d + 1) t h p
  | posref a c => exact atPath_wf _ (fiberStep_wf dflt (.posref a c) hop) d t a h
  | append a c v => exact atPath_wf _ (fiberStep_wf dflt (.append a c v) hop) d t a h
  | extend a g => exact atPath_wf _ (fiberStep_wf dflt (.extend a g) hop) d t a h
  | setitem a pos c v => exact atPath_wf _ (fiberStep_wf dflt (.setitem a pos c v) hop) d t a h
  | clear a => exact atPath_wf _ (fiberStep_wf dflt (.clear a) hop) d t a h
  | updCoords a k m => exact atPath_wf _ (fiberStep_wf dflt (.updCoords a k m) hop) d t a h
  | updPayloads a g => exact atPath_wf _ (fiberStep_wf dflt (.updPayloads a g) hop) d t a h
  | denseRef a cs w => exact atPath_wf _ (fiberStep_wf dflt (.denseRef a cs w) hop) d t a h
  | assignF a g => exact atPath_wf _ (fiberStep_wf dflt (.assignF a g) hop) d t a h
  | populate a src lf sk => exact atPath_wf _ (fiberStep_wf dflt (.populate a src lf sk) hop) d t a h

/-- **every history**: after any finite sequence of public mutators, starting from any
    well-formed tree, the tree is well-formed (and so is every intermediate tree: apply this
    to each prefix of the history) -/
theorem run_wf (dflt : ν) (d : Nat) : ∀ (ops : List (MutOp ν)) (t : Tree Int ν (d + 1)),
    (∀ op ∈ ops, op.ArgsWF) → WF (d + 1) t → WF (d + 1) (mrun dflt d t ops)
  | [], _, _, h => h
  | op :: ops, t, hops, h =>
    run_wf dflt d ops _ (fun o ho => hops o (List.mem_cons_of_mem _ ho))
      (step_wf dflt d t op (hops op (List.mem_cons_self ..)) h)

/-- **a rejected order-violating operation leaves the tree exactly as it was** (append, extend,
    position assignment: the checks precede the writes) -/
theorem rejected_unchanged (dflt : ν) (d : Nat) (t : Tree Int ν (d + 1)) (op : MutOp ν)
    (hkind : (∃ a c v, op = .append a c v) ∨ (∃ a g, op = .extend a g) ∨ (∃ a p c v, op = .setitem a p c v))
    (h : WF (d + 1) t) (hr : (mstep dflt d t op).2 ≠ .ok) : (mstep dflt d t op).1 = t := by
  rcases hkind with ⟨a, c, v, rfl⟩ | ⟨a, g, rfl⟩ | ⟨a, p, c, v, rfl⟩
  · refine atPath_rejected _ ?_ d t a h hr
    intro d' f hr'
    simp only [fiberStep] at hr' ⊢
    cases hv : v.get d' with
    | none => rfl
    | some x => simp only [hv] at hr'; exact appendF_rejected _ c x hr'
  · refine atPath_rejected _ ?_ d t a h hr
    intro d' f hr'
    simp only [fiberStep] at hr' ⊢
    cases hv : g.get (d' + 1) with
    | none => rfl
    | some x => simp only [hv] at hr'; exact extendF_rejected _ _ _ hr'
  · refine atPath_rejected _ ?_ d t a h hr
    intro d' f hr'
    cases v with
    | none => simp only [fiberStep] at hr' ⊢; exact setitemF_rejected _ p c none hr'
    | some arg =>
      simp only [fiberStep] at hr' ⊢
      cases hv : arg.get d' with
      | none => rfl
      | some x => simp only [hv] at hr'; exact setitemF_rejected _ p c (some x) hr'

end

/-! ### non-vacuity: a tree with an explicit zero and an empty sub-fiber is well-formed, and a
    history that hits insertion, an order-violating append, a position assignment, a coordinate
    reversal and a clear runs through `mrun` (tests) -/
section
private def t0 : Tree Int Int 2 := [(0, [(1, (5 : Int)), (2, (0 : Int))]), (3, []), (4, [(0, (7 : Int))])]
example : WF 2 t0 := (wfB_iff 2 t0).1 (by decide)
private def leafArg (v : Int) : TreeArg Int := ⟨fun d => match d with | 0 => some (v : Int) | _ => none⟩
private def hist : List (MutOp Int) :=
  [.ref [2, 2], .append [0] 1 (leafArg 9), .append [0] 7 (leafArg 9), .setitem [4] 0 (some 3) none,
   .updCoords [0] (-1) 0, .clear [3], .posref [] 9]
example : ∀ op ∈ hist, op.ArgsWF := by
  intro op hop
  simp only [hist, List.mem_cons, List.mem_nil_iff, or_false] at hop
  rcases hop with rfl | rfl | rfl | rfl | rfl | rfl | rfl <;> simp [MutOp.ArgsWF, TreeArg.WFArg, leafArg] <;>
    (intro d v; cases d <;> simp [WF])
#guard wfB 2 (mrun 0 1 t0 hist)
#guard (mstep 0 1 t0 (.append [0] 1 (leafArg 9))).2 == .rejectedOrder
end
end Ft
