/- C01 — property theorems (to be written) -/
