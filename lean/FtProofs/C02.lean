/- C02 — property theorems (to be written) -/
