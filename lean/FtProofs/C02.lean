/-
  C02 — a tensor's rank bookkeeping always mirrors its fibertree.
  Property theorems only; helpers in FtProofs/Lemmas/RankLemmas.lean.
  A fiber is identified by its coordinate path from the root (unique in a well-formed tree);
  `Mirror d t R` says that rank `i` lists exactly the fibers found at depth `i`.
-/
import FtProofs.Lemmas.RankLemmas
import FtProofs.Lemmas.PopRankLemmas
import FtProofs.C01
set_option linter.unusedSectionVars false
set_option linter.unusedSimpArgs false
namespace Ft
open StrictTotal
open List

section
variable {κ ν : Type} [LT κ] [DecidableRel (α := κ) (· < ·)] [DecidableEq κ] [StrictTotal κ]

/-- **constructors** (`setRoot` → `_addFiber`, used by fromFiber / fromUncompressed / fromRandom /
    fromYAMLfile / deepcopy / every transform's result): depth-first registration is a mirror -/
theorem ctor_mirror (d : Nat) (t : Tree κ ν d) : Mirror d t (regAll d t) := mirror_regAll d t

/-- **insertion at any depth** (`getPayloadRef`, and hence `getPositionRef` and dense reference
    iteration, which are sequences of it): creating the missing path and appending each created
    fiber to the rank below its parent keeps the mirror -/
theorem insert_mirror (dflt : ν) (d : Nat) (t : Tree κ ν d) (R : RankLists κ) (p : List κ)
    (h : WF d t) (hm : Mirror d t R) :
    Mirror d (refStepR dflt d t R p).1 (refStepR dflt d t R p).2 := refStepR_mirror dflt d t R p h hm

/-- **clearing** the fiber at any path, unregistering the fibers below it, keeps the mirror -/
theorem clear_mirror (d : Nat) (t : Tree κ ν (d + 1)) (R : RankLists κ) (q : List κ)
    (h : WF (d + 1) t) (hm : Mirror (d + 1) t R) :
    Mirror (d + 1) (clearStepR d t R q).1 (clearStepR d t R q).2 := clearStepR_mirror d t R q h hm

theorem rankStep_wf (dflt : ν) (d : Nat) (s : Tree κ ν (d + 1) × RankLists κ) (op : RankOp κ)
    (h : WF (d + 1) s.1) : WF (d + 1) (rankStep dflt d s op).1 := by
  cases op with
  | ref p => exact refAt_wf dflt (d + 1) s.1 h p
  | clear q =>
    have hF : ∀ (d' : Nat) (f : Tree κ ν (d' + 1)), WF (d' + 1) f →
        WF (d' + 1) ((fun (_ : Nat) (_ : Tree κ ν (d' + 1)) => ((([] : List (κ × Tree κ ν d')) : Tree κ ν (d' + 1)), Outcome.ok)) d' f).1 :=
      fun d' _ _ => ⟨List.Pairwise.nil, fun _ hx => by cases hx⟩
    exact atPath_wf (fun _ _ => (([] : List _), Outcome.ok)) (fun d' f hf => ⟨List.Pairwise.nil, fun _ hx => by cases hx⟩) d s.1 q h

/-- **histories**: after any sequence of insertions and clears, from any mirrored state, every
    rank still lists exactly the live fibers of its depth -/
theorem rank_run_mirror (dflt : ν) (d : Nat) : ∀ (ops : List (RankOp κ)) (s : Tree κ ν (d + 1) × RankLists κ),
    WF (d + 1) s.1 → Mirror (d + 1) s.1 s.2 →
    Mirror (d + 1) (rankRun dflt d s ops).1 (rankRun dflt d s ops).2 ∧ WF (d + 1) (rankRun dflt d s ops).1
  | [], _, h, hm => ⟨hm, h⟩
  | op :: ops, s, h, hm => by
    have h' := rankStep_wf dflt d s op h
    have hm' : Mirror (d + 1) (rankStep dflt d s op).1 (rankStep dflt d s op).2 := by
      cases op with
      | ref p => exact refStepR_mirror dflt (d + 1) s.1 s.2 p h hm
      | clear q => exact clearStepR_mirror d s.1 s.2 q h hm
    exact rank_run_mirror dflt d ops _ h' hm'

/-- **derived quantities**: anything summed over a rank's list (per-rank footprint, statistics)
    equals the same sum over the fibers a raw walk finds at that depth -/
theorem derived_from_ranks (d : Nat) (t : Tree κ ν d) (R : RankLists κ) (hm : Mirror d t R)
    (w : List κ → Nat) (i : Nat) (hi : i < d) :
    ((R.getD i []).map w).sum = ((pathsAt d t i).map w).sum :=
  ((hm.2 i hi).map w).sum_nat

/-- the first rank holds the root and nothing else -/
theorem root_rank (d : Nat) (t : Tree κ ν (d + 1)) (R : RankLists κ) (hm : Mirror (d + 1) t R) :
    R.getD 0 [] = [[]] := by
  have := hm.2 0 (Nat.succ_pos d)
  rw [pathsAt_zero] at this
  exact List.perm_singleton.1 this

end

/-! ### non-vacuity -/
section
private def tEx : Tree Int Int 3 := [(0, [(1, [(2, (5 : Int))]), (4, [])]), (3, [])]
example : WF 3 tEx := (wfB_iff 3 tEx).1 (by decide)
example : Mirror 3 tEx (regAll 3 tEx) := ctor_mirror 3 tEx
#guard regAll 3 tEx == [[[]], [[0], [3]], [[0, 1], [0, 4]]]
#guard (refStepR 0 3 tEx (regAll 3 tEx) [3, 7, 1]).2 == [[[]], [[0], [3]], [[0, 1], [0, 4], [3, 7]]]
#guard (refStepR 0 3 tEx (regAll 3 tEx) [9, 9, 9]).2 == [[[]], [[0], [3], [9]], [[0, 1], [0, 4], [9, 9]]]
#guard mirrorB 3 (refStepR 0 3 tEx (regAll 3 tEx) [9, 9, 9]).1 (refStepR 0 3 tEx (regAll 3 tEx) [9, 9, 9]).2
#guard (clearStepR 2 tEx (regAll 3 tEx) [0]).2 == [[[]], [[0], [3]], []]
#guard !mirrorB 3 (clearStepR 2 tEx (regAll 3 tEx) [0]).1 (regAll 3 tEx)
end
end Ft

namespace Ft
open StrictTotal
open List
section
variable {ν : Type} [DecidableEq ν]

/-- **fiber assignment** (`f <<= g` at any fiber of the tensor): unregistering what was below and
    registering the fibers of the assigned copy keeps the mirror -/
theorem assign_mirror (dflt : ν) (d : Nat) (t : Tree Int ν (d + 1)) (R : RankLists Int) (q : List Int)
    (g : TreeArg ν) (h : WF (d + 1) t) (hm : Mirror (d + 1) t R) :
    Mirror (d + 1) (assignStepR dflt d t R q g).1 (assignStepR dflt d t R q g).2 := by
  unfold assignStepR
  cases hloc : locate d t q with
  | none => exact hm
  | some x =>
    obtain ⟨d', s⟩ := x
    exact replace_mirror (fiberStep dflt (.assignF q g)) d t R q d' s h hm hloc

/-- **populate loops** (`z << a` at any fiber of the tensor, nested to any depth, with bodies that write
    leaves, recurse, skip or only touch the offered sub-fibers): the loop never loses a fiber that was
    there, and with the fibers it created and kept appended to their ranks — what `_create_payload`'s
    `Rank.append` and the clean-up's `Rank.pop` leave behind — the bookkeeping stays a mirror -/
theorem populate_mirror (dflt : ν) (d : Nat) (t : Tree Int ν (d + 1)) (R : RankLists Int) (q : List Int)
    (a : TreeArg ν) (leafF : List Int → ν → ν → ν) (inner : List Int → Inner Int)
    (ha : a.WFArg) (h : WF (d + 1) t) (hm : Mirror (d + 1) t R) :
    Mirror (d + 1) (populateStepR dflt d t R q a leafF inner).1 (populateStepR dflt d t R q a leafF inner).2 := by
  unfold populateStepR
  cases hloc : locate d t q with
  | none => exact hm
  | some x =>
    obtain ⟨d', s⟩ := x
    have hs : WF (d' + 1) s := locate_wf d t h q d' s hloc
    refine grow_mirror (fiberStep dflt (.populate q a leafF inner)) d t R q d' s h hm hloc
      (fiberStep_wf dflt (.populate q a leafF inner) ha d' s hs) ?_
    intro j p hp
    simp only [fiberStep]
    cases hg : a.get (d' + 1) with
    | none => exact hp
    | some x => exact popNest_keeps_paths dflt leafF inner d' [] s x hs (ha _ _ hg) j p hp

/-- populate never removes or re-creates a fiber that existed before the loop -/
theorem populate_keeps_fibers (dflt : ν) (leafF : List Int → ν → ν → ν) (inner : List Int → Inner Int)
    (d : Nat) (pre : List Int) (z a : Tree Int ν (d + 1)) (hz : WF (d + 1) z) (ha : WF (d + 1) a) (j : Nat)
    (p : List Int) (hp : p ∈ pathsAt (d + 1) z j) : p ∈ pathsAt (d + 1) (popNest dflt leafF inner d pre z a) j :=
  popNest_keeps_paths dflt leafF inner d pre z a hz ha j p hp

/-! non-vacuity of `populate_mirror`: a nested loop that creates [0,2], and creates and drops [5] and [5,0] -/
private def popT : Tree Int Int 3 := [(0, [(1, [(2, (5 : Int))])]), (3, [])]
private def popA : TreeArg Int := ⟨fun k => match k with
  | 3 => some ([(0, [(1, [(4, (1 : Int))]), (2, [(0, (1 : Int))])]), (5, [(0, [(0, (2 : Int))])])] : Tree Int Int 3)
  | _ => none⟩
private def popR := populateStepR (0 : Int) 2 popT (regAll 3 popT) [] popA (fun _ cur a => cur + a)
  (fun p => if p == [5, 0] then Inner.skip else Inner.recurse)
#guard wfB 3 popT && (locate 2 popT []).isSome
#guard popR.2 == [[[]], [[0], [3]], [[0, 1], [0, 2]]]
#guard mirrorB 3 popR.1 popR.2 && !mirrorB 3 popR.1 (regAll 3 popT)

end
end Ft
