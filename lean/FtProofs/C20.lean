/-
  C20 — encoding a tensor in a compression format (U / C / B per rank) loses nothing.
  Property theorems only; helper lemmas live in FtProofs/Lemmas/Codec.lean.
-/
import FtProofs.Lemmas.Codec
set_option linter.unusedSectionVars false
set_option linter.unusedSimpArgs false
set_option linter.unusedVariables false
namespace Ft
namespace Codec

/-! ### the per-rank arrays decode, by layout alone, to the content -/

/-- For every descriptor, every tensor inside its extents, with or without an imposed shape:
    the arrays `Codec.encode` produces decode — read with the extent each rank was actually
    laid out with — to exactly the tensor's content, and nothing is left over. -/
theorem decode_encode_eff (d : Nat) (fs : List Fmt) (tsh : List Nat) (ish : Option (List Nat))
    (t : List (Int × Tree Int Int d))
    (hfs : fs.length = d + 1) (hwf : wfB (κ := Int) (ν := Int) (d + 1) t = true)
    (hin : inEff (d + 1) fs tsh ish t = true) :
    decodesTo d fs (effShape fs tsh ish) (encode d fs tsh ish t).root (encode d fs tsh ish t).cs
      (encode d fs tsh ish t).ps (content (κ := Int) (ν := Int) (0 : Int) (d + 1) t) = true := by
  obtain ⟨r, hr⟩ : ∃ r, r = encF d fs tsh ish 0 (List.replicate (d + 1) (0, 0)) t := ⟨_, rfl⟩
  have hlen := encF_len d fs tsh ish 0 (List.replicate (d + 1) (0, 0)) t
  rw [← hr] at hlen
  have hE : encode d fs tsh ish t =
      ⟨if (fs.headD .U).explicit then [(r.occ : Int)] else [], r.cs, r.ps, r.fibs⟩ := by rw [hr]; rfl
  have hz1 : zipApp r.cs (List.replicate (d + 1) []) = r.cs := zipApp_replicate_nil_right _ _ hlen.1
  have hz2 : zipApp r.ps (List.replicate (d + 1) []) = r.ps := zipApp_replicate_nil_right _ _ hlen.2
  have key := decF_encF d fs tsh ish 0 (List.replicate (d + 1) (0, 0)) t
    ((((if (fs.headD .U).explicit then [(r.occ : Int)] else []) : List Int).headD 0).toNat)
    (List.replicate (d + 1) []) (List.replicate (d + 1) []) hfs hwf hin (by simp) (by simp)
    (by intro h; rw [h, ← hr]; simp [Fmt.explicit])
  rw [← hr, hz1, hz2] at key
  rw [hE]
  simp only [decodesTo, key, hlen.1, hlen.2, Bool.and_eq_true, decide_eq_true_eq, List.all_eq_true]
  refine ⟨⟨⟨⟨⟨?_, trivial⟩, trivial⟩, trivial⟩, ?_⟩, ?_⟩
  · cases (fs.headD .U).explicit <;> simp
  · intro x hx; rw [List.eq_of_mem_replicate hx]; rfl
  · intro x hx; rw [List.eq_of_mem_replicate hx]; rfl


/-- the same statement for the decoder's natural input, the *declared* shape (the imposed one
    if there is one, else the tensor's) — PARTIAL: `hlay` excludes the class in which some U or
    B rank was laid out with another extent than the declared one (this happens exactly below a
    B rank when the imposed extent differs from the tensor's: finding
    `decode:B-rank-drops-imposed-shape`). -/
theorem decode_encode_partial (d : Nat) (fs : List Fmt) (tsh : List Nat) (ish : Option (List Nat))
    (t : List (Int × Tree Int Int d))
    (hfs : fs.length = d + 1) (hwf : wfB (κ := Int) (ν := Int) (d + 1) t = true)
    (hin : inShape (d + 1) tsh t = true) (hish : IshOK ish tsh)
    (hlay : agreeNonC fs (effShape fs tsh ish) (declShape tsh ish) = true) :
    decodesTo d fs (declShape tsh ish) (encode d fs tsh ish t).root (encode d fs tsh ish t).cs
      (encode d fs tsh ish t).ps (content (κ := Int) (ν := Int) (0 : Int) (d + 1) t) = true := by
  have h := decode_encode_eff d fs tsh ish t hfs hwf (inEff_of_inShape (d + 1) fs tsh ish t hin hish)
  unfold decodesTo at h ⊢
  rw [← decF_agree d fs _ _ hlay hfs]
  exact h

/-- without an imposed shape nothing is excluded: every descriptor, every tensor -/
theorem decode_encode_noshape (d : Nat) (fs : List Fmt) (tsh : List Nat) (t : List (Int × Tree Int Int d))
    (hfs : fs.length = d + 1) (htsh : tsh.length = d + 1) (hwf : wfB (κ := Int) (ν := Int) (d + 1) t = true)
    (hin : inShape (d + 1) tsh t = true) :
    decodesTo d fs tsh (encode d fs tsh none t).root (encode d fs tsh none t).cs
      (encode d fs tsh none t).ps (content (κ := Int) (ν := Int) (0 : Int) (d + 1) t) = true := by
  have h := decode_encode_eff d fs tsh none t hfs hwf (inEff_of_inShape (d + 1) fs tsh none t hin trivial)
  rwa [effShape_none fs tsh (by rw [htsh, hfs])] at h

/-- the 2-rank tensor {(0,1) ↦ 5, (1,1) ↦ 5} -/
def witnessT : List (Int × Tree Int Int 1) :=
  [(0, (show Tree Int Int 1 from [((1 : Int), (5 : Int))])), (1, (show Tree Int Int 1 from [((1 : Int), (5 : Int))]))]

/-- … and the excluded class is real: descriptor (B, U), tensor shape [2,2], imposed shape [3,3] —
    the arrays do not decode under the imposed shape. -/
theorem decode_imposed_shape_counterexample :
    decodesTo 1 [.B, .U] (declShape [2, 2] (some [3, 3])) (encode 1 [.B, .U] [2, 2] (some [3, 3]) witnessT).root
      (encode 1 [.B, .U] [2, 2] (some [3, 3]) witnessT).cs (encode 1 [.B, .U] [2, 2] (some [3, 3]) witnessT).ps
      (content (κ := Int) (ν := Int) (0 : Int) 2 witnessT) = false := by decide

-- non-vacuity: the hypotheses are satisfiable by non-trivial values (all three formats, an empty
-- sub-fiber, an explicit zero, an imposed shape larger than the tensor's)
def sampleT : List (Int × Tree Int Int 2) :=
  [(0, (show Tree Int Int 2 from [((1 : Int), (show Tree Int Int 1 from [((0 : Int), (7 : Int)), ((2 : Int), (0 : Int))])),
                                 (2, (show Tree Int Int 1 from []))])),
   (2, (show Tree Int Int 2 from [((0 : Int), (show Tree Int Int 1 from [((1 : Int), (-3 : Int))]))]))]

example : decodesTo 2 [.C, .B, .U] (effShape [.C, .B, .U] [3, 3, 3] (some [4, 3, 5]))
    (encode 2 [.C, .B, .U] [3, 3, 3] (some [4, 3, 5]) sampleT).root
    (encode 2 [.C, .B, .U] [3, 3, 3] (some [4, 3, 5]) sampleT).cs
    (encode 2 [.C, .B, .U] [3, 3, 3] (some [4, 3, 5]) sampleT).ps
    (content (κ := Int) (ν := Int) (0 : Int) 3 sampleT) = true :=
  decode_encode_eff 2 [.C, .B, .U] [3, 3, 3] (some [4, 3, 5]) sampleT (by decide) (by decide) (by decide)

example :=
  decode_encode_partial 2 [.U, .C, .B] [3, 3, 3] (some [4, 3, 5]) sampleT (by decide) (by decide) (by decide)
    (by show shapeGe _ _ = true; decide) (by decide)

example :=
  decode_encode_noshape 2 [.B, .U, .C] [3, 3, 3] sampleT (by decide) (by decide) (by decide) (by decide)

example : (content (κ := Int) (ν := Int) (0 : Int) 3 sampleT).length = 2 := by decide

end Codec
end Ft
