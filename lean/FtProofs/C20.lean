/-
  C20 — encoding a tensor in a compression format (U / C / B per rank) loses nothing.
  Property theorems only; helper lemmas live in FtProofs/Lemmas/Codec.lean.
-/
import FtProofs.Lemmas.Codec
set_option linter.unusedSectionVars false
set_option linter.unusedSimpArgs false
set_option linter.unusedVariables false
namespace Ft
namespace Codec

variable (hu : Nat → Bool) (dflt : Int)

/-! ### the per-rank arrays decode, by layout alone, to the content -/

/-- For every descriptor, every tensor inside its extents, with or without an imposed shape:
    the arrays `Codec.encode` produces decode — read with the extent each rank was actually
    laid out with — to exactly the tensor's content, and nothing is left over. -/
theorem decode_encode_eff (d : Nat) (fs : List Fmt) (tsh : List Nat) (ish : Option (List Nat))
    (t : List (Int × Tree Int Int d))
    (hfs : fs.length = d + 1) (hwf : wfB (κ := Int) (ν := Int) (d + 1) t = true)
    (hin : inShape (d + 1) tsh t = true) (hdims : dimsOK fs tsh ish = true) :
    decodesTo dflt d fs (effShape fs tsh ish) (encode hu dflt d fs tsh ish t).root (encode hu dflt d fs tsh ish t).cs
      (encode hu dflt d fs tsh ish t).ps (content (κ := Int) (ν := Int) dflt (d + 1) t) = true := by
  obtain ⟨r, hr⟩ : ∃ r, r = encF hu dflt d fs tsh ish 0 (List.replicate (d + 1) (0, 0)) t := ⟨_, rfl⟩
  have hlen := encF_len (hu := hu) (dflt := dflt) d fs tsh ish 0 (List.replicate (d + 1) (0, 0)) t
  rw [← hr] at hlen
  have hE : encode hu dflt d fs tsh ish t =
      ⟨if (fs.headD .U).explicit then [(r.occ : Int)] else [], r.cs, r.ps, r.fibs⟩ := by rw [hr]; rfl
  have hz1 : zipApp r.cs (List.replicate (d + 1) []) = r.cs := zipApp_replicate_nil_right _ _ hlen.1
  have hz2 : zipApp r.ps (List.replicate (d + 1) []) = r.ps := zipApp_replicate_nil_right _ _ hlen.2
  have key := decF_encF (hu := hu) (dflt := dflt) d fs tsh ish 0 (List.replicate (d + 1) (0, 0)) t
    ((((if (fs.headD .U).explicit then [(r.occ : Int)] else []) : List Int).headD 0).toNat)
    (List.replicate (d + 1) []) (List.replicate (d + 1) []) hfs hwf hin hdims (by simp) (by simp)
    (by intro h; rw [h, ← hr]; simp [Fmt.explicit])
  rw [← hr, hz1, hz2] at key
  rw [hE]
  simp only [decodesTo, key, hlen.1, hlen.2, Bool.and_eq_true, decide_eq_true_eq, List.all_eq_true]
  refine ⟨⟨⟨⟨⟨?_, trivial⟩, trivial⟩, trivial⟩, ?_⟩, ?_⟩
  · cases (fs.headD .U).explicit <;> simp
  · intro x hx; rw [List.eq_of_mem_replicate hx]; rfl
  · intro x hx; rw [List.eq_of_mem_replicate hx]; rfl


/-- Decoding under the *declared* shape — the imposed one if there is one, else the tensor's —
    for every descriptor: every format forwards the imposed shape, so every rank is laid out
    with the declared extent and the arrays decode to exactly the tensor's content. -/
theorem decode_encode (d : Nat) (fs : List Fmt) (tsh : List Nat) (ish : Option (List Nat))
    (t : List (Int × Tree Int Int d))
    (hfs : fs.length = d + 1) (htsh : tsh.length = d + 1) (hwf : wfB (κ := Int) (ν := Int) (d + 1) t = true)
    (hin : inShape (d + 1) tsh t = true) (hish : IshOK ish tsh) :
    decodesTo dflt d fs (declShape tsh ish) (encode hu dflt d fs tsh ish t).root (encode hu dflt d fs tsh ish t).cs
      (encode hu dflt d fs tsh ish t).ps (content (κ := Int) (ν := Int) dflt (d + 1) t) = true := by
  have h := decode_encode_eff hu dflt d fs tsh ish t hfs hwf hin (cd_dimsOK_of_IshOK fs tsh ish hish)
  rwa [cd_effShape_decl fs tsh ish (by rw [htsh, hfs]) hish] at h

/-- in particular without an imposed shape, under the tensor's own shape -/
theorem decode_encode_noshape (d : Nat) (fs : List Fmt) (tsh : List Nat) (t : List (Int × Tree Int Int d))
    (hfs : fs.length = d + 1) (htsh : tsh.length = d + 1) (hwf : wfB (κ := Int) (ν := Int) (d + 1) t = true)
    (hin : inShape (d + 1) tsh t = true) :
    decodesTo dflt d fs tsh (encode hu dflt d fs tsh none t).root (encode hu dflt d fs tsh none t).cs
      (encode hu dflt d fs tsh none t).ps (content (κ := Int) (ν := Int) dflt (d + 1) t) = true :=
  decode_encode hu dflt d fs tsh none t hfs htsh hwf hin trivial

/-- the 2-rank tensor {(0,1) ↦ 5, (1,1) ↦ 5} -/
def witnessT : List (Int × Tree Int Int 1) :=
  [(0, (show Tree Int Int 1 from [((1 : Int), (5 : Int))])), (1, (show Tree Int Int 1 from [((1 : Int), (5 : Int))]))]

-- non-vacuity: the hypotheses are satisfiable by non-trivial values (all three formats, an empty
-- sub-fiber, an explicit zero, an imposed shape larger than the tensor's)
def sampleT : List (Int × Tree Int Int 2) :=
  [(0, (show Tree Int Int 2 from [((1 : Int), (show Tree Int Int 1 from [((0 : Int), (7 : Int)), ((2 : Int), (0 : Int))])),
                                 (2, (show Tree Int Int 1 from []))])),
   (2, (show Tree Int Int 2 from [((0 : Int), (show Tree Int Int 1 from [((1 : Int), (-3 : Int))]))]))]

example : decodesTo 0 2 [.C, .B, .U] (effShape [.C, .B, .U] [3, 3, 3] (some [4, 3, 5]))
    (encode (fun _ => false) 0 2 [.C, .B, .U] [3, 3, 3] (some [4, 3, 5]) sampleT).root
    (encode (fun _ => false) 0 2 [.C, .B, .U] [3, 3, 3] (some [4, 3, 5]) sampleT).cs
    (encode (fun _ => false) 0 2 [.C, .B, .U] [3, 3, 3] (some [4, 3, 5]) sampleT).ps
    (content (κ := Int) (ν := Int) (0 : Int) 3 sampleT) = true :=
  decode_encode_eff (fun _ => false) 0 2 [.C, .B, .U] [3, 3, 3] (some [4, 3, 5]) sampleT (by decide) (by decide) (by decide) (by decide)

example :=
  decode_encode (fun _ => false) 0 2 [.B, .U, .B] [3, 3, 3] (some [4, 3, 5]) sampleT (by decide) (by decide) (by decide) (by decide)
    (by show shapeGe _ _ = true; decide)

-- the former counterexample (descriptor (B, U), tensor shape [2,2], imposed shape [3,3]) now decodes
example : decodesTo 0 1 [.B, .U] [3, 3] (encode (fun _ => false) 0 1 [.B, .U] [2, 2] (some [3, 3]) witnessT).root
    (encode (fun _ => false) 0 1 [.B, .U] [2, 2] (some [3, 3]) witnessT).cs (encode (fun _ => false) 0 1 [.B, .U] [2, 2] (some [3, 3]) witnessT).ps
    (content (κ := Int) (ν := Int) (0 : Int) 2 witnessT) = true := by decide

example :=
  decode_encode_noshape (fun _ => false) 0 2 [.B, .U, .C] [3, 3, 3] sampleT (by decide) (by decide) (by decide) (by decide)

example : (content (κ := Int) (ν := Int) (0 : Int) 3 sampleT).length = 2 := by decide


/-! ### every encoded fiber: scan, lookup, size -/

/-- every fiber object of an encoding satisfies the encoder's invariant (`FibFacts`): its stored
    coordinates are the format's rendering of the source fiber's element coordinates, which are
    strictly increasing and inside the extent; occupancy, value and payload lists have the
    lengths the format prescribes -/
theorem encode_fibs_facts (d : Nat) (fs : List Fmt) (tsh : List Nat) (ish : Option (List Nat))
    (t : List (Int × Tree Int Int d))
    (hfs : fs.length = d + 1) (hwf : wfB (κ := Int) (ν := Int) (d + 1) t = true)
    (hin : inShape (d + 1) tsh t = true) (hdims : dimsOK fs tsh ish = true) :
    ∀ F ∈ (encode hu dflt d fs tsh ish t).fibs.flatten, FibFacts F :=
  encF_fibs_facts d fs tsh ish 0 (List.replicate (d + 1) (0, 0)) t hfs hwf hin hdims

/-- `occupancy_so_far` of every non-leaf C / B fiber of an encoding is the position, in the next
    rank, of the first fiber it created (the rank counters stay consistent through the DFS) -/
theorem encode_fibs_osf (d : Nat) (fs : List Fmt) (tsh : List Nat) (ish : Option (List Nat))
    (t : List (Int × Tree Int Int d)) (hfs : fs.length = d + 1) :
    ∀ F ∈ (encode hu dflt d fs tsh ish t).fibs.flatten, F.fmt ≠ .U → F.next ≠ none → F.osf = F.kid0 :=
  (cd_encF_cnt (hu := hu) (dflt := dflt) d fs tsh ish 0 (List.replicate (d + 1) (0, 0)) t hfs (cd_CntInv_replicate fs (d + 1))).2.2

/-- Scanning an encoded fiber through its own handle interface (`setupSlice(0)`, `nextInSlice`
    until None, `handleToCoord`, `handleToPayload`) yields exactly the fiber's elements in order,
    for every fiber of every encoding: the k-th coordinate of the source fiber's laid-out
    elements (all positions for U, the non-empty elements for C and B) with payload handle
    `payBase + k` (k for fibers that store payloads; `occupancy_so_far + k`, the position of the
    k-th child in the next rank, for C above U), i.e. — resolved — its k-th leaf value resp. its
    k-th child fiber. -/
theorem scan_eq_elems (d : Nat) (fs : List Fmt) (tsh : List Nat) (ish : Option (List Nat))
    (t : List (Int × Tree Int Int d))
    (hfs : fs.length = d + 1) (hwf : wfB (κ := Int) (ν := Int) (d + 1) t = true)
    (hin : inShape (d + 1) tsh t = true) (hdims : dimsOK fs tsh ish = true)
    (F : EFib) (hF : F ∈ (encode hu dflt d fs tsh ish t).fibs.flatten) :
    F.layoutCoords = F.ecoords ∧ F.scan = F.scanSpec ∧ F.scanElems = F.elemsSpec := by
  have h := encode_fibs_facts hu dflt d fs tsh ish t hfs hwf hin hdims F hF
  have ho := encode_fibs_osf hu dflt d fs tsh ish t hfs F hF
  refine ⟨layoutCoords_facts F h, scan_facts F h, scanElems_facts F h ?_⟩
  intro hC hU
  exact ho (by rw [hC]; decide) (by rw [hU]; exact Option.some_ne_none _)

/-- A slice set up at a coordinate `b` inside the rank's extent (`setupSlice(b)`: `coordToHandle(b)`
    for U and C, mask position `b` with `countLeft(b)` as payload handle for B) delivers exactly
    the fiber's elements at coordinates `≥ b`, in order, with the payloads of the full scan. -/
theorem slice_from_base (d : Nat) (fs : List Fmt) (tsh : List Nat) (ish : Option (List Nat))
    (t : List (Int × Tree Int Int d))
    (hfs : fs.length = d + 1) (hwf : wfB (κ := Int) (ν := Int) (d + 1) t = true)
    (hin : inShape (d + 1) tsh t = true) (hdims : dimsOK fs tsh ish = true)
    (F : EFib) (hF : F ∈ (encode hu dflt d fs tsh ish t).fibs.flatten) (b : Nat) (hb : b ≤ F.shape) :
    (F.scanBase b).map (fun e => (e.1, F.resolve e.2)) = F.elemsSpecFrom b := by
  have h := encode_fibs_facts hu dflt d fs tsh ish t hfs hwf hin hdims F hF
  have ho := encode_fibs_osf hu dflt d fs tsh ish t hfs F hF
  refine cd_scanBase_elems F h ?_ b hb
  intro hC hU
  exact ho (by rw [hC]; decide) (by rw [hU]; exact Option.some_ne_none _)

/-- A depth-first walk of the whole encoded tensor through the handle interface — scan the top
    fiber; for every element continue in the fiber its payload designates, the parent's scan
    staying open; on the leaf rank collect the non-zero values — reads back exactly the
    tensor's content, for every descriptor, with or without an imposed shape. -/
theorem walk_eq_content (d : Nat) (fs : List Fmt) (tsh : List Nat) (ish : Option (List Nat))
    (t : List (Int × Tree Int Int d))
    (hfs : fs.length = d + 1) (hwf : wfB (κ := Int) (ν := Int) (d + 1) t = true)
    (hin : inShape (d + 1) tsh t = true) (hdims : dimsOK fs tsh ish = true) :
    walkM dflt (encode hu dflt d fs tsh ish t).fibs 0 = content (κ := Int) (ν := Int) dflt (d + 1) t := by
  have hl := cd_encF_fibs_len (hu := hu) (dflt := dflt) d fs tsh ish 0 (List.replicate (d + 1) (0, 0)) t
  have h := cd_walk_encF (hu := hu) (dflt := dflt) d fs tsh ish 0 (List.replicate (d + 1) (0, 0)) t
    (List.replicate (d + 1) []) (List.replicate (d + 1) []) hfs hwf hin hdims
    (cd_CntInv_replicate fs (d + 1)) (cd_lenOK_replicate (d + 1) (d + 1)) (by simp) (by simp)
  rw [zipApp_replicate_nil_right (d + 1) _ hl, zipApp_replicate_nil (d + 1) _ hl] at h
  exact h

/-- Coordinate lookup in an encoded coordinate-list fiber (`coordToHandle`: two short paths and
    a ceil-mid binary search) returns the handle of the first stored coordinate not below the
    query, None when there is none. -/
theorem coordToHandle_lowerBound (d : Nat) (fs : List Fmt) (tsh : List Nat) (ish : Option (List Nat))
    (t : List (Int × Tree Int Int d))
    (hfs : fs.length = d + 1) (hwf : wfB (κ := Int) (ν := Int) (d + 1) t = true)
    (hin : inShape (d + 1) tsh t = true) (hdims : dimsOK fs tsh ish = true)
    (F : EFib) (hF : F ∈ (encode hu dflt d fs tsh ish t).fibs.flatten) (hC : F.fmt = .C) (q : Int) :
    F.coordToHandle q = lowerHandle F.ecoords q :=
  coordToHandle_C F (encode_fibs_facts hu dflt d fs tsh ish t hfs hwf hin hdims F hF) hC q

/-- the search itself, for any strictly increasing coordinate list -/
theorem coordToHandle_search (cs : List Int) (hinc : cs.Pairwise (· < ·)) (q : Int) :
    c2hC cs q = lowerHandle cs q := c2hC_lowerHandle cs hinc q

/-- Every encoded fiber reports a size equal to the number of words its layout stores
    (coordinates or mask words, occupancy entries, payload entries) — `getSize` never raises on
    a fiber of an encoding, empty fibers report 0 words. -/
theorem size_eq_words (d : Nat) (fs : List Fmt) (tsh : List Nat) (ish : Option (List Nat))
    (t : List (Int × Tree Int Int d))
    (hfs : fs.length = d + 1) (hwf : wfB (κ := Int) (ν := Int) (d + 1) t = true)
    (hin : inShape (d + 1) tsh t = true) (hdims : dimsOK fs tsh ish = true)
    (F : EFib) (hF : F ∈ (encode hu dflt d fs tsh ish t).fibs.flatten) :
    F.getSize = some F.words :=
  getSize_facts F (encode_fibs_facts hu dflt d fs tsh ish t hfs hwf hin hdims F hF)

-- non-vacuity of the per-fiber theorems: sampleT under (C, B, U) has 1 + 2 + 3 fibers of all three formats
example : ((encode (fun _ => false) 0 2 [.C, .B, .U] [3, 3, 3] (some [4, 3, 5]) sampleT).fibs.flatten.map (·.fmt)) =
    [.C, .B, .B, .U, .U] := by decide

example := scan_eq_elems (fun _ => false) 0 2 [.C, .B, .U] [3, 3, 3] (some [4, 3, 5]) sampleT (by decide) (by decide) (by decide) (by decide)
  (((encode (fun _ => false) 0 2 [.C, .B, .U] [3, 3, 3] (some [4, 3, 5]) sampleT).fibs.flatten).headD default) (by decide)

example : (((encode (fun _ => false) 0 2 [.C, .B, .U] [3, 3, 3] (some [4, 3, 5]) sampleT).fibs.flatten).headD default).scanElems
    = [(some 0, some 0), (some 2, some 1)] := by decide

example := coordToHandle_lowerBound (fun _ => false) 0 2 [.C, .B, .U] [3, 3, 3] none sampleT (by decide) (by decide) (by decide) (by decide)
  (((encode (fun _ => false) 0 2 [.C, .B, .U] [3, 3, 3] none sampleT).fibs.flatten).headD default) (by decide) (by decide) 1

example := coordToHandle_search [1, 4, 6, 9, 12] (by decide) 7
example : lowerHandle [1, 4, 6, 9, 12] 7 = some 3 := by decide

example := size_eq_words (fun _ => false) 0 2 [.C, .B, .U] [3, 3, 3] none sampleT (by decide) (by decide) (by decide) (by decide)
  (((encode (fun _ => false) 0 2 [.C, .B, .U] [3, 3, 3] none sampleT).fibs.flatten).headD default) (by decide)

-- the former witnesses: C above U with two elements now designates fiber 0 and fiber 1 …
example : (((encode (fun _ => false) 0 1 [.C, .U] [2, 2] none witnessT).fibs.flatten).headD default).scanElems
    = [(some 0, some 0), (some 1, some 1)] := by decide

example := scan_eq_elems (fun _ => false) 0 1 [.C, .U] [2, 2] none witnessT (by decide) (by decide) (by decide) (by decide)
  (((encode (fun _ => false) 0 1 [.C, .U] [2, 2] none witnessT).fibs.flatten).headD default) (by decide)

-- … a second C fiber above U starts at its own occupancy_so_far (descriptor (U, C, U))
example : (((encode (fun _ => false) 0 2 [.U, .C, .U] [3, 3, 3] none sampleT).fibs.flatten).map (fun F => (F.fmt, F.osf, F.kid0))) =
    [(.U, 0, 0), (.C, 0, 0), (.C, 1, 1), (.C, 1, 1), (.U, 0, 0), (.U, 0, 0)] := by decide

-- … and the empty tensor reports 0 words (U of shape 0; C above C)
example : ((encode (fun _ => false) 0 0 [.U] [0] none ([] : List (Int × Tree Int Int 0))).fibs.flatten.map (·.getSize)) = [some 0] := by decide
example : ((encode (fun _ => false) 0 1 [.C, .C] [0, 0] none ([] : List (Int × Tree Int Int 1))).fibs.flatten.map (·.getSize)) = [some 0] := by decide

example : (((encode (fun _ => false) 0 2 [.C, .B, .U] [3, 3, 3] none sampleT).fibs.flatten).map (·.words)) = [6, 1, 1, 3, 3] := by decide

example := walk_eq_content (fun _ => false) 0 2 [.B, .C, .B] [3, 3, 3] (some [4, 3, 5]) sampleT (by decide) (by decide) (by decide) (by decide)

example : walkM 0 (encode (fun _ => false) 0 2 [.B, .B, .U] [3, 3, 3] none sampleT).fibs 0 = [([0, 1, 0], 7), ([2, 0, 1], -3)] := by decide

-- the tensor's own ranks in format "U" (every position is presented to C and B) and a non-zero default
example := decode_encode (fun k => k == 1) 7 2 [.C, .B, .C] [3, 3, 3] (some [4, 3, 5]) sampleT (by decide) (by decide)
  (by decide) (by decide) (by show shapeGe _ _ = true; decide)

example : (encode (fun k => k == 1) 0 2 [.C, .C, .C] [3, 3, 3] none sampleT).cs = [[0, 2], [0, 1, 2, 0, 1, 2], [0, 1]] := by
  decide

example : content (κ := Int) (ν := Int) (7 : Int) 3 sampleT = [([0, 1, 0], 7), ([0, 1, 2], 0), ([2, 0, 1], -3)].filter (fun e => e.2 != 7) := by
  decide

example := walk_eq_content (fun _ => true) 7 2 [.B, .C, .U] [3, 3, 3] none sampleT (by decide) (by decide) (by decide) (by decide)

example := slice_from_base (fun _ => false) 0 2 [.C, .B, .U] [3, 3, 3] (some [4, 3, 5]) sampleT (by decide) (by decide)
  (by decide) (by decide)
  (((encode (fun _ => false) 0 2 [.C, .B, .U] [3, 3, 3] (some [4, 3, 5]) sampleT).fibs.flatten).headD default) (by decide) 1
  (by decide)

example : ((((encode (fun _ => false) 0 2 [.B, .B, .U] [3, 3, 3] none sampleT).fibs.flatten).headD default).scanBase 1)
    = [(some 2, some 1)] := by decide

end Codec
end Ft
