/- C20 — property theorems (to be written) -/
