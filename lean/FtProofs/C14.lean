/- C14 — property theorems (to be written) -/
