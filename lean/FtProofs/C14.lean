/-
  C14 — rank ids, shapes, defaults, formats and active ranges follow the data.
  Property theorems only; helper lemmas live in FtProofs/Lemmas/MetaLemmas.lean.
-/
import FtProofs.Lemmas.MetaLemmas
set_option linter.unusedSectionVars false
set_option linter.unusedSimpArgs false
set_option linter.unusedVariables false
namespace Ft
open Ft.C14

/-- **split**: the carry-over block of `_splitGeneric` (formats looked up by rank id) yields the
    documented Meta: X → X.1, X.0; the authoritative shape with X's entry duplicated; default and
    mutability kept; both halves inherit X's format, every other rank keeps its own. -/
theorem split_meta (m : Meta) (k : Nat) (s : String) (hwf : m.wfB = true)
    (hk : m.ids[k]? = some (.one s))
    (h1 : RId.one (s ++ ".1") ∉ m.ids) (h0 : RId.one (s ++ ".0") ∉ m.ids) :
    mSplit k m = sSplit k m := by
  obtain ⟨hl, hs, hn⟩ := (wfB_iff m).1 hwf
  unfold mSplit sSplit
  rw [hk]
  simp only [Option.some.injEq, Meta.mk.injEq, true_and, and_true]
  have hx : m.fmts[k]? = some (m.getFmt (.one s)) := lookD_getElem? Fmt.C m.ids m.fmts hn hl k _ hk
  unfold dupAt
  rw [take_succ_of_getElem? _ _ _ hx, drop_of_getElem? _ _ _ hx]
  unfold splitIds
  simp only [List.map_append, List.map_cons, List.map_nil, if_true]
  have hne : RId.one (s ++ ".0") ≠ RId.one (s ++ ".1") := by
    intro h; injection h with h; simp at h
  simp only [hne, if_false, if_true]
  have hA : ∀ r ∈ m.ids, (if r = RId.one (s ++ ".1") then m.getFmt (.one s)
      else if r = RId.one (s ++ ".0") then m.getFmt (.one s) else m.getFmt r) = m.getFmt r := by
    intro r hr
    have a1 : r ≠ RId.one (s ++ ".1") := fun e => h1 (e ▸ hr)
    have a0 : r ≠ RId.one (s ++ ".0") := fun e => h0 (e ▸ hr)
    simp [a1, a0]
  rw [List.map_congr_left (fun r hr => hA r (List.mem_of_mem_take hr)),
      List.map_congr_left (fun r hr => hA r (List.mem_of_mem_drop hr))]
  have t := map_take_lookD Fmt.C m.ids m.fmts hn hl k
  have d := map_drop_lookD Fmt.C m.ids m.fmts hn hl (k + 1)
  unfold Meta.getFmt
  rw [t, d]
  simp

example : mSplit 0 ⟨[.one "M", .one "K"], some [.n 4, .n 5], 7, [.U, .C], true⟩ =
    some ⟨[.one "M.1", .one "M.0", .one "K"], some [.n 4, .n 4, .n 5], 7, [.U, .U, .C], true⟩ := by decide

/-- **swizzle**, what holds today: the identity order (a deep copy) and, for a real re-ordering,
    tensors whose formats are all "C" and that are not mutable.  Rank ids, authoritative shape
    (the `swiz_len` prefix re-arranged, the common suffix kept) and default are always right. -/
theorem swizzle_meta_partial (m : Meta) (order : List RId) (hwf : m.wfB = true)
    (hlen : order.length = m.ids.length)
    (h : order = m.ids ∨ ((∀ f ∈ m.fmts, f = Fmt.C) ∧ m.mutable = false)) :
    mSwizzle order m = sSwizzle order m := by
  obtain ⟨hl, hs, hn⟩ := (wfB_iff m).1 hwf
  unfold mSwizzle sSwizzle
  by_cases he : m.ids = order
  · subst he
    simp only [if_true]
    cases m with
    | mk ids shape dflt fmts mutable =>
      simp only [Meta.mk.injEq, true_and, and_true]
      constructor
      · cases shape with
        | none => rfl
        | some sh => simp only [Option.map_some, Option.some.injEq]
                     exact (map_lookD_self default ids sh hn (hs sh rfl)).symm
      · exact (map_lookD_self Fmt.C ids fmts hn hl).symm
  · rcases h with h | ⟨hC, hm⟩
    · exact absurd h.symm he
    · simp only [he, if_false, Meta.mk.injEq, true_and]
      refine ⟨?_, ?_, hm.symm⟩
      · cases hsh : m.shape with
        | none => rfl
        | some sh =>
          simp only [Option.map_some, Option.some.injEq]
          have hd := swizLen_drop m.ids order hlen
          have h2 := map_drop_lookD (default : Sx) m.ids sh hn (hs sh hsh) (swizLen m.ids order)
          rw [← h2, ← hd, ← List.map_append, List.take_append_drop]
      · apply List.map_congr_left
        intro r _
        exact (lookD_all Fmt.C m.ids m.fmts r hC).symm

example : mSwizzle [.one "K", .one "M"] ⟨[.one "M", .one "K"], some [.n 4, .n 5], 7, [.C, .C], false⟩ =
    ⟨[.one "K", .one "M"], some [.n 5, .n 4], 7, [.C, .C], false⟩ := by decide

/-- … and the full statement is false for today's code: a re-ordering forgets formats and the
    mutability hint (`Tensor.fromFiber` builds fresh ranks, tensor.py:1474-1488) — DESIGN §7 #10. -/
theorem swizzle_meta_defect :
    ∃ (m : Meta) (order : List RId), m.wfB = true ∧ order.length = m.ids.length ∧
      (mSwizzle order m).ids = (sSwizzle order m).ids ∧ (mSwizzle order m).shape = (sSwizzle order m).shape ∧
      (mSwizzle order m).fmts ≠ (sSwizzle order m).fmts ∧ (mSwizzle order m).mutable ≠ (sSwizzle order m).mutable :=
  ⟨⟨[.one "M", .one "K"], some [.n 4, .n 5], 7, [.U, .C], true⟩, [.one "K", .one "M"], by decide⟩

/-- **swap**, what holds today: ids exchanged, default and mutability kept, every rank keeps its
    own format (looked up by id); the shape only when the operand's was not authoritative. -/
theorem swap_meta_partial (m : Meta) (k : Nat) (eb : Bool) (hwf : m.wfB = true) (hshape : m.shape = none) :
    mSwap k eb none m = sSwap k m := by
  obtain ⟨hl, _, hn⟩ := (wfB_iff m).1 hwf
  unfold mSwap sSwap
  by_cases hk : k + 1 < m.ids.length
  · simp only [hk, if_true, Option.some.injEq, Meta.mk.injEq, true_and, and_true, hshape, Option.map_none]
    refine ⟨by cases eb <;> rfl, ?_⟩
    rw [map_swapAt]
    unfold Meta.getFmt
    rw [map_lookD_self Fmt.C m.ids m.fmts hn hl]
  · simp [hk]

example : mSwap 0 false none ⟨[.one "M", .one "K"], none, 7, [.U, .C], true⟩ =
    some ⟨[.one "K", .one "M"], none, 7, [.C, .U], true⟩ := by decide

/-- … the authoritative shape is dropped ("TBD: Create shape", tensor.py:1545-1547) — DESIGN §7 #10 -/
theorem swap_meta_defect :
    ∃ (m : Meta), m.wfB = true ∧ (mSwap 0 false none m).map (·.shape) ≠ (sSwap 0 m).map (·.shape) ∧
      (mSwap 0 false none m).map (·.fmts) = (sSwap 0 m).map (·.fmts) :=
  ⟨⟨[.one "M", .one "K"], some [.n 4, .n 5], 7, [.U, .C], true⟩, by decide⟩

/-- **flatten / merge**: the merged id list, the shape entry the coordinate style defines, default
    and mutability kept; surviving ranks keep their format (looked up by id), the merged rank is "C". -/
theorem flatten_meta (m : Meta) (style : Style) (k levels : Nat) (hwf : m.wfB = true)
    (hfresh : RId.many (((m.ids.drop k).take (levels + 1)).flatMap RId.toList) ∉ m.ids) :
    mFlatten style k levels m = sFlatten style k levels m := by
  obtain ⟨hl, _, hn⟩ := (wfB_iff m).1 hwf
  have hf : (flatIds k levels m.ids).map m.fmtOrC =
      m.fmts.take k ++ [Fmt.C] ++ m.fmts.drop (k + levels + 1) := by
    unfold flatIds
    simp only [List.map_append, List.map_cons, List.map_nil]
    have hA : ∀ r ∈ m.ids, m.fmtOrC r = lookD m.ids m.fmts r Fmt.C := by
      intro r hr; simp [Meta.fmtOrC, hr, Meta.getFmt]
    rw [List.map_congr_left (fun r hr => hA r (List.mem_of_mem_take hr)),
        List.map_congr_left (fun r hr => hA r (List.mem_of_mem_drop hr)),
        map_take_lookD Fmt.C m.ids m.fmts hn hl, map_drop_lookD Fmt.C m.ids m.fmts hn hl]
    simp [Meta.fmtOrC, hfresh]
  unfold mFlatten sFlatten
  simp only [hf]

example : mFlatten .tuple 0 1 ⟨[.one "M", .one "K", .one "N"], some [.n 4, .n 5, .n 6], 7, [.U, .C, .U], true⟩ =
    some ⟨[.many ["M", "K"], .one "N"], some [.cons (.n 4) (.cons (.n 5) .nil), .n 6], 7, [.C, .U], true⟩ := by
  decide

/-- **unflatten**, what holds today: for a tensor with leaf default 0 whose shape is authoritative,
    the inverse re-arrangement of ids and shape, mutability kept, surviving ranks keep their format
    and the `levels + 1` new ranks are "C". -/
theorem unflatten_meta_partial (m : Meta) (k l : Nat) (s : List Sx) (ids' : List RId) (hwf : m.wfB = true)
    (hshape : m.shape = some s) (hd : m.dflt = 0) (hids : unflIds (l + 1) k m.ids = some ids')
    (hnew : ∀ r ∈ (ids'.drop k).take (l + 2), r ∉ m.ids) :
    mUnflatten k (l + 1) s m = sUnflatten k (l + 1) m := by
  obtain ⟨hl, _, hn⟩ := (wfB_iff m).1 hwf
  obtain ⟨news, hnl, he⟩ := unflIds_form l k m.ids ids' hids
  have hklt : k < m.ids.length := by
    rw [unflIds] at hids
    cases hh : m.ids[k]? with
    | none => rw [hh] at hids; cases hids
    | some v => exact (List.getElem?_eq_some_iff.1 hh).1
  have hlen : (m.ids.take k).length = k := by simp; omega
  have hnews : (ids'.drop k).take (l + 2) = news := by
    have := drop_take_mid (m.ids.take k) news (m.ids.drop (k + 1))
    rw [hlen, hnl] at this
    rw [he]; exact this
  rw [hnews] at hnew
  have hf : ids'.map m.fmtOrC = m.fmts.take k ++ List.replicate (l + 1 + 1) Fmt.C ++ m.fmts.drop (k + 1) := by
    rw [he]
    simp only [List.map_append]
    have hA : ∀ r ∈ m.ids, m.fmtOrC r = lookD m.ids m.fmts r Fmt.C := by
      intro r hr; simp [Meta.fmtOrC, hr, Meta.getFmt]
    rw [List.map_congr_left (fun r hr => hA r (List.mem_of_mem_take hr)),
        List.map_congr_left (fun r hr => hA r (List.mem_of_mem_drop hr)),
        map_take_lookD Fmt.C m.ids m.fmts hn hl, map_drop_lookD Fmt.C m.ids m.fmts hn hl]
    congr 2
    rw [← hnl]
    apply List.ext_getElem
    · simp
    · intro i h1 h2
      have hi : i < news.length := by simpa using h1
      simp only [List.getElem_map, List.getElem_replicate]
      have : news[i] ∉ m.ids := hnew _ (List.getElem_mem hi)
      simp [Meta.fmtOrC, this]
  unfold mUnflatten sUnflatten
  rw [hids, hshape]
  cases hu : unflShape (l + 1) k s with
  | none => simp [hu]
  | some s' => simp [hu, hf, hd]

example : mUnflatten 0 1 [.cons (.n 4) (.cons (.n 5) .nil), .n 6]
    ⟨[.many ["M", "K"], .one "N"], some [.cons (.n 4) (.cons (.n 5) .nil), .n 6], 0, [.C, .U], true⟩ =
    some ⟨[.one "M", .one "K", .one "N"], some [.n 4, .n 5, .n 6], 0, [.C, .C, .U], true⟩ := by decide

/-- … the leaf default is not carried (no `setDefault` in `unflattenRanks`) — DESIGN §7 #10 -/
theorem unflatten_meta_defect :
    ∃ (m : Meta) (s : List Sx), m.wfB = true ∧ m.shape = some s ∧
      (mUnflatten 0 1 s m).map (·.dflt) ≠ (sUnflatten 0 1 m).map (·.dflt) ∧
      (mUnflatten 0 1 s m).map (·.ids) = (sUnflatten 0 1 m).map (·.ids) ∧
      (mUnflatten 0 1 s m).map (·.shape) = (sUnflatten 0 1 m).map (·.shape) :=
  ⟨⟨[.many ["M", "K"], .one "N"], some [.cons (.n 4) (.cons (.n 5) .nil), .n 6], 7, [.C, .U], true⟩,
   [.cons (.n 4) (.cons (.n 5) .nil), .n 6], by decide⟩

/-- **unflatten is the inverse of flatten on rank ids**: flattening `levels + 1` atomic ranks at
    depth `k` and unflattening `levels` times gives the id list back. -/
theorem unflatten_flatten_ids (ids : List RId) (k l : Nat) (as : List String) (hal : as.length = l + 2)
    (hatoms : (ids.drop k).take (l + 2) = as.map RId.one) (hk : k + l + 1 < ids.length) :
    unflIds (l + 1) k (flatIds k (l + 1) ids) = some ids := by
  unfold flatIds
  rw [hatoms]
  have hfm : ∀ (l : List String), (l.map RId.one).flatMap RId.toList = l := by
    intro l
    induction l with
    | nil => rfl
    | cons a r ih => simp [RId.toList, List.flatMap_cons, ih]
  rw [hfm as]
  have hlen : (ids.take k).length = k := by simp; omega
  have := unflIds_many l (ids.take k) (ids.drop (k + (l + 1) + 1)) as hal
  rw [hlen] at this
  rw [this, ← hatoms]
  congr 1
  have e : ids.drop (k + (l + 1) + 1) = (ids.drop k).drop (l + 2) := by
    rw [List.drop_drop]; congr 1
  rw [e, List.append_assoc, List.take_append_drop, List.take_append_drop]

/-- … and on authoritative shapes, for the coordinate styles `tuple` and `pair` -/
theorem unflatten_flatten_shape (style : Style) (hst : style = .tuple ∨ style = .pair)
    (s : List Sx) (k l : Nat) (hk : k + l + 1 < s.length) :
    (flatShape style k (l + 1) s).bind (unflShape (l + 1) k) = some s := by
  have hlen : (s.take k).length = k := by simp; omega
  have hseg : ((s.drop k).take (l + 1 + 1)).length = l + 2 := by simp; omega
  have e : s.drop (k + (l + 1) + 1) = (s.drop k).drop (l + 2) := by
    rw [List.drop_drop]; congr 1
  have fin : s.take k ++ (s.drop k).take (l + 1 + 1) ++ s.drop (k + (l + 1) + 1) = s := by
    rw [e, List.append_assoc, List.take_append_drop, List.take_append_drop]
  unfold flatShape
  rcases hst with rfl | rfl
  · simp only [flatEntry, Option.map_some, Option.bind_some]
    have := unflShape_tuple l (s.take k) (s.drop (k + (l + 1) + 1)) _ hseg
    rw [hlen] at this
    rw [this, fin]
  · simp only [flatEntry, Option.map_some, Option.bind_some]
    have := unflShape_pair l (s.take k) (s.drop (k + (l + 1) + 1)) _ hseg
    rw [hlen] at this
    rw [this, fin]

example : unflIds 2 1 (flatIds 1 2 [.one "A", .one "B", .one "C", .one "D"]) =
    some [.one "A", .one "B", .one "C", .one "D"] := by decide
example : (flatShape .pair 0 2 [.n 3, .n 4, .n 5]).bind (unflShape 2 0) = some [.n 3, .n 4, .n 5] := by decide

/-- **updateCoords / updatePayloads**: a deep copy — every reported attribute is the operand's -/
theorem update_meta (m : Meta) : mUpdate m = m := rfl

/-- **constructors**: `fromFiber` (hence `fromUncompressed`, `fromRandom`) reports the given ids,
    the declared shape as authoritative (none if not declared), the given default, every rank "C",
    not mutable; `Tensor(...)` / `makePopulated` the same but mutable. -/
theorem ctor_meta (ids : List RId) (shape : Option (List Sx)) (dflt : Int) :
    (mFromFiber ids shape dflt).ids = ids ∧ (mFromFiber ids shape dflt).shape = shape ∧
    (mFromFiber ids shape dflt).dflt = dflt ∧ (∀ f ∈ (mFromFiber ids shape dflt).fmts, f = Fmt.C) ∧
    (mFromFiber ids shape dflt).fmts.length = ids.length ∧
    (mFromFiber ids shape dflt).mutable = false ∧
    mEmpty ids shape dflt = { mFromFiber ids shape dflt with mutable := true } := by
  refine ⟨rfl, rfl, rfl, ?_, ?_, rfl, rfl⟩
  · intro f hf
    simp only [mFromFiber, List.mem_map] at hf
    obtain ⟨_, _, rfl⟩ := hf; rfl
  · simp [mFromFiber]

end Ft
