/-
  C14 — rank ids, shapes, defaults, formats and active ranges follow the data.
  Property theorems only; helper lemmas live in FtProofs/Lemmas/MetaLemmas.lean.
-/
import FtProofs.Lemmas.MetaLemmas
set_option linter.unusedSectionVars false
set_option linter.unusedSimpArgs false
set_option linter.unusedVariables false
namespace Ft
open Ft.C14

/-- **split**: the carry-over block of `_splitGeneric` (formats looked up by rank id) yields the
    documented Meta: X → X.1, X.0; the authoritative shape with X's entry duplicated; default and
    mutability kept; both halves inherit X's format, every other rank keeps its own. -/
theorem split_meta (m : Meta) (k : Nat) (s : String) (hwf : m.wfB = true)
    (hk : m.ids[k]? = some (.one s))
    (h1 : RId.one (s ++ ".1") ∉ m.ids) (h0 : RId.one (s ++ ".0") ∉ m.ids) :
    mSplit k m = sSplit k m := by
  obtain ⟨hl, hs, hn⟩ := (metaWfB_iff m).1 hwf
  unfold mSplit sSplit
  rw [hk]
  simp only [Option.some.injEq, Meta.mk.injEq, true_and, and_true]
  have hx : m.fmts[k]? = some (m.getFmt (.one s)) := lookD_getElem? Fmt.C m.ids m.fmts hn hl k _ hk
  unfold dupAt
  rw [take_succ_of_getElem? _ _ _ hx, drop_of_getElem? _ _ _ hx]
  unfold splitIds
  simp only [List.map_append, List.map_cons, List.map_nil, if_true]
  have hne : RId.one (s ++ ".0") ≠ RId.one (s ++ ".1") := by
    intro h; injection h with h; simp at h
  simp only [hne, if_false, if_true]
  have hA : ∀ r ∈ m.ids, (if r = RId.one (s ++ ".1") then m.getFmt (.one s)
      else if r = RId.one (s ++ ".0") then m.getFmt (.one s) else m.getFmt r) = m.getFmt r := by
    intro r hr
    have a1 : r ≠ RId.one (s ++ ".1") := fun e => h1 (e ▸ hr)
    have a0 : r ≠ RId.one (s ++ ".0") := fun e => h0 (e ▸ hr)
    simp [a1, a0]
  rw [List.map_congr_left (fun r hr => hA r (List.mem_of_mem_take hr)),
      List.map_congr_left (fun r hr => hA r (List.mem_of_mem_drop hr))]
  have t := map_take_lookD Fmt.C m.ids m.fmts hn hl k
  have d := map_drop_lookD Fmt.C m.ids m.fmts hn hl (k + 1)
  unfold Meta.getFmt
  rw [t, d]
  simp

example : mSplit 0 ⟨[.one "M", .one "K"], some [.n 4, .n 5], 7, [.U, .C], true⟩ =
    some ⟨[.one "M.1", .one "M.0", .one "K"], some [.n 4, .n 4, .n 5], 7, [.U, .U, .C], true⟩ := by decide

/-- **swizzle**: the requested order; the authoritative shape with the `swiz_len` prefix re-arranged
    and the common suffix kept equals the shape permuted like the ids; default and mutability kept;
    every rank keeps its own format (full since /repo ba838e8). -/
theorem swizzle_meta (m : Meta) (order : List RId) (hwf : m.wfB = true)
    (hlen : order.length = m.ids.length) :
    mSwizzle order m = sSwizzle order m := by
  obtain ⟨hl, hs, hn⟩ := (metaWfB_iff m).1 hwf
  unfold mSwizzle sSwizzle
  by_cases he : m.ids = order
  · subst he
    simp only [if_true]
    cases m with
    | mk ids shape dflt fmts mutable =>
      simp only [Meta.mk.injEq, true_and, and_true]
      constructor
      · cases shape with
        | none => rfl
        | some sh => simp only [Option.map_some, Option.some.injEq]
                     exact (map_lookD_self default ids sh hn (hs sh rfl)).symm
      · exact (map_lookD_self Fmt.C ids fmts hn hl).symm
  · simp only [he, if_false, Meta.mk.injEq, true_and, and_true]
    cases hsh : m.shape with
    | none => rfl
    | some sh =>
      simp only [Option.map_some, Option.some.injEq]
      have hd := swizLen_drop m.ids order hlen
      have h2 := map_drop_lookD (default : Sx) m.ids sh hn (hs sh hsh) (swizLen m.ids order)
      rw [← h2, ← hd, ← List.map_append, List.take_append_drop]

example : mSwizzle [.one "K", .one "M"] ⟨[.one "M", .one "K"], some [.n 4, .n 5], 7, [.U, .C], true⟩ =
    ⟨[.one "K", .one "M"], some [.n 5, .n 4], 7, [.C, .U], true⟩ := by decide
example : mSwizzle [.one "K", .one "M", .one "N"] ⟨[.one "M", .one "K", .one "N"], some [.n 4, .n 5, .n 6], 0, [.U, .C, .U], false⟩ =
    ⟨[.one "K", .one "M", .one "N"], some [.n 5, .n 4, .n 6], 0, [.C, .U, .U], false⟩ := by decide

/-- **swap**: ids exchanged, the authoritative shape with the two entries exchanged (full since /repo
    38ce55b), default and mutability kept, every rank keeps its own format (looked up by id). -/
theorem swap_meta (m : Meta) (k : Nat) (hwf : m.wfB = true) : mSwap k m = sSwap k m := by
  obtain ⟨hl, _, hn⟩ := (metaWfB_iff m).1 hwf
  unfold mSwap sSwap
  by_cases hk : k + 1 < m.ids.length
  · simp only [hk, if_true, Option.some.injEq, Meta.mk.injEq, true_and, and_true]
    rw [map_swapAt]
    unfold Meta.getFmt
    rw [map_lookD_self Fmt.C m.ids m.fmts hn hl]
  · simp [hk]

example : mSwap 0 ⟨[.one "M", .one "K"], some [.n 4, .n 5], 7, [.U, .C], true⟩ =
    some ⟨[.one "K", .one "M"], some [.n 5, .n 4], 7, [.C, .U], true⟩ := by decide

/-- **flatten / merge**: the merged id list, the shape entry the coordinate style defines, default
    and mutability kept; surviving ranks keep their format (looked up by id), the merged rank is "C". -/
theorem flatten_meta (m : Meta) (style : Style) (k levels : Nat) (hwf : m.wfB = true)
    (hfresh : RId.many (((m.ids.drop k).take (levels + 1)).flatMap RId.toList) ∉ m.ids) :
    mFlatten style k levels m = sFlatten style k levels m := by
  obtain ⟨hl, _, hn⟩ := (metaWfB_iff m).1 hwf
  have hf : (flatIds k levels m.ids).map m.fmtOrC =
      m.fmts.take k ++ [Fmt.C] ++ m.fmts.drop (k + levels + 1) := by
    unfold flatIds
    simp only [List.map_append, List.map_cons, List.map_nil]
    have hA : ∀ r ∈ m.ids, m.fmtOrC r = lookD m.ids m.fmts r Fmt.C := by
      intro r hr; simp [Meta.fmtOrC, hr, Meta.getFmt]
    rw [List.map_congr_left (fun r hr => hA r (List.mem_of_mem_take hr)),
        List.map_congr_left (fun r hr => hA r (List.mem_of_mem_drop hr)),
        map_take_lookD Fmt.C m.ids m.fmts hn hl, map_drop_lookD Fmt.C m.ids m.fmts hn hl]
    simp [Meta.fmtOrC, hfresh]
  unfold mFlatten sFlatten
  simp only [hf]

example : mFlatten .tuple 0 1 ⟨[.one "M", .one "K", .one "N"], some [.n 4, .n 5, .n 6], 7, [.U, .C, .U], true⟩ =
    some ⟨[.many ["M", "K"], .one "N"], some [.cons (.n 4) (.cons (.n 5) .nil), .n 6], 7, [.C, .U], true⟩ := by
  decide

/-- the formats `unflattenRanks` installs (looked up by id, "C" for ids the operand does not have)
    are the positional ones: survivors keep theirs, the `levels + 1` new ranks are "C" -/
theorem C14.unflatten_fmts (m : Meta) (k l : Nat) (ids' : List RId) (hwf : m.wfB = true)
    (hids : unflIds (l + 1) k m.ids = some ids')
    (hnew : ∀ r ∈ (ids'.drop k).take (l + 2), r ∉ m.ids) :
    ids'.map m.fmtOrC = m.fmts.take k ++ List.replicate (l + 1 + 1) Fmt.C ++ m.fmts.drop (k + 1) := by
  obtain ⟨hl, _, hn⟩ := (metaWfB_iff m).1 hwf
  obtain ⟨news, hnl, he⟩ := unflIds_form l k m.ids ids' hids
  have hklt : k < m.ids.length := by
    rw [unflIds] at hids
    cases hh : m.ids[k]? with
    | none => rw [hh] at hids; cases hids
    | some v => exact (List.getElem?_eq_some_iff.1 hh).1
  have hlen : (m.ids.take k).length = k := by simp; omega
  have hnews : (ids'.drop k).take (l + 2) = news := by
    have := drop_take_mid (m.ids.take k) news (m.ids.drop (k + 1))
    rw [hlen, hnl] at this
    rw [he]; exact this
  rw [hnews] at hnew
  rw [he]
  simp only [List.map_append]
  have hA : ∀ r ∈ m.ids, m.fmtOrC r = lookD m.ids m.fmts r Fmt.C := by
    intro r hr; simp [Meta.fmtOrC, hr, Meta.getFmt]
  rw [List.map_congr_left (fun r hr => hA r (List.mem_of_mem_take hr)),
      List.map_congr_left (fun r hr => hA r (List.mem_of_mem_drop hr)),
      map_take_lookD Fmt.C m.ids m.fmts hn hl, map_drop_lookD Fmt.C m.ids m.fmts hn hl]
  congr 2
  rw [← hnl]
  apply List.ext_getElem
  · simp
  · intro i h1 h2
    have hi : i < news.length := by simpa using h1
    simp only [List.getElem_map, List.getElem_replicate]
    have : news[i] ∉ m.ids := hnew _ (List.getElem_mem hi)
    simp [Meta.fmtOrC, this]

/-- **unflatten**: the inverse re-arrangement of ids and of the authoritative shape (none if the
    operand's is only estimated; full since /repo COMMIT:C14-01), leaf default (e4536c9) and mutability
    kept, surviving ranks keep their format and the `levels + 1` new ranks are "C". -/
theorem unflatten_meta (m : Meta) (k l : Nat) (ids' : List RId) (hwf : m.wfB = true)
    (hids : unflIds (l + 1) k m.ids = some ids')
    (hnew : ∀ r ∈ (ids'.drop k).take (l + 2), r ∉ m.ids) :
    mUnflatten k (l + 1) m = sUnflatten k (l + 1) m := by
  have hf := C14.unflatten_fmts m k l ids' hwf hids hnew
  unfold mUnflatten sUnflatten
  rw [hids]
  simp only [hf]

example : mUnflatten 0 1
    ⟨[.many ["M", "K"], .one "N"], some [.cons (.n 4) (.cons (.n 5) .nil), .n 6], 7, [.C, .U], true⟩ =
    some ⟨[.one "M", .one "K", .one "N"], some [.n 4, .n 5, .n 6], 7, [.C, .C, .U], true⟩ := by decide
example : mUnflatten 0 1 ⟨[.many ["M", "K"]], none, 7, [.U], false⟩ =
    some ⟨[.one "M", .one "K"], none, 7, [.C, .C], false⟩ := by decide

/-- **unflatten is the inverse of flatten on rank ids**: flattening `levels + 1` atomic ranks at
    depth `k` and unflattening `levels` times gives the id list back. -/
theorem unflatten_flatten_ids (ids : List RId) (k l : Nat) (as : List String) (hal : as.length = l + 2)
    (hatoms : (ids.drop k).take (l + 2) = as.map RId.one) (hk : k + l + 1 < ids.length) :
    unflIds (l + 1) k (flatIds k (l + 1) ids) = some ids := by
  unfold flatIds
  rw [hatoms]
  have hfm : ∀ (l : List String), (l.map RId.one).flatMap RId.toList = l := by
    intro l
    induction l with
    | nil => rfl
    | cons a r ih => simp [RId.toList, List.flatMap_cons, ih]
  rw [hfm as]
  have hlen : (ids.take k).length = k := by simp; omega
  have := unflIds_many l (ids.take k) (ids.drop (k + (l + 1) + 1)) as hal
  rw [hlen] at this
  rw [this, ← hatoms]
  congr 1
  have e : ids.drop (k + (l + 1) + 1) = (ids.drop k).drop (l + 2) := by
    rw [List.drop_drop]; congr 1
  rw [e, List.append_assoc, List.take_append_drop, List.take_append_drop]

/-- … and on authoritative shapes, for the coordinate styles `tuple` and `pair` -/
theorem unflatten_flatten_shape (style : Style) (hst : style = .tuple ∨ style = .pair)
    (s : List Sx) (k l : Nat) (hk : k + l + 1 < s.length) :
    (flatShape style k (l + 1) s).bind (unflShape (l + 1) k) = some s := by
  have hlen : (s.take k).length = k := by simp; omega
  have hseg : ((s.drop k).take (l + 1 + 1)).length = l + 2 := by simp; omega
  have e : s.drop (k + (l + 1) + 1) = (s.drop k).drop (l + 2) := by
    rw [List.drop_drop]; congr 1
  have fin : s.take k ++ (s.drop k).take (l + 1 + 1) ++ s.drop (k + (l + 1) + 1) = s := by
    rw [e, List.append_assoc, List.take_append_drop, List.take_append_drop]
  unfold flatShape
  rcases hst with rfl | rfl
  · simp only [flatEntry, Option.map_some, Option.bind_some]
    have := unflShape_tuple l (s.take k) (s.drop (k + (l + 1) + 1)) _ hseg
    rw [hlen] at this
    rw [this, fin]
  · simp only [flatEntry, Option.map_some, Option.bind_some]
    have := unflShape_pair l (s.take k) (s.drop (k + (l + 1) + 1)) _ hseg
    rw [hlen] at this
    rw [this, fin]

example : unflIds 2 1 (flatIds 1 2 [.one "A", .one "B", .one "C", .one "D"]) =
    some [.one "A", .one "B", .one "C", .one "D"] := by decide
example : (flatShape .pair 0 2 [.n 3, .n 4, .n 5]).bind (unflShape 2 0) = some [.n 3, .n 4, .n 5] := by decide

/-- **updateCoords / updatePayloads**: a deep copy — every reported attribute is the operand's -/
theorem update_meta (m : Meta) : mUpdate m = m := rfl

/-- **constructors**: `fromFiber` (hence `fromUncompressed`, `fromRandom`) reports the given ids,
    the declared shape as authoritative (none if not declared), the given default, every rank "C",
    not mutable; `Tensor(...)` / `makePopulated` the same but mutable. -/
theorem ctor_meta (ids : List RId) (shape : Option (List Sx)) (dflt : Int) :
    (mFromFiber ids shape dflt).ids = ids ∧ (mFromFiber ids shape dflt).shape = shape ∧
    (mFromFiber ids shape dflt).dflt = dflt ∧ (∀ f ∈ (mFromFiber ids shape dflt).fmts, f = Fmt.C) ∧
    (mFromFiber ids shape dflt).fmts.length = ids.length ∧
    (mFromFiber ids shape dflt).mutable = false ∧
    mEmpty ids shape dflt = { mFromFiber ids shape dflt with mutable := true } := by
  refine ⟨rfl, rfl, rfl, ?_, ?_, rfl, rfl⟩
  · intro f hf
    simp only [mFromFiber, List.mem_map] at hf
    obtain ⟨_, _, rfl⟩ := hf; rfl
  · simp [mFromFiber]

/-! ### every stored coordinate lies inside the reported shape and its fiber's active range -/

/-- fibers of a freshly constructed tensor report `(0, shape)` as their active range, so a shape
    that covers the data makes the whole invariant true (declared shape: the caller's obligation) -/
theorem declared_coords_in_shape {ν : Type} (d : Nat) (t : Tree Int ν d) (shape : List Int)
    (hlen : shape.length = d)
    (hcover : ∀ i, i < d → ∀ cs ∈ fibersAt d t i, ∀ c ∈ cs, 0 ≤ c ∧ c < shape.getD i 0) :
    boundsB (shape.map Sx.n) (ctorLevels d t shape) = true := by
  unfold boundsB
  rw [Bool.and_eq_true]
  constructor
  · simp [ctorLevels, hlen]
  · unfold ctorLevels
    rw [show shape.map Sx.n = (List.range d).map (fun i => Sx.n (shape.getD i 0)) from by
      apply List.ext_getElem
      · simp [hlen]
      · intro i h1 h2
        have : i < shape.length := by simpa using h1
        simp [List.getD_eq_getElem?_getD, this]]
    rw [List.zip_map', List.all_map, List.all_eq_true]
    intro i hi
    have hid : i < d := List.mem_range.1 hi
    simp only [Function.comp, List.all_map, List.all_eq_true]
    intro cs hcs
    simp only [Function.comp, fiberInShape, fiberInActive, List.all_map, Bool.and_eq_true, List.all_eq_true]
    refine ⟨fun c hc => ?_, fun c hc => ?_⟩
    · have h := hcover i hid cs hcs c hc
      rw [List.getD_eq_getElem?_getD] at h
      simp [Function.comp, inShape_n, h.1, h.2]
    · have h := hcover i hid cs hcs c hc
      rw [List.getD_eq_getElem?_getD] at h
      simp [Function.comp, inRange_n, h.1, h.2]

/-- **constructor without declared shape**: the shape `Rank.append` estimates (running maximum of
    last coordinate + 1 over the fibers of each rank) covers every stored coordinate of a tree with
    ascending, non-negative coordinates; the fibers carry no explicit range, so `getActive()` is
    `(0, shape)` and covers them too. -/
theorem est_coords_in_shape {ν : Type} (d : Nat) (t : Tree Int ν d)
    (hasc : levelsAscB d t = true) (hnn : nonnegB d t = true) :
    boundsB ((estShape d t).map Sx.n) (ctorLevels d t (estShape d t)) = true := by
  apply declared_coords_in_shape d t (estShape d t) (by simp [estShape])
  intro i hid cs hcs c hc
  have hi : i ∈ List.range d := List.mem_range.2 hid
  have hS : (estShape d t).getD i 0 = estLevel (fibersAt d t i) := by
    unfold estShape
    simp [List.getD_eq_getElem?_getD, hid]
  have hasc' : ∀ x ∈ fibersAt d t i, x.Pairwise (· < ·) := by
    intro x hx
    have := (List.all_eq_true.1 ((List.all_eq_true.1 hasc) i hi)) x hx
    exact (ascB_iff x).1 this
  have hnn' : ∀ x ∈ fibersAt d t i, ∀ c ∈ x, 0 ≤ c := by
    intro x hx c hc
    have := List.all_eq_true.1 ((List.all_eq_true.1 ((List.all_eq_true.1 hnn) i hi)) x hx) c hc
    simpa using this
  rw [hS]
  exact ⟨hnn' cs hcs c hc, lt_estLevel _ hasc' hnn' cs hcs c hc⟩

def C14.exT : Tree Int Int 2 :=
  show List (Int × Tree Int Int 1) from
    [(1, show List (Int × Tree Int Int 0) from [(2, (3 : Int))]), (5, show List (Int × Tree Int Int 0) from [(7, (1 : Int))])]
example : estShape 2 C14.exT = [6, 8] := by decide
example : levelsAscB 2 C14.exT = true ∧ nonnegB 2 C14.exT = true := by decide
example : boundsB [.n 6, .n 8] (ctorLevels 2 C14.exT [6, 8]) = true := est_coords_in_shape 2 C14.exT (by decide) (by decide)

/-- **re-arranging transforms** (swizzle, swap, unflatten; updatePayloads): if every coordinate the
    result stores at level `j` was stored by the operand at level `g j` and the result's shape entry
    `j` is the operand's entry `g j`, the operand's "inside the shape" carries over.  The first
    hypothesis is a fact about the tree algorithms, which this module does not model (C09); the
    check evaluates the conclusion on every result of the implementation. -/
theorem rearranged_coords_in_shape_partial (shape shape' : List Sx) (lv lv' : List (List FObs)) (g : Nat → Nat)
    (hsrc : ∀ i, ∀ f ∈ lv.getD i [], fiberInShape (shape.getD i .nil) f = true)
    (hsub : ∀ j, ∀ f' ∈ lv'.getD j [], ∀ c ∈ f'.coords, ∃ f ∈ lv.getD (g j) [], c ∈ f.coords)
    (hshape : ∀ j, shape'.getD j .nil = shape.getD (g j) .nil) :
    ∀ j, ∀ f' ∈ lv'.getD j [], fiberInShape (shape'.getD j .nil) f' = true := by
  intro j f' hf'
  unfold fiberInShape
  rw [List.all_eq_true]
  intro c hc
  obtain ⟨f, hf, hcf⟩ := hsub j f' hf' c hc
  have := hsrc (g j) f hf
  unfold fiberInShape at this
  rw [hshape j]
  exact List.all_eq_true.1 this c hcf

/-- the hypotheses are satisfiable: a 2-rank tensor with its ranks exchanged -/
example : ∀ j, ∀ f' ∈ ([[⟨[.n 3], .n 0, .n 5⟩], [⟨[.n 1], .n 0, .n 4⟩]] : List (List FObs)).getD j [],
    fiberInShape (([.n 5, .n 4] : List Sx).getD j .nil) f' = true :=
  rearranged_coords_in_shape_partial [.n 4, .n 5] [.n 5, .n 4]
    [[⟨[.n 1], .n 0, .n 4⟩], [⟨[.n 3], .n 0, .n 5⟩]] [[⟨[.n 3], .n 0, .n 5⟩], [⟨[.n 1], .n 0, .n 4⟩]]
    (fun j => if j = 0 then 1 else if j = 1 then 0 else j)
    (by intro i f hf
        match i, hf with
        | 0, hf => simp at hf; subst hf; decide
        | 1, hf => simp at hf; subst hf; decide
        | n + 2, hf => simp at hf)
    (by intro j f' hf' c hc
        match j, hf' with
        | 0, hf' =>
          simp at hf'; subst hf'; simp at hc; subst hc
          exact ⟨⟨[.n 3], .n 0, .n 5⟩, by simp, by simp⟩
        | 1, hf' =>
          simp at hf'; subst hf'; simp at hc; subst hc
          exact ⟨⟨[.n 1], .n 0, .n 4⟩, by simp, by simp⟩
        | n + 2, hf' => simp at hf')
    (by intro j
        match j with
        | 0 => rfl
        | 1 => rfl
        | n + 2 => simp)

/-- **swizzle's active-range reset**: the range the final loop of `swizzleRanks` gives a rebuilt
    fiber (start from the operand ranges containing its FIRST coordinate, end from those containing
    its LAST one) exists as soon as some operand range of that rank contains the first and some
    contains the last coordinate, and it contains every coordinate of the (ascending) fiber. -/
theorem swizzle_reset_contains (ranges : List (Int × Int)) (coords : List Int) (hasc : coords.Pairwise (· < ·))
    (c0 c1 : Int) (h0 : coords.head? = some c0) (h1 : coords.getLast? = some c1)
    (hr0 : ∃ r ∈ ranges, r.1 ≤ c0 ∧ c0 < r.2) (hr1 : ∃ r ∈ ranges, r.1 ≤ c1 ∧ c1 < r.2) :
    ∃ lo hi, swizReset ranges coords = some (lo, hi) ∧ ∀ c ∈ coords, lo ≤ c ∧ c < hi := by
  unfold swizReset
  rw [h0, h1]
  simp only
  obtain ⟨r0, hr0m, hr0a, hr0b⟩ := hr0
  obtain ⟨r1, hr1m, hr1a, hr1b⟩ := hr1
  have hs : r0.1 ∈ (ranges.filter (fun r => decide (r.1 ≤ c0) && decide (c0 < r.2))).map (·.1) :=
    List.mem_map.2 ⟨r0, List.mem_filter.2 ⟨hr0m, by simp [hr0a, hr0b]⟩, rfl⟩
  have he : r1.2 ∈ (ranges.filter (fun r => decide (r.1 ≤ c1) && decide (c1 < r.2))).map (·.2) :=
    List.mem_map.2 ⟨r1, List.mem_filter.2 ⟨hr1m, by simp [hr1a, hr1b]⟩, rfl⟩
  cases hS : (ranges.filter (fun r => decide (r.1 ≤ c0) && decide (c0 < r.2))).map (·.1) with
  | nil => rw [hS] at hs; cases hs
  | cons s ss =>
    cases hE : (ranges.filter (fun r => decide (r.1 ≤ c1) && decide (c1 < r.2))).map (·.2) with
    | nil => rw [hE] at he; cases he
    | cons e es =>
      refine ⟨_, _, rfl, ?_⟩
      -- every start considered is ≤ c0, every end considered is > c1
      have hsall : ∀ x ∈ s :: ss, x ≤ c0 := by
        intro x hx
        rw [← hS] at hx
        obtain ⟨r, hr, rfl⟩ := List.mem_map.1 hx
        have := (List.mem_filter.1 hr).2
        simp only [Bool.and_eq_true, decide_eq_true_eq] at this
        exact this.1
      have heall : ∀ x ∈ e :: es, c1 < x := by
        intro x hx
        rw [← hE] at hx
        obtain ⟨r, hr, rfl⟩ := List.mem_map.1 hx
        have := (List.mem_filter.1 hr).2
        simp only [Bool.and_eq_true, decide_eq_true_eq] at this
        exact this.2
      have hlo : ss.foldl min s ≤ c0 :=
        Int.le_trans (foldl_min_le' ss s).1 (hsall s (List.mem_cons_self ..))
      have hhi : c1 < es.foldl max e :=
        Int.lt_of_lt_of_le (heall e (List.mem_cons_self ..)) (le_foldl_max' es e).1
      intro c hc
      obtain ⟨h, hh, hle⟩ := head_le_of_asc coords hasc c hc
      obtain ⟨l, hl, hge⟩ := le_getLast coords hasc c hc
      rw [h0] at hh; cases hh
      rw [h1] at hl; cases hl
      omega

/-- a rebuilt root that spans two partitions of a split operand: `(0, 8)`, not `(0, 4)` -/
example : swizReset [(0, 4), (4, 8)] [0, 1, 5, 7] = some (0, 8) := by decide

/-- **flatten** (styles tuple / pair, one level): the merged coordinates `(c1, c0)` lie componentwise
    inside the shape `(S1, S0)` and lexicographically inside the active range the code builds,
    `((lo1, min lo0), (hi1, max hi0))`, whenever each operand fiber's coordinates lie inside its own
    range and shape. -/
theorem flatten_coords_in_bounds_partial {π : Type} (f : Fib Int (AF π)) (lo1 hi1 S1 S0 rs re : Int)
    (hrs : childLo f = some rs) (hre : childHi f = some re)
    (hup : ∀ e ∈ f, lo1 ≤ e.1 ∧ e.1 < hi1 ∧ 0 ≤ e.1 ∧ e.1 < S1)
    (hlow : ∀ e ∈ f, ∀ x ∈ e.2.elems, e.2.lo ≤ x.1 ∧ x.1 < e.2.hi ∧ 0 ≤ x.1 ∧ x.1 < S0) :
    ∀ y ∈ flat2 f, lexLe (lo1, rs) y.1 = true ∧ lexLt y.1 (hi1, re) = true ∧
      (0 ≤ y.1.1 ∧ y.1.1 < S1) ∧ (0 ≤ y.1.2 ∧ y.1.2 < S0) := by
  intro y hy
  unfold flat2 at hy
  rw [List.mem_flatMap] at hy
  obtain ⟨e, he, hy⟩ := hy
  rw [List.mem_map] at hy
  obtain ⟨x, hx, rfl⟩ := hy
  have u := hup e he
  have l := hlow e he x hx
  have a := childLo_le f rs hrs e he
  have b := le_childHi f re hre e he
  simp only [lexLe, lexLt, Bool.or_eq_true, Bool.and_eq_true, decide_eq_true_eq]
  refine ⟨?_, ?_, ⟨u.2.2.1, u.2.2.2⟩, ⟨l.2.2.1, l.2.2.2⟩⟩
  · by_cases h : lo1 < e.1
    · exact Or.inl h
    · exact Or.inr ⟨by omega, by omega⟩
  · exact Or.inl u.2.1

example : (flat2 [((0 : Int), (⟨[((3 : Int), (1 : Int)), (4, 2)], 0, 5⟩ : AF Int)), (1, ⟨[(4, 3)], 0, 5⟩)]).map (·.1) =
    [(0, 3), (0, 4), (1, 4)] := by decide

/-- **split** (uniform, no halo, absolute or relative coordinates; `uSpec` is what C08's `uniform_spec`
    proves the modelled splitter loop to compute) of a fiber whose range is `(0, S)`: every
    partition coordinate lies inside `[0, S)` (the duplicated shape entry and the upper fiber's
    range), every lower coordinate inside its partition's range — the clipped interval, shifted by the
    partition start for `relativeCoords` (since /repo COMMIT:C14-03) — which lies inside `[0, S)`. -/
theorem split_coords_in_bounds_partial {π : Type} (step S : Int) (rel : Bool) (elems : Fib Int π)
    (hstep : 0 < step) (hS : 0 < S)
    (p : Part π) (hp : p ∈ uSpec step 0 0 0 S rel elems) :
    (0 ≤ p.start ∧ p.start < S) ∧ (0 ≤ p.lo ∧ p.hi ≤ S) ∧ ∀ e ∈ p.elems, p.lo ≤ e.1 ∧ e.1 < p.hi := by
  obtain ⟨P, hP, _, rfl⟩ := (mem_uSpec step 0 0 0 S rel elems p).1 hp
  obtain ⟨⟨q, rfl⟩, h2, h3⟩ := (mem_uCands step 0 S hstep P).1 hP
  have hq : 0 ≤ q := by
    apply Int.le_of_lt_add_one
    apply Int.lt_of_not_ge
    intro hle
    have : step * (q + 1) ≤ step * 0 := Int.mul_le_mul_of_nonneg_left hle (Int.le_of_lt hstep)
    rw [Int.mul_add, Int.mul_one, Int.mul_zero] at this
    omega
  have hP0 : 0 ≤ step * q := Int.mul_nonneg (Int.le_of_lt hstep) hq
  have hmem : ∀ e ∈ elems.filter (fun e => uMemb step 0 0 0 S (step * q) e.1),
      max (step * q) 0 ≤ e.1 ∧ e.1 < min (step * q + step) S := by
    intro e he
    have := (List.mem_filter.1 he).2
    simp only [uMemb, inWindow, Bool.and_eq_true, decide_eq_true_eq] at this
    omega
  cases rel with
  | false =>
    refine ⟨⟨hP0, h3⟩, ?_, ?_⟩
    · show 0 ≤ max (step * q) 0 ∧ min (step * q + step) S ≤ S
      omega
    · intro e he
      exact hmem e he
  | true =>
    refine ⟨⟨hP0, h3⟩, ?_, ?_⟩
    · show 0 ≤ max (step * q) 0 - step * q ∧ min (step * q + step) S - step * q ≤ S
      omega
    · intro e he
      have he' : e ∈ (elems.filter (fun e => uMemb step 0 0 0 S (step * q) e.1)).map
          (fun e => (e.1 - step * q, e.2)) := he
      obtain ⟨x, hx, rfl⟩ := List.mem_map.1 he'
      have := hmem x hx
      show max (step * q) 0 - step * q ≤ x.1 - step * q ∧ x.1 - step * q < min (step * q + step) S - step * q
      omega

example : (uSpec 2 0 0 0 4 false [((1 : Int), (10 : Int)), (3, 30)]).map (fun p => (p.start, p.lo, p.hi)) =
    [(0, 0, 2), (2, 2, 4)] := by decide
example : (uSpec 2 0 0 0 4 true [((1 : Int), (10 : Int)), (3, 30)]).map (fun p => (p.start, p.elems.map (·.1), p.lo, p.hi)) =
    [(0, [1], 0, 2), (2, [1], 0, 2)] := by decide

/-- … **so active-range iteration equals occupancy iteration**: on an ascending fiber whose
    coordinates all lie inside `[lo, hi)`, `iterActive` presents exactly what is stored. -/
theorem active_iter_eq_occupancy {π : Type} (lo hi : Int) (elems : Fib Int π) (hs : Sorted elems)
    (hin : ∀ e ∈ elems, lo ≤ e.1 ∧ e.1 < hi) : iterActive lo hi elems = elems := by
  rw [iterActive_eq_filter lo hi elems hs, List.filter_eq_self]
  intro e he
  have := hin e he
  simp [this.1, this.2]

example : iterActive 0 5 [((1 : Int), (10 : Int)), (3, 30)] = [(1, 10), (3, 30)] := by decide
/-- (and a coordinate outside the range is what makes them differ) -/
example : iterActive 2 4 [((1 : Int), (10 : Int))] = [] := by decide

/-! ### lazily produced fibers -/

/-- **lazy results, active range**: every operator gives its result the range the operation defines
    — the first operand's for `& | ^ -`, `prune`, `intersection`, `union`, `coiterActiveShape`; the
    source's for populate; the requested one for `coiterRangeShape` / projection with an interval;
    the transformed range for a projection. -/
theorem lazy_active (op : LazyOp) (a b : FAttr) :
    (lazyAttrs op a b).lo = (lazySpec op a b).lo ∧ (lazyAttrs op a b).hi = (lazySpec op a b).hi := by
  cases op <;> exact ⟨rfl, rfl⟩

/-- **lazy results, rank id**, what holds today: the first operand's id (the destination's for
    populate), except for a projection that does not name its target rank. -/
theorem lazy_attrs_partial (op : LazyOp) (a b : FAttr)
    (h : ∀ k m iv, op ≠ .project k m iv none) : lazyAttrs op a b = lazySpec op a b := by
  cases op with
  | project k m iv rid =>
    cases rid with
    | none => exact absurd rfl (h k m iv)
    | some r => rfl
  | _ => rfl

example : lazyAttrs .populate ⟨"Z", 0, 0⟩ ⟨"B", 0, 9⟩ = ⟨"Z", 0, 9⟩ := by decide
example : lazyAttrs (.project (-1) 20 none (some "Q")) ⟨"A", 1, 5⟩ ⟨"B", 0, 9⟩ = ⟨"Q", 16, 20⟩ := by decide

/-- … `project` sets the id only `if rank_id is not None` (fiber.py:1335-1336) -/
theorem lazy_project_id_defect :
    ∃ a b : FAttr, (lazyAttrs (.project 1 0 none none) a b).id ≠ (lazySpec (.project 1 0 none none) a b).id :=
  ⟨⟨"A", 1, 5⟩, ⟨"B", 0, 9⟩, by decide⟩

/-- **projection**: for every affine `trans_fn` (increasing, decreasing or constant) the transformed
    range `(min(f lo, f (hi-1)), max(…) + 1)` contains the image of every coordinate of `[lo, hi)`. -/
theorem project_active_contains (k m lo hi c : Int) (h1 : lo ≤ c) (h2 : c < hi) :
    (projRange k m lo hi).1 ≤ affine k m c ∧ affine k m c < (projRange k m lo hi).2 := by
  unfold projRange affine
  simp only
  by_cases hk : 0 ≤ k
  · have a := Int.mul_le_mul_of_nonneg_left h1 hk
    have b := Int.mul_le_mul_of_nonneg_left (show c ≤ hi - 1 by omega) hk
    omega
  · have hk' : k ≤ 0 := by omega
    have a := Int.mul_le_mul_of_nonpos_left hk' h1
    have b := Int.mul_le_mul_of_nonpos_left hk' (show c ≤ hi - 1 by omega)
    omega

example : projRange (-2) 9 1 4 = (3, 8) := by decide

/-- **intersection and difference** deliver only coordinates of the first operand, so they lie inside
    the range the result inherits from it. -/
theorem lazy_coords_inside {α β : Type} (a : Fib Int α) (b : Fib Int β) (lo hi : Int)
    (ha : ∀ e ∈ a, lo ≤ e.1 ∧ e.1 < hi) :
    (∀ x ∈ andMerge a b, lo ≤ x.1 ∧ x.1 < hi) ∧ (∀ x ∈ subMerge a b, lo ≤ x.1 ∧ x.1 < hi) := by
  constructor
  · intro x hx
    obtain ⟨e, he, h⟩ := andMerge_coord_mem a b x hx
    rw [← h]; exact ha e he
  · intro x hx
    exact ha x (subMerge_mem a b x hx)

example := lazy_coords_inside [((1 : Int), (1 : Int)), (3, 2)] [((3 : Int), (7 : Int)), (8, 9)] 1 5 (by decide)

/-! ### an unowned fiber joins a tensor -/

/-- **attributes on join**: once owned, the fiber answers with its rank's id, shape, default and
    format (its own are no longer consulted); a rank with a declared shape keeps it when a fiber
    without own shape joins; a rank that estimates ends up with a shape covering the new fiber. -/
theorem attrs_on_join (r : RankAttrs) (own : OwnAttrs) (est : Int) :
    joined r own = ⟨r.id, r.shape, r.dflt, r.fmt⟩ ∧
    (r.estimated = false → joinShape r none est = r) ∧
    (r.estimated = true → 0 < est → (∀ s, r.shape = some s → 0 ≤ s) →
      ∃ s, (joinShape r none est).shape = some s ∧ est ≤ s) := by
  refine ⟨rfl, ?_, ?_⟩
  · intro h
    simp [joinShape, h]
  · intro h hpos hs
    have hne : est ≠ 0 := by omega
    cases hsh : r.shape with
    | none => exact ⟨est, by simp [joinShape, h, hsh, hne], Int.le_refl _⟩
    | some o => exact ⟨max o est, by simp [joinShape, h, hsh, hne], by omega⟩

example : joinShape ⟨"M", none, true, 0, .C⟩ (some 9) 3 = ⟨"M", some 9, false, 0, .C⟩ := by decide
example : joinShape ⟨"M", some 6, false, 0, .C⟩ (some 9) 3 = ⟨"M", some 9, false, 0, .C⟩ := by decide

end Ft
