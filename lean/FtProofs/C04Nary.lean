/-
  C04 (continued) — n-ary intersection / union and leader–follower intersection.
  Property theorems only; helpers in FtProofs/Lemmas/NaryLemmas.lean.
-/
import FtProofs.Lemmas.NaryLemmas
set_option linter.unusedSectionVars false
set_option linter.unusedSimpArgs false
namespace Ft
open StrictTotal

section
variable {κ α β : Type} [LT κ] [DecidableRel (α := κ) (· < ·)] [DecidableEq κ] [StrictTotal κ]

/-- **n-ary intersection**: exactly the coordinates presented by every operand, ascending, each
    once, with the operands' own payloads as one flat tuple in operand order -/
theorem nary_and_spec (a : Fib κ α) (rest : List (Fib κ α)) (ha : Sorted a) (hr : ∀ b ∈ rest, Sorted b) :
    naryAnd a rest = naryAndSpec a rest := by
  unfold naryAnd naryAndSpec
  rw [foldl_and_spec rest _ (sorted_map_key a (fun e => [e.2]) ha) hr, List.filterMap_map]
  apply filterMap_congr'
  intro e _
  simp [Function.comp]

/-- **n-ary union** satisfies its truth table: ascending; the row at a coordinate holds every
    operand's own payload or a fresh default for the operands that lack it (hence the mask letters
    name exactly the operands present); at least one operand is present; every operand
    coordinate is covered -/
theorem nary_or_sound [DecidableEq α] (a : Fib κ α) (rest : List (Fib κ α)) (ha : Sorted a)
    (hr : ∀ b ∈ rest, Sorted b) : naryOrSpecB (a :: rest) (naryOr a rest) = true := by
  have hinv := naryOr_inv a rest ha hr
  unfold naryOrSpecB
  simp only [Bool.and_eq_true, List.all_eq_true, decide_eq_true_eq]
  refine ⟨⟨(sortedB_iff _).2 hinv.sorted, fun row hrow => hinv.rows row hrow⟩, ?_⟩
  intro b hb e he
  exact (hasCoord_iff _ _).2 (hinv.cover b hb e he)

/-- … and the truth table determines the output -/
theorem nary_or_complete [DecidableEq α] (a : Fib κ α) (rest : List (Fib κ α)) (ha : Sorted a)
    (hr : ∀ b ∈ rest, Sorted b) (out : Fib κ (List (Option α)))
    (h : naryOrSpecB (a :: rest) out = true) : out = naryOr a rest := by
  have hinv := naryOr_inv a rest ha hr
  unfold naryOrSpecB at h
  simp only [Bool.and_eq_true, List.all_eq_true, decide_eq_true_eq] at h
  obtain ⟨⟨hs, hrows⟩, hcov⟩ := h
  have anyKey : ∀ c, (naryOrRow (a :: rest) c).any (·.isSome) = true → ∃ b ∈ a :: rest, HasKey b c := by
    intro c hc
    simp only [naryOrRow, List.any_map, List.any_eq_true, Function.comp] at hc
    obtain ⟨b, hb, hbs⟩ := hc
    refine ⟨b, hb, (hasCoord_iff b c).1 ?_⟩
    rw [hasCoord_iff_lookup]; exact hbs
  apply sorted_ext_of_fn (F := fun c => naryOrRow (a :: rest) c) out _ ((sortedB_iff _).1 hs) hinv.sorted
  · intro r hr'; exact (hrows r hr').1
  · intro r hr'; exact (hinv.rows r hr').1
  · intro c
    constructor
    · rintro ⟨r, hr', rfl⟩
      obtain ⟨e1, e2⟩ := hrows r hr'
      rw [e1] at e2
      obtain ⟨b, hb, ⟨e, he, hec⟩⟩ := anyKey r.1 e2
      exact hec ▸ hinv.cover b hb e he
    · rintro ⟨r, hr', rfl⟩
      obtain ⟨e1, e2⟩ := hinv.rows r hr'
      rw [e1] at e2
      obtain ⟨b, hb, ⟨e, he, hec⟩⟩ := anyKey r.1 e2
      exact hec ▸ (hasCoord_iff _ _).1 (hcov b hb e he)

/-- **leader–follower**: every leader element, in order, with each follower's stored payload at
    that coordinate, or a fresh default where the follower stores nothing there -/
theorem leaderFollower_spec (a : Fib κ α) (bs : List (Fib κ β)) (hb : ∀ b ∈ bs, Sorted b) :
    leaderFollower a bs = a.map (fun e => (e.1, (e.2, bs.map (fun b => lookup b e.1)))) := by
  unfold leaderFollower
  apply List.map_congr_left
  intro e _
  congr 2
  apply List.map_congr_left
  intro b hbm
  exact posLookup_eq_lookup (hb b hbm) e.1

end

/-! ### non-vacuity (tests) -/
section
private def a1 : Fib Int Int := [(0, 1), (2, 2), (5, 3)]
private def a2 : Fib Int Int := [(2, 7), (3, 8), (5, 9)]
private def a3 : Fib Int Int := [(1, 4), (5, 6)]
example : Sorted a1 ∧ Sorted a2 ∧ Sorted a3 :=
  ⟨(sortedB_iff a1).1 (by decide), (sortedB_iff a2).1 (by decide), (sortedB_iff a3).1 (by decide)⟩
#guard naryAnd a1 [a2, a3] == [(5, [3, 9, 6])]
#guard naryOr a1 [a2, a3] == [(0, [some 1, none, none]), (1, [none, none, some 4]), (2, [some 2, some 7, none]),
  (3, [none, some 8, none]), (5, [some 3, some 9, some 6])]
#guard (naryOr a1 [a2, a3]).map (fun r => naryMask r.2) == ["A", "C", "AB", "B", "ABC"]
#guard leaderFollower a1 [a2, a3] == [(0, 1, [none, none]), (2, 2, [some 7, none]), (5, 3, [some 9, some 6])]
end
end Ft
