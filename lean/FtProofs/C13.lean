/-
  C13 — conversions between representations are lossless.
  Property theorems only; helper lemmas live in FtProofs/Lemmas/Convert.lean.

  Clauses of the property and where they are stated:
    * content / no explicit defaults / shape of `fromUncompressed`  — §1
    * `uncompress (fromUncompressed n) (dims n) = n`                — §2 (full, fiber and
      tensor route, all-default nests included)
    * dictionary and YAML round trips                                — §3 (full; YAML text
      layer abstracted as the identity)
    * `fromRandom`                                                   — §4
-/
import FtProofs.Lemmas.Convert
set_option linter.unusedSectionVars false
set_option linter.unusedSimpArgs false
set_option linter.unusedVariables false
namespace Ft

/-! ## §1  fromUncompressed -/

section FromU
variable {ν : Type} [DecidableEq ν]

/-- The tree built from a nest stores exactly the nest's non-default entries, at their
    index points, in row-major order (any nest, any default, any depth). -/
theorem fromUncompressed_content (dflt : ν) (d : Nat) (n : Nest ν (d + 1)) :
    content dflt (d + 1) (fromUncompressed dflt d n) = nestContent dflt (d + 1) n :=
  content_fromUncompressed dflt d n

/-- … and it is in canonical form: coordinates strictly increasing at every level, no
    explicit default and no empty sub-fiber stored anywhere. -/
theorem fromUncompressed_canonical (dflt : ν) (d : Nat) (n : Nest ν (d + 1)) :
    WF (d + 1) (fromUncompressed dflt d n) ∧ noEmptyB dflt (d + 1) (fromUncompressed dflt d n) = true := by
  cases h : makeFiber dflt d n with
  | some t =>
    rw [fromUncompressed_of_some h]
    have g := makeFiber_good dflt d n t h
    exact ⟨g.wf, g.noEmpty⟩
  | none =>
    rw [fromUncompressed_of_none h]
    exact ⟨⟨sorted_nil, fun e he => by cases he⟩, rfl⟩

/-- … and these three facts determine the result: ANY tree that is sorted, stores no empty
    element and has the nest's non-default entries as content IS the model's tree.  (So
    evaluating the specification on the implementation's tree and comparing that tree with
    the model's are the same test.) -/
theorem fromUncompressed_complete (dflt : ν) (d : Nat) (n : Nest ν (d + 1)) (t : Tree Nat ν (d + 1))
    (hw : WF (d + 1) t) (hn : noEmptyB dflt (d + 1) t = true)
    (hc : content dflt (d + 1) t = nestContent dflt (d + 1) n) :
    t = fromUncompressed dflt d n := by
  obtain ⟨hw', hn'⟩ := fromUncompressed_canonical dflt d n
  exact canonical_unique dflt (d + 1) t (fromUncompressed dflt d n) hw hw' hn hn'
    (hc.trans (fromUncompressed_content dflt d n).symm)

/-- The result is empty exactly for the all-default nests. -/
theorem fromUncompressed_empty_iff (dflt : ν) (d : Nat) (n : Nest ν (d + 1)) :
    asList (fromUncompressed dflt d n) = [] ↔ allDefault dflt (d + 1) n = true := by
  rw [← makeFiber_eq_none_iff]
  cases h : makeFiber dflt d n with
  | some t =>
    rw [fromUncompressed_of_some h]
    exact ⟨fun e => absurd e (makeFiber_good dflt d n t h).ne, fun e => by cases e⟩
  | none =>
    rw [fromUncompressed_of_none h]
    exact ⟨fun _ => rfl, fun _ => rfl⟩

/-- `Tensor.fromUncompressed`: the shape computed by `_calc_shape` (as written) is the
    nest's dimensions, for every rectangular nest with positive dimensions — all-default
    ones included. -/
theorem fromUncompressed_tensor_shape (d : Nat) (dims : List Nat) (n : Nest ν (d + 1))
    (hr : rectB (d + 1) dims n = true) (hpos : ∀ k ∈ dims, 0 < k) :
    calcShape d n = dims :=
  calcShape_eq_dims d dims n hr hpos

/-- `Fiber.fromUncompressed(n).getShape()` is the nest's dimensions PROVIDED the nest has a
    non-default entry or has depth 1.  (Gap: for an all-default nest of depth ≥ 2 the code
    returns `Fiber([], [], shape=len(n))`, whose shape is `[len(n)]` — see
    `fromUncompressed_fiber_shape_allDefault`.) -/
theorem fromUncompressed_fiber_shape_partial (dflt : ν) (d : Nat) (dims : List Nat) (n : Nest ν (d + 1))
    (hr : rectB (d + 1) dims n = true) (hpos : ∀ k ∈ dims, 0 < k)
    (hne : allDefault dflt (d + 1) n = false ∨ d = 0) :
    fiberShape dflt d n = dims := by
  unfold fiberShape
  cases h : makeFiber dflt d n with
  | some t =>
    simp only [Option.isSome_some, if_true]
    exact fiberShapeSome_eq_dims dflt d dims n hr (by rw [h]; rfl)
  | none =>
    have hall := (makeFiber_eq_none_iff dflt d n).1 h
    rcases hne with hne | hd
    · rw [hall] at hne; cases hne
    · subst hd
      simp only [Option.isSome_none, Bool.false_eq_true, if_false]
      have := calcShape_eq_dims 0 dims n hr hpos
      exact this

/-- The excluded class really fails: an all-default nest of depth ≥ 2 gets the
    one-element shape `[len(n)]`, which is not its dimension list. -/
theorem fromUncompressed_fiber_shape_allDefault (dflt : ν) (d : Nat) (n : Nest ν (d + 2))
    (hall : allDefault dflt (d + 2) n = true) :
    fiberShape dflt (d + 1) n = [List.length (asNestList n)] := by
  unfold fiberShape
  rw [(makeFiber_eq_none_iff dflt (d + 1) n).2 hall]
  rfl

end FromU

/-! ## §2  uncompress ∘ fromUncompressed -/

section Unc
variable {ν : Type} [DecidableEq ν]

/-- Round trip: for EVERY rectangular nest with positive dimensions — all-default ones
    included — uncompressing the tree built from it to the nest's dimensions returns the nest,
    both for `Fiber.fromUncompressed` (`owned = false`) and through
    `Tensor.fromUncompressed(...).getRoot()` (`owned = true`).  (Fixes cc544e6, ecc4474.) -/
theorem uncompress_fromUncompressed (owned : Bool) (dflt : ν) (d : Nat) (dims : List Nat) (n : Nest ν (d + 1))
    (hr : rectB (d + 1) dims n = true) (hpos : ∀ k ∈ dims, 0 < k) :
    uncompress owned dflt d dims (fromUncompressed dflt d n) = some n :=
  cv_uncompress_roundtrip owned dflt d dims n hr hpos

end Unc

/-! ## §3  dictionary form and YAML -/

section Yaml
variable {κ ν : Type}

/-- `dict2fiber(fiber2dict(t))` rebuilds exactly the stored tree — every depth (0 = a
    rank-0 payload), every coordinate type (tuples included), explicit defaults and empty
    sub-fibers included. -/
theorem dict_roundtrip (d : Nat) (t : Tree κ ν d) : dict2fiber d (fiber2dict d t) = some t :=
  dict2fiber_fiber2dict d t

section
variable [LT κ] [DecidableRel (α := κ) (· < ·)] [DecidableEq κ] [DecidableEq ν]

/-- … and the rebuilt tree is `==` to the original, in both directions, for every default:
    `dict2fiber(dict, default=x)` creates the fibers with the default it is given, the
    original's. -/
theorem dict_roundtrip_equal (dflt : ν) (d : Nat) (t : Tree κ ν d) :
    ∃ r, dict2fiber d (fiber2dict d t) = some r ∧ eqB dflt dflt d r t = true ∧ eqB dflt dflt d t r = true :=
  ⟨t, dict2fiber_fiber2dict d t, eqB_refl dflt d t, eqB_refl dflt d t⟩

/-- Tensor dump → (abstracted) YAML text → `Tensor.fromYAMLfile`, for EVERY tensor — any
    rank (0 included), any coordinate type (tuples of flattened ranks included), any name, any
    default: the reloaded tensor has the same rank ids, shape, name and stored tree, for rank
    ≥ 1 the same default, and it compares `==` with the original in both directions, each
    side under its own default. -/
theorem tensor_yaml_roundtrip (zero : ν) {d : Nat} (t : TRep κ ν d) :
    ∃ r, tensorYamlRoundtrip zero t = some r ∧ r.rankIds = t.rankIds ∧ r.shape = t.shape ∧
         r.name = t.name ∧ r.root = t.root ∧ (d ≠ 0 → r.dflt = t.dflt) ∧
         tensorEqB r.dflt t.dflt r t = true ∧ tensorEqB t.dflt r.dflt t r = true := by
  refine ⟨{ rankIds := t.rankIds, shape := t.shape, name := t.name, root := t.root,
            dflt := (if d = 0 then none else some t.dflt).getD zero }, ?_, rfl, rfl, rfl, rfl, ?_, ?_, ?_⟩
  · unfold tensorYamlRoundtrip yamlText tensorLoad tensorDump
    simp only [dict2fiber_fiber2dict]
  · intro hd; simp [hd]
  · cases d with
    | zero => simp [tensorEqB, eqB]; rfl
    | succ d => simp [tensorEqB, eqB_refl]
  · cases d with
    | zero => simp [tensorEqB, eqB]; rfl
    | succ d => simp [tensorEqB, eqB_refl]

/-- whatever is loaded back carries the original's name, rank ids and shape -/
theorem tensor_yaml_name_kept (zero : ν) {d : Nat} (t : TRep κ ν d) (r : TRep κ ν d)
    (h : tensorYamlRoundtrip zero t = some r) :
    r.name = t.name ∧ r.rankIds = t.rankIds ∧ r.shape = t.shape := by
  unfold tensorYamlRoundtrip yamlText tensorLoad tensorDump at h
  simp only [dict2fiber_fiber2dict] at h
  cases h
  exact ⟨rfl, rfl, rfl⟩

/-- The deprecated loader `Tensor(yamlfile=…)` gives what `Tensor.fromYAMLfile` gives, for every
    rank, 0 included (so `tensor_yaml_roundtrip` applies to it as well). -/
theorem tensor_yaml_ctor_roundtrip (zero : ν) {d : Nat} (t : TRep κ ν d) :
    tensorCtorRoundtrip zero t = tensorYamlRoundtrip zero t ∧ (tensorCtorRoundtrip zero t).isSome = true := by
  obtain ⟨r, h, _⟩ := tensor_yaml_roundtrip zero t
  have : tensorCtorRoundtrip zero t = tensorYamlRoundtrip zero t := rfl
  exact ⟨this, by rw [this, h]; rfl⟩

/-- `Fiber.dump` → text → `Fiber.fromYAMLfile(file, default=dflt)`: the stored tree comes back
    and is `==` the original (every fiber of the result has the default `dflt`), for every
    fiber, tuple coordinates included. -/
theorem fiber_yaml_roundtrip (dflt : ν) (d : Nat) (t : Tree κ ν (d + 1)) :
    fiberYamlRoundtrip d t = some t ∧ eqB dflt dflt (d + 1) t t = true := by
  unfold fiberYamlRoundtrip
  simp only [dict2fiber_fiber2dict, eqB_refl, and_self]

end

/-- the fiber `Fiber([2], [0])` -/
def witnessStoredZero : Tree Nat Int 1 := ([(2, (0 : Int))] : List (Nat × Int))

/-- why the default has to travel with the dictionary / YAML form: under different defaults
    (7 for the original, 0 for a copy rebuilt without it) a fiber that stores a 0 is NOT `==`
    its own copy, in either direction. -/
theorem default_matters_witness :
    eqB (7 : Int) 0 1 witnessStoredZero witnessStoredZero = false ∧
    eqB (0 : Int) 7 1 witnessStoredZero witnessStoredZero = false := by
  let z : Tree Nat Int 0 := (0 : Int)
  have h7 : present (7 : Int) 0 witnessStoredZero = ([(2, z)] : Fib Nat (Tree Nat Int 0)) := rfl
  have h0 : present (0 : Int) 0 witnessStoredZero = ([] : Fib Nat (Tree Nat Int 0)) := rfl
  have e1 : orMerge ([(2, z)] : Fib Nat (Tree Nat Int 0)) ([] : Fib Nat (Tree Nat Int 0)) =
      [(2, (Mask.A, some z, none))] := by rw [orMerge]; rfl
  have e2 : orMerge ([] : Fib Nat (Tree Nat Int 0)) ([(2, z)] : Fib Nat (Tree Nat Int 0)) =
      [(2, (Mask.B, none, some z))] := by rw [orMerge]; rfl
  constructor
  · rw [eqB_succ, h7, h0, e1]; rfl
  · rw [eqB_succ, h7, h0, e2]; rfl

end Yaml

/-! ## §4  fromRandom (as a function of the recorded draws) -/

section Random

theorem inShapeB_succ {ν : Type} (d n : Nat) (ns : List Nat) (t : Tree Nat ν (d + 1)) :
    inShapeB (d + 1) (n :: ns) t = (asList t).all (fun e => decide (e.1 < n) && inShapeB d ns e.2) := rfl

/-- Whatever the draws, every coordinate the random tree stores lies inside the requested
    shape, at every level. -/
theorem random_in_shape (dflt : Int) : ∀ (d : Nat) (shape dens : List Nat) (s s' : Draws) (t : Tree Nat Int (d + 1)),
    fromRandom dflt d shape dens s = some (t, s') → inShapeB (d + 1) shape t = true := by
  intro d
  induction d with
  | zero =>
    intro shape dens s s' t h
    cases shape with
    | nil => rw [fromRandom_nil_shape] at h; cases h
    | cons n ns =>
      cases dens with
      | nil => rw [fromRandom_nil_dens] at h; cases h
      | cons q qs =>
        rw [fromRandom_zero] at h
        rw [inShapeB_succ]
        apply List.all_eq_true.2
        intro e he
        have := (randLoop_mem _ _ _ _ h e he).1
        have hlt : e.1 < n := List.mem_range.1 this
        simp [hlt, inShapeB]
  | succ d ih =>
    intro shape dens s s' t h
    cases shape with
    | nil => rw [fromRandom_nil_shape] at h; cases h
    | cons n ns =>
      cases dens with
      | nil => rw [fromRandom_nil_dens] at h; cases h
      | cons q qs =>
        rw [fromRandom_succ] at h
        rw [inShapeB_succ]
        apply List.all_eq_true.2
        intro e he
        obtain ⟨hmem, s1, s2, hb⟩ := randLoop_mem _ _ _ _ h e he
        have hlt : e.1 < n := List.mem_range.1 hmem
        obtain ⟨u, us', _, hcase⟩ := randUpperBody_some hb
        rcases hcase with ⟨_, t', ht', hp⟩ | ⟨_, _, hp, _⟩
        · have hin := ih ns qs _ s2 t' ht'
          by_cases hemp : isEmpty dflt (d + 1) t' = true
          · rw [if_pos hemp] at hp; cases hp
          · rw [if_neg hemp] at hp
            have : e.2 = t' := Option.some.inj hp
            rw [this, hin]
            simp [hlt]
        · cases hp

/-- The stored coordinates are strictly increasing at every level (sub-sequence of `range`). -/
theorem random_sorted (dflt : Int) : ∀ (d : Nat) (shape dens : List Nat) (s s' : Draws) (t : Tree Nat Int (d + 1)),
    fromRandom dflt d shape dens s = some (t, s') → WF (d + 1) t := by
  intro d
  induction d with
  | zero =>
    intro shape dens s s' t h
    cases shape with
    | nil => rw [fromRandom_nil_shape] at h; cases h
    | cons n ns =>
      cases dens with
      | nil => rw [fromRandom_nil_dens] at h; cases h
      | cons q qs =>
        rw [fromRandom_zero] at h
        refine ⟨?_, fun _ _ => trivial⟩
        have hsub := randLoop_sublist _ _ _ _ h
        have : List.Pairwise (· < ·) (List.map (·.1) (asList t)) :=
          List.Pairwise.sublist hsub List.pairwise_lt_range
        exact (List.pairwise_map.1 this)
  | succ d ih =>
    intro shape dens s s' t h
    cases shape with
    | nil => rw [fromRandom_nil_shape] at h; cases h
    | cons n ns =>
      cases dens with
      | nil => rw [fromRandom_nil_dens] at h; cases h
      | cons q qs =>
        rw [fromRandom_succ] at h
        refine ⟨?_, ?_⟩
        · have hsub := randLoop_sublist _ _ _ _ h
          have : List.Pairwise (· < ·) (List.map (·.1) (asList t)) :=
            List.Pairwise.sublist hsub List.pairwise_lt_range
          exact (List.pairwise_map.1 this)
        · intro e he
          obtain ⟨_, s1, s2, hb⟩ := randLoop_mem _ _ _ _ h e he
          obtain ⟨u, us', _, hcase⟩ := randUpperBody_some hb
          rcases hcase with ⟨_, t', ht', hp⟩ | ⟨_, _, hp, _⟩
          · by_cases hemp : isEmpty dflt (d + 1) t' = true
            · rw [if_pos hemp] at hp; cases hp
            · rw [if_neg hemp] at hp
              have : e.2 = t' := Option.some.inj hp
              rw [this]
              exact ih ns qs _ s2 t' ht'
          · cases hp

/-- At density 1 the shape is filled completely: if every uniform draw is below every
    density (`random() < 1.0 ≤ density`) and no integer draw equals the default (guaranteed
    when the default lies outside `[1, interval]`), the points holding a value are ALL points of
    the shape, in row-major order. -/
theorem random_full_at_density_one (dflt : Int) (m : Nat) : ∀ (d : Nat) (shape dens : List Nat) (s s' : Draws)
    (t : Tree Nat Int (d + 1)), shape.length = d + 1 → (∀ q ∈ dens, m ≤ q) → GoodDraws m dflt s →
    fromRandom dflt d shape dens s = some (t, s') →
    GoodDraws m dflt s' ∧ points dflt (d + 1) t = allPoints shape := by
  intro d
  induction d with
  | zero =>
    intro shape dens s s' t hlen hq hI h
    cases shape with
    | nil => rw [fromRandom_nil_shape] at h; cases h
    | cons n ns =>
      cases dens with
      | nil => rw [fromRandom_nil_dens] at h; cases h
      | cons q qs =>
        rw [fromRandom_zero] at h
        have hq0 : m ≤ q := hq q (List.mem_cons_self ..)
        have key := randLoop_full (body := randLeafBody dflt q) (GoodDraws m dflt)
          (fun (v : Int) => points (κ := Nat) dflt 0 v) [[]]
          (by
            intro s0 p s1 hI0 hb
            obtain ⟨hI1, v, hp, hv⟩ := randLeafBody_good hq0 s0 p s1 hI0 hb
            subst hp
            refine ⟨hI1, ?_⟩
            show List.map (·.1) (if v = dflt then [] else [(([] : List Nat), v)]) = [[]]
            rw [if_neg hv]; rfl)
          (List.range n) s s' (asList t) hI h
        have hns : ns = [] := by
          cases ns with
          | nil => rfl
          | cons a b => simp at hlen
        subst hns
        refine ⟨key.1, ?_⟩
        rw [points_succ]
        exact key.2
  | succ d ih =>
    intro shape dens s s' t hlen hq hI h
    cases shape with
    | nil => rw [fromRandom_nil_shape] at h; cases h
    | cons n ns =>
      cases dens with
      | nil => rw [fromRandom_nil_dens] at h; cases h
      | cons q qs =>
        rw [fromRandom_succ] at h
        have hq0 : m ≤ q := hq q (List.mem_cons_self ..)
        have hqs : ∀ q' ∈ qs, m ≤ q' := fun q' hq' => hq q' (List.mem_cons_of_mem _ hq')
        have key := randLoop_full (body := randUpperBody dflt d ns qs q) (GoodDraws m dflt)
          (fun (t' : Tree Nat Int (d + 1)) => points dflt (d + 1) t') (allPoints ns)
          (by
            intro s0 p s1 hI0 hb
            obtain ⟨u, us', hus, hcase⟩ := randUpperBody_some hb
            have hu : u < q := by
              have : u ∈ s0.us := by rw [hus]; exact List.mem_cons_self ..
              exact Nat.lt_of_lt_of_le (hI0.1 u this) hq0
            rcases hcase with ⟨_, t', ht', hp⟩ | ⟨hnu, _, _, _⟩
            · have hI0' : GoodDraws m dflt { s0 with us := us' } :=
                ⟨fun x hx => hI0.1 x (by rw [hus]; exact List.mem_cons_of_mem _ hx), hI0.2⟩
              obtain ⟨hI1, hpts⟩ := ih ns qs _ s1 t' (by simpa using hlen) hqs hI0' ht'
              refine ⟨hI1, ?_⟩
              subst hp
              by_cases hemp : isEmpty dflt (d + 1) t' = true
              · rw [if_pos hemp]
                show allPoints ns = []
                rw [← hpts]
                unfold points
                rw [cv_content_eq_nil_of_isEmpty dflt (d + 1) t' hemp]; rfl
              · rw [if_neg hemp]; exact hpts
            · exact absurd hu hnu)
          (List.range n) s s' (asList t) hI h
        refine ⟨key.1, ?_⟩
        rw [points_succ]
        exact key.2

/-- Determinism: the model is, by construction, a function of (shape, density, default,
    draws); moreover the result depends only on the draws actually consumed — appending
    further draws to the stream changes neither the tree nor what is consumed.  (That the same
    seed yields the same draws is a fact about Python's `random`, observed by the harness.) -/
theorem random_deterministic (dflt : Int) (eu : List Nat) (ei : List Int) : ∀ (d : Nat) (shape dens : List Nat)
    (s s' : Draws) (t : Tree Nat Int (d + 1)),
    fromRandom dflt d shape dens s = some (t, s') →
    fromRandom dflt d shape dens (s.extend eu ei) = some (t, s'.extend eu ei) := by
  intro d
  induction d with
  | zero =>
    intro shape dens s s' t h
    cases shape with
    | nil => rw [fromRandom_nil_shape] at h; cases h
    | cons n ns =>
      cases dens with
      | nil => rw [fromRandom_nil_dens] at h; cases h
      | cons q qs =>
        rw [fromRandom_zero] at h ⊢
        exact randLoop_extend eu ei (randLeafBody_extend dflt q eu ei) _ _ _ _ h
  | succ d ih =>
    intro shape dens s s' t h
    cases shape with
    | nil => rw [fromRandom_nil_shape] at h; cases h
    | cons n ns =>
      cases dens with
      | nil => rw [fromRandom_nil_dens] at h; cases h
      | cons q qs =>
        rw [fromRandom_succ] at h ⊢
        refine randLoop_extend eu ei ?_ _ _ _ _ h
        intro s0 p s1 hb
        obtain ⟨u, us', hus, hcase⟩ := randUpperBody_some hb
        obtain ⟨us0, is0⟩ := s0
        simp only at hus
        subst hus
        rcases hcase with ⟨hu, t', ht', hp⟩ | ⟨hnu, hd, hp, hs1⟩
        · have := ih ns qs _ s1 t' ht'
          unfold randUpperBody
          simp only [Draws.extend, List.cons_append, hu, if_true] at this ⊢
          rw [this, hp]
        · unfold randUpperBody
          subst hp; subst hs1
          simp only [Draws.extend, List.cons_append, hnu, if_false, hd, if_true]

end Random
/-! ## non-vacuity: the hypotheses of every theorem above are satisfiable by non-trivial values -/

section NonVacuity

/-- `[[1, 0], [0, 0]]` -/
def exNest : Nest Int 2 := ([[1, 0], [0, 0]] : List (List Int))
/-- `[[0, 0], [0, 0]]` -/
def exZero : Nest Int 2 := ([[0, 0], [0, 0]] : List (List Int))
/-- `[7, 0, 1]` with default 7 -/
def exLeaf : Nest Int 1 := ([7, 0, 1] : List Int)

-- §1: content / canonical have no hypotheses; instances
example : content (0 : Int) 2 (fromUncompressed 0 1 exNest) = [([0, 0], 1)] := by
  rw [fromUncompressed_content]; decide
example : content (7 : Int) 1 (fromUncompressed 7 0 exLeaf) = [([1], 0), ([2], 1)] := by
  rw [fromUncompressed_content]; decide
-- completeness: a hand-written tree satisfying the three facts
def exTreeN : Tree Nat Int 2 := ([(0, ([(0, (1 : Int))] : List (Nat × Int)))] : List (Nat × List (Nat × Int)))
example : exTreeN = fromUncompressed 0 1 exNest :=
  fromUncompressed_complete 0 1 exNest exTreeN ((cv_wfB_iff 2 exTreeN).1 (by decide)) (by decide) (by decide)
-- shape theorems: rectangular, positive dimensions, (not) all default
example : rectB 2 [2, 2] exNest = true ∧ (∀ k ∈ [2, 2], 0 < k) ∧ allDefault (0 : Int) 2 exNest = false :=
  ⟨by decide, by decide, by decide⟩
example : calcShape 1 exZero = [2, 2] := fromUncompressed_tensor_shape 1 [2, 2] exZero (by decide) (by decide)
example : fiberShape (0 : Int) 1 exNest = [2, 2] :=
  fromUncompressed_fiber_shape_partial 0 1 [2, 2] exNest (by decide) (by decide) (Or.inl (by decide))
example : fiberShape (0 : Int) 1 exZero = [2] :=
  fromUncompressed_fiber_shape_allDefault 0 0 exZero (by decide)
-- §2
example : uncompress false (0 : Int) 1 [2, 2] (fromUncompressed 0 1 exNest) = some exNest :=
  uncompress_fromUncompressed false 0 1 [2, 2] exNest (by decide) (by decide)
example : uncompress false (0 : Int) 1 [2, 2] (fromUncompressed 0 1 exZero) = some exZero :=
  uncompress_fromUncompressed false 0 1 [2, 2] exZero (by decide) (by decide)
example : uncompress true (0 : Int) 1 [2, 2] (fromUncompressed 0 1 exZero) = some exZero :=
  uncompress_fromUncompressed true 0 1 [2, 2] exZero (by decide) (by decide)
example : uncompress true (7 : Int) 0 [3] (fromUncompressed 7 0 exLeaf) = some exLeaf :=
  uncompress_fromUncompressed true 7 0 [3] exLeaf (by decide) (by decide)

-- §3: a rank-2 tensor with an explicit default and an empty sub-fiber, default 7
def cv_exTree : Tree YCoord Int 2 :=
  ([(YCoord.int 0, ([(YCoord.int 1, (0 : Int)), (YCoord.int 2, 5)] : List (YCoord × Int))),
    (YCoord.int 3, ([] : List (YCoord × Int)))] : List (YCoord × List (YCoord × Int)))
def exRep : TRep YCoord Int 2 :=
  { rankIds := ["A", "B"], shape := [YCoord.int 4, YCoord.int 3], name := "T", root := cv_exTree, dflt := 7 }
example : ∃ r, tensorYamlRoundtrip (0 : Int) exRep = some r ∧ r.root = cv_exTree ∧ r.name = "T" ∧ r.dflt = 7 := by
  obtain ⟨r, h, _, _, hname, hroot, hd, _⟩ := tensor_yaml_roundtrip (0 : Int) exRep
  exact ⟨r, h, hroot, hname, hd (by decide)⟩
example : (tensorCtorRoundtrip (0 : Int) exRep).isSome = true := (tensor_yaml_ctor_roundtrip (0 : Int) exRep).2
/-- a flattened tensor: tuple coordinates and a tuple shape -/
def exTuple : TRep YCoord Int 1 :=
  { rankIds := ["[\"A\", \"B\"]"], shape := [YCoord.tup [2, 2]], name := "", dflt := 0,
    root := ([(YCoord.tup [0, 0], (1 : Int))] : List (YCoord × Int)) }
example : ∃ r, tensorYamlRoundtrip (0 : Int) exTuple = some r ∧ r.root = exTuple.root ∧ r.shape = [YCoord.tup [2, 2]] := by
  obtain ⟨r, h, _, hshape, _, hroot, _⟩ := tensor_yaml_roundtrip (0 : Int) exTuple
  exact ⟨r, h, hroot, hshape⟩

-- §4
def exDraws : Draws := { us := [0, 1, 0], is := [3, 4, 5] }
example : GoodDraws 2 0 exDraws := ⟨by decide, by decide⟩
example : (fromRandom 0 1 [1, 2] [2, 2] exDraws).isSome = true := by decide
example : ∀ t s', fromRandom 0 1 [1, 2] [2, 2] exDraws = some (t, s') → points 0 2 t = [[0, 0], [0, 1]] := by
  intro t s' h
  exact (random_full_at_density_one 0 2 1 [1, 2] [2, 2] exDraws s' t rfl (by decide) ⟨by decide, by decide⟩ h).2

end NonVacuity
end Ft
