/- C13 — property theorems (to be written) -/
