/-
  FtModel.Kernel — sum-of-products kernels written in the library's idiom (C06).

      for m, (z_n, a_k) in z_m << a_m:
          for k, (a_val, b_n) in a_k & b_k:
              for n, (z_ref, b_val) in z_n << b_n:
                  z_ref += a_val * b_val

  A loop nest is interpreted by `run` exactly as the Python text is built: one loop per index
  variable of the loop order; the operands whose next rank is that variable are co-iterated
  (`&` / `Fiber.intersection` two-finger = iterated `andMerge` of FtModel.Coiter, or leader-follower:
  the leader's presented elements with `getPayload` on the followers, optionally skipping empty
  follower payloads); if the output's next rank is the variable the co-iteration drives a populate
  (`<<` = `populate` of FtModel.Populate, with the removal rule), otherwise it is a plain `for`;
  the innermost statement is `z_ref += a * b * …` on the leaf reference.

  Operands are *cursors*: the list of index variables still to be consumed and the sub-tree reached.
  The dense side (`esum`, `einsum`, `denseContent`) is the mathematical sum over all assignments of
  the index variables over a finite coordinate universe `U`.

  The second half models the operand preparation: `Tensor.swizzleRanks` (tensor.py:1376-1509:
  depth-first extraction of all stored paths of the swizzled prefix, permutation, sort, regrouping)
  — the uniform tiling is `splitAt` of FtModel.Split.

  Everything lives in `Ft.C06`.
-/
import FtModel.Basic
import FtModel.Coiter
import FtModel.Point
import FtModel.Populate
import FtModel.Split
namespace Ft.C06
open Ft

/-- an operand while the loop nest runs: remaining index variables (= rank ids, outermost first)
    and the sub-tree reached so far -/
structure Cur (κ : Type) where
  ranks : List Nat
  t : Tree κ Int ranks.length

inductive Style
  | tf    -- `(a & b) & c` / `Fiber.intersection(..., style="two-finger")`
  | tfr   -- `a & (b & c)`: the right operand is itself a lazy intersection (also: hoisted `bc = b & c`)
  | lf    -- `Fiber.intersection(..., style="leader-follower")`
  | lff   -- leader-follower, then `if Payload.isEmpty(follower): continue`
  deriving DecidableEq, Repr

section
variable {κ : Type}

/-- the boxed value of a cursor that has consumed all its ranks -/
def Cur.leaf : Cur κ → Int
  | ⟨[], t⟩ => (show Int from t)
  | ⟨_ :: _, _⟩ => 0

/-- `Payload.isEmpty(p)` -/
def Cur.isEmpty : Cur κ → Bool
  | ⟨rs, t⟩ => Ft.isEmpty (0 : Int) rs.length t

/-- what iterating the cursor's fiber (format "C") presents, each payload as the cursor one level down -/
def Cur.elems : Cur κ → Fib κ (Cur κ)
  | ⟨[], _⟩ => []
  | ⟨_ :: rs, t⟩ =>
    (present (0 : Int) rs.length (show Tree κ Int (rs.length + 1) from t)).map
      (fun e => (e.1, (⟨rs, e.2⟩ : Cur κ)))

def prodL : List Int → Int
  | [] => 1
  | x :: r => x * prodL r

end

section
variable {κ : Type} [LT κ] [DecidableRel (α := κ) (· < ·)] [DecidableEq κ]

/-- `fiber.getPayload(c)` on a follower: the stored payload (whatever it holds), else a fresh default -/
def Cur.at (c : κ) : Cur κ → Cur κ
  | ⟨[], t⟩ => ⟨[], t⟩
  | ⟨_ :: rs, t⟩ =>
    ⟨rs, (posLookup (show List (κ × Tree κ Int rs.length) from t) c).getD (defaultTree (0 : Int) rs.length)⟩

/-- `((a & b) & c) …`: the nested pairs flattened into a list, first operand first -/
def interAcc {π : Type} (acc : Fib κ (List π)) : List (Fib κ π) → Fib κ (List π)
  | [] => acc
  | g :: gs => interAcc ((andMerge acc g).map (fun r => (r.1, r.2.1 ++ [r.2.2]))) gs

def interAll {π : Type} : List (Fib κ π) → Fib κ (List π)
  | [] => []
  | f :: fs => interAcc (f.map (fun e => (e.1, [e.2]))) fs

/-- `a & (b & c)` (or `a & bc` with `bc = b & c` built outside the loop): the first operand against
    the lazy intersection of the others -/
def interR {π : Type} : List (Fib κ π) → Fib κ (List π)
  | [] => []
  | [f] => f.map (fun e => (e.1, [e.2]))
  | f :: g :: gs => (andMerge f (interAll (g :: gs))).map (fun r => (r.1, r.2.1 :: r.2.2))

/-- leader-follower: every presented element of the leader, the followers looked up by coordinate -/
def lfRows : List (Cur κ) → Fib κ (List (Cur κ))
  | [] => []
  | p :: fs => p.elems.map (fun e => (e.1, e.2 :: fs.map (Cur.at e.1)))

/-- the co-iteration of the participants of one loop, by style -/
def coiter (style : Style) (parts : List (Cur κ)) : Fib κ (List (Cur κ)) :=
  match style with
  | .tf => interAll (parts.map Cur.elems)
  | .tfr => interR (parts.map Cur.elems)
  | .lf => lfRows parts
  | .lff => (lfRows parts).filter (fun r => r.2.tail.all (fun c => !c.isEmpty))

def isPart (v : Nat) (c : Cur κ) : Bool := c.ranks.head? == some v

/-- inside the loop body every participant's name is bound to the payload the co-iteration
    delivered for it (`subs`, in participant order); the other operands keep their cursor.
    Operand positions are kept, so the first participant of an inner loop (the leader of a
    leader-follower intersection) is the first one in the program's operand order. -/
def place (v : Nat) : List (Cur κ) → List (Cur κ) → List (Cur κ)
  | [], _ => []
  | c :: cs, subs =>
    if isPart v c then
      match subs with
      | s :: ss => s :: place v cs ss
      | [] => place v cs []
    else c :: place v cs subs

/-- the loop nest.  `order` = loop variables outermost first, `ops` = operand cursors,
    `zr` / `z` = the output's remaining ranks and the (sub-tree of the) output reached -/
def run (style : Style) : List Nat → List (Cur κ) → (zr : List Nat) → Tree κ Int zr.length → Tree κ Int zr.length
  | [], ops, [], z => ((show Int from z) + prodL (ops.map Cur.leaf) : Int)
  | [], _, _ :: _, z => z
  | v :: rest, ops, [], z =>
    (coiter style (ops.filter (isPart v))).foldl
      (fun (acc : Tree κ Int ([] : List Nat).length) r =>
        run style rest (place v ops r.2) [] acc) z
  | v :: rest, ops, zv :: zr, z =>
    if zv = v then
      (populate (0 : Int) zr.length
        (fun _ cur (subs : List (Cur κ)) => run style rest (place v ops subs) zr cur)
        (show Tree κ Int (zr.length + 1) from z) (coiter style (ops.filter (isPart v)))).1
    else
      (coiter style (ops.filter (isPart v))).foldl
        (fun (acc : Tree κ Int (zv :: zr).length) r =>
          run style rest (place v ops r.2) (zv :: zr) acc) z

/-! ### the dense side -/

/-- assignment update -/
def upd (σ : Nat → κ) (v : Nat) (c : κ) : Nat → κ := fun w => if w = v then c else σ w

/-- the operand as a function of an assignment of the index variables -/
def cval (c : Cur κ) (σ : Nat → κ) : Int := val (0 : Int) c.ranks.length c.t (c.ranks.map σ)

def prodVal (ops : List (Cur κ)) (σ : Nat → κ) : Int := prodL (ops.map (fun c => cval c σ))

/-- sum of `F` over all assignments of `vars` with coordinates from `U` (other variables as in `σ`) -/
def esum (U : List κ) : List Nat → ((Nat → κ) → Int) → (Nat → κ) → Int
  | [], F, σ => F σ
  | v :: vs, F, σ => (U.map (fun c => esum U vs F (upd σ v c))).sum

/-- **the dense result** at output point `q`: the sum over all assignments whose output point
    (`zpt σ`) is `q` of the product of the operand values -/
def einsum (U : List κ) (vars : List Nat) (ops : List (Cur κ)) (zpt : (Nat → κ) → List κ)
    (q : List κ) (σ0 : Nat → κ) : Int :=
  esum U vars (fun σ => if zpt σ = q then prodVal ops σ else 0) σ0

/-- **the dense result, read point-wise**: the output variables (`zr`, in loop order) are fixed to the
    coordinates of the point `q`, the remaining (reduction) variables are summed over `U` -/
def dsum (U : List κ) : List Nat → List Nat → List κ → ((Nat → κ) → Int) → (Nat → κ) → Int
  | [], _, _, F, σ => F σ
  | v :: vs, zv :: zr, qc :: q, F, σ =>
    if zv = v then dsum U vs zr q F (upd σ v qc)
    else (U.map (fun c => dsum U vs (zv :: zr) (qc :: q) F (upd σ v c))).sum
  | v :: vs, _, _, F, σ => (U.map (fun c => dsum U vs [] [] F (upd σ v c))).sum

/-- all points of `d` coordinates from `U`, lexicographically -/
def points (U : List κ) : Nat → List (List κ)
  | 0 => [[]]
  | d + 1 => U.flatMap (fun c => (points U d).map (fun p => c :: p))

/-- the non-zero entries of the dense result over the candidate points `cands` -/
def denseOn (U : List κ) (vars : List Nat) (ops : List (Cur κ)) (zpt : (Nat → κ) → List κ)
    (σ0 : Nat → κ) (cands : List (List κ)) : List (List κ × Int) :=
  cands.filterMap (fun q =>
    let v := einsum U vars ops zpt q σ0
    if v = 0 then none else some (q, v))

/-- every coordinate stored in the tree is in `U` -/
def coordsInB (U : List κ) : (d : Nat) → Tree κ Int d → Bool
  | 0, _ => true
  | d + 1, f => (show List (κ × Tree κ Int d) from f).all (fun e => U.contains e.1 && coordsInB U d e.2)

/-! ### operand preparation: `Tensor.swizzleRanks` -/

/-- depth-first extraction: every stored path of length `s` with the payload below it
    (explicit defaults and empty fibers at depth `s` included; a fiber without elements above
    depth `s` has no path and disappears) -/
def flattenN {ν : Type} (r : Nat) : (s : Nat) → Tree κ ν (r + s) → List (List κ × Tree κ ν r)
  | 0, t => [([], t)]
  | s + 1, t =>
    (show List (κ × Tree κ ν (r + s)) from t).flatMap
      (fun e => (flattenN r s e.2).map (fun pv => (e.1 :: pv.1, pv.2)))

/-- `new_c = tuple(frontier_coords[guide[i]] for i in range(swiz_len))` -/
def permute (guide : List Nat) (p : List κ) : List κ := guide.filterMap (fun g => p[g]?)

/-- lexicographic order on coordinate tuples (Python's tuple comparison) -/
def lexLt : List κ → List κ → Bool
  | [], [] => false
  | [], _ :: _ => true
  | _ :: _, [] => false
  | a :: p, b :: q => if a < b then true else if a = b then lexLt p q else false

def insLex {π : Type} (x : List κ × π) : List (List κ × π) → List (List κ × π)
  | [] => [x]
  | y :: r => if lexLt y.1 x.1 then y :: insLex x r else x :: y :: r

/-- `coords.sort()` (the coordinate tuples are distinct) -/
def sortLex {π : Type} (l : List (List κ × π)) : List (List κ × π) := l.foldr insLex []

/-- regroup a sorted list of paths by their first coordinate ("reuse the payloads we have so far") -/
def groupHead {π : Type} : List (List κ × π) → List (κ × List (List κ × π))
  | [] => []
  | (p, x) :: rest =>
    match p with
    | [] => groupHead rest
    | c :: p' =>
      match groupHead rest with
      | (c', g) :: gs => if c = c' then (c, (p', x) :: g) :: gs else (c, [(p', x)]) :: (c', g) :: gs
      | [] => [(c, [(p', x)])]

/-- "add back all of the payloads": the tree whose paths of length `s` are the given ones -/
def rebuild {ν : Type} (dflt : ν) (r : Nat) : (s : Nat) → List (List κ × Tree κ ν r) → Tree κ ν (r + s)
  | 0, l => (l.head?.map (·.2)).getD (defaultTree dflt r)
  | s + 1, l =>
    (show List (κ × Tree κ ν (r + s)) from (groupHead l).map (fun g => (g.1, rebuild dflt r s g.2)))

/-- `swizzleRanks` on the top `s` ranks (`s` = `swiz_len`), the `r` ranks below move with their parent -/
def swizzle {ν : Type} (dflt : ν) (r s : Nat) (guide : List Nat) (t : Tree κ ν (r + s)) : Tree κ ν (r + s) :=
  rebuild dflt r s (sortLex ((flattenN r s t).map (fun pv => (permute guide pv.1, pv.2))))

end

/-- the upper coordinate of a uniform tiling: `c // step * step` -/
def tileOf (step c : Int) : Int := c / step * step

end Ft.C06
