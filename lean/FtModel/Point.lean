/-
  FtModel.Point — point access (fiber.py: `_coord2pos`, `_coordExists`, `getPayload`,
  `getPayloadRef`, `getPosition`, `getPositionRef`, assignment / in-place update through
  a reference).  A reference into a tree is the path it was obtained at.
-/
import FtModel.Basic
namespace Ft

section
variable {κ ν π : Type} [LT κ] [DecidableRel (α := κ) (· < ·)] [DecidableEq κ]

/-- `_coord2pos` with a search-start shortcut: linear scan from `sp` for the first
    coordinate that is not below `c`. -/
def coord2posFrom (f : Fib κ π) (sp : Nat) (c : κ) : Nat :=
  sp + lowerBound (f.drop sp) c

/-- the guard of `getPayload`: `not start_pos or coords[start_pos] <= coord` -/
def legalStart (f : Fib κ π) (sp : Nat) (c : κ) : Bool :=
  sp == 0 || (match f[sp]? with | some e => !decide (c < e.1) | none => false)

/-- `_coord2pos` + `_coordExists`: the payload stored at coordinate `c`, found by position -/
def posLookup (f : Fib κ π) (c : κ) : Option π :=
  match f[lowerBound f c]? with
  | some e => if e.1 = c then some e.2 else none
  | none => none

/-- `getPosition` -/
def getPosition (f : Fib κ π) (c : κ) : Option Nat :=
  match f[lowerBound f c]? with
  | some e => if e.1 = c then some (lowerBound f c) else none
  | none => none

/-- `_createDefault` for a level of payload depth `d`: the leaf default or an empty fiber -/
def defaultTree (dflt : ν) : (d : Nat) → Tree κ ν d
  | 0     => dflt
  | _ + 1 => ([] : List _)

/-- insert at the lower-bound position (`_create_payload`) -/
def insertAt (f : Fib κ π) (c : κ) (p : π) : Fib κ π :=
  f.take (lowerBound f c) ++ (c, p) :: f.drop (lowerBound f c)

/-- `getPayload(*path)` (allocate=True): walk down, synthesising the default (without
    inserting) where a coordinate is missing.  `k` = number of coordinates consumed. -/
def getAt (dflt : ν) : (k d : Nat) → Tree κ ν (d + k) → List κ → Tree κ ν d
  | 0,     _, t, _       => t
  | _ + 1, d, _, []      => defaultTree dflt d
  | k + 1, d, t, c :: cs =>
    getAt dflt k d ((posLookup (show List (κ × Tree κ ν (d + k)) from t) c).getD (defaultTree dflt (d + k))) cs

/-- `getPayload(*point)` at a full point of a tree of depth `d`: the value -/
def getLeaf (dflt : ν) : (d : Nat) → Tree κ ν d → List κ → ν
  | 0,     v, _       => v
  | _ + 1, _, []      => dflt
  | d + 1, f, c :: cs =>
    match posLookup (show List (κ × Tree κ ν d) from f) c with
    | some s => getLeaf dflt d s cs
    | none   => dflt

/-- the tree after `getPayloadRef(*path)`: every missing element on the path is created
    (default payload inserted at its sorted position) -/
def refAt (dflt : ν) : (d : Nat) → Tree κ ν d → List κ → Tree κ ν d
  | 0,     v, _       => v
  | _ + 1, f, []      => f
  | d + 1, f, c :: cs =>
    let l := (show List (κ × Tree κ ν d) from f)
    match posLookup l c with
    | some _ => l.map (fun e => if e.1 = c then (e.1, refAt dflt d e.2 cs) else e)
    | none   => insertAt l c (refAt dflt d (defaultTree dflt d) cs)

/-- apply `g` to the leaf value at `path` (the path must exist: it was obtained by `refAt`) -/
def updateAt (g : ν → ν) : (d : Nat) → Tree κ ν d → List κ → Tree κ ν d
  | 0,     v, _       => g v
  | _ + 1, f, []      => f
  | d + 1, f, c :: cs =>
    (show List (κ × Tree κ ν d) from f).map (fun e => if e.1 = c then (e.1, updateAt g d e.2 cs) else e)

/-- in-place update of every leaf below a (partial) point: `ref = t.getPayloadRef(*p); ref *= k` — with a scalar
    `Fiber.__imul__` walks the fiber below the point and updates each payload box in place (elements it skips as
    empty hold the default, which the update `g` used for it leaves alone) -/
def updateUnder (g : ν → ν) : (d : Nat) → Tree κ ν d → List κ → Tree κ ν d
  | 0,     v, _       => g v
  | d + 1, f, []      =>
    (show List (κ × Tree κ ν d) from f).map (fun e => (e.1, updateUnder g d e.2 []))
  | d + 1, f, c :: cs =>
    (show List (κ × Tree κ ν d) from f).map (fun e => if e.1 = c then (e.1, updateUnder g d e.2 cs) else e)

/-- the abstract view: a tree as a total function from full points to values -/
def val (dflt : ν) : (d : Nat) → Tree κ ν d → List κ → ν
  | 0,     v, _       => v
  | _ + 1, _, []      => dflt
  | d + 1, f, c :: cs =>
    match lookup (show List (κ × Tree κ ν d) from f) c with
    | some s => val dflt d s cs
    | none   => dflt

/-- lookup of a point in a content list -/
def clookup (l : List (List κ × ν)) (p : List κ) : Option ν :=
  (l.find? (fun pv => pv.1 = p)).map (·.2)

/-! ### The operations of the point-access interface and the abstract map machine -/

inductive PointOp (κ ν : Type)
  | get    (p : List κ)                 -- getPayload at a full point
  | ref    (p : List κ)                 -- getPayloadRef at a full point (returns current value)
  | assign (p : List κ) (v : ν)         -- ref <<= v
  | iadd   (p : List κ) (v : ν)         -- ref += v
  | scale  (p : List κ) (g : ν → ν)     -- h = getPayloadRef(*p) at a partial point (or the root itself); h *= k

/-- concrete step on trees of depth `d`; output = the value read / held by the reference (none for `scale`) -/
def pointStep [Add ν] (dflt : ν) (d : Nat) (t : Tree κ ν d) : PointOp κ ν → Tree κ ν d × Option ν
  | .get p      => (t, some (getLeaf dflt d t p))
  | .ref p      => let t' := refAt dflt d t p; (t', some (getLeaf dflt d t' p))
  | .assign p v => let t' := updateAt (fun _ => v) d (refAt dflt d t p) p; (t', some (getLeaf dflt d t' p))
  | .iadd p v   => let t' := updateAt (fun x => x + v) d (refAt dflt d t p) p; (t', some (getLeaf dflt d t' p))
  | .scale p g  => (updateUnder g d (refAt dflt d t p) p, none)

/-- abstract step on maps from points to values -/
def specStep [Add ν] (m : List κ → ν) : PointOp κ ν → (List κ → ν) × Option ν
  | .get p      => (m, some (m p))
  | .ref p      => (m, some (m p))
  | .assign p v => ((fun q => if q = p then v else m q), some v)
  | .iadd p v   => ((fun q => if q = p then m p + v else m q), some (m p + v))
  | .scale p g  => ((fun q => if p <+: q then g (m q) else m q), none)

def pointRun [Add ν] (dflt : ν) (d : Nat) : Tree κ ν d → List (PointOp κ ν) → Tree κ ν d × List (Option ν)
  | t, [] => (t, [])
  | t, op :: ops =>
    let r := pointStep dflt d t op
    let rest := pointRun dflt d r.1 ops
    (rest.1, r.2 :: rest.2)

def specRun [Add ν] : (List κ → ν) → List (PointOp κ ν) → List (Option ν)
  | _, [] => []
  | m, op :: ops => let r := specStep m op; r.2 :: specRun r.1 ops

def PointOp.point : PointOp κ ν → List κ
  | .get p | .ref p | .assign p _ | .iadd p _ | .scale p _ => p

/-- the operations the refinement theorem speaks about: full points for reads, references and writes; any
    partial point (the root included) for in-place scaling, with an update that leaves the default alone -/
def PointOp.ok (dflt : ν) (d : Nat) : PointOp κ ν → Prop
  | .scale p g => p.length ≤ d ∧ g dflt = dflt
  | op => op.point.length = d

end
end Ft
